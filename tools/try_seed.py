#!/usr/bin/env python3
"""Run a property check against /repo + a seeded patch, without touching /repo.

usage: try_seed.py <property> <patch.diff> [more properties...]
The patch is applied to copies of the files it touches; the copies are fed to
the checker through a go build overlay. Prints the check's verdict lines.
"""
import json, os, re, shutil, subprocess, sys, tempfile
VERIF = os.path.dirname(os.path.dirname(os.path.abspath(__file__)))
REPO = os.environ.get("VERIF_REPO", "/repo")

def overlay_for(patch):
    tmp = tempfile.mkdtemp(prefix="seed_")
    files = re.findall(r'^\+\+\+ b/(\S+)', open(patch).read(), re.M)
    for f in files:
        dst = os.path.join(tmp, "tree", f)
        os.makedirs(os.path.dirname(dst), exist_ok=True)
        src = os.path.join(REPO, f)
        if os.path.exists(src):
            shutil.copy(src, dst)
    r = subprocess.run(["patch", "-p1", "-s", "-d", os.path.join(tmp, "tree"), "-i", os.path.abspath(patch)], capture_output=True, text=True)
    if r.returncode != 0:
        print("patch does not apply:", r.stdout, r.stderr)
        sys.exit(3)
    ov = {"Replace": {os.path.join(REPO, f): os.path.join(tmp, "tree", f) for f in files if f.endswith(".go")}}
    p = os.path.join(tmp, "overlay.json")
    json.dump(ov, open(p, "w"))
    return tmp, p

def main():
    patch = sys.argv[2]
    props = [sys.argv[1]] + sys.argv[3:]
    tmp, ov = overlay_for(patch)
    try:
        for prop in props:
            vdir = os.path.join(tmp, "verif_" + prop)
            os.makedirs(vdir)
            shutil.copy(os.path.join(VERIF, "known-findings.txt"), vdir)
            env = dict(os.environ); env["GOFLAGS"] = "-mod=mod"
            r = subprocess.run([os.path.join(VERIF, "bin", "manticheck"), "check", "--property", prop, "--tier", "quick",
                                "--repo", REPO, "--verif", vdir, "--overlay", ov], capture_output=True, text=True, env=env)
            lines = [l for l in (r.stdout + r.stderr).splitlines() if not l.startswith("KNOWN-FINDING")]
            viol = [l for l in lines if l.startswith("VIOLATION")]
            print(f"== {prop}: exit={r.returncode} violations={len(viol)}")
            for l in lines:
                if not l.startswith("VIOLATION"):
                    print("   " + l[:400])
    finally:
        shutil.rmtree(tmp, ignore_errors=True)
main()
