#!/usr/bin/env python3
"""Regenerates MANIFEST.json from the table below (claims) + properties.jsonl."""
import json, os
V = os.path.dirname(os.path.dirname(os.path.abspath(__file__)))
props = [json.loads(l) for l in open(os.path.join(V, "properties.jsonl"))]

TRUST = ("Trusted base: go/parser, go/types and the go/ssa builder of x/tools v0.50.0; the checker's own rule code "
         "(exercised both ways by selftest/run.py variants); type-based aliasing of struct fields; int is 64 bits. "
         "Nothing is executed; a verdict is about the source as type-checked for linux/amd64, non-test files.")

CLAIMS = {
 "C03": dict(
   technique="static analysis: factory/constructor/code tables over go/ssa, header layout against the MS-CIFS field table with entailed offsets, bit-lane inverse of GetPID/SetPID, count/length framing guards and a module-wide who-writes pair invariant, and an accumulate-versus-reset dominance rule for repeatable Marshal",
   text="All 114 (code, reply flag) dispatch cases are enumerated from the two factories and each must return the constructor that sets that very code; the header encoder and decoder are compared field by field with the MS-CIFS 2.2.3.1 table (offsets entailed in the context of each read, widths, little-endian, 8-byte SecurityFeatures in every implementation, total 32); the word count is emitted only under the WordCount == len(Words) guard and every writer of Data.Bytes keeps ByteCount equal to its length; Message.Marshal is header then command; and Marshal is repeatable because every call that appends to the embedded parameter/data blocks is dominated by an unconditional reset to fresh blocks and the envelope encoders never write their own fields. These are structural facts that hold for every field value and every number of Marshal calls.",
   note=TRUST + " Additional for C03: arbitrary block contents surviving the round trip is C04/C06; behaviour beyond 255 words / 65535 bytes is outside the stated domain; the MS-CIFS header table is transcribed in the checker (rules/c03.go).",
   design="§4 C03"),
 "C04": dict(
   technique="static analysis: wire-layout extraction from go/ssa def-use chains (encoder append chains vs decoder field stores) compared per command type",
   text="For each of the 115 command structures the encoder's and the decoder's wire layouts are extracted from the code and compared atom by atom (same fields, order, width, byte order, nested type), the decoder's offsets are checked to be the running sum of the widths before them, every declared wire field must appear once in each direction in declaration order with the width of its type, AndX commands must consume the AndX block first, and a nested decoder must be handed a window at least as large as what it consumes. These are structural necessary conditions of the round trip that hold for every field value at once; value-level consistency of length fields and the inverse-ness of nested types are not decided here.",
   note=TRUST + " Additional for C04: encoding/binary accessors have their documented layouts; Parameters packs bytes into words and back symmetrically (C06); only the idioms listed in DESIGN.md §3 E2 are recognised — an idiom the extractor cannot read is reported as NOT DECIDED (see the policy at the end of the claim), a mismatch in a fully read layout as a violation.",
   design="§3 E2, §4 C04"),
 "C11": dict(
   technique="static analysis: exact bit-lane provenance of the 4-byte session header over go/ssa, dominating-guard refusal proof (E1), and I/O-discipline rules on Send/Receive",
   text="For all payload lengths at once: each of the 32 header bits handed to conn.Write is shown to be the SESSION_MESSAGE type, bit 16 of len(data) in bit 0 of the flags byte and the low 16 length bits big-endian, and the length Receive allocates is shown to be built from exactly the mirror header bits; a dominating guard must refuse payloads whose length does not fit the bits carried; every read is io.ReadFull/ReadAtLeast with its error tested and every success return is dominated by the success of both reads, returning the buffer of exactly the decoded length; header and payload reach the connection in one Write. Behaviour under arbitrary TCP segmentation or a cut connection follows from the trusted io.ReadFull contract and is not explored.",
   note=TRUST + " Additional for C11: io.ReadFull/io.ReadAtLeast contract (all-or-error); net.Conn.Write atomicity for a single call; concurrent Sends are out of scope.",
   design="§4 C11"),
 "C15": dict(
   technique="static analysis: E1 linear-fact prover in overflow mode over every 64-bit arithmetic op, narrowing conversion and time.UnixNano/Unix call in the conversion functions, plus typed-AST unit/epoch constant tables and inverse-pair rules",
   text="Every + - * << on 64-bit integers, every narrowing or sign-changing conversion and every time-API call with a representability precondition inside the 16 conversion functions (and their in-module callees) is an obligation: the exact mathematical result must be entailed to lie in the result type's range from dominating guards alone, with inputs ranging over their full type (so the 'never' sentinels are covered by construction); every scale/epoch constant must be one of the admissible values in the role (multiply/divide/add/subtract) confirmed per function; and in each direction pair the epoch added one way is subtracted the other and the scale multiplied one way is divided the other. Exactness and inverse-ness as arithmetic identities beyond that are not decided.",
   note=TRUST + " Additional for C15: time.Now() lies in 1970..2262; results of calls outside the module range over their full type; time.Unix(sec, nsec) is total while UnixNano/UnixMicro/UnixMilli need a dominating representability guard; which saturation value is right is a policy choice, not decided.",
   design="§3 E1 overflow mode, §4 C15"),
 "C17": dict(
   technique="static analysis: lockset / exclusive-lock / lock-pairing / re-entry / guarded-alias-escape / who-may-touch rules on go/ssa with a flow-sensitive lock-state analysis",
   text="The schedule-independent structural part of the property is decided for every interleaving at once: every load or store of the name table and of NameRecord fields reached through it executes with the server's RWMutex held on the same receiver (exclusive for writes), locks are paired on every exit and never re-acquired while held, no return value, channel send or outside store aliases guarded memory (QueryName must return a fresh copy), and nothing outside the server's methods touches the table. An unlocked or under-locked access is a race under some schedule however rarely a test would provoke it. The register/release/refresh conflict matrix, owner de-duplication and expiry semantics are histories of run-time values and are NOT decided by this family.",
   note=TRUST + " Additional for C17: sync.RWMutex semantics; element values of Owners (net.IP bytes) are treated as immutable; panics between Lock and an explicit Unlock are not considered; linearizability of compound caller sequences is not decided.",
   design="§3 E4, §4 C17"),
 "C19": dict(
   technique="static analysis: typed-AST table rules (enum coverage, name uniqueness, flag-family single bits, decomposer and predicate shape, deterministic order) over go/types constant values",
   text="Every declared constant of every bound enum/flag family (about 1800 NT status rows, command and sub-command codes, flag words) is enumerated from the type-checked source: each must be a key of its name table / have a case, names must be non-empty, non-placeholder and unique, flag constants single distinct bits, each decomposer test must test one constant against itself and append that constant's name exactly once in a deterministic order, each predicate must depend on exactly its own bit, and every non-success NT status must map to a non-nil error whose text carries the numeric code. Exhaustive over table rows by construction, which is what the property quantifies over.",
   note=TRUST + " Additional for C19: fmt/sort/strings semantics trusted; constant values are not compared with the Microsoft specifications; what name functions yield for undeclared values is only required to differ from declared names.",
   design="§3 E3, §4 C19"),
 "C05": dict(
   technique="static analysis: byte-order discipline over every encoding/binary accessor call in the SMB1 packages, plus wire-layout rules (AndX block, per-dialect format byte, buffer-format table, declared-width) from go/ssa",
   text="Byte order is invisible to round-trip checks, so it is decided structurally: each of the ~650 fixed-width accessor calls in network/smb/smb_v10 must be little-endian (Parameters' internal word packing is admitted only under a machine-checked transparency side condition), the AndX block layout must be command/reserved/offset in Marshal, Unmarshal and through the word packing, Dialects must emit and check the 0x02 format byte and terminator per dialect, the SMB_STRING buffer formats must be the five distinct codes with a case each, and every fixed-width command field must be as wide on the wire as its UCHAR/USHORT/ULONG type. Agreement with an independent MS-CIFS implementation is inferred from these, not tested.",
   note=TRUST + " Additional for C05: encoding/binary accessors have their documented byte layouts; constant values and field semantics are not compared with the specification. Five big-endian sites (AndX offset ×3, SMB_FILE_ATTRIBUTES ×2) are recorded as known findings because existing unit tests pin their bytes.",
   design="§4 C05"),
 "C18": dict(
   technique="static analysis: alias/retain summaries for receive buffers handed to goroutines, mask-satisfiability and sibling-dispatch tables over typed constants, def-use provenance of transaction ids, and lifecycle structure of serve loops on go/ssa",
   text="Schedule-independent structural hazards are decided for every interleaving: a buffer refilled by a receive loop must not reach a goroutine, channel or retained state without being copied (alias and retains summaries over the call graph); every NBNS opcode classification uses one mask that contains all dispatched Op* constants and lies within the R+OPCODE bits, all dispatchers map each opcode to the same handler, and each handler reaches its own name-table operation; every response's transaction id derives from its request's on every path and the LLMNR client's delivery is a non-blocking send to the query registered under the decoded id; every serve loop tests its quit channel each iteration, Stop closes that channel and unblocks the blocking call, goroutines are WaitGroup-paired, and request goroutines store only to per-request state. Absence of all races/deadlocks under every schedule and promptness are NOT decided.",
   note=TRUST + " Additional for C18: a table of standard-library alias/retention contracts; user-supplied LLMNR handlers (function values) are not followed; a quit mechanism that is not a channel would be reported.",
   design="§4 C18"),
 "C06": dict(
   technique="static analysis: per-type wire-layout symmetry from go/ssa (per buffer format, through inner blocks and delegation), exact bit lanes for the packed date, returned-count = encoded-width rules, E1 proof of 0 <= n <= len(data), and a trailing-byte independence rule",
   text="For each of the 17 wire types the encoder and decoder layouts are extracted and required to agree atom by atom, decoder offsets to be contiguous, and the byte count returned on success to equal the encoder's width (a constant for fixed-size types; the end of the last field plus the encoder's trailing constant bytes for variable ones); the consumed count is proved to lie within the input for all inputs; the decoder must not compare the input length for (in)equality nor let it flow into a decoded value, so unrelated trailing bytes cannot change the result; SMB_DATE is decided by exact bit-lane provenance (day 0-4, month 5-8, year-1980 9-15, same bias both ways). These are necessary structural conditions of 'decodes its own encoding and consumes exactly it'; equality of arbitrary field values follows for whole-byte fields and the packed date inside its stated lossless ranges only.",
   note=TRUST + " Additional for C06: encoding/binary accessor layouts; string content rules (embedded NUL), file-name padding and out-of-range date values are not decided. One known finding (SMB_NMPIPE_STATUS exact-length test) is pinned by an existing unit test.",
   design="§4 C06"),
 "C07": dict(
   technique="static analysis: linear-fact prover over go/ssa discharging the Go compiler's residual bounds checks, plus panic-source, allocation, loop-ranking and recursion rules over the call graph from the decoder entry points",
   text="Every index/slice/fixed-width-accessor site, division, assertion, make() size, loop and call cycle reachable from the rule-selected decoder entry points is an obligation decided for all inputs at once: bounds sites are discharged either by the Go compiler's prove pass or by entailment from dominating conditions, non-wrapping definitions, loop invariants and callee summaries (Fourier-Motzkin over integers). This is the right level because the property quantifies over all byte strings and a missing guard is a structural fact of the code; it is not a 'proof' claim because some helper decoders without an error path remain as recorded known findings.",
   note=TRUST + " Additional for C07: the go1.26.8 compiler's prove pass (a site not listed by -d=ssa/check_bce is in bounds); len(x) <= 2^48; loop-carried 64-bit signed counters stay within +-2^62; listed standard-library callees are total; io.Reader contract 0<=n<=len(buf); decoders taking an `offset int` are called with offset >= 0 (checked at in-module call sites); nil receivers/arguments are API misuse and out of scope; CPU cost beyond 'every loop has a ranking argument' and allocation inside the standard library are not decided.",
   design="§3 E1, §4 C07"),
}

NARROW = " This check decides named structural NECESSARY conditions of the property, not the behaviour itself; the behavioural remainder listed in the evidence explanation is not decided by this technique."
CLAIMS.update({
 "C01": dict(
   technique="static analysis: def-use provenance (must-pass-through / must-not-pass / operand order) on go/ssa, PURE-READ effect summaries, and exact bit-lane maps for UTF-16LE and the 7-to-8-byte DES key spreading",
   text="Decided: reading an MD4 digest writes none of the running state (so later reads/writes are unaffected); NT/DCC/DCC2/LM and every hex/hashcat wrapper are the mandated compositions on every def-use path (UTF-16LE of the password as supplied into MD4; NT hash then UTF-16LE(lower(user)); PBKDF2 with the same salt value, the rounds parameter, 16 bytes, SHA-1; upper-case, 14-byte pad, halves [0:7],[7:14], the KGS!@#$% constant, result order); EncodeUTF16LE/DecodeUTF16LE are inverse byte-lane maps; the 56 key bits land in bits 7..1 of the 8 DES key bytes. NOT decided: equality with RFC 1320 / MS-NLMP reference outputs, MD4 round and padding arithmetic, invariance under write splitting, DES/PBKDF2 numerics." ,
   note=TRUST + NARROW + " Additional for C01: unicode/utf16, crypto/des, pbkdf2, sha1 are trusted to be what their names say.",
   design="§3 E5/E4/E2, §4 C01"),
 "C02": dict(
   technique="static analysis: def-use provenance and same-value rules on go/ssa for the DESL chains, NTOWFv2 identity, proof/blob identity, blob layout extraction, and hashcat argument provenance",
   text="Decided: each of the three NTLMv1 entry points is three ParityAdjust→DES→Encrypt(server challenge) chains over key windows [0:7],[7:14],[14:21] of the zero-padded hash, concatenated in order, with the right hash source, and the siblings agree; at the NTOWFv2 sites the user passes ToUpper and the domain does not (or, inside the SMB client, is the very value sent on the wire), user before domain, keyed by the NT hash; the bytes MAC'd after the server challenge are the same SSA value appended after the proof; the blob layout is 01 01 00×6 | timestamp(8, LE) | client challenge | 00×4 | target info with the supplied client challenge; the hashcat line's five arguments are user, domain, hex(server challenge), hex(response[:16]), hex(response[16:]). NOT decided: DES/HMAC/MD5 numerics, ParityAdjust bit arithmetic, AV-pair well-formedness, timestamp values.",
   note=TRUST + NARROW,
   design="§3 E5, §4 C02, Appendix A"),
 "C08": dict(
   technique="static analysis: value-carrying byte-stream extraction of the NTLMSSP builders from go/ssa, symbolic descriptor arithmetic over len(payload) forms, E1 narrowing proofs, charset provenance, decoder lane maps, and SPNEGO length-framing structure",
   text="Decided for all field values at once: signature and message type constants, every fixed field at its MS-NLMP offset and little-endian, header size = sum of fixed atoms = payload start; for each descriptor Len = MaxLen = len(payload) without truncation (E1), Offset = header size + the symbolic sum of the payloads appended before it, each payload designated by exactly one descriptor and appended once; names derive through EncodeUTF16LE exactly on the Unicode branch of the negotiated flag; ParseChallengeMessage reads the CHALLENGE fields at their offsets and slices each descriptor by the very values its guard tested; ParseTargetInfo walks AvId/AvLen/value to MsvAvEOL; encodeLength and the GSS header/skip logic mirror each other. NOT decided: DER round trip through encoding/asn1 for all token lengths (library semantics), numeric content of the responses.",
   note=TRUST + " Additional for C08: encoding/asn1 is trusted; the MS-NLMP layout tables are transcribed in the checker.",
   design="§4 C08, Appendix B"),
 "C09": dict(
   technique="static analysis: wire-layout extraction (encoder backwards from the returned slice, decoder forwards from every input read) compared per atom, guard/length/section/name-constant rules with E1 proofs",
   text="Decided: question, resource-record and header encoders and decoders agree atom by atom and are big-endian on both sides; decoder reads are contiguous and each guard constant equals the end of what it protects; RDLENGTH is len(RData) on encode and the width of the RData read on decode; for each of the four (count, section) pairs the count is written from len(section), the section's elements are emitted, the count is read and a loop bounded by it fills that section, in RFC order; the label length byte is proven <= 63 under the encoder's guard, the 0xC0 / 0x3FFF / 63 / 255 constants are used consistently, and the compression pointer is proven strictly backwards at the recursive call. NOT decided: agreement with an independent RFC 1035 codec (name length on decode, label types, root-name text form).",
   note=TRUST + NARROW,
   design="§4 C09"),
 "C10": dict(
   technique="static analysis: wire-layout extraction for NBNS packets (including the closure and the loop over the slice of sections) and exact bit-lane maps for first-level name encoding",
   text="Decided: the six header words and every question/record atom agree between Marshal and Unmarshal, big-endian both ways, all four sections written and read in RFC order with counts taken from the section lengths; name and RDATA extents equal their length fields and the narrowing of the name length to a byte is lossless under a guard; FirstLevelEncode places the high and low nibble of name[i] plus 'A' at bytes 2i and 2i+1 and FirstLevelDecode reassembles (hi<<4)|lo from the same positions with the same constant, sizes 16/32, pad ' ' matching the trim set. NOT decided: conformance of the name field to RFC 1002 (no terminating root label — observed, not ruled), names ending in spaces, scope syntax.",
   note=TRUST + NARROW,
   design="§4 C10"),
 "C12": dict(
   technique="static analysis: who-writes / PURE-READ effect tables for CMAC and RC4 state on go/ssa, and def-use provenance of the GPP encrypt/decrypt chains with constant-table comparison of the AES key",
   text="Decided: cmac.Sum writes only its scratch digest, Reset writes exactly the running-state fields to zero, Write is the only other writer; RC4 state is written only by the constructor, Reset and XORKeyStream; GPPPEncrypt is EncodeUTF16LE → pkcs7.Pad(aes.BlockSize) → CBC-encrypt under GPPP_AES_KEY with a fresh zero IV → base64 and GPPPDecryptBytes is the mirror with the same key variable, which equals the 32 bytes published in MS-GPPREF and is never written; a dominating block-multiple guard precedes CryptBlocks. NOT decided: RC4/CMAC/PKCS#7/AES numerics, chunking invariance, completeness of padding rejection.",
   note=TRUST + NARROW,
   design="§4 C12"),
 "C13": dict(
   technique="static analysis: abstract interpretation of go/ssa over the bit-lane domain (integers as lane vectors, strings as sequences of literal bytes and hex digits) for GUID/UUID binary and text codecs, plus format-versus-regex structural comparison",
   text="Decided for all 2^128 values at once, because only bit movement is involved: GUID ToBytes/FromRawBytes equal the MS-DTYP mixed-endian layout and are mutual inverses; for each of N/D/B/P/X the ToFormat output shape equals its regex constant position by position, the 32 digits carry the 128 bits exactly once, and each FromFormat parser accepts that shape, consumes every digit exactly once with bit sizes matching the destination fields, and is the inverse bit map of the formatter; inputs are trimmed and lower-cased before validation; UUID, v1, v2, v8 Marshal/Unmarshal are inverse bit maps with version and variant nibbles in bytes 6 and 8, and the String/FromString slicing is the 8-4-4-4-12 table. Field bits that do not fit are reported as domain restrictions. NOT decided: v1/v2 timestamp arithmetic (C15), RFC 4122 field split beyond the nibbles.",
   note=TRUST + " Additional for C13: strconv.ParseUint, fmt %0Nx and regexp are trusted to have their documented meaning.",
   design="§3 E2 bit lanes, §4 C13"),
 "C14": dict(
   technique="static analysis: entry-type table agreement, entry-header and BCRYPT_RSAKEY_BLOB layout extraction, threshold agreement of the CustomKeyInformation siblings via E1, control-dependence of CheckIntegrity, and separator/field-count rules for DNWithBinary",
   text="Decided: every entry type ToBytes writes is handled by FromBytes with the same field, the entry header is len(2, LE) | type | data on all three walkers, ComputeKeyHash covers exactly what follows the KeyHash entry, each CustomKeyInformation field is encoded under the size condition under which it is decoded, the RSA blob header lanes and big-endian exponent agree both ways, CheckIntegrity can return true only after comparing lengths and every byte, and DNWithBinary.Parse keeps separators inside its last field. NOT decided: that altering any covered bit is detected (SHA-256 semantics), whole-credential re-serialisation equality.",
   note=TRUST + NARROW,
   design="§4 C14"),
 "C16": dict(
   technique="static analysis: bit-lane map of the binary SID reads, string-template abstraction of the text construction evaluated for every sub-authority count 0..15, and structural rules for the DN walk",
   text="Decided: revision, count, the 48-bit big-endian authority and each 32-bit little-endian sub-authority are read from their MS-DTYP offsets; no early exit is feasible for a well-formed SID; for each count 0..15 the produced template is S-<rev>-<authority> followed by exactly count '-<decimal>' elements; the domain derivation decomposes the DN with an escape-aware parser, keeps exactly the DC components' values in order and joins them with '.'. NOT decided: fmt's %d rendering, the hexadecimal authority form for values >= 2^32, what ParseDN accepts.",
   note=TRUST + NARROW,
   design="§4 C16"),
 "C20": dict(
   technique="static analysis: validated-value consistency on the go/ssa def-use graph, printer-template versus parser-access-path agreement (separators, arity, field/verb/base/bit-size), and dependency rules for subnet/range predicates",
   text="Decided: in every parser a value consumed after validation is the very value that was validated (same normaliser chain); for IPv4, IPv6 and port ranges each field the parser reads is the field the printer prints at that position, with every emitted separator consumed and the part counts agreeing; IsInSubnet depends on both addresses and on the prefix length, IsInRange on all address fields. NOT decided: mask and comparison arithmetic, IPv6 compressed/zone text forms, what the regular expressions accept. One known finding: IPv6.IsInSubnet is plain equality because the type has no prefix length (API extension needed).",
   note=TRUST + NARROW,
   design="§4 C20"),
})

m = {
 "version": 1,
 "setup_cmd": "./setup.sh",
 "hooks": {"guard": "verif", "enable": "none: static analysis needs no instrumentation; no hook commits exist",
           "baseline_off_cmd": "cd /repo && go test -mod=mod -json -vet=off -count=1 -timeout 25m ./...",
           "source_commits": [], "add_only": True},
 "engines": [{"name": "manticheck", "path": "checker/", "serves_properties": sorted(CLAIMS),
              "kind_free_text": "custom static analyser over go/types + go/ssa (x/tools v0.50.0, go1.26.8) plus the Go compiler's residual bounds-check list"}],
 "checks": [],
 "not_applicable": [],
 "notes": "All checks decide their property from /repo's current source without running it (see DESIGN.md). Exit 2 without a VIOLATION line means the checker itself is broken.",
}
# Structural clauses added after independently seeded changes were missed (DESIGN.md §I.5).
WIDEN = "no 8/16-bit + * << whose result is later widened may wrap (E1 proof)"
EXACT = "guards on a read's upper bound admit hi == len(input) (no exact-fit input is rejected)"
EXT = {
 "C01": ("; E1 cursor proof of contiguous input consumption in MD4.Write", " Added: MD4.Write hands the bytes of its argument to its consumers contiguously (first at 0, each next where the previous ended, cursor == len(p) at return, copy destinations long enough), proved with the linear prover over the CFG for the index-cursor idiom."),
 "C02": ("", " A return that forwards a callee's (value, err) pair counts as a success path of the response builders."),
 "C03": ("; shared widen-after-wrap and exact-fit rules", " Added: " + WIDEN + "; " + EXACT + "."),
 "C04": ("; shared widen-after-wrap rule", " Added: " + WIDEN + "."),
 "C06": ("; shared widen-after-wrap and exact-fit rules", " Added: " + WIDEN + "; " + EXACT + "."),
 "C08": ("; shared widen-after-wrap and exact-fit rules", " Added: " + WIDEN + "; " + EXACT + "."),
 "C09": ("; decoded-field identity, widen-after-wrap and exact-fit rules", " Added: a struct field filled from an integer wire read holds exactly that read on every path; " + WIDEN + "; " + EXACT + "."),
 "C10": ("; decoded-field identity and widen-after-wrap rules", " Added: a struct field filled from an integer wire read holds exactly that read on every path; " + WIDEN + "."),
 "C11": ("; shared widen-after-wrap rule", " Added: " + WIDEN + "."),
 "C12": ("; must-write-back of stream state, truth-table domain of the PKCS#7 block-size guard, and abstract interpretation over Z/4 of the base64 re-padding", " Added: RC4.XORKeyStream and cmac.Write store every state field they advance; pkcs7.Pad's guards on its uint8 block size reject 0 only; for every residue of the input length the string handed to base64.StdEncoding.DecodeString has length = 0 mod 4."),
 "C14": ("; payload-emission conditions, verbatim flow of the DN, widen-after-wrap and exact-fit rules", " Added: a key-material field whose length slot is unconditional is emitted under conditions on that field only; DistinguishedName reaches its field through conversions/SplitN only; " + WIDEN + "; " + EXACT + "."),
 "C15": ("; E1 range proof of the 60-bit UUID timestamp at every store in SetTime", " Added: every value SetTime stores into the UUID Time field is proved <= 2^60-1."),
 "C16": ("; shared widen-after-wrap rule", " Added: " + WIDEN + "."),
 "C17": ("; control-dependence rules owner-gate, conflict-unique and expiry-gate on the CFG", " Added necessary conditions of the semantics clauses: every table mutation in owner-taking methods is control-dependent on a positive ownership comparison; no mutation is reachable from the is-Unique outcome of RegisterName's type tests; every sweeping delete is dominated by a positive TTL test with no unlock in between. The full conflict matrix remains undecided."),
 "C18": ("; per-iteration allocation of request objects, connection-registry key provenance, and must-execute of close() inside Once bodies", " Added: no object allocated outside a goroutine-spawning loop and written inside it reaches a go statement of that loop; a connection registry key is the connection or derives from RemoteAddr(); a Once body that closes a channel closes it on every path."),
 "C20": ("; no signed view of an unsigned difference in network/ip, forbidden dependence of IsInSubnet on the host's own prefix, regexp/syntax case analysis of constant patterns", " Added: no function of network/ip reinterprets an unsigned difference as signed; IsInSubnet does not depend on the host operand's prefix length; every constant pattern ParseLMNTHashes matches against admits both letter cases."),
}
ERRP = "in the decoders of this property the non-nil arm of every test of an in-module callee's error ends in returns that carry a non-nil error (a decode error is never swallowed into a success)"
IDENT = "a struct field filled from an integer wire read holds exactly that read on every path (no later store can overwrite it; composite-literal temporaries are the variable they initialise; stores in mutually exclusive branches are fine)"
EXT2 = {
 "C03": ("; error-propagation rule on the CFG", " Added: " + ERRP + "."),
 "C04": ("; error-propagation, decoded-field identity and long-form word-count rules", " Added: " + ERRP + "; " + IDENT + "; a decoder that recognises the long form of a command by WordCount == K uses the K that the encoder's long form has (sum of the constant widths of the parameter layout over 2)."),
 "C06": ("; error-propagation, decoded-field identity, one-encoding-per-format, terminator-on-every-path and E1 length-slot rules", " Added: " + ERRP + "; " + IDENT + "; every buffer format of SMB_STRING is encoded by one layout (no data-dependent second layout) and a NUL terminator that follows the payload is appended on every success path after it; where the decoder reads a payload of exactly F bytes, the encoder's F slot provably holds len(payload) (reported only when the slot holds the incoming field untouched)."),
 "C09": ("; error-propagation rule; exact-fit also on start guards", " Added: " + ERRP + "; a guard on the START of a variable-width read admits an empty field at the very end of the input."),
 "C10": ("; error-propagation rule", " Added: " + ERRP + "."),
 "C01": ("; symbolic evaluation of the composition (normal-form terms) as a second opinion", " Where a composition recogniser does not match the spelling, the anchor is executed symbolically (control flow, counters and lengths concrete; data as normal-form terms over cat/hash/des/LE/BE/utf16/upper…, helpers, closures and library contracts entered) and the resulting term is compared with the specification term of the group."),
 "C02": ("; symbolic evaluation of the composition (normal-form terms) as a second opinion", " Where a composition recogniser does not match the spelling, the anchor is executed symbolically and the resulting term (DESL chain, HMAC-MD5 proof over challenge‖blob, blob layout, hashcat line) is compared with the specification term of the group."),
 "C12": ("; symbolic evaluation of the GPP composition as a second opinion", " Where the GPP recogniser does not match the spelling, both GPP sides are executed symbolically and compared with AES-256-CBC under the published key and a zero IV."),
 "C14": ("; format-operand data-flow rule", " Added: the format operand of every fmt formatting call in the DNWithBinary printers is built from constants and %-free producers only (a free-form string is an operand, never part of the format)."),
}
POLICY = " COMPLETENESS BEFORE VERDICT: a violation is reported only for a construct positively observed in a completely extracted flow; a shape the method cannot read is reported as NOT DECIDED (a discharged obligation with a note, counted in coverage.not_decided, floors credited), so behaviour-preserving rewrites into unread shapes are silent and breaking changes hidden in such shapes are missed; a missing entry point of the property, a type-check failure or a panic of the checker still fails the check."
for _i, (_t, _x) in EXT.items():
    CLAIMS[_i]["technique"] += _t
    CLAIMS[_i]["text"] += _x
for _i, (_t, _x) in EXT2.items():
    CLAIMS[_i]["technique"] += _t
    CLAIMS[_i]["text"] += _x
EXT3 = {
 "C01": ("; per-site byte-order rule", " Added: in a UTF-16LE encoder with several emission sites no site writes byte(u>>8) before byte(u), and the two results of unicode/utf16.EncodeRune are not emitted low surrogate first (positive observation per site; other multi-site layouts are NOT DECIDED)."),
 "C10": ("; memo-key rule", " Added: no map store m[obj.F] = f(obj) memoises the result of an in-module callee that reads a field of obj other than the key field (a cache keyed by part of what the cached value depends on); a scope tail taken from s[i+k:] with k different from the separator's length and a reverse half-ASCII table that does not invert the alphabet are findings."),
 "C02": ("; fresh-result rule", " Added: no []byte returned by an exported method of the response types is built in the receiver's own storage (two calls would share it)."),
 "C03": ("; header decode on every path; Marshal idempotence on a fresh local block", " Added: the SecurityFeatures bytes are handed to their decoder on every path to a success return of Header.Unmarshal; untraced integer slots of the header are resolved by their bit lanes; an accumulating call on a block freshly constructed in the same Marshal is idempotent."),
 "C04": ("; append-in-place rule", " Added: no encoder appends onto a slice field of its receiver without storing the result back (the backing array may be shared with the caller)."),
 "C05": ("; one-layout-on-every-path and append-in-place rules", " Added: AndX.GetParameters returns the same word layout whatever the field values are; no encoder appends onto a slice field of its receiver without storing the result back."),
 "C06": ("; append-in-place rule", " Added: no encoder appends onto a slice field of its receiver without storing the result back."),
 "C11": ("; helper tuple results followed, defer-spilled returns read back", " Added: framing moved into in-module helpers returning (value, error) is followed (the helper's failure returns are ignored only where every use sits under the caller's err == nil edge; upper bounds the helper establishes on its integer parameter are conditional postconditions of its nil error); results spilled for a defer are read back from their store; the synthetic recover block is ignored when no deferred call can recover; a payload size that is the decoded length adjusted by constant arithmetic is a finding; lanes of unknown provenance are NOT DECIDED."),
 "C12": ("; shared block mode rule", " Added: CryptBlocks is not run on a block mode held in a package-level variable (its CBC chaining value survives the call)."),
 "C15": ("; modular unsigned arithmetic judged on the pre-conversion operands", " Added: an unsigned add/sub/neg whose operands are same-width conversions of signed values is proved exact when the sum/difference/negation of the values before conversion lies in the unsigned range; such a conversion is accepted only when every use is such an operation or sits where the source value is proved to fit; operands of math/bits Mul64/Add64/Sub64/Div64 keep their arithmetic roles in the unit table."),
 "C17": ("; stale-lookup rule", " Added: no path table-lookup → Unlock → Lock → use of the looked-up value (check-then-act across a lock gap)."),
 "C18": ("; lock pairing and partial connection key rules", " Added: every Lock()/RLock() in the server packages is released on every path to a return (call or registered defer); a connection-registry key is not a part of RemoteAddr() (host without port)."),
 "C19": ("; decode-resets rule", " Added: a slice field grown by f = append(f, …) in a flags decoder is first assigned a value independent of its previous contents."),
}
for _i, (_t, _x) in EXT3.items():
    CLAIMS[_i]["technique"] += _t
    CLAIMS[_i]["text"] += _x
for _i in CLAIMS:
    CLAIMS[_i]["text"] += POLICY

NA = {}
na_path = os.path.join(V, "tools", "not_applicable.json")
if os.path.exists(na_path):
    NA = json.load(open(na_path))
for p in props:
    i = p["id"]
    if i in CLAIMS:
        c = CLAIMS[i]
        m["checks"].append({
          "property_id": i, "quick_cmd": f"./check.sh {i} quick", "thorough_cmd": f"./check.sh {i} thorough",
          "evidence_file": f"/verif/evidence/{i}.json", "replay_cmd_template": "cat {path}",
          "engine": "manticheck", "technique": c["technique"],
          "level_claimed": {"category": "other", "text": c["text"], "design_ref": c["design"]},
          "level_note": c["note"]})
    else:
        m["not_applicable"].append({"property_id": i, "reason": NA.get(i, "check not built yet (see DESIGN.md build order); no claim is made")})
json.dump(m, open(os.path.join(V, "MANIFEST.json"), "w"), indent=1)
print("claims:", sorted(CLAIMS), "not_applicable:", len(m["not_applicable"]))
