#!/usr/bin/env python3
"""Regenerates MANIFEST.json from the table below (claims) + properties.jsonl."""
import json, os
V = os.path.dirname(os.path.dirname(os.path.abspath(__file__)))
props = [json.loads(l) for l in open(os.path.join(V, "properties.jsonl"))]

TRUST = ("Trusted base: go/parser, go/types and the go/ssa builder of x/tools v0.50.0; the checker's own rule code "
         "(exercised both ways by selftest/run.py variants); type-based aliasing of struct fields; int is 64 bits. "
         "Nothing is executed; a verdict is about the source as type-checked for linux/amd64, non-test files.")

CLAIMS = {
 "C07": dict(
   technique="static analysis: linear-fact prover over go/ssa discharging the Go compiler's residual bounds checks, plus panic-source, allocation, loop-ranking and recursion rules over the call graph from the decoder entry points",
   text="Every index/slice/fixed-width-accessor site, division, assertion, make() size, loop and call cycle reachable from the rule-selected decoder entry points is an obligation decided for all inputs at once: bounds sites are discharged either by the Go compiler's prove pass or by entailment from dominating conditions, non-wrapping definitions, loop invariants and callee summaries (Fourier-Motzkin over integers). This is the right level because the property quantifies over all byte strings and a missing guard is a structural fact of the code; it is not a 'proof' claim because some helper decoders without an error path remain as recorded known findings.",
   note=TRUST + " Additional for C07: the go1.26.8 compiler's prove pass (a site not listed by -d=ssa/check_bce is in bounds); len(x) <= 2^48; loop-carried 64-bit signed counters stay within +-2^62; listed standard-library callees are total; io.Reader contract 0<=n<=len(buf); decoders taking an `offset int` are called with offset >= 0 (checked at in-module call sites); nil receivers/arguments are API misuse and out of scope; CPU cost beyond 'every loop has a ranking argument' and allocation inside the standard library are not decided.",
   design="§3 E1, §4 C07"),
}

m = {
 "version": 1,
 "setup_cmd": "./setup.sh",
 "hooks": {"guard": "verif", "enable": "none: static analysis needs no instrumentation; no hook commits exist",
           "baseline_off_cmd": "cd /repo && go test -mod=mod -json -vet=off -count=1 -timeout 25m ./...",
           "source_commits": [], "add_only": True},
 "engines": [{"name": "manticheck", "path": "checker/", "serves_properties": sorted(CLAIMS),
              "kind_free_text": "custom static analyser over go/types + go/ssa (x/tools v0.50.0, go1.26.8) plus the Go compiler's residual bounds-check list"}],
 "checks": [],
 "not_applicable": [],
 "notes": "All checks decide their property from /repo's current source without running it (see DESIGN.md). Exit 2 without a VIOLATION line means the checker itself is broken.",
}
NA = {}
na_path = os.path.join(V, "tools", "not_applicable.json")
if os.path.exists(na_path):
    NA = json.load(open(na_path))
for p in props:
    i = p["id"]
    if i in CLAIMS:
        c = CLAIMS[i]
        m["checks"].append({
          "property_id": i, "quick_cmd": f"./check.sh {i} quick", "thorough_cmd": f"./check.sh {i} thorough",
          "evidence_file": f"/verif/evidence/{i}.json", "replay_cmd_template": "cat {path}",
          "engine": "manticheck", "technique": c["technique"],
          "level_claimed": {"category": "other", "text": c["text"], "design_ref": c["design"]},
          "level_note": c["note"]})
    else:
        m["not_applicable"].append({"property_id": i, "reason": NA.get(i, "check not built yet (see DESIGN.md build order); no claim is made")})
json.dump(m, open(os.path.join(V, "MANIFEST.json"), "w"), indent=1)
print("claims:", sorted(CLAIMS), "not_applicable:", len(m["not_applicable"]))
