#!/usr/bin/env python3
"""Print the obligations of one rule of one check under a patch (overlay; /repo untouched).
usage: obls_under.py <property> <patch.diff> <rule-substring>"""
import re, os, shutil, subprocess, json, sys, tempfile
V = os.path.dirname(os.path.dirname(os.path.abspath(__file__)))
prop, patch, rule = sys.argv[1], os.path.abspath(sys.argv[2]), sys.argv[3]
tmp = tempfile.mkdtemp(prefix="obls_")
try:
    files = re.findall(r'^\+\+\+ b/(\S+)', open(patch).read(), re.M)
    for f in files:
        os.makedirs(tmp + '/tree/' + os.path.dirname(f), exist_ok=True)
        if os.path.exists('/repo/' + f):
            shutil.copy('/repo/' + f, tmp + '/tree/' + f)
    subprocess.run(['patch', '-p1', '-s', '-d', tmp + '/tree', '-i', patch], check=True)
    json.dump({"Replace": {'/repo/' + f: tmp + '/tree/' + f for f in files if f.endswith('.go')}}, open(tmp + '/ov.json', 'w'))
    os.makedirs(tmp + '/v'); shutil.copy(V + '/known-findings.txt', tmp + '/v')
    env = dict(os.environ); env["GOFLAGS"] = "-mod=mod"
    subprocess.run([V + '/bin/manticheck', 'check', '--property', prop, '--tier', 'quick', '--repo', '/repo', '--verif', tmp + '/v', '--overlay', tmp + '/ov.json'], capture_output=True, env=env)
    txt = open(tmp + f'/v/evidence/{prop}.json').read()
    for m in re.finditer(r'\{\s*"rule": "([^"]*)",\s*"construct": "([^"]*)",\s*"pos": "[^"]*",\s*"status": "([^"]*)",\s*"reason": "([^"]*)"', txt):
        if rule in m.group(1) or rule in m.group(2):
            print(m.group(3), '|', m.group(1), '|', m.group(2)[:90], '|', m.group(4)[:200])
finally:
    shutil.rmtree(tmp, ignore_errors=True)
