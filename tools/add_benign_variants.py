#!/usr/bin/env python3
"""Every kept behaviour-preserving patch (benign/<id>) is a `silent` self-test
variant of the property it was written for. Idempotent."""
import json, glob, os
V = os.path.dirname(os.path.dirname(os.path.abspath(__file__)))
byprop = {}
for d in sorted(glob.glob(V + '/benign/*/')):
    kid = os.path.basename(d.rstrip('/'))
    m = json.load(open(d + 'meta.json'))
    byprop.setdefault(kid.split('-')[0], []).append((kid, m.get('title', '')))
for prop, items in byprop.items():
    fp = f'{V}/selftest/{prop}.json'
    v = json.load(open(fp))
    have = {x.get('patch') for x in v}
    for kid, title in items:
        pth = f"benign/{kid}/patch.diff"
        if pth in have:
            continue
        v.append({"property": prop, "name": f"benign {kid}: {title}"[:160], "expect": "silent", "patch": pth})
    json.dump(v, open(fp, 'w'), indent=1)
print("ok")
