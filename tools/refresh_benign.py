#!/usr/bin/env python3
"""Re-run every check against every kept behaviour-preserving change (overlay;
/repo untouched) and refresh meta.json `alarms`. Any alarm is a false alarm.
usage: refresh_benign.py [id prefixes...] [--jobs N]"""
import json, os, re, subprocess, sys, glob, concurrent.futures
V = os.path.dirname(os.path.dirname(os.path.abspath(__file__)))
args = [a for a in sys.argv[1:] if not a.startswith("--")]
jobs = 3
if "--jobs" in sys.argv:
    jobs = int(sys.argv[sys.argv.index("--jobs") + 1]); args = [a for a in args if a != str(jobs)]
props = ["C%02d" % i for i in range(1, 21)]
dirs = [d for d in sorted(glob.glob(os.path.join(V, "benign", "*"))) if not args or any(os.path.basename(d).startswith(o) for o in args)]
def one(d):
    r = subprocess.run([os.path.join(V, "tools/try_seed.py"), props[0], os.path.join(d, "patch.diff")] + props[1:], capture_output=True, text=True)
    alarms, cur = {}, None
    for l in r.stdout.splitlines():
        m = re.match(r"== (C\d\d): exit=(\d+) violations=(\d+)", l)
        if m:
            cur = m.group(1)
            if m.group(2) != "0" or m.group(3) != "0":
                alarms[cur] = {"exit": int(m.group(2)), "reports": []}
            continue
        if cur in alarms and l.strip() and " quick:" not in l:
            alarms[cur]["reports"].append(l.strip()[:400])
    mp = os.path.join(d, "meta.json")
    m = json.load(open(mp)); m["alarms"] = alarms; m["checks_run"] = props
    json.dump(m, open(mp, "w"), indent=1)
    return os.path.basename(d), alarms
n = 0
with concurrent.futures.ThreadPoolExecutor(max_workers=jobs) as ex:
    for kid, alarms in ex.map(one, dirs):
        if alarms:
            n += 1
            print(kid, "ALARM", {k: v["reports"][:1] for k, v in alarms.items()})
print(f"{len(dirs) - n} of {len(dirs)} behaviour-preserving changes are silent under all 20 checks")
