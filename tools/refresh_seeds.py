#!/usr/bin/env python3
"""Re-run the checks against every kept seeded change (overlay; /repo untouched) and refresh meta.json detection."""
import json, glob, os, re, subprocess, sys, concurrent.futures
V = os.path.dirname(os.path.dirname(os.path.abspath(__file__)))
only = sys.argv[1:]
def one(d):
    m = json.load(open(d + "/meta.json"))
    props = list(m.get("detection", {}).keys()) or [os.path.basename(d).split("-")[0]]
    det = {}
    for p in props:
        r = subprocess.run([os.path.join(V, "tools/try_seed.py"), p, d + "/patch.diff"], capture_output=True, text=True)
        lines = r.stdout.splitlines()
        head = [l for l in lines if l.startswith("==")]
        fired = bool(head) and "exit=1" in head[0]
        broken = bool(head) and "exit=2" in head[0]
        rules = sorted(set(x for x in re.findall(rf"{p} ([\w\-\.]+):", r.stdout) if x not in ("quick", "thorough")))
        det[p] = {"fired": fired, "rules": rules, "first_report": next((l.strip()[:300] for l in lines if f" {p} " in l and not l.startswith("==")), "")}
        if broken: det[p]["checker_broken"] = True
    m["detection"] = det
    json.dump(m, open(d + "/meta.json", "w"), indent=1)
    own = os.path.basename(d).split("-")[0]
    return os.path.basename(d), det.get(own, {}).get("fired"), [p for p, v in det.items() if v["fired"]], m["title"][:100]
dirs = [d for d in sorted(glob.glob(os.path.join(V, "seeded", "*"))) if not only or any(os.path.basename(d).startswith(o) for o in only)]
with concurrent.futures.ThreadPoolExecutor(max_workers=12) as ex:
    rows = list(ex.map(one, dirs))
for r in rows:
    print(r[0], "OWN" if r[1] else ("other" if r[2] else "MISSED"), r[2], "|", r[3])
print(sum(1 for r in rows if r[1]), "by own check;", sum(1 for r in rows if r[2]), "by any;", len(rows), "total")
