#!/usr/bin/env python3
"""Regenerates the generated tables of DESIGN.md from evidence/, selftest/, known-findings.txt and seeded/."""
import json, glob, os, re
V = os.path.dirname(os.path.dirname(os.path.abspath(__file__)))
props = {json.loads(l)["id"]: json.loads(l) for l in open(os.path.join(V, "properties.jsonl"))}
fit = {"C01":"narrow","C02":"narrow","C03":"core","C04":"core","C05":"core","C06":"core","C07":"core","C08":"core/narrow","C09":"core/narrow","C10":"narrow","C11":"core","C12":"narrow","C13":"core (bit maps) / narrow","C14":"narrow","C15":"core (overflow) / narrow","C16":"narrow","C17":"core (locking) / narrow","C18":"core (named hazards) / narrow","C19":"core","C20":"narrow"}
kf = open(os.path.join(V, "known-findings.txt")).read()
rows = ["| id | fit | obligations | rules (instances) | known findings | fixes | self-test (fire/silent) |", "|---|---|---|---|---|---|---|"]
for pid in sorted(props):
    ev = os.path.join(V, "evidence", pid + ".json")
    if not os.path.exists(ev): continue
    c = json.load(open(ev))["coverage"]
    rules = ", ".join(f"{k} {v}" for k, v in sorted(c["rule_instance_count"].items()) if k not in ("floor",))
    st = json.load(open(os.path.join(V, "selftest", pid + ".json")))
    nf = len(re.findall(rf"^finding: property={pid} ", kf, re.M)); nx = len(re.findall(rf"^fixed: property={pid} ", kf, re.M))
    rows.append(f"| {pid} | {fit[pid]} | {c['obligations']} | {rules} | {nf} | {nx} | {sum(1 for v in st if v['expect']=='fire')}/{sum(1 for v in st if v['expect']=='silent')} |")
status = "\n".join(rows)
srows = ["| seeded change | breaks | needs | caught by own check (rules) | caught by other checks |", "|---|---|---|---|---|"]
tot = own = anyc = 0
for d in sorted(glob.glob(os.path.join(V, "seeded", "*"))):
    m = json.load(open(os.path.join(d, "meta.json")))
    kid = os.path.basename(d); pid = kid.split("-")[0]
    det = m.get("detection", {})
    o = det.get(pid, {})
    others = [p for p, v in det.items() if p != pid and v.get("fired")]
    tot += 1; own += bool(o.get("fired")); anyc += bool(o.get("fired") or others)
    needs = str(m.get("needs_to_manifest", ""))[:110].replace("|", "/").replace("\n", " ")
    title = str(m.get("title", ""))[:120].replace("|", "/")
    srows.append(f"| {kid} | {title} | {needs} | {'yes: ' + ', '.join(o.get('rules', [])) if o.get('fired') else '**no**' + (' — ' + m['missed_reason'] if m.get('missed_reason') else '')} | {', '.join(others) or '–'} |")
seeds = "\n".join(srows) + f"\n\n**{own} of {tot}** seeded changes are reported by the check of the property they break, **{anyc} of {tot}** by at least one check."
s = open(os.path.join(V, "DESIGN.md")).read()
s = re.sub(r"(<!-- BEGIN GENERATED: status -->\n).*?(<!-- END GENERATED: status -->)", lambda m: m.group(1) + status + "\n" + m.group(2), s, flags=re.S)
s = re.sub(r"(<!-- BEGIN GENERATED: seeds -->\n).*?(<!-- END GENERATED: seeds -->)", lambda m: m.group(1) + seeds + "\n" + m.group(2), s, flags=re.S)
open(os.path.join(V, "DESIGN.md"), "w").write(s)
print("tables regenerated:", len(rows) - 2, "properties,", tot, "seeds")
