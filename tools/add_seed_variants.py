#!/usr/bin/env python3
"""Every kept seeded breaking change that its own property's check reports is a
`fire` self-test variant of that property (regression: it must keep firing).
Idempotent; run after tools/refresh_seeds.py."""
import json, glob, os
V = os.path.dirname(os.path.dirname(os.path.abspath(__file__)))
added = 0
for d in sorted(glob.glob(V + '/seeded/*/')):
    kid = os.path.basename(d.rstrip('/'))
    prop = kid.split('-')[0]
    m = json.load(open(d + 'meta.json'))
    det = m.get('detection', {}).get(prop, {})
    if not det.get('fired'):
        continue
    rules = [r for r in det.get('rules', []) if r not in ('quick', 'floor')]
    fp = f'{V}/selftest/{prop}.json'
    v = json.load(open(fp))
    pth = f"seeded/{kid}/patch.diff"
    mention = rules[0] if len(rules) == 1 else ""
    ex = [x for x in v if x.get('patch') == pth and x['name'].startswith('seeded ')]
    if ex:
        if ex[0].get('mention', '') != mention:
            ex[0]['mention'] = mention
            json.dump(v, open(fp, 'w'), indent=1)
        continue
    v.append({"property": prop, "name": f"seeded {kid}: {m.get('title', '')}"[:160], "expect": "fire",
              "mention": mention, "patch": pth})
    json.dump(v, open(fp, 'w'), indent=1)
    added += 1
print("added", added)
