#!/usr/bin/env python3
"""Confirm an independently authored seeded change in a scratch worktree:
build + full suite pass with the change, the demonstration fails with it and
passes without it. usage: confirm_seed.py <seed dir with patch.diff, meta.json, demo files> [worktree name]
Prints a JSON summary; removes the worktree afterwards."""
import json, os, re, subprocess, sys, shutil, glob
seed = os.path.abspath(sys.argv[1])
wt = "/tmp/confirm_" + (sys.argv[2] if len(sys.argv) > 2 else os.path.basename(os.path.dirname(seed)) + "_" + os.path.basename(seed))
env = {k: v for k, v in os.environ.items() if k not in ("GOFLAGS", "GOTOOLCHAIN", "GOPROXY", "GOWORK")}
env["PATH"] = "/usr/bin:/usr/local/go/bin:" + env.get("PATH", "")

def pkgdir_for_demo(wt, demo_file, hint):
    """Directory whose package clause matches the demo's (the author's meta may name another)."""
    import re as _re, os as _os
    m = _re.search(r"^package (\w+)", open(demo_file).read(), _re.M)
    if not m:
        return hint
    want = m.group(1)
    if want.endswith("_test"):
        want = want[:-5]
    def pk(d):
        for f in sorted(_os.listdir(d)):
            if f.endswith(".go") and not f.endswith("_test.go"):
                mm = _re.search(r"^package (\w+)", open(_os.path.join(d, f)).read(), _re.M)
                return mm.group(1) if mm else None
        return None
    hd = _os.path.join(wt, hint) if hint else None
    if hd and _os.path.isdir(hd) and pk(hd) == want:
        return hint
    best = None
    for root, dirs, files in _os.walk(wt):
        if "/.git" in root:
            continue
        if any(f.endswith(".go") for f in files) and pk(root) == want:
            rel = "./" + _os.path.relpath(root, wt)
            # prefer an ancestor/descendant of the hinted directory
            score = len(_os.path.commonprefix([rel, hint or ""]))
            if best is None or score > best[0]:
                best = (score, rel)
    return best[1] if best else hint

def run(cmd, cwd):
    r = subprocess.run(cmd, cwd=cwd, shell=True, capture_output=True, text=True, env=env)
    return r.returncode, (r.stdout + r.stderr)
subprocess.run(f"git -C /repo worktree remove --force {wt}", shell=True, capture_output=True)
rc, out = run(f"git -C /repo worktree add -q --detach {wt} HEAD", "/")
res = {"seed": seed}
try:
    meta = json.load(open(os.path.join(seed, "meta.json")))
    rc, out = run(f"git apply {seed}/patch.diff", wt)
    res["applies"] = rc == 0
    if rc != 0:
        res["apply_error"] = out[-400:]
        raise SystemExit
    rc, out = run("go build ./... 2>&1 | tail -5", wt); res["build_ok"] = "error" not in out.lower() and rc == 0
    rc, out = run("go test -mod=mod -vet=off -count=1 ./... 2>&1 | grep -v '^ok\\|no test files' | head -20", wt)
    res["suite_passes_with_change"] = out.strip() == ""
    if out.strip(): res["suite_output"] = out[-600:]
    # demo
    demo = str(meta.get("demo", ""))
    m = re.search(r"(\./[\w/\.\-]+)", demo)
    demos = [f for f in glob.glob(os.path.join(seed, "*")) if not f.endswith(("patch.diff", "meta.json"))]
    race = "-race" if "-race" in demo else ""
    if demos and os.path.isdir(demos[0]):
        # a main program directory
        d = demos[0]; dst = os.path.join(wt, os.path.basename(d)); shutil.copytree(d, dst)
        cmd = f"go run {race} ./{os.path.basename(d)}"
    else:
        pkgdir = m.group(1).rstrip("/").rstrip(".") if m else None
        if os.environ.get("SEED_PKGDIR"):
            pkgdir = os.environ["SEED_PKGDIR"]
        if pkgdir is None or pkgdir.endswith("..."):
            # fall back: directory of the first patched file
            f = re.search(r"^\+\+\+ b/(\S+)", open(os.path.join(seed, "patch.diff")).read(), re.M).group(1)
            pkgdir = "./" + os.path.dirname(f)
        if not os.environ.get("SEED_PKGDIR") and demos:
            pkgdir = pkgdir_for_demo(wt, demos[0], pkgdir)
        for f in demos:
            shutil.copy(f, os.path.join(wt, pkgdir))
        cmd = f"go test -mod=mod -vet=off -count=1 {race} -run 'Seed' {pkgdir}"
    res["demo_cmd"] = cmd
    rc1, out1 = run(cmd + " 2>&1 | tail -15", wt)
    res["demo_fails_with_change"] = ("FAIL" in out1 or "panic" in out1 or "DATA RACE" in out1)
    res["demo_out_with"] = out1[-500:]
    run(f"git apply -R {seed}/patch.diff", wt)
    rc2, out2 = run(cmd + " 2>&1 | tail -8", wt)
    res["demo_passes_without_change"] = ("FAIL" not in out2 and "panic" not in out2 and "DATA RACE" not in out2 and ("ok" in out2 or "PASS" in out2 or rc2 == 0))
    res["demo_out_without"] = out2[-300:]
finally:
    subprocess.run(f"git -C /repo worktree remove --force {wt}", shell=True, capture_output=True)
    res["confirmed"] = all(res.get(k) for k in ("applies", "build_ok", "suite_passes_with_change", "demo_fails_with_change", "demo_passes_without_change"))
    print(json.dumps(res, indent=1))
