#!/usr/bin/env python3
"""Confirm an independently authored behaviour-PRESERVING change and run every
check against it (through a build overlay; /repo untouched). Keeps it under
/verif/benign/<id>/ with the verdict of each check: any report is a false alarm
to be fixed in the checker.
usage: keep_benign.py <dir with patch.diff, meta.json, demo> <kept id>"""
import json, os, re, shutil, subprocess, sys, glob
V = os.path.dirname(os.path.dirname(os.path.abspath(__file__)))
src, kid = os.path.abspath(sys.argv[1]), sys.argv[2]
wt = "/tmp/confirmb_" + kid
env = {k: v for k, v in os.environ.items() if k not in ("GOFLAGS", "GOTOOLCHAIN", "GOPROXY", "GOWORK")}
env["PATH"] = "/usr/bin:/usr/local/go/bin:" + env.get("PATH", "")

def pkgdir_for_demo(wt, demo_file, hint):
    """Directory whose package clause matches the demo's (the author's meta may name another)."""
    import re as _re, os as _os
    m = _re.search(r"^package (\w+)", open(demo_file).read(), _re.M)
    if not m:
        return hint
    want = m.group(1)
    if want.endswith("_test"):
        want = want[:-5]
    def pk(d):
        for f in sorted(_os.listdir(d)):
            if f.endswith(".go") and not f.endswith("_test.go"):
                mm = _re.search(r"^package (\w+)", open(_os.path.join(d, f)).read(), _re.M)
                return mm.group(1) if mm else None
        return None
    hd = _os.path.join(wt, hint) if hint else None
    if hd and _os.path.isdir(hd) and pk(hd) == want:
        return hint
    best = None
    for root, dirs, files in _os.walk(wt):
        if "/.git" in root:
            continue
        if any(f.endswith(".go") for f in files) and pk(root) == want:
            rel = "./" + _os.path.relpath(root, wt)
            # prefer an ancestor/descendant of the hinted directory
            score = len(_os.path.commonprefix([rel, hint or ""]))
            if best is None or score > best[0]:
                best = (score, rel)
    return best[1] if best else hint

def run(cmd, cwd):
    r = subprocess.run(cmd, cwd=cwd, shell=True, capture_output=True, text=True, env=env)
    return r.returncode, (r.stdout + r.stderr)
subprocess.run(f"git -C /repo worktree remove --force {wt}", shell=True, capture_output=True)
run(f"git -C /repo worktree add -q --detach {wt} HEAD", "/")
res = {}
try:
    meta = json.load(open(os.path.join(src, "meta.json")))
    rc, out = run(f"git apply {src}/patch.diff", wt); res["applies"] = rc == 0
    if rc != 0:
        res["apply_error"] = out[-300:]; raise SystemExit
    rc, out = run("go build ./... 2>&1 | tail -5", wt); res["build_ok"] = rc == 0 and "error" not in out.lower()
    rc, out = run("go test -mod=mod -vet=off -count=1 ./... 2>&1 | grep -v '^ok\\|no test files' | head -20", wt)
    res["suite_passes"] = out.strip() == ""
    if out.strip(): res["suite_output"] = out[-500:]
    f = re.search(r"^\+\+\+ b/(\S+)", open(os.path.join(src, "patch.diff")).read(), re.M).group(1)
    demos = [x for x in glob.glob(os.path.join(src, "*_test.go"))]
    pkgdir = os.environ.get("SEED_PKGDIR")
    if not pkgdir:
        m = re.search(r"(\./[\w/\.\-]+)", str(meta.get("demo", "")))
        pkgdir = m.group(1).rstrip("/").rstrip(".") if m else "./" + os.path.dirname(f)
        if pkgdir.endswith("...") or not os.path.isdir(os.path.join(wt, pkgdir)):
            pkgdir = "./" + os.path.dirname(f)
    # the demo's package clause decides the directory when ambiguous
    if not os.environ.get("SEED_PKGDIR") and demos:
        pkgdir = pkgdir_for_demo(wt, demos[0], pkgdir)
    for d in demos:
        shutil.copy(d, os.path.join(wt, pkgdir))
    # run exactly the demo's own test functions, whatever they are called
    names = []
    for d in demos:
        names += re.findall(r"^func (Test\w+)\(", open(d).read(), re.M)
    pat = "^(" + "|".join(sorted(set(names))) + ")$" if names else "Benign|Demo|Equiv"
    cmd = f"go test -mod=mod -vet=off -count=1 -run '{pat}' {pkgdir}"
    res["demo_passes_without_note"] = ""
    rc1, out1 = run(cmd + " 2>&1 | tail -8", wt)
    res["demo_passes_with"] = rc1 == 0 and "FAIL" not in out1 and "no tests to run" not in out1
    res["demo_out_with"] = out1[-300:]
    run(f"git apply -R {src}/patch.diff", wt)
    rc2, out2 = run(cmd + " 2>&1 | tail -8", wt)
    res["demo_passes_without"] = rc2 == 0 and "FAIL" not in out2 and "no tests to run" not in out2
    res["demo_cmd"] = cmd
finally:
    subprocess.run(f"git -C /repo worktree remove --force {wt}", shell=True, capture_output=True)
res["confirmed"] = all(res.get(k) for k in ("applies", "build_ok", "suite_passes", "demo_passes_with", "demo_passes_without"))
if not res["confirmed"]:
    print(kid, "NOT CONFIRMED", json.dumps(res)[:900]); sys.exit(1)
props = ["C%02d" % i for i in range(1, 21)]
r = subprocess.run([os.path.join(V, "tools/try_seed.py"), props[0], os.path.join(src, "patch.diff")] + props[1:], capture_output=True, text=True)
alarms = {}
cur = None
for l in r.stdout.splitlines():
    m = re.match(r"== (C\d\d): exit=(\d+) violations=(\d+)", l)
    if m:
        cur = m.group(1)
        if m.group(2) != "0" or m.group(3) != "0":
            alarms[cur] = {"exit": int(m.group(2)), "reports": []}
        continue
    if cur in alarms and l.strip() and " quick:" not in l:
        alarms[cur]["reports"].append(l.strip()[:400])
dst = os.path.join(V, "benign", kid)
shutil.rmtree(dst, ignore_errors=True); os.makedirs(dst)
for f in os.listdir(src):
    s = os.path.join(src, f)
    (shutil.copytree if os.path.isdir(s) else shutil.copy)(s, os.path.join(dst, f))
meta["confirmed"] = {"how": "scratch git worktree of /repo HEAD: git apply; go build ./...; go test ./... passes; equivalence demonstration passes with the patch and without it", "demo_cmd": res["demo_cmd"]}
meta["checks_run"] = props
meta["alarms"] = alarms
json.dump(meta, open(os.path.join(dst, "meta.json"), "w"), indent=1)
print(kid, "kept;", "SILENT" if not alarms else "ALARMS " + json.dumps({k: v["reports"][:2] for k, v in alarms.items()})[:1200])
