#!/usr/bin/env python3
"""Confirm a seeded change, run the checks against it, and keep it under /verif/seeded/.
usage: keep_seed.py <seed dir> <kept id> <property> [other properties to try...]"""
import json, os, re, shutil, subprocess, sys
V = os.path.dirname(os.path.dirname(os.path.abspath(__file__)))
seed, kid, props = os.path.abspath(sys.argv[1]), sys.argv[2], sys.argv[3:]
c = json.loads(subprocess.run([os.path.join(V, "tools/confirm_seed.py"), seed, kid], capture_output=True, text=True).stdout)
if not c.get("confirmed"):
    print("NOT CONFIRMED", json.dumps({k: v for k, v in c.items() if "out" not in k}))
    print(c.get("demo_out_with", "")[-300:]); print(c.get("demo_out_without", "")[-300:]); print(c.get("suite_output", ""))
    sys.exit(1)
det = {}
for p in props:
    r = subprocess.run([os.path.join(V, "tools/try_seed.py"), p, os.path.join(seed, "patch.diff")], capture_output=True, text=True)
    lines = r.stdout.splitlines()
    head = [l for l in lines if l.startswith("==")]
    rules = sorted(set(re.findall(rf"{p} ([\w\-]+):", r.stdout)))
    fired = bool(head) and "violations=0" not in head[0]
    det[p] = {"fired": fired, "rules": rules, "first_report": next((l.strip()[:300] for l in lines if f" {p} " in l and not l.startswith("==")), "")}
dst = os.path.join(V, "seeded", kid)
shutil.rmtree(dst, ignore_errors=True); os.makedirs(dst)
for f in os.listdir(seed):
    s = os.path.join(seed, f)
    (shutil.copytree if os.path.isdir(s) else shutil.copy)(s, os.path.join(dst, f))
meta = json.load(open(os.path.join(seed, "meta.json")))
meta["confirmed"] = {"how": "scratch git worktree of /repo HEAD: git apply patch.diff; go build ./...; go test -count=1 ./... (suite passes); demonstration fails with the patch and passes after git apply -R",
                     "demo_cmd": c["demo_cmd"], "demo_with_change": c["demo_out_with"][-300:], "demo_without_change": c["demo_out_without"][-200:]}
meta["checked_with"] = "tools/try_seed.py (go build overlay of the patched files; /repo untouched)"
meta["detection"] = det
json.dump(meta, open(os.path.join(dst, "meta.json"), "w"), indent=1)
print(kid, "kept;", {p: (d["fired"], d["rules"]) for p, d in det.items()})
