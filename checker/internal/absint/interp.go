package absint

import (
	"fmt"
	"go/constant"
	"go/token"
	"go/types"
	"math/big"

	"golang.org/x/tools/go/ssa"

	"manticheck/internal/lanes"
)

// Interp holds one analysis: symbolic sources, recorded restrictions, events.
type Interp struct {
	InModule func(*ssa.Function) bool
	// Hook may take over a call (summaries chosen by the rule). It receives the
	// evaluated arguments (receiver first).
	Hook func(in *Interp, call *ssa.CallCommon, callee *ssa.Function, args []Value) (Value, bool)

	names    []string
	Restr    []Restriction
	Events   []ParseEvent
	Matches  []MatchEvent // decided regexp matches, in execution order
	Assumed  []Assumption
	Unknown  []string // extern calls whose result was made opaque
	Steps    int
	MaxSteps int
	MaxDepth int
	Funcs    map[string]bool // functions interpreted
	globals  map[*ssa.Global]*Node
	// Written, when non-nil, collects every memory location that was stored to
	// (Store, copy, PutUintN, in-place append) or forgotten (havoc) during the
	// run: rules use it to tell which fields of an object a function assigns,
	// whatever the shape of the code that does it.
	Written map[*Node]bool
	// Digest, when non-nil, supplies the digest bytes of a modelled hash
	// (hashmodel.go): it is called once per Sum / one-shot digest with the
	// algorithm and the exact byte cells that were hashed, and returns a slice
	// of the digest's size (ok == false: use a fresh symbolic source).
	Digest  func(in *Interp, alg string, content Slice) (Slice, bool)
	digests map[string]int

	// path enumeration (see Paths): outcomes prescribed for the first
	// data-dependent branches that do not guard an error exit, and the outcomes
	// actually taken so far.
	forkOn     bool
	forkPrefix []bool
	forkTrace  []bool
}

// Paths enumerates the paths of an analysis through data-dependent branches
// that do NOT guard an error exit (a display name chosen by a flag bit, a
// legacy/modern alternative picked by a data byte). Without it such a branch
// aborts the run. With it the analysis is repeated once per combination of
// outcomes (depth-first, the run being deterministic given the outcomes) and
// the rule must find its clause true on every path: together the paths cover
// every input of the analysed shape, each path describing the inputs that
// take it, still bit by bit. Combinations no input can take are explored too,
// which can only make a rule stricter.
//
//	ps := absint.NewPaths(256)
//	for ps.More() {
//		in := absint.New(…); ps.Attach(in)
//		… in.Call(…) …
//	}
//	if ps.Overflow { /* not decided */ }
type Paths struct {
	Max      int
	Count    int
	Overflow bool
	prefix   []bool
	cur      *Interp
	done     bool
}

const maxForksPerPath = 48

func NewPaths(max int) *Paths { return &Paths{Max: max} }

func (p *Paths) More() bool {
	if p.cur != nil {
		t := p.cur.forkTrace
		for len(t) > 0 && !t[len(t)-1] {
			t = t[:len(t)-1]
		}
		if len(t) == 0 {
			p.done = true
		} else {
			p.prefix = append([]bool(nil), t...)
			p.prefix[len(p.prefix)-1] = false
		}
		p.cur = nil
	}
	if p.done {
		return false
	}
	if p.Count >= p.Max {
		p.Overflow = true
		return false
	}
	p.Count++
	return true
}

// Attach makes in follow the current path. One interpreter per path.
func (p *Paths) Attach(in *Interp) {
	in.forkOn, in.forkPrefix, in.forkTrace = true, p.prefix, nil
	p.cur = in
}

// Forks is the number of data-dependent branches taken on the path so far.
func (in *Interp) Forks() int { return len(in.forkTrace) }

func (in *Interp) fork(fn *ssa.Function, bv Bool) bool {
	i := len(in.forkTrace)
	if i >= maxForksPerPath {
		in.stop("%s: more than %d data-dependent branches on one path (a loop bounded by data?) (condition %s)", fn.Name(), maxForksPerPath, in.boolString(bv))
	}
	v := true
	if i < len(in.forkPrefix) {
		v = in.forkPrefix[i]
	}
	in.forkTrace = append(in.forkTrace, v)
	return v
}

// mark records a write to n (and, for aggregates, to everything below it).
func (in *Interp) mark(n *Node) {
	if in.Written == nil || n == nil {
		return
	}
	var walk func(n *Node, d int)
	walk = func(n *Node, d int) {
		if n == nil || d > 6 {
			return
		}
		in.Written[n] = true
		for _, k := range n.Kids {
			walk(k, d+1)
		}
	}
	walk(n, 0)
}

// Havoc forgets what v points to (a callee summarised by the rule may have
// written anything there) and records the locations as written.
func (in *Interp) Havoc(v Value, why string) {
	switch a := v.(type) {
	case Ptr:
		in.mark(a.N)
		havoc(a.N, why, map[*Node]bool{})
	case Slice:
		if !a.Nil {
			in.mark(a.Arr)
			havoc(a.Arr, why, map[*Node]bool{})
		}
	case Iface:
		if a.V != nil {
			in.Havoc(a.V, why)
		}
	case Hash:
		a.N.Kids[0].Leaf = Opaque{why}
	}
}

// OpaqueOf is the unknown value of type t (result of a summarised callee).
func OpaqueOf(t types.Type, why string) Value { return opaqueOf(t, why) }

// WrittenBelow reports whether any location reachable from n (through
// aggregates, pointers and slices) was written during the run.
func (in *Interp) WrittenBelow(n *Node) bool {
	seen := map[*Node]bool{}
	var walk func(n *Node) bool
	walk = func(n *Node) bool {
		if n == nil || seen[n] {
			return false
		}
		seen[n] = true
		if in.Written[n] {
			return true
		}
		for _, k := range n.Kids {
			if walk(k) {
				return true
			}
		}
		switch l := n.Leaf.(type) {
		case Ptr:
			return walk(l.N)
		case Slice:
			if !l.Nil {
				return walk(l.Arr)
			}
		case Agg:
			return walk(l.N)
		}
		return false
	}
	return walk(n)
}

func New(inModule func(*ssa.Function) bool) *Interp {
	return &Interp{InModule: inModule, MaxSteps: 200000, MaxDepth: 8, Funcs: map[string]bool{}, globals: map[*ssa.Global]*Node{}}
}

// NewSrc registers a symbolic source and returns its id.
func (in *Interp) NewSrc(name string) int {
	in.names = append(in.names, name)
	return len(in.names) - 1
}

func (in *Interp) SrcName(id int) string {
	if id >= 0 && id < len(in.names) {
		return in.names[id]
	}
	return fmt.Sprintf("s%d", id)
}

// Name renders a source bit.
func (in *Interp) Name(b lanes.Bit) string {
	return fmt.Sprintf("%s[%d].%d", in.SrcName(b.S), b.I, b.B)
}

// SrcInt is a w-bit integer whose bit b is (src, idx, b).
func SrcInt(src, idx, w int) Int {
	v := make(lanes.Vec, w)
	for b := range v {
		v[b] = lanes.Bit{K: lanes.Src, S: src, I: idx, B: b}
	}
	return Int{v}
}

// SymBytes is a fresh array of n symbolic bytes (source name[i]).
func (in *Interp) SymBytes(name string, n int) (*Node, int) {
	id := in.NewSrc(name)
	arr := &Node{T: types.NewArray(types.Typ[types.Uint8], int64(n)), Kids: make([]*Node, n), Name: name}
	for i := range arr.Kids {
		arr.Kids[i] = &Node{T: types.Typ[types.Uint8], Leaf: SrcInt(id, i, 8)}
	}
	return arr, id
}

// SymNode builds a memory object of type t in which every integer leaf is
// symbolic. Each scalar integer field / each byte (or integer) array gets its
// own source, named by its path below prefix; srcs maps path → source id.
func (in *Interp) SymNode(t types.Type, prefix string, srcs map[string]int) *Node {
	n := &Node{T: t, Name: prefix}
	switch u := t.Underlying().(type) {
	case *types.Struct:
		n.Kids = make([]*Node, u.NumFields())
		for i := range n.Kids {
			p := u.Field(i).Name()
			if prefix != "" {
				p = prefix + "." + p
			}
			n.Kids[i] = in.SymNode(u.Field(i).Type(), p, srcs)
		}
	case *types.Array:
		if w, _, ok := lanes.IntWidth(u.Elem()); ok && u.Len() <= maxArray {
			id := in.NewSrc(prefix)
			srcs[prefix] = id
			n.Kids = make([]*Node, u.Len())
			for i := range n.Kids {
				n.Kids[i] = &Node{T: u.Elem(), Leaf: SrcInt(id, i, w)}
			}
			return n
		}
		z := zeroNode(t)
		z.Name = prefix
		return z
	default:
		if w, _, ok := lanes.IntWidth(t); ok {
			id := in.NewSrc(prefix)
			srcs[prefix] = id
			n.Leaf = SrcInt(id, 0, w)
		} else {
			n.Leaf = zeroValue(t)
		}
	}
	if n.Kids == nil && n.Leaf == nil {
		n.Kids = []*Node{}
	}
	return n
}

// Leaves lists the integer leaves below n by path.
func Leaves(n *Node, prefix string, out map[string]lanes.Vec) {
	if n == nil {
		return
	}
	if n.Kids != nil {
		_, isArr := n.T.Underlying().(*types.Array)
		st, _ := n.T.Underlying().(*types.Struct)
		for i, k := range n.Kids {
			p := prefix
			switch {
			case isArr:
				p = fmt.Sprintf("%s[%d]", prefix, i)
			case st != nil:
				if prefix != "" {
					p = prefix + "." + st.Field(i).Name()
				} else {
					p = st.Field(i).Name()
				}
			}
			Leaves(k, p, out)
		}
		return
	}
	if iv, ok := n.Leaf.(Int); ok {
		out[prefix] = iv.V
	}
}

// Call interprets fn on abstract arguments. err != nil: the run was aborted
// (the reason says why) and nothing may be concluded.
func (in *Interp) Call(fn *ssa.Function, args ...Value) (res Value, err error) {
	defer func() {
		if r := recover(); r != nil {
			if a, ok := r.(abort); ok {
				err = fmt.Errorf("%s", a.why)
				return
			}
			panic(r)
		}
	}()
	return in.run(fn, args, nil, 0), nil
}

type frame struct {
	in    *Interp
	fn    *ssa.Function
	env   map[ssa.Value]Value
	depth int
}

func (in *Interp) stop(format string, a ...any) {
	panic(abort{fmt.Sprintf(format, a...)})
}

func (in *Interp) run(fn *ssa.Function, args []Value, free []Value, depth int) Value {
	if fn.Blocks == nil {
		in.stop("function %s has no body", fn)
	}
	if depth > in.MaxDepth {
		in.stop("call depth exceeds %d at %s", in.MaxDepth, fn)
	}
	if len(args) != len(fn.Params) {
		in.stop("call of %s with %d arguments, %d parameters", fn, len(args), len(fn.Params))
	}
	in.Funcs[fn.String()] = true
	fr := &frame{in: in, fn: fn, env: map[ssa.Value]Value{}, depth: depth}
	for i, p := range fn.Params {
		fr.env[p] = args[i]
	}
	if len(fn.FreeVars) != len(free) {
		in.stop("closure %s called without its %d captured variables", fn, len(fn.FreeVars))
	}
	for i, fv := range fn.FreeVars {
		fr.env[fv] = free[i]
	}
	var prev *ssa.BasicBlock
	b := fn.Blocks[0]
blocks:
	for {
		// φ nodes: parallel assignment
		var phis []*ssa.Phi
		var vals []Value
		for _, instr := range b.Instrs {
			p, ok := instr.(*ssa.Phi)
			if !ok {
				break
			}
			idx := -1
			for i, pr := range b.Preds {
				if pr == prev {
					idx = i
				}
			}
			if idx < 0 {
				in.stop("φ without a matching predecessor in %s", fn)
			}
			phis = append(phis, p)
			vals = append(vals, fr.get(p.Edges[idx]))
		}
		for i, p := range phis {
			fr.env[p] = vals[i]
		}
		for _, instr := range b.Instrs[len(phis):] {
			in.Steps++
			if in.Steps > in.MaxSteps {
				in.stop("step budget of %d exhausted (unbounded loop?) in %s", in.MaxSteps, fn)
			}
			switch x := instr.(type) {
			case *ssa.DebugRef:
			case *ssa.Return:
				switch len(x.Results) {
				case 0:
					return nil
				case 1:
					return fr.get(x.Results[0])
				}
				t := make(Tuple, len(x.Results))
				for i, r := range x.Results {
					t[i] = fr.get(r)
				}
				return t
			case *ssa.Jump:
				prev, b = b, b.Succs[0]
				continue blocks
			case *ssa.If:
				c := fr.get(x.Cond)
				bv, ok := c.(Bool)
				if !ok {
					in.stop("%s: branch on a value that is not a boolean (%T)", fn, c)
				}
				taken := bv.Val
				if !bv.Known {
					e0, e1 := errorExit(b.Succs[0]), errorExit(b.Succs[1])
					switch {
					case e0 && !e1:
						taken = false
					case e1 && !e0:
						taken = true
					default:
						if !in.forkOn {
							in.stop("%s: data-dependent branch that does not guard an error exit (condition %s)", fn.Name(), in.boolString(bv))
						}
						taken = in.fork(fn, bv)
					}
					in.Assumed = append(in.Assumed, Assumption{Fn: fn.Name(), Cond: bv, Taken: taken})
				}
				if taken {
					prev, b = b, b.Succs[0]
				} else {
					prev, b = b, b.Succs[1]
				}
				continue blocks
			case *ssa.Panic:
				in.stop("%s: an explicit panic is reached", fn)
			case *ssa.Store:
				fr.store(fr.get(x.Addr), fr.get(x.Val))
			case *ssa.Defer, *ssa.Go, *ssa.Send, *ssa.Select, *ssa.MapUpdate:
				in.stop("%s: %T is not modelled", fn, instr)
			case *ssa.RunDefers:
			case ssa.Value:
				fr.env[x] = fr.eval(x)
			default:
				in.stop("%s: instruction %T is not modelled", fn, instr)
			}
		}
		in.stop("block without terminator in %s", fn)
	}
}

// errorExit: the block returns, the function's last result is an error, and
// the value returned for it is not the nil constant.
func errorExit(b *ssa.BasicBlock) bool {
	if len(b.Instrs) == 0 {
		return false
	}
	ret, ok := b.Instrs[len(b.Instrs)-1].(*ssa.Return)
	if !ok || len(ret.Results) == 0 {
		return false
	}
	last := ret.Results[len(ret.Results)-1]
	if !isErrorType(last.Type()) {
		return false
	}
	// nothing but error construction may happen in the block
	for _, instr := range b.Instrs[:len(b.Instrs)-1] {
		switch y := instr.(type) {
		case *ssa.DebugRef, *ssa.Alloc, *ssa.IndexAddr, *ssa.Slice, *ssa.MakeInterface, *ssa.UnOp, *ssa.FieldAddr, *ssa.Convert, *ssa.ChangeType:
		case *ssa.Store:
			// stores into the varargs array of the error constructor
			if ia, ok := y.Addr.(*ssa.IndexAddr); !ok {
				return false
			} else if al, ok := ia.X.(*ssa.Alloc); !ok || al.Comment != "varargs" {
				return false
			}
		case *ssa.Call:
			if b, ok := y.Common().Value.(*ssa.Builtin); ok && (b.Name() == "len" || b.Name() == "cap") {
				continue
			}
			f := y.Common().StaticCallee()
			if f == nil || f.Pkg == nil {
				return false
			}
			switch f.Pkg.Pkg.Path() + "." + f.Name() {
			case "fmt.Errorf", "errors.New", "fmt.Sprintf":
			default:
				return false
			}
		default:
			return false
		}
	}
	if k, isK := last.(*ssa.Const); isK && k.Value == nil {
		return false
	}
	return true
}

func isErrorType(t types.Type) bool {
	n, ok := t.(*types.Named)
	return ok && n.Obj().Pkg() == nil && n.Obj().Name() == "error"
}

func (in *Interp) boolString(b Bool) string {
	if b.Known {
		return fmt.Sprint(b.Val)
	}
	if b.X == nil {
		return "unknown"
	}
	return b.X.String(in.Name) + " " + b.Op + " " + b.Y.String(in.Name)
}

func (fr *frame) get(v ssa.Value) Value {
	if r, ok := fr.env[v]; ok {
		return r
	}
	switch x := v.(type) {
	case *ssa.Const:
		return fr.in.constant(x)
	case *ssa.Global:
		n := fr.in.globals[x]
		if n == nil {
			et := x.Type().(*types.Pointer).Elem()
			if pat, ok := GlobalRegex(x); ok {
				n = &Node{T: et, Leaf: Regex{pat}}
			} else if tn, ok := fr.in.tableInit(x); ok {
				n = tn // a read-only table: every read sees its initialiser
			} else if st, ok := et.Underlying().(*types.Struct); ok && st.NumFields() == 0 {
				n = zeroNode(et)
			} else {
				n = &Node{T: et, Leaf: Opaque{"package-level variable " + x.Name()}}
				if _, isAgg := et.Underlying().(*types.Struct); isAgg {
					n = zeroNode(et)
					havoc(n, "package-level variable "+x.Name(), map[*Node]bool{})
				}
			}
			fr.in.globals[x] = n
		}
		return Ptr{n}
	case *ssa.Function:
		return Func{Name: x.String(), Fn: x}
	case *ssa.Builtin:
		return Func{Name: x.Name()}
	}
	fr.in.stop("%s: value %s (%T) used before it is defined", fr.fn, v.Name(), v)
	return nil
}

func (in *Interp) constant(k *ssa.Const) Value {
	t := k.Type()
	if k.Value == nil {
		return zeroValue(t)
	}
	switch k.Value.Kind() {
	case constant.Int:
		if w, _, ok := lanes.IntWidth(t); ok {
			n, _ := new(big.Int).SetString(k.Value.ExactString(), 10)
			return Int{lanes.ConstVec(n, w)}
		}
	case constant.Bool:
		return Bool{Known: true, Val: constant.BoolVal(k.Value)}
	case constant.String:
		return LitStr(constant.StringVal(k.Value))
	}
	return Opaque{"constant " + k.Value.ExactString()}
}

func (fr *frame) load(p Value) Value {
	switch a := p.(type) {
	case Ptr:
		if a.N == nil {
			fr.in.stop("%s: load through a nil pointer", fr.fn)
		}
		if a.N.Kids != nil {
			return Agg{copyNode(a.N)}
		}
		if ag, ok := a.N.Leaf.(Agg); ok {
			return Agg{copyNode(ag.N)}
		}
		return a.N.Leaf
	case Opaque:
		return Opaque{"load through " + a.Why}
	}
	fr.in.stop("%s: load through a %T", fr.fn, p)
	return nil
}

func (fr *frame) store(p Value, v Value) {
	a, ok := p.(Ptr)
	if !ok {
		fr.in.stop("%s: store through a %T", fr.fn, p)
	}
	if a.N == nil {
		fr.in.stop("%s: store through a nil pointer", fr.fn)
	}
	fr.in.mark(a.N)
	if a.N.Kids != nil {
		switch ag := v.(type) {
		case Agg:
			assignNode(a.N, ag.N)
		default:
			havoc(a.N, fmt.Sprintf("aggregate overwritten by a %T", v), map[*Node]bool{})
		}
		return
	}
	a.N.Leaf = v
}

func (fr *frame) intIdx(v ssa.Value, what string) int {
	iv, ok := fr.get(v).(Int)
	if !ok {
		fr.in.stop("%s: %s is not an integer", fr.fn, what)
	}
	_, signed, _ := lanes.IntWidth(v.Type())
	k, ok := iv.V.SignedVal(signed)
	if !ok {
		fr.in.stop("%s: %s is not determined by the lanes (%s)", fr.fn.Name(), what, iv.V.String(fr.in.Name))
	}
	if !k.IsInt64() || k.Int64() < 0 || k.Int64() > 1<<30 {
		fr.in.stop("%s: %s = %s is negative or too large (the code would panic)", fr.fn.Name(), what, k)
	}
	return int(k.Int64())
}

func (fr *frame) eval(v ssa.Value) Value {
	in := fr.in
	switch x := v.(type) {
	case *ssa.Alloc:
		return Ptr{zeroNode(x.Type().(*types.Pointer).Elem())}
	case *ssa.BinOp:
		return fr.binop(x)
	case *ssa.UnOp:
		a := fr.get(x.X)
		switch x.Op {
		case token.MUL:
			return fr.load(a)
		case token.NOT:
			if b, ok := a.(Bool); ok {
				if b.Known {
					return Bool{Known: true, Val: !b.Val}
				}
				return Bool{}
			}
		case token.XOR:
			if iv, ok := a.(Int); ok {
				return Int{lanes.Not(iv.V)}
			}
		case token.SUB:
			if iv, ok := a.(Int); ok {
				z := Int{lanes.ZeroVec(len(iv.V))}
				out, _ := lanes.Binary(token.SUB, z.V, iv.V, true)
				return Int{out}
			}
		}
		return opaqueOf(x.Type(), "unary "+x.Op.String())
	case *ssa.Convert:
		return fr.convert(x)
	case *ssa.ChangeType:
		return fr.get(x.X)
	case *ssa.ChangeInterface:
		return fr.get(x.X)
	case *ssa.MakeInterface:
		return Iface{V: fr.get(x.X), T: x.X.Type()}
	case *ssa.Extract:
		t, ok := fr.get(x.Tuple).(Tuple)
		if !ok || x.Index >= len(t) {
			return opaqueOf(x.Type(), "component of an opaque tuple")
		}
		return t[x.Index]
	case *ssa.FieldAddr:
		switch p := fr.get(x.X).(type) {
		case Ptr:
			if p.N == nil {
				in.stop("%s: field of a nil pointer", fr.fn)
			}
			if p.N.Kids == nil || x.Field >= len(p.N.Kids) {
				in.stop("%s: field address into an object whose layout is not modelled", fr.fn)
			}
			return Ptr{p.N.Kids[x.Field]}
		}
		in.stop("%s: field address through a %T", fr.fn, fr.get(x.X))
	case *ssa.Field:
		if ag, ok := fr.get(x.X).(Agg); ok && x.Field < len(ag.N.Kids) {
			k := ag.N.Kids[x.Field]
			if k.Kids != nil {
				return Agg{copyNode(k)}
			}
			return k.Leaf
		}
		return opaqueOf(x.Type(), "field of an opaque struct")
	case *ssa.IndexAddr:
		idx := fr.intIdx(x.Index, "index "+x.Index.Name())
		switch p := fr.get(x.X).(type) {
		case Ptr:
			if p.N == nil || p.N.Kids == nil {
				in.stop("%s: element address through a nil or unmodelled array pointer", fr.fn)
			}
			if idx >= len(p.N.Kids) {
				in.stop("%s: index %d out of range [0,%d) — the code would panic", fr.fn.Name(), idx, len(p.N.Kids))
			}
			return Ptr{p.N.Kids[idx]}
		case Slice:
			if p.Nil || idx >= p.Len() {
				in.stop("%s: index %d out of range [0,%d) — the code would panic", fr.fn.Name(), idx, p.Len())
			}
			return Ptr{p.Arr.Kids[p.Lo+idx]}
		}
		in.stop("%s: element address through a %T", fr.fn, fr.get(x.X))
	case *ssa.Index:
		idx := fr.intIdx(x.Index, "index")
		if ag, ok := fr.get(x.X).(Agg); ok {
			if idx >= len(ag.N.Kids) {
				in.stop("%s: index %d out of range — the code would panic", fr.fn.Name(), idx)
			}
			k := ag.N.Kids[idx]
			if k.Kids != nil {
				return Agg{copyNode(k)}
			}
			return k.Leaf
		}
		return opaqueOf(x.Type(), "element of an opaque array")
	case *ssa.Lookup:
		s, ok := fr.get(x.X).(*Str)
		if !ok {
			in.stop("%s: map lookups are not modelled", fr.fn)
		}
		if s.Opaque {
			return Int{lanes.TopVec(8)}
		}
		idx := fr.intIdx(x.Index, "string index")
		if idx >= len(s.Chars) {
			in.stop("%s: string index %d out of range [0,%d) — the code would panic", fr.fn.Name(), idx, len(s.Chars))
		}
		c := s.Chars[idx]
		if c.IsHex() {
			return Int{lanes.TopVec(8)} // the character code of a digit is not a bit move
		}
		return Int{lanes.ConstVec(big.NewInt(int64(c.Lit)), 8)}
	case *ssa.MakeSlice:
		n := fr.intIdx(x.Len, "make length")
		c := fr.intIdx(x.Cap, "make capacity")
		et := x.Type().Underlying().(*types.Slice).Elem()
		if c > maxArray {
			in.stop("%s: make of %d elements is too large to model", fr.fn, c)
		}
		arr := zeroNode(types.NewArray(et, int64(c)))
		return Slice{Arr: arr, Lo: 0, Hi: n, Cap: c}
	case *ssa.Slice:
		return fr.slice(x)
	case *ssa.Call:
		return fr.call(x)
	case *ssa.TypeAssert:
		if i, ok := fr.get(x.X).(Iface); ok && i.V != nil && types.Identical(i.T, x.AssertedType) && !x.CommaOk {
			return i.V
		}
		in.stop("%s: type assertion is not modelled", fr.fn)
	case *ssa.MakeClosure:
		f, ok := x.Fn.(*ssa.Function)
		if !ok {
			in.stop("%s: closure over a value that is not a function", fr.fn.Name())
		}
		binds := make([]Value, len(x.Bindings))
		for i, b := range x.Bindings {
			binds[i] = fr.get(b)
		}
		return Func{Name: f.String(), Fn: f, Free: binds}
	case *ssa.MakeMap, *ssa.MakeChan, *ssa.Range, *ssa.Next, *ssa.Select:
		in.stop("%s: %T is not modelled", fr.fn.Name(), v)
	}
	in.stop("%s: %T is not modelled", fr.fn.Name(), v)
	return nil
}

func (fr *frame) slice(x *ssa.Slice) Value {
	in := fr.in
	base := fr.get(x.X)
	lo := 0
	if x.Low != nil {
		lo = fr.intIdx(x.Low, "slice low bound")
	}
	switch b := base.(type) {
	case *Str:
		if b.Opaque {
			return &Str{Opaque: true, Why: b.Why}
		}
		hi := len(b.Chars)
		if x.High != nil {
			hi = fr.intIdx(x.High, "slice high bound")
		}
		if lo > hi || hi > len(b.Chars) {
			in.stop("%s: string slice [%d:%d] out of range (length %d) — the code would panic", fr.fn.Name(), lo, hi, len(b.Chars))
		}
		_, hiConst := x.High.(*ssa.Const)
		_, loConst := x.Low.(*ssa.Const)
		return &Str{Chars: append([]Char(nil), b.Chars[lo:hi]...), Fixed: hiConst && (x.Low == nil || loConst)}
	case Ptr:
		if b.N == nil || b.N.Kids == nil {
			in.stop("%s: slice of a nil or unmodelled array pointer", fr.fn)
		}
		n := len(b.N.Kids)
		hi := n
		if x.High != nil {
			hi = fr.intIdx(x.High, "slice high bound")
		}
		if lo > hi || hi > n {
			in.stop("%s: slice [%d:%d] of an array of %d — the code would panic", fr.fn.Name(), lo, hi, n)
		}
		return Slice{Arr: b.N, Lo: lo, Hi: hi, Cap: n}
	case Slice:
		if b.Nil {
			if lo == 0 && (x.High == nil || fr.intIdx(x.High, "slice high bound") == 0) {
				return b
			}
			in.stop("%s: slice of a nil slice out of range", fr.fn)
		}
		hi := b.Len()
		if x.High != nil {
			hi = fr.intIdx(x.High, "slice high bound")
		}
		if lo > hi || b.Lo+hi > b.Cap {
			in.stop("%s: slice [%d:%d] with capacity %d — the code would panic", fr.fn.Name(), lo, hi, b.Cap-b.Lo)
		}
		if b.Lo+hi > b.Hi && b.Arr.Grow {
			in.stop("%s: re-slice beyond the length into unknown spare capacity", fr.fn)
		}
		out := Slice{Arr: b.Arr, Lo: b.Lo + lo, Hi: b.Lo + hi, Cap: b.Cap}
		if x.Max != nil {
			out.Cap = b.Lo + fr.intIdx(x.Max, "slice max")
		}
		return out
	case Opaque:
		return Opaque{"slice of " + b.Why}
	}
	in.stop("%s: slice of a %T", fr.fn, base)
	return nil
}

func (fr *frame) convert(x *ssa.Convert) Value {
	a := fr.get(x.X)
	dw, _, dInt := lanes.IntWidth(x.Type())
	_, ssigned, sInt := lanes.IntWidth(x.X.Type())
	switch s := a.(type) {
	case Int:
		if dInt && sInt {
			return Int{s.V.Resize(dw, ssigned)}
		}
		// string(rune/byte)
		if isString(x.Type()) {
			if k, ok := s.V.ConstVal(); ok && k.IsInt64() && k.Int64() < 0x80 {
				return LitStr(string(rune(k.Int64())))
			}
			return &Str{Opaque: true, Why: "string(integer)"}
		}
	case *Str:
		if isString(x.Type()) {
			return s
		}
		if isByteSlice(x.Type()) {
			return strBytes(s)
		}
	case Slice:
		if isString(x.Type()) {
			out := &Str{}
			if !s.Nil {
				for i := s.Lo; i < s.Hi; i++ {
					if c, isChar := s.Arr.Kids[i].Leaf.(Char); isChar {
						out.Chars = append(out.Chars, c) // a symbolic hex digit kept by []byte(string)
						continue
					}
					iv, ok := s.Arr.Kids[i].Leaf.(Int)
					if !ok {
						return &Str{Opaque: true, Why: "string of bytes that are not integers"}
					}
					k, isK := iv.V.ConstVal()
					if !isK {
						return &Str{Opaque: true, Why: "string of symbolic bytes"}
					}
					out.Chars = append(out.Chars, Char{Lit: byte(k.Int64())})
				}
			}
			return out
		}
		if isByteSlice(x.Type()) {
			return s
		}
	}
	return opaqueOf(x.Type(), "conversion "+x.X.Type().String()+" → "+x.Type().String())
}

func charByte(c Char) Value {
	if c.IsHex() {
		if k, ok := c.Hex.ConstVal(); ok {
			return Int{lanes.ConstVec(big.NewInt(int64("0123456789abcdef"[k.Int64()])), 8)}
		}
		return Int{lanes.TopVec(8)}
	}
	return Int{lanes.ConstVec(big.NewInt(int64(c.Lit)), 8)}
}

func isString(t types.Type) bool {
	b, ok := t.Underlying().(*types.Basic)
	return ok && b.Info()&types.IsString != 0
}

func isByteSlice(t types.Type) bool {
	s, ok := t.Underlying().(*types.Slice)
	if !ok {
		return false
	}
	b, ok := s.Elem().Underlying().(*types.Basic)
	return ok && b.Kind() == types.Uint8
}

func (fr *frame) binop(x *ssa.BinOp) Value {
	a, b := fr.get(x.X), fr.get(x.Y)
	isCmp := false
	switch x.Op {
	case token.EQL, token.NEQ, token.LSS, token.LEQ, token.GTR, token.GEQ:
		isCmp = true
	}
	switch av := a.(type) {
	case Int:
		bv, ok := b.(Int)
		if !ok {
			break
		}
		_, signed, _ := lanes.IntWidth(x.X.Type())
		if isCmp {
			val, known := lanes.Compare(x.Op, av.V, bv.V, signed)
			if known {
				return Bool{Known: true, Val: val}
			}
			return Bool{Op: x.Op.String(), X: av.V, Y: bv.V}
		}
		out, _ := lanes.Binary(x.Op, av.V, bv.V, signed)
		return Int{out}
	case Bool:
		bv, ok := b.(Bool)
		if ok && av.Known && bv.Known {
			switch x.Op {
			case token.EQL:
				return Bool{Known: true, Val: av.Val == bv.Val}
			case token.NEQ:
				return Bool{Known: true, Val: av.Val != bv.Val}
			case token.AND, token.LAND:
				return Bool{Known: true, Val: av.Val && bv.Val}
			case token.OR, token.LOR:
				return Bool{Known: true, Val: av.Val || bv.Val}
			}
		}
		return Bool{}
	case *Str:
		bs, ok := b.(*Str)
		if !ok {
			break
		}
		if x.Op == token.ADD {
			if av.Opaque || bs.Opaque {
				return &Str{Opaque: true, Why: "concatenation with an opaque string"}
			}
			return &Str{Chars: append(append([]Char(nil), av.Chars...), bs.Chars...)}
		}
		if x.Op == token.EQL || x.Op == token.NEQ {
			if eq, known := strEqual(av, bs); known {
				return Bool{Known: true, Val: eq == (x.Op == token.EQL)}
			}
		}
		return Bool{}
	case Iface, Ptr, Slice:
		if x.Op == token.EQL || x.Op == token.NEQ {
			an, aok := isNil(a)
			bn, bok := isNil(b)
			if aok && bok && (an || bn) {
				return Bool{Known: true, Val: (an == bn) == (x.Op == token.EQL)}
			}
		}
		return Bool{}
	}
	if isCmp {
		return Bool{}
	}
	return opaqueOf(x.Type(), "operator "+x.Op.String()+" on values that are not modelled")
}

// isNil: (is nil, is known)
func isNil(v Value) (bool, bool) {
	switch x := v.(type) {
	case Iface:
		return x.V == nil, true
	case Ptr:
		return x.N == nil, true
	case Slice:
		return x.Nil, true
	}
	return false, false
}

func strEqual(a, b *Str) (eq, known bool) {
	if a.Opaque || b.Opaque {
		return false, false
	}
	if len(a.Chars) != len(b.Chars) {
		return false, true
	}
	all := true
	for i := range a.Chars {
		ca, cb := a.Chars[i], b.Chars[i]
		switch {
		case !ca.IsHex() && !cb.IsHex():
			if ca.Lit != cb.Lit {
				return false, true
			}
		case ca.IsHex() && cb.IsHex():
			if !ca.Hex.Equal(cb.Hex) || ca.Hex.HasTop() {
				all = false
			}
		default:
			lit := ca.Lit
			if ca.IsHex() {
				lit = cb.Lit
			}
			if !isLowerHex(lit) {
				return false, true
			}
			all = false
		}
	}
	return all, all
}

func isLowerHex(c byte) bool { return (c >= '0' && c <= '9') || (c >= 'a' && c <= 'f') }
