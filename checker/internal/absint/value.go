// Package absint is an abstract interpreter for go/ssa over the bit-lane domain
// of internal/lanes (DESIGN.md §3 E2): every integer is a vector of lanes
// (constant 0/1, a named bit of a symbolic source, or ⊤), byte buffers and
// struct fields are trees of such values, and a string is a sequence of
// abstract characters (a literal byte, or one hexadecimal digit whose four
// value bits are lanes). No repository code is executed and no concrete input
// is ever chosen: one run of a function describes its effect on ALL inputs of
// the analysed shape at once, bit by bit.
//
// Control flow: a branch whose condition the lanes decide (constants, e.g. a
// counted loop over a literal bound) is followed; a branch on unknown data is
// followed away from an error exit (a block that returns a non-nil error),
// and recorded as an assumption — this is E2's "success path". Any other
// data-dependent branch aborts the run unless the rule enumerates paths
// (Paths: the run is repeated once per combination of outcomes of such
// branches and the rule must hold on every path). Any instruction or library
// call that is not modelled, any possible out-of-range index aborts the run
// with a reason, and the rule that asked must not conclude anything from it.
//
// Function values (declared functions, closures with their captured
// variables) are called like static callees; a package-level variable that is
// assigned once by its package initialiser and only ever read (a table of
// patterns, offsets, parser functions) evaluates to its initialiser. A call
// through an interface whose dynamic value the run knows is the call of that
// type's method (hashmodel.go: invoke); hash.Hash values created by the
// crypto/* constructors are modelled as the byte sequence written into them
// (hashmodel.go), their digests being supplied by the rule (Interp.Digest) or
// kept as fresh symbolic sources.
package absint

import (
	"fmt"
	"go/types"
	"strings"

	"golang.org/x/tools/go/ssa"

	"manticheck/internal/lanes"
)

// Value is an abstract value: Int, Bool, *Str, Ptr, Slice, Agg, Iface, Tuple,
// Opaque or Func.
type Value interface{}

// Int is an integer of len(V) bits.
type Int struct {
	V lanes.Vec
}

// Bool is a boolean; Known=false means the lanes do not decide it.
type Bool struct {
	Known, Val bool
	// for unknown comparisons: what was compared (diagnostics / assumptions)
	Op   string
	X, Y lanes.Vec
}

// Char is one character of an abstract string: a literal byte (Hex == nil) or
// a lower-case hexadecimal digit whose value bits are Hex[0..3].
type Char struct {
	Lit byte
	Hex lanes.Vec
}

func (c Char) IsHex() bool { return c.Hex != nil }

// Str is an abstract string. Opaque strings have unknown content and length.
type Str struct {
	Chars  []Char
	Opaque bool
	Why    string
	// Fixed: the string was cut by a slice expression with constant bounds, so
	// its length is the same on every input (not only on the analysed shape).
	Fixed bool
}

func LitStr(s string) *Str {
	out := &Str{Chars: make([]Char, len(s))}
	for i := 0; i < len(s); i++ {
		out.Chars[i] = Char{Lit: s[i]}
	}
	return out
}

// Literal returns the concrete text when every character is a literal.
func (s *Str) Literal() (string, bool) {
	if s.Opaque {
		return "", false
	}
	b := make([]byte, len(s.Chars))
	for i, c := range s.Chars {
		if c.IsHex() {
			return "", false
		}
		b[i] = c.Lit
	}
	return string(b), true
}

// Shape renders the string with 'h' for every symbolic hex digit.
func (s *Str) Shape() string {
	if s.Opaque {
		return "<opaque string: " + s.Why + ">"
	}
	var sb strings.Builder
	for _, c := range s.Chars {
		if c.IsHex() {
			sb.WriteByte('h')
		} else {
			sb.WriteByte(c.Lit)
		}
	}
	return sb.String()
}

// Node is one memory location: a scalar leaf or an aggregate of sub-locations
// (struct fields, array elements).
type Node struct {
	T    types.Type
	Kids []*Node
	Leaf Value
	// Grow: the array backs an append result whose spare capacity is unknown;
	// appending at its end extends it in place.
	Grow bool
	Name string
}

// Ptr points to a Node (N == nil: the nil pointer).
type Ptr struct{ N *Node }

// Slice is arr[Lo:Hi] with capacity up to Cap (absolute index into arr).
type Slice struct {
	Arr         *Node
	Lo, Hi, Cap int
	Nil         bool
}

func (s Slice) Len() int { return s.Hi - s.Lo }

// Agg is a struct or array value (a detached copy of a Node tree).
type Agg struct{ N *Node }

// Iface is an interface value; V == nil is the nil interface.
type Iface struct {
	V Value
	T types.Type
}

// ErrV is the dynamic value of a non-nil error whose content is not modelled.
type ErrV struct{ Why string }

type Tuple []Value

// Opaque is a value the domain does not describe.
type Opaque struct{ Why string }

// Func is a function value: a declared function (Fn), possibly a closure with
// its captured variables bound (Free), or a builtin (Fn == nil).
type Func struct {
	Name string
	Fn   *ssa.Function
	Free []Value
}

func copyNode(n *Node) *Node {
	if n == nil {
		return nil
	}
	c := &Node{T: n.T, Leaf: n.Leaf, Name: n.Name}
	if n.Kids != nil {
		c.Kids = make([]*Node, len(n.Kids))
		for i, k := range n.Kids {
			c.Kids[i] = copyNode(k)
		}
	}
	return c
}

func assignNode(dst, src *Node) {
	if len(dst.Kids) != len(src.Kids) {
		panic(abort{fmt.Sprintf("aggregate store between different shapes (%d vs %d members)", len(dst.Kids), len(src.Kids))})
	}
	if dst.Kids == nil {
		dst.Leaf = src.Leaf
		return
	}
	for i := range dst.Kids {
		assignNode(dst.Kids[i], src.Kids[i])
	}
}

// havoc forgets everything below n.
func havoc(n *Node, why string, seen map[*Node]bool) {
	if n == nil || seen[n] {
		return
	}
	seen[n] = true
	if n.Kids != nil {
		for _, k := range n.Kids {
			havoc(k, why, seen)
		}
		return
	}
	switch l := n.Leaf.(type) {
	case Ptr:
		havoc(l.N, why, seen)
		n.Leaf = Opaque{why}
	case Slice:
		havoc(l.Arr, why, seen)
		n.Leaf = Opaque{why}
	default:
		n.Leaf = opaqueOf(n.T, why)
	}
}

func opaqueOf(t types.Type, why string) Value {
	if t == nil {
		return Opaque{why}
	}
	switch u := t.Underlying().(type) {
	case *types.Basic:
		if w, _, ok := lanes.IntWidth(t); ok {
			return Int{lanes.TopVec(w)}
		}
		if u.Info()&types.IsBoolean != 0 {
			return Bool{}
		}
		if u.Info()&types.IsString != 0 {
			return &Str{Opaque: true, Why: why}
		}
	case *types.Tuple:
		out := make(Tuple, u.Len())
		for i := range out {
			out[i] = opaqueOf(u.At(i).Type(), why)
		}
		return out
	}
	return Opaque{why}
}

const maxArray = 1 << 14

// zeroNode builds the zero value of t in memory.
func zeroNode(t types.Type) *Node {
	n := &Node{T: t}
	switch u := t.Underlying().(type) {
	case *types.Struct:
		n.Kids = make([]*Node, u.NumFields())
		for i := range n.Kids {
			n.Kids[i] = zeroNode(u.Field(i).Type())
			n.Kids[i].Name = u.Field(i).Name()
		}
		if n.Kids == nil {
			n.Kids = []*Node{}
		}
	case *types.Array:
		if u.Len() > maxArray {
			panic(abort{fmt.Sprintf("array of %d elements is too large to model", u.Len())})
		}
		n.Kids = make([]*Node, u.Len())
		for i := range n.Kids {
			n.Kids[i] = zeroNode(u.Elem())
		}
		if n.Kids == nil {
			n.Kids = []*Node{}
		}
	default:
		n.Leaf = zeroValue(t)
	}
	return n
}

func zeroValue(t types.Type) Value {
	switch u := t.Underlying().(type) {
	case *types.Basic:
		if w, _, ok := lanes.IntWidth(t); ok {
			return Int{lanes.ZeroVec(w)}
		}
		if u.Info()&types.IsBoolean != 0 {
			return Bool{Known: true}
		}
		if u.Info()&types.IsString != 0 {
			return &Str{}
		}
	case *types.Pointer:
		return Ptr{}
	case *types.Slice:
		return Slice{Nil: true}
	case *types.Interface:
		return Iface{}
	case *types.Struct, *types.Array:
		return Agg{zeroNode(t)}
	}
	return Opaque{"zero value of " + t.String()}
}

type abort struct{ why string }

// Restriction records a condition on symbolic source bits under which the
// analysed path is the one taken (the codec's domain restriction).
type Restriction struct {
	Kind string // sprintf-width | parseuint-range | truncated
	What string
	Bits []lanes.Bit // source bits that must be 0
}

// ParseEvent is one strconv.ParseUint call on an abstract string.
type ParseEvent struct {
	Fn      string
	Digits  int
	Base    int
	BitSize int
	Fixed   bool        // the digit count is fixed by a constant-bounds slice
	Bits    []lanes.Bit // the source bits the digits carry (low bitSize bits)
}

// Assumption is an undecided branch that was followed away from an error exit.
type Assumption struct {
	Fn    string
	Cond  Bool
	Taken bool
}

// MatchEvent is one regexp match whose outcome the abstract string decided.
type MatchEvent struct {
	Fn     string
	Pat    string
	Result bool
}
