package absint

import (
	"go/constant"

	"golang.org/x/tools/go/ssa"
	"golang.org/x/tools/go/ssa/ssautil"
)

// Regex is a compiled regular expression whose pattern is a known constant.
type Regex struct{ Pat string }

// MustCompileConst recognises regexp.MustCompile(const) / regexp.Compile(const).
func MustCompileConst(v ssa.Value) (string, bool) {
	var call *ssa.Call
	switch y := v.(type) {
	case *ssa.Call:
		call = y
	case *ssa.Extract:
		if y.Index == 0 {
			call, _ = y.Tuple.(*ssa.Call)
		}
	}
	if call == nil {
		return "", false
	}
	fn := call.Common().StaticCallee()
	if fn == nil || fn.Pkg == nil || fn.Pkg.Pkg.Path() != "regexp" || fn.Signature.Recv() != nil ||
		(fn.Name() != "MustCompile" && fn.Name() != "Compile") || len(call.Common().Args) != 1 {
		return "", false
	}
	k, ok := call.Common().Args[0].(*ssa.Const)
	if !ok || k.Value == nil || k.Value.Kind() != constant.String {
		return "", false
	}
	return constant.StringVal(k.Value), true
}

var globalStores = map[*ssa.Program]map[*ssa.Global][]*ssa.Store{}

// GlobalRegex: g is a package-level variable that is assigned exactly once in
// the whole program, in its package initialiser, from
// regexp.MustCompile(constant). It returns that constant.
func GlobalRegex(g *ssa.Global) (string, bool) {
	if g == nil || g.Pkg == nil {
		return "", false
	}
	prog := g.Pkg.Prog
	idx := globalStores[prog]
	if idx == nil {
		idx = map[*ssa.Global][]*ssa.Store{}
		for fn := range ssautil.AllFunctions(prog) {
			for _, b := range fn.Blocks {
				for _, in := range b.Instrs {
					if st, ok := in.(*ssa.Store); ok {
						if gg, ok := st.Addr.(*ssa.Global); ok {
							idx[gg] = append(idx[gg], st)
						}
					}
				}
			}
		}
		globalStores[prog] = idx
	}
	sts := idx[g]
	if len(sts) != 1 || sts[0].Parent() == nil || sts[0].Parent().Name() != "init" || sts[0].Parent().Pkg != g.Pkg {
		return "", false
	}
	// the address of g must not escape: its only uses are loads and that one store
	if g.Referrers() != nil {
		return "", false
	}
	return MustCompileConst(sts[0].Val)
}
