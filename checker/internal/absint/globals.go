package absint

import (
	"go/constant"
	"go/token"
	"go/types"

	"golang.org/x/tools/go/ssa"
	"golang.org/x/tools/go/ssa/ssautil"
)

// Regex is a compiled regular expression whose pattern is a known constant.
type Regex struct{ Pat string }

// MustCompileConst recognises regexp.MustCompile(const) / regexp.Compile(const).
func MustCompileConst(v ssa.Value) (string, bool) {
	var call *ssa.Call
	switch y := v.(type) {
	case *ssa.Call:
		call = y
	case *ssa.Extract:
		if y.Index == 0 {
			call, _ = y.Tuple.(*ssa.Call)
		}
	}
	if call == nil {
		return "", false
	}
	fn := call.Common().StaticCallee()
	if fn == nil || fn.Pkg == nil || fn.Pkg.Pkg.Path() != "regexp" || fn.Signature.Recv() != nil ||
		(fn.Name() != "MustCompile" && fn.Name() != "Compile") || len(call.Common().Args) != 1 {
		return "", false
	}
	k, ok := call.Common().Args[0].(*ssa.Const)
	if !ok || k.Value == nil || k.Value.Kind() != constant.String {
		return "", false
	}
	return constant.StringVal(k.Value), true
}

var globalStores = map[*ssa.Program]map[*ssa.Global][]*ssa.Store{}

// GlobalRegex: g is a package-level variable that is assigned exactly once in
// the whole program, in its package initialiser, from
// regexp.MustCompile(constant). It returns that constant.
func GlobalRegex(g *ssa.Global) (string, bool) {
	if g == nil || g.Pkg == nil {
		return "", false
	}
	prog := g.Pkg.Prog
	idx := globalStores[prog]
	if idx == nil {
		idx = map[*ssa.Global][]*ssa.Store{}
		for fn := range ssautil.AllFunctions(prog) {
			for _, b := range fn.Blocks {
				for _, in := range b.Instrs {
					if st, ok := in.(*ssa.Store); ok {
						if gg, ok := st.Addr.(*ssa.Global); ok {
							idx[gg] = append(idx[gg], st)
						}
					}
				}
			}
		}
		globalStores[prog] = idx
	}
	sts := idx[g]
	if len(sts) != 1 || sts[0].Parent() == nil || sts[0].Parent().Name() != "init" || sts[0].Parent().Pkg != g.Pkg {
		return "", false
	}
	// the address of g must not escape: its only uses are loads and that one store
	if g.Referrers() != nil {
		return "", false
	}
	return MustCompileConst(sts[0].Val)
}

// ---------------------------------------------------------------------------
// read-only package-level tables

type globalUse struct {
	stores []*ssa.Store // *g = v
	loads  []*ssa.UnOp  // v = *g
	other  int          // any other use of g's address
}

var globalUses = map[*ssa.Program]map[*ssa.Global]*globalUse{}

func usesOf(g *ssa.Global) *globalUse {
	prog := g.Pkg.Prog
	idx := globalUses[prog]
	if idx == nil {
		idx = map[*ssa.Global]*globalUse{}
		at := func(gg *ssa.Global) *globalUse {
			u := idx[gg]
			if u == nil {
				u = &globalUse{}
				idx[gg] = u
			}
			return u
		}
		var ops []*ssa.Value
		for fn := range ssautil.AllFunctions(prog) {
			for _, b := range fn.Blocks {
				for _, in := range b.Instrs {
					ops = in.Operands(ops[:0])
					for _, op := range ops {
						gg, ok := (*op).(*ssa.Global)
						if !ok {
							continue
						}
						switch y := in.(type) {
						case *ssa.Store:
							if y.Addr == ssa.Value(gg) && y.Val != ssa.Value(gg) {
								at(gg).stores = append(at(gg).stores, y)
								continue
							}
						case *ssa.UnOp:
							if y.Op == token.MUL {
								at(gg).loads = append(at(gg).loads, y)
								continue
							}
						case *ssa.DebugRef:
							continue
						}
						at(gg).other++
					}
				}
			}
		}
		globalUses[prog] = idx
	}
	if u := idx[g]; u != nil {
		return u
	}
	return &globalUse{}
}

// readOnlyTable: g is assigned exactly once, by its package's initialiser, its
// address is used for nothing but loads, and nothing is stored through (or
// handed to a callee from) what is loaded from it. Such a variable is a
// constant table: its initialiser says what every read sees.
func readOnlyTable(g *ssa.Global) (*ssa.Store, bool) {
	if g == nil || g.Pkg == nil {
		return nil, false
	}
	u := usesOf(g)
	if len(u.stores) != 1 || u.other != 0 {
		return nil, false
	}
	st := u.stores[0]
	if st.Parent() == nil || st.Parent().Name() != "init" || st.Parent().Pkg != g.Pkg {
		return nil, false
	}
	// what is derived from the loaded value must only be read
	for _, ld := range u.loads {
		seen := map[ssa.Value]bool{}
		var ro func(v ssa.Value, d int) bool
		ro = func(v ssa.Value, d int) bool {
			if seen[v] || v.Referrers() == nil {
				return true
			}
			if d > 12 {
				return false
			}
			seen[v] = true
			_, isAddr := v.Type().Underlying().(*types.Pointer)
			_, isSlice := v.Type().Underlying().(*types.Slice)
			_, isMap := v.Type().Underlying().(*types.Map)
			for _, r := range *v.Referrers() {
				switch y := r.(type) {
				case *ssa.DebugRef, *ssa.If, *ssa.Return:
					if _, isRet := y.(*ssa.Return); isRet && (isAddr || isSlice || isMap) {
						return false // the table (or an address into it) leaves the function
					}
				case *ssa.Store:
					if y.Addr == v {
						return false
					}
					if y.Val == v && (isAddr || isSlice || isMap) {
						return false
					}
				case *ssa.MapUpdate:
					return false
				case *ssa.Call:
					if b, ok := y.Common().Value.(*ssa.Builtin); ok && (b.Name() == "len" || b.Name() == "cap") {
						continue
					}
					if y.Common().Value == v {
						continue // calling a function value read from the table
					}
					if isAddr || isSlice || isMap {
						return false
					}
				case *ssa.Go, *ssa.Defer, *ssa.MakeClosure, *ssa.Send:
					if isAddr || isSlice || isMap {
						return false
					}
				case *ssa.IndexAddr, *ssa.FieldAddr, *ssa.Slice, *ssa.Index, *ssa.Field, *ssa.Lookup, *ssa.Range, *ssa.Next, *ssa.Extract, *ssa.Phi, *ssa.ChangeType, *ssa.Convert, *ssa.MakeInterface:
					if !ro(y.(ssa.Value), d+1) {
						return false
					}
				case *ssa.UnOp:
					if y.Op == token.MUL {
						if !ro(y, d+1) {
							return false
						}
					}
				case *ssa.BinOp:
				default:
					if isAddr || isSlice || isMap {
						return false
					}
				}
			}
			return true
		}
		if !ro(ld, 0) {
			return nil, false
		}
	}
	return st, true
}

// tableInit evaluates the initialiser of a read-only table: the value stored
// into g by its package's init, computed by replaying — in program order — the
// stores init makes into the objects that value is built from (the elements
// of a composite literal). Anything init does that is not needed for the
// value is not touched. ok=false: not a read-only table, or its initialiser
// uses something that is not modelled.
func (in *Interp) tableInit(g *ssa.Global) (n *Node, ok bool) {
	st, ro := readOnlyTable(g)
	if !ro {
		return nil, false
	}
	init := st.Parent()
	defer func() {
		if r := recover(); r != nil {
			if _, isAbort := r.(abort); isAbort {
				n, ok = nil, false
				return
			}
			panic(r)
		}
	}()
	fr := &frame{in: in, fn: init, env: map[ssa.Value]Value{}, depth: 1}
	rootOf := func(a ssa.Value) ssa.Value {
		for d := 0; d < 16; d++ {
			switch y := a.(type) {
			case *ssa.FieldAddr:
				a = y.X
			case *ssa.IndexAddr:
				a = y.X
			case *ssa.Slice:
				a = y.X
			default:
				return a
			}
		}
		return a
	}
	forcing := map[ssa.Value]bool{}
	var force func(v ssa.Value) Value
	force = func(v ssa.Value) Value {
		if r, ok := fr.env[v]; ok {
			return r
		}
		switch v.(type) {
		case *ssa.Const, *ssa.Global, *ssa.Function, *ssa.Builtin:
			return fr.get(v)
		}
		if forcing[v] {
			in.stop("initialiser of %s: cyclic definition", g.Name())
		}
		forcing[v] = true
		instr, isInstr := v.(ssa.Instruction)
		if !isInstr || instr.Parent() != init {
			in.stop("initialiser of %s: value %s is not computed by the package initialiser", g.Name(), v.Name())
		}
		switch y := v.(type) {
		case *ssa.Phi, *ssa.Parameter, *ssa.FreeVar:
			in.stop("initialiser of %s: control flow in the initialiser is not modelled", g.Name())
		case *ssa.Alloc:
			fr.env[v] = fr.eval(y)
			// replay the stores made into this object, in program order
			for _, b := range init.Blocks {
				for _, i2 := range b.Instrs {
					s, ok := i2.(*ssa.Store)
					if !ok || rootOf(s.Addr) != ssa.Value(y) {
						continue
					}
					fr.store(force(s.Addr), force(s.Val))
				}
			}
			return fr.env[v]
		}
		var ops []*ssa.Value
		for _, op := range instr.Operands(ops) {
			if *op != nil {
				force(*op)
			}
		}
		fr.env[v] = fr.eval(v)
		return fr.env[v]
	}
	val := force(st.Val)
	n = zeroNode(g.Type().(*types.Pointer).Elem())
	fr.store(Ptr{n}, val)
	return n, true
}
