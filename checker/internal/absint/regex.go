package absint

import "fmt"

// CharSet is the set of bytes one position of a fixed-length pattern accepts.
type CharSet [256]bool

func (c *CharSet) Single() (byte, bool) {
	n, last := 0, byte(0)
	for i, ok := range c {
		if ok {
			n++
			last = byte(i)
		}
	}
	return last, n == 1
}

// IsLowerHexClass: exactly [0-9a-f].
func (c *CharSet) IsLowerHexClass() bool {
	for i, ok := range c {
		if ok != isLowerHex(byte(i)) {
			return false
		}
	}
	return true
}

func (c *CharSet) String() string {
	if b, ok := c.Single(); ok {
		return fmt.Sprintf("%q", b)
	}
	if c.IsLowerHexClass() {
		return "[0-9a-f]"
	}
	s := "["
	for i := 0; i < 256; i++ {
		if c[i] {
			j := i
			for j+1 < 256 && c[j+1] {
				j++
			}
			if j > i+1 {
				s += fmt.Sprintf("%c-%c", i, j)
			} else {
				for k := i; k <= j; k++ {
					s += string(rune(k))
				}
			}
			i = j
		}
	}
	return s + "]"
}

// ParseFixedRegex parses the fragment of RE2 syntax the GUID patterns use: a
// pattern anchored with ^…$ made of literal characters, backslash-escaped
// punctuation, bracket classes of characters and ranges, each optionally
// followed by a counted repetition {n}. The result has one CharSet per
// character of every matching string (all matches have the same length).
// Anything else is reported as unsupported, never guessed.
func ParseFixedRegex(pat string) ([]CharSet, error) {
	if len(pat) < 2 || pat[0] != '^' || pat[len(pat)-1] != '$' || (len(pat) >= 3 && pat[len(pat)-2] == '\\') {
		return nil, fmt.Errorf("pattern is not anchored with ^…$")
	}
	body := pat[1 : len(pat)-1]
	var out []CharSet
	for i := 0; i < len(body); {
		var cs CharSet
		c := body[i]
		switch {
		case c == '\\':
			if i+1 >= len(body) {
				return nil, fmt.Errorf("trailing backslash")
			}
			e := body[i+1]
			if (e >= 'a' && e <= 'z') || (e >= 'A' && e <= 'Z') || (e >= '0' && e <= '9') {
				return nil, fmt.Errorf("escape \\%c is not supported", e)
			}
			cs[e] = true
			i += 2
		case c == '[':
			j := i + 1
			if j < len(body) && body[j] == '^' {
				return nil, fmt.Errorf("negated class is not supported")
			}
			for j < len(body) && body[j] != ']' {
				a := body[j]
				if a == '\\' || a == '[' {
					return nil, fmt.Errorf("escape or nested class inside a class is not supported")
				}
				if j+2 < len(body) && body[j+1] == '-' && body[j+2] != ']' {
					b := body[j+2]
					if b < a {
						return nil, fmt.Errorf("bad range %c-%c", a, b)
					}
					for k := int(a); k <= int(b); k++ {
						cs[k] = true
					}
					j += 3
					continue
				}
				cs[a] = true
				j++
			}
			if j >= len(body) {
				return nil, fmt.Errorf("unterminated class")
			}
			i = j + 1
		case c == '.' || c == '*' || c == '+' || c == '?' || c == '|' || c == '(' || c == ')' || c == '^' || c == '$' || c == '{' || c == '}':
			return nil, fmt.Errorf("operator %q is not supported", c)
		default:
			cs[c] = true
			i++
		}
		rep := 1
		if i < len(body) && body[i] == '{' {
			j := i + 1
			n := 0
			for j < len(body) && body[j] >= '0' && body[j] <= '9' {
				n = n*10 + int(body[j]-'0')
				j++
			}
			if j == i+1 || j >= len(body) || body[j] != '}' || n > 4096 {
				return nil, fmt.Errorf("only {n} repetitions are supported")
			}
			rep = n
			i = j + 1
		}
		if i < len(body) && (body[i] == '*' || body[i] == '+' || body[i] == '?') {
			return nil, fmt.Errorf("operator %q is not supported", body[i])
		}
		for k := 0; k < rep; k++ {
			out = append(out, cs)
		}
	}
	return out, nil
}

// matchFixed decides whether every concretisation of the abstract string
// matches the pattern (true), none does (false), or reports why neither can be
// said.
func matchFixed(pat string, s *Str) (bool, string) {
	sets, err := ParseFixedRegex(pat)
	if err != nil {
		return false, err.Error()
	}
	if len(sets) != len(s.Chars) {
		return false, ""
	}
	for i, c := range s.Chars {
		if !c.IsHex() {
			if !sets[i][c.Lit] {
				return false, ""
			}
			continue
		}
		if k, ok := c.Hex.ConstVal(); ok {
			if !sets[i]["0123456789abcdef"[k.Int64()]] {
				return false, ""
			}
			continue
		}
		all, none := true, true
		for _, h := range []byte("0123456789abcdef") {
			if sets[i][h] {
				none = false
			} else {
				all = false
			}
		}
		switch {
		case all:
		case none:
			return false, ""
		default:
			return false, fmt.Sprintf("position %d accepts some hexadecimal digits but not all: the match depends on the value", i)
		}
	}
	return true, ""
}
