package absint

import (
	"fmt"
	"go/token"
	"go/types"
	"math/big"
	"strconv"
	"strings"

	"golang.org/x/tools/go/ssa"

	"manticheck/internal/lanes"
)

func (fr *frame) call(x *ssa.Call) Value {
	in := fr.in
	cc := x.Common()
	if cc.IsInvoke() {
		if v, ok := fr.invoke(x); ok {
			return v
		}
		recv := fr.get(cc.Value)
		for _, a := range cc.Args {
			fr.havocValue(fr.get(a), "passed to interface method "+cc.Method.Name())
		}
		fr.havocValue(recv, "receiver of interface method "+cc.Method.Name())
		in.Unknown = append(in.Unknown, "interface method "+cc.Method.Name())
		return opaqueOf(x.Type(), "result of interface method "+cc.Method.Name())
	}
	args := make([]Value, len(cc.Args))
	for i, a := range cc.Args {
		args[i] = fr.get(a)
	}
	if b, ok := cc.Value.(*ssa.Builtin); ok {
		return fr.builtin(x, b.Name(), args)
	}
	callee := cc.StaticCallee()
	var free []Value
	// a function value: a declared function read from a table or a variable,
	// or a closure with its captured variables
	switch cc.Value.(type) {
	case *ssa.Function, *ssa.Builtin:
	default:
		if fv, ok := fr.get(cc.Value).(Func); ok && fv.Fn != nil {
			callee, free = fv.Fn, fv.Free
		}
	}
	if callee == nil {
		for _, a := range args {
			fr.havocValue(a, "passed to a dynamic callee")
		}
		in.Unknown = append(in.Unknown, "dynamic call in "+fr.fn.Name())
		return opaqueOf(x.Type(), "result of a dynamic call")
	}
	if in.Hook != nil {
		if v, ok := in.Hook(in, cc, callee, args); ok {
			return v
		}
	}
	if v, ok := fr.stdlib(x, callee, args); ok {
		return v
	}
	if in.InModule != nil && in.InModule(callee) && callee.Blocks != nil {
		return in.run(callee, args, free, fr.depth+1)
	}
	for _, a := range args {
		fr.havocValue(a, "passed to "+callee.String())
	}
	in.Unknown = append(in.Unknown, callee.String())
	return opaqueOf(x.Type(), "result of "+callee.String())
}

func (fr *frame) havocValue(v Value, why string) {
	switch a := v.(type) {
	case Ptr:
		fr.in.mark(a.N)
		havoc(a.N, why, map[*Node]bool{})
	case Slice:
		fr.in.mark(a.Arr)
		havoc(a.Arr, why, map[*Node]bool{})
	case Iface:
		if a.V != nil {
			fr.havocValue(a.V, why)
		}
	case Hash:
		a.N.Kids[0].Leaf = Opaque{why}
	}
}

func constInt(v Value) (int, bool) {
	iv, ok := v.(Int)
	if !ok {
		return 0, false
	}
	k, ok := iv.V.SignedVal(true)
	if !ok || !k.IsInt64() {
		return 0, false
	}
	return int(k.Int64()), true
}

func intConst(n int, w int) Int { return Int{lanes.ConstVec(big.NewInt(int64(n)), w)} }

func (fr *frame) builtin(x *ssa.Call, name string, args []Value) Value {
	in := fr.in
	switch name {
	case "len", "cap":
		switch a := args[0].(type) {
		case *Str:
			if a.Opaque {
				return Int{lanes.TopVec(64)}
			}
			return intConst(len(a.Chars), 64)
		case Slice:
			if a.Nil {
				return intConst(0, 64)
			}
			if name == "cap" {
				if a.Arr.Grow {
					return Int{lanes.TopVec(64)}
				}
				return intConst(a.Cap-a.Lo, 64)
			}
			return intConst(a.Len(), 64)
		case Ptr:
			if a.N != nil && a.N.Kids != nil {
				return intConst(len(a.N.Kids), 64)
			}
		case Agg:
			return intConst(len(a.N.Kids), 64)
		}
		return Int{lanes.TopVec(64)}
	case "append":
		base, ok := args[0].(Slice)
		if !ok {
			in.stop("%s: append to a %T", fr.fn.Name(), args[0])
		}
		var elems []Value
		if len(args) > 1 {
			switch t := args[1].(type) {
			case Slice:
				if !t.Nil {
					for i := t.Lo; i < t.Hi; i++ {
						elems = append(elems, cellValue(t.Arr.Kids[i]))
					}
				}
			case *Str:
				if t.Opaque {
					in.stop("%s: append of an opaque string", fr.fn.Name())
				}
				for _, c := range t.Chars {
					elems = append(elems, charByte(c))
				}
			default:
				in.stop("%s: append of a %T (unknown length)", fr.fn.Name(), args[1])
			}
		}
		et := x.Type().Underlying().(*types.Slice).Elem()
		mk := func(v Value) *Node {
			if ag, ok := v.(Agg); ok {
				return copyNode(ag.N)
			}
			return &Node{T: et, Leaf: v}
		}
		if len(elems) == 0 {
			return base
		}
		if !base.Nil {
			// in place when the backing array has room
			if base.Hi+len(elems) <= base.Cap && !base.Arr.Grow {
				for i, e := range elems {
					fr.store(Ptr{base.Arr.Kids[base.Hi+i]}, e)
				}
				return Slice{Arr: base.Arr, Lo: base.Lo, Hi: base.Hi + len(elems), Cap: base.Cap}
			}
			if base.Arr.Grow {
				if base.Hi != len(base.Arr.Kids) {
					in.stop("%s: two appends extend the same slice value (their results may share storage)", fr.fn.Name())
				}
				for _, e := range elems {
					base.Arr.Kids = append(base.Arr.Kids, mk(e))
				}
				return Slice{Arr: base.Arr, Lo: base.Lo, Hi: len(base.Arr.Kids), Cap: len(base.Arr.Kids)}
			}
		}
		// reallocation: a fresh array with unknown spare capacity
		arr := &Node{T: types.NewArray(et, 0), Grow: true, Kids: []*Node{}}
		if !base.Nil {
			for i := base.Lo; i < base.Hi; i++ {
				arr.Kids = append(arr.Kids, copyNode(base.Arr.Kids[i]))
			}
		}
		for _, e := range elems {
			arr.Kids = append(arr.Kids, mk(e))
		}
		return Slice{Arr: arr, Lo: 0, Hi: len(arr.Kids), Cap: len(arr.Kids)}
	case "copy":
		dst, ok := args[0].(Slice)
		if !ok {
			in.stop("%s: copy into a %T", fr.fn.Name(), args[0])
		}
		var src []Value
		switch s := args[1].(type) {
		case Slice:
			if !s.Nil {
				for i := s.Lo; i < s.Hi; i++ {
					src = append(src, cellValue(s.Arr.Kids[i]))
				}
			}
		case *Str:
			if s.Opaque {
				in.stop("%s: copy from an opaque string", fr.fn.Name())
			}
			for _, c := range s.Chars {
				src = append(src, charByte(c))
			}
		default:
			in.stop("%s: copy from a %T (unknown length)", fr.fn.Name(), args[1])
		}
		n := len(src)
		if dst.Nil {
			n = 0
		} else if dst.Len() < n {
			n = dst.Len()
		}
		for i := 0; i < n; i++ {
			fr.store(Ptr{dst.Arr.Kids[dst.Lo+i]}, src[i])
		}
		return intConst(n, 64)
	case "min", "max":
		if len(args) == 2 {
			a, ok1 := constInt(args[0])
			b, ok2 := constInt(args[1])
			if ok1 && ok2 {
				if (name == "min") == (a < b) {
					return args[0]
				}
				return args[1]
			}
		}
	}
	in.stop("%s: builtin %s is not modelled", fr.fn.Name(), name)
	return nil
}

// bytesEqual: the contract of bytes.Equal on abstract slices — decided when the
// lengths differ, when some byte pair differs in a constant lane, or when every
// byte pair carries the very same lanes.
func bytesEqual(x, y Value) Bool {
	a, ok1 := x.(Slice)
	b, ok2 := y.(Slice)
	if !ok1 || !ok2 {
		return Bool{}
	}
	la, lb := 0, 0
	if !a.Nil {
		la = a.Len()
	}
	if !b.Nil {
		lb = b.Len()
	}
	if la != lb {
		return Bool{Known: true, Val: false}
	}
	all := true
	for i := 0; i < la; i++ {
		p, okp := a.Arr.Kids[a.Lo+i].Leaf.(Int)
		q, okq := b.Arr.Kids[b.Lo+i].Leaf.(Int)
		if !okp || !okq {
			all = false
			continue
		}
		eq, known := lanes.Compare(token.EQL, p.V, q.V, false)
		if known && !eq {
			return Bool{Known: true, Val: false}
		}
		if !known {
			all = false
		}
	}
	if all {
		return Bool{Known: true, Val: true}
	}
	return Bool{}
}

func cellValue(n *Node) Value {
	if n.Kids != nil {
		return Agg{copyNode(n)}
	}
	return n.Leaf
}

func tuple2(a, b Value) Tuple { return Tuple{a, b} }

func errIface(why string) Iface {
	return Iface{V: ErrV{why}, T: types.Universe.Lookup("error").Type()}
}

// byteOrderOf recognises methods of encoding/binary's bigEndian / littleEndian.
func byteOrderOf(fn *ssa.Function) (big, ok bool) {
	if fn.Pkg == nil || fn.Pkg.Pkg.Path() != "encoding/binary" || fn.Signature.Recv() == nil {
		return false, false
	}
	nt, isN := fn.Signature.Recv().Type().(*types.Named)
	if !isN {
		return false, false
	}
	switch nt.Obj().Name() {
	case "bigEndian":
		return true, true
	case "littleEndian":
		return false, true
	}
	return false, false
}

func (fr *frame) byteCells(v Value, n int, what string) []*Node {
	s, ok := v.(Slice)
	if !ok || s.Nil || s.Len() < n {
		fr.in.stop("%s: %s needs %d bytes, the buffer passed is shorter or unknown — the code would panic", fr.fn.Name(), what, n)
	}
	return s.Arr.Kids[s.Lo : s.Lo+n]
}

func (fr *frame) stdlib(x *ssa.Call, callee *ssa.Function, args []Value) (Value, bool) {
	in := fr.in
	if v, ok := fr.bufferModel(x, callee, args); ok {
		return v, true
	}
	if bigE, ok := byteOrderOf(callee); ok {
		name := callee.Name()
		bits := 0
		switch {
		case strings.HasSuffix(name, "16"):
			bits = 16
		case strings.HasSuffix(name, "32"):
			bits = 32
		case strings.HasSuffix(name, "64"):
			bits = 64
		}
		nb := bits / 8
		pos := func(j int) int { // j = byte significance (0 = least) → index in buffer
			if bigE {
				return nb - 1 - j
			}
			return j
		}
		switch {
		case bits == 0:
		case strings.HasPrefix(name, "Uint"):
			cells := fr.byteCells(args[1], nb, "binary."+name)
			out := make(lanes.Vec, 0, bits)
			for j := 0; j < nb; j++ {
				iv, ok := cells[pos(j)].Leaf.(Int)
				if !ok || len(iv.V) != 8 {
					out = append(out, lanes.TopVec(8)...)
					continue
				}
				out = append(out, iv.V...)
			}
			return Int{out}, true
		case strings.HasPrefix(name, "PutUint"):
			cells := fr.byteCells(args[1], nb, "binary."+name)
			iv, ok := args[2].(Int)
			if !ok || len(iv.V) != bits {
				iv = Int{lanes.TopVec(bits)}
			}
			for j := 0; j < nb; j++ {
				cells[pos(j)].Leaf = Int{append(lanes.Vec(nil), iv.V[8*j:8*j+8]...)}
				in.mark(cells[pos(j)])
			}
			return nil, true
		case strings.HasPrefix(name, "AppendUint"):
			iv, ok := args[2].(Int)
			if !ok || len(iv.V) != bits {
				iv = Int{lanes.TopVec(bits)}
			}
			arr := &Node{T: types.NewArray(types.Typ[types.Uint8], int64(nb)), Kids: make([]*Node, nb)}
			for j := 0; j < nb; j++ {
				arr.Kids[pos(j)] = &Node{T: types.Typ[types.Uint8], Leaf: Int{append(lanes.Vec(nil), iv.V[8*j:8*j+8]...)}}
			}
			return fr.builtin(x, "append", []Value{args[1], Slice{Arr: arr, Lo: 0, Hi: nb, Cap: nb}}), true
		}
	}
	if callee.Pkg == nil {
		return nil, false
	}
	full := callee.Pkg.Pkg.Path() + "." + callee.Name()
	if o := callee.Origin(); o != nil {
		full = callee.Pkg.Pkg.Path() + "." + o.Name() // instantiation of a generic (slices.Clone[[]byte])
	}
	if callee.Signature.Recv() != nil {
		if v, ok := fr.cryptoHashNew(x, callee, args); ok {
			return v, true
		}
		if callee.Pkg.Pkg.Path() == "regexp" && callee.Name() == "MatchString" && len(args) == 2 {
			re, ok := args[0].(Regex)
			s, ok2 := args[1].(*Str)
			if !ok || !ok2 {
				return nil, false
			}
			if s.Opaque {
				return Bool{}, true
			}
			m, err := matchFixed(re.Pat, s)
			if err != "" {
				in.stop("%s: regexp %q: %s", fr.fn.Name(), re.Pat, err)
			}
			in.Matches = append(in.Matches, MatchEvent{Fn: fr.fn.Name(), Pat: re.Pat, Result: m})
			return Bool{Known: true, Val: m}, true
		}
		return nil, false
	}
	if full == "regexp.MustCompile" || full == "regexp.Compile" {
		if pat, ok := MustCompileConst(x); ok {
			if full == "regexp.Compile" {
				return tuple2(Regex{pat}, Iface{}), true
			}
			return Regex{pat}, true
		}
		return nil, false
	}
	return fr.stdlibNamed(x, full, args)
}

// stdlibNamed: the models of plain library functions, by qualified name.
func (fr *frame) stdlibNamed(x *ssa.Call, full string, args []Value) (Value, bool) {
	in := fr.in
	if v, ok := fr.strFuncs(x, full, args); ok {
		return v, true
	}
	if v, ok := fr.hashFuncs(x, full, args); ok {
		return v, true
	}
	str := func(i int) *Str {
		s, ok := args[i].(*Str)
		if !ok {
			return &Str{Opaque: true, Why: fmt.Sprintf("%T passed as a string", args[i])}
		}
		return s
	}
	lit := func(i int, what string) string {
		l, ok := str(i).Literal()
		if !ok {
			in.stop("%s: %s of %s is not a constant string", fr.fn.Name(), what, full)
		}
		return l
	}
	switch full {
	case "fmt.Errorf", "errors.New":
		return errIface(full), true
	case "bytes.Clone", "slices.Clone":
		// a fresh copy with len == cap; Clone(nil) == nil
		s, ok := args[0].(Slice)
		if !ok {
			return nil, false
		}
		if s.Nil {
			return s, true
		}
		et := s.Arr.T.Underlying().(*types.Array).Elem()
		arr := &Node{T: types.NewArray(et, int64(s.Len())), Kids: make([]*Node, 0, s.Len())}
		for i := s.Lo; i < s.Hi; i++ {
			arr.Kids = append(arr.Kids, copyNode(s.Arr.Kids[i]))
		}
		return Slice{Arr: arr, Lo: 0, Hi: len(arr.Kids), Cap: len(arr.Kids)}, true
	case "bytes.Equal", "slices.Equal", "crypto/hmac.Equal":
		return bytesEqual(args[0], args[1]), true
	case "crypto/subtle.ConstantTimeCompare":
		b := bytesEqual(args[0], args[1])
		if !b.Known {
			return Int{lanes.TopVec(64)}, true
		}
		if b.Val {
			return intConst(1, 64), true
		}
		return intConst(0, 64), true
	case "strings.TrimSpace":
		s := str(0)
		if s.Opaque {
			return s, true
		}
		lo, hi := 0, len(s.Chars)
		sp := func(c Char) bool { return !c.IsHex() && strings.ContainsRune(" \t\n\v\f\r\x85\xa0", rune(c.Lit)) }
		for lo < hi && sp(s.Chars[lo]) {
			lo++
		}
		for hi > lo && sp(s.Chars[hi-1]) {
			hi--
		}
		for _, c := range s.Chars {
			if !c.IsHex() && c.Lit >= 0x80 {
				return &Str{Opaque: true, Why: "TrimSpace of a non-ASCII string"}, true
			}
		}
		return &Str{Chars: append([]Char(nil), s.Chars[lo:hi]...)}, true
	case "strings.ToLower":
		s := str(0)
		if s.Opaque {
			return s, true
		}
		out := &Str{Chars: make([]Char, len(s.Chars)), Fixed: s.Fixed}
		for i, c := range s.Chars {
			if !c.IsHex() {
				if c.Lit >= 0x80 {
					return &Str{Opaque: true, Why: "ToLower of a non-ASCII string"}, true
				}
				if c.Lit >= 'A' && c.Lit <= 'Z' {
					c.Lit += 'a' - 'A'
				}
			}
			out.Chars[i] = c
		}
		return out, true
	case "strings.Replace", "strings.ReplaceAll":
		s := str(0)
		if s.Opaque {
			return s, true
		}
		old, nw := lit(1, "the pattern"), lit(2, "the replacement")
		if full == "strings.Replace" {
			if n, ok := constInt(args[3]); !ok || n >= 0 {
				in.stop("%s: strings.Replace with a non-negative count is not modelled", fr.fn.Name())
			}
		}
		if len(old) != 1 {
			in.stop("%s: %s with a pattern that is not a single character is not modelled", fr.fn.Name(), full)
		}
		if isLowerHex(old[0]) {
			for _, c := range s.Chars {
				if c.IsHex() {
					in.stop("%s: %s of %q in a string with symbolic hex digits", fr.fn.Name(), full, old)
				}
			}
		}
		out := &Str{}
		for _, c := range s.Chars {
			if !c.IsHex() && c.Lit == old[0] {
				out.Chars = append(out.Chars, LitStr(nw).Chars...)
			} else {
				out.Chars = append(out.Chars, c)
			}
		}
		return out, true
	case "strings.Split":
		s := str(0)
		sep := lit(1, "the separator")
		if s.Opaque {
			return Opaque{"Split of an opaque string"}, true
		}
		if len(sep) != 1 {
			in.stop("%s: strings.Split with a separator that is not a single character is not modelled", fr.fn.Name())
		}
		if isLowerHex(sep[0]) {
			for _, c := range s.Chars {
				if c.IsHex() {
					in.stop("%s: strings.Split by %q of a string with symbolic hex digits", fr.fn.Name(), sep)
				}
			}
		}
		var parts []*Str
		cur := &Str{}
		for _, c := range s.Chars {
			if !c.IsHex() && c.Lit == sep[0] {
				parts = append(parts, cur)
				cur = &Str{}
				continue
			}
			cur.Chars = append(cur.Chars, c)
		}
		parts = append(parts, cur)
		st := types.Typ[types.String]
		arr := &Node{T: types.NewArray(st, int64(len(parts))), Kids: make([]*Node, len(parts))}
		for i, p := range parts {
			arr.Kids[i] = &Node{T: st, Leaf: p}
		}
		return Slice{Arr: arr, Lo: 0, Hi: len(parts), Cap: len(parts)}, true
	case "fmt.Sprintf":
		return fr.sprintf(lit(0, "the format"), args[1]), true
	case "regexp.MatchString":
		pat := lit(0, "the pattern")
		s := str(1)
		if s.Opaque {
			return tuple2(Bool{}, Iface{}), true
		}
		m, err := matchFixed(pat, s)
		if err != "" {
			in.stop("%s: regexp %q: %s", fr.fn.Name(), pat, err)
		}
		in.Matches = append(in.Matches, MatchEvent{Fn: fr.fn.Name(), Pat: pat, Result: m})
		return tuple2(Bool{Known: true, Val: m}, Iface{}), true
	case "strconv.ParseUint":
		return fr.parseUint(str(0), args[1], args[2]), true
	case "encoding/hex.DecodeString":
		s := str(0)
		if s.Opaque {
			return tuple2(Opaque{"hex.DecodeString of an opaque string"}, Opaque{"error of hex.DecodeString"}), true
		}
		if len(s.Chars)%2 != 0 {
			return tuple2(Slice{Nil: true}, errIface("hex: odd length")), true
		}
		n := len(s.Chars) / 2
		arr := &Node{T: types.NewArray(types.Typ[types.Uint8], int64(n)), Kids: make([]*Node, n)}
		for i := 0; i < n; i++ {
			hi, ok1 := nibble(s.Chars[2*i])
			lo, ok2 := nibble(s.Chars[2*i+1])
			if !ok1 || !ok2 {
				return tuple2(Slice{Nil: true}, errIface("hex: invalid byte")), true
			}
			arr.Kids[i] = &Node{T: types.Typ[types.Uint8], Leaf: Int{append(append(lanes.Vec(nil), lo...), hi...)}}
		}
		return tuple2(Slice{Arr: arr, Lo: 0, Hi: n, Cap: n}, Iface{}), true
	case "encoding/hex.EncodeToString":
		b, ok := args[0].(Slice)
		if !ok {
			return &Str{Opaque: true, Why: "hex.EncodeToString of an opaque slice"}, true
		}
		out := &Str{}
		if !b.Nil {
			for i := b.Lo; i < b.Hi; i++ {
				iv, ok := b.Arr.Kids[i].Leaf.(Int)
				if !ok || len(iv.V) != 8 {
					return &Str{Opaque: true, Why: "hex.EncodeToString of bytes that are not modelled"}, true
				}
				out.Chars = append(out.Chars, Char{Hex: append(lanes.Vec(nil), iv.V[4:8]...)}, Char{Hex: append(lanes.Vec(nil), iv.V[0:4]...)})
			}
		}
		return out, true
	}
	return nil, false
}

// nibble: the four value lanes of a hexadecimal digit character.
func nibble(c Char) (lanes.Vec, bool) {
	if c.IsHex() {
		return c.Hex, true
	}
	v, err := strconv.ParseUint(string(c.Lit), 16, 8)
	if err != nil {
		return nil, false
	}
	return lanes.ConstVec(big.NewInt(int64(v)), 4), true
}

func (fr *frame) parseUint(s *Str, baseV, bitsV Value) Value {
	in := fr.in
	base, ok1 := constInt(baseV)
	bitSize, ok2 := constInt(bitsV)
	if !ok1 || !ok2 {
		in.stop("%s: strconv.ParseUint with a base or bit size that is not constant", fr.fn.Name())
	}
	if s.Opaque {
		return tuple2(Int{lanes.TopVec(64)}, Opaque{"error of ParseUint on an opaque string"})
	}
	if base != 16 {
		if l, ok := s.Literal(); ok {
			v, err := strconv.ParseUint(l, base, bitSize)
			if err != nil {
				return tuple2(intConst(0, 64), errIface("ParseUint: "+err.Error()))
			}
			return tuple2(Int{lanes.ConstVec(new(big.Int).SetUint64(v), 64)}, Iface{})
		}
		in.stop("%s: strconv.ParseUint base %d on symbolic digits is not a bit move", fr.fn.Name(), base)
	}
	if bitSize == 0 {
		bitSize = 64
	}
	n := len(s.Chars)
	if n == 0 {
		return tuple2(intConst(0, 64), errIface("ParseUint: empty string"))
	}
	var digits []lanes.Vec
	for _, c := range s.Chars {
		nb, ok := nibble(c)
		if !ok {
			return tuple2(intConst(0, 64), errIface(fmt.Sprintf("ParseUint: invalid digit %q", c.Lit)))
		}
		digits = append(digits, nb)
	}
	all := make(lanes.Vec, 0, 4*n)
	for j := n - 1; j >= 0; j-- {
		all = append(all, digits[j]...)
	}
	// bits at or above bitSize must be zero for ParseUint to succeed
	var must []lanes.Bit
	for i := bitSize; i < len(all); i++ {
		switch all[i].K {
		case lanes.Zero:
		case lanes.One:
			return tuple2(intConst(0, 64), errIface("ParseUint: value out of range"))
		default:
			must = append(must, all[i])
		}
	}
	if len(must) > 0 {
		in.Restr = append(in.Restr, Restriction{Kind: "parseuint-range",
			What: fmt.Sprintf("%s: strconv.ParseUint(%d hex digits, 16, %d) succeeds only when the digits above bit %d are 0", fr.fn.Name(), n, bitSize, bitSize-1), Bits: must})
	}
	out := lanes.ZeroVec(64)
	ev := ParseEvent{Fn: fr.fn.Name(), Digits: n, Base: 16, BitSize: bitSize, Fixed: s.Fixed}
	for i := 0; i < 64 && i < len(all) && i < bitSize; i++ {
		out[i] = all[i]
		if all[i].K == lanes.Src {
			ev.Bits = append(ev.Bits, all[i])
		}
	}
	in.Events = append(in.Events, ev)
	return tuple2(Int{out}, Iface{})
}

// sprintf models fmt.Sprintf for the verbs %0Nx (integers and byte slices),
// %s (abstract strings), %d (constants) and %%. Anything else yields an opaque
// string.
func (fr *frame) sprintf(format string, argv Value) Value {
	in := fr.in
	var args []Value
	if s, ok := argv.(Slice); ok && !s.Nil {
		for i := s.Lo; i < s.Hi; i++ {
			v := s.Arr.Kids[i].Leaf
			if ifc, ok := v.(Iface); ok {
				v = ifc.V
			}
			args = append(args, v)
		}
	}
	out := &Str{}
	ai := 0
	for i := 0; i < len(format); i++ {
		c := format[i]
		if c != '%' {
			out.Chars = append(out.Chars, Char{Lit: c})
			continue
		}
		i++
		if i >= len(format) {
			return &Str{Opaque: true, Why: "format ends in %"}
		}
		if format[i] == '%' {
			out.Chars = append(out.Chars, Char{Lit: '%'})
			continue
		}
		zero := false
		if format[i] == '0' {
			zero = true
			i++
		}
		width := 0
		for i < len(format) && format[i] >= '0' && format[i] <= '9' {
			width = width*10 + int(format[i]-'0')
			i++
		}
		if i >= len(format) || ai >= len(args) {
			return &Str{Opaque: true, Why: "format/argument mismatch"}
		}
		verb := format[i]
		arg := args[ai]
		ai++
		switch verb {
		case 'x':
			switch a := arg.(type) {
			case Int:
				if !zero || width == 0 {
					if k, ok := a.V.ConstVal(); ok {
						out.Chars = append(out.Chars, LitStr(fmt.Sprintf("%"+strconv.Itoa(width)+"x", k)).Chars...)
						continue
					}
					return &Str{Opaque: true, Why: "%x of a symbolic integer without zero padding has no fixed length"}
				}
				// exactly `width` digits provided the bits above 4·width are zero
				var must []lanes.Bit
				for b := 4 * width; b < len(a.V); b++ {
					switch a.V[b].K {
					case lanes.Zero:
					case lanes.Src:
						must = append(must, a.V[b])
					default:
						return &Str{Opaque: true, Why: fmt.Sprintf("%%0%dx of an integer whose high bits are not known to be zero", width)}
					}
				}
				if len(must) > 0 {
					in.Restr = append(in.Restr, Restriction{Kind: "sprintf-width",
						What: fmt.Sprintf("%s: %%0%dx prints exactly %d digits only when the argument's bits %d..%d are 0", fr.fn.Name(), width, width, 4*width, len(a.V)-1), Bits: must})
				}
				for j := width - 1; j >= 0; j-- {
					nb := lanes.ZeroVec(4)
					for b := 0; b < 4; b++ {
						if 4*j+b < len(a.V) {
							nb[b] = a.V[4*j+b]
						}
					}
					out.Chars = append(out.Chars, Char{Hex: nb})
				}
				continue
			case Slice:
				n := 0
				if !a.Nil {
					n = a.Len()
				}
				if width > 2*n {
					return &Str{Opaque: true, Why: "%x of a byte slice shorter than the width"}
				}
				for k := 0; k < n; k++ {
					iv, ok := a.Arr.Kids[a.Lo+k].Leaf.(Int)
					if !ok || len(iv.V) != 8 {
						return &Str{Opaque: true, Why: "%x of a slice that does not hold bytes"}
					}
					out.Chars = append(out.Chars, Char{Hex: append(lanes.Vec(nil), iv.V[4:8]...)}, Char{Hex: append(lanes.Vec(nil), iv.V[0:4]...)})
				}
				continue
			}
			return &Str{Opaque: true, Why: fmt.Sprintf("%%x of a %T", arg)}
		case 's', 'v':
			if s, ok := arg.(*Str); ok && !s.Opaque && width == 0 {
				out.Chars = append(out.Chars, s.Chars...)
				continue
			}
			return &Str{Opaque: true, Why: fmt.Sprintf("%%%c of a %T", verb, arg)}
		case 'd':
			if a, ok := arg.(Int); ok {
				if k, ok := a.V.ConstVal(); ok && width == 0 {
					out.Chars = append(out.Chars, LitStr(k.String()).Chars...)
					continue
				}
			}
			return &Str{Opaque: true, Why: "%d of a symbolic integer"}
		default:
			return &Str{Opaque: true, Why: fmt.Sprintf("verb %%%c is not modelled", verb)}
		}
	}
	return out
}
