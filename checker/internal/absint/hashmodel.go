package absint

import (
	"fmt"
	"go/types"
	"strings"

	"golang.org/x/tools/go/ssa"
)

// hash.Hash as far as the lane domain can describe it: a running digest IS the
// byte sequence written into it so far (the concatenation of the Write /
// WriteString / io.WriteString / binary.Write arguments, in execution order);
// Sum(b) appends the digest of that sequence to b and leaves the state
// untouched, Reset empties it. What a digest of a given byte sequence is, the
// domain cannot say (no bit of it is a bit move of the input): the rule
// supplies it through Interp.Digest (it sees the algorithm and the exact cells
// that were hashed); without a rule callback the digest is a fresh symbolic
// source, the same source for the same algorithm over cell-wise identical
// content, so that two digests compare equal only when they must.
//
// The one-shot forms (sha256.Sum256, sha1.Sum, md5.Sum, sha512.Sum512 …) go
// through the same callback, so a rule that observes "what reaches SHA-256"
// sees streaming and one-shot spellings alike.

// Hash is the dynamic value of a hash.Hash created by a modelled constructor.
type Hash struct {
	Alg  string // "sha256", "sha1", "md5", "sha512", "sha224", "sha384"
	Size int    // digest size in bytes
	N    *Node  // N.Kids[0].Leaf: the content written so far (a Slice)
}

var hashCtors = map[string]struct {
	alg  string
	size int
}{
	"crypto/sha256.New":    {"sha256", 32},
	"crypto/sha256.New224": {"sha224", 28},
	"crypto/sha1.New":      {"sha1", 20},
	"crypto/md5.New":       {"md5", 16},
	"crypto/sha512.New":    {"sha512", 64},
	"crypto/sha512.New384": {"sha384", 48},
}

var hashOneShot = map[string]struct {
	alg  string
	size int
}{
	"crypto/sha256.Sum256": {"sha256", 32},
	"crypto/sha256.Sum224": {"sha224", 28},
	"crypto/sha1.Sum":      {"sha1", 20},
	"crypto/md5.Sum":       {"md5", 16},
	"crypto/sha512.Sum512": {"sha512", 64},
	"crypto/sha512.Sum384": {"sha384", 48},
}

func newHash(alg string, size int) Hash {
	bt := types.Typ[types.Uint8]
	n := &Node{T: types.NewStruct(nil, nil), Name: alg + " state", Kids: []*Node{{T: types.NewSlice(bt), Leaf: Slice{Nil: true}}}}
	return Hash{Alg: alg, Size: size, N: n}
}

func asHash(v Value) (Hash, bool) {
	switch h := v.(type) {
	case Hash:
		return h, true
	case Iface:
		if hv, ok := h.V.(Hash); ok {
			return hv, true
		}
	}
	return Hash{}, false
}

// digestOf: the Size bytes a digest of `content` under alg consists of.
func (fr *frame) digestOf(alg string, size int, content Slice) []Value {
	in := fr.in
	if in.Digest != nil {
		if out, ok := in.Digest(in, alg, content); ok {
			cells := fr.cellsOf(out, alg+" digest")
			if len(cells) != size {
				in.stop("%s: the digest supplied for %s has %d bytes, expected %d", fr.fn.Name(), alg, len(cells), size)
			}
			return cells
		}
	}
	// a fresh symbolic source per (algorithm, content)
	var sb strings.Builder
	sb.WriteString(alg)
	if !content.Nil {
		for i := content.Lo; i < content.Hi; i++ {
			iv, ok := content.Arr.Kids[i].Leaf.(Int)
			if !ok {
				fmt.Fprintf(&sb, "|?%p", content.Arr.Kids[i])
				continue
			}
			sb.WriteByte('|')
			sb.WriteString(iv.V.String(in.Name))
		}
	}
	key := sb.String()
	if in.digests == nil {
		in.digests = map[string]int{}
	}
	id, ok := in.digests[key]
	if !ok {
		id = in.NewSrc(fmt.Sprintf("%s(#%d)", alg, len(in.digests)+1))
		in.digests[key] = id
	}
	cells := make([]Value, size)
	for i := range cells {
		cells[i] = SrcInt(id, i, 8)
	}
	return cells
}

// hashMethod: a method of a modelled hash.Hash (reached through hash.Hash,
// io.Writer or any other interface the value was converted to).
func (fr *frame) hashMethod(x *ssa.Call, h Hash, name string, args []Value) Value {
	in := fr.in
	fr.hashKnown(h)
	switch name {
	case "Write":
		cells := fr.cellsOf(args[0], "hash.Hash.Write")
		fr.bufAppend(h.N, cells)
		return tuple2(intConst(len(cells), 64), Iface{})
	case "WriteString":
		cells := fr.cellsOf(args[0], "hash.Hash.WriteString")
		fr.bufAppend(h.N, cells)
		return tuple2(intConst(len(cells), 64), Iface{})
	case "WriteByte":
		fr.bufAppend(h.N, []Value{args[0]})
		return Iface{}
	case "Sum":
		d := fr.digestOf(h.Alg, h.Size, bufContent(h.N))
		bt := types.Typ[types.Uint8]
		arr := &Node{T: types.NewArray(bt, int64(len(d))), Kids: make([]*Node, len(d))}
		for i, c := range d {
			arr.Kids[i] = &Node{T: bt, Leaf: c}
		}
		return fr.builtin(x, "append", []Value{args[0], Slice{Arr: arr, Lo: 0, Hi: len(d), Cap: len(d)}})
	case "Reset":
		h.N.Kids[0].Leaf = Slice{Nil: true}
		in.mark(h.N.Kids[0])
		return nil
	case "Size":
		return intConst(h.Size, 64)
	case "BlockSize":
		if h.Alg == "sha512" || h.Alg == "sha384" {
			return intConst(128, 64)
		}
		return intConst(64, 64)
	}
	in.stop("%s: hash.Hash.%s is not modelled", fr.fn.Name(), name)
	return nil
}

// hashKnown aborts when the state was handed to code that is not modelled
// (fmt.Fprintf(h, …), io.Copy(h, …)): what it holds is then unknown.
func (fr *frame) hashKnown(h Hash) {
	if o, bad := h.N.Kids[0].Leaf.(Opaque); bad {
		fr.in.stop("%s: the %s state was %s; what it has absorbed is not known", fr.fn.Name(), h.Alg, o.Why)
	}
}

// hashFuncs: constructors and one-shot digests by qualified name, plus the
// library helpers that write into an io.Writer when that writer is a modelled
// hash.
func (fr *frame) hashFuncs(x *ssa.Call, full string, args []Value) (Value, bool) {
	if c, ok := hashCtors[full]; ok && len(args) == 0 {
		return Iface{V: newHash(c.alg, c.size), T: x.Type()}, true
	}
	if c, ok := hashOneShot[full]; ok && len(args) == 1 {
		s, isS := args[0].(Slice)
		if !isS {
			return nil, false
		}
		// the content as the callback sees it: a private copy, like Write makes
		tmp := newHash(c.alg, c.size)
		fr.bufAppend(tmp.N, fr.cellsOf(s, full))
		d := fr.digestOf(c.alg, c.size, bufContent(tmp.N))
		bt := types.Typ[types.Uint8]
		arr := &Node{T: types.NewArray(bt, int64(len(d))), Kids: make([]*Node, len(d))}
		for i, v := range d {
			arr.Kids[i] = &Node{T: bt, Leaf: v}
		}
		return Agg{arr}, true
	}
	switch full {
	case "io.WriteString":
		if h, ok := asHash(args[0]); ok && len(args) == 2 {
			fr.hashKnown(h)
			cells := fr.cellsOf(args[1], "io.WriteString")
			fr.bufAppend(h.N, cells)
			return tuple2(intConst(len(cells), 64), Iface{}), true
		}
	}
	return nil, false
}

// cryptoHashNew: crypto.SHA256.New() and friends (a crypto.Hash constant as
// receiver).
func (fr *frame) cryptoHashNew(x *ssa.Call, callee *ssa.Function, args []Value) (Value, bool) {
	if callee.Pkg == nil || callee.Pkg.Pkg.Path() != "crypto" || len(args) != 1 {
		return nil, false
	}
	if nt, ok := callee.Signature.Recv().Type().(*types.Named); !ok || nt.Obj().Name() != "Hash" {
		return nil, false
	}
	k, ok := constInt(args[0])
	if !ok {
		return nil, false
	}
	c, known := map[int]struct {
		alg  string
		size int
	}{2: {"md5", 16}, 3: {"sha1", 20}, 4: {"sha224", 28}, 5: {"sha256", 32}, 6: {"sha384", 48}, 7: {"sha512", 64}}[k]
	if !known {
		return nil, false
	}
	switch callee.Name() {
	case "New":
		return Iface{V: newHash(c.alg, c.size), T: x.Type()}, true
	case "Size":
		return intConst(c.size, 64), true
	}
	return nil, false
}

// invoke: a call through an interface whose dynamic value the run knows.
// Modelled hashes answer themselves; for any other known dynamic type the
// method is looked up in the program and called like a static callee (rule
// hook, library model, in-module body). ok == false: the caller falls back to
// the opaque treatment.
func (fr *frame) invoke(x *ssa.Call) (Value, bool) {
	cc := x.Common()
	recv := fr.get(cc.Value)
	args := make([]Value, len(cc.Args))
	for i, a := range cc.Args {
		args[i] = fr.get(a)
	}
	if h, ok := asHash(recv); ok {
		return fr.hashMethod(x, h, cc.Method.Name(), args), true
	}
	ifc, ok := recv.(Iface)
	if !ok || ifc.V == nil || ifc.T == nil {
		return nil, false
	}
	if _, isIface := ifc.T.Underlying().(*types.Interface); isIface {
		return nil, false
	}
	callee := fr.lookupMethod(ifc.T, cc.Method)
	if callee == nil {
		return nil, false
	}
	all := append([]Value{ifc.V}, args...)
	if len(all) != len(callee.Params) && callee.Blocks != nil {
		return nil, false
	}
	in := fr.in
	if in.Hook != nil {
		if v, ok := in.Hook(in, cc, callee, all); ok {
			return v, true
		}
	}
	if v, ok := fr.stdlib(x, callee, all); ok {
		return v, true
	}
	if in.InModule != nil && in.InModule(callee) && callee.Blocks != nil && callee.Synthetic == "" {
		return in.run(callee, all, nil, fr.depth+1), true
	}
	return nil, false
}

func (fr *frame) lookupMethod(t types.Type, m *types.Func) (fn *ssa.Function) {
	defer func() {
		if recover() != nil {
			fn = nil
		}
	}()
	prog := fr.fn.Prog
	if prog == nil {
		return nil
	}
	sel := prog.MethodSets.MethodSet(t).Lookup(m.Pkg(), m.Name())
	if sel == nil {
		return nil
	}
	return prog.MethodValue(sel)
}
