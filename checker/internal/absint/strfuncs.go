package absint

import (
	"go/types"
	"strconv"
	"strings"

	"golang.org/x/tools/go/ssa"

	"manticheck/internal/lanes"
)

// Text functions of strings / bytes / strconv on abstract strings.
//
// An abstract string is a sequence of literal bytes and symbolic lower-case
// hexadecimal digits. Every function below is decided character by character:
// a literal equals a literal or not; a symbolic hex digit never equals a
// character that is not in [0-9a-f]; whether it equals one that is, is not
// known — then the run aborts (nothing may be concluded). The bytes.* variants
// are the strings.* models applied to the byte slice read as an abstract
// string (constant bytes, and the Char cells a []byte(string) conversion
// leaves for symbolic hex digits); their results are fresh slices (the
// aliasing of bytes.Split's parts with the input is not modelled: a rule that
// depends on writes through such parts must not use this model).

// asStr views v as an abstract string.
func asStr(v Value) (*Str, bool) {
	switch s := v.(type) {
	case *Str:
		return s, true
	case Slice:
		out := &Str{}
		if s.Nil {
			return out, true
		}
		for i := s.Lo; i < s.Hi; i++ {
			switch c := s.Arr.Kids[i].Leaf.(type) {
			case Char:
				out.Chars = append(out.Chars, c)
			case Int:
				k, ok := c.V.ConstVal()
				if !ok || len(c.V) != 8 {
					return &Str{Opaque: true, Why: "bytes that are not constant"}, true
				}
				out.Chars = append(out.Chars, Char{Lit: byte(k.Int64())})
			default:
				return &Str{Opaque: true, Why: "cells that are not bytes"}, true
			}
		}
		return out, true
	}
	return nil, false
}

// strBytes is []byte(s): constant cells for literals, Char cells for symbolic
// hex digits (so that string(b) gives the digit back).
func strBytes(s *Str) Value {
	if s.Opaque {
		return Opaque{"[]byte of an opaque string"}
	}
	arr := &Node{T: types.NewArray(types.Typ[types.Uint8], int64(len(s.Chars))), Kids: make([]*Node, len(s.Chars))}
	for i, c := range s.Chars {
		var leaf Value
		if c.IsHex() {
			if _, isK := c.Hex.ConstVal(); isK {
				leaf = charByte(c)
			} else {
				leaf = c
			}
		} else {
			leaf = charByte(c)
		}
		arr.Kids[i] = &Node{T: types.Typ[types.Uint8], Leaf: leaf}
	}
	return Slice{Arr: arr, Lo: 0, Hi: len(s.Chars), Cap: len(s.Chars)}
}

// eqChar: do a and b denote the same byte? (equal, known)
func eqChar(a, b Char) (bool, bool) {
	switch {
	case !a.IsHex() && !b.IsHex():
		return a.Lit == b.Lit, true
	case a.IsHex() && b.IsHex():
		ka, oka := a.Hex.ConstVal()
		kb, okb := b.Hex.ConstVal()
		if oka && okb {
			return ka.Cmp(kb) == 0, true
		}
		if a.Hex.Equal(b.Hex) && !a.Hex.HasTop() {
			return true, true
		}
		return false, false
	}
	h, l := a, b
	if b.IsHex() {
		h, l = b, a
	}
	if !isLowerHex(l.Lit) {
		return false, true
	}
	if k, ok := h.Hex.ConstVal(); ok {
		return "0123456789abcdef"[k.Int64()] == l.Lit, true
	}
	return false, false
}

func matchAt(s []Char, i int, sep []Char) (bool, bool) {
	if i < 0 || i+len(sep) > len(s) {
		return false, true
	}
	known := true
	for j := range sep {
		eq, k := eqChar(s[i+j], sep[j])
		if k && !eq {
			return false, true
		}
		if !k {
			known = false
		}
	}
	return known, known
}

// indexOf: first position ≥ from where sep occurs; known=false when an earlier
// position cannot be excluded.
func indexOf(s, sep []Char, from int) (int, bool) {
	for i := from; i+len(sep) <= len(s); i++ {
		m, k := matchAt(s, i, sep)
		if !k {
			return 0, false
		}
		if m {
			return i, true
		}
	}
	return -1, true
}

func sub(s *Str, lo, hi int) *Str { return &Str{Chars: append([]Char(nil), s.Chars[lo:hi]...)} }

func strSliceValue(parts []*Str) Value {
	st := types.Typ[types.String]
	arr := &Node{T: types.NewArray(st, int64(len(parts))), Kids: make([]*Node, len(parts))}
	for i, p := range parts {
		arr.Kids[i] = &Node{T: st, Leaf: p}
	}
	return Slice{Arr: arr, Lo: 0, Hi: len(parts), Cap: len(parts)}
}

func byteSlicesValue(parts []*Str) Value {
	bt := types.NewSlice(types.Typ[types.Uint8])
	arr := &Node{T: types.NewArray(bt, int64(len(parts))), Kids: make([]*Node, len(parts))}
	for i, p := range parts {
		arr.Kids[i] = &Node{T: bt, Leaf: strBytes(p)}
	}
	return Slice{Arr: arr, Lo: 0, Hi: len(parts), Cap: len(parts)}
}

func (fr *frame) strFuncs(x *ssa.Call, full string, args []Value) (Value, bool) {
	in := fr.in
	dot := strings.LastIndexByte(full, '.')
	if dot < 0 {
		return nil, false
	}
	pkg, name := full[:dot], full[dot+1:]
	isBytes := pkg == "bytes"
	if pkg != "strings" && pkg != "bytes" && pkg != "strconv" {
		return nil, false
	}
	sarg := func(i int) *Str {
		if i >= len(args) {
			return &Str{Opaque: true, Why: "missing argument"}
		}
		s, ok := asStr(args[i])
		if !ok {
			return &Str{Opaque: true, Why: "argument that is not text"}
		}
		return s
	}
	text := func(s *Str) Value {
		if isBytes {
			return strBytes(s)
		}
		return s
	}
	list := func(parts []*Str) Value {
		if isBytes {
			return byteSlicesValue(parts)
		}
		return strSliceValue(parts)
	}
	undecided := func(what string) {
		in.stop("%s: %s.%s: %s", fr.fn.Name(), pkg, name, what)
	}
	if pkg == "strconv" {
		switch name {
		case "Atoi":
			s := sarg(0)
			if l, ok := s.Literal(); ok {
				v, err := strconv.Atoi(l)
				if err != nil {
					return tuple2(intConst(0, 64), errIface("Atoi: "+err.Error())), true
				}
				return tuple2(intConst(v, 64), Iface{}), true
			}
			return tuple2(Int{lanes.TopVec(64)}, Opaque{"error of Atoi on symbolic text"}), true
		case "ParseInt":
			s := sarg(0)
			base, ok1 := constInt(args[1])
			bits, ok2 := constInt(args[2])
			if l, ok := s.Literal(); ok && ok1 && ok2 {
				v, err := strconv.ParseInt(l, base, bits)
				if err != nil {
					return tuple2(intConst(0, 64), errIface("ParseInt: "+err.Error())), true
				}
				return tuple2(intConst(int(v), 64), Iface{}), true
			}
			return tuple2(Int{lanes.TopVec(64)}, Opaque{"error of ParseInt on symbolic text"}), true
		case "Itoa":
			if k, ok := constInt(args[0]); ok {
				return LitStr(strconv.Itoa(k)), true
			}
			return &Str{Opaque: true, Why: "Itoa of a symbolic integer"}, true
		case "FormatInt", "FormatUint":
			k, ok1 := constInt(args[0])
			base, ok2 := constInt(args[1])
			if ok1 && ok2 && base >= 2 && base <= 36 {
				return LitStr(strconv.FormatInt(int64(k), base)), true
			}
			return &Str{Opaque: true, Why: name + " of a symbolic integer"}, true
		}
		return nil, false
	}
	// the bytes.* names that exist with the same meaning in strings
	switch name {
	case "Index", "LastIndex", "IndexByte", "Contains", "HasPrefix", "HasSuffix", "Cut", "CutPrefix", "CutSuffix",
		"TrimPrefix", "TrimSuffix", "SplitN", "Split", "Join", "Repeat", "TrimSpace", "ToLower", "ToUpper",
		"Trim", "TrimLeft", "TrimRight", "EqualFold", "Count", "Fields":
	default:
		return nil, false
	}
	if !isBytes {
		// the models that already exist for strings.* on *Str stay in charge
		switch name {
		case "Split", "TrimSpace", "ToLower":
			if _, ok := args[0].(*Str); ok {
				return nil, false
			}
		}
	}
	s := sarg(0)
	if s.Opaque {
		switch name {
		case "Index", "LastIndex", "IndexByte", "Count":
			return Int{lanes.TopVec(64)}, true
		case "Contains", "HasPrefix", "HasSuffix", "EqualFold":
			return Bool{}, true
		case "Cut":
			return Tuple{text(s), text(s), Bool{}}, true
		case "CutPrefix", "CutSuffix":
			return Tuple{text(s), Bool{}}, true
		case "SplitN", "Split", "Fields":
			return Opaque{name + " of opaque text"}, true
		}
		return text(s), true
	}
	sepOf := func(i int) []Char {
		p := sarg(i)
		if p.Opaque {
			undecided("the pattern is not known text")
		}
		return p.Chars
	}
	switch name {
	case "Index", "Contains":
		sep := sepOf(1)
		i, known := indexOf(s.Chars, sep, 0)
		if !known {
			undecided("whether a symbolic hex digit equals a pattern character is not known")
		}
		if name == "Contains" {
			return Bool{Known: true, Val: i >= 0}, true
		}
		return intConst(i, 64), true
	case "IndexByte":
		k, ok := constInt(args[1])
		if !ok {
			undecided("the byte searched for is not constant")
		}
		i, known := indexOf(s.Chars, []Char{{Lit: byte(k)}}, 0)
		if !known {
			undecided("whether a symbolic hex digit equals the byte is not known")
		}
		return intConst(i, 64), true
	case "LastIndex":
		sep := sepOf(1)
		for i := len(s.Chars) - len(sep); i >= 0; i-- {
			m, k := matchAt(s.Chars, i, sep)
			if !k {
				undecided("whether a symbolic hex digit equals a pattern character is not known")
			}
			if m {
				return intConst(i, 64), true
			}
		}
		return intConst(-1, 64), true
	case "Count":
		sep := sepOf(1)
		if len(sep) == 0 {
			return intConst(len(s.Chars)+1, 64), true
		}
		n := 0
		for i := 0; ; {
			j, known := indexOf(s.Chars, sep, i)
			if !known {
				undecided("whether a symbolic hex digit equals a pattern character is not known")
			}
			if j < 0 {
				break
			}
			n++
			i = j + len(sep)
		}
		return intConst(n, 64), true
	case "HasPrefix", "CutPrefix", "TrimPrefix":
		sep := sepOf(1)
		m, known := matchAt(s.Chars, 0, sep)
		if !known {
			undecided("whether the text starts with the prefix is not known")
		}
		rest := s
		if m {
			rest = sub(s, len(sep), len(s.Chars))
		}
		switch name {
		case "HasPrefix":
			return Bool{Known: true, Val: m}, true
		case "CutPrefix":
			return Tuple{text(rest), Bool{Known: true, Val: m}}, true
		}
		return text(rest), true
	case "HasSuffix", "CutSuffix", "TrimSuffix":
		sep := sepOf(1)
		m, known := matchAt(s.Chars, len(s.Chars)-len(sep), sep)
		if len(sep) > len(s.Chars) {
			m, known = false, true
		}
		if !known {
			undecided("whether the text ends with the suffix is not known")
		}
		rest := s
		if m {
			rest = sub(s, 0, len(s.Chars)-len(sep))
		}
		switch name {
		case "HasSuffix":
			return Bool{Known: true, Val: m}, true
		case "CutSuffix":
			return Tuple{text(rest), Bool{Known: true, Val: m}}, true
		}
		return text(rest), true
	case "Cut":
		sep := sepOf(1)
		i, known := indexOf(s.Chars, sep, 0)
		if !known {
			undecided("whether a symbolic hex digit equals a separator character is not known")
		}
		if i < 0 {
			empty := &Str{}
			var after Value = empty
			if isBytes {
				after = Slice{Nil: true}
			}
			return Tuple{text(s), after, Bool{Known: true, Val: false}}, true
		}
		return Tuple{text(sub(s, 0, i)), text(sub(s, i+len(sep), len(s.Chars))), Bool{Known: true, Val: true}}, true
	case "Split", "SplitN":
		sep := sepOf(1)
		n := -1
		if name == "SplitN" {
			k, ok := constInt(args[2])
			if !ok {
				undecided("the part count is not constant")
			}
			n = k
		}
		if n == 0 {
			if isBytes {
				return Slice{Nil: true}, true
			}
			return Slice{Nil: true}, true
		}
		if len(sep) == 0 {
			undecided("an empty separator is not modelled")
		}
		var parts []*Str
		from := 0
		for n < 0 || len(parts) < n-1 {
			i, known := indexOf(s.Chars, sep, from)
			if !known {
				undecided("whether a symbolic hex digit equals a separator character is not known")
			}
			if i < 0 {
				break
			}
			parts = append(parts, sub(s, from, i))
			from = i + len(sep)
		}
		parts = append(parts, sub(s, from, len(s.Chars)))
		return list(parts), true
	case "Join":
		ps, ok := args[0].(Slice)
		if !ok {
			return nil, false
		}
		sep := sepOf(1)
		out := &Str{}
		if !ps.Nil {
			for i := ps.Lo; i < ps.Hi; i++ {
				p, ok := asStr(ps.Arr.Kids[i].Leaf)
				if !ok || p.Opaque {
					return text(&Str{Opaque: true, Why: "Join of opaque parts"}), true
				}
				if i > ps.Lo {
					out.Chars = append(out.Chars, sep...)
				}
				out.Chars = append(out.Chars, p.Chars...)
			}
		}
		return text(out), true
	case "Repeat":
		k, ok := constInt(args[1])
		if !ok || k < 0 || k*len(s.Chars) > maxArray {
			undecided("the count is not a small constant")
		}
		out := &Str{}
		for i := 0; i < k; i++ {
			out.Chars = append(out.Chars, s.Chars...)
		}
		return text(out), true
	case "TrimSpace", "Trim", "TrimLeft", "TrimRight":
		inSet := func(c Char) bool {
			if name == "TrimSpace" {
				if !c.IsHex() && c.Lit >= 0x80 {
					undecided("non-ASCII text")
				}
				return !c.IsHex() && strings.ContainsRune(" \t\n\v\f\r", rune(c.Lit))
			}
			set := sepOf(1)
			for _, q := range set {
				if !q.IsHex() && q.Lit >= 0x80 {
					undecided("non-ASCII cutset")
				}
				eq, k := eqChar(c, q)
				if !k {
					undecided("whether a symbolic hex digit is in the cutset is not known")
				}
				if eq {
					return true
				}
			}
			return false
		}
		lo, hi := 0, len(s.Chars)
		if name != "TrimRight" {
			for lo < hi && inSet(s.Chars[lo]) {
				lo++
			}
		}
		if name != "TrimLeft" {
			for hi > lo && inSet(s.Chars[hi-1]) {
				hi--
			}
		}
		return text(sub(s, lo, hi)), true
	case "ToLower", "ToUpper":
		out := &Str{Chars: make([]Char, len(s.Chars))}
		for i, c := range s.Chars {
			if c.IsHex() {
				if name == "ToUpper" {
					return text(&Str{Opaque: true, Why: "ToUpper of symbolic hex digits"}), true
				}
				out.Chars[i] = c
				continue
			}
			if c.Lit >= 0x80 {
				return text(&Str{Opaque: true, Why: name + " of non-ASCII text"}), true
			}
			switch {
			case name == "ToLower" && c.Lit >= 'A' && c.Lit <= 'Z':
				c.Lit += 'a' - 'A'
			case name == "ToUpper" && c.Lit >= 'a' && c.Lit <= 'z':
				c.Lit -= 'a' - 'A'
			}
			out.Chars[i] = c
		}
		return text(out), true
	case "Fields":
		var parts []*Str
		cur := -1
		for i, c := range s.Chars {
			sp := !c.IsHex() && strings.ContainsRune(" \t\n\v\f\r", rune(c.Lit))
			if !c.IsHex() && c.Lit >= 0x80 {
				undecided("non-ASCII text")
			}
			if sp {
				if cur >= 0 {
					parts = append(parts, sub(s, cur, i))
					cur = -1
				}
			} else if cur < 0 {
				cur = i
			}
		}
		if cur >= 0 {
			parts = append(parts, sub(s, cur, len(s.Chars)))
		}
		return list(parts), true
	case "EqualFold":
		return Bool{}, true
	}
	return nil, false
}

// TextBytes is []byte(s) for rules that hand an abstract string to a function
// taking bytes.
func TextBytes(s *Str) Value { return strBytes(s) }
