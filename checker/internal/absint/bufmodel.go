package absint

import (
	"go/types"

	"golang.org/x/tools/go/ssa"

	"manticheck/internal/lanes"
)

// bytes.Buffer and encoding/binary.Write, as far as encoders use them: the
// buffer is its content (field 0 of the struct node holds the bytes written
// so far and not yet read); Write/WriteByte/WriteString append, Bytes/String/
// Len observe, Reset empties. Reading methods are not modelled.

func isBytesBuffer(t types.Type) bool {
	if p, ok := t.Underlying().(*types.Pointer); ok {
		t = p.Elem()
	}
	n, ok := t.(*types.Named)
	return ok && n.Obj().Pkg() != nil && n.Obj().Pkg().Path() == "bytes" && n.Obj().Name() == "Buffer"
}

func (fr *frame) bufNode(v Value) *Node {
	p, ok := v.(Ptr)
	if !ok || p.N == nil || len(p.N.Kids) == 0 {
		fr.in.stop("%s: a *bytes.Buffer that is not a known object", fr.fn.Name())
	}
	return p.N
}

func bufContent(n *Node) Slice {
	if s, ok := n.Kids[0].Leaf.(Slice); ok {
		return s
	}
	return Slice{Nil: true}
}

// bufAppend appends cells to the buffer's content (always into a fresh array:
// what Bytes() returned earlier is not affected, which is the conservative
// reading of bytes.Buffer's "valid until the next modification").
func (fr *frame) bufAppend(n *Node, cells []Value) {
	old := bufContent(n)
	bt := types.Typ[types.Uint8]
	arr := &Node{T: types.NewArray(bt, 0), Kids: []*Node{}}
	if !old.Nil {
		for i := old.Lo; i < old.Hi; i++ {
			arr.Kids = append(arr.Kids, copyNode(old.Arr.Kids[i]))
		}
	}
	for _, c := range cells {
		arr.Kids = append(arr.Kids, &Node{T: bt, Leaf: c})
	}
	if len(arr.Kids) > maxArray {
		fr.in.stop("%s: a bytes.Buffer grows beyond %d bytes", fr.fn.Name(), maxArray)
	}
	n.Kids[0].Leaf = Slice{Arr: arr, Lo: 0, Hi: len(arr.Kids), Cap: len(arr.Kids)}
	fr.in.mark(n.Kids[0])
}

func (fr *frame) cellsOf(v Value, what string) []Value {
	switch s := v.(type) {
	case Slice:
		var out []Value
		if !s.Nil {
			for i := s.Lo; i < s.Hi; i++ {
				out = append(out, cellValue(s.Arr.Kids[i]))
			}
		}
		return out
	case *Str:
		if s.Opaque {
			fr.in.stop("%s: %s of an opaque string", fr.fn.Name(), what)
		}
		b := strBytes(s).(Slice)
		var out []Value
		for i := b.Lo; i < b.Hi; i++ {
			out = append(out, b.Arr.Kids[i].Leaf)
		}
		return out
	}
	fr.in.stop("%s: %s of a %T (unknown length)", fr.fn.Name(), what, v)
	return nil
}

// bufferModel: methods of *bytes.Buffer, bytes.NewBuffer/NewBufferString and
// encoding/binary.Write into a *bytes.Buffer.
func (fr *frame) bufferModel(x *ssa.Call, callee *ssa.Function, args []Value) (Value, bool) {
	if callee.Pkg == nil {
		return nil, false
	}
	pkg, name := callee.Pkg.Pkg.Path(), callee.Name()
	nilErr := Iface{}
	if rv := callee.Signature.Recv(); rv != nil {
		if pkg != "bytes" || !isBytesBuffer(rv.Type()) {
			return nil, false
		}
		n := fr.bufNode(args[0])
		switch name {
		case "Write", "WriteString":
			cells := fr.cellsOf(args[1], "Buffer."+name)
			fr.bufAppend(n, cells)
			return tuple2(intConst(len(cells), 64), nilErr), true
		case "WriteByte":
			fr.bufAppend(n, []Value{args[1]})
			return nilErr, true
		case "Bytes":
			return bufContent(n), true
		case "Len":
			c := bufContent(n)
			if c.Nil {
				return intConst(0, 64), true
			}
			return intConst(c.Len(), 64), true
		case "String":
			s, _ := asStr(bufContent(n))
			return s, true
		case "Reset":
			n.Kids[0].Leaf = Slice{Nil: true}
			fr.in.mark(n.Kids[0])
			return nil, true
		case "Grow":
			return nil, true
		}
		fr.in.stop("%s: bytes.Buffer.%s is not modelled", fr.fn.Name(), name)
	}
	switch pkg + "." + name {
	case "bytes.NewBuffer", "bytes.NewBufferString":
		bt := callee.Signature.Results().At(0).Type().(*types.Pointer).Elem()
		n := zeroNode(bt)
		if len(n.Kids) == 0 {
			return nil, false
		}
		switch a := args[0].(type) {
		case Slice:
			n.Kids[0].Leaf = a
		case *Str:
			n.Kids[0].Leaf = strBytes(a)
		default:
			return nil, false
		}
		return Ptr{n}, true
	case "encoding/binary.Write":
		w, ok := args[0].(Iface)
		hw, isHash := asHash(args[0])
		if !isHash && (!ok || w.T == nil || !isBytesBuffer(w.T)) {
			return nil, false
		}
		ord, ok := args[1].(Iface)
		if !ok || ord.T == nil {
			return nil, false
		}
		on, _ := ord.T.(*types.Named)
		if on == nil {
			return nil, false
		}
		bigE := false
		switch on.Obj().Name() {
		case "bigEndian":
			bigE = true
		case "littleEndian":
		default:
			return nil, false
		}
		d, ok := args[2].(Iface)
		if !ok {
			return nil, false
		}
		var cells []Value
		switch v := d.V.(type) {
		case Int:
			if len(v.V)%8 != 0 {
				return nil, false
			}
			nb := len(v.V) / 8
			cells = make([]Value, nb)
			for j := 0; j < nb; j++ {
				pos := j
				if bigE {
					pos = nb - 1 - j
				}
				cells[pos] = Int{append(lanes.Vec(nil), v.V[8*j:8*j+8]...)}
			}
		case Slice:
			if !isByteSlice(d.T) {
				return nil, false
			}
			cells = fr.cellsOf(v, "binary.Write")
		default:
			return nil, false
		}
		if isHash {
			fr.hashKnown(hw)
			fr.bufAppend(hw.N, cells)
			return nilErr, true
		}
		fr.bufAppend(fr.bufNode(w.V), cells)
		return nilErr, true
	}
	return nil, false
}
