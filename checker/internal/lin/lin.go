// Package lin: linear forms with big.Int coefficients over integer-valued terms
// and a Fourier–Motzkin infeasibility test with integer tightening.
package lin

import (
	"fmt"
	"math/big"
	"sort"
	"strings"
)

type Term int

// Form is Σ Coef[t]·t + C.
type Form struct {
	Coef map[Term]*big.Int
	C    *big.Int
}

func K(c int64) Form { return Form{Coef: map[Term]*big.Int{}, C: big.NewInt(c)} }
func KB(c *big.Int) Form {
	return Form{Coef: map[Term]*big.Int{}, C: new(big.Int).Set(c)}
}
func V(t Term) Form {
	return Form{Coef: map[Term]*big.Int{t: big.NewInt(1)}, C: big.NewInt(0)}
}

func (f Form) Clone() Form {
	g := Form{Coef: make(map[Term]*big.Int, len(f.Coef)), C: new(big.Int).Set(f.C)}
	for t, c := range f.Coef {
		g.Coef[t] = new(big.Int).Set(c)
	}
	return g
}

func (f Form) Add(g Form) Form {
	r := f.Clone()
	r.C.Add(r.C, g.C)
	for t, c := range g.Coef {
		if x, ok := r.Coef[t]; ok {
			x.Add(x, c)
			if x.Sign() == 0 {
				delete(r.Coef, t)
			}
		} else {
			r.Coef[t] = new(big.Int).Set(c)
		}
	}
	return r
}

func (f Form) Scale(k *big.Int) Form {
	r := Form{Coef: map[Term]*big.Int{}, C: new(big.Int).Mul(f.C, k)}
	if k.Sign() == 0 {
		return r
	}
	for t, c := range f.Coef {
		r.Coef[t] = new(big.Int).Mul(c, k)
	}
	return r
}

func (f Form) ScaleI(k int64) Form { return f.Scale(big.NewInt(k)) }
func (f Form) Neg() Form           { return f.ScaleI(-1) }
func (f Form) Sub(g Form) Form     { return f.Add(g.Neg()) }
func (f Form) AddK(k int64) Form   { return f.Add(K(k)) }

func (f Form) IsConst() bool { return len(f.Coef) == 0 }

// ConstVal returns the constant if the form has no terms.
func (f Form) ConstVal() (*big.Int, bool) {
	if len(f.Coef) == 0 {
		return f.C, true
	}
	return nil, false
}

func (f Form) Equal(g Form) bool {
	d := f.Sub(g)
	return len(d.Coef) == 0 && d.C.Sign() == 0
}

func (f Form) Terms() []Term {
	ts := make([]Term, 0, len(f.Coef))
	for t := range f.Coef {
		ts = append(ts, t)
	}
	sort.Slice(ts, func(i, j int) bool { return ts[i] < ts[j] })
	return ts
}

func (f Form) String(name func(Term) string) string {
	var sb strings.Builder
	first := true
	for _, t := range f.Terms() {
		c := f.Coef[t]
		if c.Sign() >= 0 && !first {
			sb.WriteString(" + ")
		} else if c.Sign() < 0 {
			if first {
				sb.WriteString("-")
			} else {
				sb.WriteString(" - ")
			}
		}
		a := new(big.Int).Abs(c)
		if a.Cmp(big.NewInt(1)) != 0 {
			sb.WriteString(a.String() + "·")
		}
		sb.WriteString(name(t))
		first = false
	}
	if f.C.Sign() != 0 || first {
		if f.C.Sign() >= 0 && !first {
			sb.WriteString(" + ")
		} else if f.C.Sign() < 0 {
			if first {
				sb.WriteString("-")
			} else {
				sb.WriteString(" - ")
			}
		}
		sb.WriteString(new(big.Int).Abs(f.C).String())
	}
	return sb.String()
}

// Con is the constraint F >= 0.
type Con struct{ F Form }

func GE0(f Form) Con       { return Con{f} }
func GE(a, b Form) Con     { return Con{a.Sub(b)} }        // a >= b
func LE(a, b Form) Con     { return Con{b.Sub(a)} }        // a <= b
func LT(a, b Form) Con     { return Con{b.Sub(a).AddK(-1)} } // a < b  (integers)
func GT(a, b Form) Con     { return Con{a.Sub(b).AddK(-1)} }
func EQ(a, b Form) []Con   { return []Con{GE(a, b), LE(a, b)} }
func (c Con) Negate() Con  { return Con{c.F.Neg().AddK(-1)} } // ¬(F>=0) ≡ -F-1 >= 0

func (c Con) String(name func(Term) string) string { return c.F.String(name) + " >= 0" }

// normalise divides by the gcd of the coefficients, flooring the constant
// (sound for integer-valued terms). Returns false if the constraint is
// trivially true, and sets *contra if trivially false.
func normalise(f Form, contra *bool) (Form, bool) {
	if len(f.Coef) == 0 {
		if f.C.Sign() < 0 {
			*contra = true
		}
		return f, false
	}
	g := new(big.Int)
	for _, c := range f.Coef {
		g.GCD(nil, nil, g, new(big.Int).Abs(c))
	}
	if g.Cmp(big.NewInt(1)) > 0 {
		r := Form{Coef: map[Term]*big.Int{}, C: new(big.Int)}
		for t, c := range f.Coef {
			r.Coef[t] = new(big.Int).Quo(c, g)
		}
		// floor division
		r.C.Div(f.C, g) // Euclidean: for positive g this is floor
		return r, true
	}
	return f, true
}

func key(f Form) string {
	var sb strings.Builder
	for _, t := range f.Terms() {
		fmt.Fprintf(&sb, "%d:%s,", t, f.Coef[t].String())
	}
	return sb.String()
}

// Infeasible reports whether the conjunction of cons has no integer solution,
// as far as rational Fourier–Motzkin elimination with gcd tightening can tell.
// false means "could not show infeasible". maxCons bounds the working set.
func Infeasible(cons []Con, maxCons int) bool {
	contra := false
	// dedupe: for identical coefficient vectors keep the tightest (smallest C)
	work := map[string]Form{}
	add := func(f Form) {
		nf, keep := normalise(f, &contra)
		if !keep {
			return
		}
		k := key(nf)
		if old, ok := work[k]; ok {
			if nf.C.Cmp(old.C) < 0 {
				work[k] = nf
			}
			return
		}
		work[k] = nf
	}
	for _, c := range cons {
		add(c.F)
		if contra {
			return true
		}
	}
	for {
		if contra {
			return true
		}
		if len(work) == 0 {
			return false
		}
		// pick variable minimising pos*neg
		pos := map[Term]int{}
		neg := map[Term]int{}
		for _, f := range work {
			for t, c := range f.Coef {
				if c.Sign() > 0 {
					pos[t]++
				} else {
					neg[t]++
				}
			}
		}
		var best Term
		bestCost := -1
		vars := map[Term]bool{}
		for t := range pos {
			vars[t] = true
		}
		for t := range neg {
			vars[t] = true
		}
		if len(vars) == 0 {
			return false
		}
		vs := make([]Term, 0, len(vars))
		for t := range vars {
			vs = append(vs, t)
		}
		sort.Slice(vs, func(i, j int) bool { return vs[i] < vs[j] })
		for _, t := range vs {
			cost := pos[t] * neg[t]
			if bestCost < 0 || cost < bestCost {
				best, bestCost = t, cost
			}
		}
		var P, N []Form
		rest := map[string]Form{}
		for k, f := range work {
			c, ok := f.Coef[best]
			if !ok {
				rest[k] = f
			} else if c.Sign() > 0 {
				P = append(P, f)
			} else {
				N = append(N, f)
			}
		}
		work = rest
		if len(P)*len(N)+len(work) > maxCons {
			return false
		}
		for _, p := range P {
			for _, n := range N {
				// p: a·x + P' >= 0 (a>0); n: -b·x + N' >= 0 (b>0) → b·P' + a·N' >= 0
				a := p.Coef[best]
				b := new(big.Int).Neg(n.Coef[best])
				comb := p.Scale(b).Add(n.Scale(a))
				delete(comb.Coef, best)
				add(comb)
				if contra {
					return true
				}
			}
		}
	}
}

// Entails reports whether facts ⊢ goal, restricted to the facts connected to
// the goal's terms.
func Entails(facts []Con, goal Con, maxCons int) bool {
	neg := goal.Negate()
	// connected component
	need := map[Term]bool{}
	for t := range neg.F.Coef {
		need[t] = true
	}
	used := make([]bool, len(facts))
	sel := []Con{neg}
	for changed := true; changed; {
		changed = false
		for i, f := range facts {
			if used[i] {
				continue
			}
			hit := len(f.F.Coef) == 0
			for t := range f.F.Coef {
				if need[t] {
					hit = true
					break
				}
			}
			if hit {
				used[i] = true
				sel = append(sel, f)
				for t := range f.F.Coef {
					if !need[t] {
						need[t] = true
						changed = true
					}
				}
			}
		}
	}
	return Infeasible(sel, maxCons)
}
