package srvfx

import (
	"fmt"
	"go/types"

	"golang.org/x/tools/go/ssa"
)

// StoreEffect is a store that writes memory not allocated by the function
// (transitively through module callees): memory reachable from a parameter
// (receiver = 0, free variables follow the parameters), a global, or an object
// of unknown origin.
type StoreEffect struct {
	Kind   string // param | global | unknown
	Param  int
	Global *ssa.Global
	Instr  ssa.Instruction // the store itself
	In     *ssa.Function   // function containing the store
	Field  string          // rendered target (field path tail)
	Via    string          // call chain from the summarised function
	// Cell: the store writes a captured variable ITSELF (`buf = append(buf, …)` inside a
	// function literal or a range-over-func body), not memory the variable points to.
	// The variable belongs to the activation of the function that declares it.
	Cell bool
}

func (e StoreEffect) String() string {
	s := fmt.Sprintf("%s in %s", e.Field, e.In.Name())
	if e.Via != "" {
		s += " (via " + e.Via + ")"
	}
	return s
}

// Stores computes store effects with a caller-supplied boundary (callees that
// are not descended into, e.g. methods that take a lock).
type Stores struct {
	Pg       *Prog
	Boundary func(*ssa.Function) bool
	memo     map[*ssa.Function][]StoreEffect
	busy     map[*ssa.Function]bool
	Visited  map[*ssa.Function]bool
	Hit      map[*ssa.Function]bool // boundary functions reached
	Unknown  []string               // calls whose callee is a function value / has no body in the module
}

func NewStores(pg *Prog, boundary func(*ssa.Function) bool) *Stores {
	return &Stores{Pg: pg, Boundary: boundary, memo: map[*ssa.Function][]StoreEffect{}, busy: map[*ssa.Function]bool{},
		Visited: map[*ssa.Function]bool{}, Hit: map[*ssa.Function]bool{}}
}

func targetName(addr ssa.Value) string {
	switch x := addr.(type) {
	case *ssa.FieldAddr:
		st, _ := deref(x.X.Type()).Underlying().(*types.Struct)
		n := "?"
		if st != nil && x.Field < st.NumFields() {
			n = st.Field(x.Field).Name()
		}
		return targetName(x.X) + "." + n
	case *ssa.IndexAddr:
		return targetName(x.X) + "[i]"
	case *ssa.UnOp:
		return targetName(x.X)
	case *ssa.Parameter:
		return x.Name()
	case *ssa.FreeVar:
		return x.Name()
	case *ssa.Global:
		return x.Name()
	case *ssa.Slice:
		return targetName(x.X)
	}
	return addr.Name()
}

// returnsFresh: every result of g that carries references is rooted at an
// allocation of g (or of a callee with the same property).
func (s *Stores) returnsFresh(g *ssa.Function, depth int) bool {
	if depth > 3 || g.Blocks == nil {
		return false
	}
	for _, b := range g.Blocks {
		for _, in := range b.Instrs {
			ret, ok := in.(*ssa.Return)
			if !ok {
				continue
			}
			for _, r := range ret.Results {
				if !Carries(r.Type()) {
					continue
				}
				for _, rt := range roots(r) {
					if !s.localRoot(rt, depth+1) {
						return false
					}
				}
			}
		}
	}
	return true
}

// localRoot: the root denotes memory created by the current activation.
func (s *Stores) localRoot(r ssa.Value, depth int) bool {
	switch x := r.(type) {
	case *ssa.Alloc, *ssa.MakeSlice, *ssa.MakeMap, *ssa.MakeChan, *ssa.Const, *ssa.MakeClosure, *ssa.BinOp, *ssa.Function:
		return true
	case *ssa.Call:
		ts := s.Pg.Callees(&x.Call)
		if len(ts) == 0 {
			if _, isB := x.Call.Value.(*ssa.Builtin); isB {
				// append: result rooted at its first argument
				if len(x.Call.Args) > 0 {
					for _, rt := range roots(x.Call.Args[0]) {
						if !s.localRoot(rt, depth+1) {
							return false
						}
					}
				}
				return true
			}
			// declared outside the module: constructors and parsers return fresh values (trusted);
			// a function value has no known body
			return CalleeObj(&x.Call) != nil
		}
		for _, g := range ts {
			if !s.returnsFresh(g, depth+1) {
				return false
			}
		}
		return true
	}
	return false
}

func (s *Stores) classify(fn *ssa.Function, r ssa.Value) (kind string, param int, g *ssa.Global) {
	switch x := r.(type) {
	case *ssa.Parameter:
		for i, p := range fn.Params {
			if p == x {
				return "param", i, nil
			}
		}
	case *ssa.FreeVar:
		for i, p := range fn.FreeVars {
			if p == x {
				return "param", len(fn.Params) + i, nil
			}
		}
		// a free variable of a function literal nested in fn (reached through the values the
		// literal stores into a shared variable): the variable it is bound to
		if b := s.bindingOf(x); b != nil {
			if al, ok := b.(*ssa.Alloc); ok && al.Parent() == fn {
				return "local", 0, nil
			}
			if b != r {
				return s.classify(fn, b)
			}
		}
	case *ssa.Global:
		return "global", 0, x
	}
	if s.localRoot(r, 0) {
		return "local", 0, nil
	}
	return "unknown", 0, nil
}

// bindingOf: the value a free variable is bound to where its closure is made.
func (s *Stores) bindingOf(fv *ssa.FreeVar) ssa.Value {
	f := fv.Parent()
	mc := s.Pg.Closures[f]
	if mc == nil {
		return nil
	}
	for i, v := range f.FreeVars {
		if v == fv && i < len(mc.Bindings) {
			return mc.Bindings[i]
		}
	}
	return nil
}

// ownCell: addr denotes (a field / array element of) a captured variable itself, with
// no load in between.
func ownCell(addr ssa.Value) (*ssa.FreeVar, bool) {
	for i := 0; i < 16; i++ {
		switch x := addr.(type) {
		case *ssa.FreeVar:
			return x, true
		case *ssa.FieldAddr:
			addr = x.X
		case *ssa.IndexAddr:
			if _, isPtr := x.X.Type().Underlying().(*types.Pointer); !isPtr {
				return nil, false
			}
			addr = x.X
		default:
			return nil, false
		}
	}
	return nil, false
}

// deepRoots is roots() refined for loads from local memory: a pointer loaded
// from a local variable cell or from a field of a local struct is followed to
// the values stored there, so that `tmp := &T{p: s}; tmp.p.x = v` and captured
// receivers resolve to the object actually written.
func (s *Stores) deepRoots(v ssa.Value) []ssa.Value {
	var out []ssa.Value
	seen := map[ssa.Value]bool{}
	var walk func(v ssa.Value, d int)
	walk = func(v ssa.Value, d int) {
		if v == nil || seen[v] || d > 30 {
			return
		}
		seen[v] = true
		for _, r := range roots(v) {
			al, ok := r.(*ssa.Alloc)
			if !ok || r == v {
				out = append(out, r)
				continue
			}
			// does v reach the alloc through a load?
			stored, through := s.loadedFrom(v, al)
			if !through {
				out = append(out, r)
				continue
			}
			out = append(out, r)
			for _, sv := range stored {
				if Carries(sv.Type()) {
					walk(sv, d+1)
				}
			}
		}
	}
	walk(v, 0)
	return out
}

// loadedFrom: if the chain from v down to alloc al passes through a load,
// return the values stored into the loaded location (same field of al, or al
// itself when it is a variable cell).
func (s *Stores) loadedFrom(v ssa.Value, al *ssa.Alloc) (stored []ssa.Value, through bool) {
	cur := v
	for i := 0; i < 40 && cur != nil; i++ {
		switch x := cur.(type) {
		case *ssa.FieldAddr:
			cur = x.X
		case *ssa.IndexAddr:
			cur = x.X
		case *ssa.Field:
			cur = x.X
		case *ssa.Index:
			cur = x.X
		case *ssa.Slice:
			cur = x.X
		case *ssa.ChangeType:
			cur = x.X
		case *ssa.MakeInterface:
			cur = x.X
		case *ssa.ChangeInterface:
			cur = x.X
		case *ssa.TypeAssert:
			cur = x.X
		case *ssa.Convert:
			cur = x.X
		case *ssa.UnOp:
			if x.Op.String() != "*" {
				return nil, false
			}
			// load from address x.X
			switch a := x.X.(type) {
			case *ssa.Alloc:
				if a != al {
					return nil, false
				}
				if vals, ok := s.Pg.cellStores(a); ok {
					return vals, true
				}
				return nil, true
			case *ssa.FieldAddr:
				if base, ok := a.X.(*ssa.Alloc); ok && base == al {
					var vals []ssa.Value
					if refs := al.Referrers(); refs != nil {
						for _, r := range *refs {
							if fa, ok := r.(*ssa.FieldAddr); ok && fa.Field == a.Field {
								if fr := fa.Referrers(); fr != nil {
									for _, r2 := range *fr {
										if st, ok := r2.(*ssa.Store); ok && st.Addr == fa {
											vals = append(vals, st.Val)
										}
									}
								}
							}
						}
					}
					return vals, true
				}
				cur = a
			default:
				cur = x.X
			}
		default:
			return nil, false
		}
	}
	return nil, false
}

// Effects returns the non-local store effects of fn.
func (s *Stores) Effects(fn *ssa.Function) []StoreEffect {
	if e, ok := s.memo[fn]; ok {
		return e
	}
	if s.busy[fn] {
		return nil
	}
	s.busy[fn] = true
	defer delete(s.busy, fn)
	s.Visited[fn] = true
	var out []StoreEffect
	seen := map[string]bool{}
	add := func(e StoreEffect) {
		k := fmt.Sprintf("%s/%d/%p/%p/%v", e.Kind, e.Param, e.Global, e.Instr, e.Cell)
		if !seen[k] {
			seen[k] = true
			out = append(out, e)
		}
	}
	direct := func(addr ssa.Value, in ssa.Instruction) {
		if fv, ok := ownCell(addr); ok {
			for i, p := range fn.FreeVars {
				if p == fv {
					add(StoreEffect{Kind: "param", Param: len(fn.Params) + i, Instr: in, In: fn, Field: targetName(addr), Cell: true})
					return
				}
			}
		}
		for _, r := range s.deepRoots(addr) {
			kind, p, g := s.classify(fn, r)
			if kind == "local" {
				continue
			}
			add(StoreEffect{Kind: kind, Param: p, Global: g, Instr: in, In: fn, Field: targetName(addr)})
		}
	}
	apply := func(g *ssa.Function, args []ssa.Value, bindings []ssa.Value, in ssa.Instruction) {
		if s.Boundary != nil && s.Boundary(g) {
			s.Hit[g] = true
			return
		}
		for _, e := range s.Effects(g) {
			via := g.Name()
			if e.Via != "" {
				via += " → " + e.Via
			}
			if e.Kind != "param" {
				e.Via = via
				add(e)
				continue
			}
			var arg ssa.Value
			if e.Param < len(g.Params) {
				if e.Param < len(args) {
					arg = args[e.Param]
				}
			} else if k := e.Param - len(g.Params); k < len(bindings) {
				arg = bindings[k]
			}
			if arg == nil {
				e.Kind = "unknown"
				e.Via = via
				add(e)
				continue
			}
			if e.Cell {
				// the literal assigns a variable it captured: a variable of this activation
				// (nothing to report), or one this function captured itself (passed on)
				if al, ok := arg.(*ssa.Alloc); ok && al.Parent() == fn {
					continue
				}
				if fv, ok := arg.(*ssa.FreeVar); ok {
					passed := false
					for i, p := range fn.FreeVars {
						if p == fv {
							add(StoreEffect{Kind: "param", Param: len(fn.Params) + i, Instr: e.Instr, In: e.In, Field: e.Field, Via: via, Cell: true})
							passed = true
						}
					}
					if passed {
						continue
					}
				}
			}
			var rs []ssa.Value
			if al, ok := arg.(*ssa.Alloc); ok && e.Param >= len(g.Params) {
				// captured variable: the closure reaches what the cell holds
				if vals, ok := s.Pg.cellStores(al); ok {
					for _, v := range vals {
						if Carries(v.Type()) {
							rs = append(rs, s.deepRoots(v)...)
						}
					}
				} else {
					rs = s.deepRoots(arg)
				}
			} else {
				rs = s.deepRoots(arg)
			}
			for _, r := range rs {
				kind, p, gl := s.classify(fn, r)
				if kind == "local" {
					continue
				}
				add(StoreEffect{Kind: kind, Param: p, Global: gl, Instr: e.Instr, In: e.In, Field: e.Field, Via: via})
			}
		}
	}
	for _, b := range fn.Blocks {
		for _, in := range b.Instrs {
			switch x := in.(type) {
			case *ssa.Store:
				direct(x.Addr, in)
			case *ssa.MapUpdate:
				direct(x.Map, in)
			case *ssa.MakeClosure:
				if f, ok := x.Fn.(*ssa.Function); ok {
					// a closure created here runs with these bindings (conservatively: as if called here)
					apply(f, nil, x.Bindings, in)
				}
			case ssa.CallInstruction:
				c := x.Common()
				if bi, ok := c.Value.(*ssa.Builtin); ok {
					if bi.Name() == "copy" && len(c.Args) == 2 {
						direct(c.Args[0], in)
					}
					if bi.Name() == "delete" && len(c.Args) == 2 {
						direct(c.Args[0], in)
					}
					continue
				}
				ts := s.Pg.Callees(c)
				if len(ts) == 0 {
					if CalleeObj(c) == nil {
						s.Unknown = append(s.Unknown, fn.Name()+": call of "+calleeName(c))
					}
					continue
				}
				for _, g := range ts {
					if mc, ok := c.Value.(*ssa.MakeClosure); ok {
						_ = mc // effects applied at the MakeClosure instruction
						continue
					}
					apply(g, AllArgs(c), nil, in)
				}
			}
		}
	}
	s.memo[fn] = out
	return out
}
