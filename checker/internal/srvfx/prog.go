// Package effects holds the E4 building blocks: access paths, natural loops,
// alias ("retains") summaries, store-root summaries. Everything works on
// go/ssa values and go/types objects; nothing matches source text.
package srvfx

import (
	"go/types"
	"sort"
	"strings"

	"golang.org/x/tools/go/ssa"

	"manticheck/internal/load"
)

// Prog indexes the module's SSA for the effect analyses.
type Prog struct {
	P        *load.Program
	Funcs    []*ssa.Function                    // module source functions incl. anonymous
	Closures map[*ssa.Function]*ssa.MakeClosure // anonymous function → the instruction creating it
	GoSites  map[*ssa.Function][]*ssa.Go        // go target → go statements launching it
	named    []*types.Named
	implMemo map[*types.Func][]*ssa.Function
}

func NewProg(p *load.Program) *Prog {
	pg := &Prog{P: p, Closures: map[*ssa.Function]*ssa.MakeClosure{}, GoSites: map[*ssa.Function][]*ssa.Go{},
		implMemo: map[*types.Func][]*ssa.Function{}}
	pg.Funcs = p.SrcFuncs()
	// the bodies of range-over-func loops are synthetic closures ("range-over-func
	// yield"); they are source code of their parent and are indexed like any other
	// function literal
	{
		have := map[*ssa.Function]bool{}
		for _, fn := range pg.Funcs {
			have[fn] = true
		}
		var addAnon func(fn *ssa.Function)
		addAnon = func(fn *ssa.Function) {
			for _, a := range fn.AnonFuncs {
				if !have[a] && a.Blocks != nil {
					have[a] = true
					pg.Funcs = append(pg.Funcs, a)
				}
				addAnon(a)
			}
		}
		for _, fn := range append([]*ssa.Function(nil), pg.Funcs...) {
			addAnon(fn)
		}
		sort.SliceStable(pg.Funcs, func(i, j int) bool {
			if pg.Funcs[i].Pos() != pg.Funcs[j].Pos() {
				return pg.Funcs[i].Pos() < pg.Funcs[j].Pos()
			}
			return pg.Funcs[i].String() < pg.Funcs[j].String()
		})
	}
	for _, fn := range pg.Funcs {
		for _, b := range fn.Blocks {
			for _, in := range b.Instrs {
				switch x := in.(type) {
				case *ssa.MakeClosure:
					if f, ok := x.Fn.(*ssa.Function); ok {
						pg.Closures[f] = x
					}
				case *ssa.Go:
					for _, t := range pg.Callees(&x.Call) {
						pg.GoSites[t] = append(pg.GoSites[t], x)
					}
				}
			}
		}
	}
	for _, pk := range p.Pkgs {
		sc := pk.Types.Scope()
		for _, n := range sc.Names() {
			if tn, ok := sc.Lookup(n).(*types.TypeName); ok && !tn.IsAlias() {
				if nt, ok := tn.Type().(*types.Named); ok {
					pg.named = append(pg.named, nt)
				}
			}
		}
	}
	return pg
}

// InModule reports whether the object is declared in the analysed module.
func (pg *Prog) ObjInModule(o types.Object) bool {
	return o != nil && o.Pkg() != nil && strings.HasPrefix(o.Pkg().Path(), pg.P.ModPath)
}

// Callees resolves a call to module functions with bodies: the static callee,
// a closure/function value, or (interface invoke on any interface) every module
// type implementing the method (class-hierarchy resolution over the module).
func (pg *Prog) Callees(c *ssa.CallCommon) []*ssa.Function {
	if c.IsInvoke() {
		return pg.Implementations(c.Method, c.Value.Type())
	}
	switch v := c.Value.(type) {
	case *ssa.Function:
		if v.Blocks != nil && pg.P.InModule(v) {
			return []*ssa.Function{v}
		}
	case *ssa.MakeClosure:
		if f, ok := v.Fn.(*ssa.Function); ok && f.Blocks != nil {
			return []*ssa.Function{f}
		}
	}
	return nil
}

// Implementations returns the module methods that an invoke of m on an
// interface of type it may reach.
func (pg *Prog) Implementations(m *types.Func, it types.Type) []*ssa.Function {
	if r, ok := pg.implMemo[m]; ok {
		return r
	}
	iface, _ := it.Underlying().(*types.Interface)
	var out []*ssa.Function
	if iface != nil {
		for _, nt := range pg.named {
			if _, isI := nt.Underlying().(*types.Interface); isI {
				continue
			}
			for _, t := range []types.Type{nt, types.NewPointer(nt)} {
				if !types.Implements(t, iface) {
					continue
				}
				sel := pg.P.SSA.MethodSets.MethodSet(t).Lookup(m.Pkg(), m.Name())
				if sel == nil {
					continue
				}
				f := pg.P.SSA.MethodValue(sel)
				if f != nil && f.Synthetic != "" {
					if obj, ok := sel.Obj().(*types.Func); ok {
						if d := pg.P.SSA.FuncValue(obj); d != nil {
							f = d
						}
					}
				}
				if f != nil && f.Blocks != nil && pg.P.InModule(f) {
					out = append(out, f)
				}
				break
			}
		}
	}
	sort.Slice(out, func(i, j int) bool { return out[i].String() < out[j].String() })
	// dedupe
	var d []*ssa.Function
	for i, f := range out {
		if i == 0 || out[i-1] != f {
			d = append(d, f)
		}
	}
	pg.implMemo[m] = d
	return d
}

// CalleeObj returns the types.Func a call resolves to statically (function,
// method, or interface method), or nil for builtins / function values.
func CalleeObj(c *ssa.CallCommon) *types.Func {
	if c.IsInvoke() {
		return c.Method
	}
	if f := c.StaticCallee(); f != nil {
		if o, ok := f.Object().(*types.Func); ok {
			return o
		}
	}
	return nil
}

// AllArgs returns receiver (for invokes) followed by the arguments.
func AllArgs(c *ssa.CallCommon) []ssa.Value {
	if c.IsInvoke() {
		return append([]ssa.Value{c.Value}, c.Args...)
	}
	return c.Args
}

// Carries reports whether a value of type t can hold a reference to mutable
// memory (strings are immutable and so do not count).
func Carries(t types.Type) bool {
	return carries(t, 0)
}

func carries(t types.Type, d int) bool {
	if d > 8 {
		return true
	}
	switch u := t.Underlying().(type) {
	case *types.Basic:
		return u.Kind() == types.UnsafePointer
	case *types.Pointer, *types.Slice, *types.Map, *types.Chan, *types.Signature, *types.Interface:
		return true
	case *types.Struct:
		for i := 0; i < u.NumFields(); i++ {
			if carries(u.Field(i).Type(), d+1) {
				return true
			}
		}
		return false
	case *types.Array:
		return carries(u.Elem(), d+1)
	case *types.Tuple:
		for i := 0; i < u.Len(); i++ {
			if carries(u.At(i).Type(), d+1) {
				return true
			}
		}
		return false
	}
	return true
}

func deref(t types.Type) types.Type {
	if p, ok := t.Underlying().(*types.Pointer); ok {
		return p.Elem()
	}
	return t
}

// ---------------------------------------------------------------- loops

// Loop is a natural loop (all back edges to one header merged).
type Loop struct {
	Header *ssa.BasicBlock
	Blocks map[*ssa.BasicBlock]bool
}

// Loops computes the natural loops of fn.
func Loops(fn *ssa.Function) []*Loop {
	byHead := map[*ssa.BasicBlock]*Loop{}
	var order []*ssa.BasicBlock
	for _, b := range fn.Blocks {
		for _, s := range b.Succs {
			if s.Dominates(b) { // back edge b → s
				l := byHead[s]
				if l == nil {
					l = &Loop{Header: s, Blocks: map[*ssa.BasicBlock]bool{s: true}}
					byHead[s] = l
					order = append(order, s)
				}
				var stack []*ssa.BasicBlock
				if !l.Blocks[b] {
					l.Blocks[b] = true
					stack = append(stack, b)
				}
				for len(stack) > 0 {
					x := stack[len(stack)-1]
					stack = stack[:len(stack)-1]
					for _, p := range x.Preds {
						if !l.Blocks[p] {
							l.Blocks[p] = true
							stack = append(stack, p)
						}
					}
				}
			}
		}
	}
	var out []*Loop
	for _, h := range order {
		out = append(out, byHead[h])
	}
	return out
}

// Innermost returns the smallest loop containing b, or nil.
func Innermost(ls []*Loop, b *ssa.BasicBlock) *Loop {
	var best *Loop
	for _, l := range ls {
		if l.Blocks[b] && (best == nil || len(l.Blocks) < len(best.Blocks)) {
			best = l
		}
	}
	return best
}

// InCycleWithout reports whether block x lies on a cycle inside loop l that
// avoids the blocks in cut.
func (l *Loop) InCycleWithout(x *ssa.BasicBlock, cut map[*ssa.BasicBlock]bool) bool {
	if cut[x] {
		return false
	}
	seen := map[*ssa.BasicBlock]bool{}
	stack := []*ssa.BasicBlock{}
	for _, s := range x.Succs {
		if l.Blocks[s] && !cut[s] {
			stack = append(stack, s)
		}
	}
	for len(stack) > 0 {
		b := stack[len(stack)-1]
		stack = stack[:len(stack)-1]
		if b == x {
			return true
		}
		if seen[b] {
			continue
		}
		seen[b] = true
		for _, s := range b.Succs {
			if l.Blocks[s] && !cut[s] {
				stack = append(stack, s)
			}
		}
	}
	return false
}

// Precedes reports whether instruction a is executed before b on every path
// reaching b (a's block strictly dominates b's, or same block and earlier).
func Precedes(a, b ssa.Instruction) bool {
	if a.Block() == b.Block() {
		for _, in := range a.Block().Instrs {
			if in == a {
				return true
			}
			if in == b {
				return false
			}
		}
		return false
	}
	return a.Block().Dominates(b.Block())
}

// ---------------------------------------------------------------- access paths

// FPath is a field path from a root: a method receiver, another parameter, a
// global, or a fresh object. Embedded fields of types declared outside the
// module (net.UDPConn.conn) are transparent, and so are loads.
type FPath struct {
	OK       bool
	RecvType *types.Named // root is the receiver of a method on this type
	Param    int          // root is parameter #Param of Fn (when RecvType == nil and Global == nil and Fresh == nil)
	Fn       *ssa.Function
	Global   *ssa.Global
	Fresh    ssa.Value // root is an allocation / call result
	Fields   []*types.Var
}

func (p FPath) String() string {
	if !p.OK {
		return "?"
	}
	var sb strings.Builder
	switch {
	case p.RecvType != nil:
		sb.WriteString(p.RecvType.Obj().Name())
	case p.Global != nil:
		sb.WriteString(p.Global.Name())
	case p.Fresh != nil:
		sb.WriteString("<local>")
	default:
		if p.Fn != nil && p.Param < len(p.Fn.Params) {
			sb.WriteString(p.Fn.Params[p.Param].Name())
		} else {
			sb.WriteString("param")
		}
	}
	for _, f := range p.Fields {
		sb.WriteString("." + f.Name())
	}
	return sb.String()
}

// Same reports whether two paths denote the same field of the same kind of root.
func (p FPath) Same(q FPath) bool {
	if !p.OK || !q.OK || len(p.Fields) != len(q.Fields) {
		return false
	}
	for i := range p.Fields {
		if p.Fields[i] != q.Fields[i] {
			return false
		}
	}
	switch {
	case p.RecvType != nil || q.RecvType != nil:
		return p.RecvType != nil && q.RecvType != nil && p.RecvType.Obj() == q.RecvType.Obj()
	case p.Global != nil || q.Global != nil:
		return p.Global == q.Global
	case p.Fresh != nil || q.Fresh != nil:
		return p.Fresh == q.Fresh
	}
	return p.Fn == q.Fn && p.Param == q.Param
}

// cellStores returns the values stored into an Alloc that is only used as a
// variable cell (stores, loads, closure captures), or ok=false.
func (pg *Prog) cellStores(a *ssa.Alloc) (vals []ssa.Value, ok bool) {
	refs := a.Referrers()
	if refs == nil {
		return nil, false
	}
	for _, r := range *refs {
		switch x := r.(type) {
		case *ssa.Store:
			if x.Addr == a {
				vals = append(vals, x.Val)
			} else {
				return nil, false
			}
		case *ssa.UnOp, *ssa.DebugRef:
		case *ssa.MakeClosure:
			f, _ := x.Fn.(*ssa.Function)
			if f == nil {
				return nil, false
			}
			for i, b := range x.Bindings {
				if b == a && i < len(f.FreeVars) {
					fv := f.FreeVars[i]
					if fr := fv.Referrers(); fr != nil {
						for _, r2 := range *fr {
							if st, ok := r2.(*ssa.Store); ok && st.Addr == fv {
								vals = append(vals, st.Val)
							}
						}
					}
				}
			}
		default:
			return nil, false
		}
	}
	return vals, true
}

// PathOf renders the object a value denotes as a field path.
func (pg *Prog) PathOf(v ssa.Value) FPath {
	return pg.pathOf(v, 0)
}

func (pg *Prog) pathOf(v ssa.Value, depth int) FPath {
	if depth > 40 {
		return FPath{}
	}
	switch x := v.(type) {
	case *ssa.Parameter:
		fn := x.Parent()
		idx := -1
		for i, p := range fn.Params {
			if p == x {
				idx = i
			}
		}
		if idx == 0 && fn.Signature.Recv() != nil {
			if nt, ok := deref(x.Type()).(*types.Named); ok {
				return FPath{OK: true, RecvType: nt, Fn: fn}
			}
		}
		return FPath{OK: true, Param: idx, Fn: fn}
	case *ssa.FreeVar:
		fn := x.Parent()
		mc := pg.Closures[fn]
		if mc == nil {
			return FPath{}
		}
		for i, fv := range fn.FreeVars {
			if fv == x && i < len(mc.Bindings) {
				return pg.pathOf(mc.Bindings[i], depth+1)
			}
		}
		return FPath{}
	case *ssa.Global:
		return FPath{OK: true, Global: x}
	case *ssa.Alloc:
		// variable cell holding a single value: transparent
		if vals, ok := pg.cellStores(x); ok && len(vals) == 1 {
			return pg.pathOf(vals[0], depth+1)
		}
		return FPath{OK: true, Fresh: x}
	case *ssa.UnOp:
		return pg.pathOf(x.X, depth+1)
	case *ssa.FieldAddr:
		p := pg.pathOf(x.X, depth+1)
		if !p.OK {
			return p
		}
		st := deref(x.X.Type())
		return pg.addField(p, st, x.Field)
	case *ssa.Field:
		p := pg.pathOf(x.X, depth+1)
		if !p.OK {
			return p
		}
		return pg.addField(p, x.X.Type(), x.Field)
	case *ssa.MakeInterface:
		return pg.pathOf(x.X, depth+1)
	case *ssa.ChangeInterface:
		return pg.pathOf(x.X, depth+1)
	case *ssa.ChangeType:
		return pg.pathOf(x.X, depth+1)
	case *ssa.TypeAssert:
		return pg.pathOf(x.X, depth+1)
	case *ssa.Call, *ssa.MakeSlice, *ssa.MakeMap, *ssa.MakeChan:
		return FPath{OK: true, Fresh: v}
	case *ssa.Extract:
		return FPath{OK: true, Fresh: v}
	}
	return FPath{}
}

func (pg *Prog) addField(p FPath, structT types.Type, idx int) FPath {
	st, _ := structT.Underlying().(*types.Struct)
	if st == nil || idx >= st.NumFields() {
		return FPath{}
	}
	f := st.Field(idx)
	if nt, ok := structT.(*types.Named); ok && !pg.ObjInModule(nt.Obj()) {
		return p // field of a type declared outside the module: same object
	}
	q := p
	q.Fields = append(append([]*types.Var{}, p.Fields...), f)
	return q
}
