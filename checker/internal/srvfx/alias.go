package srvfx

import (
	"fmt"
	"go/types"
	"sort"
	"strings"

	"golang.org/x/tools/go/ssa"
)

// Event is a place where a value that may alias the seed leaves the function's
// private state.
type Event struct {
	Kind  string // go | send | store-global | into-param | return | escape
	Instr ssa.Instruction
	Param int    // into-param: index (receiver first; free variables follow the parameters)
	What  string // human description
}

const (
	EvGo     = "go"
	EvSend   = "send"
	EvGlobal = "store-global"
	EvInto   = "into-param"
	EvReturn = "return"
	EvEscape = "escape"
)

// Summary says how a function treats one of its (pointer-like) parameters.
type Summary struct {
	Ret    bool         // a result may alias the parameter
	Into   map[int]bool // the parameter may be stored in memory reachable from parameter j
	Escape bool         // it may reach a goroutine, a channel, a global or an unknown callee
	Why    []string
}

func (s *Summary) Retains() bool { return s.Ret || s.Escape || len(s.Into) > 0 }

func (s *Summary) String() string {
	var p []string
	if s.Ret {
		p = append(p, "result aliases it")
	}
	var js []int
	for j := range s.Into {
		js = append(js, j)
	}
	sort.Ints(js)
	for _, j := range js {
		p = append(p, fmt.Sprintf("stored in memory of parameter #%d", j))
	}
	if s.Escape {
		p = append(p, "escapes (goroutine/channel/global/unknown callee)")
	}
	if len(p) == 0 {
		return "not retained"
	}
	return strings.Join(p, "; ")
}

type sumKey struct {
	fn *ssa.Function
	i  int
}

// Alias computes `retains(f, i)` summaries on demand (fixpoint over recursion)
// and runs the intra-procedural may-alias propagation.
type Alias struct {
	Pg      *Prog
	sums    map[sumKey]*Summary
	busy    map[sumKey]bool
	changed bool
	Visited map[*ssa.Function]bool
}

func NewAlias(pg *Prog) *Alias {
	return &Alias{Pg: pg, sums: map[sumKey]*Summary{}, busy: map[sumKey]bool{}, Visited: map[*ssa.Function]bool{}}
}

// paramValue returns parameter i of fn; indices past the parameters are free variables.
func paramValue(fn *ssa.Function, i int) ssa.Value {
	if i < len(fn.Params) {
		return fn.Params[i]
	}
	k := i - len(fn.Params)
	if k < len(fn.FreeVars) {
		return fn.FreeVars[k]
	}
	return nil
}

// Summ returns retains(fn, i).
func (a *Alias) Summ(fn *ssa.Function, i int) *Summary {
	k := sumKey{fn, i}
	if s, ok := a.sums[k]; ok && !a.busy[k] {
		return s
	}
	if a.busy[k] {
		// recursion: use the current approximation; the outer loop iterates
		if s := a.sums[k]; s != nil {
			return s
		}
		s := &Summary{Into: map[int]bool{}}
		a.sums[k] = s
		return s
	}
	a.busy[k] = true
	defer delete(a.busy, k)
	if a.sums[k] == nil {
		a.sums[k] = &Summary{Into: map[int]bool{}}
	}
	for iter := 0; iter < 6; iter++ {
		s := a.compute(fn, i)
		old := a.sums[k]
		same := old.Ret == s.Ret && old.Escape == s.Escape && len(old.Into) == len(s.Into)
		a.sums[k] = s
		if same {
			break
		}
	}
	return a.sums[k]
}

func (a *Alias) compute(fn *ssa.Function, i int) *Summary {
	s := &Summary{Into: map[int]bool{}}
	seed := paramValue(fn, i)
	if seed == nil || fn.Blocks == nil {
		return s
	}
	_, evs := a.Run(fn, []ssa.Value{seed})
	for _, e := range evs {
		switch e.Kind {
		case EvReturn:
			s.Ret = true
		case EvInto:
			s.Into[e.Param] = true
		default:
			s.Escape = true
		}
		if len(s.Why) < 4 {
			s.Why = append(s.Why, e.What)
		}
	}
	return s
}

// roots walks an address or reference back to the objects it may belong to
// (within one function).
func roots(v ssa.Value) []ssa.Value {
	var out []ssa.Value
	seen := map[ssa.Value]bool{}
	var walk func(v ssa.Value)
	walk = func(v ssa.Value) {
		if v == nil || seen[v] {
			return
		}
		seen[v] = true
		switch x := v.(type) {
		case *ssa.FieldAddr:
			walk(x.X)
		case *ssa.IndexAddr:
			walk(x.X)
		case *ssa.Field:
			walk(x.X)
		case *ssa.Index:
			walk(x.X)
		case *ssa.Slice:
			walk(x.X)
		case *ssa.UnOp:
			walk(x.X)
		case *ssa.ChangeType:
			walk(x.X)
		case *ssa.ChangeInterface:
			walk(x.X)
		case *ssa.MakeInterface:
			walk(x.X)
		case *ssa.TypeAssert:
			walk(x.X)
		case *ssa.Convert:
			walk(x.X)
		case *ssa.SliceToArrayPointer:
			walk(x.X)
		case *ssa.Extract:
			walk(x.Tuple)
		case *ssa.Lookup:
			walk(x.X)
		case *ssa.Next:
			walk(x.Iter)
		case *ssa.Range:
			walk(x.X)
		case *ssa.Phi:
			for _, e := range x.Edges {
				walk(e)
			}
		default:
			out = append(out, v)
		}
	}
	walk(v)
	return out
}

// Roots exposes the intra-procedural root walk.
func Roots(v ssa.Value) []ssa.Value { return roots(v) }

func isByteSliceOrString(t types.Type) bool {
	switch u := t.Underlying().(type) {
	case *types.Basic:
		return u.Info()&types.IsString != 0
	case *types.Slice:
		if b, ok := u.Elem().Underlying().(*types.Basic); ok {
			return b.Kind() == types.Uint8 || b.Kind() == types.Int32
		}
	}
	return false
}

// Run propagates "may alias a seed" through fn and returns the tainted values
// and the events at which such a value leaves fn's private state.
func (a *Alias) Run(fn *ssa.Function, seeds []ssa.Value) (map[ssa.Value]bool, []Event) {
	a.Visited[fn] = true
	t := map[ssa.Value]bool{}
	for _, s := range seeds {
		t[s] = true
	}
	type evKey struct {
		in   ssa.Instruction
		kind string
		p    int
	}
	evs := map[evKey]Event{}
	var order []evKey
	changed := true
	mark := func(v ssa.Value) {
		if v != nil && !t[v] {
			t[v] = true
			changed = true
		}
	}
	emit := func(kind string, in ssa.Instruction, p int, what string) {
		k := evKey{in, kind, p}
		if _, ok := evs[k]; !ok {
			evs[k] = Event{Kind: kind, Instr: in, Param: p, What: what}
			order = append(order, k)
		}
	}
	paramIndex := func(v ssa.Value) int {
		for i, p := range fn.Params {
			if p == v {
				return i
			}
		}
		for i, p := range fn.FreeVars {
			if p == v {
				return len(fn.Params) + i
			}
		}
		return -1
	}
	// storeInto: a tainted value becomes reachable from the object dst belongs to.
	storeInto := func(dst ssa.Value, in ssa.Instruction, what string) {
		for _, r := range roots(dst) {
			switch x := r.(type) {
			case *ssa.Global:
				emit(EvGlobal, in, 0, what+" into global "+x.Name())
			case *ssa.Parameter:
				mark(x)
				emit(EvInto, in, paramIndex(x), what+" into memory reachable from parameter "+x.Name())
			case *ssa.FreeVar:
				mark(x)
				emit(EvInto, in, paramIndex(x), what+" into captured variable "+x.Name())
			case *ssa.Const:
			default:
				mark(r)
			}
		}
	}
	for changed {
		changed = false
		for _, b := range fn.Blocks {
			for _, in := range b.Instrs {
				switch x := in.(type) {
				case *ssa.Slice:
					if t[x.X] {
						mark(x)
					}
				case *ssa.Phi:
					for _, e := range x.Edges {
						if t[e] {
							mark(x)
						}
					}
				case *ssa.ChangeType:
					if t[x.X] {
						mark(x)
					}
				case *ssa.ChangeInterface:
					if t[x.X] {
						mark(x)
					}
				case *ssa.MakeInterface:
					if t[x.X] && Carries(x.X.Type()) {
						mark(x)
					}
				case *ssa.SliceToArrayPointer:
					if t[x.X] {
						mark(x)
					}
				case *ssa.Convert:
					if t[x.X] {
						// []byte <-> string conversions copy
						if isByteSliceOrString(x.X.Type()) && isByteSliceOrString(x.Type()) &&
							!types.Identical(x.X.Type().Underlying(), x.Type().Underlying()) {
							break
						}
						if Carries(x.Type()) {
							mark(x)
						}
					}
				case *ssa.TypeAssert:
					if t[x.X] {
						mark(x)
					}
				case *ssa.Extract:
					if t[x.Tuple] && Carries(x.Type()) {
						mark(x)
					}
				case *ssa.FieldAddr:
					if t[x.X] {
						mark(x)
					}
				case *ssa.IndexAddr:
					if t[x.X] {
						mark(x)
					}
				case *ssa.Field:
					if t[x.X] && Carries(x.Type()) {
						mark(x)
					}
				case *ssa.Index:
					if t[x.X] && Carries(x.Type()) {
						mark(x)
					}
				case *ssa.Lookup:
					if t[x.X] && Carries(x.Type()) {
						mark(x)
					}
				case *ssa.Range:
					if t[x.X] {
						mark(x)
					}
				case *ssa.Next:
					if t[x.Iter] && Carries(x.Type()) {
						mark(x)
					}
				case *ssa.UnOp:
					if x.Op.String() == "*" && t[x.X] && Carries(x.Type()) {
						mark(x)
					}
				case *ssa.MakeClosure:
					f, _ := x.Fn.(*ssa.Function)
					for k, bnd := range x.Bindings {
						if !t[bnd] {
							continue
						}
						mark(x)
						if f == nil {
							emit(EvEscape, in, 0, "captured by an unknown closure")
							continue
						}
						s := a.Summ(f, len(f.Params)+k)
						if s.Escape {
							emit(EvEscape, in, 0, "escapes inside closure "+f.Name()+": "+strings.Join(s.Why, "; "))
						}
						for j := range s.Into {
							if j >= len(f.Params) && j-len(f.Params) < len(x.Bindings) {
								storeInto(x.Bindings[j-len(f.Params)], in, "stored by closure "+f.Name())
							}
						}
					}
				case *ssa.Store:
					if t[x.Val] && Carries(x.Val.Type()) {
						storeInto(x.Addr, in, "stored")
					}
				case *ssa.MapUpdate:
					if (t[x.Value] && Carries(x.Value.Type())) || (t[x.Key] && Carries(x.Key.Type())) {
						storeInto(x.Map, in, "stored in map")
					}
				case *ssa.Send:
					if t[x.X] && Carries(x.X.Type()) {
						emit(EvSend, in, 0, "sent on a channel")
					}
				case *ssa.Select:
					for _, st := range x.States {
						if st.Send != nil && t[st.Send] && Carries(st.Send.Type()) {
							emit(EvSend, in, 0, "sent on a channel")
						}
					}
					if !changedSelect(x, t) {
						break
					}
					mark(x)
				case *ssa.Return:
					for _, r := range x.Results {
						if t[r] && Carries(r.Type()) {
							emit(EvReturn, in, 0, "returned")
						}
					}
				case *ssa.Go:
					a.goOrDefer(fn, in, &x.Call, t, true, emit)
				case *ssa.Defer:
					a.call(fn, in, &x.Call, nil, t, mark, emit, storeInto)
				case *ssa.Call:
					a.call(fn, in, &x.Call, x, t, mark, emit, storeInto)
				}
			}
		}
	}
	out := make([]Event, 0, len(order))
	for _, k := range order {
		out = append(out, evs[k])
	}
	return t, out
}

// a select whose receive channel is tainted yields tainted received values
func changedSelect(x *ssa.Select, t map[ssa.Value]bool) bool {
	for _, st := range x.States {
		if st.Send == nil && t[st.Chan] {
			return true
		}
	}
	return false
}

func calleeName(c *ssa.CallCommon) string {
	if c.IsInvoke() {
		return c.Method.Name()
	}
	if f := c.StaticCallee(); f != nil {
		return f.Name()
	}
	switch v := c.Value.(type) {
	case *ssa.Builtin:
		return v.Name()
	case *ssa.MakeClosure:
		return v.Fn.Name()
	}
	return "function value " + c.Value.Name()
}

// CalleeName renders the callee of a call for messages.
func CalleeName(c *ssa.CallCommon) string { return calleeName(c) }

func (a *Alias) goOrDefer(fn *ssa.Function, in ssa.Instruction, c *ssa.CallCommon, t map[ssa.Value]bool, isGo bool,
	emit func(string, ssa.Instruction, int, string)) {
	if t[c.Value] && !c.IsInvoke() {
		emit(EvGo, in, 0, "captured by the goroutine started with go "+calleeName(c))
	}
	for k, arg := range AllArgs(c) {
		if t[arg] && Carries(arg.Type()) {
			emit(EvGo, in, k, fmt.Sprintf("passed to go %s (argument #%d)", calleeName(c), k))
		}
	}
}

func (a *Alias) call(fn *ssa.Function, in ssa.Instruction, c *ssa.CallCommon, res ssa.Value, t map[ssa.Value]bool,
	mark func(ssa.Value), emit func(string, ssa.Instruction, int, string), storeInto func(ssa.Value, ssa.Instruction, string)) {
	args := AllArgs(c)
	if bi, ok := c.Value.(*ssa.Builtin); ok {
		switch bi.Name() {
		case "append":
			if len(args) >= 1 && t[args[0]] && res != nil {
				mark(res)
			}
			if len(args) >= 2 && t[args[1]] && res != nil {
				if sl, ok := args[1].Type().Underlying().(*types.Slice); ok && Carries(sl.Elem()) {
					mark(res)
				}
			}
		case "copy":
			if len(args) == 2 && t[args[1]] {
				if sl, ok := args[1].Type().Underlying().(*types.Slice); ok && Carries(sl.Elem()) {
					storeInto(args[0], in, "copied")
				}
			}
		}
		return
	}
	anyT := false
	for _, arg := range args {
		if t[arg] && Carries(arg.Type()) {
			anyT = true
		}
	}
	if !anyT && !(t[c.Value] && !c.IsInvoke()) {
		return
	}
	targets := a.Pg.Callees(c)
	if len(targets) > 0 {
		for _, g := range targets {
			for k, arg := range args {
				if !t[arg] || !Carries(arg.Type()) || k >= len(g.Params) {
					continue
				}
				s := a.Summ(g, k)
				if s.Ret && res != nil {
					mark(res)
				}
				for j := range s.Into {
					if j < len(args) {
						storeInto(args[j], in, fmt.Sprintf("retained by %s", g.Name()))
					} else {
						// stored into a variable captured by the callee closure
						if mc, ok := c.Value.(*ssa.MakeClosure); ok && j-len(g.Params) < len(mc.Bindings) {
							storeInto(mc.Bindings[j-len(g.Params)], in, fmt.Sprintf("retained by %s", g.Name()))
						}
					}
				}
				if s.Escape {
					emit(EvEscape, in, k, fmt.Sprintf("escapes inside %s: %s", g.Name(), strings.Join(s.Why, "; ")))
				}
			}
		}
		return
	}
	obj := CalleeObj(c)
	if obj == nil {
		// dynamic call of a function value: nothing is known about the callee
		if t[c.Value] && res != nil && Carries(res.Type()) {
			mark(res)
		}
		if anyT {
			emit(EvEscape, in, 0, "passed to "+calleeName(c)+" whose body is not known")
		}
		return
	}
	aliasRes, intoRecv := ExternalPolicy(obj)
	if aliasRes && res != nil && Carries(res.Type()) {
		mark(res)
	}
	if intoRecv && len(args) > 0 {
		for k, arg := range args {
			if k > 0 && t[arg] && Carries(arg.Type()) {
				storeInto(args[0], in, "retained by "+obj.FullName())
			}
		}
	}
}

// Packages whose functions neither keep their arguments after returning nor
// return values that share memory with a []byte argument (trusted table).
var noAliasPkgs = map[string]bool{
	"net": true, "io": true, "encoding/binary": true, "fmt": true, "log": true, "errors": true, "time": true,
	"strconv": true, "unicode/utf8": true, "unicode/utf16": true, "unicode": true, "math": true, "math/bits": true,
	"math/rand": true, "os": true, "encoding/hex": true, "encoding/base64": true, "strings": true, "context": true,
	"crypto/md5": true, "crypto/sha1": true, "crypto/sha256": true, "crypto/hmac": true, "crypto/des": true,
	"crypto/aes": true, "crypto/rand": true, "hash": true, "encoding/json": true, "reflect": false,
}

var retainingMethods = map[string]bool{
	"(*sync.Map).Store": true, "(*sync.Map).LoadOrStore": true, "(*sync.Map).Swap": true, "(*sync.Map).CompareAndSwap": true,
	"(*sync.Pool).Put": true, "(*sync/atomic.Value).Store": true, "(*sync/atomic.Value).Swap": true,
	"(*sync/atomic.Value).CompareAndSwap": true, "(*container/list.List).PushBack": true, "(*container/list.List).PushFront": true,
}

// functions outside the module that always return freshly allocated memory
var freshResult = map[string]bool{
	"bytes.Clone": true, "slices.Clone": true, "strings.Clone": true, "bytes.Join": true, "bytes.Repeat": true,
	"bytes.Replace": true, "bytes.ReplaceAll": true, "bytes.ToUpper": true, "bytes.ToLower": true, "bytes.Map": true,
	"bytes.Runes": true, "slices.Concat": true, "bytes.ToValidUTF8": true,
}

var ioContract = map[string]bool{"Read": true, "Write": true, "ReadAt": true, "WriteAt": true, "ReadFrom": true, "WriteTo": true,
	"WriteString": true, "Close": true, "Sum": false}

// ExternalPolicy is the contract assumed for a function declared outside the
// module: may its result alias an argument, and does it keep arguments in its
// receiver.
func ExternalPolicy(f *types.Func) (aliasResult, intoReceiver bool) {
	full := f.FullName()
	if retainingMethods[full] {
		return false, true
	}
	if freshResult[full] {
		return false, false
	}
	pkg := ""
	if f.Pkg() != nil {
		pkg = f.Pkg().Path()
	}
	if pkg == "sync" || pkg == "sync/atomic" {
		return false, false
	}
	if noAliasPkgs[pkg] {
		return false, false
	}
	sig, _ := f.Type().(*types.Signature)
	into := false
	if sig != nil && sig.Recv() != nil && !ioContract[f.Name()] {
		into = true
	}
	return true, into
}

// FillArg reports whether the call writes received bytes into one of its
// []byte arguments (a Read-style function declared outside the module), and
// which one. Index is into AllArgs.
func FillArg(c *ssa.CallCommon) (int, bool) {
	obj := CalleeObj(c)
	if obj == nil || obj.Pkg() == nil {
		return 0, false
	}
	if !strings.HasPrefix(obj.Name(), "Read") {
		return 0, false
	}
	switch obj.Pkg().Path() {
	case "net", "io", "bufio", "os", "crypto/tls", "net/netip":
	default:
		return 0, false
	}
	args := AllArgs(c)
	for i, a := range args {
		if sl, ok := a.Type().Underlying().(*types.Slice); ok {
			if b, ok := sl.Elem().Underlying().(*types.Basic); ok && b.Kind() == types.Uint8 {
				return i, true
			}
		}
	}
	return 0, false
}

// Fills reports whether module function g writes received bytes into its
// parameter k (directly or through callees, bounded depth).
func (pg *Prog) Fills(g *ssa.Function, k int, depth int) bool {
	if depth > 3 || g.Blocks == nil || k >= len(g.Params) {
		return false
	}
	p := g.Params[k]
	for _, b := range g.Blocks {
		for _, in := range b.Instrs {
			ci, ok := in.(ssa.CallInstruction)
			if !ok {
				continue
			}
			c := ci.Common()
			args := AllArgs(c)
			if i, ok := FillArg(c); ok {
				for _, r := range roots(args[i]) {
					if r == p {
						return true
					}
				}
				continue
			}
			for _, h := range pg.Callees(c) {
				for i, a := range args {
					if i >= len(h.Params) {
						continue
					}
					for _, r := range roots(a) {
						if r == p && pg.Fills(h, i, depth+1) {
							return true
						}
					}
				}
			}
		}
	}
	return false
}

// BlockingCall classifies calls a serve loop blocks in: Read-style fills and
// Accept on a listener. It returns the connection/listener operand.
func BlockingCall(c *ssa.CallCommon) (conn ssa.Value, name string, ok bool) {
	obj := CalleeObj(c)
	if obj == nil || obj.Pkg() == nil {
		return nil, "", false
	}
	args := AllArgs(c)
	switch obj.Pkg().Path() {
	case "net", "io", "bufio", "crypto/tls", "os":
	default:
		return nil, "", false
	}
	n := obj.Name()
	if strings.HasPrefix(n, "Accept") && len(args) >= 1 {
		return args[0], n, true
	}
	if strings.HasPrefix(n, "Read") {
		if _, ok := FillArg(c); ok && len(args) >= 1 {
			return args[0], n, true
		}
	}
	return nil, "", false
}

// Summaries renders every retains(f, i) summary computed so far (evidence).
func (a *Alias) Summaries() []string {
	var out []string
	for k, s := range a.sums {
		n := fmt.Sprintf("#%d", k.i)
		if v := paramValue(k.fn, k.i); v != nil {
			n = v.Name()
		}
		out = append(out, fmt.Sprintf("retains(%s, %s): %s", k.fn.String(), n, s.String()))
	}
	sort.Strings(out)
	return out
}
