package strtmpl

import (
	"fmt"
	"go/constant"
	"go/token"
	"go/types"

	"golang.org/x/tools/go/ssa"
)

// closure.go — text written by a closure that some other function calls back.
//
//	for v := range components(dn) { sb.WriteString(v) }        (range-over-func)
//	forEachComponent(dn, func(v string) { sb.WriteString(v) })  (callback)
//
// go/ssa turns the body of a range-over-func loop into a synthetic closure
// ("yield function") that captures the variables of the enclosing function —
// the buffer among them — and hands it to the iterator. Both forms are read the
// same way, with nothing executed:
//
//  1. the call that receives the closure is a WRITE to the captured buffer
//     (bufOf, *ssa.MakeClosure);
//  2. the function that drives the closure (the DRIVER: an in-module function,
//     or the function literal an in-module function returns) is evaluated to the
//     template of its calls of the callback — Emit items inside the same
//     repetitions / filters a text accumulator would get: the callback parameter
//     is treated as a buffer whose writes are its calls;
//  3. the closure is evaluated to the text it appends to the buffer in ONE call
//     (the content at its return, given the content "pre" at its entry), with
//     its parameters bound to the arguments of the Emit, and that text replaces
//     every Emit.
//
// The closure must not be able to stop the driver (a `break` / `return` inside
// a range-over-func loop makes the synthetic closure answer false): the edges a
// driver takes when the callback answers false are then dead and are ignored.
// Anything else — the iterator comes from outside the module, the callback is
// passed on, stored, called under a condition on its own result … — is an error
// ("not modelled"), which clients must report as NOT DECIDED.

func constBool(v ssa.Value) (bool, bool) {
	k, ok := v.(*ssa.Const)
	if !ok || k.Value == nil || k.Value.Kind() != constant.Bool {
		return false, false
	}
	return constant.BoolVal(k.Value), true
}

// boolTest strips negations and comparisons with boolean constants:
// (cond == truth) ⇔ (v == want).
func boolTest(cond ssa.Value, truth bool) (ssa.Value, bool) {
	for {
		switch x := cond.(type) {
		case *ssa.UnOp:
			if x.Op == token.NOT {
				cond, truth = x.X, !truth
				continue
			}
		case *ssa.BinOp:
			if x.Op == token.EQL || x.Op == token.NEQ {
				other, k, isK := x.X, false, false
				if k, isK = constBool(x.Y); !isK {
					other = x.Y
					k, isK = constBool(x.X)
				}
				if isK {
					if (x.Op == token.EQL) != k {
						truth = !truth
					}
					cond = other
					continue
				}
			}
		}
		return cond, truth
	}
}

func (e *Eval) deadEdge(from, to *ssa.BasicBlock) bool {
	return e.deadBlk[from] || e.dead[[2]*ssa.BasicBlock{from, to}]
}

// markDead: bi is the "buffer" of a callback parameter. Every branch on the
// result of a call of the callback is recorded (it is no filter of the text),
// and the edge taken when the callback answers false is marked dead.
func (e *Eval) markDead(bi *bufInfo) {
	fn := bi.alloc.Parent()
	for w := range bi.isW {
		call := w.(*ssa.Call)
		if call.Referrers() == nil {
			continue
		}
		// the values that stand for the callback's answer (through negations)
		answers := map[ssa.Value]bool{call: true}
		work := []ssa.Value{call}
		for len(work) > 0 {
			v := work[len(work)-1]
			work = work[:len(work)-1]
			if v.Referrers() == nil {
				continue
			}
			for _, r := range *v.Referrers() {
				switch x := r.(type) {
				case *ssa.DebugRef, *ssa.If:
				case *ssa.UnOp:
					if x.Op == token.NOT && !answers[x] {
						answers[x] = true
						work = append(work, x)
						continue
					}
					bi.err = fmt.Errorf("the answer of the callback is used as a value")
				default:
					if bi.err == nil {
						bi.err = fmt.Errorf("the answer of the callback is used by %T", r)
					}
				}
			}
		}
		for _, b := range fn.Blocks {
			iff, ok := b.Instrs[len(b.Instrs)-1].(*ssa.If)
			if !ok || !answers[iff.Cond] {
				continue
			}
			v, truth := boolTest(iff.Cond, true)
			if v != ssa.Value(call) {
				continue
			}
			e.yieldIf[b] = true
			// cond ⇔ (answer == truth): the edge for answer == false
			stop := b.Succs[0]
			if truth {
				stop = b.Succs[1]
			}
			e.dead[[2]*ssa.BasicBlock{b, stop}] = true
		}
	}
	// blocks reached only through dead edges
	for changed := true; changed; {
		changed = false
		for _, b := range fn.Blocks {
			if e.deadBlk[b] || len(b.Preds) == 0 {
				continue
			}
			all := true
			for _, p := range b.Preds {
				if !e.deadEdge(p, b) {
					all = false
				}
			}
			if all {
				e.deadBlk[b] = true
				changed = true
			}
		}
	}
}

// closureOf resolves a function value to the function literal it denotes,
// entering the in-module function that returns it (its parameters are bound to
// the arguments of the call). undo restores the bindings.
func (e *Eval) closureOf(v ssa.Value, d int) (fn *ssa.Function, undo func(), err error) {
	undo = func() {}
	if d > 4 {
		return nil, undo, fmt.Errorf("function value too deep")
	}
	switch x := v.(type) {
	case *ssa.ChangeType:
		return e.closureOf(x.X, d+1)
	case *ssa.Parameter:
		if b, ok := e.bind[x]; ok {
			return e.closureOf(b, d+1)
		}
	case *ssa.Function:
		if x.Blocks != nil && e.InModule != nil && e.InModule(x) {
			return x, undo, nil
		}
		return nil, undo, fmt.Errorf("%s is not a function of the module", x.Name())
	case *ssa.MakeClosure:
		f := x.Fn.(*ssa.Function)
		for i, fv := range f.FreeVars {
			e.freeBound[fv] = x.Bindings[i]
		}
		return f, undo, nil
	case *ssa.Call:
		g := x.Common().StaticCallee()
		if e.InModule == nil || g == nil || g.Blocks == nil || !e.InModule(g) || len(g.Params) != len(x.Common().Args) {
			return nil, undo, fmt.Errorf("the function value is the result of %s, which is not a function of the module", x.Common().Value.Name())
		}
		var main ssa.Value
		for _, b := range g.Blocks {
			if ret, ok := b.Instrs[len(b.Instrs)-1].(*ssa.Return); ok && len(ret.Results) == 1 {
				if k, isK := ret.Results[0].(*ssa.Const); isK && k.Value == nil {
					continue
				}
				if main != nil {
					return nil, undo, fmt.Errorf("%s returns different function values on different paths", g.Name())
				}
				main = ret.Results[0]
			}
		}
		if main == nil {
			return nil, undo, fmt.Errorf("%s returns no function value", g.Name())
		}
		u1 := e.bindParams(g, x.Common().Args)
		f, u2, err := e.closureOf(main, d+1)
		return f, func() { u2(); u1() }, err
	}
	return nil, undo, fmt.Errorf("function value of shape %T is not modelled", v)
}

// bindParams binds the parameters of g to args (as helperReturn does).
func (e *Eval) bindParams(g *ssa.Function, args []ssa.Value) func() {
	saved := map[*ssa.Parameter]ssa.Value{}
	had := map[*ssa.Parameter]bool{}
	for i, q := range g.Params {
		saved[q], had[q] = e.bind[q], false
		if _, ok := e.bind[q]; ok {
			had[q] = true
		}
		e.bind[q] = args[i]
		if old, seen := e.bound[q]; seen && old != args[i] {
			e.bound[q] = nil
		} else {
			e.bound[q] = args[i]
		}
	}
	return func() {
		for q, v := range saved {
			if had[q] {
				e.bind[q] = v
			} else {
				delete(e.bind, q)
			}
		}
	}
}

// driven: call hands the closure mc — which captures the buffer bi.alloc — to a
// driver; the result is the text the call appends to the buffer.
func (e *Eval) driven(bi *bufInfo, call *ssa.Call, mc *ssa.MakeClosure) ([]Item, error) {
	body := mc.Fn.(*ssa.Function)
	if len(e.inCalls) >= 4 {
		return nil, fmt.Errorf("callbacks nested too deep")
	}
	var fv *ssa.FreeVar
	for i, b := range mc.Bindings {
		if b == bi.alloc {
			if fv != nil {
				return nil, fmt.Errorf("the buffer is captured twice by one closure")
			}
			fv = body.FreeVars[i]
		}
		e.freeBound[body.FreeVars[i]] = b
	}
	if fv == nil {
		return nil, fmt.Errorf("the closure does not capture the buffer")
	}
	// the closure never asks its driver to stop
	for _, b := range body.Blocks {
		ret, ok := b.Instrs[len(b.Instrs)-1].(*ssa.Return)
		if !ok {
			continue
		}
		switch len(ret.Results) {
		case 0:
		case 1:
			if k, isB := constBool(ret.Results[0]); !isB || !k {
				return nil, fmt.Errorf("the loop body can stop the iteration early (break / return inside the loop over %s)", call.Common().Value.Name())
			}
		default:
			return nil, fmt.Errorf("callback with several results")
		}
	}
	// the driver and the parameter through which it receives the closure
	cc := call.Common()
	var drv *ssa.Function
	undo := func() {}
	if g := cc.StaticCallee(); g != nil {
		if _, isLit := cc.Value.(*ssa.MakeClosure); isLit {
			var err error
			drv, undo, err = e.closureOf(cc.Value, 0)
			if err != nil {
				return nil, err
			}
		} else if g.Blocks == nil || e.InModule == nil || !e.InModule(g) {
			return nil, fmt.Errorf("the closure is handed to %s, which is not a function of the module", g.Name())
		} else {
			drv = g
		}
	} else if cc.IsInvoke() {
		return nil, fmt.Errorf("the closure is handed to an interface method")
	} else {
		var err error
		drv, undo, err = e.closureOf(cc.Value, 0)
		if err != nil {
			undo()
			return nil, fmt.Errorf("the iterator the loop ranges over is not read: %v", err)
		}
	}
	defer undo()
	if len(drv.Params) != len(cc.Args) {
		return nil, fmt.Errorf("the driver's parameters do not match the call")
	}
	for _, f := range e.inCalls {
		if f == drv || f == body {
			return nil, fmt.Errorf("recursive callback")
		}
	}
	var yield *ssa.Parameter
	for i, a := range cc.Args {
		if a == ssa.Value(mc) {
			if yield != nil {
				return nil, fmt.Errorf("the closure is passed twice")
			}
			yield = drv.Params[i]
		}
	}
	if yield == nil {
		return nil, fmt.Errorf("the closure is not an argument of the call")
	}
	undoArgs := e.bindParams(drv, cc.Args)
	defer undoArgs()
	e.inCalls = append(e.inCalls, drv, body)
	defer func() { e.inCalls = e.inCalls[:len(e.inCalls)-2] }()

	emits, err := e.emissions(drv, yield)
	if err != nil {
		return nil, err
	}
	return e.substitute(emits, body, fv, bi.alloc)
}

// emissions: the template of the calls drv makes of its callback parameter.
func (e *Eval) emissions(drv *ssa.Function, yield *ssa.Parameter) ([]Item, error) {
	yb := e.bufOf(yield)
	if yb.err != nil {
		return nil, yb.err
	}
	var end *ssa.Return
	for _, b := range drv.Blocks {
		ret, ok := b.Instrs[len(b.Instrs)-1].(*ssa.Return)
		if !ok || e.deadBlk[b] {
			continue
		}
		if end != nil {
			// several live returns: they must agree on what was handed out
			a, err := e.bufExit(yb, end.Block(), end)
			if err != nil {
				return nil, err
			}
			c, err := e.bufExit(yb, b, ret)
			if err != nil {
				return nil, err
			}
			if !sameItems(a, c) {
				return nil, fmt.Errorf("%s hands out different sequences on different paths", drv.Name())
			}
			continue
		}
		end = ret
	}
	if end == nil {
		return nil, fmt.Errorf("%s never returns normally", drv.Name())
	}
	return e.bufExit(yb, end.Block(), end)
}

// substitute replaces every Emit by the text one call of body appends to the
// buffer body sees as fv.
func (e *Eval) substitute(items []Item, body *ssa.Function, fv *ssa.FreeVar, cell ssa.Value) ([]Item, error) {
	var out []Item
	for _, it := range items {
		switch it.Kind {
		case Emit:
			eff, err := e.effect(body, fv, it.Args)
			if err != nil {
				return nil, err
			}
			out = append(out, eff...)
		case Rep, Opt:
			sub, err := e.substitute(it.Body, body, fv, cell)
			if err != nil {
				return nil, err
			}
			it.Body = sub
			if it.Kind == Rep {
				it.Acc = bufKey{cell, it.Loop.Header} // the repetition extends the captured buffer
			}
			out = append(out, it)
		default:
			return nil, fmt.Errorf("unexpected %s in the template of an iterator", Describe([]Item{it}))
		}
	}
	return out, nil
}

// effect: what one call body(args...) appends to the buffer it sees as fv.
func (e *Eval) effect(body *ssa.Function, fv *ssa.FreeVar, args []ssa.Value) ([]Item, error) {
	if len(args) != len(body.Params) {
		return nil, fmt.Errorf("the callback is called with %d argument(s), it has %d parameter(s)", len(args), len(body.Params))
	}
	undo := e.bindParams(body, args)
	defer undo()
	bi := e.bufOf(fv)
	if bi.err != nil {
		return nil, bi.err
	}
	var eff []Item
	set := false
	for _, b := range body.Blocks {
		ret, ok := b.Instrs[len(b.Instrs)-1].(*ssa.Return)
		if !ok {
			continue
		}
		items, err := e.bufExit(bi, b, ret)
		if err != nil {
			return nil, err
		}
		if len(items) == 0 || items[0].Kind != Self || items[0].Acc != any(preKey{fv}) {
			return nil, fmt.Errorf("the loop body does not extend the buffer at its end")
		}
		ext := items[1:]
		if hasKind(ext, Self) {
			return nil, fmt.Errorf("the loop body uses the buffer's content twice")
		}
		if set && !sameItems(eff, ext) {
			return nil, fmt.Errorf("the loop body writes different text on different paths (continue)")
		}
		eff, set = ext, true
	}
	if !set {
		return nil, fmt.Errorf("the loop body never returns")
	}
	return eff, nil
}

// rootCell: the local variable a captured variable stands for (through any
// number of closures); v itself when that is not known.
func (e *Eval) rootCell(v ssa.Value) ssa.Value {
	for d := 0; d < 6; d++ {
		fv, ok := v.(*ssa.FreeVar)
		if !ok {
			return v
		}
		if b, ok := e.freeBound[fv]; ok && b != nil {
			v = b
			continue
		}
		mcs := closuresOf(fv.Parent())
		if len(mcs) != 1 {
			return v
		}
		for i, f := range fv.Parent().FreeVars {
			if f == fv {
				v = mcs[0].Bindings[i]
			}
		}
		if v == ssa.Value(fv) {
			return v
		}
	}
	return v
}

// closuresOf: the MakeClosure instructions that create fn.
func closuresOf(fn *ssa.Function) []*ssa.MakeClosure {
	var out []*ssa.MakeClosure
	if fn.Parent() == nil {
		return nil
	}
	for _, b := range fn.Parent().Blocks {
		for _, in := range b.Instrs {
			if mc, ok := in.(*ssa.MakeClosure); ok && mc.Fn == ssa.Value(fn) {
				out = append(out, mc)
			}
		}
	}
	return out
}

// cellUse describes a boolean / integer variable that is captured by a closure
// and tested inside it (cellStep).
type cellUse struct {
	isBool bool
	zero   bool // boolean: the value it has before the first call of the closure
	stores int  // assignments inside the closure (0: it never changes)
	after  bool // the tested load sees the value AFTER this call's assignment
}

// cellStep: load reads a variable captured by the closure it sits in. The
// variable is a per-call STEP variable — a first-element flag or a counter of
// completed calls — when
//
//   - the enclosing function stores one constant into it (false/true, 0) before
//     it makes the closure — or nothing: the zero value — and otherwise only
//     reads it;
//   - the closure has no loop and assigns it on every path to a return: a flag
//     gets the opposite constant, a counter gets exactly one `v = v + 1`;
//   - load comes either before every assignment of its call or after all of them.
//
// Then, when load comes first, the variable still holds its initial value
// exactly when no call of the closure has completed before (a counter holds the
// number of completed calls).
func (e *Eval) cellStep(load *ssa.UnOp) (use cellUse, err error) {
	fv, ok := load.X.(*ssa.FreeVar)
	if !ok {
		return use, fmt.Errorf("it is not a variable captured by the loop body")
	}
	body := fv.Parent()
	mcs := closuresOf(body)
	if len(mcs) != 1 {
		return use, fmt.Errorf("the closure is made in %d places", len(mcs))
	}
	mc := mcs[0]
	var cell *ssa.Alloc
	for i, f := range body.FreeVars {
		if f == fv {
			cell, _ = mc.Bindings[i].(*ssa.Alloc)
		}
	}
	if cell == nil || cell.Referrers() == nil {
		return use, fmt.Errorf("the variable is captured from a further closure")
	}
	bt, isB := load.Type().Underlying().(*types.Basic)
	switch {
	case isB && bt.Kind() == types.Bool:
		use.isBool = true
	case isB && bt.Info()&types.IsInteger != 0:
	default:
		return use, fmt.Errorf("the variable is neither a boolean nor an integer")
	}
	// enclosing function
	var init *ssa.Store
	for _, r := range *cell.Referrers() {
		switch x := r.(type) {
		case *ssa.DebugRef:
		case *ssa.UnOp:
			if x.Op != token.MUL {
				return use, fmt.Errorf("the variable's address is used")
			}
		case *ssa.MakeClosure:
			if x != mc {
				return use, fmt.Errorf("the variable is captured by several closures")
			}
		case *ssa.Store:
			if x.Addr != ssa.Value(cell) || init != nil {
				return use, fmt.Errorf("the variable is assigned more than once outside the loop body")
			}
			init = x
		default:
			return use, fmt.Errorf("the variable is used by %T", r)
		}
	}
	if init != nil {
		if use.isBool {
			k, isK := constBool(init.Val)
			if !isK {
				return use, fmt.Errorf("the flag is initialised with a computed value")
			}
			use.zero = k
		} else if k, isK := constInt(init.Val); !isK || k != 0 {
			return use, fmt.Errorf("the counter does not start at 0")
		}
		before := false
		if init.Block() == mc.Block() {
			for _, in := range init.Block().Instrs {
				if in == ssa.Instruction(init) {
					before = true
					break
				}
				if in == ssa.Instruction(mc) {
					break
				}
			}
		} else {
			before = init.Block().Dominates(mc.Block())
		}
		if !before {
			return use, fmt.Errorf("the variable is not initialised before the loop")
		}
	}
	// the closure
	for _, b := range body.Blocks {
		for _, p := range b.Preds {
			if b.Dominates(p) {
				return use, fmt.Errorf("the loop body contains a loop")
			}
		}
	}
	var stores []*ssa.Store
	for _, r := range *fv.Referrers() {
		switch x := r.(type) {
		case *ssa.DebugRef:
		case *ssa.UnOp:
			if x.Op != token.MUL {
				return use, fmt.Errorf("the variable's address is used")
			}
		case *ssa.Store:
			if x.Addr != ssa.Value(fv) {
				return use, fmt.Errorf("the variable's address is stored")
			}
			if use.isBool {
				if k, isK := constBool(x.Val); !isK || k == use.zero {
					return use, fmt.Errorf("the loop body assigns the flag something other than %v", !use.zero)
				}
			} else {
				bo, isBo := x.Val.(*ssa.BinOp)
				if !isBo || bo.Op != token.ADD {
					return use, fmt.Errorf("the loop body assigns the counter something other than counter+1")
				}
				l, isL := bo.X.(*ssa.UnOp)
				k, isK := constInt(bo.Y)
				if !isL || l.Op != token.MUL || l.X != ssa.Value(fv) || !isK || k != 1 {
					return use, fmt.Errorf("the loop body assigns the counter something other than counter+1")
				}
			}
			stores = append(stores, x)
		default:
			return use, fmt.Errorf("the variable is used by %T", r)
		}
	}
	use.stores = len(stores)
	if len(stores) == 0 {
		return use, nil
	}
	if !use.isBool && len(stores) != 1 {
		return use, fmt.Errorf("the loop body advances the counter in %d places", len(stores))
	}
	pos := func(in ssa.Instruction) int {
		for i, x := range in.Block().Instrs {
			if x == in {
				return i
			}
		}
		return -1
	}
	nBefore, nAfter := 0, 0
	for _, st := range stores {
		switch {
		case st.Block() == load.Block():
			if pos(st) < pos(load) {
				nAfter++
			} else {
				nBefore++
			}
		case load.Block().Dominates(st.Block()):
			nBefore++
		case st.Block().Dominates(load.Block()):
			nAfter++
		default:
			return use, fmt.Errorf("the variable may or may not have been assigned when it is tested")
		}
	}
	if nBefore > 0 && nAfter > 0 {
		return use, fmt.Errorf("the variable is assigned both before and after it is tested")
	}
	use.after = nAfter > 0
	for _, b := range body.Blocks {
		if _, isRet := b.Instrs[len(b.Instrs)-1].(*ssa.Return); !isRet {
			continue
		}
		covered := false
		for _, st := range stores {
			if st.Block().Dominates(b) {
				covered = true
			}
		}
		if !covered {
			return use, fmt.Errorf("the loop body can finish without assigning the variable")
		}
	}
	return use, nil
}

// ---------------------------------------------------------------------------
// lists kept in cells, lists collected from iterators

// listItems evaluates a []string value to Items (Elem = one element) so that a
// list variable that lives in a cell — `parts = append(parts, v)` inside a
// closure — goes through the same machinery as a text buffer.
func (e *Eval) listItems(v ssa.Value) ([]Item, error) {
	if err := e.step(); err != nil {
		return nil, err
	}
	switch x := v.(type) {
	case *ssa.UnOp:
		if cell, k := cellLoad(x); k == cellList {
			return e.bufferAt(cell, x)
		}
	case *ssa.Parameter:
		if b, ok := e.bind[x]; ok {
			return e.listItems(b)
		}
	case *ssa.Call:
		if _, name := callee(x.Common()); name == "append" && len(x.Common().Args) == 2 {
			base, err := e.listItems(x.Common().Args[0])
			if err != nil {
				return nil, err
			}
			if k, ok := x.Common().Args[1].(*ssa.Const); ok && k.Value == nil {
				return base, nil
			}
			if sl, ok := x.Common().Args[1].(*ssa.Slice); ok {
				if _, isAlloc := sl.X.(*ssa.Alloc); isAlloc && sl.Low == nil && sl.High == nil {
					vals, ok := Varargs(sl)
					if !ok {
						return nil, fmt.Errorf("appended elements are not a plain list")
					}
					out := append([]Item(nil), base...)
					for _, el := range vals {
						it, err := e.String(el)
						if err != nil {
							return nil, err
						}
						out = append(out, Item{Kind: Elem, Body: it})
					}
					return out, nil
				}
			}
			tail, err := e.listItems(x.Common().Args[1])
			if err != nil {
				return nil, err
			}
			return append(append([]Item(nil), base...), tail...), nil
		}
	}
	parts, err := e.List(v)
	if err != nil {
		return nil, err
	}
	return fromParts(parts)
}

func fromParts(parts []Part) ([]Item, error) {
	var out []Item
	for _, p := range parts {
		switch {
		case p.self:
			return nil, fmt.Errorf("list refers to itself")
		case p.Loop == nil && p.Cond != nil:
			out = append(out, Item{Kind: Opt, Cond: p.Cond, Body: []Item{{Kind: Elem, Body: p.Elem}}})
		case p.Loop == nil:
			out = append(out, Item{Kind: Elem, Body: p.Elem})
		default:
			body, err := fromParts(p.Body)
			if err != nil {
				return nil, err
			}
			out = append(out, Item{Kind: Rep, Loop: p.Loop, Cond: p.Cond, Body: body})
		}
	}
	return out, nil
}

func toParts(items []Item) ([]Part, error) {
	var out []Part
	for _, it := range items {
		switch it.Kind {
		case Elem:
			out = append(out, Part{Elem: it.Body})
		case Opt:
			sub, err := toParts(it.Body)
			if err != nil {
				return nil, err
			}
			for _, p := range sub {
				if p.Cond != nil {
					return nil, fmt.Errorf("element under two conditions")
				}
				p.Cond = it.Cond
				out = append(out, p)
			}
		case Rep:
			sub, err := toParts(it.Body)
			if err != nil {
				return nil, err
			}
			out = append(out, Part{Loop: it.Loop, Cond: it.Cond, Body: sub})
		default:
			return nil, fmt.Errorf("a list contains %s", Describe([]Item{it}))
		}
	}
	return out, nil
}

// collected: the elements the iterator seq hands out (slices.Collect(seq)), as
// Elem items inside the iterator's repetitions and filters.
func (e *Eval) collected(seq ssa.Value) ([]Item, error) {
	drv, undo, err := e.closureOf(seq, 0)
	defer undo()
	if err != nil {
		return nil, fmt.Errorf("the iterator that is collected is not read: %v", err)
	}
	if len(drv.Params) != 1 || len(e.inCalls) >= 4 {
		return nil, fmt.Errorf("the iterator that is collected is not a func(yield)")
	}
	for _, f := range e.inCalls {
		if f == drv {
			return nil, fmt.Errorf("recursive iterator")
		}
	}
	e.inCalls = append(e.inCalls, drv)
	defer func() { e.inCalls = e.inCalls[:len(e.inCalls)-1] }()
	emits, err := e.emissions(drv, drv.Params[0])
	if err != nil {
		return nil, err
	}
	var conv func(items []Item) ([]Item, error)
	conv = func(items []Item) ([]Item, error) {
		var out []Item
		for _, it := range items {
			switch it.Kind {
			case Emit:
				if len(it.Args) != 1 {
					return nil, fmt.Errorf("the collected iterator hands out pairs")
				}
				t, err := e.String(it.Args[0])
				if err != nil {
					return nil, err
				}
				out = append(out, Item{Kind: Elem, Body: t})
			case Rep, Opt:
				sub, err := conv(it.Body)
				if err != nil {
					return nil, err
				}
				it.Body = sub
				out = append(out, it)
			default:
				return nil, fmt.Errorf("unexpected %s in the template of an iterator", Describe([]Item{it}))
			}
		}
		return out, nil
	}
	return conv(emits)
}
