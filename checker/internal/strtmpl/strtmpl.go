// Package strtmpl extracts, from go/ssa, the TEMPLATE of a string a function
// builds: literals, printed values, and repetitions produced by loops
// (accumulation with +=, slices filled by append and joined by strings.Join,
// byte buffers extended by append / strconv.Append* / fmt.Appendf and converted
// with string(b), strings.Builder / bytes.Buffer written to along the control
// flow — see buffer.go; text written by a closure that an in-module iterator
// or callback-taking function calls — the body of a range-over-func loop —
// into a captured buffer, string or []string variable — see closure.go).
// Nothing is executed; a shape that is not modelled yields an error, which
// means "this construction was not read": the client must report the construct
// NOT DECIDED, never as a mismatch. A template that IS returned describes
// everything that is written, so a client may report what it shows.
package strtmpl

import (
	"fmt"
	"go/constant"
	"go/token"
	"go/types"
	"strings"

	"golang.org/x/tools/go/ssa"
)

type Kind int

const (
	Lit  Kind = iota // literal text
	Val              // a printed value (Verb 'd','x','s',…)
	Rep              // Body repeated once per iteration of Loop (optionally only when Cond holds)
	Join             // Parts joined by Sep
	Self             // internal: the accumulator being defined
	Opt              // Body present only when Cond holds
	Tick             // internal: one increment of a counter (Eval.count)
	Emit             // internal: one call yield(Args...) inside an iterator / a function that drives a callback (closure.go)
	Elem             // internal: one element (text Body) of a list kept in a cell (closure.go)
)

type Item struct {
	Kind  Kind
	Lit   string
	Val   ssa.Value
	Verb  byte
	Loop  *Loop
	Body  []Item // Rep
	Cond  *Filter
	Sep   string      // Join
	Parts []Part      // Join
	Args  []ssa.Value // Emit
	// Acc identifies the accumulator: for Self the one being defined, for Rep the
	// loop-carried accumulator the repetition extends (an *ssa.Phi, or a bufKey
	// for a strings.Builder / bytes.Buffer).
	Acc any
	// Assume (Join): the text equals the join only under this condition
	// ("" = unconditionally).
	Assume string
}

// Part is one element source of a joined list: a single element, or a
// repetition of element sources.
type Part struct {
	Elem []Item // single element (template of that element)
	Loop *Loop  // repetition: Body once per iteration
	Body []Part
	Cond *Filter
	self bool
}

// mergeFilter: the branch that decides whether the edge from Preds[i] into the
// merge block blk is taken.
func (e *Eval) mergeFilter(blk *ssa.BasicBlock, i int) *Filter {
	pred := blk.Preds[i]
	for d := blk.Idom(); d != nil; d = d.Idom() {
		iff, ok := d.Instrs[len(d.Instrs)-1].(*ssa.If)
		if !ok || len(d.Succs) != 2 || isLoopHeader(d) || e.yieldIf[d] {
			continue
		}
		owns := func(s *ssa.BasicBlock) bool { return s != blk && len(s.Preds) == 1 && s.Dominates(pred) }
		t, f := owns(d.Succs[0]), owns(d.Succs[1])
		if t != f {
			return &Filter{Cond: iff.Cond, Truth: t}
		}
		// the edge may come straight from d (the other branch holds the alternative)
		if pred == d {
			o0, o1 := d.Succs[0] != blk, d.Succs[1] != blk
			if o0 != o1 {
				return &Filter{Cond: iff.Cond, Truth: !o0}
			}
		}
		return nil
	}
	return nil
}

func sameFilter(a, b *Filter) bool {
	if a == nil || b == nil {
		return a == b
	}
	return a.Cond == b.Cond && a.Truth == b.Truth
}

func sameItems(a, b []Item) bool {
	if len(a) != len(b) {
		return false
	}
	for i := range a {
		if !sameItem(a[i], b[i]) {
			return false
		}
	}
	return true
}

func sameItem(a, b Item) bool {
	if a.Kind != b.Kind {
		return false
	}
	switch a.Kind {
	case Lit:
		return a.Lit == b.Lit
	case Val:
		return a.Val == b.Val && a.Verb == b.Verb
	case Self:
		return a.Acc == b.Acc
	case Tick:
		return true
	case Emit:
		if len(a.Args) != len(b.Args) {
			return false
		}
		for i := range a.Args {
			if a.Args[i] != b.Args[i] {
				return false
			}
		}
		return true
	case Elem:
		return sameItems(a.Body, b.Body)
	case Rep:
		return a.Loop == b.Loop && sameFilter(a.Cond, b.Cond) && sameItems(a.Body, b.Body)
	case Opt:
		return sameFilter(a.Cond, b.Cond) && sameItems(a.Body, b.Body)
	case Join:
		return a.Sep == b.Sep && sameParts(a.Parts, b.Parts)
	}
	return false
}

func sameParts(a, b []Part) bool {
	if len(a) != len(b) {
		return false
	}
	for i := range a {
		if a[i].Loop != b[i].Loop || a[i].self != b[i].self || !sameFilter(a[i].Cond, b[i].Cond) ||
			!sameItems(a[i].Elem, b[i].Elem) || !sameParts(a[i].Body, b[i].Body) {
			return false
		}
	}
	return true
}

// merge: an accumulator at a merge point that is not a loop header. The paths
// share a common beginning; at most one of them may add something after it
// (`if c { acc += x }`), which becomes an optional part under that path's
// condition.
func (e *Eval) merge(blk *ssa.BasicBlock, edge func(i int) ([]Item, error)) ([]Item, error) {
	var all [][]Item
	var live []int // index in blk.Preds of all[k]
	for i := range blk.Preds {
		if e.deadEdge(blk.Preds[i], blk) {
			continue // an edge only taken when a callback asked to stop, which it never does (closure.go)
		}
		items, err := edge(i)
		if err != nil {
			return nil, err
		}
		all = append(all, items)
		live = append(live, i)
	}
	if len(all) == 0 {
		return nil, fmt.Errorf("empty merge")
	}
	if len(all) == 1 {
		return all[0], nil
	}
	n := len(all[0])
	for _, it := range all[1:] {
		k := 0
		for k < n && k < len(it) && sameItem(all[0][k], it[k]) {
			k++
		}
		n = k
	}
	out := append([]Item(nil), all[0][:n]...)
	var ext []Item
	for i, it := range all {
		if len(it) == n {
			continue
		}
		if ext != nil {
			if sameItems(ext[0].Body, it[n:]) {
				return nil, fmt.Errorf("text extended in the same way on two of several alternative paths")
			}
			return nil, fmt.Errorf("text extended in different ways on alternative paths")
		}
		cond := e.mergeFilter(blk, live[i])
		if cond == nil {
			return nil, fmt.Errorf("the condition of an optional extension is not a plain branch")
		}
		ext = []Item{{Kind: Opt, Body: append([]Item(nil), it[n:]...), Cond: cond}}
	}
	return append(out, ext...), nil
}

func (e *Eval) mergeList(x *ssa.Phi) ([]Part, error) {
	var self *Part
	var ext []Part
	for i, edge := range x.Edges {
		parts, err := e.List(edge)
		if err != nil {
			return nil, err
		}
		if len(parts) == 0 || !parts[0].self {
			return nil, fmt.Errorf("list merged from alternative paths is not modelled")
		}
		if self != nil && self.Elem[0].Val != parts[0].Elem[0].Val {
			return nil, fmt.Errorf("list merged from different accumulators")
		}
		self = &parts[0]
		if len(parts) == 1 {
			continue
		}
		if ext != nil {
			return nil, fmt.Errorf("list extended in different ways on alternative paths")
		}
		cond := e.mergeFilter(x.Block(), i)
		if cond == nil {
			return nil, fmt.Errorf("the condition of an optional element is not a plain branch")
		}
		for _, pt := range parts[1:] {
			if pt.Cond != nil {
				return nil, fmt.Errorf("element under two conditions")
			}
			pt.Cond = cond
			ext = append(ext, pt)
		}
	}
	if self == nil {
		return nil, fmt.Errorf("empty merge")
	}
	return append([]Part{*self}, ext...), nil
}

// Filter: the element is produced only on the edge where Cond == Truth.
type Filter struct {
	Cond  ssa.Value
	Truth bool
}

// Loop describes a counted loop: Index starts at Start, advances by 1, and the
// body runs while (Index [+1 for range loops]) Op Bound.
type Loop struct {
	Header  *ssa.BasicBlock
	Index   *ssa.Phi
	Start   int64
	Range   bool      // lowered range loop: index starts at -1 and is incremented before the test
	Counter ssa.Value // the value compared with Bound (Index, or Index+1 for range loops)
	Op      token.Token
	Bound   ssa.Value
}

type Eval struct {
	loops   map[*ssa.BasicBlock]*Loop
	stack   []any
	bufs    map[ssa.Value]*bufInfo
	df      map[*ssa.Function]map[*ssa.BasicBlock][]*ssa.BasicBlock
	steps   int
	visited map[any]bool // accumulators evaluated (Joinify: the family of a counter)

	// InModule, when set, lets the evaluation enter in-module helpers that build
	// a text or a list: the helper's single non-constant return is evaluated with
	// its parameters bound to the arguments of the call.
	InModule func(*ssa.Function) bool
	bind     map[*ssa.Parameter]ssa.Value
	bound    map[*ssa.Parameter]ssa.Value // last binding of every parameter entered (nil value: bound twice, ambiguous)
	inCalls  []*ssa.Function

	// closure.go
	freeBound map[*ssa.FreeVar]ssa.Value  // free variable of a closure that was entered → the value it captures
	yieldIf   map[*ssa.BasicBlock]bool    // blocks whose branch tests the result of a callback ("go on?")
	dead      map[[2]*ssa.BasicBlock]bool // edges taken only when a callback asks to stop
	deadBlk   map[*ssa.BasicBlock]bool    // blocks reached only through such edges
	flagZero  *bool                       // count(): the initial value of the boolean flag being evaluated
}

func New() *Eval {
	return &Eval{loops: map[*ssa.BasicBlock]*Loop{}, bufs: map[ssa.Value]*bufInfo{},
		df: map[*ssa.Function]map[*ssa.BasicBlock][]*ssa.BasicBlock{}, visited: map[any]bool{},
		bind: map[*ssa.Parameter]ssa.Value{}, bound: map[*ssa.Parameter]ssa.Value{},
		freeBound: map[*ssa.FreeVar]ssa.Value{}, yieldIf: map[*ssa.BasicBlock]bool{},
		dead: map[[2]*ssa.BasicBlock]bool{}, deadBlk: map[*ssa.BasicBlock]bool{}}
}

// Bound: the caller's value a helper parameter stood for while the helper was
// evaluated (nil: never entered, or entered with two different arguments).
func (e *Eval) Bound(p *ssa.Parameter) ssa.Value { return e.bound[p] }

// BoundFree: the value a free variable of a closure that was entered captures
// (in the frame of the function that made the closure); nil: never entered.
func (e *Eval) BoundFree(v *ssa.FreeVar) ssa.Value { return e.freeBound[v] }

// helperReturn: call enters an in-module helper with one result; returns the
// value of its single non-constant return and binds its parameters. The caller
// must invoke the returned function when it is done with the helper.
func (e *Eval) helperReturn(call *ssa.Call) (ssa.Value, func(), bool) {
	g := call.Common().StaticCallee()
	if e.InModule == nil || g == nil || g.Blocks == nil || !e.InModule(g) || g.Signature.Results().Len() != 1 ||
		len(g.Params) != len(call.Common().Args) || len(e.inCalls) >= 3 {
		return nil, nil, false
	}
	for _, f := range e.inCalls {
		if f == g {
			return nil, nil, false
		}
	}
	var main ssa.Value
	for _, b := range g.Blocks {
		ret, ok := b.Instrs[len(b.Instrs)-1].(*ssa.Return)
		if !ok {
			continue
		}
		if k, isK := ret.Results[0].(*ssa.Const); isK {
			if s, isS := constString(k); k.Value == nil || (isS && s == "") {
				continue // early exit answering the empty text / the nil list
			}
		}
		if main != nil {
			return nil, nil, false
		}
		main = ret.Results[0]
	}
	if main == nil {
		return nil, nil, false
	}
	saved := map[*ssa.Parameter]ssa.Value{}
	for i, q := range g.Params {
		saved[q] = e.bind[q]
		e.bind[q] = call.Common().Args[i]
		if old, seen := e.bound[q]; seen && old != call.Common().Args[i] {
			e.bound[q] = nil
		} else {
			e.bound[q] = call.Common().Args[i]
		}
	}
	e.inCalls = append(e.inCalls, g)
	return main, func() {
		e.inCalls = e.inCalls[:len(e.inCalls)-1]
		for q, v := range saved {
			if v == nil {
				delete(e.bind, q)
			} else {
				e.bind[q] = v
			}
		}
	}, true
}

const maxSteps = 100000

func (e *Eval) step() error {
	e.steps++
	if e.steps > maxSteps {
		return fmt.Errorf("template evaluation budget exhausted")
	}
	return nil
}

func constString(v ssa.Value) (string, bool) {
	k, ok := v.(*ssa.Const)
	if !ok || k.Value == nil || k.Value.Kind() != constant.String {
		return "", false
	}
	return constant.StringVal(k.Value), true
}

func constInt(v ssa.Value) (int64, bool) {
	k, ok := v.(*ssa.Const)
	if !ok || k.Value == nil || k.Value.Kind() != constant.Int {
		return 0, false
	}
	return constant.Int64Val(k.Value)
}

func callee(cc *ssa.CallCommon) (pkg, name string) {
	if b, ok := cc.Value.(*ssa.Builtin); ok {
		return "", b.Name()
	}
	fn := cc.StaticCallee()
	if fn == nil || fn.Signature.Recv() != nil {
		return "", ""
	}
	if o := fn.Origin(); o != nil {
		fn = o // instance of a generic function: slices.Collect[string] is slices.Collect
	}
	if fn.Pkg != nil {
		return fn.Pkg.Pkg.Path(), fn.Name()
	}
	if o := fn.Object(); o != nil && o.Pkg() != nil {
		return o.Pkg().Path(), fn.Name()
	}
	return "", fn.Name()
}

// Varargs returns the values stored into the array a `t[:]` slice views.
func Varargs(v ssa.Value) ([]ssa.Value, bool) {
	if k, ok := v.(*ssa.Const); ok && k.Value == nil {
		return nil, true
	}
	sl, ok := v.(*ssa.Slice)
	if !ok {
		return nil, false
	}
	al, ok := sl.X.(*ssa.Alloc)
	if !ok || al.Referrers() == nil {
		return nil, false
	}
	pt, ok := al.Type().Underlying().(*types.Pointer)
	if !ok {
		return nil, false
	}
	at, ok := pt.Elem().Underlying().(*types.Array)
	if !ok {
		return nil, false
	}
	out := make([]ssa.Value, at.Len())
	for _, r := range *al.Referrers() {
		ia, ok := r.(*ssa.IndexAddr)
		if !ok {
			continue
		}
		i, ok := constInt(ia.Index)
		if !ok || i < 0 || i >= int64(len(out)) || ia.Referrers() == nil {
			return nil, false
		}
		for _, rr := range *ia.Referrers() {
			if st, ok := rr.(*ssa.Store); ok && st.Addr == ssa.Value(ia) {
				if out[i] != nil {
					return nil, false
				}
				out[i] = st.Val
			}
		}
	}
	for _, x := range out {
		if x == nil {
			return nil, false
		}
	}
	return out, true
}

func peelIface(v ssa.Value) ssa.Value {
	if mi, ok := v.(*ssa.MakeInterface); ok {
		return mi.X
	}
	return v
}

func isString(t types.Type) bool {
	b, ok := t.Underlying().(*types.Basic)
	return ok && b.Info()&types.IsString != 0
}

// parseFormat: literal segments and verbs of a fmt format (no width/precision stars, no indexes).
func parseFormat(f string) (lits []string, verbs []byte, ok bool) {
	cur := ""
	for i := 0; i < len(f); i++ {
		if f[i] != '%' {
			cur += string(f[i])
			continue
		}
		i++
		if i >= len(f) {
			return nil, nil, false
		}
		if f[i] == '%' {
			cur += "%"
			continue
		}
		if strings.IndexByte("+-# 0123456789.*[", f[i]) >= 0 {
			return nil, nil, false // flags change the text (padding): not modelled
		}
		lits = append(lits, cur)
		cur = ""
		verbs = append(verbs, f[i])
	}
	lits = append(lits, cur)
	return lits, verbs, true
}

func (e *Eval) onStack(v any) bool {
	for _, s := range e.stack {
		if s == v {
			return true
		}
	}
	return false
}

func isLoopHeaderPhi(p *ssa.Phi) bool { return isLoopHeader(p.Block()) }

func isLoopHeader(b *ssa.BasicBlock) bool {
	for _, pr := range b.Preds {
		if b.Dominates(pr) {
			return true
		}
	}
	return false
}

// LoopOf recognises the counted loop whose header is b.
func (e *Eval) LoopOf(b *ssa.BasicBlock) (*Loop, error) {
	if l, ok := e.loops[b]; ok {
		if l == nil {
			return nil, fmt.Errorf("loop at block %d is not a counted loop", b.Index)
		}
		return l, nil
	}
	e.loops[b] = nil
	iff, ok := b.Instrs[len(b.Instrs)-1].(*ssa.If)
	if !ok {
		return nil, fmt.Errorf("loop header (block %d) does not end in a test", b.Index)
	}
	cmp, ok := iff.Cond.(*ssa.BinOp)
	if !ok {
		return nil, fmt.Errorf("loop test is not a comparison")
	}
	l := &Loop{Header: b, Op: cmp.Op, Bound: cmp.Y, Counter: cmp.X}
	// the true branch must stay in the loop and the false branch must leave it
	body := naturalLoop(b)
	if !body[b.Succs[0]] || body[b.Succs[1]] {
		return nil, fmt.Errorf("loop test does not continue on its true branch and exit on its false branch")
	}
	var phi *ssa.Phi
	switch x := cmp.X.(type) {
	case *ssa.Phi:
		phi = x
	case *ssa.BinOp:
		if p, ok := x.X.(*ssa.Phi); ok && x.Op == token.ADD {
			if k, ok := constInt(x.Y); ok && k == 1 {
				phi, l.Range = p, true
			}
		}
	}
	if phi == nil || phi.Block() != b {
		return nil, fmt.Errorf("loop test does not compare an induction variable of the loop")
	}
	l.Index = phi
	startSet := false
	for i, edge := range phi.Edges {
		pred := b.Preds[i]
		if b.Dominates(pred) { // back edge: must be index+1
			var inc ssa.Value = edge
			if l.Range {
				if inc != cmp.X {
					return nil, fmt.Errorf("range index is not advanced by one")
				}
				continue
			}
			bo, ok := inc.(*ssa.BinOp)
			if !ok || bo.Op != token.ADD || bo.X != ssa.Value(phi) {
				return nil, fmt.Errorf("induction variable is not advanced by a constant")
			}
			if k, ok := constInt(bo.Y); !ok || k != 1 {
				return nil, fmt.Errorf("induction variable step is not 1")
			}
			continue
		}
		k, ok := constInt(edge)
		if !ok || (startSet && k != l.Start) {
			return nil, fmt.Errorf("induction variable does not start at a constant")
		}
		l.Start, startSet = k, true
	}
	if !startSet {
		return nil, fmt.Errorf("induction variable has no initial value")
	}
	if l.Range && l.Start != -1 {
		return nil, fmt.Errorf("unexpected range-loop lowering")
	}
	if l.Op != token.LSS && l.Op != token.LEQ {
		return nil, fmt.Errorf("loop test %s is not modelled", l.Op)
	}
	e.loops[b] = l
	return l, nil
}

// LoopBlocks: the blocks of the natural loop(s) with header h.
func LoopBlocks(h *ssa.BasicBlock) map[*ssa.BasicBlock]bool { return naturalLoop(h) }

// naturalLoop: the blocks of the natural loop(s) with header h.
func naturalLoop(h *ssa.BasicBlock) map[*ssa.BasicBlock]bool {
	body := map[*ssa.BasicBlock]bool{h: true}
	var work []*ssa.BasicBlock
	for _, p := range h.Preds {
		if h.Dominates(p) && !body[p] {
			body[p] = true
			work = append(work, p)
		}
	}
	for len(work) > 0 {
		b := work[len(work)-1]
		work = work[:len(work)-1]
		for _, p := range b.Preds {
			if !body[p] {
				body[p] = true
				work = append(work, p)
			}
		}
	}
	return body
}

// filterFor finds the branch inside the loop that decides whether the back
// edge from pred carries an appended element.
func (e *Eval) filterFor(header, pred *ssa.BasicBlock) *Filter {
	for b := pred; b != nil && b != header; {
		d := b.Idom()
		if d == nil {
			return nil
		}
		if iff, ok := d.Instrs[len(d.Instrs)-1].(*ssa.If); ok && len(d.Succs) == 2 && d != header && !isLoopHeader(d) && !e.yieldIf[d] {
			// a successor "owns" pred when the edge d→succ is the only way into succ and succ dominates pred
			owns := func(s *ssa.BasicBlock) bool { return s != header && len(s.Preds) == 1 && s.Dominates(pred) }
			t, f := owns(d.Succs[0]), owns(d.Succs[1])
			if t != f {
				return &Filter{Cond: iff.Cond, Truth: t}
			}
		}
		b = d
	}
	return nil
}

// acc evaluates a loop-carried or merged accumulator identified by key (an
// *ssa.Phi, or a bufKey for a buffer) at the head of blk; edge(i) is the
// accumulator's value on the edge from blk.Preds[i].
func (e *Eval) acc(key any, blk *ssa.BasicBlock, edge func(i int) ([]Item, error)) ([]Item, error) {
	if e.onStack(key) {
		return []Item{{Kind: Self, Acc: key}}, nil
	}
	if err := e.step(); err != nil {
		return nil, err
	}
	if len(e.stack) > 40 {
		return nil, fmt.Errorf("template too deep")
	}
	e.visited[key] = true
	if !isLoopHeader(blk) {
		return e.merge(blk, edge)
	}
	loop, err := e.LoopOf(blk)
	if err != nil {
		return nil, err
	}
	e.stack = append(e.stack, key)
	defer func() { e.stack = e.stack[:len(e.stack)-1] }()
	var init []Item
	var rep *Item
	initSet := false
	nExt, nPlain := 0, 0 // back edges that extend the accumulator / leave it as it is
	for i, pred := range blk.Preds {
		if e.deadEdge(pred, blk) {
			continue
		}
		items, err := edge(i)
		if err != nil {
			return nil, err
		}
		if !blk.Dominates(pred) {
			if initSet && !sameItems(init, items) {
				return nil, fmt.Errorf("accumulator has several initial values")
			}
			for _, it := range items {
				if it.Kind == Self && it.Acc == key {
					return nil, fmt.Errorf("accumulator initialised from itself")
				}
			}
			init, initSet = items, true
			continue
		}
		if len(items) == 1 && items[0].Kind == Self && items[0].Acc == key {
			nPlain++
			continue // iteration that appends nothing
		}
		if len(items) < 2 || items[0].Kind != Self || items[0].Acc != key {
			return nil, fmt.Errorf("accumulator is not extended at its end (acc = acc + …)")
		}
		for _, it := range items[1:] {
			if it.Kind == Self {
				return nil, fmt.Errorf("accumulator used twice in one iteration")
			}
		}
		nExt++
		if rep != nil {
			if !sameItems(rep.Body, items[1:]) {
				return nil, fmt.Errorf("accumulator extended in different ways on different paths")
			}
			continue
		}
		rep = &Item{Kind: Rep, Loop: loop, Body: items[1:], Cond: e.filterFor(blk, pred), Acc: key}
	}
	if nExt > 1 {
		// the same extension on several paths of the iteration
		if nPlain > 0 {
			return nil, fmt.Errorf("accumulator extended in the same way on some of several paths")
		}
		rep.Cond = nil // … on all of them: every iteration extends it
	}
	out := append([]Item(nil), init...)
	if rep != nil {
		out = append(out, *rep)
	}
	return out, nil
}

// formatItems: the template of fmt.Sprintf(format, vals...).
func (e *Eval) formatItems(fv, argv ssa.Value) ([]Item, error) {
	f, ok := constString(fv)
	if !ok {
		return nil, fmt.Errorf("format is not a constant")
	}
	vals, ok := Varargs(argv)
	if !ok {
		return nil, fmt.Errorf("format arguments are not a plain list")
	}
	lits, verbs, ok := parseFormat(f)
	if !ok || len(verbs) != len(vals) {
		return nil, fmt.Errorf("format %q uses flags or does not match its arguments", f)
	}
	var out []Item
	for i, vb := range verbs {
		if lits[i] != "" {
			out = append(out, Item{Kind: Lit, Lit: lits[i]})
		}
		a := peelIface(vals[i])
		if (vb == 's' || vb == 'v') && isString(a.Type()) {
			sub, err := e.String(a)
			if err != nil {
				return nil, err
			}
			out = append(out, sub...)
			continue
		}
		out = append(out, Item{Kind: Val, Val: a, Verb: vb})
	}
	if l := lits[len(verbs)]; l != "" {
		out = append(out, Item{Kind: Lit, Lit: l})
	}
	return out, nil
}

// nested: items is exactly one repetition, possibly of one repetition, …;
// returns the chain of repetitions (outermost first) and the innermost body.
func nested(items []Item) (chain []Item, body []Item, ok bool) {
	for len(items) == 1 && items[0].Kind == Rep {
		chain = append(chain, items[0])
		items = items[0].Body
	}
	return chain, items, len(chain) > 0
}

// joinOf builds join(sep; chain … [elem]).
func joinOf(sep string, chain []Item, elem []Item, assume string) Item {
	part := Part{Elem: elem}
	for i := len(chain) - 1; i >= 0; i-- {
		part = Part{Loop: chain[i].Loop, Cond: chain[i].Cond, Body: []Part{part}}
	}
	return Item{Kind: Join, Sep: sep, Parts: []Part{part}, Assume: assume}
}

func hasKind(items []Item, k ...Kind) bool {
	for _, it := range items {
		for _, kk := range k {
			if it.Kind == kk {
				return true
			}
		}
	}
	return false
}

// receiverBuffer: cc is a call of method name… on a local strings.Builder / bytes.Buffer.
func bufferMethod(cc *ssa.CallCommon) (ssa.Value, string) {
	fn := cc.StaticCallee()
	if fn == nil || fn.Signature.Recv() == nil || len(cc.Args) == 0 || !isTextBuffer(fn.Signature.Recv().Type()) {
		return nil, ""
	}
	switch c := cc.Args[0].(type) {
	case *ssa.Alloc:
		return c, fn.Name()
	case *ssa.FreeVar: // the buffer of an enclosing function, seen from inside a closure
		return c, fn.Name()
	}
	return nil, ""
}

// String evaluates a string-typed value to its template.
func (e *Eval) String(v ssa.Value) ([]Item, error) {
	if e.onStack(v) {
		return []Item{{Kind: Self, Val: v, Acc: v}}, nil
	}
	if err := e.step(); err != nil {
		return nil, err
	}
	if len(e.stack) > 40 {
		return nil, fmt.Errorf("template too deep")
	}
	if s, ok := constString(v); ok {
		if s == "" {
			return nil, nil
		}
		return []Item{{Kind: Lit, Lit: s}}, nil
	}
	switch x := v.(type) {
	case *ssa.Parameter:
		if b, ok := e.bind[x]; ok {
			return e.String(b)
		}
	case *ssa.UnOp:
		if cell, k := cellLoad(x); k == cellText {
			return e.bufferAt(cell, x) // a string variable captured by a closure: what was assigned to it so far
		}
	case *ssa.ChangeType:
		if isString(x.X.Type()) {
			return e.String(x.X)
		}
	case *ssa.Convert:
		if isByteSlice(x.X.Type()) {
			return e.Bytes(x.X)
		}
		if isString(x.X.Type()) {
			return e.String(x.X)
		}
		if k, ok := constInt(x.X); ok && k >= 0 && k < 0x80 { // string(rune constant)
			return []Item{{Kind: Lit, Lit: string(rune(k))}}, nil
		}
	case *ssa.BinOp:
		if x.Op == token.ADD {
			a, err := e.String(x.X)
			if err != nil {
				return nil, err
			}
			b, err := e.String(x.Y)
			if err != nil {
				return nil, err
			}
			return append(append([]Item(nil), a...), b...), nil
		}
	case *ssa.Call:
		if al, name := bufferMethod(x.Common()); al != nil && name == "String" {
			return e.bufferAt(al, x)
		}
		if main, done, ok := e.helperReturn(x); ok {
			defer done()
			return e.String(main)
		}
		pkg, name := callee(x.Common())
		args := x.Common().Args
		switch {
		case pkg == "fmt" && name == "Sprintf":
			return e.formatItems(args[0], args[1])
		case pkg == "fmt" && name == "Sprint":
			vals, ok := Varargs(args[0])
			if !ok || len(vals) != 1 {
				return nil, fmt.Errorf("Sprint of several operands is not modelled")
			}
			a := peelIface(vals[0])
			if isString(a.Type()) {
				return e.String(a)
			}
			return []Item{{Kind: Val, Val: a, Verb: 'd'}}, nil
		case pkg == "strconv" && name == "Itoa":
			return []Item{{Kind: Val, Val: args[0], Verb: 'd'}}, nil
		case pkg == "strconv" && (name == "FormatInt" || name == "FormatUint"):
			if b, ok := constInt(args[1]); ok {
				if vb, known := baseVerb[b]; known {
					return []Item{{Kind: Val, Val: args[0], Verb: vb}}, nil
				}
			}
			return nil, fmt.Errorf("strconv.%s with a base that is not the constant 2, 8, 10 or 16", name)
		case pkg == "strings" && name == "Join":
			sep, ok := constString(args[1])
			if !ok {
				return nil, fmt.Errorf("Join separator is not a constant")
			}
			parts, err := e.List(args[0])
			if err != nil {
				return nil, err
			}
			return []Item{{Kind: Join, Sep: sep, Parts: parts}}, nil
		case pkg == "strings" && (name == "TrimSuffix" || name == "TrimPrefix"):
			fix, ok := constString(args[1])
			if !ok {
				return nil, fmt.Errorf("%s argument is not a constant", name)
			}
			in, err := e.String(args[0])
			if err != nil {
				return nil, err
			}
			// "" + (elem + sep)* with the last sep removed, or "" + (sep + elem)* with the
			// first sep removed, is Join(elems, sep) — for every element, empty ones included
			if chain, body, ok := nested(in); ok && len(body) >= 2 && !hasKind(body, Self, Opt, Rep) {
				// The end that is trimmed may also be a printed VALUE: then no literal of
				// the template is removed (the trim can only bite into that value) and the
				// text keeps the separator it writes at the other end of every element —
				// the template is returned as it is, for the client to judge.
				if name == "TrimSuffix" {
					last := body[len(body)-1]
					if last.Kind == Lit && last.Lit == fix && !templateMayEndWith(body[:len(body)-1], fix) {
						return []Item{joinOf(fix, chain, body[:len(body)-1], "")}, nil
					}
					if last.Kind == Val && body[0].Kind == Lit {
						return in, nil
					}
				} else {
					first := body[0]
					if first.Kind == Lit && first.Lit == fix {
						return []Item{joinOf(fix, chain, body[1:], "")}, nil
					}
					if first.Kind == Val && body[len(body)-1].Kind == Lit {
						return in, nil
					}
				}
			}
			if !hasKind(in, Rep, Join, Opt, Self) {
				break // trimming of a plain value: the result is an opaque piece of text
			}
			return nil, fmt.Errorf("%s of a text that is not a plain `(element, %q)*` accumulation", name, fix)
		}
	case *ssa.Phi:
		return e.acc(x, x.Block(), func(i int) ([]Item, error) { return e.String(x.Edges[i]) })
	}
	if isString(v.Type()) {
		return []Item{{Kind: Val, Val: v, Verb: 's'}}, nil
	}
	return nil, fmt.Errorf("value of type %s is not text", v.Type())
}

// baseVerb: the fmt verb that prints an integer like strconv.Format*/Append* in that base.
var baseVerb = map[int64]byte{2: 'b', 8: 'o', 10: 'd', 16: 'x'}

func templateMayEndWith(items []Item, suf string) bool {
	if len(items) == 0 {
		return false
	}
	last := items[len(items)-1]
	return last.Kind == Lit && strings.HasSuffix(last.Lit, suf)
}

// List evaluates a []string value to the sources of its elements, in order.
func (e *Eval) List(v ssa.Value) ([]Part, error) {
	if e.onStack(v) {
		return []Part{{self: true, Elem: []Item{{Kind: Self, Val: v, Acc: v}}}}, nil
	}
	if len(e.stack) > 40 {
		return nil, fmt.Errorf("list too deep")
	}
	switch x := v.(type) {
	case *ssa.Parameter:
		if b, ok := e.bind[x]; ok {
			return e.List(b)
		}
	case *ssa.UnOp:
		if cell, k := cellLoad(x); k == cellList {
			items, err := e.bufferAt(cell, x)
			if err != nil {
				return nil, err
			}
			return toParts(items)
		}
	case *ssa.Const:
		if x.Value == nil {
			return nil, nil
		}
	case *ssa.MakeSlice:
		if n, ok := constInt(x.Len); ok && n == 0 {
			return nil, nil
		}
		return nil, fmt.Errorf("slice made with a non-zero length")
	case *ssa.Slice:
		// t[:0] of a fresh zero-length array, or t[:] of a literal array
		if al, ok := x.X.(*ssa.Alloc); ok {
			if pt, ok := al.Type().Underlying().(*types.Pointer); ok {
				if at, ok := pt.Elem().Underlying().(*types.Array); ok {
					if at.Len() == 0 {
						return nil, nil
					}
					if x.Low == nil && x.High != nil { // make([]string, 0, constant) is lowered to new [n]string + [:0]
						if n, ok := constInt(x.High); ok && n == 0 {
							return nil, nil
						}
					}
					if x.Low == nil && x.High == nil {
						vals, ok := Varargs(x)
						if !ok {
							return nil, fmt.Errorf("slice literal is not a plain list")
						}
						var out []Part
						for _, el := range vals {
							it, err := e.String(el)
							if err != nil {
								return nil, err
							}
							out = append(out, Part{Elem: it})
						}
						return out, nil
					}
				}
			}
		}
	case *ssa.Call:
		if main, done, ok := e.helperReturn(x); ok {
			defer done()
			return e.List(main)
		}
		if pkg, name := callee(x.Common()); pkg == "slices" && (name == "Collect" || name == "AppendSeq") {
			// the elements an in-module iterator hands out, in order
			var base []Part
			seq := x.Common().Args[0]
			if name == "AppendSeq" {
				var err error
				if base, err = e.List(x.Common().Args[0]); err != nil {
					return nil, err
				}
				seq = x.Common().Args[1]
			}
			items, err := e.collected(seq)
			if err != nil {
				return nil, err
			}
			parts, err := toParts(items)
			if err != nil {
				return nil, err
			}
			return append(base, parts...), nil
		}
		if _, name := callee(x.Common()); name == "append" && len(x.Common().Args) == 2 {
			base, err := e.List(x.Common().Args[0])
			if err != nil {
				return nil, err
			}
			if k, ok := x.Common().Args[1].(*ssa.Const); ok && k.Value == nil {
				return base, nil
			}
			if sl, ok := x.Common().Args[1].(*ssa.Slice); ok {
				if _, isAlloc := sl.X.(*ssa.Alloc); isAlloc && sl.Low == nil && sl.High == nil {
					vals, ok := Varargs(sl)
					if !ok {
						return nil, fmt.Errorf("appended elements are not a plain list")
					}
					for _, el := range vals {
						it, err := e.String(el)
						if err != nil {
							return nil, err
						}
						base = append(base, Part{Elem: it})
					}
					return base, nil
				}
			}
			// append(a, b...) of another list
			tail, err := e.List(x.Common().Args[1])
			if err != nil {
				return nil, err
			}
			return append(base, tail...), nil
		}
	case *ssa.Phi:
		if !isLoopHeaderPhi(x) {
			return e.mergeList(x)
		}
		loop, err := e.LoopOf(x.Block())
		if err != nil {
			return nil, err
		}
		e.stack = append(e.stack, x)
		defer func() { e.stack = e.stack[:len(e.stack)-1] }()
		var init []Part
		var rep *Part
		initSet := false
		for i, edge := range x.Edges {
			pred := x.Block().Preds[i]
			parts, err := e.List(edge)
			if err != nil {
				return nil, err
			}
			if !x.Block().Dominates(pred) {
				if initSet {
					return nil, fmt.Errorf("list has several initial values")
				}
				init, initSet = parts, true
				continue
			}
			if len(parts) == 1 && parts[0].self && parts[0].Elem[0].Val == ssa.Value(x) {
				continue
			}
			if len(parts) < 2 || !parts[0].self || parts[0].Elem[0].Val != ssa.Value(x) {
				return nil, fmt.Errorf("list is not extended at its end (s = append(s, …))")
			}
			for _, pt := range parts[1:] {
				if pt.self {
					return nil, fmt.Errorf("list used twice in one iteration")
				}
			}
			if rep != nil {
				return nil, fmt.Errorf("list extended in different ways on different paths")
			}
			rep = &Part{Loop: loop, Body: parts[1:], Cond: e.filterFor(x.Block(), pred)}
		}
		out := append([]Part(nil), init...)
		if rep != nil {
			out = append(out, *rep)
		}
		return out, nil
	}
	return nil, fmt.Errorf("list of shape %T is not modelled", v)
}

// ---------------------------------------------------------------------------
// Instantiation

// Tok is one token of an instantiated template.
type Tok struct {
	Lit  string
	Val  ssa.Value // nil for literals
	Verb byte
	Iter map[*Loop]int // iteration number of every enclosing loop
}

// Env tells how many times each loop runs (given the iterations of the enclosing loops).
type Env struct {
	Trip func(l *Loop, outer map[*Loop]int) (int, error)
}

func cloneIter(m map[*Loop]int) map[*Loop]int {
	out := map[*Loop]int{}
	for k, v := range m {
		out[k] = v
	}
	return out
}

func (env *Env) Items(items []Item, iter map[*Loop]int) ([]Tok, error) {
	var out []Tok
	for _, it := range items {
		switch it.Kind {
		case Lit:
			out = append(out, Tok{Lit: it.Lit})
		case Val:
			out = append(out, Tok{Val: it.Val, Verb: it.Verb, Iter: cloneIter(iter)})
		case Opt:
			sub, err := env.Items(it.Body, iter)
			if err != nil {
				return nil, err
			}
			out = append(out, sub...)
		case Rep:
			n, err := env.Trip(it.Loop, iter)
			if err != nil {
				return nil, err
			}
			for k := 0; k < n; k++ {
				in := cloneIter(iter)
				in[it.Loop] = k
				sub, err := env.Items(it.Body, in)
				if err != nil {
					return nil, err
				}
				out = append(out, sub...)
			}
		case Join:
			elems, err := env.parts(it.Parts, iter)
			if err != nil {
				return nil, err
			}
			for i, el := range elems {
				if i > 0 && it.Sep != "" {
					out = append(out, Tok{Lit: it.Sep})
				}
				out = append(out, el...)
			}
		default:
			return nil, fmt.Errorf("unresolved accumulator in template")
		}
	}
	return out, nil
}

func (env *Env) parts(parts []Part, iter map[*Loop]int) ([][]Tok, error) {
	var out [][]Tok
	for _, p := range parts {
		if p.Loop == nil {
			t, err := env.Items(p.Elem, iter)
			if err != nil {
				return nil, err
			}
			out = append(out, t)
			continue
		}
		n, err := env.Trip(p.Loop, iter)
		if err != nil {
			return nil, err
		}
		for k := 0; k < n; k++ {
			in := cloneIter(iter)
			in[p.Loop] = k
			sub, err := env.parts(p.Body, in)
			if err != nil {
				return nil, err
			}
			out = append(out, sub...)
		}
	}
	return out, nil
}

// Merge joins adjacent literal tokens.
func Merge(toks []Tok) []Tok {
	var out []Tok
	for _, t := range toks {
		if t.Val == nil && len(out) > 0 && out[len(out)-1].Val == nil {
			out[len(out)-1].Lit += t.Lit
			continue
		}
		out = append(out, t)
	}
	return out
}

// Render shows a token list with values as %verb.
func Render(toks []Tok) string {
	var sb strings.Builder
	for _, t := range toks {
		if t.Val == nil {
			sb.WriteString(t.Lit)
		} else {
			sb.WriteString("%" + string(t.Verb))
		}
	}
	return sb.String()
}

// Flat reports whether a template shows no construction at all — no
// repetition, no join, no optional part: literals and values whose origin was
// not read (the result of a call that was not entered, a map lookup, …). A
// client that expects a repetition has then not SEEN how the text is built.
func Flat(items []Item) bool { return !hasKind(items, Rep, Join, Opt) }

// Describe renders a template (diagnostics).
func Describe(items []Item) string {
	var sb strings.Builder
	for _, it := range items {
		switch it.Kind {
		case Lit:
			fmt.Fprintf(&sb, "%q ", it.Lit)
		case Val:
			fmt.Fprintf(&sb, "%%%c ", it.Verb)
		case Rep:
			c := ""
			if it.Cond != nil {
				c = "?"
			}
			fmt.Fprintf(&sb, "(%s)*%s ", strings.TrimSpace(Describe(it.Body)), c)
		case Join:
			fmt.Fprintf(&sb, "join(%q; %s) ", it.Sep, describeParts(it.Parts))
		case Opt:
			fmt.Fprintf(&sb, "[%s]? ", strings.TrimSpace(Describe(it.Body)))
		case Self:
			sb.WriteString("<acc> ")
		case Tick:
			sb.WriteString("+1 ")
		case Emit:
			sb.WriteString("<yield> ")
		case Elem:
			fmt.Fprintf(&sb, "[%s] ", strings.TrimSpace(Describe(it.Body)))
		}
	}
	return strings.TrimSpace(sb.String())
}

func describeParts(ps []Part) string {
	var out []string
	for _, p := range ps {
		if p.Loop == nil {
			q := ""
			if p.Cond != nil {
				q = "?"
			}
			out = append(out, "["+Describe(p.Elem)+"]"+q)
			continue
		}
		c := ""
		if p.Cond != nil {
			c = "?"
		}
		out = append(out, "("+describeParts(p.Body)+")*"+c)
	}
	return strings.Join(out, ", ")
}
