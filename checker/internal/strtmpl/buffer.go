package strtmpl

import (
	"fmt"
	"go/token"
	"go/types"

	"golang.org/x/tools/go/ssa"
)

// buffer.go — text assembled in byte buffers.
//
//   - []byte VALUES (make([]byte, 0, n), append(b, 'x', …), append(b, s...),
//     strconv.AppendInt/AppendUint, fmt.Appendf, string(b)): plain SSA values,
//     evaluated like strings.
//   - strings.Builder / bytes.Buffer OBJECTS: the buffer is a local cell, its
//     content at a program point depends on the writes executed before. The
//     cell is put into SSA form on the fly: a virtual φ is placed at the
//     iterated dominance frontier of the blocks that write to it; elsewhere the
//     content at the head of a block is the content at the end of its immediate
//     dominator. Virtual φs are then evaluated by the same code as the φs of a
//     string accumulator (Eval.acc), so `for … { sb.WriteString(x) }` and
//     `for … { s += x }` have the same template.
//   - the separator idiom `if n > 0 { write(sep) }; write(elem); n++` is
//     rewritten to a Join by Eval.Joinify once the counter is shown to count
//     exactly the elements written so far.

func isByteSlice(t types.Type) bool {
	s, ok := t.Underlying().(*types.Slice)
	if !ok {
		return false
	}
	b, ok := s.Elem().Underlying().(*types.Basic)
	return ok && b.Kind() == types.Uint8
}

func isTextBuffer(t types.Type) bool {
	if p, ok := t.Underlying().(*types.Pointer); ok {
		t = p.Elem()
	}
	n, ok := types.Unalias(t).(*types.Named)
	if !ok || n.Obj().Pkg() == nil {
		return false
	}
	q := n.Obj().Pkg().Path() + "." + n.Obj().Name()
	return q == "strings.Builder" || q == "bytes.Buffer"
}

// byteItems: the bytes listed in append(b, c1, c2, …).
func (e *Eval) byteItems(vals []ssa.Value) ([]Item, error) {
	lit := ""
	for _, v := range vals {
		k, ok := constInt(v)
		if !ok || k < 0 || k > 0xFF {
			return nil, fmt.Errorf("an appended byte is not a constant")
		}
		lit += string([]byte{byte(k)})
	}
	if lit == "" {
		return nil, nil
	}
	return []Item{{Kind: Lit, Lit: lit}}, nil
}

// Bytes evaluates a []byte-typed value that holds text to its template.
func (e *Eval) Bytes(v ssa.Value) ([]Item, error) {
	if e.onStack(v) {
		return []Item{{Kind: Self, Val: v, Acc: v}}, nil
	}
	if err := e.step(); err != nil {
		return nil, err
	}
	if len(e.stack) > 40 {
		return nil, fmt.Errorf("template too deep")
	}
	switch x := v.(type) {
	case *ssa.Parameter:
		if b, ok := e.bind[x]; ok {
			return e.Bytes(b)
		}
	case *ssa.Const:
		if x.Value == nil {
			return nil, nil
		}
	case *ssa.MakeSlice:
		if n, ok := constInt(x.Len); ok && n == 0 {
			return nil, nil
		}
		return nil, fmt.Errorf("byte buffer made with a non-zero length (content written by index is not modelled)")
	case *ssa.Slice:
		// b[:0] — the buffer emptied; t[:0] of a fresh array
		if x.Low == nil && x.High != nil {
			if n, ok := constInt(x.High); ok && n == 0 {
				return nil, nil
			}
		}
		if x.Low == nil && x.High == nil && x.Max == nil && isByteSlice(x.X.Type()) {
			return e.Bytes(x.X)
		}
	case *ssa.ChangeType:
		if isByteSlice(x.X.Type()) {
			return e.Bytes(x.X)
		}
	case *ssa.Convert:
		if isString(x.X.Type()) {
			return e.String(x.X)
		}
		if isByteSlice(x.X.Type()) {
			return e.Bytes(x.X)
		}
	case *ssa.Phi:
		return e.acc(x, x.Block(), func(i int) ([]Item, error) { return e.Bytes(x.Edges[i]) })
	case *ssa.Call:
		cc := x.Common()
		if al, name := bufferMethod(cc); al != nil && name == "Bytes" {
			return e.bufferAt(al, x)
		}
		if main, done, ok := e.helperReturn(x); ok {
			defer done()
			return e.Bytes(main)
		}
		pkg, name := callee(cc)
		args := cc.Args
		switch {
		case pkg == "" && name == "append" && len(args) == 2:
			base, err := e.Bytes(args[0])
			if err != nil {
				return nil, err
			}
			var tail []Item
			switch a := args[1].(type) {
			case *ssa.Const:
				if a.Value != nil {
					tail, err = e.String(a) // append(b, "literal"...)
				}
			case *ssa.Slice:
				if _, isAlloc := a.X.(*ssa.Alloc); isAlloc && a.Low == nil && a.High == nil {
					vals, ok := Varargs(a)
					if !ok {
						return nil, fmt.Errorf("appended bytes are not a plain list")
					}
					tail, err = e.byteItems(vals)
				} else {
					tail, err = e.Bytes(a)
				}
			default:
				if isString(a.Type()) {
					tail, err = e.String(a)
				} else {
					tail, err = e.Bytes(a)
				}
			}
			if err != nil {
				return nil, err
			}
			return append(append([]Item(nil), base...), tail...), nil
		case pkg == "strconv" && (name == "AppendInt" || name == "AppendUint"):
			if b, ok := constInt(args[2]); !ok || b != 10 {
				return nil, fmt.Errorf("strconv.%s with a base other than 10", name)
			}
			base, err := e.Bytes(args[0])
			if err != nil {
				return nil, err
			}
			return append(append([]Item(nil), base...), Item{Kind: Val, Val: args[1], Verb: 'd'}), nil
		case pkg == "fmt" && name == "Appendf":
			base, err := e.Bytes(args[0])
			if err != nil {
				return nil, err
			}
			tail, err := e.formatItems(args[1], args[2])
			if err != nil {
				return nil, err
			}
			return append(append([]Item(nil), base...), tail...), nil
		case (pkg == "bytes" || pkg == "slices") && name == "Clone":
			return e.Bytes(args[0])
		}
	}
	return nil, fmt.Errorf("byte buffer of shape %T is not modelled", v)
}

// ---------------------------------------------------------------------------
// strings.Builder / bytes.Buffer

type bufKey struct {
	alloc *ssa.Alloc
	blk   *ssa.BasicBlock
}

type bufInfo struct {
	alloc  *ssa.Alloc
	writes map[*ssa.BasicBlock][]ssa.Instruction // in block order
	isW    map[ssa.Instruction]bool
	phi    map[*ssa.BasicBlock]bool
	err    error
}

func (e *Eval) frontier(fn *ssa.Function) map[*ssa.BasicBlock][]*ssa.BasicBlock {
	if df, ok := e.df[fn]; ok {
		return df
	}
	df := map[*ssa.BasicBlock][]*ssa.BasicBlock{}
	for _, b := range fn.Blocks {
		if len(b.Preds) < 2 {
			continue
		}
		for _, p := range b.Preds {
			for r := p; r != nil && r != b.Idom(); r = r.Idom() {
				dup := false
				for _, q := range df[r] {
					if q == b {
						dup = true
					}
				}
				if !dup {
					df[r] = append(df[r], b)
				}
			}
		}
	}
	e.df[fn] = df
	return df
}

func (e *Eval) bufOf(a *ssa.Alloc) *bufInfo {
	if bi, ok := e.bufs[a]; ok {
		return bi
	}
	bi := &bufInfo{alloc: a, writes: map[*ssa.BasicBlock][]ssa.Instruction{}, isW: map[ssa.Instruction]bool{}, phi: map[*ssa.BasicBlock]bool{}}
	e.bufs[a] = bi
	if a.Referrers() == nil {
		return bi
	}
	fail := func(f string, args ...any) {
		if bi.err == nil {
			bi.err = fmt.Errorf(f, args...)
		}
	}
	for _, r := range *a.Referrers() {
		switch x := r.(type) {
		case *ssa.DebugRef:
		case *ssa.Store:
			// `sb := strings.Builder{}`: a store of the zero value into the fresh cell
			if k, ok := x.Val.(*ssa.Const); ok && k.Value == nil && x.Addr == ssa.Value(a) {
				continue
			}
			fail("the buffer is overwritten as a whole")
		case *ssa.Call:
			al, name := bufferMethod(x.Common())
			if al != a {
				fail("the buffer is passed to %s", x.Common().Value.Name())
				continue
			}
			switch name {
			case "WriteString", "WriteByte", "WriteRune", "Write":
				bi.isW[x] = true
			case "String", "Bytes", "Len", "Cap", "Grow":
			default:
				fail("buffer method %s is not modelled", name)
			}
		case *ssa.MakeInterface:
			if x.Referrers() == nil {
				continue
			}
			for _, rr := range *x.Referrers() {
				switch y := rr.(type) {
				case *ssa.DebugRef:
				case *ssa.Call:
					pkg, name := callee(y.Common())
					if pkg == "fmt" && name == "Fprintf" && len(y.Common().Args) == 3 && y.Common().Args[0] == ssa.Value(x) {
						bi.isW[y] = true
						continue
					}
					fail("the buffer is handed to %s.%s as an interface", pkg, name)
				default:
					fail("the buffer escapes as an interface value")
				}
			}
		default:
			fail("the buffer's address is used by %T", r)
		}
	}
	// writes per block, in order
	for _, b := range a.Parent().Blocks {
		for _, in := range b.Instrs {
			if bi.isW[in] {
				bi.writes[b] = append(bi.writes[b], in)
			}
		}
	}
	// φ placement: iterated dominance frontier of the writing blocks
	df := e.frontier(a.Parent())
	var work []*ssa.BasicBlock
	for b := range bi.writes {
		work = append(work, b)
	}
	for len(work) > 0 {
		b := work[len(work)-1]
		work = work[:len(work)-1]
		for _, f := range df[b] {
			if !bi.phi[f] {
				bi.phi[f] = true
				work = append(work, f)
			}
		}
	}
	return bi
}

// written: what one write instruction adds.
func (e *Eval) written(in ssa.Instruction) ([]Item, error) {
	call := in.(*ssa.Call)
	cc := call.Common()
	if _, name := bufferMethod(cc); name != "" {
		switch name {
		case "WriteString":
			return e.String(cc.Args[1])
		case "Write":
			return e.Bytes(cc.Args[1])
		case "WriteByte", "WriteRune":
			k, ok := constInt(cc.Args[1])
			if !ok || k < 0 || k >= 0x80 {
				return nil, fmt.Errorf("%s of a value that is not an ASCII constant", name)
			}
			return []Item{{Kind: Lit, Lit: string(rune(k))}}, nil
		}
	}
	return e.formatItems(cc.Args[1], cc.Args[2]) // fmt.Fprintf(&buf, format, args...)
}

// bufferAt: the content of the buffer just before instruction at.
func (e *Eval) bufferAt(a *ssa.Alloc, at ssa.Instruction) ([]Item, error) {
	bi := e.bufOf(a)
	if bi.err != nil {
		return nil, bi.err
	}
	return e.bufExit(bi, at.Block(), at)
}

// bufExit: the content after the writes of b that precede upto (nil: all of b's writes).
func (e *Eval) bufExit(bi *bufInfo, b *ssa.BasicBlock, upto ssa.Instruction) ([]Item, error) {
	if err := e.step(); err != nil {
		return nil, err
	}
	out, err := e.bufEntry(bi, b)
	if err != nil {
		return nil, err
	}
	out = append([]Item(nil), out...)
	if len(bi.writes[b]) == 0 {
		return out, nil
	}
	for _, in := range b.Instrs {
		if in == upto {
			break
		}
		if bi.isW[in] {
			w, err := e.written(in)
			if err != nil {
				return nil, err
			}
			out = append(out, w...)
		}
	}
	return out, nil
}

func (e *Eval) bufEntry(bi *bufInfo, b *ssa.BasicBlock) ([]Item, error) {
	ab := bi.alloc.Block()
	if b == ab {
		return nil, nil // nothing is written before the buffer exists
	}
	if !ab.Dominates(b) {
		return nil, fmt.Errorf("the buffer is declared inside a loop or branch that its content outlives")
	}
	if bi.phi[b] {
		return e.acc(bufKey{bi.alloc, b}, b, func(i int) ([]Item, error) { return e.bufExit(bi, b.Preds[i], nil) })
	}
	d := b.Idom()
	if d == nil {
		return nil, fmt.Errorf("block without a dominator")
	}
	return e.bufExit(bi, d, nil)
}

// ---------------------------------------------------------------------------
// separator idiom → Join

// count evaluates an integer that only ever grows by one to its template
// (Tick = one increment), with the same loop / merge structure as a text.
func (e *Eval) count(v ssa.Value) ([]Item, error) {
	if e.onStack(v) {
		return []Item{{Kind: Self, Val: v, Acc: v}}, nil
	}
	if err := e.step(); err != nil {
		return nil, err
	}
	switch x := v.(type) {
	case *ssa.Const:
		if k, ok := constInt(x); ok && k == 0 {
			return nil, nil
		}
		return nil, fmt.Errorf("counter does not start at 0")
	case *ssa.BinOp:
		if x.Op == token.ADD {
			if k, ok := constInt(x.Y); ok && k == 1 {
				base, err := e.count(x.X)
				if err != nil {
					return nil, err
				}
				return append(append([]Item(nil), base...), Item{Kind: Tick}), nil
			}
		}
	case *ssa.Phi:
		return e.acc(x, x.Block(), func(i int) ([]Item, error) { return e.count(x.Edges[i]) })
	}
	return nil, fmt.Errorf("counter of shape %T is not modelled", v)
}

// Joinify rewrites
//
//	( [sep]?(something was already written)  elem )*      to  join(sep; elem*)
//
// where the optional separator comes first in the iteration and its condition
// is `n > 0` for a counter n that is shown to be incremented exactly where an
// element is written (same loops, same filter), or `buffer.Len() > 0` /
// `acc != ""` on the text itself (then the rewrite holds when no element is
// empty, which is recorded in Item.Assume). When the idiom is present but its
// condition is of a kind this code does not interpret (a boolean flag, …), the
// join is returned with Assume = "?" + reason: the client must report NOT
// DECIDED. A counter that is interpreted and does NOT count the elements
// (evidence of a wrong separator) leaves the template unchanged.
func (e *Eval) Joinify(items []Item) []Item {
	chain, body, ok := nested(items)
	if !ok || len(body) < 2 || body[0].Kind != Opt || body[0].Cond == nil || len(body[0].Body) != 1 || body[0].Body[0].Kind != Lit {
		return items
	}
	elem := body[1:]
	if hasKind(elem, Opt, Self, Rep, Tick) {
		return items
	}
	sep := body[0].Body[0].Lit
	inner := chain[len(chain)-1]
	cond, truth := body[0].Cond.Cond, body[0].Cond.Truth
	for {
		u, ok := cond.(*ssa.UnOp)
		if !ok || u.Op != token.NOT {
			break
		}
		cond, truth = u.X, !truth
	}
	// the idiom is there, but whether its condition means "an element was already
	// written" is not decided by this code: say so instead of denying the join
	unknown := func(why string) []Item {
		return []Item{joinOf(sep, chain, elem, "?"+why)}
	}
	bo, ok := cond.(*ssa.BinOp)
	if !ok {
		if ph, isPhi := cond.(*ssa.Phi); isPhi && isLoopHeader(ph.Block()) {
			if b, isB := ph.Type().Underlying().(*types.Basic); isB && b.Kind() == types.Bool {
				return unknown("the separator is written under a loop-carried boolean flag")
			}
		}
		return items
	}
	// normalise to  x OP k
	x, op := bo.X, bo.Op
	var k int64
	isStr := false
	if s, okS := constString(bo.Y); okS && s == "" {
		isStr = true
	} else if s, okS := constString(bo.X); okS && s == "" {
		isStr, x = true, bo.Y
	} else if kk, okK := constInt(bo.Y); okK {
		k = kk
	} else if kk, okK := constInt(bo.X); okK {
		k, x = kk, bo.Y
		op = map[token.Token]token.Token{token.LSS: token.GTR, token.GTR: token.LSS, token.LEQ: token.GEQ, token.GEQ: token.LEQ, token.EQL: token.EQL, token.NEQ: token.NEQ}[op]
	} else {
		return items
	}
	// the separator is written exactly when x > 0 (x != "")
	positive := false
	switch {
	case isStr:
		positive = (op == token.NEQ && truth) || (op == token.EQL && !truth)
	case k == 0:
		positive = ((op == token.GTR || op == token.NEQ) && truth) || ((op == token.EQL || op == token.LEQ) && !truth)
	case k == 1:
		positive = (op == token.GEQ && truth) || (op == token.LSS && !truth)
	}
	if !positive {
		return items
	}
	nonEmpty := "no element is empty (the separator is written when the text so far is non-empty)"
	switch y := x.(type) {
	case *ssa.Phi:
		if isStr {
			if inner.Acc == any(y) {
				return []Item{joinOf(sep, chain, elem, nonEmpty)}
			}
			return items
		}
		if y.Block() != inner.Loop.Header {
			return items
		}
		// outermost member of the counter's family
		top := y
		for d := 0; d < len(chain)+1; d++ {
			var init ssa.Value
			n := 0
			for i, pr := range top.Block().Preds {
				if !top.Block().Dominates(pr) {
					init = top.Edges[i]
					n++
				}
			}
			q, isPhi := init.(*ssa.Phi)
			if n != 1 || !isPhi || !isLoopHeader(q.Block()) {
				break
			}
			top = q
		}
		saved := e.visited
		e.visited = map[any]bool{}
		ct, err := e.count(top)
		fam := e.visited
		e.visited = saved
		if err != nil {
			return unknown("the counter that drives the separator is not modelled: " + err.Error())
		}
		if !fam[any(y)] {
			return items
		}
		cchain, cbody, ok := nested(ct)
		if !ok || len(cchain) != len(chain) || len(cbody) != 1 || cbody[0].Kind != Tick {
			return items
		}
		for i := range chain {
			if cchain[i].Loop != chain[i].Loop || !sameFilter(cchain[i].Cond, chain[i].Cond) {
				return items
			}
		}
		return []Item{joinOf(sep, chain, elem, "")}
	case *ssa.Call:
		cc := y.Common()
		if al, name := bufferMethod(cc); al != nil && name == "Len" {
			if key, ok := inner.Acc.(bufKey); ok && key.alloc == al {
				return []Item{joinOf(sep, chain, elem, nonEmpty)}
			}
			return items
		}
		if _, name := callee(cc); name == "len" && len(cc.Args) == 1 {
			if p, ok := cc.Args[0].(*ssa.Phi); ok && inner.Acc == any(p) {
				return []Item{joinOf(sep, chain, elem, nonEmpty)}
			}
		}
	}
	return items
}
