package strtmpl

import (
	"fmt"
	"go/token"
	"go/types"

	"golang.org/x/tools/go/ssa"
)

// buffer.go — text assembled in byte buffers.
//
//   - []byte VALUES (make([]byte, 0, n), append(b, 'x', …), append(b, s...),
//     strconv.AppendInt/AppendUint, fmt.Appendf, string(b)): plain SSA values,
//     evaluated like strings.
//   - strings.Builder / bytes.Buffer OBJECTS: the buffer is a local cell, its
//     content at a program point depends on the writes executed before. The
//     cell is put into SSA form on the fly: a virtual φ is placed at the
//     iterated dominance frontier of the blocks that write to it; elsewhere the
//     content at the head of a block is the content at the end of its immediate
//     dominator. Virtual φs are then evaluated by the same code as the φs of a
//     string accumulator (Eval.acc), so `for … { sb.WriteString(x) }` and
//     `for … { s += x }` have the same template.
//   - the separator idiom `if n > 0 { write(sep) }; write(elem); n++` is
//     rewritten to a Join by Eval.Joinify once the counter is shown to count
//     exactly the elements written so far.

func isByteSlice(t types.Type) bool {
	s, ok := t.Underlying().(*types.Slice)
	if !ok {
		return false
	}
	b, ok := s.Elem().Underlying().(*types.Basic)
	return ok && b.Kind() == types.Uint8
}

func isTextBuffer(t types.Type) bool {
	if p, ok := t.Underlying().(*types.Pointer); ok {
		t = p.Elem()
	}
	n, ok := types.Unalias(t).(*types.Named)
	if !ok || n.Obj().Pkg() == nil {
		return false
	}
	q := n.Obj().Pkg().Path() + "." + n.Obj().Name()
	return q == "strings.Builder" || q == "bytes.Buffer"
}

// byteItems: the bytes listed in append(b, c1, c2, …).
func (e *Eval) byteItems(vals []ssa.Value) ([]Item, error) {
	lit := ""
	for _, v := range vals {
		k, ok := constInt(v)
		if !ok || k < 0 || k > 0xFF {
			return nil, fmt.Errorf("an appended byte is not a constant")
		}
		lit += string([]byte{byte(k)})
	}
	if lit == "" {
		return nil, nil
	}
	return []Item{{Kind: Lit, Lit: lit}}, nil
}

// Bytes evaluates a []byte-typed value that holds text to its template.
func (e *Eval) Bytes(v ssa.Value) ([]Item, error) {
	if e.onStack(v) {
		return []Item{{Kind: Self, Val: v, Acc: v}}, nil
	}
	if err := e.step(); err != nil {
		return nil, err
	}
	if len(e.stack) > 40 {
		return nil, fmt.Errorf("template too deep")
	}
	switch x := v.(type) {
	case *ssa.Parameter:
		if b, ok := e.bind[x]; ok {
			return e.Bytes(b)
		}
	case *ssa.Const:
		if x.Value == nil {
			return nil, nil
		}
	case *ssa.MakeSlice:
		if n, ok := constInt(x.Len); ok && n == 0 {
			return nil, nil
		}
		return nil, fmt.Errorf("byte buffer made with a non-zero length (content written by index is not modelled)")
	case *ssa.Slice:
		// b[:0] — the buffer emptied; t[:0] of a fresh array
		if x.Low == nil && x.High != nil {
			if n, ok := constInt(x.High); ok && n == 0 {
				return nil, nil
			}
		}
		if x.Low == nil && x.High == nil && x.Max == nil && isByteSlice(x.X.Type()) {
			return e.Bytes(x.X)
		}
	case *ssa.ChangeType:
		if isByteSlice(x.X.Type()) {
			return e.Bytes(x.X)
		}
	case *ssa.Convert:
		if isString(x.X.Type()) {
			return e.String(x.X)
		}
		if isByteSlice(x.X.Type()) {
			return e.Bytes(x.X)
		}
	case *ssa.Phi:
		return e.acc(x, x.Block(), func(i int) ([]Item, error) { return e.Bytes(x.Edges[i]) })
	case *ssa.Call:
		cc := x.Common()
		if al, name := bufferMethod(cc); al != nil && name == "Bytes" {
			return e.bufferAt(al, x)
		}
		if main, done, ok := e.helperReturn(x); ok {
			defer done()
			return e.Bytes(main)
		}
		pkg, name := callee(cc)
		args := cc.Args
		switch {
		case pkg == "" && name == "append" && len(args) == 2:
			base, err := e.Bytes(args[0])
			if err != nil {
				return nil, err
			}
			var tail []Item
			switch a := args[1].(type) {
			case *ssa.Const:
				if a.Value != nil {
					tail, err = e.String(a) // append(b, "literal"...)
				}
			case *ssa.Slice:
				if _, isAlloc := a.X.(*ssa.Alloc); isAlloc && a.Low == nil && a.High == nil {
					vals, ok := Varargs(a)
					if !ok {
						return nil, fmt.Errorf("appended bytes are not a plain list")
					}
					tail, err = e.byteItems(vals)
				} else {
					tail, err = e.Bytes(a)
				}
			default:
				if isString(a.Type()) {
					tail, err = e.String(a)
				} else {
					tail, err = e.Bytes(a)
				}
			}
			if err != nil {
				return nil, err
			}
			return append(append([]Item(nil), base...), tail...), nil
		case pkg == "strconv" && (name == "AppendInt" || name == "AppendUint"):
			b, ok := constInt(args[2])
			vb, known := baseVerb[b]
			if !ok || !known {
				return nil, fmt.Errorf("strconv.%s with a base that is not the constant 2, 8, 10 or 16", name)
			}
			base, err := e.Bytes(args[0])
			if err != nil {
				return nil, err
			}
			return append(append([]Item(nil), base...), Item{Kind: Val, Val: args[1], Verb: vb}), nil
		case pkg == "fmt" && name == "Appendf":
			base, err := e.Bytes(args[0])
			if err != nil {
				return nil, err
			}
			tail, err := e.formatItems(args[1], args[2])
			if err != nil {
				return nil, err
			}
			return append(append([]Item(nil), base...), tail...), nil
		case (pkg == "bytes" || pkg == "slices") && name == "Clone":
			return e.Bytes(args[0])
		}
	}
	return nil, fmt.Errorf("byte buffer of shape %T is not modelled", v)
}

// ---------------------------------------------------------------------------
// strings.Builder / bytes.Buffer

type bufKey struct {
	alloc ssa.Value // the cell (see bufInfo.alloc)
	blk   *ssa.BasicBlock
}

// preKey: the content a captured buffer has when the closure is entered.
type preKey struct{ cell ssa.Value }

type bufInfo struct {
	// alloc is the cell: the *ssa.Alloc of a local strings.Builder / bytes.Buffer;
	// the *ssa.FreeVar under which a closure sees the buffer of an enclosing
	// function; or the *ssa.Parameter of function type through which an iterator
	// (a function that drives a callback) hands out its elements — its "writes"
	// are the calls of that parameter (closure.go).
	alloc  ssa.Value
	writes map[*ssa.BasicBlock][]ssa.Instruction // in block order
	isW    map[ssa.Instruction]bool
	drv    map[ssa.Instruction]*ssa.MakeClosure // write = the one call a closure that captures the buffer is handed to
	phi    map[*ssa.BasicBlock]bool
	kind   cellKind
	err    error
}

type cellKind int

const (
	cellNone    cellKind = iota
	cellBuilder          // strings.Builder / bytes.Buffer
	cellYield            // callback parameter
	cellText             // string variable that lives in a cell (it is captured by a closure)
	cellList             // []string variable that lives in a cell
)

func cellKindOf(a ssa.Value) cellKind {
	if _, ok := a.(*ssa.Parameter); ok {
		if _, isSig := a.Type().Underlying().(*types.Signature); isSig {
			return cellYield
		}
		return cellNone
	}
	p, ok := a.Type().Underlying().(*types.Pointer)
	if !ok {
		return cellNone
	}
	switch {
	case isTextBuffer(p.Elem()):
		return cellBuilder
	case isString(p.Elem()):
		return cellText
	}
	if s, ok := p.Elem().Underlying().(*types.Slice); ok && isString(s.Elem()) {
		return cellList
	}
	return cellNone
}

// cellLoad: v reads a string / []string variable that lives in a cell.
func cellLoad(v ssa.Value) (ssa.Value, cellKind) {
	u, ok := v.(*ssa.UnOp)
	if !ok || u.Op != token.MUL {
		return nil, cellNone
	}
	switch u.X.(type) {
	case *ssa.Alloc, *ssa.FreeVar:
		if k := cellKindOf(u.X); k == cellText || k == cellList {
			return u.X, k
		}
	}
	return nil, cellNone
}

// origin: the block before which the cell holds nothing this code has to model.
func (bi *bufInfo) origin() *ssa.BasicBlock {
	if a, ok := bi.alloc.(*ssa.Alloc); ok {
		return a.Block()
	}
	return bi.alloc.Parent().Blocks[0]
}

func (e *Eval) frontier(fn *ssa.Function) map[*ssa.BasicBlock][]*ssa.BasicBlock {
	if df, ok := e.df[fn]; ok {
		return df
	}
	df := map[*ssa.BasicBlock][]*ssa.BasicBlock{}
	for _, b := range fn.Blocks {
		if len(b.Preds) < 2 {
			continue
		}
		for _, p := range b.Preds {
			for r := p; r != nil && r != b.Idom(); r = r.Idom() {
				dup := false
				for _, q := range df[r] {
					if q == b {
						dup = true
					}
				}
				if !dup {
					df[r] = append(df[r], b)
				}
			}
		}
	}
	e.df[fn] = df
	return df
}

func (e *Eval) bufOf(a ssa.Value) *bufInfo {
	if bi, ok := e.bufs[a]; ok {
		return bi
	}
	bi := &bufInfo{alloc: a, writes: map[*ssa.BasicBlock][]ssa.Instruction{}, isW: map[ssa.Instruction]bool{},
		drv: map[ssa.Instruction]*ssa.MakeClosure{}, phi: map[*ssa.BasicBlock]bool{}}
	_, isYield := a.(*ssa.Parameter)
	bi.kind = cellKindOf(a)
	if bi.kind == cellNone {
		bi.err = fmt.Errorf("a variable of type %s is not a text buffer", a.Type())
		return bi
	}
	isVar := bi.kind == cellText || bi.kind == cellList
	e.bufs[a] = bi
	if a.Referrers() == nil {
		return bi
	}
	fail := func(f string, args ...any) {
		if bi.err == nil {
			bi.err = fmt.Errorf(f, args...)
		}
	}
	for _, r := range *a.Referrers() {
		switch x := r.(type) {
		case *ssa.DebugRef:
		case *ssa.Store:
			if isVar {
				// a string / []string variable kept in a cell: every assignment replaces its content
				if x.Addr == ssa.Value(a) {
					bi.isW[x] = true
				} else {
					fail("the variable's address is stored")
				}
				continue
			}
			// `sb := strings.Builder{}`: a store of the zero value into the fresh cell
			if k, ok := x.Val.(*ssa.Const); ok && k.Value == nil && x.Addr == ssa.Value(a) {
				continue
			}
			fail("the buffer is overwritten as a whole")
		case *ssa.UnOp:
			if !isVar || x.Op != token.MUL {
				fail("the buffer's address is used by %T", r)
			}
		case *ssa.Call:
			if isYield {
				if x.Common().Value == a {
					bi.isW[x] = true
				} else {
					fail("the callback is handed on to %s", x.Common().Value.Name())
				}
				continue
			}
			if isVar {
				fail("the variable's address is passed to %s", x.Common().Value.Name())
				continue
			}
			al, name := bufferMethod(x.Common())
			if al != a {
				fail("the buffer is passed to %s", x.Common().Value.Name())
				continue
			}
			switch name {
			case "WriteString", "WriteByte", "WriteRune", "Write":
				bi.isW[x] = true
			case "String", "Bytes", "Len", "Cap", "Grow":
			default:
				fail("buffer method %s is not modelled", name)
			}
		case *ssa.MakeInterface:
			if x.Referrers() == nil {
				continue
			}
			for _, rr := range *x.Referrers() {
				switch y := rr.(type) {
				case *ssa.DebugRef:
				case *ssa.Call:
					pkg, name := callee(y.Common())
					if pkg == "fmt" && name == "Fprintf" && len(y.Common().Args) == 3 && y.Common().Args[0] == ssa.Value(x) {
						bi.isW[y] = true
						continue
					}
					fail("the buffer is handed to %s.%s as an interface", pkg, name)
				default:
					fail("the buffer escapes as an interface value")
				}
			}
		case *ssa.MakeClosure:
			// a closure that captures the buffer and is handed straight to ONE call (the
			// body of a range-over-func loop, a callback): that call is a write whose
			// text is worked out in closure.go
			var use *ssa.Call
			n := 0
			if x.Referrers() != nil {
				for _, rr := range *x.Referrers() {
					if _, isDbg := rr.(*ssa.DebugRef); isDbg {
						continue
					}
					n++
					if c, ok := rr.(*ssa.Call); ok && c.Common().Value != ssa.Value(x) {
						use = c
					}
				}
			}
			if isYield || n != 1 || use == nil {
				fail("the buffer is captured by a closure that is not handed straight to one call")
				continue
			}
			bi.isW[use] = true
			bi.drv[use] = x
		default:
			fail("the buffer's address is used by %T", r)
		}
	}
	// writes per block, in order
	for _, b := range a.Parent().Blocks {
		for _, in := range b.Instrs {
			if bi.isW[in] {
				bi.writes[b] = append(bi.writes[b], in)
			}
		}
	}
	if isYield {
		e.markDead(bi)
	}
	// φ placement: iterated dominance frontier of the writing blocks
	df := e.frontier(a.Parent())
	var work []*ssa.BasicBlock
	for b := range bi.writes {
		work = append(work, b)
	}
	for len(work) > 0 {
		b := work[len(work)-1]
		work = work[:len(work)-1]
		for _, f := range df[b] {
			if !bi.phi[f] {
				bi.phi[f] = true
				work = append(work, f)
			}
		}
	}
	return bi
}

// written: what one write instruction adds.
func (e *Eval) written(bi *bufInfo, in ssa.Instruction) ([]Item, error) {
	call := in.(*ssa.Call)
	cc := call.Common()
	if mc := bi.drv[in]; mc != nil {
		return e.driven(bi, call, mc)
	}
	if _, isYield := bi.alloc.(*ssa.Parameter); isYield {
		return []Item{{Kind: Emit, Args: cc.Args}}, nil
	}
	if _, name := bufferMethod(cc); name != "" {
		switch name {
		case "WriteString":
			return e.String(cc.Args[1])
		case "Write":
			return e.Bytes(cc.Args[1])
		case "WriteByte", "WriteRune":
			k, ok := constInt(cc.Args[1])
			if !ok || k < 0 || k >= 0x80 {
				return nil, fmt.Errorf("%s of a value that is not an ASCII constant", name)
			}
			return []Item{{Kind: Lit, Lit: string(rune(k))}}, nil
		}
	}
	return e.formatItems(cc.Args[1], cc.Args[2]) // fmt.Fprintf(&buf, format, args...)
}

// bufferAt: the content of the buffer just before instruction at.
func (e *Eval) bufferAt(a ssa.Value, at ssa.Instruction) ([]Item, error) {
	bi := e.bufOf(a)
	if bi.err != nil {
		return nil, bi.err
	}
	return e.bufExit(bi, at.Block(), at)
}

// bufExit: the content after the writes of b that precede upto (nil: all of b's writes).
func (e *Eval) bufExit(bi *bufInfo, b *ssa.BasicBlock, upto ssa.Instruction) ([]Item, error) {
	if err := e.step(); err != nil {
		return nil, err
	}
	out, err := e.bufEntry(bi, b)
	if err != nil {
		return nil, err
	}
	out = append([]Item(nil), out...)
	if len(bi.writes[b]) == 0 {
		return out, nil
	}
	for _, in := range b.Instrs {
		if in == upto {
			break
		}
		if bi.isW[in] {
			if st, isStore := in.(*ssa.Store); isStore {
				// assignment to a variable cell: the new content, which may be built from the old one
				var v []Item
				var err error
				if bi.kind == cellList {
					v, err = e.listItems(st.Val)
				} else {
					v, err = e.String(st.Val)
				}
				if err != nil {
					return nil, err
				}
				out = append([]Item(nil), v...)
				continue
			}
			w, err := e.written(bi, in)
			if err != nil {
				return nil, err
			}
			out = append(out, w...)
		}
	}
	return out, nil
}

func (e *Eval) bufEntry(bi *bufInfo, b *ssa.BasicBlock) ([]Item, error) {
	ab := bi.origin()
	if b == ab {
		if fv, ok := bi.alloc.(*ssa.FreeVar); ok {
			return []Item{{Kind: Self, Acc: preKey{fv}}}, nil // whatever the enclosing function wrote before the closure runs
		}
		return nil, nil // nothing is written before the buffer exists
	}
	if !ab.Dominates(b) {
		return nil, fmt.Errorf("the buffer is declared inside a loop or branch that its content outlives")
	}
	if bi.phi[b] {
		return e.acc(bufKey{bi.alloc, b}, b, func(i int) ([]Item, error) { return e.bufExit(bi, b.Preds[i], nil) })
	}
	d := b.Idom()
	if d == nil {
		return nil, fmt.Errorf("block without a dominator")
	}
	return e.bufExit(bi, d, nil)
}

// ---------------------------------------------------------------------------
// separator idiom → Join

// count evaluates an integer that only ever grows by one to its template
// (Tick = one increment), with the same loop / merge structure as a text.
func (e *Eval) count(v ssa.Value) ([]Item, error) {
	if e.onStack(v) {
		return []Item{{Kind: Self, Val: v, Acc: v}}, nil
	}
	if err := e.step(); err != nil {
		return nil, err
	}
	switch x := v.(type) {
	case *ssa.Const:
		if b, isB := constBool(x); isB && e.flagZero != nil {
			// a boolean flag counts up to one: its initial value is 0, the other
			// value is "one more than before" (it is only ever compared with 0)
			if b == *e.flagZero {
				return nil, nil
			}
			if len(e.stack) == 0 {
				return nil, fmt.Errorf("flag set outside a loop")
			}
			top := e.stack[len(e.stack)-1]
			tv, _ := top.(ssa.Value)
			return []Item{{Kind: Self, Val: tv, Acc: top}, {Kind: Tick}}, nil
		}
		if k, ok := constInt(x); ok && k == 0 {
			return nil, nil
		}
		return nil, fmt.Errorf("counter does not start at 0")
	case *ssa.BinOp:
		if x.Op == token.ADD {
			if k, ok := constInt(x.Y); ok && k == 1 {
				base, err := e.count(x.X)
				if err != nil {
					return nil, err
				}
				return append(append([]Item(nil), base...), Item{Kind: Tick}), nil
			}
		}
	case *ssa.Phi:
		return e.acc(x, x.Block(), func(i int) ([]Item, error) { return e.count(x.Edges[i]) })
	}
	return nil, fmt.Errorf("counter of shape %T is not modelled", v)
}

// Joinify rewrites
//
//	( [sep]?(something was already written)  elem )*      to  join(sep; elem*)
//
// where the optional separator comes first in the iteration and its condition
// is one of
//
//   - `n > 0` (`n >= 1`, `n != 0`, negated forms) for a counter n that is shown to
//     be advanced exactly where an element is written — a loop-carried value
//     with the same loops and the same filter as the text, or a variable
//     captured by the closure that is the loop body (closure.go) which that
//     closure increments once per call;
//   - `!first` for a boolean flag with the same property (loop-carried, or
//     captured and cleared once per call);
//   - `buffer.Len() > 0` / `acc != ""` / `len(acc) > 0` on the text itself (then
//     the rewrite holds when no element is empty, recorded in Item.Assume).
//
// When the idiom is present but its condition is of a kind this code does not
// interpret, the join is returned with Assume = "?" + reason: the client must
// report NOT DECIDED. Only a condition that IS interpreted and does not mean
// "an element was written before" — a counter that also counts filtered-out
// components, a flag tested the wrong way round, a counter advanced before it
// is tested — leaves the template unchanged (evidence of a misplaced separator).
func (e *Eval) Joinify(items []Item) []Item {
	chain, body, ok := nested(items)
	if !ok || len(body) < 2 || body[0].Kind != Opt || body[0].Cond == nil || len(body[0].Body) != 1 || body[0].Body[0].Kind != Lit {
		return items
	}
	elem := body[1:]
	if hasKind(elem, Opt, Self, Rep, Tick) {
		return items
	}
	sep := body[0].Body[0].Lit
	inner := chain[len(chain)-1]
	cond, truth := body[0].Cond.Cond, body[0].Cond.Truth
	for {
		u, ok := cond.(*ssa.UnOp)
		if !ok || u.Op != token.NOT {
			break
		}
		cond, truth = u.X, !truth
	}
	// the idiom is there, but whether its condition means "an element was already
	// written" is not decided by this code: say so instead of denying the join
	unknown := func(why string) []Item {
		return []Item{joinOf(sep, chain, elem, "?"+why)}
	}
	join := func(assume string) []Item { return []Item{joinOf(sep, chain, elem, assume)} }
	isBool := func(t types.Type) bool {
		b, isB := t.Underlying().(*types.Basic)
		return isB && b.Kind() == types.Bool
	}
	// the buffer / accumulator the repetition extends
	sameAcc := func(cell ssa.Value) bool {
		if key, ok := inner.Acc.(bufKey); ok {
			return e.rootCell(key.alloc) == e.rootCell(cell)
		}
		return false
	}
	// byCounter: y is tested at the head of the innermost loop; it belongs to a
	// family of loop-carried values (one per nesting level) that starts at zero
	// and is advanced exactly where an element is written — same loops, same
	// filters. flag != nil: y is a boolean flag and the separator is written when
	// it equals *flag. right: the comparison means "y > 0".
	byCounter := func(y *ssa.Phi, flag *bool, right bool) []Item {
		if y.Block() != inner.Loop.Header {
			return unknown("the value that drives the separator is not carried by the innermost loop")
		}
		// outermost member of the counter's family
		top := y
		var first ssa.Value
		for d := 0; d < len(chain)+1; d++ {
			var init ssa.Value
			n := 0
			for i, pr := range top.Block().Preds {
				if !top.Block().Dominates(pr) {
					init = top.Edges[i]
					n++
				}
			}
			first = init
			q, isPhi := init.(*ssa.Phi)
			if n != 1 || !isPhi || !isLoopHeader(q.Block()) {
				break
			}
			top = q
		}
		if flag != nil {
			zero, isK := constBool(first)
			if !isK {
				return unknown("the flag that drives the separator does not start from a constant")
			}
			right = *flag != zero
			e.flagZero = &zero
			defer func() { e.flagZero = nil }()
		}
		saved := e.visited
		e.visited = map[any]bool{}
		ct, err := e.count(top)
		fam := e.visited
		e.visited = saved
		if err != nil {
			return unknown("the counter that drives the separator is not modelled: " + err.Error())
		}
		if !fam[any(y)] {
			return unknown("the value that drives the separator is not part of one counter")
		}
		cchain, cbody, ok := nested(ct)
		if !ok || len(cchain) != len(chain) || len(cbody) != 1 || cbody[0].Kind != Tick {
			return items // a counter, but not one that is advanced once per element
		}
		for i := range chain {
			if cchain[i].Loop != chain[i].Loop {
				return items
			}
			if !sameFilter(cchain[i].Cond, chain[i].Cond) {
				if cchain[i].Cond != nil && chain[i].Cond != nil {
					return unknown("the counter is advanced under a test other than the one the element is written under")
				}
				return items // the counter also counts components that are filtered out (or the reverse)
			}
		}
		if !right {
			return items // the separator is written while the counter / flag still has its initial value
		}
		return join("")
	}
	// a boolean first-element flag: a captured variable (the loop body is a
	// closure) or a loop-carried value
	if fv, ftruth := boolTest(cond, truth); isBool(fv.Type()) {
		if q, isP := fv.(*ssa.Parameter); isP && e.bound[q] != nil {
			fv = e.bound[q]
		}
		switch y := fv.(type) {
		case *ssa.UnOp:
			if y.Op == token.MUL {
				use, err := e.cellStep(y)
				if err != nil {
					return unknown("the separator is written under a boolean variable that is not read as a first-element flag: " + err.Error())
				}
				if !use.isBool || use.stores == 0 || use.after || ftruth == use.zero {
					return items // never cleared, cleared before it is tested, or tested the wrong way round
				}
				return join("")
			}
		case *ssa.Phi:
			if isLoopHeader(y.Block()) {
				return byCounter(y, &ftruth, false)
			}
			return unknown("the separator is written under a boolean that is merged from several paths")
		}
	}
	bo, ok := cond.(*ssa.BinOp)
	if !ok {
		return unknown("the separator is written under a condition that is not a comparison")
	}
	// normalise to  x OP k
	x, op := bo.X, bo.Op
	var k int64
	isStr := false
	if s, okS := constString(bo.Y); okS && s == "" {
		isStr = true
	} else if s, okS := constString(bo.X); okS && s == "" {
		isStr, x = true, bo.Y
	} else if kk, okK := constInt(bo.Y); okK {
		k = kk
	} else if kk, okK := constInt(bo.X); okK {
		k, x = kk, bo.Y
		op = map[token.Token]token.Token{token.LSS: token.GTR, token.GTR: token.LSS, token.LEQ: token.GEQ, token.GEQ: token.LEQ, token.EQL: token.EQL, token.NEQ: token.NEQ}[op]
	} else {
		return unknown("the separator is written under a comparison of two values that are not constants")
	}
	if q, isP := x.(*ssa.Parameter); isP && e.bound[q] != nil {
		x = e.bound[q] // parameter of a callback that was entered: what the driver passes
	}
	if so, isB := x.(*ssa.BinOp); isB && !isStr && (so.Op == token.ADD || so.Op == token.SUB) {
		// (y ± c) OP k  ⇔  y OP (k ∓ c): a counter that was advanced before the test
		if c, okC := constInt(so.Y); okC {
			if so.Op == token.ADD {
				k -= c
			} else {
				k += c
			}
			x = so.X
		}
	}
	// right(off): the separator is written exactly when x-off > 0 (x != "")
	right := func(off int64) bool {
		if isStr {
			return (op == token.NEQ && truth) || (op == token.EQL && !truth)
		}
		switch k {
		case off:
			return ((op == token.GTR || (op == token.NEQ && off == 0)) && truth) || ((op == token.LEQ || (op == token.EQL && off == 0)) && !truth)
		case off + 1:
			return (op == token.GEQ && truth) || (op == token.LSS && !truth)
		}
		return false
	}
	nonEmpty := "no element is empty (the separator is written when the text so far is non-empty)"
	onText := func(isAcc bool) []Item {
		if !isAcc {
			return unknown("the separator is written under a test of a text other than the one being built")
		}
		if !right(0) {
			return items
		}
		return join(nonEmpty)
	}
	switch y := x.(type) {
	case *ssa.Phi:
		if isStr {
			return onText(inner.Acc == any(y))
		}
		return byCounter(y, nil, right(0))
	case *ssa.UnOp:
		if y.Op != token.MUL {
			break
		}
		if isStr {
			return onText(sameAcc(y.X))
		}
		use, err := e.cellStep(y)
		if err != nil {
			return unknown("the separator is written under a variable that is not read as an element counter: " + err.Error())
		}
		if use.isBool {
			break
		}
		off := int64(0)
		if use.after {
			off = 1
		}
		if use.stores == 0 || !right(off) {
			return items // never advanced, or compared with the wrong constant for the place it is advanced at
		}
		return join("")
	case *ssa.Call:
		cc := y.Common()
		if al, name := bufferMethod(cc); al != nil && name == "Len" {
			return onText(sameAcc(al))
		}
		if _, name := callee(cc); name == "len" && len(cc.Args) == 1 {
			switch a := cc.Args[0].(type) {
			case *ssa.Phi:
				return onText(inner.Acc == any(a))
			case *ssa.UnOp:
				if a.Op == token.MUL {
					return onText(sameAcc(a.X))
				}
			}
		}
	}
	return unknown("the separator is written under a condition on a value this code does not interpret")
}
