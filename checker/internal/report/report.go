// Package report holds obligations, the known-findings protocol, and the
// evidence / violation files every check writes.
package report

import (
	"bufio"
	"encoding/json"
	"fmt"
	"os"
	"path/filepath"
	"sort"
	"strings"
	"time"
)

type Status int

const (
	Discharged Status = iota
	Finding           // the rule decided the construct and it violates the rule
	Undecided         // the rule is bound to the construct but could not decide it
)

func (s Status) String() string {
	switch s {
	case Discharged:
		return "discharged"
	case Finding:
		return "finding"
	}
	return "undecided"
}

// Obligation is the unit of evidence.
type Obligation struct {
	Rule      string `json:"rule"`
	Construct string `json:"construct"` // function + normalised expression + ordinal, never a line number
	Pos       string `json:"pos"`       // file:line:col at the time of the run (diagnostic only)
	Status    Status `json:"-"`
	StatusStr string `json:"status"`
	Reason    string `json:"reason"`
	Detail    any    `json:"detail,omitempty"`
}

func (o *Obligation) Key() string { return o.Rule + " " + o.Construct }

type Known struct {
	Property string
	Rule     string
	Key      string // construct
	What     string
	used     bool
}

// Run collects everything one check of one property produced.
type Run struct {
	Property    string
	Tier        string
	Seed        int
	Start       time.Time
	Obls        []*Obligation
	Counts      map[string]int // measured instance counts per rule
	Floors      map[string]int
	Notes       []string
	Assumptions []string
	Explanation string
	Extra       map[string]any
	Broken      []string // checker-internal failures (controls) → exit 2
}

func NewRun(prop, tier string, seed int) *Run {
	return &Run{Property: prop, Tier: tier, Seed: seed, Start: time.Now(),
		Counts: map[string]int{}, Floors: map[string]int{}, Extra: map[string]any{}}
}

func (r *Run) Add(rule, construct, pos string, st Status, reason string, detail any) *Obligation {
	o := &Obligation{Rule: rule, Construct: construct, Pos: pos, Status: st, StatusStr: st.String(), Reason: reason, Detail: detail}
	r.Obls = append(r.Obls, o)
	r.Counts[rule]++
	return o
}

func (r *Run) OK(rule, construct, pos, reason string) {
	r.Add(rule, construct, pos, Discharged, reason, nil)
}
func (r *Run) Fail(rule, construct, pos, reason string) {
	r.Add(rule, construct, pos, Finding, reason, nil)
}
func (r *Run) Undecided(rule, construct, pos, reason string) {
	r.Add(rule, construct, pos, Undecided, reason, nil)
}

// Floor declares the instance count confirmed by hand for a rule; fewer matched
// instances is itself a violation.
func (r *Run) Floor(rule string, n int) { r.Floors[rule] = n }

func (r *Run) Note(f string, a ...any) { r.Notes = append(r.Notes, fmt.Sprintf(f, a...)) }

// Uniq makes construct keys unique inside a run by appending #ordinal to repeats.
func (r *Run) Uniq() {
	seen := map[string]int{}
	for _, o := range r.Obls {
		k := o.Key()
		seen[k]++
		if seen[k] > 1 {
			o.Construct = fmt.Sprintf("%s #%d", o.Construct, seen[k])
		}
	}
}

func LoadKnown(path string) ([]*Known, []string, error) {
	f, err := os.Open(path)
	if err != nil {
		if os.IsNotExist(err) {
			return nil, nil, nil
		}
		return nil, nil, err
	}
	defer f.Close()
	var ks []*Known
	var fixed []string
	sc := bufio.NewScanner(f)
	sc.Buffer(make([]byte, 1<<20), 1<<20)
	ln := 0
	for sc.Scan() {
		ln++
		line := strings.TrimSpace(sc.Text())
		if line == "" || strings.HasPrefix(line, "#") {
			continue
		}
		if strings.HasPrefix(line, "fixed:") {
			fixed = append(fixed, line)
			continue
		}
		if !strings.HasPrefix(line, "finding:") {
			return nil, nil, fmt.Errorf("%s:%d: unrecognised line", path, ln)
		}
		rest := strings.TrimSpace(strings.TrimPrefix(line, "finding:"))
		head, what, ok := strings.Cut(rest, " :: ")
		if !ok {
			return nil, nil, fmt.Errorf("%s:%d: missing ' :: '", path, ln)
		}
		k := &Known{What: strings.TrimSpace(what)}
		// property=.. rule=.. key=<rest of head>
		h := head
		for _, name := range []string{"property=", "rule="} {
			h = strings.TrimSpace(h)
			if !strings.HasPrefix(h, name) {
				return nil, nil, fmt.Errorf("%s:%d: expected %s", path, ln, name)
			}
			h = h[len(name):]
			v, r, _ := strings.Cut(h, " ")
			if name == "property=" {
				k.Property = v
			} else {
				k.Rule = v
			}
			h = r
		}
		h = strings.TrimSpace(h)
		if !strings.HasPrefix(h, "key=") {
			return nil, nil, fmt.Errorf("%s:%d: expected key=", path, ln)
		}
		k.Key = strings.TrimSpace(h[4:])
		ks = append(ks, k)
	}
	return ks, fixed, sc.Err()
}

type evidence struct {
	PropertyID  string         `json:"property_id"`
	Tier        string         `json:"tier"`
	Seed        int            `json:"seed"`
	Level       string         `json:"level"`
	Coverage    map[string]any `json:"coverage"`
	Assumptions []string       `json:"assumptions"`
	WallS       float64        `json:"wall_s"`
	Violations  int            `json:"violations"`
}

// Finish applies known findings, prints the protocol lines, writes evidence and
// violation files, and returns the process exit code.
func (r *Run) Finish(verifDir string) int {
	r.Uniq()
	known, fixed, err := LoadKnown(filepath.Join(verifDir, "known-findings.txt"))
	if err != nil {
		fmt.Printf("checker broken: known-findings: %v\n", err)
		return 2
	}
	// floors
	rules := map[string]bool{}
	for k := range r.Counts {
		rules[k] = true
	}
	for rule, fl := range r.Floors {
		rules[rule] = true
		if r.Counts[rule] < fl {
			r.Add("floor", rule, "", Finding,
				fmt.Sprintf("rule %s matched %d instances, fewer than the %d confirmed by reading", rule, r.Counts[rule], fl), nil)
			r.Counts["floor"]--
		}
	}
	sort.SliceStable(r.Obls, func(i, j int) bool { return r.Obls[i].Key() < r.Obls[j].Key() })

	kidx := map[string]*Known{}
	var wild []*Known
	for _, k := range known {
		if k.Property == r.Property {
			if strings.HasSuffix(k.Key, "*") || strings.Contains(k.Rule, "|") {
				wild = append(wild, k)
				continue
			}
			kidx[k.Rule+" "+k.Key] = k
		}
	}
	vdir := filepath.Join(verifDir, "out", "violations", r.Property)
	os.RemoveAll(vdir)
	nDis, nKnown, nViol, nUndec := 0, 0, 0, 0
	var samples []any
	var violSamples []any
	perRule := map[string]map[string]int{}
	bump := func(rule, what string) {
		if perRule[rule] == nil {
			perRule[rule] = map[string]int{}
		}
		perRule[rule][what]++
	}
	var out []string
	for _, o := range r.Obls {
		switch o.Status {
		case Discharged:
			nDis++
			bump(o.Rule, "discharged")
			continue
		}
		k := kidx[o.Key()]
		if k == nil && o.Status == Finding {
			// a listed finding may name a family of constructs of ONE function and input
			// (`key=<prefix>*`, `rule=a|b`): the same failing inputs seen through another access
			for _, w := range wild {
				if w.matches(o.Rule, o.Construct) {
					k = w
					break
				}
			}
		}
		if k != nil && o.Status == Finding {
			nKnown++
			bump(o.Rule, "known_finding")
			if !(k.used && strings.HasSuffix(k.Key, "*")) {
				out = append(out, fmt.Sprintf("KNOWN-FINDING: property=%s %s [%s %s]", r.Property, k.What, o.Rule, o.Construct))
			}
			k.used = true
			continue
		}
		if o.Status == Undecided {
			nUndec++
		}
		nViol++
		bump(o.Rule, o.StatusStr)
		os.MkdirAll(vdir, 0o755)
		p := filepath.Join(vdir, fmt.Sprintf("%03d.json", nViol))
		b, _ := json.MarshalIndent(map[string]any{"property": r.Property, "obligation": o}, "", " ")
		os.WriteFile(p, b, 0o644)
		out = append(out, fmt.Sprintf("%s: %s %s: %s: %s", o.Pos, r.Property, o.Rule, o.Construct, o.Reason))
		out = append(out, fmt.Sprintf("VIOLATION property=%s replay=%s", r.Property, p))
		if len(violSamples) < 10 {
			violSamples = append(violSamples, o)
		}
	}
	// samples: spread over rules
	seenRule := map[string]int{}
	for _, o := range r.Obls {
		if seenRule[o.Rule] < 3 && len(samples) < 40 {
			seenRule[o.Rule]++
			samples = append(samples, o)
		}
	}
	var stale []string
	for _, k := range known {
		if k.Property == r.Property && !k.used {
			stale = append(stale, k.Rule+" "+k.Key)
		}
	}
	for _, b := range r.Broken {
		out = append(out, "checker broken: "+b)
	}
	for _, l := range out {
		fmt.Println(l)
	}
	cov := map[string]any{
		"explanation":        r.Explanation,
		"obligations":        len(r.Obls),
		"discharged":         nDis,
		"known_findings":     nKnown,
		"undecided":          nUndec,
		"violations":         nViol,
		"per_rule":           perRule,
		"rule_instance_count": r.Counts,
		"rule_floors":        r.Floors,
		"samples":            samples,
		"notes":              r.Notes,
		"stale_known_findings": stale,
		"fixed_entries":      len(fixed),
		"evaluations":        len(r.Obls),
		"distinct_nontrivial": len(r.Obls),
		"rule":               "one evaluation per obligation (rule × construct in /repo's current source); every obligation is distinct by key and non-trivial in that the rule had to inspect the construct",
	}
	if len(violSamples) > 0 {
		cov["violation_samples"] = violSamples
	}
	for k, v := range r.Extra {
		cov[k] = v
	}
	ev := evidence{PropertyID: r.Property, Tier: r.Tier, Seed: r.Seed, Level: "other", Coverage: cov,
		Assumptions: r.Assumptions, WallS: time.Since(r.Start).Seconds(), Violations: nViol}
	os.MkdirAll(filepath.Join(verifDir, "evidence"), 0o755)
	b, _ := json.MarshalIndent(ev, "", " ")
	if err := os.WriteFile(filepath.Join(verifDir, "evidence", r.Property+".json"), b, 0o644); err != nil {
		fmt.Printf("checker broken: cannot write evidence: %v\n", err)
		return 2
	}
	fmt.Printf("%s %s: %d obligations, %d discharged, %d known findings, %d violations (%d undecided), %.1fs\n",
		r.Property, r.Tier, len(r.Obls), nDis, nKnown, nViol, nUndec, time.Since(r.Start).Seconds())
	if len(r.Broken) > 0 {
		return 2
	}
	if nViol > 0 {
		return 1
	}
	return 0
}

// matches: a wildcard entry (`key=prefix*`, `rule=a|b`) covers this obligation.
func (k *Known) matches(rule, construct string) bool {
	okRule := false
	for _, r := range strings.Split(k.Rule, "|") {
		if r == rule {
			okRule = true
		}
	}
	if !okRule {
		return false
	}
	if strings.HasSuffix(k.Key, "*") {
		return strings.HasPrefix(construct, strings.TrimSuffix(k.Key, "*"))
	}
	return construct == k.Key
}
