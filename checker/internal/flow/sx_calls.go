package flow

import (
	"fmt"
	"go/types"
	"math/big"
	"strings"

	"golang.org/x/tools/go/ssa"

	"manticheck/internal/lanes"
)

func (fr *sxFrame) call(x *ssa.Call) sxVal {
	sx := fr.sx
	cc := x.Common()
	if cc.IsInvoke() {
		recv := fr.get(cc.Value)
		args := make([]sxVal, len(cc.Args))
		for i, a := range cc.Args {
			args[i] = fr.get(a)
		}
		return fr.invoke(x, recv, cc.Method.Name(), args)
	}
	args := make([]sxVal, len(cc.Args))
	for i, a := range cc.Args {
		args[i] = fr.get(a)
	}
	if b, ok := cc.Value.(*ssa.Builtin); ok {
		return fr.builtin(x, b.Name(), args)
	}
	callee := cc.StaticCallee()
	var free []sxVal
	switch cc.Value.(type) {
	case *ssa.Function, *ssa.Builtin:
	default:
		if fv, ok := fr.get(cc.Value).(sxFunc); ok && fv.Fn != nil {
			callee, free = fv.Fn, fv.Free
		}
	}
	if callee == nil {
		sx.stop("%s: dynamic call whose target is not a known function value", fr.fn.Name())
	}
	return fr.callFn(x, callee, args, free)
}

// callFn dispatches a call of a known function.
func (fr *sxFrame) callFn(x *ssa.Call, callee *ssa.Function, args []sxVal, free []sxVal) sxVal {
	sx := fr.sx
	// methods of modelled objects reached through a static callee (in-module hash
	// types, bytes.Buffer, strings.Builder, time.Time)
	if callee.Signature.Recv() != nil && len(args) > 0 {
		if obj := sx.objOf(args[0], callee); obj != nil {
			if v, ok := fr.method(x, obj, callee.Name(), args[1:]); ok {
				return v
			}
			if obj.Kind != "ext" {
				sx.stop("%s: method %s of a modelled %s object is not modelled", fr.fn.Name(), callee.Name(), obj.Kind)
			}
		}
	}
	if sx.HashCtor != nil {
		if ctor, ok := sx.HashCtor(callee); ok {
			return sx.shape(x.Type(), sxObj{&sxObject{Kind: "hash", Ctor: ctor}})
		}
	}
	if sx.Label != nil {
		if label, ok := sx.Label(callee); ok {
			return fr.apply(x, label, args)
		}
	}
	if v, ok := fr.stdlib(x, callee, args); ok {
		return v
	}
	if sx.E.P.InModule(callee) && callee.Blocks != nil {
		return sx.run(callee, args, free, fr.depth+1)
	}
	// printing and logging only read their arguments
	switch callee.String() {
	case "fmt.Println", "fmt.Printf", "fmt.Print", "log.Println", "log.Printf", "log.Print",
		"(*log.Logger).Println", "(*log.Logger).Printf", "(*log.Logger).Print":
		sx.Unknown = append(sx.Unknown, callee.String())
		return sx.opaqueOf(x.Type(), "result of "+callee.String())
	}
	// an unmodelled library function: harmless only if it cannot write anything we track
	for _, a := range args {
		switch a.(type) {
		case sxInt, sxBool, sxStr, sxFunc, sxOpaque:
		case sxIface:
		case sxObj:
		default:
			sx.stop("%s: call of %s, which is not modelled and receives a reference", fr.fn.Name(), callee.String())
		}
	}
	sx.Unknown = append(sx.Unknown, callee.String())
	return sx.opaqueOf(x.Type(), "result of "+callee.String())
}

// shape wraps an object handle the way the call's result type wants it
// (interface, pointer, tuple with a nil error).
func (sx *Sx) shape(t types.Type, v sxVal) sxVal {
	if tup, ok := t.(*types.Tuple); ok {
		out := make(sxTuple, tup.Len())
		for i := range out {
			if i == 0 {
				out[i] = sx.shape(tup.At(0).Type(), v)
			} else {
				out[i] = sx.zeroValue(tup.At(i).Type())
			}
		}
		return out
	}
	if _, ok := t.Underlying().(*types.Interface); ok {
		return sxIface{V: v, T: t}
	}
	return v
}

func (sx *Sx) opaqueOf(t types.Type, why string) sxVal {
	if t == nil {
		return sxOpaque{why}
	}
	switch u := t.Underlying().(type) {
	case *types.Basic:
		if w, _, ok := lanes.IntWidth(t); ok {
			return sxInt{V: lanes.TopVec(w), T: sx.top(why)}
		}
		if u.Info()&types.IsBoolean != 0 {
			return sxBool{Why: why}
		}
		if u.Info()&types.IsString != 0 {
			return sxStr{sx.top(why)}
		}
	case *types.Slice:
		if isByteType(u.Elem()) {
			return sxStr{sx.top(why)}
		}
	case *types.Tuple:
		out := make(sxTuple, u.Len())
		for i := range out {
			out[i] = sx.opaqueOf(u.At(i).Type(), why)
		}
		return out
	}
	return sxOpaque{why}
}

// objOf: the modelled object a receiver value denotes.
func (sx *Sx) objOf(v sxVal, callee *ssa.Function) *sxObject {
	switch r := v.(type) {
	case sxObj:
		return r.O
	case sxIface:
		if r.V != nil {
			return sx.objOf(r.V, callee)
		}
	case sxPtr:
		if r.N == nil {
			return nil
		}
		if r.N.Obj != nil {
			return r.N.Obj
		}
		// a zero bytes.Buffer / strings.Builder is ready to use
		if n, ok := r.N.T.(*types.Named); ok && n.Obj().Pkg() != nil {
			switch n.Obj().Pkg().Path() + "." + n.Obj().Name() {
			case "bytes.Buffer", "strings.Builder":
				r.N.Obj = &sxObject{Kind: "buf", Ctor: n.Obj().Pkg().Path() + "." + n.Obj().Name()}
				r.N.Kids, r.N.Leaf = nil, nil
				return r.N.Obj
			}
		}
		if o, ok := r.N.Leaf.(sxObj); ok {
			return o.O
		}
	}
	return nil
}

// apply: a label call becomes an application term.
func (fr *sxFrame) apply(x *ssa.Call, label string, args []sxVal) sxVal {
	sx := fr.sx
	ts := make([]*Tm, len(args))
	for i, a := range args {
		t := sx.argTerm(a)
		if t == nil {
			sx.stop("%s: argument %d of %s is a %T, which has no term", fr.fn.Name(), i, label, a)
		}
		ts[i] = t
	}
	sx.Applied[label]++
	app := sx.TmApp(label, ts...)
	if app.Op == "app" && app.S == label && sx.LabelLen != nil {
		if n := sx.LabelLen(label); n > 0 {
			app.M = n
		}
	}
	return sx.resultOf(x.Type(), app)
}

func (sx *Sx) argTerm(a sxVal) *Tm {
	if t, ok := sx.bytesTerm(a); ok {
		return t
	}
	switch y := a.(type) {
	case sxInt:
		return sx.intTerm(y)
	case sxFunc:
		if y.Fn != nil && len(y.Free) == 0 {
			return TmFunc(y.Fn.String())
		}
	case sxBool:
		if y.Known {
			if y.Val {
				return TmInt(1)
			}
			return TmInt(0)
		}
	case sxObj:
		if y.O.Kind == "time" {
			return y.O.T
		}
	}
	return nil
}

// ValueOf is the value of type t whose bytes / integer value is the term tm
// (used by rules to build arguments for a reference evaluation).
func (sx *Sx) ValueOf(t types.Type, tm *Tm) (v any, err error) {
	defer func() {
		if r := recover(); r != nil {
			if a, ok := r.(sxAbort); ok {
				err = fmt.Errorf("%s", a.why)
				return
			}
			panic(r)
		}
	}()
	return sx.resultOf(t, tm), nil
}

// resultOf shapes an application term as a value of type t.
func (sx *Sx) resultOf(t types.Type, app *Tm) sxVal {
	switch u := t.Underlying().(type) {
	case *types.Basic:
		if w, _, ok := lanes.IntWidth(t); ok {
			return sxInt{V: lanes.TopVec(w), T: app}
		}
		if u.Info()&types.IsString != 0 {
			return sxStr{app}
		}
	case *types.Slice:
		if isByteType(u.Elem()) {
			// a fresh buffer owned by the caller (it may be overwritten in place)
			return sxDyn{&sxDynBuf{T: app, Len: TmLen(app)}}
		}
	case *types.Array:
		if isByteType(u.Elem()) && u.Len() <= sxMaxArray {
			if app.Op == "app" {
				app.M = int(u.Len())
			}
			n := &sxNode{T: t, Kids: make([]*sxNode, u.Len())}
			for i := range n.Kids {
				n.Kids[i] = &sxNode{T: u.Elem(), Leaf: sxInt{V: sx.byteOf(app, i)}}
			}
			return sxAgg{n}
		}
	case *types.Tuple:
		out := make(sxTuple, u.Len())
		for i := range out {
			if i == 0 {
				out[i] = sx.resultOf(u.At(0).Type(), app)
			} else {
				out[i] = sx.zeroValue(u.At(i).Type())
			}
		}
		return out
	}
	sx.stop("result type %s of %s has no term form", t, app.Short())
	return nil
}

// ---- builtins -----------------------------------------------------------------------------

func (fr *sxFrame) builtin(x *ssa.Call, name string, args []sxVal) sxVal {
	sx := fr.sx
	switch name {
	case "len", "cap":
		switch a := args[0].(type) {
		case sxStr:
			if l := a.T.Len(); l >= 0 {
				return sxK(l, 64)
			}
			return sxInt{V: lanes.TopVec(64), T: TmLen(a.T)}
		case sxDyn:
			if name == "len" {
				if k, ok := a.B.Len, a.B.Len.Op == "int"; ok {
					return sxK(k.N, 64)
				}
				return sxInt{V: lanes.TopVec(64), T: a.B.Len}
			}
			return sxInt{V: lanes.TopVec(64), T: sx.top("capacity chosen by the runtime")}
		case sxSlice:
			if a.Nil {
				return sxK(0, 64)
			}
			if name == "cap" {
				if a.Arr.grow {
					return sxInt{V: lanes.TopVec(64), T: sx.top("capacity chosen by the runtime")}
				}
				return sxK(a.Cap-a.Lo, 64)
			}
			return sxK(a.Len(), 64)
		case sxPtr:
			if a.N != nil && a.N.Kids != nil {
				return sxK(len(a.N.Kids), 64)
			}
		case sxAgg:
			return sxK(len(a.N.Kids), 64)
		}
		return sxInt{V: lanes.TopVec(64), T: sx.top("length of a value that is not modelled")}
	case "min", "max":
		best, ok := sx.constInt(args[0])
		if !ok {
			sx.stop("%s: %s of values that are not constant on this path", fr.fn.Name(), name)
		}
		for _, a := range args[1:] {
			k, ok := sx.constInt(a)
			if !ok {
				sx.stop("%s: %s of values that are not constant on this path", fr.fn.Name(), name)
			}
			if (name == "min" && k < best) || (name == "max" && k > best) {
				best = k
			}
		}
		w, _, _ := lanes.IntWidth(x.Type())
		if w == 0 {
			w = 64
		}
		return sxK(best, w)
	case "clear":
		if s, ok := args[0].(sxSlice); ok {
			if !s.Nil {
				for i := s.Lo; i < s.Hi; i++ {
					sx.writable(s.Arr.Kids[i], fr.fn)
					sx.writable(s.Arr, fr.fn)
					z := sx.zeroNode(s.Arr.Kids[i].T)
					s.Arr.Kids[i].Leaf, s.Arr.Kids[i].Kids = z.Leaf, z.Kids
				}
			}
			return nil
		}
		sx.stop("%s: clear of a %T", fr.fn.Name(), args[0])
	case "append":
		return fr.appendB(x, args)
	case "copy":
		return fr.copyB(args)
	case "print", "println":
		return nil
	}
	sx.stop("%s: builtin %s is not modelled", fr.fn.Name(), name)
	return nil
}

func (sx *Sx) cellVal(n *sxNode) sxVal {
	if n.Kids != nil {
		return sxAgg{copySxNode(n)}
	}
	return n.Leaf
}

func (fr *sxFrame) appendB(x *ssa.Call, args []sxVal) sxVal {
	sx := fr.sx
	st, _ := x.Type().Underlying().(*types.Slice)
	if st == nil {
		sx.stop("%s: append whose result is not a slice", fr.fn.Name())
	}
	et := st.Elem()
	isB := isByteType(et)
	base := args[0]
	if len(args) == 1 {
		return base
	}
	tail := args[1]
	if d, isDyn := tail.(sxDyn); isDyn {
		tail = sxStr{d.B.T} // append reads the bytes now
	}
	// tail with no elements
	switch t := tail.(type) {
	case sxSlice:
		if t.Nil || t.Len() == 0 {
			return base
		}
	case sxStr:
		if t.T.Len() == 0 {
			return base
		}
	}
	bs, baseArr := base.(sxSlice)
	// concrete case: array-backed base and a tail of known length
	var elems []sxVal
	concrete := false
	switch t := tail.(type) {
	case sxSlice:
		concrete = true
		for i := t.Lo; i < t.Hi; i++ {
			elems = append(elems, sx.cellVal(t.Arr.Kids[i]))
		}
	case sxStr:
		if l := t.T.Len(); isB && l >= 0 && l <= sxMaxArray && !t.T.HasTop() {
			concrete = true
			for i := 0; i < l; i++ {
				elems = append(elems, sxInt{V: sx.byteOf(t.T, i)})
			}
		}
	}
	if baseArr && concrete {
		mk := func(v sxVal) *sxNode {
			if ag, ok := v.(sxAgg); ok {
				return copySxNode(ag.N)
			}
			return &sxNode{T: et, Leaf: v}
		}
		if !bs.Nil {
			if bs.Arr.frozen != "" {
				sx.stop("%s: append to a buffer after %s (the two may share storage)", fr.fn.Name(), bs.Arr.frozen)
			}
			if bs.Arr.ro {
				// appending to a view of an immutable value always copies when it is full
				if bs.Hi != bs.Cap {
					sx.stop("%s: append into spare capacity of an immutable value", fr.fn.Name())
				}
			}
			if bs.Hi+len(elems) <= bs.Cap && !bs.Arr.grow {
				for i, e := range elems {
					fr.store(sxPtr{bs.Arr.Kids[bs.Hi+i]}, e)
				}
				return sxSlice{Arr: bs.Arr, Lo: bs.Lo, Hi: bs.Hi + len(elems), Cap: bs.Cap}
			}
			if bs.Arr.grow {
				if bs.Hi != len(bs.Arr.Kids) {
					sx.stop("%s: two appends extend the same slice value (their results may share storage)", fr.fn.Name())
				}
				for _, e := range elems {
					bs.Arr.Kids = append(bs.Arr.Kids, mk(e))
				}
				return sxSlice{Arr: bs.Arr, Lo: bs.Lo, Hi: len(bs.Arr.Kids), Cap: len(bs.Arr.Kids)}
			}
		}
		arr := &sxNode{T: types.NewArray(et, 0), grow: true, Kids: []*sxNode{}}
		if !bs.Nil {
			for i := bs.Lo; i < bs.Hi; i++ {
				arr.Kids = append(arr.Kids, copySxNode(bs.Arr.Kids[i]))
			}
		}
		for _, e := range elems {
			arr.Kids = append(arr.Kids, mk(e))
		}
		return sxSlice{Arr: arr, Lo: 0, Hi: len(arr.Kids), Cap: len(arr.Kids)}
	}
	if !isB {
		sx.stop("%s: append of a %T to a %T", fr.fn.Name(), tail, base)
	}
	// symbolic case: the result is the concatenation, detached from the base
	bt, ok1 := sx.bytesTerm(base)
	tt, ok2 := sx.bytesTerm(tail)
	if !ok1 || !ok2 {
		sx.stop("%s: append of a %T to a %T", fr.fn.Name(), tail, base)
	}
	if baseArr && !bs.Nil {
		if bs.Arr.frozen != "" {
			sx.stop("%s: append to a buffer after %s (the two may share storage)", fr.fn.Name(), bs.Arr.frozen)
		}
		if bs.Arr.grow && bs.Hi != len(bs.Arr.Kids) {
			sx.stop("%s: two appends extend the same slice value (their results may share storage)", fr.fn.Name())
		}
		if bs.Arr.grow || bs.Hi < bs.Cap {
			// the appended bytes may live in the base's spare capacity
			bs.Arr.frozen = "an append of a value of unknown length extended it"
		}
	}
	return sxStr{TmCat(bt, tt)}
}

func (fr *sxFrame) copyB(args []sxVal) sxVal {
	sx := fr.sx
	if d, isDyn := args[0].(sxDyn); isDyn {
		t, okT := sx.bytesTerm(args[1])
		if !okT {
			sx.stop("%s: copy from a %T", fr.fn.Name(), args[1])
		}
		sx.overwrite(fr, d, t, "copy", TmLen(t))
		return sx.lenVal(t)
	}
	dst, ok := args[0].(sxSlice)
	if !ok {
		sx.stop("%s: copy into a %T", fr.fn.Name(), args[0])
	}
	if dst.Nil {
		return sxK(0, 64)
	}
	var src []sxVal
	from := args[1]
	if d, isDyn := from.(sxDyn); isDyn {
		from = sxStr{d.B.T} // copy reads the bytes now
	}
	switch s := from.(type) {
	case sxSlice:
		if !s.Nil {
			for i := s.Lo; i < s.Hi; i++ {
				src = append(src, sx.cellVal(s.Arr.Kids[i]))
			}
		}
	case sxStr:
		l := s.T.Len()
		if l < 0 {
			// a source of unknown length: byte i of the window becomes byte i of the
			// source where the source has one and keeps its old value elsewhere. Over
			// an all-zero window that is the source's zero-padded extension.
			if s.T.HasTop() {
				sx.stop("%s: copy of a value that is not modelled (%s)", fr.fn.Name(), s.T.FirstTop())
			}
			allZero := true
			for i := dst.Lo; i < dst.Hi; i++ {
				iv, isI := dst.Arr.Kids[i].Leaf.(sxInt)
				k, isK := iv.V.ConstVal()
				if !isI || !isK || k.Sign() != 0 {
					allZero = false
				}
			}
			if allZero {
				for i := 0; i < dst.Len(); i++ {
					fr.store(sxPtr{dst.Arr.Kids[dst.Lo+i]}, sxInt{V: sx.byteOf(s.T, i)})
				}
			} else {
				over := &Tm{Op: "over", A: []*Tm{s.T, sx.cellsTerm(dst.Arr, dst.Lo, dst.Hi)}, M: dst.Len()}
				for i := 0; i < dst.Len(); i++ {
					fr.store(sxPtr{dst.Arr.Kids[dst.Lo+i]}, sxInt{V: lanes.SrcByte(sx.srcOf(over), i)})
				}
			}
			return sxInt{V: lanes.TopVec(64), T: &Tm{Op: "min", A: []*Tm{TmInt(dst.Len()), TmLen(s.T)}}}
		}
		if s.T.HasTop() {
			sx.stop("%s: copy of a value that is not modelled (%s)", fr.fn.Name(), s.T.FirstTop())
		}
		for i := 0; i < l && i < dst.Len(); i++ {
			src = append(src, sxInt{V: sx.byteOf(s.T, i)})
		}
	default:
		sx.stop("%s: copy from a %T", fr.fn.Name(), args[1])
	}
	n := len(src)
	if dst.Len() < n {
		n = dst.Len()
	}
	for i := 0; i < n; i++ {
		fr.store(sxPtr{dst.Arr.Kids[dst.Lo+i]}, src[i])
	}
	return sxK(n, 64)
}

// overwrite replaces the whole content of a symbolic-length buffer by t, which
// must have exactly the buffer's length.
func (sx *Sx) overwrite(fr *sxFrame, d sxDyn, t *Tm, what string, n *Tm) {
	if d.B.viewed {
		sx.stop("%s: %s into a buffer of which a window was taken earlier", fr.fn.Name(), what)
	}
	if !SameTm(n, d.B.Len) {
		sx.stop("%s: %s of %s bytes into a buffer of %s bytes (lengths not provably equal)", fr.fn.Name(), what, n.Short(), d.B.Len.Short())
	}
	d.B.T = t
}

// ---- interface methods --------------------------------------------------------------------

func (fr *sxFrame) invoke(x *ssa.Call, recv sxVal, method string, args []sxVal) sxVal {
	sx := fr.sx
	if obj := sx.objOf(recv, nil); obj != nil {
		if v, ok := fr.method(x, obj, method, args); ok {
			return v
		}
		sx.stop("%s: interface method %s of a modelled %s object is not modelled", fr.fn.Name(), method, obj.Kind)
	}
	if i, ok := recv.(sxIface); ok && i.V != nil {
		if _, isErr := i.V.(sxOpaque); isErr && method == "Error" {
			return sxStr{sx.top("text of an error")}
		}
	}
	sx.stop("%s: interface method %s on a value that is not a modelled object (%T)", fr.fn.Name(), method, recv)
	return nil
}

// method implements the contracts of the modelled objects.
func (fr *sxFrame) method(x *ssa.Call, o *sxObject, name string, args []sxVal) (sxVal, bool) {
	sx := fr.sx
	nilErr := sxIface{}
	bytesArg := func(i int) *Tm {
		t, ok := sx.bytesTerm(args[i])
		if !ok {
			sx.stop("%s: argument of %s is a %T", fr.fn.Name(), name, args[i])
		}
		return t
	}
	wrote := func(t *Tm) sxVal {
		switch rt := x.Type().(type) {
		case *types.Tuple:
			if rt.Len() == 2 {
				return sxTuple{sx.lenVal(t), nilErr}
			}
			if rt.Len() == 0 {
				return nil
			}
		default:
			if _, _, isInt := lanes.IntWidth(x.Type()); isInt {
				return sx.lenVal(t)
			}
			if x.Type().String() == "error" {
				return nilErr
			}
		}
		sx.stop("%s: %s with an unexpected result type %s", fr.fn.Name(), name, x.Type())
		return nil
	}
	switch o.Kind {
	case "hash":
		switch name {
		case "Write", "WriteString":
			t := bytesArg(0)
			o.In = append(o.In, t)
			return wrote(t), true
		case "Sum":
			h := TmHash(o.Ctor, o.Args, TmCat(o.In...))
			if len(args) == 0 {
				// in-module digest types return the array
				return sx.resultOf(x.Type(), h), true
			}
			return sxStr{TmCat(bytesArg(0), h)}, true
		case "Reset":
			o.In = nil
			return nil, true
		case "Size":
			if n := hashSize(&Tm{Op: "hash", S: o.Ctor, A: []*Tm{{Op: "tuple", A: o.Args}, TmConst("")}}); n > 0 {
				return sxK(n, 64), true
			}
		case "BlockSize":
			return sxK(64, 64), true
		}
	case "cipher":
		bs, op := 8, "des"
		if o.Ctor == "crypto/aes.NewCipher" {
			bs, op = 16, "aes"
		}
		switch name {
		case "BlockSize":
			return sxK(bs, 64), true
		case "Encrypt", "Decrypt":
			dst, ok := args[0].(sxSlice)
			if !ok || dst.Nil || dst.Len() < bs {
				sx.stop("%s: %s into a destination that is not an array-backed buffer of at least %d bytes", fr.fn.Name(), name, bs)
			}
			src := bytesArg(1)
			if !sx.prefixKnown(src, bs) {
				sx.stop("%s: %s of a source that is not provably %d bytes long", fr.fn.Name(), name, bs)
			}
			p, _ := tmSlice(src, 0, bs)
			if name == "Decrypt" {
				op += "dec"
			}
			ct := &Tm{Op: op, A: []*Tm{o.Key, p}, KV: o.KV, M: bs}
			for i := 0; i < bs; i++ {
				fr.store(sxPtr{dst.Arr.Kids[dst.Lo+i]}, sxInt{V: lanes.SrcByte(sx.srcOf(ct), i)})
			}
			return nil, true
		}
	case "mode":
		switch name {
		case "BlockSize":
			return sxK(16, 64), true
		case "CryptBlocks":
			src := bytesArg(1)
			out := &Tm{Op: "app", S: o.Ctor, A: []*Tm{o.Key, o.Args[0], src}, M: src.Len()}
			sx.Trace = append(sx.Trace, "CryptBlocks <"+o.Ctor+"> after: "+strings.Join(sx.Assumed, "; "))
			switch dst := args[0].(type) {
			case sxDyn:
				sx.overwrite(fr, dst, out, "CryptBlocks", TmLen(src))
			case sxSlice:
				l := src.Len()
				if dst.Nil || l < 0 || dst.Len() < l {
					sx.stop("%s: CryptBlocks into a destination that is not provably as long as the source", fr.fn.Name())
				}
				for i := 0; i < l; i++ {
					fr.store(sxPtr{dst.Arr.Kids[dst.Lo+i]}, sxInt{V: sx.byteOf(out, i)})
				}
			default:
				sx.stop("%s: CryptBlocks into a %T (an immutable value or one that is not modelled)", fr.fn.Name(), args[0])
			}
			// chaining continues from the last block written
			o.Args = []*Tm{{Op: "lastblock", A: []*Tm{out}, M: 16}}
			return nil, true
		}
	case "ext":
		if strings.HasPrefix(o.Ctor, "encoding/base64.") {
			switch name {
			case "EncodeToString":
				return sxStr{sx.TmApp("base64.EncodeToString<"+o.Ctor+">", bytesArg(0))}, true
			case "DecodeString":
				return sxTuple{sxStr{sx.TmApp("base64.DecodeString<"+o.Ctor+">", bytesArg(0))}, nilErr}, true
			}
		}
	case "buf":
		switch name {
		case "Write", "WriteString":
			t := bytesArg(0)
			o.In = append(o.In, t)
			return wrote(t), true
		case "WriteByte":
			iv, ok := args[0].(sxInt)
			if !ok {
				return nil, false
			}
			o.In = append(o.In, sx.cellTerm(iv.V.Resize(8, false)))
			if x.Type().String() == "error" {
				return nilErr, true
			}
			return nil, true
		case "WriteRune":
			if k, ok := sx.constInt(args[0]); ok && k < 0x80 {
				o.In = append(o.In, TmConst(string(rune(k))))
				return sxTuple{sxK(1, 64), nilErr}, true
			}
			return nil, false
		case "Grow":
			return nil, true
		case "Reset":
			o.In = nil
			return nil, true
		case "Len":
			return sx.lenVal(TmCat(o.In...)), true
		case "Bytes", "String":
			return sxStr{TmCat(o.In...)}, true
		}
	case "time":
		switch name {
		case "Unix", "UnixNano", "UnixMilli", "UnixMicro", "Nanosecond", "Second":
			return sxInt{V: lanes.TopVec(64), T: sx.TmApp("time.Time."+name, o.T)}, true
		case "UTC", "Local":
			return sxObj{o}, true
		}
	}
	return nil, false
}

func (sx *Sx) lenVal(t *Tm) sxVal {
	if l := t.Len(); l >= 0 {
		return sxK(l, 64)
	}
	return sxInt{V: lanes.TopVec(64), T: TmLen(t)}
}

// ---- library models -------------------------------------------------------------------------

func binaryCall(name string) (be bool, op string, width int, ok bool) {
	for _, o := range []struct {
		p  string
		be bool
	}{{"(encoding/binary.littleEndian).", false}, {"(encoding/binary.bigEndian).", true}} {
		if !strings.HasPrefix(name, o.p) {
			continue
		}
		rest := strings.TrimPrefix(name, o.p)
		for _, opn := range []string{"PutUint", "AppendUint", "Uint"} {
			if strings.HasPrefix(rest, opn) {
				switch strings.TrimPrefix(rest, opn) {
				case "16":
					return o.be, opn, 2, true
				case "32":
					return o.be, opn, 4, true
				case "64":
					return o.be, opn, 8, true
				}
			}
		}
	}
	return false, "", 0, false
}

// intBytes: the `width` bytes of the fixed-width encoding of v, first byte first.
func (sx *Sx) intBytes(v sxInt, width int, be bool) []lanes.Vec {
	out := make([]lanes.Vec, width)
	vec := v.V.Resize(8*width, false)
	useTerm := vec.HasTop()
	if _, isK := vec.ConstVal(); !isK && !useTerm && len(v.V) == 8*width {
		// an integer that is a term as a whole (a parameter, a field) is written as
		// its fixed-width encoding, not lane by lane
		if t := sx.intTerm(v); t.Op == "param" || t.Op == "field" || t.Op == "app" || t.Op == "arith" {
			useTerm = true
		}
	}
	var enc *Tm
	if useTerm {
		op := "le"
		if be {
			op = "be"
		}
		enc = &Tm{Op: op, N: width, A: []*Tm{sx.intTerm(v)}}
	}
	for i := 0; i < width; i++ {
		if useTerm {
			out[i] = lanes.SrcByte(sx.srcOf(enc), i)
			continue
		}
		k := i
		if be {
			k = width - 1 - i
		}
		out[i] = append(lanes.Vec(nil), vec[8*k:8*k+8]...)
	}
	return out
}

func (fr *sxFrame) stdlib(x *ssa.Call, callee *ssa.Function, args []sxVal) (sxVal, bool) {
	sx := fr.sx
	name := callee.String()
	nilErr := sxIface{}
	bytesArg := func(i int) *Tm {
		t, ok := sx.bytesTerm(args[i])
		if !ok {
			sx.stop("%s: argument %d of %s is a %T", fr.fn.Name(), i, name, args[i])
		}
		return t
	}
	intArg := func(i int) sxInt {
		iv, ok := args[i].(sxInt)
		if !ok {
			sx.stop("%s: argument %d of %s is a %T", fr.fn.Name(), i, name, args[i])
		}
		return iv
	}
	if be, op, width, ok := binaryCall(name); ok {
		switch op {
		case "PutUint":
			dst, okd := args[1].(sxSlice)
			if !okd || dst.Nil || dst.Len() < width {
				sx.stop("%s: %s into a destination that is not an array-backed buffer of at least %d bytes", fr.fn.Name(), name, width)
			}
			for i, b := range sx.intBytes(intArg(2), width, be) {
				fr.store(sxPtr{dst.Arr.Kids[dst.Lo+i]}, sxInt{V: b})
			}
			return nil, true
		case "AppendUint":
			cells := sx.intBytes(intArg(2), width, be)
			arr := &sxNode{T: types.NewArray(types.Typ[types.Uint8], int64(width)), Kids: make([]*sxNode, width)}
			for i := range cells {
				arr.Kids[i] = &sxNode{T: types.Typ[types.Uint8], Leaf: sxInt{V: cells[i]}}
			}
			return fr.appendB(x, []sxVal{args[1], sxSlice{Arr: arr, Lo: 0, Hi: width, Cap: width}}), true
		case "Uint":
			src := bytesArg(1)
			if !sx.prefixKnown(src, width) {
				sx.stop("%s: %s of a source that is not provably %d bytes long", fr.fn.Name(), name, width)
			}
			v := make(lanes.Vec, 0, 8*width)
			for k := 0; k < width; k++ {
				i := k
				if be {
					i = width - 1 - k
				}
				v = append(v, sx.byteOf(src, i)...)
			}
			return sxInt{V: v}, true
		}
	}
	switch name {
	case "strings.ToUpper", "strings.ToLower", "strings.TrimSpace", "bytes.ToUpper", "bytes.ToLower", "strings.ToTitle", "strings.Title":
		l := name
		if strings.HasPrefix(l, "bytes.To") {
			l = "strings." + strings.TrimPrefix(l, "bytes.")
		}
		return sxStr{sx.TmApp(l, bytesArg(0))}, true
	case "strings.Map", "bytes.Map":
		// Map(unicode.ToUpper, s) is how strings.ToUpper maps a string that is not ASCII-only
		if f, ok := args[0].(sxFunc); ok && f.Fn != nil && len(f.Free) == 0 {
			switch f.Fn.String() {
			case "unicode.ToUpper":
				return sxStr{sx.TmApp("strings.ToUpper", bytesArg(1))}, true
			case "unicode.ToLower":
				return sxStr{sx.TmApp("strings.ToLower", bytesArg(1))}, true
			}
		}
		return nil, false
	case "strings.Clone", "bytes.Clone":
		t := bytesArg(0)
		if l := t.Len(); l >= 0 && l <= sxMaxArray && name == "bytes.Clone" && !t.HasTop() {
			return sx.materialise(t), true
		}
		return sxStr{t}, true
	case "strings.Repeat", "bytes.Repeat":
		s := bytesArg(0)
		if k, ok := sx.constInt(args[1]); ok {
			if k < 0 || k > sxMaxArray {
				sx.stop("%s: Repeat count %d", fr.fn.Name(), k)
			}
			parts := make([]*Tm, k)
			for i := range parts {
				parts[i] = s
			}
			return sxStr{TmCat(parts...)}, true
		}
		if s.Op != "const" {
			sx.stop("%s: Repeat of a non-constant string a non-constant number of times", fr.fn.Name())
		}
		return sxStr{&Tm{Op: "rep", S: s.S, A: []*Tm{sx.intTerm(intArg(1))}}}, true
	case "encoding/hex.EncodeToString":
		return sxStr{sx.TmApp(name, bytesArg(0))}, true
	case "encoding/hex.AppendEncode":
		return fr.appendB(x, []sxVal{args[0], sxStr{sx.TmApp("encoding/hex.EncodeToString", bytesArg(1))}}), true
	case "encoding/hex.Encode":
		dst, okd := args[0].(sxSlice)
		h := sx.TmApp("encoding/hex.EncodeToString", bytesArg(1))
		l := h.Len()
		if !okd || dst.Nil || l < 0 || dst.Len() < l || h.HasTop() {
			sx.stop("%s: hex.Encode into a destination that is not an array-backed buffer provably long enough", fr.fn.Name())
		}
		for i := 0; i < l; i++ {
			fr.store(sxPtr{dst.Arr.Kids[dst.Lo+i]}, sxInt{V: sx.byteOf(h, i)})
		}
		return sxK(l, 64), true
	case "strings.Join", "bytes.Join":
		parts, okp := args[0].(sxSlice)
		if !okp {
			return nil, false
		}
		sep := bytesArg(1)
		var ts []*Tm
		if !parts.Nil {
			for i := parts.Lo; i < parts.Hi; i++ {
				t, ok := sx.bytesTerm(parts.Arr.Kids[i].Leaf)
				if !ok {
					return nil, false
				}
				if i > parts.Lo {
					ts = append(ts, sep)
				}
				ts = append(ts, t)
			}
		}
		return sxStr{TmCat(ts...)}, true
	case "fmt.Appendf":
		return fr.appendB(x, []sxVal{args[0], fr.sprintf(args[1:])}), true
	case "encoding/binary.Write":
		w := sx.objOf(args[0], nil)
		ord := sx.objOf(args[1], nil)
		if w == nil || (w.Kind != "buf" && w.Kind != "hash") || ord == nil || ord.Kind != "ext" {
			return nil, false
		}
		be := false
		switch ord.Ctor {
		case "encoding/binary.LittleEndian":
		case "encoding/binary.BigEndian":
			be = true
		default:
			return nil, false
		}
		d := args[2]
		var dt types.Type
		if iv, isI := d.(sxIface); isI {
			d, dt = iv.V, iv.T
		}
		var t *Tm
		switch y := d.(type) {
		case sxInt:
			w8, _, okW := lanes.IntWidth(dt)
			if !okW || w8%8 != 0 {
				return nil, false
			}
			var parts []*Tm
			for _, b := range sx.intBytes(y, w8/8, be) {
				parts = append(parts, sx.cellTerm(b))
			}
			t = TmCat(parts...)
		default:
			bt, okB := sx.bytesTerm(d)
			if !okB {
				return nil, false
			}
			t = bt
		}
		w.In = append(w.In, t)
		return nilErr, true
	case "encoding/hex.EncodedLen":
		if k, ok := sx.constInt(args[0]); ok {
			return sxK(2*k, 64), true
		}
		return sxInt{V: lanes.TopVec(64), T: tmIntArith("*", TmInt(2), sx.intTerm(intArg(0)))}, true
	case "strconv.Itoa":
		return sxStr{&Tm{Op: "itoa", N: 10, A: []*Tm{sx.intTerm(intArg(0))}}}, true
	case "strconv.FormatInt", "strconv.FormatUint":
		b, ok := sx.constInt(args[1])
		if !ok {
			return nil, false
		}
		return sxStr{&Tm{Op: "itoa", N: b, A: []*Tm{sx.intTerm(intArg(0))}}}, true
	case "strconv.AppendInt", "strconv.AppendUint":
		b, ok := sx.constInt(args[2])
		if !ok {
			return nil, false
		}
		return fr.appendB(x, []sxVal{args[0], sxStr{&Tm{Op: "itoa", N: b, A: []*Tm{sx.intTerm(intArg(1))}}}}), true
	case "fmt.Sprintf":
		return fr.sprintf(args), true
	case "fmt.Fprintf":
		if o := sx.objOf(args[0], nil); o != nil && o.Kind == "buf" {
			t := fr.sprintf(args[1:]).(sxStr).T
			o.In = append(o.In, t)
			return sxTuple{sx.lenVal(t), nilErr}, true
		}
		return nil, false
	case "io.WriteString":
		if o := sx.objOf(args[0], nil); o != nil && (o.Kind == "buf" || o.Kind == "hash") {
			t := bytesArg(1)
			o.In = append(o.In, t)
			return sxTuple{sx.lenVal(t), nilErr}, true
		}
		return nil, false
	case "fmt.Sprint":
		return nil, false
	case "errors.New", "fmt.Errorf":
		return sxIface{V: sxOpaque{"a freshly built error"}, T: x.Type()}, true
	case "crypto/md5.New", "crypto/sha1.New", "crypto/sha256.New":
		return sxIface{V: sxObj{&sxObject{Kind: "hash", Ctor: name}}, T: x.Type()}, true
	case "crypto/md5.Sum", "crypto/sha1.Sum", "crypto/sha256.Sum256":
		ctor := map[string]string{"crypto/md5.Sum": "crypto/md5.New", "crypto/sha1.Sum": "crypto/sha1.New", "crypto/sha256.Sum256": "crypto/sha256.New"}[name]
		return sx.resultOf(x.Type(), TmHash(ctor, nil, bytesArg(0))), true
	case "crypto/hmac.New":
		f := sx.argTerm(args[0])
		if f == nil || f.Op != "func" {
			sx.stop("%s: hmac.New with a hash constructor that is not a plain function value", fr.fn.Name())
		}
		return sxIface{V: sxObj{&sxObject{Kind: "hash", Ctor: name, Args: []*Tm{f, bytesArg(1)}}}, T: x.Type()}, true
	case "crypto/hmac.Equal", "bytes.Equal", "crypto/subtle.ConstantTimeCompare":
		a, b := bytesArg(0), bytesArg(1)
		if name == "crypto/subtle.ConstantTimeCompare" {
			return nil, false
		}
		if SameTm(a, b) && !a.HasTop() {
			return sxBool{Known: true, Val: true}, true
		}
		if a.Op == "const" && b.Op == "const" {
			return sxBool{Known: true, Val: a.S == b.S}, true
		}
		return sxBool{Why: name + "(" + a.Short() + ", " + b.Short() + ")"}, true
	case "crypto/des.NewCipher":
		k := bytesArg(0)
		if k.Len() != 8 {
			sx.stop("%s: des.NewCipher with a key that is not provably 8 bytes long (%s)", fr.fn.Name(), k.Short())
		}
		kv := make([]lanes.Vec, 8)
		for i := range kv {
			kv[i] = sx.byteOf(k, i)
		}
		o := &sxObject{Kind: "cipher", Ctor: name, Key: k, KV: kv}
		return sxTuple{sxIface{V: sxObj{o}, T: x.Type().(*types.Tuple).At(0).Type()}, nilErr}, true
	case "crypto/aes.NewCipher":
		k := bytesArg(0)
		if l := k.Len(); l != 16 && l != 24 && l != 32 {
			sx.stop("%s: aes.NewCipher with a key that is not provably 16, 24 or 32 bytes long (%s)", fr.fn.Name(), k.Short())
		}
		o := &sxObject{Kind: "cipher", Ctor: name, Key: k}
		return sxTuple{sxIface{V: sxObj{o}, T: x.Type().(*types.Tuple).At(0).Type()}, nilErr}, true
	case "crypto/cipher.NewCBCEncrypter", "crypto/cipher.NewCBCDecrypter":
		b := sx.objOf(args[0], nil)
		if b == nil || b.Kind != "cipher" {
			sx.stop("%s: %s over a block cipher that is not modelled", fr.fn.Name(), name)
		}
		iv := bytesArg(1)
		bs := 8
		if b.Ctor == "crypto/aes.NewCipher" {
			bs = 16
		}
		if l := iv.Len(); l >= 0 && l != bs {
			sx.stop("%s: %s with an iv of %d bytes for a block of %d — the code would panic", fr.fn.Name(), name, l, bs)
		} else if l < 0 {
			sx.stop("%s: %s with an iv whose length is not fixed", fr.fn.Name(), name)
		}
		dir := "cbc-enc"
		if strings.HasSuffix(name, "Decrypter") {
			dir = "cbc-dec"
		}
		o := &sxObject{Kind: "mode", Ctor: dir + "<" + b.Ctor + ">", Key: b.Key, Args: []*Tm{iv}}
		return sxIface{V: sxObj{o}, T: x.Type()}, true
	case "golang.org/x/crypto/pbkdf2.Key":
		f := sx.argTerm(args[4])
		if f == nil {
			sx.stop("%s: pbkdf2.Key with a hash constructor that is not a plain function value", fr.fn.Name())
		}
		return sxStr{sx.TmApp(name, bytesArg(0), bytesArg(1), sx.intTerm(intArg(2)), sx.intTerm(intArg(3)), f)}, true
	case "crypto/rand.Read":
		dst, ok := args[0].(sxSlice)
		if !ok {
			sx.stop("%s: rand.Read into a %T", fr.fn.Name(), args[0])
		}
		if !dst.Nil {
			f := sx.fresh(name, dst.Len(), x.Pos())
			for i := 0; i < dst.Len(); i++ {
				fr.store(sxPtr{dst.Arr.Kids[dst.Lo+i]}, sxInt{V: lanes.SrcByte(sx.srcOf(f), i)})
			}
		}
		return sxTuple{sxK(dst.Len(), 64), nilErr}, true
	case "time.Now":
		return sxObj{&sxObject{Kind: "time", T: sx.fresh(name, -1, x.Pos())}}, true
	case "bytes.NewBuffer", "bytes.NewBufferString":
		o := &sxObject{Kind: "buf", Ctor: "bytes.Buffer"}
		t := bytesArg(0)
		if t.Len() != 0 {
			o.In = append(o.In, t)
		}
		if s, isArr := args[0].(sxSlice); isArr && !s.Nil && s.Len() > 0 {
			s.Arr.frozen = "bytes.NewBuffer took ownership of it"
		}
		return sxPtr{&sxNode{T: callee.Signature.Results().At(0).Type().(*types.Pointer).Elem(), Obj: o}}, true
	}
	switch {
	case strings.HasPrefix(name, "slices.Clone["):
		t := bytesArg(0)
		if l := t.Len(); l >= 0 && l <= sxMaxArray && !t.HasTop() {
			return sx.materialise(t), true
		}
		return sxStr{t}, true
	case strings.HasPrefix(name, "slices.Concat["):
		parts, ok := args[0].(sxSlice)
		if !ok {
			return nil, false
		}
		var ts []*Tm
		if !parts.Nil {
			for i := parts.Lo; i < parts.Hi; i++ {
				t, ok := sx.bytesTerm(parts.Arr.Kids[i].Leaf)
				if !ok {
					return nil, false
				}
				ts = append(ts, t)
			}
		}
		return sxStr{TmCat(ts...)}, true
	case strings.HasPrefix(name, "slices.Equal["):
		a, b := bytesArg(0), bytesArg(1)
		if SameTm(a, b) && !a.HasTop() {
			return sxBool{Known: true, Val: true}, true
		}
		return sxBool{Why: "slices.Equal(" + a.Short() + ", " + b.Short() + ")"}, true
	}
	return nil, false
}

// sprintf models fmt.Sprintf for a constant format made of literal text and the
// verbs %s %d %x %X %v (on strings, byte slices and integers).
func (fr *sxFrame) sprintf(args []sxVal) sxVal {
	sx := fr.sx
	fs, ok := args[0].(sxStr)
	if !ok || fs.T.Op != "const" {
		sx.stop("%s: fmt.Sprintf with a format that is not a constant", fr.fn.Name())
	}
	format := fs.T.S
	var vals []sxVal
	if va, ok := args[1].(sxSlice); ok && !va.Nil {
		for i := va.Lo; i < va.Hi; i++ {
			vals = append(vals, va.Arr.Kids[i].Leaf)
		}
	}
	var parts []*Tm
	lit := ""
	ai := 0
	for i := 0; i < len(format); i++ {
		c := format[i]
		if c != '%' {
			lit += string(c)
			continue
		}
		if i+1 >= len(format) {
			sx.stop("%s: malformed format %q", fr.fn.Name(), format)
		}
		i++
		verb := format[i]
		if verb == '%' {
			lit += "%"
			continue
		}
		if ai >= len(vals) {
			sx.stop("%s: format %q has more verbs than arguments", fr.fn.Name(), format)
		}
		a := vals[ai]
		ai++
		if iv, isI := a.(sxIface); isI {
			a = iv.V
		}
		if lit != "" {
			parts = append(parts, TmConst(lit))
			lit = ""
		}
		switch verb {
		case 's', 'v':
			if d, isDyn := a.(sxDyn); isDyn {
				a = sxStr{d.B.T}
			}
			switch y := a.(type) {
			case sxStr, sxSlice:
				if _, isSlice := y.(sxSlice); isSlice && verb == 'v' {
					sx.stop("%s: %%v of a byte slice", fr.fn.Name())
				}
				t, _ := sx.bytesTerm(y)
				parts = append(parts, t)
			case sxInt:
				if verb != 'v' {
					sx.stop("%s: %%s of an integer", fr.fn.Name())
				}
				parts = append(parts, &Tm{Op: "itoa", N: 10, A: []*Tm{sx.intTerm(y)}})
			default:
				sx.stop("%s: %%%c of a %T is not modelled", fr.fn.Name(), verb, a)
			}
		case 'd':
			y, isI := a.(sxInt)
			if !isI {
				sx.stop("%s: %%d of a %T is not modelled", fr.fn.Name(), a)
			}
			parts = append(parts, &Tm{Op: "itoa", N: 10, A: []*Tm{sx.intTerm(y)}})
		case 'x', 'X':
			t, isB := sx.bytesTerm(a)
			if !isB {
				if y, isI := a.(sxInt); isI && verb == 'x' {
					parts = append(parts, &Tm{Op: "itoa", N: 16, A: []*Tm{sx.intTerm(y)}})
					continue
				}
				sx.stop("%s: %%%c of a %T is not modelled", fr.fn.Name(), verb, a)
			}
			h := sx.TmApp("encoding/hex.EncodeToString", t)
			if verb == 'X' {
				h = sx.TmApp("strings.ToUpper", h)
			}
			parts = append(parts, h)
		default:
			sx.stop("%s: format verb %%%c is not modelled", fr.fn.Name(), verb)
		}
	}
	if ai != len(vals) {
		sx.stop("%s: format %q has fewer verbs than arguments", fr.fn.Name(), format)
	}
	if lit != "" {
		parts = append(parts, TmConst(lit))
	}
	return sxStr{TmCat(parts...)}
}

var _ = big.NewInt
var _ = fmt.Sprintf
