package flow

// sx_*.go — symbolic evaluation of byte-string compositions (an extension of E5
// for "completeness before verdict").
//
// The provenance engine of flow.go and the ordered views of seq.go read ONE
// function's SSA and recognise shapes (a concatenation, a hash object, a DES
// chain). When the code a rule reasons about moves into a helper, a method of a
// new type, a closure, a bytes.Buffer, a loop over a table … the recogniser sees
// only part of it. The evaluator in these files instead EXECUTES the SSA of the
// analysed function on symbolic arguments: control flow, loop counters, slice
// bounds and lengths are concrete; data is a TERM (this file) — a normal form
// of "which bytes, in which order, through which functions". In-module callees
// are entered (parameters bound to arguments), closures and method values are
// called, package-level tables that nothing writes evaluate to their
// initialiser; library objects the crypto code uses (hash.Hash, cipher.Block,
// bytes.Buffer, strings.Builder, encoding/binary, fmt.Sprintf, strconv, hex)
// are modelled by their documented contracts. Nothing of the library is ever
// run and no concrete input is chosen: one evaluation describes the result for
// ALL inputs, as a term over the parameters.
//
// The evaluation is either COMPLETE — every instruction on the path was
// modelled exactly, and the result term is what the function returns — or it
// STOPS with a reason (an unmodelled instruction, library call, data-dependent
// branch, possible aliasing). A rule may conclude something only from a
// complete evaluation; a stopped one is reported as NOT DECIDED by the caller.

import (
	"fmt"
	"sort"
	"strconv"
	"strings"

	"manticheck/internal/lanes"
)

// Tm is a term: a byte string (or string), an integer, or a function value.
type Tm struct {
	Op  string // see the constructors below
	S   string
	N   int
	M   int
	A   []*Tm
	V   lanes.Vec   // Op "bits": the lanes of one byte (sources are Sx source ids)
	KV  []lanes.Vec // Op "des": the lanes of the 8 key bytes
	key string
}

// Key is the canonical text of the term: two terms denote the same value on
// every input iff their keys are equal (up to the normalisations the
// constructors perform).
func (t *Tm) Key() string {
	if t == nil {
		return "<nil>"
	}
	if t.key != "" {
		return t.key
	}
	var sb strings.Builder
	switch t.Op {
	case "const":
		sb.WriteString(strconv.Quote(t.S))
	case "int":
		fmt.Fprintf(&sb, "%d", t.N)
	case "param":
		sb.WriteString("p:" + t.S)
	case "field":
		sb.WriteString("f:" + t.S)
	case "func":
		sb.WriteString("func " + t.S)
	case "fresh":
		site := ""
		if len(t.A) == 1 {
			site = "@" + t.A[0].S
		}
		fmt.Fprintf(&sb, "fresh#%d(%s%s)", t.N, t.S, site)
	case "top":
		fmt.Fprintf(&sb, "?#%d(%s)", t.N, t.S)
	case "bits":
		sb.WriteString("bits" + t.S)
	case "slice":
		hi := ""
		if t.M >= 0 {
			hi = strconv.Itoa(t.M)
		}
		fmt.Fprintf(&sb, "%s[%d:%s]", t.A[0].Key(), t.N, hi)
	default:
		sb.WriteString(t.Op)
		if t.S != "" {
			sb.WriteString("<" + t.S + ">")
		}
		if t.N != 0 || t.Op == "le" || t.Op == "be" {
			fmt.Fprintf(&sb, "#%d", t.N)
		}
		sb.WriteString("(")
		for i, a := range t.A {
			if i > 0 {
				sb.WriteString(", ")
			}
			sb.WriteString(a.Key())
		}
		sb.WriteString(")")
	}
	t.key = sb.String()
	return t.key
}

func (t *Tm) String() string { return t.Key() }

// Short renders the term for messages (bounded length).
func (t *Tm) Short() string {
	s := t.Key()
	s = strings.ReplaceAll(s, "github.com/TheManticoreProject/Manticore/", "")
	if len(s) > 300 {
		s = s[:300] + "…"
	}
	return s
}

func SameTm(a, b *Tm) bool { return a != nil && b != nil && a.Key() == b.Key() }

// ---- leaves ---------------------------------------------------------------------

// TmConst is a literal byte string.
func TmConst(s string) *Tm { return &Tm{Op: "const", S: s} }

// TmInt is an integer constant.
func TmInt(n int) *Tm { return &Tm{Op: "int", N: n} }

// TmParam is parameter idx of the analysed function (a string, a byte slice, a
// byte array of `size` bytes, or an integer); size < 0: length not fixed.
func TmParam(name string, idx, size int) *Tm { return &Tm{Op: "param", S: name, N: idx, M: size} }

// TmField is field `path` of the object a parameter points to, as on entry.
func TmField(path string, idx, size int) *Tm { return &Tm{Op: "field", S: path, N: idx, M: size} }

// TmFunc is a function value (md5.New).
func TmFunc(name string) *Tm { return &Tm{Op: "func", S: name} }

// IsTop reports whether the term contains a value the evaluator does not describe.
func (t *Tm) HasTop() bool {
	if t == nil {
		return true
	}
	if t.Op == "top" {
		return true
	}
	if t.Op == "bits" && t.V.HasTop() {
		return true
	}
	for _, a := range t.A {
		if a.HasTop() {
			return true
		}
	}
	return false
}

// FirstTop names the first undescribed leaf (for messages).
func (t *Tm) FirstTop() string {
	if t == nil {
		return "nil term"
	}
	if t.Op == "top" {
		return t.S
	}
	if t.Op == "bits" && t.V.HasTop() {
		return "a byte computed by arithmetic the lane domain does not follow"
	}
	for _, a := range t.A {
		if a.HasTop() {
			return a.FirstTop()
		}
	}
	return ""
}

// ---- length ---------------------------------------------------------------------

// Len is the byte length of a byte-string term when the term fixes it, else -1.
func (t *Tm) Len() int {
	switch t.Op {
	case "const":
		return len(t.S)
	case "param", "field", "fresh", "over", "window":
		return t.M
	case "top":
		return t.M
	case "bits":
		return 1
	case "cat":
		n := 0
		for _, a := range t.A {
			l := a.Len()
			if l < 0 {
				return -1
			}
			n += l
		}
		return n
	case "slice":
		if t.M >= 0 {
			return t.M - t.N
		}
		if l := t.A[0].Len(); l >= 0 {
			return l - t.N
		}
		return -1
	case "le", "be":
		return t.N
	case "des":
		return 8
	case "hash":
		return hashSize(t)
	case "app":
		switch t.S {
		case "encoding/hex.EncodeToString":
			if l := t.A[0].Len(); l >= 0 {
				return 2 * l
			}
		case "golang.org/x/crypto/pbkdf2.Key":
			if len(t.A) == 5 && t.A[3].Op == "int" {
				return t.A[3].N
			}
		}
		if t.M > 0 {
			return t.M
		}
	}
	return -1
}

func hashSize(t *Tm) int {
	switch t.S {
	case "md4", "crypto/md5.New":
		return 16
	case "crypto/sha1.New":
		return 20
	case "crypto/sha256.New":
		return 32
	case "crypto/hmac.New":
		if len(t.A) > 0 && len(t.A[0].A) > 0 && t.A[0].A[0].Op == "func" {
			switch t.A[0].A[0].S {
			case "crypto/md5.New":
				return 16
			case "crypto/sha1.New":
				return 20
			case "crypto/sha256.New":
				return 32
			}
		}
	}
	return -1
}

// ---- constructors that normalise ----------------------------------------------------

// TmCat concatenates; nested concatenations are flattened, empty pieces
// dropped, adjacent literals and adjacent windows of one term merged.
func TmCat(parts ...*Tm) *Tm {
	var flat []*Tm
	var add func(p *Tm)
	add = func(p *Tm) {
		if p == nil {
			return
		}
		if p.Op == "cat" {
			for _, a := range p.A {
				add(a)
			}
			return
		}
		if p.Op == "const" && p.S == "" {
			return
		}
		if n := len(flat); n > 0 {
			last := flat[n-1]
			if last.Op == "const" && p.Op == "const" {
				flat[n-1] = TmConst(last.S + p.S)
				return
			}
			// t[a:b] ‖ t[b:c] = t[a:c]
			lb, llo, lhi := windowOf(last)
			pb, plo, phi := windowOf(p)
			if lb != nil && pb != nil && lhi >= 0 && lhi == plo && lb.Key() == pb.Key() {
				flat[n-1] = TmSlice(lb, llo, phi)
				return
			}
		}
		flat = append(flat, p)
	}
	for _, p := range parts {
		add(p)
	}
	switch len(flat) {
	case 0:
		return TmConst("")
	case 1:
		return flat[0]
	}
	return &Tm{Op: "cat", A: flat}
}

// windowOf: t = base[lo:hi] (hi == -1: not fixed). A whole term of known
// length n is base[0:n].
func windowOf(t *Tm) (base *Tm, lo, hi int) {
	if t.Op == "const" || t.Op == "cat" || t.Op == "bits" {
		return nil, 0, 0
	}
	if t.Op == "slice" {
		hi := t.M
		if hi < 0 {
			if l := t.A[0].Len(); l >= 0 {
				hi = l
			}
		}
		return t.A[0], t.N, hi
	}
	return t, 0, t.Len()
}

// TmSlice is t[lo:hi] (hi == -1: to the end). ok is false when the bounds are
// provably outside the term.
func TmSlice(t *Tm, lo, hi int) *Tm {
	r, _ := tmSlice(t, lo, hi)
	return r
}

func tmSlice(t *Tm, lo, hi int) (*Tm, bool) {
	l := t.Len()
	if lo < 0 || (hi >= 0 && hi < lo) || (l >= 0 && (lo > l || hi > l)) {
		return &Tm{Op: "top", S: fmt.Sprintf("window [%d:%d] outside a %d-byte value", lo, hi, l), M: -1}, false
	}
	if hi < 0 && l >= 0 {
		hi = l
	}
	if lo == 0 && ((hi >= 0 && hi == l) || (hi < 0)) {
		return t, true
	}
	if hi == lo {
		return TmConst(""), true
	}
	switch t.Op {
	case "const":
		return TmConst(t.S[lo:hi]), true
	case "slice":
		nhi := hi
		if nhi >= 0 {
			nhi += t.N
		} else {
			nhi = t.M
		}
		return tmSlice(t.A[0], t.N+lo, nhi)
	case "cat":
		var out []*Tm
		off := 0
		for i, p := range t.A {
			pl := p.Len()
			if hi >= 0 && off >= hi {
				break
			}
			if pl < 0 {
				// a piece of unknown length: only an open window that starts at or
				// before this piece's start passes through it unchanged
				if hi >= 0 || lo > off {
					return &Tm{Op: "slice", A: []*Tm{t}, N: lo, M: hi}, true
				}
				out = append(out, t.A[i:]...)
				return TmCat(out...), true
			}
			a, b := lo-off, pl
			if a < 0 {
				a = 0
			}
			if hi >= 0 && hi-off < b {
				b = hi - off
			}
			if a < b {
				s, ok := tmSlice(p, a, b)
				if !ok {
					return s, false
				}
				out = append(out, s)
			}
			off += pl
		}
		return TmCat(out...), true
	}
	return &Tm{Op: "slice", A: []*Tm{t}, N: lo, M: hi}, true
}

func tmZeros(n int) *Tm { return TmConst(strings.Repeat("\x00", n)) }

// TmApp applies a pure function. dist says which labels distribute over
// concatenation (f(a‖b) = f(a)‖f(b)); idem which are idempotent.
func (sx *Sx) TmApp(label string, args ...*Tm) *Tm {
	if len(args) == 1 {
		a := args[0]
		if copyLabelSx(label) {
			return a
		}
		if sx != nil && sx.Dist != nil && sx.Dist(label) && a.Op == "cat" {
			parts := make([]*Tm, len(a.A))
			for i, p := range a.A {
				parts[i] = sx.TmApp(label, p)
			}
			return TmCat(parts...)
		}
		if a.Op == "const" && a.S == "" {
			switch label {
			case "strings.ToUpper", "strings.ToLower", "encoding/hex.EncodeToString", "bytes.ToUpper", "bytes.ToLower":
				return a
			}
		}
		if a.Op == "app" && len(a.A) == 1 {
			switch {
			case label == a.S && (label == "strings.ToUpper" || label == "strings.ToLower" || label == "strings.TrimSpace"):
				return a
			case label == "strings.ToLower" && a.S == "encoding/hex.EncodeToString":
				return a // hex.EncodeToString emits lower-case digits only
			}
		}
	}
	return &Tm{Op: "app", S: label, A: args}
}

func copyLabelSx(l string) bool {
	return l == "bytes.Clone" || l == "strings.Clone" || strings.HasPrefix(l, "slices.Clone[")
}

// TmHash is Sum of a hash object made by ctor(args…) that absorbed input.
func TmHash(ctor string, args []*Tm, input *Tm) *Tm {
	return &Tm{Op: "hash", S: ctor, A: []*Tm{{Op: "tuple", A: args}, input}}
}

// HashParts decomposes a hash term.
func (t *Tm) HashParts() (ctor string, args []*Tm, input *Tm, ok bool) {
	if t == nil || t.Op != "hash" || len(t.A) != 2 {
		return "", nil, nil, false
	}
	return t.S, t.A[0].A, t.A[1], true
}

// Parts lists the pieces of a concatenation (a single term is one piece).
func (t *Tm) Parts() []*Tm {
	if t.Op == "cat" {
		return t.A
	}
	if t.Op == "const" && t.S == "" {
		return nil
	}
	return []*Tm{t}
}

// tmIntArith is integer arithmetic on integer terms.
func tmIntArith(op string, a, b *Tm) *Tm {
	if a.Op == "int" && b.Op == "int" {
		switch op {
		case "+":
			return TmInt(a.N + b.N)
		case "-":
			return TmInt(a.N - b.N)
		case "*":
			return TmInt(a.N * b.N)
		}
	}
	return &Tm{Op: "arith", S: op, A: []*Tm{a, b}}
}

// TmLen is len(t) as an integer term.
func TmLen(t *Tm) *Tm {
	if l := t.Len(); l >= 0 {
		return TmInt(l)
	}
	if t.Op == "cat" {
		// sum of the pieces, literal part folded
		k := 0
		var syms []*Tm
		for _, p := range t.A {
			if l := p.Len(); l >= 0 {
				k += l
			} else {
				syms = append(syms, &Tm{Op: "len", A: []*Tm{p}})
			}
		}
		sort.Slice(syms, func(i, j int) bool { return syms[i].Key() < syms[j].Key() })
		out := syms[0]
		for _, s := range syms[1:] {
			out = tmIntArith("+", out, s)
		}
		if k != 0 {
			out = tmIntArith("+", out, TmInt(k))
		}
		return out
	}
	return &Tm{Op: "len", A: []*Tm{t}}
}
