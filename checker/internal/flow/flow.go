// Package flow is E5 of DESIGN.md §3: def-use provenance ("must pass through")
// on the go/ssa data-dependence graph. Nothing is executed and no value is
// computed; the engine answers, for an SSA value v of a function f,
//
//	Prov(v) = { (source, labels) : there is a def-use path from source to v
//	            whose calls are exactly the set `labels` }
//
// Edges: operands → result; call arguments → call result, labelled with the
// callee; stored value → loads of the same cell/field (flow-insensitive per
// location); append / copy / Write / Encrypt / PutUintN arguments → the
// destination object; one level of in-module helper inlining by summary (the
// helper's own provenance with its parameters substituted by the call's
// arguments). Because a rule constrains EVERY (source, labels) pair, renamed
// temporaries, statement order and an extracted helper do not matter.
//
// seq.go adds the ordered views a composition rule needs (concatenation
// segments, constant byte strings, the ordered Write calls on a hash object);
// effects.go adds the parameter-rooted write summaries (PURE-READ) and the
// module-wide who-writes table.
package flow

import (
	"fmt"
	"go/constant"
	"go/token"
	"go/types"
	"sort"
	"strings"

	"golang.org/x/tools/go/ssa"

	"manticheck/internal/load"
)

type SrcKind uint8

const (
	SParam   SrcKind = iota + 1 // parameter Idx of the analysed function (value, or the memory it points to, as on entry)
	SField                      // field path Name of the memory parameter Idx points to, as on entry
	SConst                      // constant Name
	SGlobal                     // package-level variable Name
	SZero                       // freshly allocated, zero-initialised memory that nothing writes
	SCall                       // result / fill of a call that has no tracked input (time.Now, rand.Read, md4.New)
	SFunc                       // a function value (md5.New, sha1.New)
	SUnknown                    // not modelled; Name says what
)

func (k SrcKind) String() string {
	return [...]string{"?", "param", "field", "const", "global", "zero", "call", "func", "unknown"}[k]
}

// Source is where a def-use path starts.
type Source struct {
	Kind SrcKind
	Idx  int
	Name string
}

func (s Source) String() string {
	switch s.Kind {
	case SParam:
		return fmt.Sprintf("p:%s", s.Name)
	case SField:
		return fmt.Sprintf("f:%s", s.Name)
	case SConst:
		return "const " + s.Name
	case SGlobal:
		return "global " + s.Name
	case SZero:
		return "zero memory"
	case SCall:
		return "r:" + s.Name
	case SFunc:
		return "func " + s.Name
	}
	return "unknown(" + s.Name + ")"
}

// Origin is one def-use path class: its source and the set of labels on it.
type Origin struct {
	Src    Source
	Labels string // sorted, "\x00"-separated
}

func (o Origin) LabelList() []string {
	if o.Labels == "" {
		return nil
	}
	return strings.Split(o.Labels, "\x00")
}

func (o Origin) Has(label string) bool {
	for _, l := range o.LabelList() {
		if l == label {
			return true
		}
	}
	return false
}

func (o Origin) with(labels ...string) Origin {
	if len(labels) == 0 {
		return o
	}
	m := map[string]bool{}
	for _, l := range o.LabelList() {
		m[l] = true
	}
	for _, l := range labels {
		if l != "" {
			m[l] = true
		}
	}
	ls := make([]string, 0, len(m))
	for l := range m {
		ls = append(ls, l)
	}
	sort.Strings(ls)
	return Origin{Src: o.Src, Labels: strings.Join(ls, "\x00")}
}

func (o Origin) String() string {
	if o.Labels == "" {
		return o.Src.String()
	}
	return o.Src.String() + " via {" + strings.Join(o.LabelList(), ", ") + "}"
}

type Set map[Origin]struct{}

func (s Set) add(o Origin) { s[o] = struct{}{} }
func (s Set) addAll(t Set) {
	for o := range t {
		s[o] = struct{}{}
	}
}
func (s Set) withLabels(labels ...string) Set {
	out := Set{}
	for o := range s {
		out.add(o.with(labels...))
	}
	return out
}
func (s Set) equal(t Set) bool {
	if len(s) != len(t) {
		return false
	}
	for o := range s {
		if _, ok := t[o]; !ok {
			return false
		}
	}
	return true
}

// Sorted renders the set deterministically.
func (s Set) Sorted() []Origin {
	out := make([]Origin, 0, len(s))
	for o := range s {
		out = append(out, o)
	}
	sort.Slice(out, func(i, j int) bool {
		if out[i].Src != out[j].Src {
			return out[i].Src.String() < out[j].Src.String()
		}
		return out[i].Labels < out[j].Labels
	})
	return out
}

func (s Set) String() string {
	var p []string
	for _, o := range s.Sorted() {
		p = append(p, o.String())
	}
	return "[" + strings.Join(p, "; ") + "]"
}

// From selects the origins whose source satisfies match.
func (s Set) From(match func(Source) bool) Set {
	out := Set{}
	for o := range s {
		if match(o.Src) {
			out.add(o)
		}
	}
	return out
}

// Engine holds the per-program state.
type Engine struct {
	P *load.Program
	// Opaque: in-module callees that are never expanded (they are labels only:
	// the function is judged by its own rule).
	Opaque func(fn *ssa.Function) bool
	// MaxDepth of helper inlining by summary (DESIGN: one level).
	MaxDepth int

	frames  map[*ssa.Function]*frame
	eff     *effects
	globals map[*ssa.Global]*globalBytes
}

func New(p *load.Program) *Engine {
	return &Engine{P: p, MaxDepth: 1, frames: map[*ssa.Function]*frame{}}
}

// Name is the label a call to fn puts on a path: the module-relative name for
// in-module functions, the qualified name otherwise.
func (e *Engine) Name(fn *ssa.Function) string {
	if fn == nil {
		return "<nil>"
	}
	if e.P.InModule(fn) {
		return e.P.FuncName(fn)
	}
	return fn.String()
}

// CalleeLabel names what a call instruction calls: static callee, interface
// method ("hash.Hash.Write"), builtin, or "dynamic".
func (e *Engine) CalleeLabel(cc *ssa.CallCommon) string {
	if cc.IsInvoke() {
		return types.TypeString(cc.Value.Type(), func(p *types.Package) string { return p.Path() }) + "." + cc.Method.Name()
	}
	if b, ok := cc.Value.(*ssa.Builtin); ok {
		return "builtin " + b.Name()
	}
	if fn := cc.StaticCallee(); fn != nil {
		return e.Name(fn)
	}
	return "dynamic call"
}

// HelperPrefix marks the label of an in-module helper that was expanded by
// summary: the helper's own labels are on the path too, so rules ignore it.
const HelperPrefix = "helper "

type loc struct {
	base ssa.Value
	path string // ".F.G": field path below base; slice headers and their backing store are one cell
}

type frame struct {
	e      *Engine
	fn     *ssa.Function
	depth  int
	memo   map[ssa.Value]Set
	lmemo  map[loc]Set
	round  map[ssa.Value]bool
	lround map[loc]bool
	dirty  bool
	writes []memWrite
	built  bool
}

func (e *Engine) frame(fn *ssa.Function, depth int) *frame {
	if depth == 0 {
		if f := e.frames[fn]; f != nil {
			return f
		}
	}
	f := &frame{e: e, fn: fn, depth: depth, memo: map[ssa.Value]Set{}, lmemo: map[loc]Set{}}
	if depth == 0 {
		e.frames[fn] = f
	}
	return f
}

// Prov is the provenance of value v of function fn.
func (e *Engine) Prov(fn *ssa.Function, v ssa.Value) Set {
	return e.frame(fn, 0).solve(v)
}

func (f *frame) solve(v ssa.Value) Set {
	for i := 0; i < 32; i++ {
		f.round, f.lround, f.dirty = map[ssa.Value]bool{}, map[loc]bool{}, false
		r := f.prov(v)
		if !f.dirty {
			return r
		}
	}
	out := Set{}
	out.add(Origin{Src: Source{Kind: SUnknown, Name: "provenance fixpoint did not converge"}})
	return out
}

func (f *frame) solveLoc(l loc) Set {
	for i := 0; i < 32; i++ {
		f.round, f.lround, f.dirty = map[ssa.Value]bool{}, map[loc]bool{}, false
		r := f.content(l)
		if !f.dirty {
			return r
		}
	}
	out := Set{}
	out.add(Origin{Src: Source{Kind: SUnknown, Name: "provenance fixpoint did not converge"}})
	return out
}

func (f *frame) prov(v ssa.Value) Set {
	if f.round[v] {
		if m := f.memo[v]; m != nil {
			return m
		}
		return Set{}
	}
	f.round[v] = true
	if f.memo[v] == nil {
		f.memo[v] = Set{}
	}
	r := f.prov1(v)
	if !r.equal(f.memo[v]) {
		f.memo[v] = r
		f.dirty = true
	}
	return r
}

func isRef(t types.Type) bool {
	switch t.Underlying().(type) {
	case *types.Pointer, *types.Slice, *types.Map, *types.Chan:
		return true
	case *types.Interface:
		return true
	}
	return false
}

func one(s Source) Set {
	out := Set{}
	out.add(Origin{Src: s})
	return out
}

func constName(k *ssa.Const) string {
	if k.Value == nil {
		return "nil"
	}
	if k.Value.Kind() == constant.String {
		s := constant.StringVal(k.Value)
		if len(s) > 40 {
			s = s[:40] + "…"
		}
		return fmt.Sprintf("%q", s)
	}
	return k.Value.ExactString()
}

func (f *frame) paramIdx(p *ssa.Parameter) int {
	for i, q := range f.fn.Params {
		if q == p {
			return i
		}
	}
	return -1
}

func constInt(v ssa.Value) (int64, bool) {
	k, ok := v.(*ssa.Const)
	if !ok || k.Value == nil || k.Value.Kind() != constant.Int {
		return 0, false
	}
	n, exact := constant.Int64Val(k.Value)
	return n, exact
}

func sliceLabel(x *ssa.Slice) string {
	if x.Low == nil && x.High == nil {
		return ""
	}
	part := func(v ssa.Value) (string, bool) {
		if v == nil {
			return "", true
		}
		if n, ok := constInt(v); ok {
			return fmt.Sprint(n), true
		}
		return "", false
	}
	lo, ok1 := part(x.Low)
	hi, ok2 := part(x.High)
	if !ok1 {
		lo = "?"
	}
	if !ok2 {
		hi = "?"
	}
	// x[:n] of a fixed n-byte array (make([]T, const)) is the whole object
	if x.Low == nil && ok2 {
		if p, ok := x.X.Type().Underlying().(*types.Pointer); ok {
			if a, ok := p.Elem().Underlying().(*types.Array); ok && fmt.Sprint(a.Len()) == hi {
				return ""
			}
		}
	}
	return "slice[" + lo + ":" + hi + "]"
}

func (f *frame) prov1(v ssa.Value) Set {
	switch x := v.(type) {
	case *ssa.Const:
		return one(Source{Kind: SConst, Name: constName(x)})
	case *ssa.Function:
		return one(Source{Kind: SFunc, Name: f.e.Name(x)})
	case *ssa.Builtin:
		return Set{}
	case *ssa.Parameter:
		if isRef(x.Type()) {
			return f.contentOf(x)
		}
		return one(Source{Kind: SParam, Idx: f.paramIdx(x), Name: x.Name()})
	case *ssa.FreeVar:
		return one(Source{Kind: SUnknown, Name: "captured variable " + x.Name()})
	case *ssa.Global:
		return f.contentOf(x)
	case *ssa.Alloc, *ssa.MakeSlice, *ssa.FieldAddr, *ssa.IndexAddr:
		return f.contentOf(v)
	case *ssa.MakeMap, *ssa.MakeChan:
		return f.contentOf(v)
	case *ssa.Slice:
		if _, isStr := x.X.Type().Underlying().(*types.Basic); isStr {
			return f.prov(x.X).withLabels(sliceLabel(x))
		}
		return f.contentOf(v)
	case *ssa.UnOp:
		if x.Op == token.MUL {
			return f.contentOf(x.X)
		}
		if x.Op == token.ARROW {
			return f.prov(x.X)
		}
		return f.prov(x.X)
	case *ssa.BinOp:
		out := Set{}
		out.addAll(f.prov(x.X))
		out.addAll(f.prov(x.Y))
		return out
	case *ssa.Phi:
		out := Set{}
		for _, e := range x.Edges {
			out.addAll(f.prov(e))
		}
		return out
	case *ssa.Convert:
		return f.prov(x.X)
	case *ssa.ChangeType:
		return f.prov(x.X)
	case *ssa.ChangeInterface:
		return f.prov(x.X)
	case *ssa.MakeInterface:
		return f.prov(x.X)
	case *ssa.SliceToArrayPointer:
		return f.prov(x.X)
	case *ssa.TypeAssert:
		return f.prov(x.X)
	case *ssa.Field:
		return f.prov(x.X)
	case *ssa.Index:
		return f.prov(x.X)
	case *ssa.Lookup:
		out := Set{}
		out.addAll(f.prov(x.X))
		return out
	case *ssa.Range:
		return f.prov(x.X)
	case *ssa.Next:
		return f.prov(x.Iter)
	case *ssa.Extract:
		if c, ok := x.Tuple.(*ssa.Call); ok {
			if isRef(x.Type()) {
				return f.contentOf(x)
			}
			return f.callResult(c, x.Index)
		}
		return f.prov(x.Tuple)
	case *ssa.Call:
		if isRef(x.Type()) {
			if b, ok := x.Call.Value.(*ssa.Builtin); !ok || b.Name() != "append" {
				return f.contentOf(x)
			}
		}
		return f.callResult(x, -1)
	case *ssa.MakeClosure:
		out := one(Source{Kind: SFunc, Name: f.e.Name(x.Fn.(*ssa.Function))})
		for _, b := range x.Bindings {
			out.addAll(f.prov(b))
		}
		return out
	}
	return one(Source{Kind: SUnknown, Name: fmt.Sprintf("%T", v)})
}

// ---- memory ---------------------------------------------------------------

// resolve maps an address-like / reference value to the cells it may denote.
func (f *frame) resolve(v ssa.Value) []loc {
	return f.resolve1(v, 0)
}

func fieldName(x *ssa.FieldAddr) string {
	t := x.X.Type().Underlying()
	if p, ok := t.(*types.Pointer); ok {
		t = p.Elem().Underlying()
	}
	if st, ok := t.(*types.Struct); ok && x.Field < st.NumFields() {
		return st.Field(x.Field).Name()
	}
	return fmt.Sprintf("#%d", x.Field)
}

func (f *frame) resolve1(v ssa.Value, d int) []loc {
	if d > 12 {
		return []loc{{base: v}}
	}
	switch x := v.(type) {
	case *ssa.Const:
		return nil
	case *ssa.FieldAddr:
		var out []loc
		for _, l := range f.resolve1(x.X, d+1) {
			out = append(out, loc{l.base, l.path + "." + fieldName(x)})
		}
		return out
	case *ssa.IndexAddr:
		return f.resolve1(x.X, d+1)
	case *ssa.Slice:
		if b, ok := x.X.Type().Underlying().(*types.Basic); ok && b.Info()&types.IsString != 0 {
			return nil
		}
		return f.resolve1(x.X, d+1)
	case *ssa.ChangeType:
		return f.resolve1(x.X, d+1)
	case *ssa.ChangeInterface:
		return f.resolve1(x.X, d+1)
	case *ssa.MakeInterface:
		if isRef(x.X.Type()) {
			return f.resolve1(x.X, d+1)
		}
		return []loc{{base: v}}
	case *ssa.SliceToArrayPointer:
		return f.resolve1(x.X, d+1)
	case *ssa.TypeAssert:
		return f.resolve1(x.X, d+1)
	case *ssa.Phi:
		var out []loc
		seen := map[loc]bool{}
		for _, e := range x.Edges {
			if e == v {
				continue
			}
			for _, l := range f.resolve1(e, d+1) {
				if !seen[l] {
					seen[l] = true
					out = append(out, l)
				}
			}
		}
		return out
	case *ssa.UnOp:
		if x.Op == token.MUL && isRef(x.Type()) {
			// a reference loaded from a cell: same cell (header and backing store are
			// conflated), unless the cell is a local whose stored references we can see
			var out []loc
			seen := map[loc]bool{}
			add := func(l loc) {
				if !seen[l] {
					seen[l] = true
					out = append(out, l)
				}
			}
			for _, l := range f.resolve1(x.X, d+1) {
				if _, isAlloc := l.base.(*ssa.Alloc); isAlloc {
					n := 0
					for _, w := range f.index() {
						if w.store == nil {
							continue
						}
						for _, wl := range w.dst {
							if wl.base != l.base {
								continue
							}
							if wl.path == l.path {
								for _, sl := range f.resolve1(w.store.Val, d+1) {
									add(sl)
									n++
								}
							} else if strings.HasPrefix(l.path, wl.path) {
								// whole-struct copy: `d := *p` then d.F (shallow: reference fields alias)
								if ld, ok := w.store.Val.(*ssa.UnOp); ok && ld.Op == token.MUL {
									for _, sl := range f.resolve1(ld.X, d+1) {
										add(loc{sl.base, sl.path + strings.TrimPrefix(l.path, wl.path)})
										n++
									}
								}
							}
						}
					}
					if n > 0 {
						continue
					}
				}
				add(l)
			}
			return out
		}
		return []loc{{base: v}}
	case *ssa.Convert:
		return []loc{{base: v}}
	}
	return []loc{{base: v}}
}

type memWrite struct {
	at    ssa.Instruction
	dst   []loc
	store *ssa.Store // element/field/whole store
	call  ssa.CallInstruction
	dstv  []ssa.Value // call writes: the arguments written through
	srcv  []ssa.Value // values whose provenance flows into dst
	label string
	fill  *Source // the call fills dst with fresh bytes of this source (rand.Read)
}

// index lists every write of the function once.
func (f *frame) index() []memWrite {
	if f.built {
		return f.writes
	}
	f.built = true
	var fns []*ssa.Function
	var walk func(fn *ssa.Function)
	walk = func(fn *ssa.Function) {
		fns = append(fns, fn)
		for _, a := range fn.AnonFuncs {
			walk(a)
		}
	}
	walk(f.fn)
	for _, fn := range fns {
		for _, b := range fn.Blocks {
			for _, in := range b.Instrs {
				switch x := in.(type) {
				case *ssa.Store:
					f.writes = append(f.writes, memWrite{at: x, store: x})
				case ssa.CallInstruction:
					f.writes = append(f.writes, f.callWrites(x)...)
				}
			}
		}
	}
	// resolve destinations after the list exists (resolve consults stores)
	for i := range f.writes {
		w := &f.writes[i]
		if w.store != nil {
			w.dst = f.resolve(w.store.Addr)
		}
	}
	for i := range f.writes {
		w := &f.writes[i]
		if w.call != nil {
			w.dst = nil
			for _, dv := range w.dstv {
				w.dst = append(w.dst, f.resolve(dv)...)
			}
		}
	}
	return f.writes
}

// ExtWriter says which arguments an external (or interface) callee writes
// through, and which it reads into them. dst/src index cc.Args, -1 = receiver
// of an invoke.
type extEffect struct {
	dst []int
	src []int
}

// externalEffect is the table of standard-library contracts the engine trusts
// (printed in each check's assumptions).
func externalEffect(label string, cc *ssa.CallCommon) (extEffect, bool) {
	name := label
	if i := strings.LastIndex(label, "."); i >= 0 {
		name = label[i+1:]
	}
	recvStatic := !cc.IsInvoke() && cc.StaticCallee() != nil && cc.StaticCallee().Signature.Recv() != nil
	switch {
	case cc.IsInvoke() && name == "Write", cc.IsInvoke() && name == "WriteString":
		return extEffect{dst: []int{-1}, src: []int{0}}, true // io.Writer / hash.Hash: the object absorbs p
	case cc.IsInvoke() && (name == "Encrypt" || name == "Decrypt" || name == "CryptBlocks" || name == "XORKeyStream"):
		return extEffect{dst: []int{0}, src: []int{-1, 1}}, true // cipher.Block / BlockMode / Stream
	case cc.IsInvoke() && name == "Reset":
		return extEffect{dst: []int{-1}}, true
	case cc.IsInvoke() && name == "Read":
		return extEffect{dst: []int{0}, src: []int{-1}}, true
	case recvStatic && strings.HasPrefix(label, "(encoding/binary.") && strings.HasPrefix(name, "PutUint"):
		return extEffect{dst: []int{1}, src: []int{2}}, true
	case label == "crypto/subtle.XORBytes":
		return extEffect{dst: []int{0}, src: []int{1, 2}}, true
	case label == "crypto/subtle.ConstantTimeCopy":
		return extEffect{dst: []int{1}, src: []int{0, 2}}, true
	case label == "crypto/rand.Read":
		return extEffect{dst: []int{0}}, true
	case label == "io.ReadFull" || label == "io.ReadAtLeast":
		return extEffect{dst: []int{1}, src: []int{0}}, true
	case label == "encoding/hex.Encode" || label == "encoding/hex.Decode":
		return extEffect{dst: []int{0}, src: []int{1}}, true
	case recvStatic && (name == "Write" || name == "WriteString" || name == "WriteByte"):
		return extEffect{dst: []int{0}, src: []int{1}}, true // (*bytes.Buffer).Write etc.: receiver is Args[0]
	}
	return extEffect{}, false
}

// callWrites: the writes a call performs on memory passed to it.
func (f *frame) callWrites(c ssa.CallInstruction) []memWrite {
	cc := c.Common()
	label := f.e.CalleeLabel(cc)
	arg := func(i int) ssa.Value {
		if i == -1 {
			return cc.Value
		}
		if i < len(cc.Args) {
			return cc.Args[i]
		}
		return nil
	}
	mk := func(dst []ssa.Value, src []ssa.Value, fill *Source) memWrite {
		return memWrite{at: c, call: c, dstv: dst, srcv: src, label: label, fill: fill}
	}
	if b, ok := cc.Value.(*ssa.Builtin); ok {
		if b.Name() == "copy" && len(cc.Args) == 2 {
			w := mk([]ssa.Value{cc.Args[0]}, []ssa.Value{cc.Args[1]}, nil)
			w.label = ""
			return []memWrite{w}
		}
		return nil
	}
	callee := cc.StaticCallee()
	if callee != nil && f.e.P.InModule(callee) && callee.Blocks != nil {
		// in-module: the parameter-rooted write summary says which arguments are written
		var out []memWrite
		ws := f.e.effects().Writes(callee)
		byParam := map[int]bool{}
		for _, w := range ws {
			byParam[w.Param] = true
		}
		for j := range cc.Args {
			if !byParam[j] {
				continue
			}
			var src []ssa.Value
			for k, a := range cc.Args {
				if k != j {
					src = append(src, a)
				}
			}
			out = append(out, mk([]ssa.Value{cc.Args[j]}, src, nil))
		}
		return out
	}
	if eff, ok := externalEffect(label, cc); ok {
		var dst, src []ssa.Value
		for _, i := range eff.dst {
			if a := arg(i); a != nil {
				dst = append(dst, a)
			}
		}
		for _, i := range eff.src {
			if a := arg(i); a != nil {
				src = append(src, a)
			}
		}
		var fill *Source
		if len(src) == 0 {
			fill = &Source{Kind: SCall, Name: label}
		}
		return []memWrite{mk(dst, src, fill)}
	}
	return nil
}

func (f *frame) contentOf(v ssa.Value) Set {
	out := Set{}
	ls := f.resolve(v)
	if len(ls) == 0 {
		if k, ok := v.(*ssa.Const); ok {
			return one(Source{Kind: SConst, Name: constName(k)})
		}
		return one(Source{Kind: SUnknown, Name: "reference with no resolvable target"})
	}
	for _, l := range ls {
		out.addAll(f.content(l))
	}
	// a window of an object: label it
	if s, ok := v.(*ssa.Slice); ok {
		if lb := sliceLabel(s); lb != "" {
			out = out.withLabels(lb)
		}
	}
	return out
}

func compatible(a, b string) bool {
	return a == b || strings.HasPrefix(a, b+".") || strings.HasPrefix(b, a+".") || a == "" || b == ""
}

// content: the provenance of what cell l holds at any time.
func (f *frame) content(l loc) Set {
	if f.lround[l] {
		if m := f.lmemo[l]; m != nil {
			return m
		}
		return Set{}
	}
	f.lround[l] = true
	if f.lmemo[l] == nil {
		f.lmemo[l] = Set{}
	}
	r := f.content1(l)
	if !r.equal(f.lmemo[l]) {
		f.lmemo[l] = r
		f.dirty = true
	}
	return r
}

func (f *frame) content1(l loc) Set {
	out := Set{}
	nw := 0
	for i := range f.index() {
		w := &f.index()[i]
		hit := false
		var wpath string
		for _, d := range w.dst {
			if d.base == l.base && compatible(d.path, l.path) {
				hit, wpath = true, d.path
				break
			}
		}
		if !hit {
			continue
		}
		nw++
		if w.store != nil {
			// whole-struct store read at a field: follow the field of the copied struct
			if len(l.path) > len(wpath) {
				if ld, ok := w.store.Val.(*ssa.UnOp); ok && ld.Op == token.MUL {
					for _, sl := range f.resolve(ld.X) {
						out.addAll(f.content(loc{sl.base, sl.path + strings.TrimPrefix(l.path, wpath)}))
					}
					continue
				}
			}
			out.addAll(f.prov(w.store.Val))
			continue
		}
		if w.fill != nil {
			out.add(Origin{Src: *w.fill}.with(w.label))
		}
		for _, s := range w.srcv {
			out.addAll(f.prov(s).withLabels(w.label))
		}
	}
	// what the cell held before any of those writes
	switch b := l.base.(type) {
	case *ssa.Alloc, *ssa.MakeSlice, *ssa.MakeMap, *ssa.MakeChan:
		if nw == 0 {
			out.add(Origin{Src: Source{Kind: SZero}})
		}
	case *ssa.Parameter:
		idx := f.paramIdx(b)
		if l.path == "" {
			out.add(Origin{Src: Source{Kind: SParam, Idx: idx, Name: b.Name()}})
		} else {
			out.add(Origin{Src: Source{Kind: SField, Idx: idx, Name: b.Name() + l.path}})
		}
	case *ssa.Global:
		out.add(Origin{Src: Source{Kind: SGlobal, Name: b.Pkg.Pkg.Path() + "." + b.Name() + l.path}})
	case *ssa.Call:
		out.addAll(f.callField(b, -1, l.path))
	case *ssa.Extract:
		if c, ok := b.Tuple.(*ssa.Call); ok {
			out.addAll(f.callField(c, b.Index, l.path))
		} else {
			out.addAll(f.prov(b.Tuple))
		}
	case *ssa.Convert:
		out.addAll(f.prov(b.X))
	case *ssa.MakeInterface:
		out.addAll(f.prov(b.X))
	case *ssa.UnOp, *ssa.Phi, *ssa.Lookup, *ssa.Index, *ssa.Field, *ssa.FreeVar:
		if _, isFV := b.(*ssa.FreeVar); isFV {
			out.add(Origin{Src: Source{Kind: SUnknown, Name: "captured variable"}})
		} else if u, ok := b.(*ssa.UnOp); ok && u.Op == token.MUL {
			out.addAll(f.contentOf(u.X))
		} else {
			out.add(Origin{Src: Source{Kind: SUnknown, Name: fmt.Sprintf("memory reached through %T", b)}})
		}
	default:
		out.add(Origin{Src: Source{Kind: SUnknown, Name: fmt.Sprintf("memory rooted at %T", b)}})
	}
	return out
}

// ---- calls ----------------------------------------------------------------

func (f *frame) expandable(callee *ssa.Function) bool {
	return callee != nil && callee.Blocks != nil && f.e.P.InModule(callee) && f.depth < f.e.MaxDepth &&
		(f.e.Opaque == nil || !f.e.Opaque(callee))
}

// substitute maps a helper's provenance (over its own parameters) to the
// caller's, at call site cc.
func (f *frame) substitute(child *frame, s Set, cc *ssa.CallCommon, label string) Set {
	out := Set{}
	for o := range s {
		switch o.Src.Kind {
		case SParam:
			if o.Src.Idx >= 0 && o.Src.Idx < len(cc.Args) {
				out.addAll(f.prov(cc.Args[o.Src.Idx]).withLabels(append(o.LabelList(), label)...))
				continue
			}
		case SField:
			if o.Src.Idx >= 0 && o.Src.Idx < len(cc.Args) {
				// Name is "<param><path>"
				path := strings.TrimPrefix(o.Src.Name, child.fn.Params[o.Src.Idx].Name())
				for _, l := range f.resolve(cc.Args[o.Src.Idx]) {
					out.addAll(f.content(loc{l.base, l.path + path}).withLabels(append(o.LabelList(), label)...))
				}
				continue
			}
		}
		out.add(o.with(label))
	}
	return out
}

func returnsOf(fn *ssa.Function) []*ssa.Return {
	var out []*ssa.Return
	for _, b := range fn.Blocks {
		if len(b.Instrs) == 0 {
			continue
		}
		if r, ok := b.Instrs[len(b.Instrs)-1].(*ssa.Return); ok {
			out = append(out, r)
		}
	}
	return out
}

// callResult: provenance of result idx (-1: the single result) of call c.
func (f *frame) callResult(c *ssa.Call, idx int) Set {
	cc := c.Common()
	label := f.e.CalleeLabel(cc)
	if b, ok := cc.Value.(*ssa.Builtin); ok {
		out := Set{}
		switch b.Name() {
		case "append":
			for _, a := range cc.Args {
				out.addAll(f.prov(a))
			}
			return out
		case "len", "cap":
			for _, a := range cc.Args {
				out.addAll(f.prov(a).withLabels(b.Name()))
			}
			return out
		}
		for _, a := range cc.Args {
			out.addAll(f.prov(a).withLabels(label))
		}
		return out
	}
	callee := cc.StaticCallee()
	if f.expandable(callee) {
		label = HelperPrefix + label
		child := &frame{e: f.e, fn: callee, depth: f.depth + 1, memo: map[ssa.Value]Set{}, lmemo: map[loc]Set{}}
		out := Set{}
		i := idx
		if i < 0 {
			i = 0
		}
		for _, r := range returnsOf(callee) {
			if i < len(r.Results) {
				out.addAll(f.substitute(child, child.solve(r.Results[i]), cc, label))
			}
		}
		return out
	}
	out := Set{}
	n := 0
	if cc.IsInvoke() {
		s := f.prov(cc.Value)
		out.addAll(s.withLabels(label))
		n += len(s)
	} else if callee == nil {
		s := f.prov(cc.Value)
		out.addAll(s.withLabels(label))
		n += len(s)
	}
	for _, a := range cc.Args {
		s := f.prov(a)
		out.addAll(s.withLabels(label))
		n += len(s)
	}
	if n == 0 {
		out.add(Origin{Src: Source{Kind: SCall, Name: label}}.with(label))
	}
	return out
}

// callField: content of field path `path` of the object result idx of c points
// to, before the caller's own writes.
func (f *frame) callField(c *ssa.Call, idx int, path string) Set {
	cc := c.Common()
	callee := cc.StaticCallee()
	if path != "" && f.expandable(callee) {
		label := HelperPrefix + f.e.CalleeLabel(cc)
		child := &frame{e: f.e, fn: callee, depth: f.depth + 1, memo: map[ssa.Value]Set{}, lmemo: map[loc]Set{}}
		out := Set{}
		i := idx
		if i < 0 {
			i = 0
		}
		for _, r := range returnsOf(callee) {
			if i >= len(r.Results) {
				continue
			}
			for _, l := range child.resolve(r.Results[i]) {
				out.addAll(f.substitute(child, child.solveLoc(loc{l.base, l.path + path}), cc, label))
			}
		}
		return out
	}
	s := f.callResult(c, idx)
	if path != "" {
		s = s.withLabels("field" + path)
	}
	return s
}
