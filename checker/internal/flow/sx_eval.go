package flow

import (
	"fmt"
	"go/constant"
	"go/token"
	"go/types"
	"math/big"
	"strings"

	"golang.org/x/tools/go/ssa"

	"manticheck/internal/lanes"
)

// Sx is one symbolic evaluation (see sx_term.go).
type Sx struct {
	E *Engine
	// Label names the functions that are NOT entered: a call becomes the
	// application term label(args…) — the primitives judged by their own rules
	// (EncodeUTF16LE, nt.NTHash, …).
	Label func(fn *ssa.Function) (label string, ok bool)
	// HashCtor names in-module constructors of hash objects (md4.New); their
	// Write/Sum/Reset methods follow the hash.Hash contract.
	HashCtor func(fn *ssa.Function) (ctor string, ok bool)
	// Dist: labels that distribute over concatenation.
	Dist func(label string) bool
	// LabelLen: the fixed byte length of a label's result (0: not fixed).
	LabelLen func(label string) int
	// FieldLen: the byte length a string / []byte field of an entry object is
	// assumed to have (path "recv.Field"; < 0: unknown). The assumption is the
	// rule's and must be printed by it.
	FieldLen func(path string) int

	MaxSteps, MaxDepth int

	srcs    []*Tm
	srcIdx  map[string]int
	serial  int
	steps   int
	Entered map[string]bool // in-module functions that were entered
	Applied map[string]int  // label → number of applications
	// Positive: facts the evaluator OBSERVED that make the result depend on
	// something other than the arguments (a package-level variable that is
	// written outside its initialiser, with the writing instruction).
	Positive []string
	// Unknown: library calls without a model whose result was made opaque.
	Unknown []string
	Assumed []string // data-dependent branches followed away from an error exit
	// ModGlobals: package-level variables of the module the evaluation touched.
	ModGlobals []string
	// Trace: selected library calls in execution order, each with the assumptions
	// in force when it ran (rules check that a guard precedes a call).
	Trace []string

	globals   map[*ssa.Global]*sxNode
	freshSeen map[string]int
	lens      map[string][2]int // bounds on the length of terms of unknown length, learnt from branches taken

	forkOn     bool
	forkPrefix []bool
	forkTrace  []bool
}

func NewSx(e *Engine) *Sx {
	return &Sx{E: e, MaxSteps: 400000, MaxDepth: 10, srcIdx: map[string]int{}, Entered: map[string]bool{},
		Applied: map[string]int{}, globals: map[*ssa.Global]*sxNode{}, lens: map[string][2]int{}}
}

// ---- values ---------------------------------------------------------------------

type sxVal = any

// sxInt is an integer: its bit lanes, and (optionally) the integer term it is
// as a whole when the lanes alone do not describe it.
type sxInt struct {
	V lanes.Vec
	T *Tm
}

type sxBool struct {
	Known, Val bool
	Why        string
	refine     func(taken bool) // records what the outcome says about a length
}

// sxStr is a string, or an immutable byte string of possibly unknown length.
type sxStr struct{ T *Tm }

// sxDyn is a freshly allocated byte buffer whose length is not a constant
// (make([]byte, len(x))): it can be read as a whole and overwritten as a whole
// (CryptBlocks, copy of a value of the same length); anything finer stops the run.
type sxDyn struct{ B *sxDynBuf }

type sxDynBuf struct {
	T      *Tm  // content
	Len    *Tm  // length (an integer term)
	viewed bool // a window or element address of it was taken: overwriting would not reach the view
}

// asStr: a read-only view of a string-like value.
func asStr(v sxVal) (sxStr, bool) {
	switch x := v.(type) {
	case sxStr:
		return x, true
	case sxDyn:
		x.B.viewed = true
		return sxStr{x.B.T}, true
	}
	return sxStr{}, false
}

// sxSlice is a window of an array of concrete size.
type sxSlice struct {
	Arr         *sxNode
	Lo, Hi, Cap int
	Nil         bool
}

func (s sxSlice) Len() int { return s.Hi - s.Lo }

type sxPtr struct{ N *sxNode }
type sxAgg struct{ N *sxNode }
type sxIface struct {
	V sxVal
	T types.Type
}
type sxTuple []sxVal
type sxFunc struct {
	Name string
	Fn   *ssa.Function
	Free []sxVal
}
type sxOpaque struct{ Why string }

// sxObj is a handle to a modelled library object.
type sxObj struct{ O *sxObject }

type sxObject struct {
	Kind string // hash | cipher | buf | time
	Ctor string
	Args []*Tm
	In   []*Tm // hash input / buffer content, in order
	Key  *Tm   // cipher
	KV   []lanes.Vec
	T    *Tm // time
}

type sxNode struct {
	T      types.Type
	Kids   []*sxNode
	Leaf   sxVal
	Obj    *sxObject
	grow   bool   // backs an append result of unknown spare capacity
	frozen string // the bytes may be shared with a detached value: writes stop the run
	ro     bool   // a view of an immutable value
}

type sxAbort struct{ why string }

func (sx *Sx) stop(format string, a ...any) {
	panic(sxAbort{fmt.Sprintf(format, a...)})
}

// ---- sources ---------------------------------------------------------------------

func (sx *Sx) srcOf(t *Tm) int {
	k := t.Key()
	if id, ok := sx.srcIdx[k]; ok {
		return id
	}
	sx.srcs = append(sx.srcs, t)
	sx.srcIdx[k] = len(sx.srcs) - 1
	return len(sx.srcs) - 1
}

// Src is the term behind source id s of a lane.
func (sx *Sx) Src(s int) *Tm {
	if s >= 0 && s < len(sx.srcs) {
		return sx.srcs[s]
	}
	return nil
}

// fresh is the value a non-deterministic call (time.Now, rand.Read) produces at
// call site `at`: the k-th execution of one site is one value, so that the same
// code evaluated twice (inline and on its own) names the same value.
func (sx *Sx) fresh(label string, size int, at token.Pos) *Tm {
	site := sx.E.P.Rel(at)
	if sx.freshSeen == nil {
		sx.freshSeen = map[string]int{}
	}
	sx.freshSeen[site]++
	return &Tm{Op: "fresh", S: label, N: sx.freshSeen[site], M: size, A: []*Tm{{Op: "site", S: site}}}
}

func (sx *Sx) top(why string) *Tm {
	sx.serial++
	return &Tm{Op: "top", S: why, N: sx.serial, M: -1}
}

func (sx *Sx) laneName(b lanes.Bit) string {
	return fmt.Sprintf("%s[%d].%d", sx.Src(b.S).Key(), b.I, b.B)
}

// byteOf: the lanes of byte i of byte-string term t (Len known or i inside a
// known-length prefix).
func (sx *Sx) byteOf(t *Tm, i int) lanes.Vec {
	switch t.Op {
	case "const":
		if i < 0 || i >= len(t.S) {
			sx.stop("byte %d of a %d-byte constant", i, len(t.S))
		}
		return lanes.ConstVec(big.NewInt(int64(t.S[i])), 8)
	case "bits":
		return t.V
	case "slice":
		return sx.byteOf(t.A[0], t.N+i)
	case "cat":
		off := 0
		for _, p := range t.A {
			l := p.Len()
			if l < 0 {
				break
			}
			if i < off+l {
				return sx.byteOf(p, i-off)
			}
			off += l
		}
		// u ‖ K-len(u) pad bytes (u no longer than K): byte i < K is byte i of u
		// extended with the pad byte
		if u, k, ok := sx.padForm(t); ok && i < k {
			if pad := t.A[1].S; pad != "\x00" {
				return lanes.SrcByte(sx.srcOf(&Tm{Op: "pz", S: pad, A: []*Tm{u}}), i)
			}
			return sx.byteOf(u, i)
		}
		sx.stop("byte %d of a concatenation lies behind a piece of unknown length", i)
	}
	if t.Len() < 0 && t.Op != "pz" {
		// a value whose length is not fixed: byte i of its zero-padded extension
		// (equal to its own byte i whenever that exists; reading past the end panics)
		return lanes.SrcByte(sx.srcOf(&Tm{Op: "pz", A: []*Tm{t}}), i)
	}
	return lanes.SrcByte(sx.srcOf(t), i)
}

// padForm: t = u ‖ rep("\x00", K - len(u)) with len(u) ≤ K on this path.
func (sx *Sx) padForm(t *Tm) (u *Tm, k int, ok bool) {
	if t.Op != "cat" || len(t.A) != 2 {
		return nil, 0, false
	}
	u, r := t.A[0], t.A[1]
	if r.Op != "rep" || len(r.S) != 1 || len(r.A) != 1 {
		return nil, 0, false
	}
	c := r.A[0]
	if c.Op != "arith" || c.S != "-" || c.A[0].Op != "int" || c.A[1].Op != "len" || !SameTm(c.A[1].A[0], u) {
		return nil, 0, false
	}
	k = c.A[0].N
	if _, hi := sx.lenBounds(u); hi > k {
		return nil, 0, false
	}
	return u, k, true
}

const sxInf = 1 << 40

func (sx *Sx) lenBounds(t *Tm) (lo, hi int) {
	if l := t.Len(); l >= 0 {
		return l, l
	}
	if t.Op == "slice" && t.M < 0 {
		// t = u[n:]: len(u) - n
		lo, hi = sx.lenBounds(t.A[0])
		lo -= t.N
		if lo < 0 {
			lo = 0
		}
		if hi < sxInf {
			hi -= t.N
		}
		return lo, hi
	}
	if _, k, ok := sx.padForm(t); ok {
		return k, k
	}
	if b, ok := sx.lens[t.Key()]; ok {
		return b[0], b[1]
	}
	return 0, sxInf
}

// lenCmp decides or refines a comparison between len(t) and a constant.
func (sx *Sx) lenCmp(op token.Token, a, b sxInt) (sxBool, bool) {
	var t *Tm
	var k int
	if a.T != nil && a.T.Op == "len" {
		kk, ok := sx.constInt(b)
		if !ok {
			return sxBool{}, false
		}
		t, k = a.T.A[0], kk
	} else if b.T != nil && b.T.Op == "len" {
		kk, ok := sx.constInt(a)
		if !ok {
			return sxBool{}, false
		}
		t, k = b.T.A[0], kk
		// k op len  ≡  len op' k
		switch op {
		case token.LSS:
			op = token.GTR
		case token.LEQ:
			op = token.GEQ
		case token.GTR:
			op = token.LSS
		case token.GEQ:
			op = token.LEQ
		}
	} else {
		return sxBool{}, false
	}
	lo, hi := sx.lenBounds(t)
	// normalise to  len ≥ m  (possibly negated)
	neg := false
	m := 0
	switch op {
	case token.GEQ:
		m = k
	case token.GTR:
		m = k + 1
	case token.LSS:
		m, neg = k, true
	case token.LEQ:
		m, neg = k+1, true
	case token.EQL, token.NEQ:
		if k < lo || k > hi {
			return sxBool{Known: true, Val: op == token.NEQ}, true
		}
		if lo == hi {
			return sxBool{Known: true, Val: op == token.EQL}, true
		}
		key := t.Key()
		isEq := op == token.EQL
		return sxBool{Why: fmt.Sprintf("len(%s) %s %d", t.Short(), op, k), refine: func(taken bool) {
			if taken == isEq {
				sx.lens[key] = [2]int{k, k}
			} else if k == lo {
				sx.lens[key] = [2]int{lo + 1, hi}
			} else if k == hi {
				sx.lens[key] = [2]int{lo, hi - 1}
			}
		}}, true
	default:
		return sxBool{}, false
	}
	if lo >= m {
		return sxBool{Known: true, Val: !neg}, true
	}
	if hi < m {
		return sxBool{Known: true, Val: neg}, true
	}
	key := t.Key()
	return sxBool{Why: fmt.Sprintf("len(%s) %s %d", t.Short(), op, k), refine: func(taken bool) {
		ge := taken != neg // len ≥ m holds
		if ge {
			sx.lens[key] = [2]int{m, hi}
		} else {
			sx.lens[key] = [2]int{lo, m - 1}
		}
	}}, true
}

// cellTerm: the term of one byte given its lanes.
func (sx *Sx) cellTerm(v lanes.Vec) *Tm {
	if k, ok := v.ConstVal(); ok {
		return TmConst(string([]byte{byte(k.Int64())}))
	}
	if len(v) == 8 && v[0].K == lanes.Src {
		s, i := v[0].S, v[0].I
		whole := true
		for b := range v {
			if v[b].K != lanes.Src || v[b].S != s || v[b].I != i || v[b].B != b {
				whole = false
			}
		}
		if whole {
			return TmSlice(sx.Src(s), i, i+1)
		}
	}
	return &Tm{Op: "bits", V: v, S: v.String(sx.laneName)}
}

func (sx *Sx) cellsTerm(arr *sxNode, lo, hi int) *Tm {
	parts := make([]*Tm, 0, hi-lo)
	for i := lo; i < hi; i++ {
		iv, ok := arr.Kids[i].Leaf.(sxInt)
		if !ok || len(iv.V) != 8 {
			parts = append(parts, sx.top("an array element that is not a byte"))
			continue
		}
		parts = append(parts, sx.cellTerm(iv.V))
	}
	return TmCat(parts...)
}

func isByteType(t types.Type) bool {
	b, ok := t.Underlying().(*types.Basic)
	return ok && (b.Kind() == types.Uint8 || b.Kind() == types.Byte)
}

func isBytesLike(t types.Type) bool {
	switch u := t.Underlying().(type) {
	case *types.Basic:
		return u.Info()&types.IsString != 0
	case *types.Slice:
		return isByteType(u.Elem())
	case *types.Array:
		return isByteType(u.Elem())
	}
	return false
}

// bytesTerm: the byte-string term of a string / []byte / [n]byte value.
func (sx *Sx) bytesTerm(v sxVal) (*Tm, bool) {
	switch x := v.(type) {
	case sxStr:
		return x.T, true
	case sxDyn:
		return x.B.T, true
	case sxSlice:
		if x.Nil {
			return TmConst(""), true
		}
		return sx.cellsTerm(x.Arr, x.Lo, x.Hi), true
	case sxAgg:
		if a, ok := x.N.T.Underlying().(*types.Array); ok && isByteType(a.Elem()) {
			return sx.cellsTerm(x.N, 0, len(x.N.Kids)), true
		}
	case sxOpaque:
		return sx.top(x.Why), true
	}
	return nil, false
}

// intTerm: the integer as a term.
func (sx *Sx) intTerm(iv sxInt) *Tm {
	if k, ok := iv.V.SignedVal(true); ok && k.IsInt64() {
		return TmInt(int(k.Int64()))
	}
	if iv.T != nil {
		return iv.T
	}
	// the whole of one scalar source
	if len(iv.V) > 0 && iv.V[0].K == lanes.Src {
		s := iv.V[0].S
		whole := true
		for b := range iv.V {
			if iv.V[b].K != lanes.Src || iv.V[b].S != s || iv.V[b].I != 0 || iv.V[b].B != b {
				whole = false
			}
		}
		if whole {
			return sx.Src(s)
		}
	}
	if !iv.V.HasTop() {
		return &Tm{Op: "bits", V: iv.V, S: iv.V.String(sx.laneName)}
	}
	return sx.top("an integer the lanes do not describe")
}

func (sx *Sx) constInt(v sxVal) (int, bool) {
	iv, ok := v.(sxInt)
	if !ok {
		return 0, false
	}
	k, ok := iv.V.SignedVal(true)
	if !ok || !k.IsInt64() {
		return 0, false
	}
	return int(k.Int64()), true
}

func sxK(n int, w int) sxInt { return sxInt{V: lanes.ConstVec(big.NewInt(int64(n)), w)} }

// symInt is the w-bit integer source t.
func (sx *Sx) symInt(t *Tm, w int) sxInt {
	id := sx.srcOf(t)
	v := make(lanes.Vec, w)
	for b := range v {
		v[b] = lanes.Bit{K: lanes.Src, S: id, I: 0, B: b}
	}
	return sxInt{V: v, T: t}
}

// ---- memory -----------------------------------------------------------------------

const sxMaxArray = 1 << 14

func (sx *Sx) zeroNode(t types.Type) *sxNode {
	n := &sxNode{T: t}
	switch u := t.Underlying().(type) {
	case *types.Struct:
		n.Kids = make([]*sxNode, u.NumFields())
		for i := range n.Kids {
			n.Kids[i] = sx.zeroNode(u.Field(i).Type())
		}
	case *types.Array:
		if u.Len() > sxMaxArray {
			sx.stop("array of %d elements is too large to model", u.Len())
		}
		n.Kids = make([]*sxNode, u.Len())
		for i := range n.Kids {
			n.Kids[i] = sx.zeroNode(u.Elem())
		}
	default:
		n.Leaf = sx.zeroValue(t)
	}
	if n.Kids == nil && n.Leaf == nil {
		n.Kids = []*sxNode{}
	}
	return n
}

func (sx *Sx) zeroValue(t types.Type) sxVal {
	switch u := t.Underlying().(type) {
	case *types.Basic:
		if w, _, ok := lanes.IntWidth(t); ok {
			return sxInt{V: lanes.ZeroVec(w)}
		}
		if u.Info()&types.IsBoolean != 0 {
			return sxBool{Known: true}
		}
		if u.Info()&types.IsString != 0 {
			return sxStr{TmConst("")}
		}
	case *types.Pointer:
		return sxPtr{}
	case *types.Slice:
		return sxSlice{Nil: true}
	case *types.Interface:
		return sxIface{}
	case *types.Signature:
		return sxFunc{}
	case *types.Struct, *types.Array:
		return sxAgg{sx.zeroNode(t)}
	}
	return sxOpaque{"zero value of " + t.String()}
}

func copySxNode(n *sxNode) *sxNode {
	if n == nil {
		return nil
	}
	c := &sxNode{T: n.T, Leaf: n.Leaf, Obj: n.Obj}
	if ag, ok := n.Leaf.(sxAgg); ok {
		c.Leaf = sxAgg{copySxNode(ag.N)}
	}
	if n.Kids != nil {
		c.Kids = make([]*sxNode, len(n.Kids))
		for i, k := range n.Kids {
			c.Kids[i] = copySxNode(k)
		}
	}
	return c
}

func (sx *Sx) assignNode(dst, src *sxNode) {
	if len(dst.Kids) != len(src.Kids) {
		sx.stop("aggregate store between different shapes")
	}
	if dst.Kids == nil {
		dst.Leaf = src.Leaf
		dst.Obj = src.Obj
		return
	}
	for i := range dst.Kids {
		sx.assignNode(dst.Kids[i], src.Kids[i])
	}
}

// SymNode builds the entry state of an object of type t reached from parameter
// idx: strings and byte slices are field terms, byte arrays are the bytes of a
// field term, integers are scalar sources, everything else is opaque.
func (sx *Sx) SymNode(t types.Type, path string, idx int) *sxNode {
	n := &sxNode{T: t}
	switch u := t.Underlying().(type) {
	case *types.Struct:
		n.Kids = make([]*sxNode, u.NumFields())
		for i := range n.Kids {
			n.Kids[i] = sx.SymNode(u.Field(i).Type(), path+"."+u.Field(i).Name(), idx)
		}
		return n
	case *types.Array:
		if isByteType(u.Elem()) && u.Len() <= sxMaxArray {
			ft := TmField(path, idx, int(u.Len()))
			n.Kids = make([]*sxNode, u.Len())
			for i := range n.Kids {
				n.Kids[i] = &sxNode{T: u.Elem(), Leaf: sxInt{V: lanes.SrcByte(sx.srcOf(ft), i)}}
			}
			return n
		}
	case *types.Basic:
		if w, _, ok := lanes.IntWidth(t); ok {
			n.Leaf = sx.symInt(TmField(path, idx, -1), w)
			return n
		}
		if u.Info()&types.IsString != 0 {
			n.Leaf = sxStr{TmField(path, idx, sx.fieldLen(path))}
			return n
		}
	case *types.Slice:
		if isByteType(u.Elem()) {
			n.Leaf = sxStr{TmField(path, idx, sx.fieldLen(path))}
			return n
		}
	}
	n.Leaf = sxOpaque{"field " + path + " of type " + t.String()}
	return n
}

func (sx *Sx) fieldLen(path string) int {
	if sx.FieldLen != nil {
		return sx.FieldLen(path)
	}
	return -1
}

// SymArg is the symbolic value of parameter p (index idx) of the analysed function.
func (sx *Sx) SymArg(p *ssa.Parameter, idx int) sxVal {
	t := p.Type()
	switch u := t.Underlying().(type) {
	case *types.Basic:
		if w, _, ok := lanes.IntWidth(t); ok {
			return sx.symInt(TmParam(p.Name(), idx, -1), w)
		}
		if u.Info()&types.IsString != 0 {
			return sxStr{TmParam(p.Name(), idx, sx.fieldLen(p.Name()))}
		}
		if u.Info()&types.IsBoolean != 0 {
			return sxBool{Why: "parameter " + p.Name()}
		}
	case *types.Slice:
		if isByteType(u.Elem()) {
			return sxStr{TmParam(p.Name(), idx, sx.fieldLen(p.Name()))}
		}
	case *types.Array:
		if isByteType(u.Elem()) && u.Len() <= sxMaxArray {
			pt := TmParam(p.Name(), idx, int(u.Len()))
			n := &sxNode{T: t, Kids: make([]*sxNode, u.Len())}
			for i := range n.Kids {
				n.Kids[i] = &sxNode{T: u.Elem(), Leaf: sxInt{V: lanes.SrcByte(sx.srcOf(pt), i)}}
			}
			return sxAgg{n}
		}
	case *types.Pointer:
		if _, ok := u.Elem().Underlying().(*types.Struct); ok {
			return sxPtr{sx.SymNode(u.Elem(), p.Name(), idx)}
		}
	case *types.Struct:
		return sxAgg{sx.SymNode(t, p.Name(), idx)}
	}
	return sxOpaque{"parameter " + p.Name() + " of type " + t.String()}
}

// ---- running ------------------------------------------------------------------------

// Run evaluates fn on the symbolic values of its own parameters (SymArg) and
// returns the result terms (one per result; nil for results that are not byte
// strings / integers). err != nil: the evaluation stopped and nothing may be
// concluded from it.
func (sx *Sx) Run(fn *ssa.Function) (res []*Tm, err error) {
	args := make([]sxVal, len(fn.Params))
	for i, p := range fn.Params {
		args[i] = sx.SymArg(p, i)
	}
	return sx.RunArgs(fn, args)
}

func (sx *Sx) RunArgs(fn *ssa.Function, args []sxVal) (res []*Tm, err error) {
	defer func() {
		if r := recover(); r != nil {
			if a, ok := r.(sxAbort); ok {
				err = fmt.Errorf("%s", a.why)
				return
			}
			panic(r)
		}
	}()
	v := sx.run(fn, args, nil, 0)
	var vals []sxVal
	if t, ok := v.(sxTuple); ok {
		vals = t
	} else if v != nil {
		vals = []sxVal{v}
	}
	for _, x := range vals {
		res = append(res, sx.valTerm(x))
	}
	return res, nil
}

// valTerm renders a result value as a term (nil when it is not data).
func (sx *Sx) valTerm(x sxVal) *Tm {
	if t, ok := sx.bytesTerm(x); ok {
		return t
	}
	switch y := x.(type) {
	case sxInt:
		return sx.intTerm(y)
	case sxIface:
		if y.V == nil {
			return &Tm{Op: "nil"}
		}
		return sx.valTerm(y.V)
	case sxOpaque:
		return sx.top(y.Why)
	case sxPtr:
		if y.N != nil {
			return sx.structTerm(y.N)
		}
	case sxAgg:
		return sx.structTerm(y.N)
	}
	return nil
}

// structTerm renders the data fields of a struct object: struct(fld<Name>(term)…).
func (sx *Sx) structTerm(n *sxNode) *Tm {
	st, ok := n.T.Underlying().(*types.Struct)
	if !ok || n.Kids == nil {
		return nil
	}
	out := &Tm{Op: "struct"}
	for i, k := range n.Kids {
		if i >= st.NumFields() {
			break
		}
		var t *Tm
		if k.Kids != nil {
			if a, isArr := k.T.Underlying().(*types.Array); isArr && isByteType(a.Elem()) {
				t = sx.cellsTerm(k, 0, len(k.Kids))
			}
		} else if k.Leaf != nil {
			switch k.Leaf.(type) {
			case sxStr, sxSlice, sxInt:
				t = sx.valTerm(k.Leaf)
			}
		}
		if t != nil {
			out.A = append(out.A, &Tm{Op: "fld", S: st.Field(i).Name(), A: []*Tm{t}})
		}
	}
	return out
}

// Fld is the term of field `name` of a struct term (nil when absent).
func (t *Tm) Fld(name string) *Tm {
	if t == nil || t.Op != "struct" {
		return nil
	}
	for _, f := range t.A {
		if f.S == name && len(f.A) == 1 {
			return f.A[0]
		}
	}
	return nil
}

type sxFrame struct {
	sx    *Sx
	fn    *ssa.Function
	env   map[ssa.Value]sxVal
	depth int
}

func (sx *Sx) run(fn *ssa.Function, args []sxVal, free []sxVal, depth int) sxVal {
	if fn.Blocks == nil {
		sx.stop("function %s has no body", fn)
	}
	if depth > sx.MaxDepth {
		sx.stop("call depth exceeds %d at %s", sx.MaxDepth, fn)
	}
	if len(args) != len(fn.Params) {
		sx.stop("call of %s with %d arguments, %d parameters", fn, len(args), len(fn.Params))
	}
	if len(fn.FreeVars) != len(free) {
		sx.stop("closure %s called without its %d captured variables", fn, len(fn.FreeVars))
	}
	sx.Entered[fn.String()] = true
	fr := &sxFrame{sx: sx, fn: fn, env: map[ssa.Value]sxVal{}, depth: depth}
	for i, p := range fn.Params {
		fr.env[p] = args[i]
	}
	for i, fv := range fn.FreeVars {
		fr.env[fv] = free[i]
	}
	var prev *ssa.BasicBlock
	b := fn.Blocks[0]
blocks:
	for {
		var phis []*ssa.Phi
		var vals []sxVal
		for _, instr := range b.Instrs {
			p, ok := instr.(*ssa.Phi)
			if !ok {
				break
			}
			idx := -1
			for i, pr := range b.Preds {
				if pr == prev {
					idx = i
				}
			}
			if idx < 0 {
				sx.stop("φ without a matching predecessor in %s", fn)
			}
			phis = append(phis, p)
			vals = append(vals, fr.get(p.Edges[idx]))
		}
		for i, p := range phis {
			fr.env[p] = vals[i]
		}
		for _, instr := range b.Instrs[len(phis):] {
			sx.steps++
			if sx.steps > sx.MaxSteps {
				sx.stop("step budget of %d exhausted (unbounded loop?) in %s", sx.MaxSteps, fn)
			}
			switch x := instr.(type) {
			case *ssa.DebugRef:
			case *ssa.Return:
				switch len(x.Results) {
				case 0:
					return nil
				case 1:
					return fr.get(x.Results[0])
				}
				t := make(sxTuple, len(x.Results))
				for i, r := range x.Results {
					t[i] = fr.get(r)
				}
				return t
			case *ssa.Jump:
				prev, b = b, b.Succs[0]
				continue blocks
			case *ssa.If:
				c := fr.get(x.Cond)
				bv, ok := c.(sxBool)
				if !ok {
					sx.stop("%s: branch on a value that is not a boolean (%T)", fn.Name(), c)
				}
				taken := bv.Val
				if !bv.Known {
					e0, e1 := sxErrorExit(b.Succs[0]), sxErrorExit(b.Succs[1])
					switch {
					case e0 && !e1:
						taken = false
						sx.Assumed = append(sx.Assumed, fn.Name()+": "+bv.Why+" (error exit not taken)")
					case e1 && !e0:
						taken = true
						sx.Assumed = append(sx.Assumed, fn.Name()+": "+bv.Why+" (error exit not taken)")
					default:
						if !sx.forkOn {
							sx.stop("%s: data-dependent branch (%s)", fn.Name(), bv.Why)
						}
						taken = sx.fork(fn, bv)
					}
					if bv.refine != nil {
						bv.refine(taken)
					}
				}
				if taken {
					prev, b = b, b.Succs[0]
				} else {
					prev, b = b, b.Succs[1]
				}
				continue blocks
			case *ssa.Panic:
				sx.stop("%s: an explicit panic is reached", fn.Name())
			case *ssa.Store:
				fr.store(fr.get(x.Addr), fr.get(x.Val))
			case *ssa.Defer, *ssa.Go, *ssa.Send, *ssa.Select, *ssa.MapUpdate:
				sx.stop("%s: %T is not modelled", fn.Name(), instr)
			case *ssa.RunDefers:
			case ssa.Value:
				fr.env[x] = fr.eval(x)
			default:
				sx.stop("%s: instruction %T is not modelled", fn.Name(), instr)
			}
		}
		sx.stop("block without terminator in %s", fn)
	}
}

// sxErrorExit: the block returns a non-nil error (and does nothing else but
// build it).
func sxErrorExit(b *ssa.BasicBlock) bool {
	if len(b.Instrs) == 0 {
		return false
	}
	ret, ok := b.Instrs[len(b.Instrs)-1].(*ssa.Return)
	if !ok || len(ret.Results) == 0 {
		return false
	}
	last := ret.Results[len(ret.Results)-1]
	if n, ok := last.Type().(*types.Named); !ok || n.Obj().Pkg() != nil || n.Obj().Name() != "error" {
		return false
	}
	for _, instr := range b.Instrs[:len(b.Instrs)-1] {
		switch y := instr.(type) {
		case *ssa.DebugRef, *ssa.Alloc, *ssa.IndexAddr, *ssa.Slice, *ssa.MakeInterface, *ssa.UnOp, *ssa.FieldAddr, *ssa.Convert, *ssa.ChangeType:
		case *ssa.Store:
			if ia, ok := y.Addr.(*ssa.IndexAddr); !ok {
				return false
			} else if al, ok := ia.X.(*ssa.Alloc); !ok || al.Comment != "varargs" {
				return false
			}
		case *ssa.Call:
			if b, ok := y.Common().Value.(*ssa.Builtin); ok && (b.Name() == "len" || b.Name() == "cap") {
				continue
			}
			f := y.Common().StaticCallee()
			if f == nil || f.Pkg == nil {
				return false
			}
			switch f.Pkg.Pkg.Path() + "." + f.Name() {
			case "fmt.Errorf", "errors.New", "fmt.Sprintf":
			default:
				return false
			}
		default:
			return false
		}
	}
	if k, isK := last.(*ssa.Const); isK && k.Value == nil {
		return false
	}
	return true
}

// ---- path enumeration -----------------------------------------------------------------

// SxPaths enumerates the outcomes of data-dependent branches that do not guard
// an error exit (as absint.Paths does): the rule must hold on every path.
type SxPaths struct {
	Max      int
	Count    int
	Overflow bool
	prefix   []bool
	cur      *Sx
	done     bool
}

func NewSxPaths(max int) *SxPaths { return &SxPaths{Max: max} }

func (p *SxPaths) More() bool {
	if p.cur != nil {
		t := p.cur.forkTrace
		for len(t) > 0 && !t[len(t)-1] {
			t = t[:len(t)-1]
		}
		if len(t) == 0 {
			p.done = true
		} else {
			p.prefix = append([]bool(nil), t...)
			p.prefix[len(p.prefix)-1] = false
		}
		p.cur = nil
	}
	if p.done {
		return false
	}
	if p.Count >= p.Max {
		p.Overflow = true
		return false
	}
	p.Count++
	return true
}

func (p *SxPaths) Attach(sx *Sx) {
	sx.forkOn, sx.forkPrefix, sx.forkTrace = true, p.prefix, nil
	p.cur = sx
}

// Forks is the number of data-dependent branches taken so far on this path.
func (sx *Sx) Forks() int { return len(sx.forkTrace) }

func (sx *Sx) fork(fn *ssa.Function, bv sxBool) bool {
	i := len(sx.forkTrace)
	if i >= 24 {
		sx.stop("%s: more than 24 data-dependent branches on one path (a loop bounded by data?) (%s)", fn.Name(), bv.Why)
	}
	v := true
	if i < len(sx.forkPrefix) {
		v = sx.forkPrefix[i]
	}
	sx.forkTrace = append(sx.forkTrace, v)
	return v
}

// ---- instructions ---------------------------------------------------------------------

func (fr *sxFrame) get(v ssa.Value) sxVal {
	if r, ok := fr.env[v]; ok {
		return r
	}
	switch x := v.(type) {
	case *ssa.Const:
		return fr.sx.constant(x)
	case *ssa.Global:
		return sxPtr{fr.sx.global(x)}
	case *ssa.Function:
		return sxFunc{Name: x.String(), Fn: x}
	case *ssa.Builtin:
		return sxFunc{Name: x.Name()}
	}
	fr.sx.stop("%s: value %s (%T) used before it is defined", fr.fn.Name(), v.Name(), v)
	return nil
}

func (sx *Sx) constant(k *ssa.Const) sxVal {
	t := k.Type()
	if k.Value == nil {
		return sx.zeroValue(t)
	}
	switch k.Value.Kind() {
	case constant.Int:
		if w, _, ok := lanes.IntWidth(t); ok {
			n, _ := new(big.Int).SetString(k.Value.ExactString(), 10)
			return sxInt{V: lanes.ConstVec(n, w)}
		}
	case constant.Bool:
		return sxBool{Known: true, Val: constant.BoolVal(k.Value)}
	case constant.String:
		return sxStr{TmConst(constant.StringVal(k.Value))}
	}
	return sxOpaque{"constant " + k.Value.ExactString()}
}

func (fr *sxFrame) load(p sxVal) sxVal {
	switch a := p.(type) {
	case sxPtr:
		if a.N == nil {
			fr.sx.stop("%s: load through a nil pointer", fr.fn.Name())
		}
		if a.N.Kids != nil {
			return sxAgg{copySxNode(a.N)}
		}
		if ag, ok := a.N.Leaf.(sxAgg); ok {
			return sxAgg{copySxNode(ag.N)}
		}
		if a.N.Leaf == nil && a.N.Obj != nil {
			fr.sx.stop("%s: a library object is copied by value", fr.fn.Name())
		}
		return a.N.Leaf
	case sxOpaque:
		return sxOpaque{"load through " + a.Why}
	}
	fr.sx.stop("%s: load through a %T", fr.fn.Name(), p)
	return nil
}

func (fr *sxFrame) store(p sxVal, v sxVal) {
	a, ok := p.(sxPtr)
	if !ok {
		fr.sx.stop("%s: store through a %T", fr.fn.Name(), p)
	}
	if a.N == nil {
		fr.sx.stop("%s: store through a nil pointer", fr.fn.Name())
	}
	fr.sx.writable(a.N, fr.fn)
	if o, isObj := v.(sxObj); isObj {
		// a library object held by value (time.Time)
		a.N.Kids, a.N.Leaf = nil, o
		return
	}
	if a.N.Kids != nil {
		ag, ok := v.(sxAgg)
		if !ok {
			fr.sx.stop("%s: aggregate overwritten by a %T", fr.fn.Name(), v)
		}
		fr.sx.assignNode(a.N, ag.N)
		return
	}
	a.N.Leaf = v
}

func (sx *Sx) writable(n *sxNode, fn *ssa.Function) {
	if n.ro {
		sx.stop("%s: write into an immutable value (a string's bytes, a library result of unknown length)", fn.Name())
	}
	if n.frozen != "" {
		sx.stop("%s: write into a buffer after %s (the two may share storage)", fn.Name(), n.frozen)
	}
}

func (fr *sxFrame) intIdx(v ssa.Value, what string) int {
	k, ok := fr.sx.constInt(fr.get(v))
	if !ok {
		fr.sx.stop("%s: %s is not a constant on this path", fr.fn.Name(), what)
	}
	if k < 0 || k > 1<<30 {
		fr.sx.stop("%s: %s = %d is negative or too large (the code would panic)", fr.fn.Name(), what, k)
	}
	return k
}

func (fr *sxFrame) eval(v ssa.Value) sxVal {
	sx := fr.sx
	switch x := v.(type) {
	case *ssa.Alloc:
		return sxPtr{sx.zeroNode(x.Type().(*types.Pointer).Elem())}
	case *ssa.BinOp:
		return fr.binop(x)
	case *ssa.UnOp:
		a := fr.get(x.X)
		switch x.Op {
		case token.MUL:
			return fr.load(a)
		case token.NOT:
			if b, ok := a.(sxBool); ok {
				if b.Known {
					return sxBool{Known: true, Val: !b.Val}
				}
				nb := sxBool{Why: "!(" + b.Why + ")"}
				if b.refine != nil {
					rf := b.refine
					nb.refine = func(t bool) { rf(!t) }
				}
				return nb
			}
		case token.XOR:
			if iv, ok := a.(sxInt); ok {
				return sxInt{V: lanes.Not(iv.V)}
			}
		case token.SUB:
			if iv, ok := a.(sxInt); ok {
				out, _ := lanes.Binary(token.SUB, lanes.ZeroVec(len(iv.V)), iv.V, true)
				r := sxInt{V: out}
				if out.HasTop() {
					r.T = tmIntArith("-", TmInt(0), sx.intTerm(iv))
				}
				return r
			}
		}
		return sxOpaque{"unary " + x.Op.String()}
	case *ssa.Convert:
		return fr.convert(x)
	case *ssa.ChangeType:
		return fr.get(x.X)
	case *ssa.ChangeInterface:
		return fr.get(x.X)
	case *ssa.MakeInterface:
		return sxIface{V: fr.get(x.X), T: x.X.Type()}
	case *ssa.Extract:
		t, ok := fr.get(x.Tuple).(sxTuple)
		if !ok || x.Index >= len(t) {
			return sxOpaque{"component of an opaque tuple"}
		}
		return t[x.Index]
	case *ssa.FieldAddr:
		switch p := fr.get(x.X).(type) {
		case sxPtr:
			if p.N == nil {
				sx.stop("%s: field of a nil pointer", fr.fn.Name())
			}
			if p.N.Kids == nil || x.Field >= len(p.N.Kids) {
				sx.stop("%s: field address into an object whose layout is not modelled", fr.fn.Name())
			}
			return sxPtr{p.N.Kids[x.Field]}
		}
		sx.stop("%s: field address through a %T", fr.fn.Name(), fr.get(x.X))
	case *ssa.Field:
		if ag, ok := fr.get(x.X).(sxAgg); ok && x.Field < len(ag.N.Kids) {
			k := ag.N.Kids[x.Field]
			if k.Kids != nil {
				return sxAgg{copySxNode(k)}
			}
			return k.Leaf
		}
		return sxOpaque{"field of an opaque struct"}
	case *ssa.IndexAddr:
		idx := fr.intIdx(x.Index, "index "+x.Index.Name())
		base := fr.get(x.X)
		if d, isDyn := base.(sxDyn); isDyn {
			base, _ = asStr(d)
		}
		switch p := base.(type) {
		case sxPtr:
			if p.N == nil || p.N.Kids == nil {
				sx.stop("%s: element address through a nil or unmodelled array pointer", fr.fn.Name())
			}
			if idx >= len(p.N.Kids) {
				sx.stop("%s: index %d out of range [0,%d) — the code would panic", fr.fn.Name(), idx, len(p.N.Kids))
			}
			return sxPtr{p.N.Kids[idx]}
		case sxSlice:
			if p.Nil || idx >= p.Len() {
				sx.stop("%s: index %d out of range [0,%d) — the code would panic", fr.fn.Name(), idx, p.Len())
			}
			return sxPtr{p.Arr.Kids[p.Lo+idx]}
		case sxStr:
			// a byte of an immutable byte string: a read-only view
			if l := p.T.Len(); l >= 0 && idx >= l {
				sx.stop("%s: index %d out of range [0,%d) — the code would panic", fr.fn.Name(), idx, l)
			}
			if !sx.prefixKnown(p.T, idx+1) && !sx.lenAtLeast(p.T, idx+1) {
				if p.T.Op == "cat" || p.T.HasTop() {
					sx.stop("%s: byte %d of a value whose length is not fixed (%s)", fr.fn.Name(), idx, p.T.Short())
				}
				sx.Assumed = append(sx.Assumed, fmt.Sprintf("%s: %s is at least %d bytes long (a shorter value panics)", fr.fn.Name(), p.T.Short(), idx+1))
			}
			return sxPtr{&sxNode{T: types.Typ[types.Uint8], Leaf: sxInt{V: sx.byteOf(p.T, idx)}, ro: true}}
		}
		sx.stop("%s: element address through a %T", fr.fn.Name(), fr.get(x.X))
	case *ssa.Index:
		idx := fr.intIdx(x.Index, "index")
		switch a := fr.get(x.X).(type) {
		case sxAgg:
			if idx >= len(a.N.Kids) {
				sx.stop("%s: index %d out of range — the code would panic", fr.fn.Name(), idx)
			}
			k := a.N.Kids[idx]
			if k.Kids != nil {
				return sxAgg{copySxNode(k)}
			}
			return k.Leaf
		}
		return sxOpaque{"element of an opaque array"}
	case *ssa.Lookup:
		s, ok := fr.get(x.X).(sxStr)
		if !ok {
			sx.stop("%s: map lookups are not modelled", fr.fn.Name())
		}
		idx := fr.intIdx(x.Index, "string index")
		if l := s.T.Len(); l >= 0 && idx >= l {
			sx.stop("%s: string index %d out of range [0,%d) — the code would panic", fr.fn.Name(), idx, l)
		}
		if !sx.prefixKnown(s.T, idx+1) && !sx.lenAtLeast(s.T, idx+1) {
			if s.T.Op == "cat" || s.T.HasTop() {
				sx.stop("%s: byte %d of a string whose length is not fixed (%s)", fr.fn.Name(), idx, s.T.Short())
			}
			sx.Assumed = append(sx.Assumed, fmt.Sprintf("%s: %s is at least %d bytes long (a shorter value panics)", fr.fn.Name(), s.T.Short(), idx+1))
		}
		return sxInt{V: sx.byteOf(s.T, idx)}
	case *ssa.MakeSlice:
		et := x.Type().Underlying().(*types.Slice).Elem()
		n, okN := sx.constInt(fr.get(x.Len))
		c, okC := sx.constInt(fr.get(x.Cap))
		switch {
		case okN && okC:
			if c > sxMaxArray || n < 0 || c < n {
				sx.stop("%s: make of %d elements cannot be modelled", fr.fn.Name(), c)
			}
			return sxSlice{Arr: sx.zeroNode(types.NewArray(et, int64(c))), Lo: 0, Hi: n, Cap: c}
		case okN && n == 0:
			// make([]T, 0, n): an empty buffer whose capacity is not a constant
			return sxSlice{Arr: &sxNode{T: types.NewArray(et, 0), Kids: []*sxNode{}, grow: true}, Lo: 0, Hi: 0, Cap: 0}
		case isByteType(et):
			// make([]byte, n) for a length that is not a constant: n zero bytes
			li, _ := fr.get(x.Len).(sxInt)
			n := sx.intTerm(li)
			return sxDyn{&sxDynBuf{T: &Tm{Op: "rep", S: "\x00", A: []*Tm{n}}, Len: n}}
		}
		sx.stop("%s: make with a length that is not a constant on this path", fr.fn.Name())
	case *ssa.Slice:
		return fr.slice(x)
	case *ssa.Call:
		return fr.call(x)
	case *ssa.TypeAssert:
		i, ok := fr.get(x.X).(sxIface)
		if ok && i.V != nil && i.T != nil && types.Identical(i.T, x.AssertedType) {
			if x.CommaOk {
				return sxTuple{i.V, sxBool{Known: true, Val: true}}
			}
			return i.V
		}
		sx.stop("%s: type assertion is not modelled", fr.fn.Name())
	case *ssa.MakeClosure:
		f, ok := x.Fn.(*ssa.Function)
		if !ok {
			sx.stop("%s: closure over a value that is not a function", fr.fn.Name())
		}
		binds := make([]sxVal, len(x.Bindings))
		for i, b := range x.Bindings {
			binds[i] = fr.get(b)
		}
		return sxFunc{Name: f.String(), Fn: f, Free: binds}
	case *ssa.SliceToArrayPointer:
		s, ok := fr.get(x.X).(sxSlice)
		n := x.Type().(*types.Pointer).Elem().Underlying().(*types.Array).Len()
		if ok && !s.Nil && s.Lo == 0 && int64(s.Len()) >= n && int64(len(s.Arr.Kids)) == n {
			return sxPtr{s.Arr}
		}
		sx.stop("%s: slice-to-array conversion of a window is not modelled", fr.fn.Name())
	}
	sx.stop("%s: %T is not modelled", fr.fn.Name(), v)
	return nil
}

// prefixKnown: the first n bytes of t are addressable (t's length is known, or
// t is a concatenation whose first pieces have known lengths that cover n).
func (sx *Sx) prefixKnown(t *Tm, n int) bool {
	if l := t.Len(); l >= 0 {
		return n <= l
	}
	if t.Op == "cat" {
		off := 0
		for _, p := range t.A {
			l := p.Len()
			if l < 0 {
				return false
			}
			off += l
			if off >= n {
				return true
			}
		}
	}
	return false
}

func (fr *sxFrame) slice(x *ssa.Slice) sxVal {
	sx := fr.sx
	base := fr.get(x.X)
	if d, isDyn := base.(sxDyn); isDyn {
		if x.Low == nil && x.High == nil {
			return d // buf[:] is the buffer itself
		}
		base, _ = asStr(d)
	}
	// a window of an immutable value whose bounds are not constants (s[:len(s)-4])
	if bs, isStr := base.(sxStr); isStr {
		var loT, hiT *Tm
		sym := false
		for i, bv := range []ssa.Value{x.Low, x.High} {
			if bv == nil {
				continue
			}
			iv, ok := fr.get(bv).(sxInt)
			if !ok {
				sx.stop("%s: slice bound that is not an integer", fr.fn.Name())
			}
			if _, isK := sx.constInt(iv); !isK {
				sym = true
			}
			if i == 0 {
				loT = sx.intTerm(iv)
			} else {
				hiT = sx.intTerm(iv)
			}
		}
		if sym {
			if loT == nil {
				loT = TmInt(0)
			}
			if hiT == nil || SameTm(hiT, TmLen(bs.T)) {
				hiT = &Tm{Op: "end"}
			}
			if loT.HasTop() || hiT.HasTop() {
				sx.stop("%s: slice bounds that are not described (%s)", fr.fn.Name(), loT.FirstTop()+hiT.FirstTop())
			}
			if loT.Op == "int" && loT.N == 0 && hiT.Op == "end" {
				return bs
			}
			sx.Assumed = append(sx.Assumed, fmt.Sprintf("%s: the window [%s:%s] of %s is in range (otherwise the code panics)", fr.fn.Name(), loT.Short(), hiT.Short(), bs.T.Short()))
			return sxStr{&Tm{Op: "window", A: []*Tm{bs.T, loT, hiT}, M: -1}}
		}
	}
	lo := 0
	if x.Low != nil {
		lo = fr.intIdx(x.Low, "slice low bound")
	}
	switch b := base.(type) {
	case sxStr:
		hi := -1
		if x.High != nil {
			hi = fr.intIdx(x.High, "slice high bound")
		}
		if l := b.T.Len(); l >= 0 {
			if hi < 0 {
				hi = l
			}
			if lo > hi || hi > l {
				sx.stop("%s: slice [%d:%d] out of range (length %d) — the code would panic", fr.fn.Name(), lo, hi, l)
			}
		} else if hi >= 0 || lo > 0 {
			// a window of a value of unknown length: in range only if the length allows
			need := hi
			if need < 0 {
				need = lo
			}
			if !sx.lenAtLeast(b.T, need) {
				sx.Assumed = append(sx.Assumed, fmt.Sprintf("%s: %s is at least %d bytes long (a shorter value panics)", fr.fn.Name(), b.T.Short(), need))
			}
		}
		t, ok := tmSlice(b.T, lo, hi)
		if !ok {
			sx.stop("%s: %s", fr.fn.Name(), t.S)
		}
		return sxStr{t}
	case sxPtr:
		if b.N == nil || b.N.Kids == nil {
			sx.stop("%s: slice of a nil or unmodelled array pointer", fr.fn.Name())
		}
		n := len(b.N.Kids)
		hi := n
		if x.High != nil {
			hi = fr.intIdx(x.High, "slice high bound")
		}
		if lo > hi || hi > n {
			sx.stop("%s: slice [%d:%d] of an array of %d — the code would panic", fr.fn.Name(), lo, hi, n)
		}
		out := sxSlice{Arr: b.N, Lo: lo, Hi: hi, Cap: n}
		if x.Max != nil {
			out.Cap = fr.intIdx(x.Max, "slice max")
		}
		return out
	case sxSlice:
		if b.Nil {
			if lo == 0 && (x.High == nil || fr.intIdx(x.High, "slice high bound") == 0) {
				return b
			}
			sx.stop("%s: slice of a nil slice out of range", fr.fn.Name())
		}
		hi := b.Len()
		if x.High != nil {
			hi = fr.intIdx(x.High, "slice high bound")
		}
		if lo > hi || (b.Lo+hi > b.Cap && !b.Arr.grow) {
			sx.stop("%s: slice [%d:%d] with capacity %d — the code would panic", fr.fn.Name(), lo, hi, b.Cap-b.Lo)
		}
		if b.Lo+hi > b.Hi && b.Arr.grow {
			sx.stop("%s: re-slice beyond the length into spare capacity of unknown size", fr.fn.Name())
		}
		out := sxSlice{Arr: b.Arr, Lo: b.Lo + lo, Hi: b.Lo + hi, Cap: b.Cap}
		if x.Max != nil {
			out.Cap = b.Lo + fr.intIdx(x.Max, "slice max")
		}
		return out
	case sxOpaque:
		return sxOpaque{"slice of " + b.Why}
	}
	sx.stop("%s: slice of a %T", fr.fn.Name(), base)
	return nil
}

// lenAtLeast: the term is provably at least n bytes long.
func (sx *Sx) lenAtLeast(t *Tm, n int) bool {
	if l := t.Len(); l >= 0 {
		return l >= n
	}
	if lo, _ := sx.lenBounds(t); lo >= n {
		return true
	}

	if t.Op == "cat" {
		k := 0
		for _, p := range t.A {
			if l := p.Len(); l >= 0 {
				k += l
			}
		}
		return k >= n
	}
	return false
}

// materialise turns a byte string of known length into a fresh array.
func (sx *Sx) materialise(t *Tm) sxSlice {
	l := t.Len()
	arr := &sxNode{T: types.NewArray(types.Typ[types.Uint8], int64(l)), Kids: make([]*sxNode, l)}
	for i := 0; i < l; i++ {
		arr.Kids[i] = &sxNode{T: types.Typ[types.Uint8], Leaf: sxInt{V: sx.byteOf(t, i)}}
	}
	return sxSlice{Arr: arr, Lo: 0, Hi: l, Cap: l}
}

func (fr *sxFrame) convert(x *ssa.Convert) sxVal {
	sx := fr.sx
	a := fr.get(x.X)
	dw, _, dInt := lanes.IntWidth(x.Type())
	_, ssigned, sInt := lanes.IntWidth(x.X.Type())
	dst := x.Type().Underlying()
	isStr := func(t types.Type) bool {
		b, ok := t.Underlying().(*types.Basic)
		return ok && b.Info()&types.IsString != 0
	}
	isBS := func(t types.Type) bool {
		s, ok := t.Underlying().(*types.Slice)
		return ok && isByteType(s.Elem())
	}
	switch s := a.(type) {
	case sxInt:
		if dInt && sInt {
			out := sxInt{V: s.V.Resize(dw, ssigned)}
			if s.T != nil && dw >= len(s.V) {
				out.T = s.T
			} else if s.T != nil && out.V.HasTop() {
				out.T = &Tm{Op: "trunc", N: dw, A: []*Tm{s.T}}
			}
			return out
		}
		if isStr(dst) {
			if k, ok := s.V.ConstVal(); ok && k.IsInt64() && k.Int64() < 0x80 {
				return sxStr{TmConst(string(rune(k.Int64())))}
			}
			return sxOpaque{"string(integer)"}
		}
	case sxStr:
		if isStr(dst) {
			return s
		}
		if isBS(dst) {
			// []byte(s): a fresh copy; mutable when its length is fixed
			if l := s.T.Len(); l >= 0 && l <= sxMaxArray {
				return sx.materialise(s.T)
			}
			return s
		}
	case sxSlice:
		if isStr(dst) {
			t, _ := sx.bytesTerm(s)
			return sxStr{t}
		}
		if isBS(dst) {
			return s
		}
	case sxDyn:
		if isStr(dst) {
			return sxStr{s.B.T} // string(b) copies
		}
		if isBS(dst) {
			return s
		}
	case sxOpaque:
		return sxOpaque{"conversion of " + s.Why}
	}
	return sxOpaque{"conversion " + x.X.Type().String() + " → " + x.Type().String()}
}

func (fr *sxFrame) binop(x *ssa.BinOp) sxVal {
	sx := fr.sx
	a, b := fr.get(x.X), fr.get(x.Y)
	isCmp := false
	switch x.Op {
	case token.EQL, token.NEQ, token.LSS, token.LEQ, token.GTR, token.GEQ:
		isCmp = true
	}
	switch av := a.(type) {
	case sxInt:
		bv, ok := b.(sxInt)
		if !ok {
			break
		}
		_, signed, _ := lanes.IntWidth(x.X.Type())
		if isCmp {
			val, known := lanes.Compare(x.Op, av.V, bv.V, signed)
			if known {
				return sxBool{Known: true, Val: val}
			}
			if lb, ok := sx.lenCmp(x.Op, av, bv); ok {
				return lb
			}
			return sxBool{Why: sx.intTerm(av).Short() + " " + x.Op.String() + " " + sx.intTerm(bv).Short()}
		}
		out, _ := lanes.Binary(x.Op, av.V, bv.V, signed)
		r := sxInt{V: out}
		if out.HasTop() {
			r.T = tmIntArith(x.Op.String(), sx.intTerm(av), sx.intTerm(bv))
		}
		return r
	case sxBool:
		bv, ok := b.(sxBool)
		if ok && av.Known && bv.Known {
			switch x.Op {
			case token.EQL:
				return sxBool{Known: true, Val: av.Val == bv.Val}
			case token.NEQ:
				return sxBool{Known: true, Val: av.Val != bv.Val}
			case token.AND, token.LAND:
				return sxBool{Known: true, Val: av.Val && bv.Val}
			case token.OR, token.LOR:
				return sxBool{Known: true, Val: av.Val || bv.Val}
			}
		}
		return sxBool{Why: "boolean combination of undecided conditions"}
	case sxStr:
		bs, ok := b.(sxStr)
		if !ok {
			break
		}
		if x.Op == token.ADD {
			return sxStr{TmCat(av.T, bs.T)}
		}
		if x.Op == token.EQL || x.Op == token.NEQ {
			if av.T.Op == "const" && bs.T.Op == "const" {
				return sxBool{Known: true, Val: (av.T.S == bs.T.S) == (x.Op == token.EQL)}
			}
			if SameTm(av.T, bs.T) {
				return sxBool{Known: true, Val: x.Op == token.EQL}
			}
		}
		return sxBool{Why: av.T.Short() + " " + x.Op.String() + " " + bs.T.Short()}
	case sxIface, sxPtr, sxSlice, sxFunc, sxDyn:
		if x.Op == token.EQL || x.Op == token.NEQ {
			an, aok := sxIsNil(a)
			bn, bok := sxIsNil(b)
			if aok && bok && (an || bn) {
				return sxBool{Known: true, Val: (an == bn) == (x.Op == token.EQL)}
			}
		}
		return sxBool{Why: "comparison of references"}
	case sxAgg:
		// array comparison: decided when every element pair is decided
		if bg, ok := b.(sxAgg); ok && (x.Op == token.EQL || x.Op == token.NEQ) && len(av.N.Kids) == len(bg.N.Kids) {
			all := true
			for i := range av.N.Kids {
				ai, ok1 := av.N.Kids[i].Leaf.(sxInt)
				bi, ok2 := bg.N.Kids[i].Leaf.(sxInt)
				if !ok1 || !ok2 {
					all = false
					break
				}
				eq, known := lanes.Compare(token.EQL, ai.V, bi.V, false)
				if !known {
					all = false
					break
				}
				if !eq {
					return sxBool{Known: true, Val: x.Op == token.NEQ}
				}
			}
			if all {
				return sxBool{Known: true, Val: x.Op == token.EQL}
			}
		}
		return sxBool{Why: "comparison of aggregates"}
	}
	if isCmp {
		return sxBool{Why: "comparison of values that are not modelled"}
	}
	return sxOpaque{"operator " + x.Op.String() + " on values that are not modelled"}
}

func sxIsNil(v sxVal) (bool, bool) {
	switch x := v.(type) {
	case sxIface:
		return x.V == nil, true
	case sxPtr:
		return x.N == nil, true
	case sxSlice:
		return x.Nil, true
	case sxFunc:
		return x.Fn == nil && x.Name == "", true
	case sxStr, sxDyn:
		return false, true // a non-nil byte string
	}
	return false, false
}

// ---- package-level variables ------------------------------------------------------------

// global: the cell of a package-level variable. A variable of the module that
// nothing but its initialiser writes anywhere in the module, and whose other
// uses only read, holds its initialiser on every call; any other variable is
// opaque (and a write outside the initialiser is recorded as a positive
// observation).
func (sx *Sx) global(g *ssa.Global) *sxNode {
	if n := sx.globals[g]; n != nil {
		return n
	}
	if g.Pkg != nil && strings.HasPrefix(g.Pkg.Pkg.Path(), sx.E.P.ModPath) {
		sx.ModGlobals = append(sx.ModGlobals, g.Name())
	}
	et := g.Type().(*types.Pointer).Elem()
	n := &sxNode{T: et, Leaf: sxOpaque{"package-level variable " + g.Name()}, ro: true}
	sx.globals[g] = n
	if g.Pkg == nil || !strings.HasPrefix(g.Pkg.Pkg.Path(), sx.E.P.ModPath) {
		// a variable of a dependency (base64.StdEncoding, rand.Reader): a named
		// library object, trusted not to be reassigned
		if g.Pkg != nil {
			n.Leaf = sxObj{&sxObject{Kind: "ext", Ctor: g.Pkg.Pkg.Path() + "." + g.Name()}}
		}
		return n
	}
	if st, ok := et.Underlying().(*types.Struct); ok && st.NumFields() == 0 {
		z := sx.zeroNode(et)
		sx.globals[g] = z
		return z
	}
	writer, why := sx.E.globalWritten(g)
	if writer != "" {
		sx.Positive = append(sx.Positive, "package-level variable "+g.Name()+" is written outside its initialiser ("+writer+")")
		n.Leaf = sxOpaque{"package-level variable " + g.Name() + ", which " + writer + " writes"}
		return n
	}
	if why != "" {
		n.Leaf = sxOpaque{"package-level variable " + g.Name() + ": " + why}
		return n
	}
	init, ok := sx.globalInit(g)
	if !ok {
		return n
	}
	init.ro = true
	var mark func(m *sxNode)
	mark = func(m *sxNode) {
		if m == nil {
			return
		}
		m.ro = true
		for _, k := range m.Kids {
			mark(k)
		}
		switch l := m.Leaf.(type) {
		case sxSlice:
			if !l.Nil {
				mark(l.Arr)
			}
		case sxAgg:
			mark(l.N)
		}
	}
	mark(init)
	sx.globals[g] = init
	return init
}

// globalWritten scans the module for uses of g outside its package initialiser
// that write it or let it escape. writer names a writing use; why a use that
// is neither a read nor a write the scan understands.
func (e *Engine) globalWritten(g *ssa.Global) (writer, why string) {
	var uses func(v ssa.Value, in ssa.Instruction, d int) (string, string)
	uses = func(v ssa.Value, in ssa.Instruction, d int) (string, string) {
		if d > 6 {
			return "", "use chain too deep"
		}
		at := e.P.Rel(in.Pos())
		switch y := in.(type) {
		case *ssa.DebugRef:
			return "", ""
		case *ssa.Store:
			if y.Addr == v {
				return "a store at " + at, ""
			}
			return "", "its address is stored at " + at
		case *ssa.UnOp:
			if y.Op != token.MUL {
				return "", "used by " + y.Op.String()
			}
			// the loaded value: a copy for arrays/scalars/strings; a slice header shares the bytes
			if _, isSl := y.Type().Underlying().(*types.Slice); isSl {
				for _, r := range *y.Referrers() {
					if e.readOnlyUse(y, r, 0) {
						continue
					}
					// a write that is plainly visible: copy(v, …), v[i] = …
					if c, ok := r.(ssa.CallInstruction); ok {
						if b, isB := c.Common().Value.(*ssa.Builtin); isB && b.Name() == "copy" && c.Common().Args[0] == ssa.Value(y) {
							return "a copy into its bytes at " + e.P.Rel(r.Pos()), ""
						}
					}
					if ia, ok := r.(*ssa.IndexAddr); ok {
						for _, rr := range *ia.Referrers() {
							if st, isSt := rr.(*ssa.Store); isSt && st.Addr == ssa.Value(ia) {
								return "a store into its bytes at " + e.P.Rel(rr.Pos()), ""
							}
						}
					}
					return "", "its slice value is used by something that may write it at " + e.P.Rel(r.Pos())
				}
			}
			if _, isPtr := y.Type().Underlying().(*types.Pointer); isPtr {
				return "", "it holds a pointer"
			}
			return "", ""
		case *ssa.IndexAddr, *ssa.FieldAddr:
			val := in.(ssa.Value)
			for _, r := range *val.Referrers() {
				if w, y := uses(val, r, d+1); w != "" || y != "" {
					return w, y
				}
			}
			return "", ""
		case *ssa.Slice:
			for _, r := range *y.Referrers() {
				if c, ok := r.(ssa.CallInstruction); ok {
					if b, isB := c.Common().Value.(*ssa.Builtin); isB && b.Name() == "copy" && c.Common().Args[0] == ssa.Value(y) {
						return "a copy into it at " + e.P.Rel(r.Pos()), ""
					}
				}
				if !e.readOnlyUse(y, r, 0) {
					return "", "a window of it is used by something that may write it at " + e.P.Rel(r.Pos())
				}
			}
			return "", ""
		}
		return "", fmt.Sprintf("used by %T at %s", in, at)
	}
	fns := append([]*ssa.Function{}, e.P.SrcFuncs()...)
	for _, fn := range fns {
		if fn.Synthetic != "" && fn.Pkg == g.Pkg && fn.Name() == "init" {
			continue
		}
		for _, b := range fn.Blocks {
			for _, in := range b.Instrs {
				hit := false
				for _, op := range in.Operands(nil) {
					if *op == ssa.Value(g) {
						hit = true
					}
				}
				if !hit {
					continue
				}
				if w, y := uses(g, in, 0); w != "" {
					return w + " in " + e.P.FuncName(fn), ""
				} else if y != "" && why == "" {
					why = y + " in " + e.P.FuncName(fn)
				}
			}
		}
	}
	return "", why
}

// GlobalWriter reports a write to package-level variable g outside its initialiser.
func (e *Engine) GlobalWriter(g *ssa.Global) string {
	w, _ := e.globalWritten(g)
	return w
}

// globalInit evaluates the initialiser of g from its package's init function:
// the stores into g (and into the local arrays those stores refer to), in
// program order, with their operands evaluated on demand.
func (sx *Sx) globalInit(g *ssa.Global) (n *sxNode, ok bool) {
	init := g.Pkg.Func("init")
	if init == nil || init.Blocks == nil {
		return nil, false
	}
	defer func() {
		if r := recover(); r != nil {
			if _, isA := r.(sxAbort); isA {
				n, ok = nil, false
				return
			}
			panic(r)
		}
	}()
	et := g.Type().(*types.Pointer).Elem()
	cell := sx.zeroNode(et)
	fr := &sxFrame{sx: sx, fn: init, env: map[ssa.Value]sxVal{}}
	fr.env[g] = sxPtr{cell}
	// the slice of init that computes g: the stores into g, the stores into every
	// local allocation those stores read, and the pure instructions their
	// operands are made of — executed in program order
	rootOf := func(v ssa.Value) ssa.Value {
		for d := 0; d < 12; d++ {
			switch y := v.(type) {
			case *ssa.IndexAddr:
				v = y.X
			case *ssa.FieldAddr:
				v = y.X
			case *ssa.Slice:
				v = y.X
			case *ssa.ChangeType:
				v = y.X
			default:
				return v
			}
		}
		return v
	}
	roots := map[ssa.Value]bool{g: true}
	want := map[ssa.Instruction]bool{}
	bad := ""
	var need func(v ssa.Value, d int)
	need = func(v ssa.Value, d int) {
		if d > 32 {
			bad = "operand chain too deep"
			return
		}
		switch y := v.(type) {
		case *ssa.Const, *ssa.Global, *ssa.Function, *ssa.Builtin:
			return
		case *ssa.Alloc:
			roots[y] = true
			want[y] = true
			return
		case *ssa.IndexAddr, *ssa.FieldAddr, *ssa.Slice, *ssa.Convert, *ssa.ChangeType, *ssa.MakeSlice, *ssa.MakeInterface, *ssa.BinOp, *ssa.UnOp:
			in := v.(ssa.Instruction)
			if want[in] {
				return
			}
			want[in] = true
			for _, op := range in.Operands(nil) {
				if *op != nil {
					need(*op, d+1)
				}
			}
			return
		}
		bad = fmt.Sprintf("the initialiser uses %T", v)
	}
	for changed := true; changed && bad == ""; {
		changed = false
		n0 := len(want)
		for _, b := range init.Blocks {
			for _, in := range b.Instrs {
				st, isSt := in.(*ssa.Store)
				if !isSt || want[st] || !roots[rootOf(st.Addr)] {
					continue
				}
				want[st] = true
				need(st.Addr, 0)
				need(st.Val, 0)
			}
		}
		if len(want) != n0 {
			changed = true
		}
	}
	if bad != "" {
		return nil, false
	}
	nst := 0
	for _, b := range init.Blocks {
		for _, in := range b.Instrs {
			if !want[in] {
				continue
			}
			switch y := in.(type) {
			case *ssa.Store:
				if rootOf(y.Addr) == ssa.Value(g) {
					nst++
				}
				fr.store(fr.get(y.Addr), fr.get(y.Val))
			case ssa.Value:
				if _, done := fr.env[y]; !done {
					fr.env[y] = fr.eval(y)
				}
			}
		}
	}
	_ = nst
	return cell, true
}

// ArrayLen is n for a [n]byte type, else -1.
func ArrayLen(t types.Type) int {
	if a, ok := t.Underlying().(*types.Array); ok && isByteType(a.Elem()) {
		return int(a.Len())
	}
	return -1
}
