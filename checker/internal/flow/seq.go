package flow

import (
	"fmt"
	"go/constant"
	"go/token"
	"go/types"
	"sort"
	"strings"

	"golang.org/x/tools/go/ssa"
)

// ---- small SSA helpers ------------------------------------------------------

func instrIndex(in ssa.Instruction) int {
	for i, x := range in.Block().Instrs {
		if x == in {
			return i
		}
	}
	return -1
}

// Dominates: a executes before b on every path that reaches b.
func Dominates(a, b ssa.Instruction) bool {
	if a.Block() == b.Block() {
		return instrIndex(a) < instrIndex(b)
	}
	return a.Block().Dominates(b.Block())
}

// InLoop reports whether the block of in lies on a CFG cycle.
func InLoop(in ssa.Instruction) bool {
	start := in.Block()
	seen := map[*ssa.BasicBlock]bool{}
	var stack []*ssa.BasicBlock
	stack = append(stack, start.Succs...)
	for len(stack) > 0 {
		b := stack[len(stack)-1]
		stack = stack[:len(stack)-1]
		if b == start {
			return true
		}
		if seen[b] {
			continue
		}
		seen[b] = true
		stack = append(stack, b.Succs...)
	}
	return false
}

// Strip looks through value-preserving wrappers (type changes, interface
// boxing, full re-slices, single-store local cells).
func Strip(v ssa.Value) ssa.Value {
	for d := 0; d < 16; d++ {
		switch x := v.(type) {
		case *ssa.ChangeType:
			v = x.X
			continue
		case *ssa.MakeInterface:
			v = x.X
			continue
		case *ssa.ChangeInterface:
			v = x.X
			continue
		case *ssa.Slice:
			if x.Low == nil && x.High == nil && x.Max == nil {
				if _, isPtr := x.X.Type().Underlying().(*types.Pointer); !isPtr {
					v = x.X
					continue
				}
			}
		case *ssa.UnOp:
			if x.Op == token.MUL {
				if a, ok := x.X.(*ssa.Alloc); ok {
					if s := singleStore(a); s != nil {
						v = s.Val
						continue
					}
				}
			}
		}
		break
	}
	return v
}

// singleStore: the only store into a local cell whose address is used for
// nothing but loads and that store.
func singleStore(a *ssa.Alloc) *ssa.Store {
	var st *ssa.Store
	for _, r := range *a.Referrers() {
		switch x := r.(type) {
		case *ssa.Store:
			if x.Addr != ssa.Value(a) || st != nil {
				return nil
			}
			st = x
		case *ssa.UnOp:
			if x.Op != token.MUL {
				return nil
			}
		case *ssa.DebugRef:
		default:
			return nil
		}
	}
	return st
}

// StaticLen is the length of a byte-slice / string value when the SSA shape
// fixes it (-1 otherwise).
func StaticLen(v ssa.Value) int {
	v = Strip(v)
	switch x := v.(type) {
	case *ssa.Const:
		if x.Value != nil && x.Value.Kind() == constant.String {
			return len(constant.StringVal(x.Value))
		}
	case *ssa.Convert:
		return StaticLen(x.X)
	case *ssa.MakeSlice:
		if n, ok := constInt(x.Len); ok {
			return int(n)
		}
	case *ssa.Slice:
		n := -1
		switch t := x.X.Type().Underlying().(type) {
		case *types.Pointer:
			if a, ok := t.Elem().Underlying().(*types.Array); ok {
				n = int(a.Len())
			}
		default:
			n = StaticLen(x.X)
		}
		lo, hi := 0, n
		if x.Low != nil {
			k, ok := constInt(x.Low)
			if !ok {
				return -1
			}
			lo = int(k)
		}
		if x.High != nil {
			k, ok := constInt(x.High)
			if !ok {
				return -1
			}
			hi = int(k)
		}
		if hi < 0 {
			return -1
		}
		return hi - lo
	}
	return -1
}

// readOnlyUse: instruction r uses slice/pointer value v without writing
// through it or retaining it writably.
func (e *Engine) readOnlyUse(v ssa.Value, r ssa.Instruction, d int) bool {
	if d > 6 {
		return false
	}
	switch x := r.(type) {
	case *ssa.DebugRef:
		return true
	case *ssa.UnOp:
		return x.Op == token.MUL // load
	case *ssa.IndexAddr:
		for _, rr := range *x.Referrers() {
			if u, ok := rr.(*ssa.UnOp); ok && u.Op == token.MUL {
				continue
			}
			if _, ok := rr.(*ssa.DebugRef); ok {
				continue
			}
			return false
		}
		return true
	case *ssa.Index, *ssa.Lookup, *ssa.Range, *ssa.BinOp:
		return true
	case *ssa.Slice:
		for _, rr := range *x.Referrers() {
			if !e.readOnlyUse(x, rr, d+1) {
				return false
			}
		}
		return true
	case *ssa.ChangeType, *ssa.MakeInterface, *ssa.Convert:
		val := r.(ssa.Value)
		if _, isConv := r.(*ssa.Convert); isConv {
			return true // []byte→string copies
		}
		for _, rr := range *val.Referrers() {
			if !e.readOnlyUse(val, rr, d+1) {
				return false
			}
		}
		return true
	case *ssa.Phi:
		return false
	case ssa.CallInstruction:
		cc := x.Common()
		label := e.CalleeLabel(cc)
		if b, ok := cc.Value.(*ssa.Builtin); ok {
			switch b.Name() {
			case "len", "cap":
				return true
			case "append":
				// reading as the appended tail is fine; as the base it may be extended in place
				for i, a := range cc.Args {
					if a == v && i == 0 {
						return StaticLen(v) >= 0 && capIsLen(v)
					}
				}
				return true
			case "copy":
				return cc.Args[0] != v
			}
			return false
		}
		if eff, ok := externalEffect(label, cc); ok {
			for _, i := range eff.dst {
				if i == -1 && cc.Value == v {
					return false
				}
				if i >= 0 && i < len(cc.Args) && cc.Args[i] == v {
					return false
				}
			}
			return true
		}
		if callee := cc.StaticCallee(); callee != nil && e.P.InModule(callee) && callee.Blocks != nil {
			ws := e.Writes(callee)
			for i, a := range cc.Args {
				if a != v {
					continue
				}
				for _, w := range ws {
					if w.Param == i {
						return false
					}
				}
			}
			return true
		}
		return pureExternal(label, cc)
	}
	return false
}

// capIsLen: the slice value is a full window of a fixed array (append must
// reallocate unless the tail is empty).
func capIsLen(v ssa.Value) bool {
	s, ok := v.(*ssa.Slice)
	if !ok {
		return false
	}
	_, isPtr := s.X.Type().Underlying().(*types.Pointer)
	return isPtr && s.High == nil && s.Max == nil
}

// ConstBytes decodes a byte-slice / string value all of whose bytes are fixed
// by the SSA shape and that nothing writes afterwards: a string constant, a
// []byte("…") conversion, a composite literal of constants, or a fresh
// make([]byte, k) / [k]byte that is only ever read (all zero).
func (e *Engine) ConstBytes(v ssa.Value) ([]byte, bool) {
	return e.constBytes(v, nil)
}

// ConstBytesRO is ConstBytes, and additionally accepts a load of an unexported
// package-level variable of the module that is written by nothing but its
// initialiser anywhere in the module and whose loads are only ever read
// (`var magic = []byte("…")`): its bytes are the same at every call.
func (e *Engine) ConstBytesRO(v ssa.Value) ([]byte, bool) {
	if b, ok := e.constBytes(v, nil); ok {
		return b, true
	}
	if ld, ok := Strip(v).(*ssa.UnOp); ok && ld.Op == token.MUL {
		if g, ok := ld.X.(*ssa.Global); ok && !token.IsExported(g.Name()) {
			return e.globalConst(g)
		}
	}
	return nil, false
}

// constBytes: except is one referrer that is known not to write the bytes (the
// store of a package-level variable's initialiser into that variable).
func (e *Engine) constBytes(v ssa.Value, except ssa.Instruction) ([]byte, bool) {
	v = Strip(v)
	switch x := v.(type) {
	case *ssa.Const:
		if x.Value != nil && x.Value.Kind() == constant.String {
			return []byte(constant.StringVal(x.Value)), true
		}
		return nil, false
	case *ssa.Convert:
		if b, ok := e.constBytes(x.X, nil); ok {
			for _, r := range *x.Referrers() {
				if r == except {
					continue
				}
				if !e.readOnlyUse(x, r, 0) {
					return nil, false
				}
			}
			return b, true
		}
		return nil, false
	case *ssa.Slice:
		a, ok := x.X.(*ssa.Alloc)
		if !ok {
			return nil, false
		}
		arr, ok := a.Type().Underlying().(*types.Pointer).Elem().Underlying().(*types.Array)
		if !ok {
			return nil, false
		}
		if b, ok := arr.Elem().Underlying().(*types.Basic); !ok || b.Kind() != types.Uint8 {
			return nil, false
		}
		n := int(arr.Len())
		lo, hi := 0, n
		if x.Low != nil {
			k, ok := constInt(x.Low)
			if !ok {
				return nil, false
			}
			lo = int(k)
		}
		if x.High != nil {
			k, ok := constInt(x.High)
			if !ok {
				return nil, false
			}
			hi = int(k)
		}
		if lo < 0 || hi > n || lo > hi {
			return nil, false
		}
		buf := make([]byte, n)
		for _, r := range *a.Referrers() {
			switch y := r.(type) {
			case *ssa.DebugRef:
			case *ssa.IndexAddr:
				idx, ok := constInt(y.Index)
				if !ok || idx < 0 || int(idx) >= n {
					return nil, false
				}
				for _, rr := range *y.Referrers() {
					switch z := rr.(type) {
					case *ssa.Store:
						if z.Addr != ssa.Value(y) {
							return nil, false
						}
						k, ok := constInt(z.Val)
						if !ok {
							return nil, false
						}
						// the literal's stores precede every use only if they are in the
						// allocation's block before the slice (composite literal shape)
						if z.Block() != a.Block() || !Dominates(z, x) {
							return nil, false
						}
						buf[idx] = byte(k)
					case *ssa.UnOp:
						if z.Op != token.MUL {
							return nil, false
						}
					case *ssa.DebugRef:
					default:
						return nil, false
					}
				}
			case *ssa.Slice:
				for _, rr := range *y.Referrers() {
					if rr == except {
						continue
					}
					if !e.readOnlyUse(y, rr, 0) {
						return nil, false
					}
				}
			default:
				return nil, false
			}
		}
		return buf[lo:hi], true
	}
	return nil, false
}

// globalConst decodes the bytes of a package-level []byte / string variable of
// the module whose only store in the whole module is its initialiser (in the
// synthetic package init) and whose every other use is a load that is only
// read. Nothing can then change the bytes between two calls.
func (e *Engine) globalConst(g *ssa.Global) ([]byte, bool) {
	if e.globals == nil {
		e.globals = map[*ssa.Global]*globalBytes{}
	}
	if c, ok := e.globals[g]; ok {
		return c.b, c.ok
	}
	res := &globalBytes{}
	e.globals[g] = res
	if g.Pkg == nil || !strings.HasPrefix(g.Pkg.Pkg.Path(), e.P.ModPath) {
		return nil, false
	}
	fns := append([]*ssa.Function{}, e.P.SrcFuncs()...)
	for path, sp := range e.P.SSAPkgs {
		if strings.HasPrefix(path, e.P.ModPath) {
			if f := sp.Func("init"); f != nil {
				fns = append(fns, f)
			}
		}
	}
	var init *ssa.Store
	for _, fn := range fns {
		for _, b := range fn.Blocks {
			for _, in := range b.Instrs {
				uses := false
				for _, op := range in.Operands(nil) {
					if *op == ssa.Value(g) {
						uses = true
					}
				}
				if !uses {
					continue
				}
				switch y := in.(type) {
				case *ssa.DebugRef:
				case *ssa.Store:
					if y.Addr != ssa.Value(g) || init != nil || fn.Synthetic == "" || fn.Pkg != g.Pkg {
						return nil, false
					}
					init = y
				case *ssa.UnOp:
					if y.Op != token.MUL {
						return nil, false
					}
					for _, r := range *y.Referrers() {
						if !e.readOnlyUse(y, r, 0) {
							return nil, false
						}
					}
				default:
					return nil, false // the variable's address is taken
				}
			}
		}
	}
	if init == nil {
		return nil, false
	}
	b, ok := e.constBytes(init.Val, init)
	if ok {
		res.b, res.ok = b, true
	}
	return res.b, res.ok
}

type globalBytes struct {
	b  []byte
	ok bool
}

func AllZero(b []byte) bool {
	for _, x := range b {
		if x != 0 {
			return false
		}
	}
	return true
}

// ---- concatenation segments ---------------------------------------------------

// Seg is one piece of a concatenation: value V, seen through the distributive
// calls Wrap (outermost first): EncodeUTF16LE(a+b) has segments a and b, both
// wrapped by EncodeUTF16LE.
type Seg struct {
	V    ssa.Value
	Wrap []string
	// N > 0: the segment is the N-byte fixed-width encoding of the integer V
	// (binary.{Little,Big}Endian.AppendUintN); BE tells the byte order.
	N  int
	BE bool
}

// Len is the static byte length of the segment (-1 when the shape does not fix it).
func (s Seg) Len() int {
	if s.N > 0 {
		return s.N
	}
	if len(s.Wrap) > 0 {
		return -1
	}
	return StaticLen(s.V)
}

// binaryAppend recognises binary.{Little,Big}Endian.AppendUintN(b, v).
func binaryAppend(cc *ssa.CallCommon) (n int, be, ok bool) {
	f := cc.StaticCallee()
	if f == nil || len(cc.Args) != 3 {
		return 0, false, false
	}
	name := f.String()
	for _, o := range []struct {
		p  string
		be bool
	}{{"(encoding/binary.littleEndian).AppendUint", false}, {"(encoding/binary.bigEndian).AppendUint", true}} {
		if strings.HasPrefix(name, o.p) {
			switch strings.TrimPrefix(name, o.p) {
			case "16":
				return 2, o.be, true
			case "32":
				return 4, o.be, true
			case "64":
				return 8, o.be, true
			}
		}
	}
	return 0, false, false
}

// Distributive: a label whose function maps a concatenation to the
// concatenation of the images (set by the rule files).
type Distributive func(label string) bool

// Segs flattens a byte-slice / string value into its ordered concatenation
// segments: append(a, b...), a + b, f(a + b) for distributive f. Anything else
// is a single segment.
func (e *Engine) Segs(v ssa.Value, dist Distributive) []Seg {
	return e.segs(v, dist, 0)
}

func (e *Engine) segs(v ssa.Value, dist Distributive, d int) []Seg {
	if d > 64 {
		return []Seg{{V: v}}
	}
	s := Strip(v)
	switch x := s.(type) {
	case *ssa.BinOp:
		if x.Op == token.ADD {
			if b, ok := x.Type().Underlying().(*types.Basic); ok && b.Info()&types.IsString != 0 {
				return append(e.segs(x.X, dist, d+1), e.segs(x.Y, dist, d+1)...)
			}
		}
	case *ssa.Convert:
		// []byte(s) / string(b) distribute over concatenation
		inner := e.segs(x.X, dist, d+1)
		if len(inner) > 1 {
			return inner
		}
	case *ssa.Call:
		cc := x.Common()
		if b, ok := cc.Value.(*ssa.Builtin); ok && b.Name() == "append" && len(cc.Args) == 2 {
			head := e.segs(cc.Args[0], dist, d+1)
			tail := e.segs(cc.Args[1], dist, d+1)
			return append(dropEmpty(head), dropEmpty(tail)...)
		}
		if f := cc.StaticCallee(); f != nil {
			name := f.String()
			switch {
			case (name == "bytes.Clone" || strings.HasPrefix(name, "slices.Clone[")) && len(cc.Args) == 1:
				// a copy of the bytes: same concatenation
				return e.segs(cc.Args[0], dist, d+1)
			case strings.HasPrefix(name, "slices.Concat[") && len(cc.Args) == 1:
				if parts, ok := VarArgs(cc.Args[0]); ok && len(parts) > 0 {
					var out []Seg
					for _, p := range parts {
						out = append(out, dropEmpty(e.segs(p, dist, d+1))...)
					}
					return out
				}
			}
		}
		if n, be, ok := binaryAppend(cc); ok {
			head := e.segs(cc.Args[1], dist, d+1)
			return append(dropEmpty(head), Seg{V: cc.Args[2], N: n, BE: be})
		}
		label := e.CalleeLabel(cc)
		if dist != nil && dist(label) && len(cc.Args) == 1 {
			inner := e.segs(cc.Args[0], dist, d+1)
			if len(inner) > 1 {
				out := make([]Seg, len(inner))
				for i, sg := range inner {
					out[i] = Seg{V: sg.V, Wrap: append([]string{label}, sg.Wrap...)}
				}
				return out
			}
		}
	}
	return []Seg{{V: v}}
}

func dropEmpty(ss []Seg) []Seg {
	var out []Seg
	for _, s := range ss {
		if len(s.Wrap) == 0 && s.N == 0 && StaticLen(s.V) == 0 {
			continue
		}
		out = append(out, s)
	}
	return out
}

// SegProv is the provenance of a segment: that of its value plus its wrappers.
func (e *Engine) SegProv(fn *ssa.Function, s Seg) Set {
	return e.Prov(fn, s.V).withLabels(s.Wrap...)
}

// ---- hash objects -------------------------------------------------------------

// HashUse describes one keyed/unkeyed hash computation: the object, the call
// that created it, the ordered Write calls and the Sum call.
type HashUse struct {
	Obj    ssa.Value
	New    *ssa.Call
	Writes []ssa.CallInstruction
	Sum    *ssa.Call
}

func isMethodCall(cc *ssa.CallCommon, name string) (recv ssa.Value, args []ssa.Value, ok bool) {
	if cc.IsInvoke() {
		if cc.Method.Name() == name {
			return cc.Value, cc.Args, true
		}
		return nil, nil, false
	}
	if fn := cc.StaticCallee(); fn != nil && fn.Name() == name && fn.Signature.Recv() != nil && len(cc.Args) > 0 {
		return cc.Args[0], cc.Args[1:], true
	}
	return nil, nil, false
}

// HashOf resolves the value returned by X.Sum(...) to the hash computation
// that produced it. The object must be used for nothing but Write and Sum, the
// Writes must be totally ordered by dominance, outside loops, and all precede
// the Sum. Otherwise ok is false and why says what was met.
func (e *Engine) HashOf(sum ssa.Value) (h *HashUse, why string) {
	v := Strip(sum)
	// a [16]byte result spilled to a cell and re-sliced: t = new [16]byte; *t = Sum(); slice t[:]
	if s, ok := v.(*ssa.Slice); ok {
		if a, ok := s.X.(*ssa.Alloc); ok {
			if st := arrayCellStore(a); st != nil {
				v = Strip(st.Val)
			}
		}
	}
	call, ok := v.(*ssa.Call)
	if !ok {
		return nil, fmt.Sprintf("value is %T, not the result of a Sum call", v)
	}
	recv, _, ok := isMethodCall(call.Common(), "Sum")
	if !ok {
		return nil, "value is the result of " + e.CalleeLabel(call.Common()) + ", not of a Sum call"
	}
	obj := Strip(recv)
	nw, ok := obj.(*ssa.Call)
	if !ok {
		return nil, fmt.Sprintf("hash object is %T, not the result of a constructor call in this function", obj)
	}
	h = &HashUse{Obj: obj, New: nw, Sum: call}
	for _, r := range *obj.Referrers() {
		ci, ok := r.(ssa.CallInstruction)
		if !ok {
			if _, dbg := r.(*ssa.DebugRef); dbg {
				continue
			}
			return nil, fmt.Sprintf("hash object is also used by %T (escapes)", r)
		}
		rc, _, isW := isMethodCall(ci.Common(), "Write")
		if isW && Strip(rc) == obj {
			if InLoop(ci) {
				return nil, "a Write on the hash object sits in a loop"
			}
			h.Writes = append(h.Writes, ci)
			continue
		}
		rc, _, isS := isMethodCall(ci.Common(), "Sum")
		if isS && Strip(rc) == obj {
			continue
		}
		return nil, "hash object is also passed to " + e.CalleeLabel(ci.Common())
	}
	sort.SliceStable(h.Writes, func(i, j int) bool { return Dominates(h.Writes[i], h.Writes[j]) })
	for i := 0; i+1 < len(h.Writes); i++ {
		if !Dominates(h.Writes[i], h.Writes[i+1]) {
			return nil, "Write calls on the hash object are not totally ordered (branching)"
		}
	}
	for _, w := range h.Writes {
		if !Dominates(w, call) {
			return nil, "a Write on the hash object does not precede the Sum on every path"
		}
	}
	return h, ""
}

// arrayCellStore: the single whole-array store into a local array cell that is
// otherwise only sliced / loaded.
func arrayCellStore(a *ssa.Alloc) *ssa.Store {
	var st *ssa.Store
	for _, r := range *a.Referrers() {
		switch x := r.(type) {
		case *ssa.Store:
			if x.Addr != ssa.Value(a) || st != nil {
				return nil
			}
			st = x
		case *ssa.Slice, *ssa.UnOp, *ssa.DebugRef, *ssa.IndexAddr:
		default:
			return nil
		}
	}
	return st
}

// Input is the ordered concatenation the hash absorbed.
func (e *Engine) HashInput(h *HashUse, dist Distributive) []Seg {
	var out []Seg
	for _, w := range h.Writes {
		_, args, _ := isMethodCall(w.Common(), "Write")
		if len(args) == 1 {
			out = append(out, dropEmpty(e.Segs(args[0], dist))...)
		}
	}
	return out
}

// ---- variadic arguments -------------------------------------------------------

// VarArgs decodes the trailing `...any` argument of a call (fmt.Sprintf) into
// its element values.
func VarArgs(v ssa.Value) ([]ssa.Value, bool) {
	s, ok := v.(*ssa.Slice)
	if !ok {
		if k, isK := v.(*ssa.Const); isK && k.Value == nil {
			return nil, true
		}
		return nil, false
	}
	a, ok := s.X.(*ssa.Alloc)
	if !ok {
		return nil, false
	}
	arr, ok := a.Type().Underlying().(*types.Pointer).Elem().Underlying().(*types.Array)
	if !ok {
		return nil, false
	}
	out := make([]ssa.Value, arr.Len())
	for _, r := range *a.Referrers() {
		switch x := r.(type) {
		case *ssa.IndexAddr:
			idx, ok := constInt(x.Index)
			if !ok || idx < 0 || idx >= arr.Len() {
				return nil, false
			}
			for _, rr := range *x.Referrers() {
				if st, ok := rr.(*ssa.Store); ok && st.Addr == ssa.Value(x) {
					if out[idx] != nil {
						return nil, false
					}
					out[idx] = st.Val
				}
			}
		case *ssa.Slice, *ssa.DebugRef:
		default:
			return nil, false
		}
	}
	for _, v := range out {
		if v == nil {
			return nil, false
		}
	}
	return out, true
}

// Expr renders an SSA value as a short source-like expression for construct
// keys and messages (never a line number).
func Expr(v ssa.Value) string { return expr(v, 0) }

func expr(v ssa.Value, d int) string {
	if v == nil {
		return "nil"
	}
	if d > 5 {
		return "…"
	}
	switch x := v.(type) {
	case *ssa.Const:
		return constName(x)
	case *ssa.Parameter:
		return x.Name()
	case *ssa.Global:
		return x.Name()
	case *ssa.Function:
		return x.Name()
	case *ssa.Alloc:
		if x.Comment != "" && x.Comment != "complit" && x.Comment != "slicelit" && x.Comment != "makeslice" && x.Comment != "varargs" {
			return x.Comment
		}
		if st := arrayCellStore(x); st != nil {
			return expr(st.Val, d+1)
		}
		return "new " + types.TypeString(x.Type().Underlying().(*types.Pointer).Elem(), func(p *types.Package) string { return p.Name() })
	case *ssa.FieldAddr:
		return expr(x.X, d+1) + "." + fieldName(x)
	case *ssa.IndexAddr:
		return expr(x.X, d+1) + "[" + expr(x.Index, d+1) + "]"
	case *ssa.UnOp:
		if x.Op == token.MUL {
			return expr(x.X, d+1)
		}
		return x.Op.String() + expr(x.X, d+1)
	case *ssa.BinOp:
		return expr(x.X, d+1) + x.Op.String() + expr(x.Y, d+1)
	case *ssa.Slice:
		lo, hi := "", ""
		if x.Low != nil {
			lo = expr(x.Low, d+1)
		}
		if x.High != nil {
			hi = expr(x.High, d+1)
		}
		return expr(x.X, d+1) + "[" + lo + ":" + hi + "]"
	case *ssa.Convert:
		return types.TypeString(x.Type(), func(p *types.Package) string { return p.Name() }) + "(" + expr(x.X, d+1) + ")"
	case *ssa.ChangeType:
		return expr(x.X, d+1)
	case *ssa.MakeInterface:
		return expr(x.X, d+1)
	case *ssa.Extract:
		return expr(x.Tuple, d+1) + fmt.Sprintf("#%d", x.Index)
	case *ssa.Phi:
		if x.Comment != "" {
			return x.Comment
		}
		return "φ"
	case *ssa.MakeSlice:
		return "make(" + expr(x.Len, d+1) + ")"
	case *ssa.Call:
		cc := x.Common()
		var as []string
		for _, a := range cc.Args {
			as = append(as, expr(a, d+1))
		}
		name := ""
		switch {
		case cc.IsInvoke():
			name = expr(cc.Value, d+1) + "." + cc.Method.Name()
		case cc.StaticCallee() != nil:
			fn := cc.StaticCallee()
			name = fn.Name()
			if fn.Signature.Recv() == nil && fn.Pkg != nil {
				name = fn.Pkg.Pkg.Name() + "." + name
			} else if len(as) > 0 {
				name = as[0] + "." + name
				as = as[1:]
			}
		default:
			name = expr(cc.Value, d+1)
		}
		return name + "(" + strings.Join(as, ",") + ")"
	case *ssa.Builtin:
		return x.Name()
	}
	return v.Name()
}

// ---- hash computations seen through one helper level --------------------------

// HashDesc is a hash computation in the terms of the function that asked:
// constructor, its arguments, and the ordered input segments.
type HashDesc struct {
	Ctor     *ssa.Function
	CtorArgs []ssa.Value
	Input    []Seg
	Via      *ssa.Function // the in-module helper the computation sits in (nil: inline)
	Sum      *ssa.Call
}

// DeepHash resolves v — the result of X.Sum(...) in fn, or the result of an
// in-module helper that returns such a Sum of a hash over its own parameters —
// to a HashDesc whose values live in fn.
func (e *Engine) DeepHash(v ssa.Value, dist Distributive) (*HashDesc, string) {
	h, why := e.HashOf(v)
	if h != nil {
		return &HashDesc{Ctor: h.New.Common().StaticCallee(), CtorArgs: h.New.Common().Args, Input: e.HashInput(h, dist), Sum: h.Sum}, ""
	}
	s := Strip(v)
	if sl, ok := s.(*ssa.Slice); ok {
		if a, ok := sl.X.(*ssa.Alloc); ok {
			if st := arrayCellStore(a); st != nil {
				s = Strip(st.Val)
			}
		}
	}
	call, ok := s.(*ssa.Call)
	if !ok {
		return nil, why
	}
	g := call.Common().StaticCallee()
	if g == nil || g.Blocks == nil || !e.P.InModule(g) || (e.Opaque != nil && e.Opaque(g)) {
		return nil, why
	}
	rets := returnsOf(g)
	if len(rets) != 1 || len(rets[0].Results) != 1 {
		return nil, why + "; helper " + e.Name(g) + " does not have a single return of one value"
	}
	hg, why2 := e.HashOf(rets[0].Results[0])
	if hg == nil {
		return nil, why + "; in helper " + e.Name(g) + ": " + why2
	}
	bind := func(x ssa.Value) (ssa.Value, bool) {
		x = Strip(x)
		switch y := x.(type) {
		case *ssa.Parameter:
			for i, p := range g.Params {
				if p == y && i < len(call.Common().Args) {
					return call.Common().Args[i], true
				}
			}
		case *ssa.Function, *ssa.Const:
			return x, true
		case *ssa.Slice:
			// key[:] of an array parameter (spilled to a cell because it is sliced)
			if y.Low == nil && y.High == nil && y.Max == nil {
				if a, ok := y.X.(*ssa.Alloc); ok {
					if st := arrayCellStore(a); st != nil {
						if p, isP := st.Val.(*ssa.Parameter); isP {
							for i, q := range g.Params {
								if q == p && i < len(call.Common().Args) {
									return call.Common().Args[i], true
								}
							}
						}
					}
				}
			}
		}
		return nil, false
	}
	d := &HashDesc{Ctor: hg.New.Common().StaticCallee(), Via: g, Sum: hg.Sum}
	for _, a := range hg.New.Common().Args {
		b, ok := bind(a)
		if !ok {
			return nil, "helper " + e.Name(g) + ": constructor argument " + Expr(a) + " is not a parameter of the helper"
		}
		d.CtorArgs = append(d.CtorArgs, b)
	}
	for _, sg := range e.HashInput(hg, dist) {
		// f(param) for a distributive f: the call becomes a wrapper of the segment
		for d := 0; d < 8 && dist != nil; d++ {
			c, isC := Strip(sg.V).(*ssa.Call)
			if !isC || len(c.Common().Args) != 1 || !dist(e.CalleeLabel(c.Common())) {
				break
			}
			sg = Seg{V: c.Common().Args[0], Wrap: append(append([]string{}, sg.Wrap...), e.CalleeLabel(c.Common()))}
		}
		b, ok := bind(sg.V)
		if !ok {
			return nil, "helper " + e.Name(g) + ": hashed segment " + Expr(sg.V) + " is not a parameter of the helper"
		}
		for _, inner := range e.Segs(b, dist) {
			d.Input = append(d.Input, Seg{V: inner.V, Wrap: append(append([]string{}, sg.Wrap...), inner.Wrap...), N: inner.N, BE: inner.BE})
		}
	}
	return d, ""
}

// ReadOnly reports whether nothing in the function writes through reference
// value v (all its uses are reads, known-pure calls, or append tails).
func (e *Engine) ReadOnly(v ssa.Value) bool {
	refs := v.Referrers()
	if refs == nil {
		return false
	}
	for _, r := range *refs {
		if !e.readOnlyUse(v, r, 0) {
			return false
		}
	}
	return true
}

// HashOfObj resolves a hash object (the result of a constructor call) to its
// computation; the object must have exactly one Sum.
func (e *Engine) HashOfObj(obj *ssa.Call) (*HashUse, string) {
	var sum *ssa.Call
	refs := obj.Referrers()
	if refs == nil {
		return nil, "constructor result is unused"
	}
	for _, r := range *refs {
		c, ok := r.(*ssa.Call)
		if !ok {
			continue
		}
		if rc, _, isS := isMethodCall(c.Common(), "Sum"); isS && Strip(rc) == ssa.Value(obj) {
			if sum != nil {
				return nil, "the hash object is summed more than once"
			}
			sum = c
		}
	}
	if sum == nil {
		return nil, "the hash object is never summed in this function"
	}
	return e.HashOf(sum)
}

// WritersOf lists the instructions of fn that write into the memory value v
// denotes (stores, copy, calls that write through an argument).
func (e *Engine) WritersOf(fn *ssa.Function, v ssa.Value) []ssa.Instruction {
	f := e.frame(fn, 0)
	var out []ssa.Instruction
	ls := f.resolve(v)
	for i := range f.index() {
		w := &f.index()[i]
		for _, d := range w.dst {
			hit := false
			for _, l := range ls {
				if d.base == l.base && compatible(d.path, l.path) {
					hit = true
				}
			}
			if hit {
				out = append(out, w.at)
				break
			}
		}
	}
	return out
}
