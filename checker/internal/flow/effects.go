package flow

import (
	"fmt"
	"go/token"
	"go/types"
	"sort"
	"strings"

	"golang.org/x/tools/go/ssa"
)

// Write is one store, transitively, into memory rooted at a parameter of the
// summarised function: parameter Param, field path Path (".state", ".ci" — a
// slice header and its backing store are one cell; "" = the whole object / an
// element of the slice parameter itself).
type Write struct {
	Param     int
	Path      string
	How       string // human description of the chain: "store", "copy", "→ (*MD4).Write: store"
	Pos       token.Pos
	Uncertain bool // an unmodelled callee receives the memory: it MAY write
}

func (w Write) Field() string {
	p := strings.TrimPrefix(w.Path, ".")
	if i := strings.Index(p, "."); i >= 0 {
		p = p[:i]
	}
	return p
}

// FieldWrite is a module-wide who-writes fact: function Fn (or a callee it
// hands the field to) writes field Field of struct type Struct.
type FieldWrite struct {
	Fn        *ssa.Function
	Struct    *types.Named
	Field     string
	How       string
	Pos       token.Pos
	Uncertain bool
}

type effects struct {
	e    *Engine
	sum  map[*ssa.Function][]Write
	busy map[*ssa.Function]bool
	// Pure: external callees known not to write through their arguments.
}

func (e *Engine) effects() *effects {
	if e.eff == nil {
		e.eff = &effects{e: e, sum: map[*ssa.Function][]Write{}, busy: map[*ssa.Function]bool{}}
	}
	return e.eff
}

// Writes is the parameter-rooted write summary of fn (transitive over static
// in-module callees; stdlib contracts from the table in externalEffect).
func (e *Engine) Writes(fn *ssa.Function) []Write { return e.effects().Writes(fn) }

// pureExternal: callees (by label) that only read the memory they are given.
// Anything external that is neither here nor in externalEffect and receives
// parameter-rooted memory yields an Uncertain write.
func pureExternal(label string, cc *ssa.CallCommon) bool {
	if cc.IsInvoke() {
		switch cc.Method.Name() {
		case "Sum", "Size", "BlockSize", "Error", "String":
			return true
		}
		return false
	}
	for _, p := range []string{
		"encoding/hex.", "encoding/base64.", "(*encoding/base64.Encoding).", "strings.", "bytes.", "fmt.", "errors.",
		"(encoding/binary.littleEndian).Uint", "(encoding/binary.bigEndian).Uint",
		"(encoding/binary.littleEndian).AppendUint", "(encoding/binary.bigEndian).AppendUint",
		"crypto/hmac.", "crypto/des.NewCipher", "crypto/aes.NewCipher", "crypto/cipher.NewCBC", "crypto/md5.", "crypto/sha1.",
		"golang.org/x/crypto/pbkdf2.Key", "unicode/utf16.", "unicode/utf8.", "crypto/subtle.", "math/bits.", "time.", "strconv.",
		"(time.Time).", "unsafe.", "sort.", "log.", "os.",
	} {
		if strings.HasPrefix(label, p) {
			return true
		}
	}
	return false
}

func refLike(t types.Type) bool {
	switch u := t.Underlying().(type) {
	case *types.Pointer, *types.Slice, *types.Map, *types.Interface, *types.Chan:
		return true
	case *types.Struct:
		for i := 0; i < u.NumFields(); i++ {
			if refLike(u.Field(i).Type()) {
				return true
			}
		}
	}
	return false
}

func (x *effects) Writes(fn *ssa.Function) []Write {
	if s, ok := x.sum[fn]; ok {
		return s
	}
	if x.busy[fn] || fn.Blocks == nil {
		return nil
	}
	x.busy[fn] = true
	defer delete(x.busy, fn)
	f := &frame{e: x.e, fn: fn, depth: 99, memo: map[ssa.Value]Set{}, lmemo: map[loc]Set{}}
	// local stores only are needed by resolve(); avoid recursion through index()
	f.built = true
	for _, b := range fn.Blocks {
		for _, in := range b.Instrs {
			if st, ok := in.(*ssa.Store); ok {
				f.writes = append(f.writes, memWrite{at: st, store: st})
			}
		}
	}
	for i := range f.writes {
		f.writes[i].dst = f.resolve(f.writes[i].store.Addr)
	}
	seen := map[string]bool{}
	var out []Write
	add := func(w Write) {
		k := fmt.Sprintf("%d%s|%s|%v", w.Param, w.Path, w.How, w.Uncertain)
		if !seen[k] {
			seen[k] = true
			out = append(out, w)
		}
	}
	rooted := func(v ssa.Value, how string, pos token.Pos, sub string, uncertain bool) {
		for _, l := range f.resolve(v) {
			if p, ok := l.base.(*ssa.Parameter); ok {
				add(Write{Param: f.paramIdx(p), Path: l.path + sub, How: how, Pos: pos, Uncertain: uncertain})
			}
		}
	}
	for _, b := range fn.Blocks {
		for _, in := range b.Instrs {
			switch s := in.(type) {
			case *ssa.Store:
				rooted(s.Addr, "store", s.Pos(), "", false)
			case *ssa.MapUpdate:
				rooted(s.Map, "map update", s.Pos(), "", false)
			case ssa.CallInstruction:
				cc := s.Common()
				label := x.e.CalleeLabel(cc)
				if bi, ok := cc.Value.(*ssa.Builtin); ok {
					if bi.Name() == "copy" && len(cc.Args) == 2 {
						rooted(cc.Args[0], "copy", s.Pos(), "", false)
					}
					if bi.Name() == "delete" || bi.Name() == "clear" {
						rooted(cc.Args[0], bi.Name(), s.Pos(), "", false)
					}
					continue
				}
				callee := cc.StaticCallee()
				if callee != nil && x.e.P.InModule(callee) && callee.Blocks != nil {
					for _, w := range x.Writes(callee) {
						if w.Param < len(cc.Args) {
							rooted(cc.Args[w.Param], "→ "+label+": "+w.How, s.Pos(), w.Path, w.Uncertain)
						}
					}
					continue
				}
				if mc, ok := cc.Value.(*ssa.MakeClosure); ok {
					for _, bnd := range mc.Bindings {
						if refLike(bnd.Type()) {
							rooted(bnd, "captured by a closure that is called", s.Pos(), "", true)
						}
					}
					continue
				}
				if eff, ok := externalEffect(label, cc); ok {
					for _, i := range eff.dst {
						var a ssa.Value
						if i == -1 {
							a = cc.Value
						} else if i < len(cc.Args) {
							a = cc.Args[i]
						}
						if a != nil {
							rooted(a, "written by "+label, s.Pos(), "", false)
						}
					}
					continue
				}
				if pureExternal(label, cc) {
					continue
				}
				// unmodelled callee (external, dynamic): anything reference-like it receives may be written
				args := append([]ssa.Value{}, cc.Args...)
				if cc.IsInvoke() || callee == nil {
					args = append(args, cc.Value)
				}
				for _, a := range args {
					if refLike(a.Type()) {
						rooted(a, "handed to unmodelled callee "+label, s.Pos(), "", true)
					}
				}
			}
		}
	}
	sort.SliceStable(out, func(i, j int) bool {
		if out[i].Param != out[j].Param {
			return out[i].Param < out[j].Param
		}
		return out[i].Path < out[j].Path
	})
	x.sum[fn] = out
	return out
}

// structField: the named struct type and field a cell path's first component
// belongs to, given the base value's type.
func structOf(t types.Type) (*types.Named, *types.Struct) {
	for i := 0; i < 3; i++ {
		if p, ok := t.Underlying().(*types.Pointer); ok {
			t = p.Elem()
			continue
		}
		break
	}
	n, _ := t.(*types.Named)
	st, _ := t.Underlying().(*types.Struct)
	if n == nil || st == nil {
		return nil, nil
	}
	return n, st
}

// FieldWriters lists, for the named struct type, every function of the given
// SSA functions that writes (directly, or by handing the field's memory to a
// callee that writes it) one of its fields. Type-based: any base object.
func (e *Engine) FieldWriters(fns []*ssa.Function, T *types.Named) []FieldWrite {
	var out []FieldWrite
	x := e.effects()
	for _, fn := range fns {
		if fn.Blocks == nil {
			continue
		}
		f := &frame{e: e, fn: fn, depth: 99, memo: map[ssa.Value]Set{}, lmemo: map[loc]Set{}}
		f.built = true
		for _, b := range fn.Blocks {
			for _, in := range b.Instrs {
				if st, ok := in.(*ssa.Store); ok {
					f.writes = append(f.writes, memWrite{at: st, store: st})
				}
			}
		}
		for i := range f.writes {
			f.writes[i].dst = f.resolve(f.writes[i].store.Addr)
		}
		seen := map[string]bool{}
		typed := func(v ssa.Value, how string, pos token.Pos, sub string, uncertain bool) {
			for _, l := range f.resolve(v) {
				n, st := structOf(l.base.Type())
				if n == nil || n.Obj() != T.Obj() {
					continue
				}
				p := strings.TrimPrefix(l.path+sub, ".")
				if p == "" {
					// whole-object store: every field
					for i := 0; i < st.NumFields(); i++ {
						k := st.Field(i).Name() + "|" + how
						if !seen[k] {
							seen[k] = true
							out = append(out, FieldWrite{Fn: fn, Struct: n, Field: st.Field(i).Name(), How: how + " (whole object)", Pos: pos, Uncertain: uncertain})
						}
					}
					continue
				}
				if i := strings.Index(p, "."); i >= 0 {
					p = p[:i]
				}
				k := p + "|" + how
				if !seen[k] {
					seen[k] = true
					out = append(out, FieldWrite{Fn: fn, Struct: n, Field: p, How: how, Pos: pos, Uncertain: uncertain})
				}
			}
		}
		for _, b := range fn.Blocks {
			for _, in := range b.Instrs {
				switch s := in.(type) {
				case *ssa.Store:
					typed(s.Addr, "store", s.Pos(), "", false)
				case ssa.CallInstruction:
					cc := s.Common()
					label := e.CalleeLabel(cc)
					if bi, ok := cc.Value.(*ssa.Builtin); ok {
						if bi.Name() == "copy" && len(cc.Args) == 2 {
							typed(cc.Args[0], "copy", s.Pos(), "", false)
						}
						continue
					}
					callee := cc.StaticCallee()
					if callee != nil && e.P.InModule(callee) && callee.Blocks != nil {
						for _, w := range x.Writes(callee) {
							if w.Param < len(cc.Args) {
								// a write through the callee's parameter lands in this function's view
								// only when the argument is a field's memory (not the object itself:
								// then the callee is the writer and is listed on its own)
								for _, l := range f.resolve(cc.Args[w.Param]) {
									if l.path != "" {
										typed(cc.Args[w.Param], "→ "+label+": "+w.How, s.Pos(), w.Path, w.Uncertain)
										break
									}
								}
							}
						}
						continue
					}
					if eff, ok := externalEffect(label, cc); ok {
						for _, i := range eff.dst {
							var a ssa.Value
							if i == -1 {
								a = cc.Value
							} else if i < len(cc.Args) {
								a = cc.Args[i]
							}
							if a != nil {
								typed(a, "written by "+label, s.Pos(), "", false)
							}
						}
						continue
					}
					if pureExternal(label, cc) {
						continue
					}
					args := append([]ssa.Value{}, cc.Args...)
					if cc.IsInvoke() || callee == nil {
						args = append(args, cc.Value)
					}
					for _, a := range args {
						if refLike(a.Type()) {
							for _, l := range f.resolve(a) {
								if l.path != "" {
									typed(a, "handed to unmodelled callee "+label, s.Pos(), "", true)
									break
								}
							}
						}
					}
				}
			}
		}
	}
	return out
}
