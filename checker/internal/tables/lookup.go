package tables

import (
	"fmt"
	"go/ast"
	"go/constant"
	"go/token"
	"go/types"
	"strings"
)

// ---------------------------------------------------------------- lookup functions

// Atom is one elementary condition of a lookup function.
type Atom struct {
	Kind string         // "found" (the receiver is a key of Map), "eq" (recv == K), "cmp" (recv Op K, an ordering), "unknown"
	Map  *types.Var     // for "found"
	K    constant.Value // for "eq" / "cmp"
	Op   token.Token    // for "cmp": GTR, LSS, GEQ, LEQ
	Neg  bool           // only meaningful in RetPath.Conds (the conjunctive rendering)
	Text string
	Pos  token.Pos // syntactic occurrence (identity of an "unknown" atom)
}

// RetPath is one `return` of a lookup function, reached along one control path,
// with the condition under which that path is taken.
type RetPath struct {
	// Cond is the exact path condition.
	Cond Formula
	// Conds is the conjunctive rendering of Cond: its literals when Cond is a
	// conjunction of (negated) atoms; every conjunct that is not a literal is
	// rendered as one "unknown" atom.
	Conds  []Atom
	Ret    *ast.ReturnStmt
	Result ast.Expr // what is returned, locals replaced by the expression last assigned on this path; nil for a bare return without named result
	Zero   bool     // the returned local / named result still has its zero value on this path
	// Owner is the analysis of the function the return statement belongs to: the
	// method itself, or a helper it tail-calls with the receiver (`return
	// lookupName(Table, recv)`). Result must be interpreted with Owner.Info,
	// Owner.Recv, Owner.ValVars and Owner.ClassifyString.
	Owner *Lookup
}

func (p *RetPath) Has(kind string, neg bool, pred func(Atom) bool) bool {
	for _, a := range p.Conds {
		if a.Kind == kind && a.Neg == neg && (pred == nil || pred(a)) {
			return true
		}
	}
	return false
}

func (p *RetPath) HasUnknown() (string, bool) {
	for _, a := range p.Conds {
		if a.Kind == "unknown" {
			return a.Text, true
		}
	}
	return "", false
}

// UnknownAtom returns the text of an uninterpreted condition the path depends on.
func (p *RetPath) UnknownAtom() (string, bool) {
	for _, a := range Atoms(p.Cond) {
		if a.Kind == "unknown" {
			return a.Text, true
		}
	}
	return "", false
}

// Lookup analyses small functions of the shape "compare the receiver with
// constants, look it up in package-level maps, return". Every control path is
// enumerated (if / else-if / switch, early returns, result accumulators), so
// the verdict does not depend on how the guards are spelled or ordered.
type Lookup struct {
	Info     *types.Info
	Recv     types.Object
	OkVars   map[types.Object]*types.Var // comma-ok flag → map looked up with the receiver
	ValVars  map[types.Object]*types.Var // looked-up value → map
	Paths    []*RetPath
	Problems []string

	// Source, when set, lets the analysis see through `return helper(…, recv, …)`.
	Source FuncSource
	// IsKey, when set, replaces "is the receiver" as the definition of the value
	// being named (e.g. the field recv.Value).
	IsKey func(ast.Expr) bool

	fd       *ast.FuncDecl
	keyAlias map[types.Object]bool       // locals that hold a copy of the receiver / key (`v := recv.Value`)
	results  []types.Object              // named results
	mapAlias map[types.Object]*types.Var // helper parameter → the package-level table passed for it
	// constParams: helper parameter → the constant string the caller passes for
	// it (`lookupOr(Table, recv, "UNKNOWN")`)
	constParams map[types.Object]string
	depth       int
}

type lkState struct {
	cond Formula
	env  map[types.Object]ast.Expr // local → expression last assigned on this path (nil: zero value)
}

func (st lkState) and(f Formula) lkState { return lkState{cond: And(st.cond, f), env: st.env} }

func (st lkState) set(o types.Object, e ast.Expr) lkState {
	env := make(map[types.Object]ast.Expr, len(st.env)+1)
	for k, v := range st.env {
		env[k] = v
	}
	env[o] = e
	return lkState{cond: st.cond, env: env}
}

func (lk *Lookup) problem(f string, a ...any) {
	msg := fmt.Sprintf(f, a...)
	for _, p := range lk.Problems {
		if p == msg {
			return
		}
	}
	lk.Problems = append(lk.Problems, msg)
}

func (lk *Lookup) isRecv(e ast.Expr) bool {
	e = ast.Unparen(e)
	if c, ok := e.(*ast.CallExpr); ok && len(c.Args) == 1 {
		if tv, ok := lk.Info.Types[c.Fun]; ok && tv.IsType() {
			e = ast.Unparen(c.Args[0])
		}
	}
	if id, ok := e.(*ast.Ident); ok && lk.keyAlias[lk.Info.Uses[id]] {
		return true
	}
	if lk.IsKey != nil {
		return lk.IsKey(e)
	}
	id, ok := e.(*ast.Ident)
	return ok && lk.Info.Uses[id] == lk.Recv
}

// MapIndexOfRecv returns the package-level map m when e is `m[recv]`.
func (lk *Lookup) MapIndexOfRecv(e ast.Expr) *types.Var {
	ie, ok := ast.Unparen(e).(*ast.IndexExpr)
	if !ok || !lk.isRecv(ie.Index) {
		return nil
	}
	var id *ast.Ident
	switch x := ast.Unparen(ie.X).(type) {
	case *ast.Ident:
		id = x
	case *ast.SelectorExpr:
		id = x.Sel
	}
	if id == nil {
		return nil
	}
	v, _ := lk.Info.Uses[id].(*types.Var)
	if a := lk.mapAlias[v]; a != nil && v != nil {
		return a
	}
	return pkgLevelMap(v)
}

func pkgLevelMap(v *types.Var) *types.Var {
	if v == nil || v.Parent() == nil || v.Pkg() == nil || v.Parent() != v.Pkg().Scope() {
		return nil
	}
	if _, isMap := v.Type().Underlying().(*types.Map); !isMap {
		return nil
	}
	return v
}

// tailCall analyses `return helper(args)` when the receiver (and possibly a
// table) is handed to a module function: the helper's own return paths, under
// the caller's path condition, replace the call.
func (lk *Lookup) tailCall(e ast.Expr, st lkState) bool {
	call, ok := ast.Unparen(e).(*ast.CallExpr)
	if !ok || lk.Source == nil || lk.depth >= 2 {
		return false
	}
	if tv, ok := lk.Info.Types[call.Fun]; ok && (tv.IsType() || tv.IsBuiltin()) {
		return false
	}
	fun := call.Fun
	if ix, ok := ast.Unparen(fun).(*ast.IndexExpr); ok { // explicit instantiation f[T](…)
		fun = ix.X
	}
	if ix, ok := ast.Unparen(fun).(*ast.IndexListExpr); ok {
		fun = ix.X
	}
	fn := StaticCallee(lk.Info, &ast.CallExpr{Fun: fun})
	if fn == nil {
		return false
	}
	sig, ok := fn.Type().(*types.Signature)
	if !ok || sig.Variadic() {
		return false
	}
	fd, info := lk.Source(fn)
	if fd == nil || fd.Body == nil || info == nil {
		return false
	}
	sub := &Lookup{Info: info, OkVars: map[types.Object]*types.Var{}, ValVars: map[types.Object]*types.Var{}, Source: lk.Source,
		fd: fd, mapAlias: map[types.Object]*types.Var{}, constParams: map[types.Object]string{}, depth: lk.depth + 1}
	give := func(param types.Object, arg ast.Expr) bool {
		if param == nil {
			return true
		}
		if lk.isRecv(arg) {
			if sub.Recv != nil {
				return false // the receiver is passed twice
			}
			sub.Recv = param
			return true
		}
		var id *ast.Ident
		switch x := ast.Unparen(arg).(type) {
		case *ast.Ident:
			id = x
		case *ast.SelectorExpr:
			id = x.Sel
		}
		if id != nil {
			v, _ := lk.Info.Uses[id].(*types.Var)
			if a := lk.mapAlias[v]; a != nil && v != nil {
				sub.mapAlias[param] = a
			} else if m := pkgLevelMap(v); m != nil {
				sub.mapAlias[param] = m
			}
			if sv, ok := lk.constParams[v]; ok && v != nil {
				sub.constParams[param] = sv
			}
		}
		if sv, ok := StringConst(lk.Info, arg); ok && !assigned(info, fd.Body, param) {
			sub.constParams[param] = sv
		}
		return true
	}
	if sig.Recv() != nil {
		sel, ok := ast.Unparen(fun).(*ast.SelectorExpr)
		if !ok || fd.Recv == nil || len(fd.Recv.List) != 1 || len(fd.Recv.List[0].Names) != 1 {
			return false
		}
		if !give(info.Defs[fd.Recv.List[0].Names[0]], sel.X) {
			return false
		}
	}
	i := 0
	for _, f := range fd.Type.Params.List {
		for _, n := range f.Names {
			if i < len(call.Args) && !give(info.Defs[n], call.Args[i]) {
				return false
			}
			i++
		}
	}
	if sub.Recv == nil || i != len(call.Args) {
		return false
	}
	sub.run(fd)
	for _, p := range sub.Problems {
		lk.problem("in %s: %s", fd.Name.Name, p)
	}
	for _, p := range sub.Paths {
		c := And(st.cond, p.Cond)
		lk.Paths = append(lk.Paths, &RetPath{Cond: c, Conds: literalAtoms(c), Ret: p.Ret, Result: p.Result, Zero: p.Zero, Owner: p.Owner})
	}
	return true
}

// lookupHelper recognises `helper(recv)` where the module function helper is
//
//	func helper(k K) (V, bool) { v, ok := Table[k]; return v, ok }
//
// (the table a package-level map, or a parameter the caller binds to one) and
// returns the table.
func (lk *Lookup) lookupHelper(e ast.Expr) *types.Var {
	call, ok := ast.Unparen(e).(*ast.CallExpr)
	if !ok || lk.Source == nil {
		return nil
	}
	if tv, ok := lk.Info.Types[call.Fun]; ok && (tv.IsType() || tv.IsBuiltin()) {
		return nil
	}
	fun := call.Fun
	if ix, ok := ast.Unparen(fun).(*ast.IndexExpr); ok {
		fun = ix.X
	}
	if ix, ok := ast.Unparen(fun).(*ast.IndexListExpr); ok {
		fun = ix.X
	}
	fn := StaticCallee(lk.Info, &ast.CallExpr{Fun: fun})
	if fn == nil {
		return nil
	}
	sig, ok := fn.Type().(*types.Signature)
	if !ok || sig.Variadic() || sig.Results().Len() != 2 {
		return nil
	}
	if b, ok := sig.Results().At(1).Type().Underlying().(*types.Basic); !ok || b.Kind() != types.Bool {
		return nil
	}
	fd, info := lk.Source(fn)
	if fd == nil || fd.Body == nil || info == nil || len(fd.Body.List) != 2 {
		return nil
	}
	// bind parameters: the key, and possibly the table
	var keyParam types.Object
	alias := map[types.Object]*types.Var{}
	give := func(param types.Object, arg ast.Expr) bool {
		if param == nil {
			return true
		}
		if lk.isRecv(arg) {
			if keyParam != nil {
				return false
			}
			keyParam = param
			return true
		}
		var id *ast.Ident
		switch x := ast.Unparen(arg).(type) {
		case *ast.Ident:
			id = x
		case *ast.SelectorExpr:
			id = x.Sel
		}
		if id != nil {
			v, _ := lk.Info.Uses[id].(*types.Var)
			if a := lk.mapAlias[v]; a != nil && v != nil {
				alias[param] = a
			} else if m := pkgLevelMap(v); m != nil {
				alias[param] = m
			}
		}
		return true
	}
	if sig.Recv() != nil {
		sel, ok := ast.Unparen(fun).(*ast.SelectorExpr)
		if !ok || fd.Recv == nil || len(fd.Recv.List) != 1 || len(fd.Recv.List[0].Names) != 1 || !give(info.Defs[fd.Recv.List[0].Names[0]], sel.X) {
			return nil
		}
	}
	i := 0
	for _, f := range fd.Type.Params.List {
		for _, n := range f.Names {
			if i < len(call.Args) && !give(info.Defs[n], call.Args[i]) {
				return nil
			}
			i++
		}
	}
	if keyParam == nil || i != len(call.Args) || assigned(info, fd.Body, keyParam) {
		return nil
	}
	as, ok1 := fd.Body.List[0].(*ast.AssignStmt)
	rs, ok2 := fd.Body.List[1].(*ast.ReturnStmt)
	if !ok1 || !ok2 || as.Tok != token.DEFINE || len(as.Lhs) != 2 || len(as.Rhs) != 1 || len(rs.Results) != 2 {
		return nil
	}
	ie, ok := ast.Unparen(as.Rhs[0]).(*ast.IndexExpr)
	if !ok {
		return nil
	}
	if id, ok := ast.Unparen(ie.Index).(*ast.Ident); !ok || info.Uses[id] != keyParam {
		return nil
	}
	for j := 0; j < 2; j++ {
		l, ok1 := as.Lhs[j].(*ast.Ident)
		r, ok2 := ast.Unparen(rs.Results[j]).(*ast.Ident)
		if !ok1 || !ok2 || info.Defs[l] == nil || info.Uses[r] != info.Defs[l] {
			return nil
		}
	}
	var id *ast.Ident
	switch x := ast.Unparen(ie.X).(type) {
	case *ast.Ident:
		id = x
	case *ast.SelectorExpr:
		id = x.Sel
	}
	if id == nil {
		return nil
	}
	v, _ := info.Uses[id].(*types.Var)
	if a := alias[v]; a != nil && v != nil {
		return a
	}
	return pkgLevelMap(v)
}

// orCall splits `return cmp.Or(a, b, …)` into one path per operand: an operand
// that is the value looked up for the receiver is returned when the receiver
// is a key (the row rules require non-empty names), the next one otherwise.
func (lk *Lookup) orCall(e ast.Expr, st lkState, ret *ast.ReturnStmt) bool {
	call, ok := ast.Unparen(e).(*ast.CallExpr)
	if !ok || len(call.Args) < 2 || call.Ellipsis.IsValid() {
		return false
	}
	fun := call.Fun
	if ix, ok := ast.Unparen(fun).(*ast.IndexExpr); ok {
		fun = ix.X
	}
	if !IsPkgFunc(StaticCallee(lk.Info, &ast.CallExpr{Fun: fun}), "cmp", "Or") {
		return false
	}
	cond := st.cond
	add := func(c Formula, res ast.Expr) {
		lk.Paths = append(lk.Paths, &RetPath{Cond: c, Conds: literalAtoms(c), Ret: ret, Result: res, Owner: lk})
	}
	for i, a := range call.Args {
		if i == len(call.Args)-1 {
			add(cond, a)
			break
		}
		if m := lk.valueLookup(a); m != nil {
			f := FAtom{Atom{Kind: "found", Map: m, Text: types.ExprString(a) + ` != ""`, Pos: a.Pos()}}
			add(And(cond, f), a)
			cond = And(cond, Not(f))
			continue
		}
		if sv, ok := StringConst(lk.Info, a); ok {
			if sv != "" {
				add(cond, a)
				return true
			}
			continue
		}
		// fmt.Sprintf with literal text in its format is never empty: chosen for good
		if sc, ok := ast.Unparen(a).(*ast.CallExpr); ok && IsPkgFunc(StaticCallee(lk.Info, sc), "fmt", "Sprintf") && len(sc.Args) >= 1 {
			if f, ok := StringConst(lk.Info, sc.Args[0]); ok {
				if stripVerbs(f) != "" {
					add(cond, a)
					return true
				}
			}
		}
		c := lk.unknown(a)
		add(And(cond, c), a)
		cond = And(cond, Not(c))
	}
	return true
}

// stripVerbs removes the fmt verbs from a format: what is left is printed literally.
func stripVerbs(f string) string {
	var b strings.Builder
	rs := []rune(f)
	for i := 0; i < len(rs); i++ {
		if rs[i] != '%' {
			b.WriteRune(rs[i])
			continue
		}
		i++
		if i < len(rs) && rs[i] == '%' {
			b.WriteRune('%')
			continue
		}
		for i < len(rs) && !((rs[i] >= 'a' && rs[i] <= 'z') || (rs[i] >= 'A' && rs[i] <= 'Z')) {
			i++
		}
	}
	return b.String()
}

func (lk *Lookup) objOf(id *ast.Ident) types.Object {
	if o := lk.Info.Defs[id]; o != nil {
		return o
	}
	return lk.Info.Uses[id]
}

func (lk *Lookup) bindVar(tab map[types.Object]*types.Var, o types.Object, m *types.Var) {
	if o == nil {
		return
	}
	if prev, ok := tab[o]; ok && prev != m {
		lk.problem("variable %s holds the result of lookups in two different tables", o.Name())
	}
	tab[o] = m
}

// bind recognises `v, ok := M[recv]`, `v := M[recv]` (also with `=`).
func (lk *Lookup) bind(s ast.Stmt) bool {
	as, ok := s.(*ast.AssignStmt)
	if !ok || len(as.Rhs) != 1 || (as.Tok != token.DEFINE && as.Tok != token.ASSIGN) {
		return false
	}
	m := lk.MapIndexOfRecv(as.Rhs[0])
	if m == nil && len(as.Lhs) == 2 {
		m = lk.lookupHelper(as.Rhs[0])
	}
	if m == nil || len(as.Lhs) < 1 || len(as.Lhs) > 2 {
		return false
	}
	for _, l := range as.Lhs {
		id, ok := l.(*ast.Ident)
		if !ok {
			return false
		}
		if id.Name != "_" && !lk.isLocal(lk.objOf(id)) {
			return false
		}
	}
	for i, l := range as.Lhs {
		id := l.(*ast.Ident)
		if id.Name == "_" {
			continue
		}
		if i == 0 {
			lk.bindVar(lk.ValVars, lk.objOf(id), m)
		} else {
			lk.bindVar(lk.OkVars, lk.objOf(id), m)
		}
	}
	return true
}

// isLocal: o is a variable declared inside the analysed function (a local or a
// named result), not the receiver, not a field.
func (lk *Lookup) isLocal(o types.Object) bool {
	v, ok := o.(*types.Var)
	if !ok || v.IsField() || o == lk.Recv || lk.fd == nil {
		return false
	}
	return lk.fd.Pos() <= v.Pos() && v.Pos() <= lk.fd.End()
}

func (lk *Lookup) unknown(e ast.Expr) Formula {
	return FAtom{Atom{Kind: "unknown", Text: types.ExprString(e), Pos: e.Pos()}}
}

// valueLookup returns the table when e denotes the value found for the
// receiver: a variable bound by a lookup, or `M[recv]` itself.
func (lk *Lookup) valueLookup(e ast.Expr) *types.Var {
	e = ast.Unparen(e)
	if id, ok := e.(*ast.Ident); ok {
		if m := lk.ValVars[lk.Info.Uses[id]]; m != nil {
			return m
		}
		return nil
	}
	return lk.MapIndexOfRecv(e)
}

// isZeroOfValue: e is the zero value a missing key yields (nil, "").
func (lk *Lookup) isZeroOfValue(e ast.Expr) bool {
	tv, ok := lk.Info.Types[ast.Unparen(e)]
	if !ok {
		return false
	}
	if tv.IsNil() {
		return true
	}
	return tv.Value != nil && tv.Value.Kind() == constant.String && constant.StringVal(tv.Value) == ""
}

// cond interprets a guard as a formula over found / eq atoms. The value looked
// up compared with its zero value (`v == nil`, `v != ""`, `len(v) == 0`) is the
// "found" atom: the row rules separately require every row of a bound table to
// be non-nil / non-empty.
func (lk *Lookup) cond(e ast.Expr, st lkState, depth int) Formula {
	e = ast.Unparen(e)
	if tv, ok := lk.Info.Types[e]; ok && tv.Value != nil && tv.Value.Kind() == constant.Bool {
		return FConst(constant.BoolVal(tv.Value))
	}
	switch e := e.(type) {
	case *ast.Ident:
		o := lk.Info.Uses[e]
		if m := lk.OkVars[o]; m != nil {
			return FAtom{Atom{Kind: "found", Map: m, Text: e.Name, Pos: e.Pos()}}
		}
		if rhs, ok := st.env[o]; ok && rhs != nil && depth < 6 {
			return lk.cond(rhs, st, depth+1)
		}
	case *ast.UnaryExpr:
		if e.Op == token.NOT {
			return Not(lk.cond(e.X, st, depth))
		}
	case *ast.BinaryExpr:
		switch e.Op {
		case token.LAND:
			return And(lk.cond(e.X, st, depth), lk.cond(e.Y, st, depth))
		case token.LOR:
			return Or(lk.cond(e.X, st, depth), lk.cond(e.Y, st, depth))
		case token.EQL, token.NEQ, token.GTR, token.LSS, token.GEQ, token.LEQ:
			// recv < K, recv >= K …: an ordering atom (decided per declared constant by the caller)
			if e.Op != token.EQL && e.Op != token.NEQ {
				flip := map[token.Token]token.Token{token.GTR: token.LSS, token.LSS: token.GTR, token.GEQ: token.LEQ, token.LEQ: token.GEQ}
				for i, p := range [][2]ast.Expr{{e.X, e.Y}, {e.Y, e.X}} {
					if !lk.isRecv(p[0]) {
						continue
					}
					if tv, ok := lk.Info.Types[p[1]]; ok && tv.Value != nil && constant.ToInt(tv.Value).Kind() == constant.Int {
						op := e.Op
						if i == 1 {
							op = flip[op]
						}
						return FAtom{Atom{Kind: "cmp", Op: op, K: constant.ToInt(tv.Value), Text: types.ExprString(e), Pos: e.Pos()}}
					}
				}
				if e.Op == token.GEQ || e.Op == token.LEQ {
					break
				}
			}
			for i, p := range [][2]ast.Expr{{e.X, e.Y}, {e.Y, e.X}} {
				if e.Op == token.GTR || e.Op == token.LSS {
					// len(v) > 0  /  0 < len(v)
					if (e.Op == token.GTR) != (i == 0) {
						continue
					}
					if m := lk.lenOfValue(p[0]); m != nil && lk.isIntConst(p[1], 0) {
						return FAtom{Atom{Kind: "found", Map: m, Text: types.ExprString(e), Pos: e.Pos()}}
					}
					continue
				}
				// recv == K
				if lk.isRecv(p[0]) {
					if tv, ok := lk.Info.Types[p[1]]; ok && tv.Value != nil && tv.Value.Kind() == constant.Int {
						var f Formula = FAtom{Atom{Kind: "eq", K: constant.ToInt(tv.Value), Text: types.ExprString(e), Pos: e.Pos()}}
						if e.Op == token.NEQ {
							f = Not(f)
						}
						return f
					}
				}
				// v == nil / v == "" / M[recv] == nil
				if m := lk.valueLookup(p[0]); m != nil && lk.isZeroOfValue(p[1]) {
					var f Formula = FAtom{Atom{Kind: "found", Map: m, Text: types.ExprString(e), Pos: e.Pos()}}
					if e.Op == token.EQL {
						f = Not(f)
					}
					return f
				}
				// len(v) == 0
				if m := lk.lenOfValue(p[0]); m != nil && lk.isIntConst(p[1], 0) {
					var f Formula = FAtom{Atom{Kind: "found", Map: m, Text: types.ExprString(e), Pos: e.Pos()}}
					if e.Op == token.EQL {
						f = Not(f)
					}
					return f
				}
				// b == true / b == false
				if tv, ok := lk.Info.Types[p[1]]; ok && tv.Value != nil && tv.Value.Kind() == constant.Bool {
					f := lk.cond(p[0], st, depth)
					if (e.Op == token.EQL) != constant.BoolVal(tv.Value) {
						f = Not(f)
					}
					return f
				}
			}
		}
	}
	return lk.unknown(e)
}

func (lk *Lookup) isIntConst(e ast.Expr, n int64) bool {
	tv, ok := lk.Info.Types[ast.Unparen(e)]
	if !ok || tv.Value == nil {
		return false
	}
	v := constant.ToInt(tv.Value)
	return v.Kind() == constant.Int && constant.Compare(v, token.EQL, constant.MakeInt64(n))
}

func (lk *Lookup) lenOfValue(e ast.Expr) *types.Var {
	call, ok := ast.Unparen(e).(*ast.CallExpr)
	if !ok || !isBuiltin(lk.Info, call, "len") || len(call.Args) != 1 {
		return nil
	}
	m := lk.valueLookup(call.Args[0])
	if m == nil {
		return nil
	}
	if tv, ok := lk.Info.Types[call.Args[0]]; ok {
		if b, ok := tv.Type.Underlying().(*types.Basic); ok && b.Info()&types.IsString != 0 {
			return m
		}
	}
	return nil
}

func literalAtoms(f Formula) []Atom {
	switch f := f.(type) {
	case FConst:
		if f {
			return nil
		}
	case FAtom:
		return []Atom{f.A}
	case FNot:
		if a, ok := f.X.(FAtom); ok {
			n := a.A
			n.Neg = true
			return []Atom{n}
		}
	case FAnd:
		return append(literalAtoms(f.A), literalAtoms(f.B)...)
	}
	return []Atom{{Kind: "unknown", Text: f.String()}}
}

const lkMaxStates = 128

// assign handles `x := e`, `x = e` on locals (result accumulators) after bind
// had its chance.
func (lk *Lookup) assign(as *ast.AssignStmt, st lkState) (lkState, bool) {
	if (as.Tok != token.DEFINE && as.Tok != token.ASSIGN) || len(as.Lhs) != len(as.Rhs) {
		return st, false
	}
	for _, l := range as.Lhs {
		id, ok := l.(*ast.Ident)
		if !ok {
			return st, false
		}
		if id.Name == "_" {
			continue
		}
		o := lk.objOf(id)
		if !lk.isLocal(o) || lk.OkVars[o] != nil || lk.ValVars[o] != nil || lk.mapAlias[o] != nil {
			return st, false
		}
	}
	for i, l := range as.Lhs {
		id := l.(*ast.Ident)
		if id.Name == "_" {
			continue
		}
		o := lk.objOf(id)
		// `names := Table`: a local alias of a package-level table
		if as.Tok == token.DEFINE && lk.Info.Defs[id] != nil {
			var rid *ast.Ident
			switch x := ast.Unparen(as.Rhs[i]).(type) {
			case *ast.Ident:
				rid = x
			case *ast.SelectorExpr:
				rid = x.Sel
			}
			if rid != nil {
				if v, _ := lk.Info.Uses[rid].(*types.Var); v != nil {
					m := lk.mapAlias[v]
					if m == nil {
						m = pkgLevelMap(v)
					}
					if _, once := SingleDefs(lk.Info, lk.fd.Body)[o]; m != nil && once {
						if lk.mapAlias == nil {
							lk.mapAlias = map[types.Object]*types.Var{}
						}
						lk.mapAlias[o] = m
						continue
					}
				}
			}
		}
		switch {
		case as.Tok == token.DEFINE && lk.Info.Defs[id] != nil && lk.isRecv(as.Rhs[i]):
			if lk.keyAlias == nil {
				lk.keyAlias = map[types.Object]bool{}
			}
			lk.keyAlias[o] = true // `v := recv` / `v := recv.Value`: v names the same value
			continue
		case lk.keyAlias[o]:
			lk.problem("the copy %s of the value is re-assigned", o.Name())
		}
		st = st.set(o, as.Rhs[i])
	}
	return st, true
}

func (lk *Lookup) walkList(list []ast.Stmt, states []lkState) []lkState {
	for _, s := range list {
		var next []lkState
		for _, st := range states {
			next = append(next, lk.walkStmt(s, st)...)
		}
		if len(next) > lkMaxStates {
			lk.problem("too many control paths")
			next = next[:lkMaxStates]
		}
		states = next
		if len(states) == 0 {
			return nil
		}
	}
	return states
}

func (lk *Lookup) resolveResult(e ast.Expr, st lkState) (ast.Expr, bool) {
	for i := 0; i < 8; i++ {
		id, ok := ast.Unparen(e).(*ast.Ident)
		if !ok {
			return e, false
		}
		rhs, ok := st.env[lk.Info.Uses[id]]
		if !ok {
			return e, false
		}
		if rhs == nil {
			return e, true
		}
		e = rhs
	}
	return e, false
}

// walkStmt returns the states in which control falls out of s.
func (lk *Lookup) walkStmt(s ast.Stmt, st lkState) []lkState {
	switch s := s.(type) {
	case *ast.ReturnStmt:
		p := &RetPath{Cond: st.cond, Conds: literalAtoms(st.cond), Ret: s, Owner: lk}
		switch {
		case len(s.Results) == 1:
			p.Result, p.Zero = lk.resolveResult(s.Results[0], st)
			if !p.Zero && lk.tailCall(p.Result, st) {
				return nil
			}
			if !p.Zero && lk.orCall(p.Result, st, s) {
				return nil
			}
		case len(s.Results) > 1:
			lk.problem("multi-value return")
		case len(lk.results) == 1:
			if rhs, ok := st.env[lk.results[0]]; ok && rhs != nil {
				p.Result, p.Zero = lk.resolveResult(rhs, st)
			} else {
				p.Zero = true
				p.Result = nil
			}
		}
		lk.Paths = append(lk.Paths, p)
		return nil
	case *ast.BlockStmt:
		return lk.walkList(s.List, []lkState{st})
	case *ast.IfStmt:
		states := []lkState{st}
		if s.Init != nil {
			states = lk.walkStmt(s.Init, st)
		}
		var out []lkState
		for _, st := range states {
			c := lk.cond(s.Cond, st, 0)
			out = append(out, lk.walkList(s.Body.List, []lkState{st.and(c)})...)
			switch e := s.Else.(type) {
			case nil:
				out = append(out, st.and(Not(c)))
			case *ast.BlockStmt:
				out = append(out, lk.walkList(e.List, []lkState{st.and(Not(c))})...)
			default:
				out = append(out, lk.walkStmt(e, st.and(Not(c)))...)
			}
		}
		return out
	case *ast.SwitchStmt:
		return lk.walkSwitch(s, st)
	case *ast.AssignStmt:
		if lk.bind(s) {
			return []lkState{st}
		}
		if ns, ok := lk.assign(s, st); ok {
			return []lkState{ns}
		}
		lk.problem("statement `%s` is neither a table lookup of the receiver nor an assignment to a local", stmtString(s))
		return []lkState{st}
	case *ast.DeclStmt:
		gd, ok := s.Decl.(*ast.GenDecl)
		if !ok || gd.Tok != token.VAR {
			return []lkState{st}
		}
		for _, sp := range gd.Specs {
			vs, ok := sp.(*ast.ValueSpec)
			if !ok {
				continue
			}
			if len(vs.Values) != 0 && len(vs.Values) != len(vs.Names) {
				lk.problem("unrecognised variable declaration")
				continue
			}
			for i, n := range vs.Names {
				o := lk.Info.Defs[n]
				if o == nil {
					continue
				}
				if len(vs.Values) == 0 {
					st = st.set(o, nil)
				} else if m := lk.MapIndexOfRecv(vs.Values[i]); m != nil {
					lk.bindVar(lk.ValVars, o, m)
				} else {
					st = st.set(o, vs.Values[i])
				}
			}
		}
		return []lkState{st}
	case *ast.EmptyStmt:
		return []lkState{st}
	}
	lk.problem("unrecognised statement %T", s)
	return []lkState{st}
}

func (lk *Lookup) walkSwitch(s *ast.SwitchStmt, st lkState) []lkState {
	states := []lkState{st}
	if s.Init != nil {
		states = lk.walkStmt(s.Init, st)
	}
	if s.Tag != nil && !lk.isRecv(s.Tag) {
		if tv, ok := lk.Info.Types[s.Tag]; !ok || tv.Value == nil || tv.Value.Kind() != constant.Bool || !constant.BoolVal(tv.Value) {
			lk.problem("switch on something other than the receiver")
			return states
		}
	}
	var out []lkState
	for _, st := range states {
		var none Formula = FConst(true) // no earlier case matched
		var def *ast.CaseClause
		type arm struct {
			cc *ast.CaseClause
			c  Formula
		}
		var arms []arm
		for _, cl := range s.Body.List {
			cc := cl.(*ast.CaseClause)
			if cc.List == nil {
				def = cc
				continue
			}
			var c Formula = FConst(false)
			for _, ce := range cc.List {
				var one Formula
				if s.Tag != nil && lk.isRecv(s.Tag) {
					if tv, ok := lk.Info.Types[ce]; ok && tv.Value != nil && tv.Value.Kind() == constant.Int {
						one = FAtom{Atom{Kind: "eq", K: constant.ToInt(tv.Value), Text: "case " + types.ExprString(ce), Pos: ce.Pos()}}
					} else {
						one = lk.unknown(ce)
					}
				} else {
					one = lk.cond(ce, st, 0)
				}
				c = Or(c, one)
			}
			arms = append(arms, arm{cc, And(none, c)})
			none = And(none, Not(c))
		}
		bodyOf := func(cc *ast.CaseClause, c Formula) {
			for _, b := range cc.Body {
				ast.Inspect(b, func(n ast.Node) bool {
					if br, ok := n.(*ast.BranchStmt); ok && (br.Tok == token.FALLTHROUGH || br.Tok == token.BREAK || br.Tok == token.GOTO) {
						lk.problem("%s inside a switch", br.Tok)
					}
					return true
				})
			}
			out = append(out, lk.walkList(cc.Body, []lkState{st.and(c)})...)
		}
		for _, a := range arms {
			bodyOf(a.cc, a.c)
		}
		if def != nil {
			bodyOf(def, none)
		} else {
			out = append(out, st.and(none))
		}
	}
	return out
}

// AnalyseLookup walks the body of a lookup method.
func AnalyseLookup(info *types.Info, fd *ast.FuncDecl) *Lookup {
	return AnalyseLookupWith(info, fd, nil)
}

// AnalyseLookupWith is AnalyseLookup that also sees through a tail call of a
// module helper the receiver is handed to.
func AnalyseLookupWith(info *types.Info, fd *ast.FuncDecl, src FuncSource) *Lookup {
	return AnalyseLookupKey(info, fd, src, nil)
}

// AnalyseLookupKey analyses a function that names the value selected by isKey
// (nil: the receiver itself).
func AnalyseLookupKey(info *types.Info, fd *ast.FuncDecl, src FuncSource, isKey func(ast.Expr) bool) *Lookup {
	lk := &Lookup{Info: info, OkVars: map[types.Object]*types.Var{}, ValVars: map[types.Object]*types.Var{}, fd: fd, Source: src, IsKey: isKey, constParams: map[types.Object]string{}}
	if fd.Recv != nil && len(fd.Recv.List) == 1 && len(fd.Recv.List[0].Names) == 1 {
		lk.Recv = info.Defs[fd.Recv.List[0].Names[0]]
	}
	if lk.Recv == nil {
		lk.Problems = append(lk.Problems, "method has no named receiver")
		return lk
	}
	lk.run(fd)
	return lk
}

// AnalyseLookupFunc is AnalyseLookupKey for a function that need not be a
// method: the value being named is whatever isKey selects (a parameter).
func AnalyseLookupFunc(info *types.Info, fd *ast.FuncDecl, src FuncSource, isKey func(ast.Expr) bool) *Lookup {
	if fd.Recv != nil || isKey == nil {
		return AnalyseLookupKey(info, fd, src, isKey)
	}
	lk := &Lookup{Info: info, OkVars: map[types.Object]*types.Var{}, ValVars: map[types.Object]*types.Var{}, fd: fd, Source: src, IsKey: isKey, constParams: map[types.Object]string{}}
	// Recv identifies "the value" for the re-assignment check: the parameter isKey selects
	if fd.Type.Params != nil {
		for _, f := range fd.Type.Params.List {
			for _, n := range f.Names {
				if isKey(n) || isKeyDef(info, n, isKey) {
					lk.Recv = info.Defs[n]
				}
			}
		}
	}
	if lk.Recv == nil {
		lk.Problems = append(lk.Problems, "the function has no parameter that carries the value")
		return lk
	}
	lk.run(fd)
	return lk
}

// isKeyDef: the defining identifier n denotes the object isKey accepts uses of.
func isKeyDef(info *types.Info, n *ast.Ident, isKey func(ast.Expr) bool) bool {
	o := info.Defs[n]
	if o == nil {
		return false
	}
	hit := false
	for id, u := range info.Uses {
		if u == o && isKey(id) {
			hit = true
			break
		}
	}
	return hit
}

func (lk *Lookup) run(fd *ast.FuncDecl) {
	info := lk.Info
	st := lkState{cond: FConst(true), env: map[types.Object]ast.Expr{}}
	if fd.Type.Results != nil {
		for _, f := range fd.Type.Results.List {
			for _, n := range f.Names {
				if o := info.Defs[n]; o != nil && n.Name != "_" {
					lk.results = append(lk.results, o)
					st.env[o] = nil
				}
			}
		}
	}
	// the receiver must not be re-assigned: every atom speaks about its value on entry
	ast.Inspect(fd.Body, func(n ast.Node) bool {
		switch n := n.(type) {
		case *ast.AssignStmt:
			for _, l := range n.Lhs {
				if id, ok := ast.Unparen(l).(*ast.Ident); ok && info.Uses[id] == lk.Recv {
					lk.problem("the receiver is re-assigned")
				}
			}
		case *ast.IncDecStmt:
			if id, ok := ast.Unparen(n.X).(*ast.Ident); ok && info.Uses[id] == lk.Recv {
				lk.problem("the receiver is re-assigned")
			}
		case *ast.UnaryExpr:
			if id, ok := ast.Unparen(n.X).(*ast.Ident); ok && n.Op == token.AND && info.Uses[id] == lk.Recv {
				lk.problem("the address of the receiver is taken")
			}
		}
		return true
	})
	if out := lk.walkList(fd.Body.List, []lkState{st}); len(out) > 0 {
		lk.problem("control can reach the end of the function without a return")
	}
}

// NameResult classifies the string a path returns: the value found in map m for the
// receiver (possibly wrapped by Sprintf with a %s/%v verb), a literal, or a
// Sprintf pattern.
type NameResult struct {
	FromMap *types.Var // value looked up in this map
	Literal *string
	Pattern *string // Sprintf format when no operand is a looked-up value
	Other   string
}

func (lk *Lookup) ClassifyString(e ast.Expr) NameResult {
	e = ast.Unparen(e)
	if sv, ok := StringConst(lk.Info, e); ok {
		return NameResult{Literal: &sv}
	}
	if id, ok := e.(*ast.Ident); ok {
		if m := lk.ValVars[lk.Info.Uses[id]]; m != nil {
			return NameResult{FromMap: m}
		}
		if sv, ok := lk.constParams[lk.Info.Uses[id]]; ok {
			return NameResult{Literal: &sv}
		}
	}
	if m := lk.MapIndexOfRecv(e); m != nil {
		return NameResult{FromMap: m}
	}
	if call, ok := e.(*ast.CallExpr); ok && IsPkgFunc(StaticCallee(lk.Info, call), "fmt", "Sprintf") && len(call.Args) >= 1 {
		if f, ok := StringConst(lk.Info, call.Args[0]); ok {
			for _, v := range ParseFormat(f) {
				if v.Arg+1 < len(call.Args) && (v.Verb == 's' || v.Verb == 'v') {
					if r := lk.ClassifyString(call.Args[v.Arg+1]); r.FromMap != nil {
						return r
					}
				}
			}
			return NameResult{Pattern: &f}
		}
	}
	// "CommandCode(" + strconv.Itoa(int(c)) + ")": constant parts around computed ones
	if be, ok := e.(*ast.BinaryExpr); ok && be.Op == token.ADD {
		var parts []ast.Expr
		var flat func(x ast.Expr)
		flat = func(x ast.Expr) {
			x = ast.Unparen(x)
			if b, ok := x.(*ast.BinaryExpr); ok && b.Op == token.ADD {
				if _, isConst := StringConst(lk.Info, b); !isConst {
					flat(b.X)
					flat(b.Y)
					return
				}
			}
			parts = append(parts, x)
		}
		flat(be)
		pat, consts := "", 0
		for _, p := range parts {
			if sv, ok := StringConst(lk.Info, p); ok {
				pat += strings.ReplaceAll(sv, "%", "%%")
				consts++
				continue
			}
			if r := lk.ClassifyString(p); r.FromMap != nil {
				return r
			}
			pat += "%v"
		}
		if consts > 0 {
			return NameResult{Pattern: &pat}
		}
	}
	return NameResult{Other: types.ExprString(e)}
}
