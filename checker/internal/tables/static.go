package tables

import (
	"fmt"
	"go/ast"
	"go/constant"
	"go/token"
	"go/types"
)

// ---------------------------------------------------------------- static tables
//
// A decomposer written as a loop over a constant table of {mask, name} rows
// (array / slice / map composite literal, package-level or local, rows as
// structs or as parallel tables indexed by the loop counter) is resolved
// statically, row by row: the loop variables are bound to the row's
// expressions and the loop body is interpreted once per row exactly like the
// if-chain it replaces. The caller must separately make sure the table is
// never written (Evaluator.Tables lists every table consulted).

// Val is an expression together with the type information it was checked with.
type Val struct {
	E    ast.Expr
	Info *types.Info
}

// VarSource gives the initialiser of a package-level variable of the module
// together with the type information of its package (nil when it has none).
type VarSource func(v *types.Var) (ast.Expr, *types.Info)

// TableRow is one element of a constant table.
type TableRow struct {
	Index int  // position in source order
	Key   *Val // map key / explicit array index expression (nil for positional elements)
	Elem  Val
	Label string // "flagNames[3]" / "names[FLAGS_REPLY]"
}

// ConstTable is a composite literal resolved to rows.
type ConstTable struct {
	Kind string // "array" (array or slice: rows in index order) | "map"
	Lit  Val
	Var  *types.Var // the variable holding it (nil for an inline literal)
	Name string
	Rows []*TableRow
}

const staticDepth = 12

// zeroValueSuffix ends the explanation of Static when the element asked for is
// absent from a constant table, i.e. reads as the zero value.
const zeroValueSuffix = " (zero value)"

func (ev *Evaluator) with(info *types.Info) *Evaluator {
	if info == ev.Info {
		return ev
	}
	c := *ev
	c.Info = info
	return &c
}

func (ev *Evaluator) noteTable(v *types.Var) {
	if ev.Tables != nil && v != nil {
		ev.Tables[v] = true
	}
}

// varInit resolves a variable to the expression it is initialised with: a
// bound loop variable, a local with exactly one definition, or a package-level
// variable of the module.
//
// global reports that the variable is package-level: such a variable is only
// accepted as a table (a composite literal the caller proves is never written),
// never as a scalar.
func (ev *Evaluator) varInit(o types.Object, info *types.Info) (init Val, v *types.Var, global, ok bool) {
	if b, ok := ev.Bind[o]; ok {
		return b, nil, false, true
	}
	v, isVar := o.(*types.Var)
	if !isVar || v.IsField() {
		return Val{}, nil, false, false
	}
	if rhs, ok := ev.Defs[o]; ok {
		return Val{rhs, info}, v, false, true
	}
	if d, ok := ev.OkDefs[o]; ok && !d.Ok {
		return Val{d.Index, info}, v, false, true
	}
	if v.Pkg() != nil && v.Parent() == v.Pkg().Scope() && ev.Vars != nil {
		if init, vinfo := ev.Vars(v); init != nil && vinfo != nil {
			return Val{init, vinfo}, v, true, true
		}
	}
	return Val{}, nil, false, false
}

// Static reduces e to a "value expression": an expression with a constant
// value, or a composite literal. why explains a failure.
func (ev *Evaluator) Static(e ast.Expr) (Val, string) {
	return ev.static(Val{e, ev.Info}, 0)
}

func (ev *Evaluator) static(v Val, depth int) (Val, string) {
	if depth > staticDepth {
		return Val{}, "too deep"
	}
	e := ast.Unparen(v.E)
	info := v.Info
	if tv, ok := info.Types[e]; ok && tv.Value != nil {
		return Val{e, info}, ""
	}
	// a function value that names its code: a literal, a function, a method expression
	switch f := e.(type) {
	case *ast.FuncLit:
		return Val{e, info}, ""
	case *ast.Ident:
		if _, isFunc := info.Uses[f].(*types.Func); isFunc {
			return Val{e, info}, ""
		}
	case *ast.SelectorExpr:
		if fn, isFunc := info.Uses[f.Sel].(*types.Func); isFunc {
			if sig := fn.Type().(*types.Signature); sig.Recv() == nil {
				return Val{e, info}, "" // pkg.Func
			}
			if tv, ok := info.Types[f.X]; ok && tv.IsType() {
				return Val{e, info}, "" // T.Method
			}
			return Val{}, "method value " + types.ExprString(e) + " (its receiver is bound elsewhere)"
		}
	}
	switch e := e.(type) {
	case *ast.CompositeLit:
		return Val{e, info}, ""
	case *ast.UnaryExpr:
		if e.Op == token.AND {
			return ev.static(Val{e.X, info}, depth+1)
		}
	case *ast.StarExpr:
		return ev.static(Val{e.X, info}, depth+1)
	case *ast.Ident:
		o := info.Uses[e]
		if o == nil {
			o = info.Defs[e]
		}
		init, tv, global, ok := ev.varInit(o, info)
		if !ok {
			return Val{}, "identifier " + e.Name + " is not a constant, a bound row or a once-defined table"
		}
		r, why := ev.static(init, depth+1)
		if why == "" && tv != nil {
			if _, isLit := r.E.(*ast.CompositeLit); isLit {
				ev.noteTable(tv)
			} else if global {
				// a package-level variable holding a scalar is not a constant
				return Val{}, "variable " + e.Name + " is not a table"
			}
		}
		return r, why
	case *ast.SelectorExpr:
		// qualified identifier pkg.Var
		if id, ok := ast.Unparen(e.X).(*ast.Ident); ok {
			if _, isPkg := info.Uses[id].(*types.PkgName); isPkg {
				return ev.static(Val{e.Sel, info}, depth+1)
			}
		}
		fv, _ := info.Uses[e.Sel].(*types.Var)
		if fv == nil || !fv.IsField() {
			return Val{}, "selector " + types.ExprString(e) + " is not a field"
		}
		base, why := ev.static(Val{e.X, info}, depth+1)
		if why != "" {
			return Val{}, why
		}
		lit, ok := base.E.(*ast.CompositeLit)
		if !ok {
			return Val{}, types.ExprString(e.X) + " is not a struct literal"
		}
		el, why := structField(base.Info, lit, fv.Name())
		if why != "" {
			return Val{}, why
		}
		return ev.static(Val{el, base.Info}, depth+1)
	case *ast.IndexExpr:
		base, why := ev.static(Val{e.X, info}, depth+1)
		if why != "" {
			return Val{}, why
		}
		if _, ok := base.E.(*ast.CompositeLit); !ok {
			return Val{}, types.ExprString(e.X) + " is not a table literal"
		}
		idx := ev.with(info).Eval(e.Index)
		ic, ok := idx.(SConst)
		if !ok || ic.V.Kind() != constant.Int {
			return Val{}, "index " + types.ExprString(e.Index) + " is not a constant"
		}
		ct, why := ev.tableOfLitSparse(base, nil, types.ExprString(e.X), true)
		if why != "" {
			return Val{}, why
		}
		for _, row := range ct.Rows {
			var k constant.Value
			if ct.Kind == "map" {
				if row.Key == nil {
					continue
				}
				tv := row.Key.Info.Types[row.Key.E]
				if tv.Value == nil {
					return Val{}, "a key of " + types.ExprString(e.X) + " is not a constant"
				}
				k = constant.ToInt(tv.Value)
				if k.Kind() != constant.Int {
					return Val{}, "a key of " + types.ExprString(e.X) + " is not an integer constant"
				}
			} else {
				k = constant.MakeInt64(int64(row.Index))
			}
			if constant.Compare(k, token.EQL, ic.V) {
				return ev.static(row.Elem, depth+1)
			}
		}
		return Val{}, fmt.Sprintf("%s has no element %s (zero value)", types.ExprString(e.X), hex(ic.V))
	case *ast.SliceExpr:
		// T[:] of an array table
		if e.Low == nil && e.High == nil && e.Max == nil {
			return ev.static(Val{e.X, info}, depth+1)
		}
	case *ast.CallExpr:
		// conversion of a table to a named slice type
		if tv, ok := info.Types[e.Fun]; ok && tv.IsType() && len(e.Args) == 1 {
			return ev.static(Val{e.Args[0], info}, depth+1)
		}
	}
	return Val{}, fmt.Sprintf("%s (%T) is not statically known", types.ExprString(e), e)
}

func structField(info *types.Info, lit *ast.CompositeLit, name string) (ast.Expr, string) {
	tv, ok := info.Types[lit]
	if !ok {
		return nil, "untyped literal"
	}
	t := tv.Type
	if p, ok := t.Underlying().(*types.Pointer); ok {
		t = p.Elem()
	}
	st, ok := t.Underlying().(*types.Struct)
	if !ok {
		return nil, "literal is not a struct"
	}
	fi := -1
	for i := 0; i < st.NumFields(); i++ {
		if st.Field(i).Name() == name {
			fi = i
		}
	}
	if fi < 0 {
		return nil, "no field " + name
	}
	for i, el := range lit.Elts {
		if kv, ok := el.(*ast.KeyValueExpr); ok {
			if id, ok := kv.Key.(*ast.Ident); ok && id.Name == name {
				return kv.Value, ""
			}
			continue
		}
		if i == fi {
			return el, ""
		}
	}
	return nil, "field " + name + " is not set in the row (zero value)"
}

// tableOfLit lists the rows of an array / slice / map composite literal.
func (ev *Evaluator) tableOfLit(v Val, tvar *types.Var, name string) (*ConstTable, string) {
	return ev.tableOfLitSparse(v, tvar, name, false)
}

// tableOfLitSparse is tableOfLit; with sparse set, an array / slice literal
// with keyed elements may leave gaps (only meaningful for indexing: an index
// without row reads as the zero value).
func (ev *Evaluator) tableOfLitSparse(v Val, tvar *types.Var, name string, sparse bool) (*ConstTable, string) {
	lit, ok := v.E.(*ast.CompositeLit)
	if !ok {
		return nil, name + " is not a composite literal"
	}
	tv, ok := v.Info.Types[lit]
	if !ok {
		return nil, name + ": untyped literal"
	}
	ct := &ConstTable{Lit: v, Var: tvar, Name: name}
	switch tv.Type.Underlying().(type) {
	case *types.Array, *types.Slice:
		ct.Kind = "array"
		next := 0
		for _, el := range lit.Elts {
			row := &TableRow{}
			if kv, ok := el.(*ast.KeyValueExpr); ok {
				ktv, ok := v.Info.Types[kv.Key]
				if !ok || ktv.Value == nil {
					return nil, name + ": element index is not a constant"
				}
				n, ok := constant.Int64Val(constant.ToInt(ktv.Value))
				if !ok {
					return nil, name + ": element index out of range"
				}
				next = int(n)
				row.Key = &Val{kv.Key, v.Info}
				row.Elem = Val{kv.Value, v.Info}
			} else {
				row.Elem = Val{el, v.Info}
			}
			row.Index = next
			row.Label = fmt.Sprintf("%s[%d]", name, next)
			next++
			ct.Rows = append(ct.Rows, row)
		}
		if sparse {
			break
		}
		// rows must be dense and in index order, otherwise iteration visits zero rows
		for i, r := range ct.Rows {
			if r.Index != i {
				return nil, name + ": keyed array elements are sparse or out of order"
			}
		}
		if a, ok := tv.Type.Underlying().(*types.Array); ok && int(a.Len()) != len(ct.Rows) {
			return nil, fmt.Sprintf("%s: array of %d elements has %d rows (the rest are zero)", name, a.Len(), len(ct.Rows))
		}
	case *types.Map:
		ct.Kind = "map"
		for i, el := range lit.Elts {
			kv, ok := el.(*ast.KeyValueExpr)
			if !ok {
				return nil, name + ": map element without key"
			}
			ct.Rows = append(ct.Rows, &TableRow{Index: i, Key: &Val{kv.Key, v.Info}, Elem: Val{kv.Value, v.Info},
				Label: fmt.Sprintf("%s[%s]", name, types.ExprString(kv.Key))})
		}
	default:
		return nil, name + " is not an array, slice or map literal"
	}
	return ct, ""
}

// Table resolves e (a variable, a qualified variable, an inline literal, T[:])
// to a constant table.
func (ev *Evaluator) Table(e ast.Expr) (*ConstTable, string) {
	before := map[*types.Var]bool{}
	for k := range ev.Tables {
		before[k] = true
	}
	v, why := ev.Static(e)
	if why != "" {
		return nil, why
	}
	var tvar *types.Var
	x := ast.Unparen(e)
	for {
		if s, ok := x.(*ast.SliceExpr); ok {
			x = ast.Unparen(s.X)
			continue
		}
		if c, ok := x.(*ast.CallExpr); ok && len(c.Args) == 1 {
			if tv, ok := ev.Info.Types[c.Fun]; ok && tv.IsType() {
				x = ast.Unparen(c.Args[0])
				continue
			}
		}
		break
	}
	switch x := x.(type) {
	case *ast.Ident:
		tvar, _ = ev.Info.Uses[x].(*types.Var)
	case *ast.SelectorExpr:
		tvar, _ = ev.Info.Uses[x.Sel].(*types.Var)
	}
	return ev.tableOfLit(v, tvar, types.ExprString(x))
}

// StringOf returns the constant string e denotes, seeing through bound rows
// and constant tables.
func (ev *Evaluator) StringOf(e ast.Expr) (string, bool) {
	if s, ok := StringConst(ev.Info, e); ok {
		return s, true
	}
	switch ast.Unparen(e).(type) {
	case *ast.Ident, *ast.SelectorExpr, *ast.IndexExpr:
	default:
		return "", false
	}
	v, why := ev.Static(e)
	if why != "" {
		return "", false
	}
	return StringConst(v.Info, v.E)
}

// ---------------------------------------------------------------- loop unrolling

// Unrolled describes a loop that was resolved statically.
type Unrolled struct {
	Stmt  ast.Stmt
	Table *ConstTable // nil for a counting loop without table in its header
	Kind  string      // "array" | "map" | "count" | "setbits" (a walk over the set bits of the word) | "producer" (a loop over what another decomposer of the word yields)
	N     int
	Why   string // non-empty: the loop could NOT be unrolled (reason)
	// Blame: the reason in Why is a defect of the loop itself (its variable is
	// altered in the body …) rather than a shape the analysis does not model.
	Blame bool
	// Skip: statements of the body that drive the loop (the step of a set-bit
	// walk written inside the body) and are not part of what an iteration reports.
	Skip map[ast.Stmt]bool
	// Producer: the module function whose results the loop iterates (Kind
	// "producer"), with its own decomposition.
	Producer     *ast.FuncDecl
	ProducerName string
	Sub          *Decomp
	// Descending: a walk over the set bits that starts at the highest one.
	Descending bool
	// WordInside: the flag word (under the bindings of the function the loop
	// belongs to) occurs inside the loop.
	WordInside bool
}

// iteration is one set of bindings of the loop variables.
type iteration struct {
	env   map[types.Object]Sym
	bind  map[types.Object]Val
	label string
	// test, when set, is the condition under which the iteration happens at all:
	// the loop visits the set bits of the word (or what a decomposer reported for
	// them), so the body runs for bit b exactly when `word & b != 0`.
	test *MaskTest
	// cut: the producer the loop ranges over ends ("return" / "break") when this
	// iteration's bit is set, without reporting anything for it.
	cut string
}

func identObj(info *types.Info, e ast.Expr) types.Object {
	id, ok := e.(*ast.Ident)
	if !ok || id.Name == "_" {
		return nil
	}
	if o := info.Defs[id]; o != nil {
		return o
	}
	return info.Uses[id]
}

const maxUnroll = 4096

// intOf evaluates e to a small non-negative integer.
func (ev *Evaluator) intOf(e ast.Expr) (int, bool) {
	c, ok := ev.Eval(e).(SConst)
	if !ok || c.V.Kind() != constant.Int {
		return 0, false
	}
	n, ok := constant.Int64Val(c.V)
	if !ok || n < 0 || n > maxUnroll {
		return 0, false
	}
	return int(n), true
}

// rootIdent returns the identifier an l-value is built on (x, x.f, x[i].f …).
func rootIdent(e ast.Expr) *ast.Ident {
	for {
		switch x := ast.Unparen(e).(type) {
		case *ast.Ident:
			return x
		case *ast.SelectorExpr:
			e = x.X
		case *ast.IndexExpr:
			e = x.X
		case *ast.StarExpr:
			e = x.X
		default:
			return nil
		}
	}
}

// assigned reports whether o (or a part of it: a field, an element) is written
// inside n, or its address is taken.
func assigned(info *types.Info, n ast.Node, o types.Object) bool {
	found := false
	is := func(e ast.Expr) bool {
		id := rootIdent(e)
		return id != nil && (info.Uses[id] == o || info.Defs[id] == o)
	}
	ast.Inspect(n, func(x ast.Node) bool {
		switch x := x.(type) {
		case *ast.AssignStmt:
			for _, l := range x.Lhs {
				if is(l) {
					found = true
				}
			}
		case *ast.IncDecStmt:
			if is(x.X) {
				found = true
			}
		case *ast.UnaryExpr:
			if x.Op == token.AND && is(x.X) {
				found = true
			}
		case *ast.RangeStmt:
			if x.Tok == token.ASSIGN && ((x.Key != nil && is(x.Key)) || (x.Value != nil && is(x.Value))) {
				found = true
			}
		}
		return !found
	})
	return found
}

// unroll resolves a range / for statement to its iterations.
func (ev *Evaluator) unroll(s ast.Stmt) (*Unrolled, []iteration, *ast.BlockStmt) {
	info := ev.Info
	switch s := s.(type) {
	case *ast.RangeStmt:
		u := &Unrolled{Stmt: s}
		if s.Tok == token.ASSIGN {
			u.Why = "the range clause assigns existing variables"
			return u, nil, s.Body
		}
		keyObj := identObj(info, s.Key)
		valObj := identObj(info, s.Value)
		for _, o := range []types.Object{keyObj, valObj} {
			if o != nil && assigned(info, s.Body, o) {
				u.Why, u.Blame = "the loop variable "+o.Name()+" is modified in the body", true
				return u, nil, s.Body
			}
		}
		// range over an integer
		if tv, ok := info.Types[s.X]; ok {
			if b, ok := tv.Type.Underlying().(*types.Basic); ok && b.Info()&types.IsInteger != 0 {
				n, ok := ev.intOf(s.X)
				if !ok {
					u.Why = "the iteration count " + types.ExprString(s.X) + " is not a constant"
					return u, nil, s.Body
				}
				u.Kind, u.N = "count", n
				var its []iteration
				for i := 0; i < n; i++ {
					it := iteration{env: map[types.Object]Sym{}, bind: map[types.Object]Val{}, label: fmt.Sprintf("iteration %d", i)}
					if keyObj != nil {
						it.env[keyObj] = SConst{constant.MakeInt64(int64(i))}
					}
					its = append(its, it)
				}
				return u, its, s.Body
			}
		}
		// slices.Sorted(maps.Keys(T)) / slices.Sorted(maps.Values(T)): the keys (values) of a
		// constant map in a deterministic order
		// the operand seen through a once-defined local or a package-level variable
		// initialised by a call (`var sortedKeys = slices.Sorted(maps.Keys(T))`)
		sx, sinfo := ast.Unparen(s.X), info
		var holder *types.Var
		{
			var id *ast.Ident
			switch x := sx.(type) {
			case *ast.Ident:
				id = x
			case *ast.SelectorExpr:
				if pid, ok := ast.Unparen(x.X).(*ast.Ident); ok {
					if _, isPkg := info.Uses[pid].(*types.PkgName); isPkg {
						id = x.Sel
					}
				}
			}
			if id != nil {
				o := info.Uses[id]
				if rhs, ok := ev.Defs[o]; ok {
					if c, isCall := ast.Unparen(rhs).(*ast.CallExpr); isCall {
						sx = c
					}
				} else if v, ok := o.(*types.Var); ok && !v.IsField() && v.Pkg() != nil && v.Parent() == v.Pkg().Scope() && ev.Vars != nil {
					if init, vinfo := ev.Vars(v); init != nil && vinfo != nil {
						if c, isCall := ast.Unparen(init).(*ast.CallExpr); isCall {
							sx, sinfo, holder = c, vinfo, v
						}
					}
				}
			}
		}
		if call, ok := sx.(*ast.CallExpr); ok && IsPkgFunc(StaticCallee(sinfo, call), "slices", "Sorted") && len(call.Args) == 1 {
			if inner, ok := ast.Unparen(call.Args[0]).(*ast.CallExpr); ok && len(inner.Args) == 1 {
				fn := StaticCallee(sinfo, inner)
				keys, vals := IsPkgFunc(fn, "maps", "Keys"), IsPkgFunc(fn, "maps", "Values")
				if keys || vals {
					ct, why := ev.with(sinfo).Table(inner.Args[0])
					if why != "" || ct.Kind != "map" {
						u.Why = "the sorted keys are not those of a constant map: " + why
						return u, nil, s.Body
					}
					ev.noteTable(holder)
					u.Table, u.Kind, u.N = ct, "array", len(ct.Rows)
					var its []iteration
					for _, row := range ct.Rows {
						it := iteration{env: map[types.Object]Sym{}, bind: map[types.Object]Val{}, label: row.Label}
						if valObj != nil {
							if keys {
								it.bind[valObj] = *row.Key
							} else {
								it.bind[valObj] = row.Elem
							}
						}
						// the position in the sorted sequence (keyObj) is left uninterpreted
						its = append(its, it)
					}
					return u, its, s.Body
				}
			}
		}
		// maps.Keys(T) / maps.Values(T) / maps.All(T) ranged directly, or collected
		// into a slice first: the rows of T in map order (whether that order can
		// reach the result is decided separately, like for a range over T itself)
		{
			seq, collected := sx, false
			if call, ok := sx.(*ast.CallExpr); ok && len(call.Args) == 1 {
				fun := call.Fun
				if ix, ok := ast.Unparen(fun).(*ast.IndexExpr); ok {
					fun = ix.X
				}
				if IsPkgFunc(StaticCallee(sinfo, &ast.CallExpr{Fun: fun}), "slices", "Collect") {
					seq, collected = ast.Unparen(call.Args[0]), true
				}
			}
			if m := mapOperand(sinfo, seq); m != nil {
				inner := seq.(*ast.CallExpr)
				fun := inner.Fun
				if ix, ok := ast.Unparen(fun).(*ast.IndexExpr); ok {
					fun = ix.X
				}
				which := StaticCallee(sinfo, &ast.CallExpr{Fun: fun}).Name()
				ct, why := ev.with(sinfo).Table(m)
				if why != "" || ct.Kind != "map" {
					u.Why = "the iterated keys are not those of a constant map: " + why
					return u, nil, s.Body
				}
				ev.noteTable(holder)
				u.Table, u.Kind, u.N = ct, "map", len(ct.Rows)
				var its []iteration
				for _, row := range ct.Rows {
					it := iteration{env: map[types.Object]Sym{}, bind: map[types.Object]Val{}, label: row.Label}
					first := keyObj // the variable that receives the element of the sequence
					if collected {
						first = valObj // (keyObj is the position in the slice: uninterpreted)
					}
					switch which {
					case "Keys":
						if first != nil {
							it.bind[first] = *row.Key
						}
					case "Values":
						if first != nil {
							it.bind[first] = row.Elem
						}
					case "All":
						if collected {
							u.Why = "maps.All collected into a slice"
							return u, nil, s.Body
						}
						if keyObj != nil {
							it.bind[keyObj] = *row.Key
						}
						if valObj != nil {
							it.bind[valObj] = row.Elem
						}
					}
					its = append(its, it)
				}
				return u, its, s.Body
			}
		}
		// what another decomposer of the same word reports (a slice it returns, an
		// iterator it yields to): one iteration per bit test of that function
		if its, handled := ev.producerLoop(u, s.X, keyObj, valObj); handled {
			return u, its, s.Body
		}
		ct, why := ev.Table(s.X)
		if why != "" {
			u.Why = "the range operand is not a constant table: " + why
			return u, nil, s.Body
		}
		u.Table, u.Kind, u.N = ct, ct.Kind, len(ct.Rows)
		var its []iteration
		for _, row := range ct.Rows {
			it := iteration{env: map[types.Object]Sym{}, bind: map[types.Object]Val{}, label: row.Label}
			switch ct.Kind {
			case "array":
				if keyObj != nil {
					it.env[keyObj] = SConst{constant.MakeInt64(int64(row.Index))}
				}
			case "map":
				if keyObj != nil && row.Key != nil {
					it.bind[keyObj] = *row.Key
				}
			}
			if valObj != nil {
				it.bind[valObj] = row.Elem
			}
			its = append(its, it)
		}
		return u, its, s.Body
	case *ast.ForStmt:
		u := &Unrolled{Stmt: s}
		// A walk over the set bits of the flag word itself.
		if its, handled := ev.bitWalk(u, s); handled {
			return u, its, s.Body
		}
		// A loop driven by one integer variable with constant start, constant
		// bound and a constant step (i++, i += k, m <<= 1, m = m << 1 …) is
		// simulated: counting loops and bit walks alike.
		as, ok := s.Init.(*ast.AssignStmt)
		if !ok || as.Tok != token.DEFINE || len(as.Lhs) != 1 || len(as.Rhs) != 1 {
			u.Why = "not a loop `for v := a; v ⋈ n; step` over one integer variable"
			return u, nil, s.Body
		}
		vObj := identObj(info, as.Lhs[0])
		start, ok := ev.Eval(as.Rhs[0]).(SConst)
		if vObj == nil || !ok || start.V.Kind() != constant.Int {
			u.Why = "the loop variable does not start at a constant"
			return u, nil, s.Body
		}
		isVar := func(e ast.Expr) bool {
			id, ok := ast.Unparen(e).(*ast.Ident)
			return ok && info.Uses[id] == vObj
		}
		be, ok := s.Cond.(*ast.BinaryExpr)
		if !ok || !isVar(be.X) {
			u.Why = "the loop condition does not compare the loop variable with a bound"
			return u, nil, s.Body
		}
		switch be.Op {
		case token.LSS, token.LEQ, token.GTR, token.GEQ, token.NEQ:
		default:
			u.Why = "the loop condition is not an ordering comparison"
			return u, nil, s.Body
		}
		bound, ok := ev.Eval(be.Y).(SConst)
		if !ok || bound.V.Kind() != constant.Int {
			u.Why = "the loop bound " + types.ExprString(be.Y) + " is not a constant"
			return u, nil, s.Body
		}
		var op token.Token
		var step constant.Value
		switch p := s.Post.(type) {
		case *ast.IncDecStmt:
			if isVar(p.X) {
				op, step = token.ADD, constant.MakeInt64(1)
				if p.Tok == token.DEC {
					op = token.SUB
				}
			}
		case *ast.AssignStmt:
			if len(p.Lhs) == 1 && len(p.Rhs) == 1 && isVar(p.Lhs[0]) {
				rhs := p.Rhs[0]
				switch p.Tok {
				case token.ADD_ASSIGN:
					op = token.ADD
				case token.SUB_ASSIGN:
					op = token.SUB
				case token.SHL_ASSIGN:
					op = token.SHL
				case token.SHR_ASSIGN:
					op = token.SHR
				case token.MUL_ASSIGN:
					op = token.MUL
				case token.ASSIGN: // v = v op k
					if b, ok := ast.Unparen(rhs).(*ast.BinaryExpr); ok && isVar(b.X) {
						switch b.Op {
						case token.ADD, token.SUB, token.SHL, token.SHR, token.MUL:
							op, rhs = b.Op, b.Y
						}
					}
				}
				if op != token.ILLEGAL {
					if k, ok := ev.Eval(rhs).(SConst); ok && k.V.Kind() == constant.Int {
						step = k.V
					}
				}
			}
		}
		if step == nil {
			u.Why = "the loop variable does not advance by a constant step"
			return u, nil, s.Body
		}
		if assigned(info, s.Body, vObj) {
			u.Why, u.Blame = "the loop variable is modified in the body", true
			return u, nil, s.Body
		}
		// width of the variable: unsigned arithmetic wraps, signed overflow is not simulated
		var lo, hi constant.Value
		if b, ok := vObj.Type().Underlying().(*types.Basic); ok && b.Info()&types.IsInteger != 0 {
			bits := map[types.BasicKind]uint{types.Int8: 8, types.Uint8: 8, types.Int16: 16, types.Uint16: 16, types.Int32: 32, types.Uint32: 32,
				types.Int64: 64, types.Uint64: 64, types.Int: 64, types.Uint: 64, types.Uintptr: 64}[b.Kind()]
			if bits == 0 {
				u.Why = "loop variable of unsized integer type"
				return u, nil, s.Body
			}
			one := constant.MakeInt64(1)
			if b.Info()&types.IsUnsigned != 0 {
				lo, hi = constant.MakeInt64(0), constant.BinaryOp(constant.Shift(one, token.SHL, bits), token.SUB, one)
			} else {
				hi = constant.BinaryOp(constant.Shift(one, token.SHL, bits-1), token.SUB, one)
				lo = constant.UnaryOp(token.SUB, constant.Shift(one, token.SHL, bits-1), 0)
			}
		} else {
			u.Why = "the loop variable is not an integer"
			return u, nil, s.Body
		}
		unsigned := constant.Sign(lo) == 0
		holds := func(v constant.Value) bool { return constant.Compare(v, be.Op, bound.V) }
		var its []iteration
		v := start.V
		for holds(v) {
			if len(its) >= maxUnroll {
				u.Why = "more than 4096 iterations"
				return u, nil, s.Body
			}
			its = append(its, iteration{env: map[types.Object]Sym{vObj: SConst{v}}, bind: map[types.Object]Val{},
				label: fmt.Sprintf("%s=%s", vObj.Name(), hex(v))})
			switch op {
			case token.SHL, token.SHR:
				n, ok := constant.Uint64Val(step)
				if !ok || n == 0 || n > 64 {
					u.Why = "shift step out of range"
					return u, nil, s.Body
				}
				v = constant.Shift(v, op, uint(n))
			default:
				if constant.Sign(step) == 0 {
					u.Why = "zero step"
					return u, nil, s.Body
				}
				v = constant.BinaryOp(v, op, step)
			}
			if constant.Compare(v, token.GTR, hi) || constant.Compare(v, token.LSS, lo) {
				if !unsigned {
					u.Why = "the loop variable overflows its signed type"
					return u, nil, s.Body
				}
				// wrap modulo 2^bits
				mod := constant.BinaryOp(hi, token.ADD, constant.MakeInt64(1))
				v = constant.BinaryOp(v, token.REM, mod)
				if constant.Sign(v) < 0 {
					v = constant.BinaryOp(v, token.ADD, mod)
				}
			}
		}
		u.Kind, u.N = "count", len(its)
		return u, its, s.Body
	}
	return nil, nil, nil
}

// enter installs an iteration's bindings and returns the function that removes them.
func (ev *Evaluator) enter(it iteration) func() {
	type savedSym struct {
		o  types.Object
		s  Sym
		ok bool
	}
	type savedVal struct {
		o  types.Object
		v  Val
		ok bool
	}
	var ss []savedSym
	var sv []savedVal
	if ev.Bind == nil {
		ev.Bind = map[types.Object]Val{}
	}
	for o, s := range it.env {
		old, ok := ev.Env[o]
		ss = append(ss, savedSym{o, old, ok})
		ev.Env[o] = s
	}
	for o, v := range it.bind {
		old, ok := ev.Bind[o]
		sv = append(sv, savedVal{o, old, ok})
		ev.Bind[o] = v
	}
	return func() {
		for _, s := range ss {
			if s.ok {
				ev.Env[s.o] = s.s
			} else {
				delete(ev.Env, s.o)
			}
		}
		for _, s := range sv {
			if s.ok {
				ev.Bind[s.o] = s.v
			} else {
				delete(ev.Bind, s.o)
			}
		}
	}
}
