package tables

import (
	"fmt"
	"go/ast"
	"go/constant"
	"go/token"
	"go/types"
)

// ---------------------------------------------------------------- symbolic bit tests

type Sym interface{ String() string }

type (
	SWord    struct{}                   // the flag word under test (receiver, or receiver.Field)
	SConst   struct{ V constant.Value } // integer or boolean constant
	SKey     struct{ Obj types.Object } // key variable of a `range` over a table
	SAnd     struct{ A, B Sym }
	SCmp     struct {
		Op   token.Token // EQL | NEQ
		A, B Sym
	}
	SNot     struct{ X Sym }
	SUnknown struct{ Why string }
)

func (SWord) String() string      { return "word" }
func (s SConst) String() string   { return s.V.ExactString() }
func (s SKey) String() string     { return "key(" + s.Obj.Name() + ")" }
func (s SAnd) String() string     { return "(" + s.A.String() + " & " + s.B.String() + ")" }
func (s SCmp) String() string     { return "(" + s.A.String() + " " + s.Op.String() + " " + s.B.String() + ")" }
func (s SNot) String() string     { return "!" + s.X.String() }
func (s SUnknown) String() string { return "?" + s.Why }

// HasWord reports whether the flag word occurs in s.
func HasWord(s Sym) bool {
	switch s := s.(type) {
	case SWord:
		return true
	case SAnd:
		return HasWord(s.A) || HasWord(s.B)
	case SCmp:
		return HasWord(s.A) || HasWord(s.B)
	case SNot:
		return HasWord(s.X)
	}
	return false
}

// FuncSource gives the declaration and type information of a module function
// (used to see through extracted helpers).
type FuncSource func(fn *types.Func) (*ast.FuncDecl, *types.Info)

type Evaluator struct {
	Info   *types.Info
	IsWord func(e ast.Expr) bool
	Env    map[types.Object]Sym
	Defs   map[types.Object]ast.Expr // locals with exactly one definition
	Source FuncSource
	depth  int
}

// SingleDefs returns the local variables of body that are defined once
// (`x := e` / `var x = e`) and never assigned again.
func SingleDefs(info *types.Info, body *ast.BlockStmt) map[types.Object]ast.Expr {
	defs := map[types.Object]ast.Expr{}
	bad := map[types.Object]bool{}
	if body == nil {
		return defs
	}
	ast.Inspect(body, func(n ast.Node) bool {
		switch n := n.(type) {
		case *ast.AssignStmt:
			for i, l := range n.Lhs {
				id, ok := ast.Unparen(l).(*ast.Ident)
				if !ok {
					continue
				}
				if n.Tok == token.DEFINE {
					if o := info.Defs[id]; o != nil {
						if len(n.Lhs) == len(n.Rhs) {
							defs[o] = n.Rhs[i]
						} else {
							bad[o] = true
						}
						continue
					}
				}
				if o := info.Uses[id]; o != nil {
					bad[o] = true
				}
			}
		case *ast.IncDecStmt:
			if id, ok := ast.Unparen(n.X).(*ast.Ident); ok {
				if o := info.Uses[id]; o != nil {
					bad[o] = true
				}
			}
		case *ast.UnaryExpr:
			if n.Op == token.AND {
				if id, ok := ast.Unparen(n.X).(*ast.Ident); ok {
					if o := info.Uses[id]; o != nil {
						bad[o] = true
					}
				}
			}
		case *ast.ValueSpec:
			if len(n.Names) == len(n.Values) {
				for i, id := range n.Names {
					if o := info.Defs[id]; o != nil {
						defs[o] = n.Values[i]
					}
				}
			}
		case *ast.RangeStmt:
			for _, e := range []ast.Expr{n.Key, n.Value} {
				if id, ok := e.(*ast.Ident); ok && n.Tok == token.ASSIGN {
					if o := info.Uses[id]; o != nil {
						bad[o] = true
					}
				}
			}
		}
		return true
	})
	for o := range bad {
		delete(defs, o)
	}
	return defs
}

func isIntegerType(t types.Type) bool {
	b, ok := t.Underlying().(*types.Basic)
	return ok && b.Info()&types.IsInteger != 0
}

func (ev *Evaluator) Eval(e ast.Expr) Sym {
	e = ast.Unparen(e)
	if tv, ok := ev.Info.Types[e]; ok && tv.Value != nil {
		switch tv.Value.Kind() {
		case constant.Int:
			return SConst{constant.ToInt(tv.Value)}
		case constant.Bool:
			return SConst{tv.Value}
		case constant.Float:
			if iv := constant.ToInt(tv.Value); iv.Kind() == constant.Int {
				return SConst{iv}
			}
		}
	}
	if ev.IsWord != nil && ev.IsWord(e) {
		return SWord{}
	}
	switch e := e.(type) {
	case *ast.Ident:
		o := ev.Info.Uses[e]
		if o == nil {
			o = ev.Info.Defs[e]
		}
		if s, ok := ev.Env[o]; ok {
			return s
		}
		if rhs, ok := ev.Defs[o]; ok && ev.depth < 8 {
			ev.depth++
			s := ev.Eval(rhs)
			ev.depth--
			return s
		}
		return SUnknown{"identifier " + e.Name}
	case *ast.BinaryExpr:
		switch e.Op {
		case token.AND:
			return SAnd{ev.Eval(e.X), ev.Eval(e.Y)}
		case token.EQL, token.NEQ:
			return SCmp{e.Op, ev.Eval(e.X), ev.Eval(e.Y)}
		}
		return SUnknown{"operator " + e.Op.String()}
	case *ast.UnaryExpr:
		if e.Op == token.NOT {
			return SNot{ev.Eval(e.X)}
		}
		return SUnknown{"operator " + e.Op.String()}
	case *ast.CallExpr:
		if tv, ok := ev.Info.Types[e.Fun]; ok && tv.IsType() && len(e.Args) == 1 {
			if isIntegerType(tv.Type) {
				return ev.Eval(e.Args[0])
			}
			return SUnknown{"conversion"}
		}
		return ev.inline(e)
	}
	return SUnknown{fmt.Sprintf("%T", e)}
}

// inline sees through a call to a module function whose body is
// `[single definitions;] return expr`.
func (ev *Evaluator) inline(call *ast.CallExpr) Sym {
	if ev.Source == nil || ev.depth >= 3 {
		return SUnknown{"call"}
	}
	fn := StaticCallee(ev.Info, call)
	if fn == nil {
		return SUnknown{"dynamic call"}
	}
	fd, info := ev.Source(fn)
	if fd == nil || fd.Body == nil || info == nil {
		return SUnknown{"call to " + fn.FullName()}
	}
	sig := fn.Type().(*types.Signature)
	env := map[types.Object]Sym{}
	if sig.Recv() != nil {
		sel, ok := ast.Unparen(call.Fun).(*ast.SelectorExpr)
		if !ok {
			return SUnknown{"method value"}
		}
		if fd.Recv != nil && len(fd.Recv.List) == 1 && len(fd.Recv.List[0].Names) == 1 {
			if o := info.Defs[fd.Recv.List[0].Names[0]]; o != nil {
				env[o] = ev.Eval(sel.X)
			}
		}
	}
	i := 0
	for _, f := range fd.Type.Params.List {
		for _, n := range f.Names {
			if i < len(call.Args) {
				if o := info.Defs[n]; o != nil {
					env[o] = ev.Eval(call.Args[i])
				}
			}
			i++
		}
	}
	if sig.Variadic() || i != len(call.Args) {
		return SUnknown{"call arity"}
	}
	sub := &Evaluator{Info: info, Env: env, Defs: SingleDefs(info, fd.Body), Source: ev.Source, depth: ev.depth + 1}
	s, why := sub.BoolResult(fd.Body)
	if s == nil {
		return SUnknown{"helper " + fn.Name() + ": " + why}
	}
	return s
}

// BoolResult computes the symbolic value a function body returns, for bodies of
// the forms `[defs;] return e` and `[defs;] if c { return b } [else { return !b }]; [return !b]`.
func (ev *Evaluator) BoolResult(body *ast.BlockStmt) (Sym, string) {
	var stmts []ast.Stmt
	for _, s := range body.List {
		switch s := s.(type) {
		case *ast.AssignStmt:
			if s.Tok == token.DEFINE {
				continue
			}
		case *ast.DeclStmt:
			continue
		case *ast.EmptyStmt:
			continue
		}
		stmts = append(stmts, s)
	}
	boolConst := func(s ast.Stmt) (bool, bool) {
		if b, ok := s.(*ast.BlockStmt); ok {
			if len(b.List) != 1 {
				return false, false
			}
			s = b.List[0]
		}
		r, ok := s.(*ast.ReturnStmt)
		if !ok || len(r.Results) != 1 {
			return false, false
		}
		tv, ok := ev.Info.Types[r.Results[0]]
		if !ok || tv.Value == nil || tv.Value.Kind() != constant.Bool {
			return false, false
		}
		return constant.BoolVal(tv.Value), true
	}
	switch len(stmts) {
	case 1:
		if r, ok := stmts[0].(*ast.ReturnStmt); ok && len(r.Results) == 1 {
			return ev.Eval(r.Results[0]), ""
		}
		if is, ok := stmts[0].(*ast.IfStmt); ok && is.Init == nil && is.Else != nil {
			b1, ok1 := boolConst(is.Body)
			b2, ok2 := boolConst(is.Else)
			if ok1 && ok2 && b1 != b2 {
				c := ev.Eval(is.Cond)
				if !b1 {
					c = SNot{c}
				}
				return c, ""
			}
		}
	case 2:
		is, ok := stmts[0].(*ast.IfStmt)
		if ok && is.Init == nil && is.Else == nil {
			b1, ok1 := boolConst(is.Body)
			b2, ok2 := boolConst(stmts[1])
			if ok1 && ok2 && b1 != b2 {
				c := ev.Eval(is.Cond)
				if !b1 {
					c = SNot{c}
				}
				return c, ""
			}
		}
	}
	return nil, "body is not `return e` nor `if c { return true }; return false`"
}

// MaskTest is the normal form `word & Mask ⋈ 0|Mask`.
type MaskTest struct {
	Mask   constant.Value // nil when the mask is a range key
	KeyObj types.Object   // the range key variable used as the mask
	Set    bool           // true: holds when the bit(s) are set; false: when clear
	All    bool           // compared with the mask itself (all bits) rather than with zero (any bit)
}

func boolOf(s Sym) (bool, bool) {
	c, ok := s.(SConst)
	if !ok || c.V.Kind() != constant.Bool {
		return false, false
	}
	return constant.BoolVal(c.V), true
}

// MaskErr explains why an expression is not a faithful mask test. Undecided
// means the expression contains something the evaluator cannot interpret (as
// opposed to a definite mismatch of constants).
type MaskErr struct {
	Msg       string
	Undecided bool
}

func (e *MaskErr) Error() string { return e.Msg }

func hasUnknown(s Sym) bool {
	switch s := s.(type) {
	case SUnknown:
		return true
	case SAnd:
		return hasUnknown(s.A) || hasUnknown(s.B)
	case SCmp:
		return hasUnknown(s.A) || hasUnknown(s.B)
	case SNot:
		return hasUnknown(s.X)
	}
	return false
}

func maskErr(s Sym, f string, a ...any) *MaskErr {
	return &MaskErr{Msg: fmt.Sprintf(f, a...), Undecided: hasUnknown(s)}
}

// AsMaskTest normalises s. The error text says why s is not a faithful test
// of one constant against itself.
func AsMaskTest(s Sym) (*MaskTest, *MaskErr) {
	s0 := s
	switch s := s.(type) {
	case SNot:
		m, err := AsMaskTest(s.X)
		if err != nil {
			return nil, err
		}
		m.Set = !m.Set
		return m, nil
	case SCmp:
		// (test) == true / != false …
		for _, p := range [][2]Sym{{s.A, s.B}, {s.B, s.A}} {
			if b, ok := boolOf(p[1]); ok {
				m, err := AsMaskTest(p[0])
				if err != nil {
					return nil, err
				}
				if (s.Op == token.EQL) != b {
					m.Set = !m.Set
				}
				return m, nil
			}
		}
		var and SAnd
		var other Sym
		if a, ok := s.A.(SAnd); ok && HasWord(a) {
			and, other = a, s.B
		} else if b, ok := s.B.(SAnd); ok && HasWord(b) {
			and, other = b, s.A
		} else {
			return nil, maskErr(s0, "not of the form word&C ⋈ k: %s", s)
		}
		var mask Sym
		if _, ok := and.A.(SWord); ok {
			mask = and.B
		} else if _, ok := and.B.(SWord); ok {
			mask = and.A
		} else {
			return nil, maskErr(s0, "the word is combined with something else before the mask: %s", s)
		}
		mt := &MaskTest{}
		switch m := mask.(type) {
		case SConst:
			if m.V.Kind() != constant.Int {
				return nil, maskErr(s0, "mask is not an integer: %s", s)
			}
			mt.Mask = m.V
		case SKey:
			mt.KeyObj = m.Obj
		default:
			return nil, maskErr(s0, "mask is not a constant: %s", s)
		}
		switch k := other.(type) {
		case SConst:
			if k.V.Kind() != constant.Int {
				return nil, maskErr(s0, "compared with a non-integer: %s", s)
			}
			if constant.Sign(k.V) == 0 {
				mt.Set = s.Op == token.NEQ
				return mt, nil
			}
			if mt.Mask != nil && constant.Compare(k.V, token.EQL, mt.Mask) {
				mt.All = true
				mt.Set = s.Op == token.EQL
				return mt, nil
			}
			if mt.Mask != nil {
				return nil, maskErr(s0, "mask %s is compared with a different constant %s", hex(mt.Mask), hex(k.V))
			}
			return nil, maskErr(s0, "range key mask compared with constant %s", hex(k.V))
		case SKey:
			if mt.KeyObj != nil && k.Obj == mt.KeyObj {
				mt.All = true
				mt.Set = s.Op == token.EQL
				return mt, nil
			}
			return nil, maskErr(s0, "mask compared with a different variable: %s", s)
		}
		return nil, maskErr(s0, "compared with a non-constant: %s", s)
	}
	return nil, maskErr(s0, "not a comparison: %s", s)
}

func hex(v constant.Value) string {
	if u, ok := constant.Uint64Val(v); ok {
		return fmt.Sprintf("0x%X", u)
	}
	return v.ExactString()
}

// Hex renders an integer constant in hexadecimal.
func Hex(v constant.Value) string { return hex(v) }

// ---------------------------------------------------------------- decomposers

// BitTest is one `if word&C … { acc = append(acc, name) }` of a decomposer.
type BitTest struct {
	If       *ast.IfStmt
	Cond     Sym
	Test     *MaskTest
	Err      *MaskErr
	Names    []string     // constant strings appended in the body
	Appended []types.Object // variables appended in the body (range key / value)
	Acc      []string     // renderings of the accumulators appended to
	HasElse  bool
	Other    int // statements in the body that are not appends
}

// Decomp is what CollectBitTests finds in one function body.
type Decomp struct {
	Tests        []*BitTest
	Placeholders []string // constant strings returned / appended outside any bit test
}

// CollectBitTests walks body and returns every if-statement whose condition
// involves the flag word.
func (ev *Evaluator) CollectBitTests(body ast.Node) *Decomp {
	d := &Decomp{}
	var inside []*ast.IfStmt
	within := func(n ast.Node) bool {
		for _, is := range inside {
			if is.Body.Pos() <= n.Pos() && n.End() <= is.Body.End() {
				return true
			}
		}
		return false
	}
	ast.Inspect(body, func(n ast.Node) bool {
		is, ok := n.(*ast.IfStmt)
		if !ok {
			return true
		}
		s := ev.Eval(is.Cond)
		if !HasWord(s) {
			return true
		}
		bt := &BitTest{If: is, Cond: s, HasElse: is.Else != nil}
		bt.Test, bt.Err = AsMaskTest(s)
		for _, st := range is.Body.List {
			as, ok := st.(*ast.AssignStmt)
			if ok && len(as.Lhs) == 1 && len(as.Rhs) == 1 {
				if call, ok := ast.Unparen(as.Rhs[0]).(*ast.CallExpr); ok && isBuiltin(ev.Info, call, "append") && len(call.Args) >= 2 &&
					types.ExprString(as.Lhs[0]) == types.ExprString(call.Args[0]) && !call.Ellipsis.IsValid() {
					bt.Acc = append(bt.Acc, types.ExprString(as.Lhs[0]))
					for _, a := range call.Args[1:] {
						if sv, ok := StringConst(ev.Info, a); ok {
							bt.Names = append(bt.Names, sv)
						} else if id, ok := ast.Unparen(a).(*ast.Ident); ok && ev.Info.Uses[id] != nil {
							bt.Appended = append(bt.Appended, ev.Info.Uses[id])
						} else {
							bt.Other++
						}
					}
					continue
				}
			}
			bt.Other++
		}
		d.Tests = append(d.Tests, bt)
		inside = append(inside, is)
		return true
	})
	// placeholders: constant strings produced outside the bit tests
	ast.Inspect(body, func(n ast.Node) bool {
		switch n := n.(type) {
		case *ast.ReturnStmt:
			if within(n) {
				return true
			}
			for _, r := range n.Results {
				if sv, ok := StringConst(ev.Info, r); ok {
					d.Placeholders = append(d.Placeholders, sv)
				}
			}
		case *ast.CallExpr:
			if within(n) || !isBuiltin(ev.Info, n, "append") {
				return true
			}
			for _, a := range n.Args[1:] {
				if sv, ok := StringConst(ev.Info, a); ok {
					d.Placeholders = append(d.Placeholders, sv)
				}
			}
		}
		return true
	})
	return d
}

// MapRanges returns the range statements of body whose operand is a map.
func MapRanges(info *types.Info, body ast.Node) []*ast.RangeStmt {
	var out []*ast.RangeStmt
	ast.Inspect(body, func(n ast.Node) bool {
		if rs, ok := n.(*ast.RangeStmt); ok {
			if tv, ok := info.Types[rs.X]; ok {
				if _, ok := tv.Type.Underlying().(*types.Map); ok {
					out = append(out, rs)
				}
			}
		}
		return true
	})
	return out
}

func isSortFunc(fn *types.Func) bool {
	return IsPkgFunc(fn, "sort", "Strings", "Ints", "Float64s", "Slice", "SliceStable", "Sort", "Stable") ||
		IsPkgFunc(fn, "slices", "Sort", "SortFunc", "SortStableFunc")
}

func mentions(info *types.Info, n ast.Node, o types.Object) bool {
	found := false
	ast.Inspect(n, func(x ast.Node) bool {
		if id, ok := x.(*ast.Ident); ok && info.Uses[id] == o {
			found = true
		}
		return !found
	})
	return found
}

// totalLess recognises `func(i, j int) bool { return v[i] < v[j] }` (or >) on
// the slice variable v: a total order on pairwise distinct elements.
func totalLess(info *types.Info, fl *ast.FuncLit, v types.Object) bool {
	if fl.Type.Params == nil || len(fl.Body.List) != 1 {
		return false
	}
	var ps []types.Object
	for _, f := range fl.Type.Params.List {
		for _, n := range f.Names {
			ps = append(ps, info.Defs[n])
		}
	}
	if len(ps) != 2 {
		return false
	}
	r, ok := fl.Body.List[0].(*ast.ReturnStmt)
	if !ok || len(r.Results) != 1 {
		return false
	}
	be, ok := ast.Unparen(r.Results[0]).(*ast.BinaryExpr)
	if !ok || (be.Op != token.LSS && be.Op != token.GTR) {
		return false
	}
	idx := func(e ast.Expr) types.Object {
		ie, ok := ast.Unparen(e).(*ast.IndexExpr)
		if !ok {
			return nil
		}
		x, ok1 := ast.Unparen(ie.X).(*ast.Ident)
		i, ok2 := ast.Unparen(ie.Index).(*ast.Ident)
		if !ok1 || !ok2 || info.Uses[x] != v {
			return nil
		}
		return info.Uses[i]
	}
	a, b := idx(be.X), idx(be.Y)
	return a != nil && b != nil && a != b && ((a == ps[0] && b == ps[1]) || (a == ps[1] && b == ps[0]))
}

// OrderAfterRange decides that the iteration order of the map range rs (a
// statement of the top-level list of body) cannot reach the function's result:
// every variable written inside the loop is passed to sort.* before any other
// use. status: "ok", "fail" (order-dependent use found) or "undecided".
func OrderAfterRange(info *types.Info, body *ast.BlockStmt, rs *ast.RangeStmt) (status, reason string) {
	at := -1
	for i, s := range body.List {
		if s == rs {
			at = i
		}
	}
	if at < 0 {
		return "undecided", "the map range is not a top-level statement of the function"
	}
	tainted := map[types.Object]bool{}
	why := ""
	ast.Inspect(rs.Body, func(n ast.Node) bool {
		switch n := n.(type) {
		case *ast.ReturnStmt:
			for _, r := range n.Results {
				if tv, ok := info.Types[r]; !ok || tv.Value == nil {
					why = "returns a non-constant from inside the map iteration"
				}
			}
		case *ast.AssignStmt:
			for _, l := range n.Lhs {
				id, ok := ast.Unparen(l).(*ast.Ident)
				if !ok {
					why = "the loop body writes through " + types.ExprString(l)
					continue
				}
				if id.Name == "_" {
					continue
				}
				if o := info.Uses[id]; o != nil && (o.Pos() < rs.Pos() || o.Pos() > rs.End()) {
					tainted[o] = true
				}
			}
		case *ast.IncDecStmt:
			why = "the loop body counts with " + types.ExprString(n.X)
		case *ast.BranchStmt:
			if n.Tok == token.BREAK || n.Tok == token.GOTO {
				why = "the loop is left early (" + n.Tok.String() + ")"
			}
		}
		return true
	})
	if why != "" {
		return "undecided", why
	}
	sorted := map[types.Object]bool{}
	for _, st := range body.List[at+1:] {
		if es, ok := st.(*ast.ExprStmt); ok {
			if call, ok := es.X.(*ast.CallExpr); ok && len(call.Args) >= 1 {
				if fn := StaticCallee(info, call); isSortFunc(fn) {
					a := ast.Unparen(call.Args[0])
					if c, ok := a.(*ast.CallExpr); ok && len(c.Args) == 1 { // sort.Sort(sort.StringSlice(v))
						if tv, ok := info.Types[c.Fun]; ok && tv.IsType() {
							a = ast.Unparen(c.Args[0])
						}
					}
					if id, ok := a.(*ast.Ident); ok {
						if o := info.Uses[id]; o != nil && tainted[o] && !sorted[o] {
							switch fn.Name() {
							case "Slice", "SliceStable", "SortFunc", "SortStableFunc":
								fl, ok := ast.Unparen(call.Args[1]).(*ast.FuncLit)
								if fn.Pkg().Path() != "sort" || !ok || !totalLess(info, fl, o) {
									return "undecided", "cannot decide that the comparison passed to " + fn.FullName() + " is a total order on the elements"
								}
							}
							sorted[o] = true
							continue
						}
					}
				}
			}
		}
		for o := range tainted {
			if sorted[o] || !mentions(info, st, o) {
				continue
			}
			// alias: w := v / w = v
			if as, ok := st.(*ast.AssignStmt); ok && len(as.Lhs) == 1 && len(as.Rhs) == 1 {
				if rid, ok := ast.Unparen(as.Rhs[0]).(*ast.Ident); ok && info.Uses[rid] == o {
					if lid, ok := ast.Unparen(as.Lhs[0]).(*ast.Ident); ok {
						lo := info.Defs[lid]
						if lo == nil {
							lo = info.Uses[lid]
						}
						if lo != nil {
							tainted[lo] = true
							continue
						}
					}
				}
			}
			return "fail", fmt.Sprintf("%s is filled in map-iteration order and is used by `%s` before any sort.* call on it", o.Name(), stmtString(st))
		}
	}
	return "ok", ""
}

func stmtString(s ast.Stmt) string {
	switch s := s.(type) {
	case *ast.ReturnStmt:
		out := "return"
		for i, r := range s.Results {
			if i > 0 {
				out += ","
			}
			out += " " + types.ExprString(r)
		}
		return out
	case *ast.ExprStmt:
		return types.ExprString(s.X)
	case *ast.AssignStmt:
		if len(s.Lhs) == 1 && len(s.Rhs) == 1 {
			return types.ExprString(s.Lhs[0]) + " " + s.Tok.String() + " " + types.ExprString(s.Rhs[0])
		}
	}
	return fmt.Sprintf("%T", s)
}

// ---------------------------------------------------------------- lookup functions

// Atom is one conjunct of a path condition in a lookup function.
type Atom struct {
	Kind string         // "found" (comma-ok lookup of recv in Map succeeded), "eq" (recv == K), "unknown"
	Map  *types.Var     // for "found"
	K    constant.Value // for "eq"
	Neg  bool
	Text string
}

// RetPath is one `return` of a lookup function with the conditions under which
// it is reached.
type RetPath struct {
	Conds  []Atom
	Ret    *ast.ReturnStmt
	Result ast.Expr // nil for a bare return
}

func (p *RetPath) Has(kind string, neg bool, pred func(Atom) bool) bool {
	for _, a := range p.Conds {
		if a.Kind == kind && a.Neg == neg && (pred == nil || pred(a)) {
			return true
		}
	}
	return false
}

func (p *RetPath) HasUnknown() (string, bool) {
	for _, a := range p.Conds {
		if a.Kind == "unknown" {
			return a.Text, true
		}
	}
	return "", false
}

// Lookup analyses small functions of the shape "compare the receiver with
// constants, look it up in package-level maps, return".
type Lookup struct {
	Info    *types.Info
	Recv    types.Object
	OkVars  map[types.Object]*types.Var // comma-ok flag → map looked up with the receiver
	ValVars map[types.Object]*types.Var // looked-up value → map
	Paths   []*RetPath
	Problems []string
}

func (lk *Lookup) isRecv(e ast.Expr) bool {
	e = ast.Unparen(e)
	if c, ok := e.(*ast.CallExpr); ok && len(c.Args) == 1 {
		if tv, ok := lk.Info.Types[c.Fun]; ok && tv.IsType() {
			e = ast.Unparen(c.Args[0])
		}
	}
	id, ok := e.(*ast.Ident)
	return ok && lk.Info.Uses[id] == lk.Recv
}

// MapIndexOfRecv returns the package-level map m when e is `m[recv]`.
func (lk *Lookup) MapIndexOfRecv(e ast.Expr) *types.Var {
	ie, ok := ast.Unparen(e).(*ast.IndexExpr)
	if !ok || !lk.isRecv(ie.Index) {
		return nil
	}
	var id *ast.Ident
	switch x := ast.Unparen(ie.X).(type) {
	case *ast.Ident:
		id = x
	case *ast.SelectorExpr:
		id = x.Sel
	}
	if id == nil {
		return nil
	}
	v, _ := lk.Info.Uses[id].(*types.Var)
	if v == nil || v.Parent() == nil || v.Pkg() == nil || v.Parent() != v.Pkg().Scope() {
		return nil
	}
	return v
}

func (lk *Lookup) bind(s ast.Stmt) bool {
	as, ok := s.(*ast.AssignStmt)
	if !ok {
		return false
	}
	if len(as.Lhs) == 2 && len(as.Rhs) == 1 {
		m := lk.MapIndexOfRecv(as.Rhs[0])
		if m == nil {
			return false
		}
		for i, l := range as.Lhs {
			id, ok := l.(*ast.Ident)
			if !ok {
				return false
			}
			if id.Name == "_" {
				continue
			}
			o := lk.Info.Defs[id]
			if o == nil {
				o = lk.Info.Uses[id]
			}
			if i == 0 {
				lk.ValVars[o] = m
			} else {
				lk.OkVars[o] = m
			}
		}
		return true
	}
	return false
}

func (lk *Lookup) cond(e ast.Expr) (t, f []Atom) {
	e = ast.Unparen(e)
	unk := func() ([]Atom, []Atom) {
		a := Atom{Kind: "unknown", Text: types.ExprString(e)}
		return []Atom{a}, []Atom{a}
	}
	switch e := e.(type) {
	case *ast.Ident:
		if m := lk.OkVars[lk.Info.Uses[e]]; m != nil {
			return []Atom{{Kind: "found", Map: m}}, []Atom{{Kind: "found", Map: m, Neg: true}}
		}
	case *ast.UnaryExpr:
		if e.Op == token.NOT {
			t, f := lk.cond(e.X)
			return f, t
		}
	case *ast.BinaryExpr:
		switch e.Op {
		case token.EQL, token.NEQ:
			for _, p := range [][2]ast.Expr{{e.X, e.Y}, {e.Y, e.X}} {
				if !lk.isRecv(p[0]) {
					continue
				}
				if tv, ok := lk.Info.Types[p[1]]; ok && tv.Value != nil && tv.Value.Kind() == constant.Int {
					eq := Atom{Kind: "eq", K: constant.ToInt(tv.Value), Text: types.ExprString(e)}
					ne := eq
					ne.Neg = true
					if e.Op == token.EQL {
						return []Atom{eq}, []Atom{ne}
					}
					return []Atom{ne}, []Atom{eq}
				}
			}
		case token.LAND:
			t1, _ := lk.cond(e.X)
			t2, _ := lk.cond(e.Y)
			return append(append([]Atom{}, t1...), t2...), []Atom{{Kind: "unknown", Text: "!(" + types.ExprString(e) + ")"}}
		}
	}
	return unk()
}

func with(c []Atom, more []Atom) []Atom { return append(append([]Atom{}, c...), more...) }

// walk returns whether control can fall out of the statement list.
func (lk *Lookup) walk(list []ast.Stmt, conds []Atom) bool {
	for _, s := range list {
		switch s := s.(type) {
		case *ast.ReturnStmt:
			p := &RetPath{Conds: conds, Ret: s}
			if len(s.Results) == 1 {
				p.Result = s.Results[0]
			} else if len(s.Results) > 1 {
				lk.Problems = append(lk.Problems, "multi-value return")
			}
			lk.Paths = append(lk.Paths, p)
			return false
		case *ast.BlockStmt:
			if !lk.walk(s.List, conds) {
				return false
			}
		case *ast.IfStmt:
			if s.Init != nil && !lk.bind(s.Init) {
				lk.Problems = append(lk.Problems, "unrecognised if-initialiser")
			}
			t, f := lk.cond(s.Cond)
			ft := lk.walk(s.Body.List, with(conds, t))
			ff := true
			switch e := s.Else.(type) {
			case *ast.BlockStmt:
				ff = lk.walk(e.List, with(conds, f))
			case *ast.IfStmt:
				ff = lk.walk([]ast.Stmt{e}, with(conds, f))
			}
			switch {
			case !ft && !ff:
				return false
			case !ft:
				conds = with(conds, f)
			case !ff:
				conds = with(conds, t)
			}
		case *ast.AssignStmt:
			if !lk.bind(s) {
				lk.Problems = append(lk.Problems, "statement `"+stmtString(s)+"` is not a table lookup of the receiver")
			}
		case *ast.EmptyStmt, *ast.DeclStmt:
		default:
			lk.Problems = append(lk.Problems, fmt.Sprintf("unrecognised statement %T", s))
		}
	}
	return true
}

// AnalyseLookup walks the body of a lookup method.
func AnalyseLookup(info *types.Info, fd *ast.FuncDecl) *Lookup {
	lk := &Lookup{Info: info, OkVars: map[types.Object]*types.Var{}, ValVars: map[types.Object]*types.Var{}}
	if fd.Recv != nil && len(fd.Recv.List) == 1 && len(fd.Recv.List[0].Names) == 1 {
		lk.Recv = info.Defs[fd.Recv.List[0].Names[0]]
	}
	if lk.Recv == nil {
		lk.Problems = append(lk.Problems, "method has no named receiver")
		return lk
	}
	if lk.walk(fd.Body.List, nil) {
		lk.Problems = append(lk.Problems, "control can reach the end of the function without a return")
	}
	return lk
}

// NameOf classifies the string a path returns: the value found in map m for the
// receiver (possibly wrapped by Sprintf with a %s/%v verb), a literal, or a
// Sprintf pattern.
type NameResult struct {
	FromMap *types.Var // value looked up in this map
	Literal *string
	Pattern *string // Sprintf format when no operand is a looked-up value
	Other   string
}

func (lk *Lookup) ClassifyString(e ast.Expr) NameResult {
	e = ast.Unparen(e)
	if sv, ok := StringConst(lk.Info, e); ok {
		return NameResult{Literal: &sv}
	}
	if id, ok := e.(*ast.Ident); ok {
		if m := lk.ValVars[lk.Info.Uses[id]]; m != nil {
			return NameResult{FromMap: m}
		}
	}
	if m := lk.MapIndexOfRecv(e); m != nil {
		return NameResult{FromMap: m}
	}
	if call, ok := e.(*ast.CallExpr); ok && IsPkgFunc(StaticCallee(lk.Info, call), "fmt", "Sprintf") && len(call.Args) >= 1 {
		if f, ok := StringConst(lk.Info, call.Args[0]); ok {
			for _, v := range ParseFormat(f) {
				if v.Arg+1 < len(call.Args) && (v.Verb == 's' || v.Verb == 'v') {
					if r := lk.ClassifyString(call.Args[v.Arg+1]); r.FromMap != nil {
						return r
					}
				}
			}
			return NameResult{Pattern: &f}
		}
	}
	return NameResult{Other: types.ExprString(e)}
}
