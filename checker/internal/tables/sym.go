package tables

import (
	"fmt"
	"go/ast"
	"go/constant"
	"go/token"
	"go/types"
)

// ---------------------------------------------------------------- symbolic bit tests

type Sym interface{ String() string }

type (
	SWord  struct{}                   // the flag word under test (receiver, or receiver.Field)
	SConst struct{ V constant.Value } // integer or boolean constant
	SKey   struct{ Obj types.Object } // key variable of a `range` over a table
	SAnd   struct{ A, B Sym }
	SCmp   struct {
		Op   token.Token // EQL | NEQ
		A, B Sym
	}
	SNot     struct{ X Sym }
	SUnknown struct{ Why string }
)

func (SWord) String() string    { return "word" }
func (s SConst) String() string { return s.V.ExactString() }
func (s SKey) String() string   { return "key(" + s.Obj.Name() + ")" }
func (s SAnd) String() string   { return "(" + s.A.String() + " & " + s.B.String() + ")" }
func (s SCmp) String() string {
	return "(" + s.A.String() + " " + s.Op.String() + " " + s.B.String() + ")"
}
func (s SNot) String() string     { return "!" + s.X.String() }
func (s SUnknown) String() string { return "?" + s.Why }

// HasWord reports whether the flag word occurs in s.
func HasWord(s Sym) bool {
	switch s := s.(type) {
	case SWord:
		return true
	case SAnd:
		return HasWord(s.A) || HasWord(s.B)
	case SCmp:
		return HasWord(s.A) || HasWord(s.B)
	case SNot:
		return HasWord(s.X)
	}
	return false
}

// FuncSource gives the declaration and type information of a module function
// (used to see through extracted helpers).
type FuncSource func(fn *types.Func) (*ast.FuncDecl, *types.Info)

type Evaluator struct {
	Info   *types.Info
	IsWord func(e ast.Expr) bool
	Env    map[types.Object]Sym
	Defs   map[types.Object]ast.Expr // locals with exactly one definition
	Source FuncSource
	// Static tables (see static.go). Bind holds loop variables bound to the row
	// of a constant table while the loop body is interpreted for that row; Vars
	// gives the initialiser of package-level variables; Tables, when non-nil,
	// collects every variable that was consulted as a constant table (the caller
	// must make sure none of them is ever written).
	Bind map[types.Object]Val
	// OkDefs: locals defined once by `v, ok := T[k]` (see CommaOkDefs); they are
	// evaluated against the constant table T under the current row bindings.
	OkDefs map[types.Object]OkDef
	Vars   VarSource
	Tables map[*types.Var]bool
	depth  int
}

// SingleDefs returns the local variables of body that are defined once
// (`x := e` / `var x = e`) and never assigned again.
func SingleDefs(info *types.Info, body *ast.BlockStmt) map[types.Object]ast.Expr {
	defs := map[types.Object]ast.Expr{}
	bad := map[types.Object]bool{}
	if body == nil {
		return defs
	}
	ast.Inspect(body, func(n ast.Node) bool {
		switch n := n.(type) {
		case *ast.AssignStmt:
			for i, l := range n.Lhs {
				id, ok := ast.Unparen(l).(*ast.Ident)
				if !ok {
					continue
				}
				if n.Tok == token.DEFINE {
					if o := info.Defs[id]; o != nil {
						if len(n.Lhs) == len(n.Rhs) {
							defs[o] = n.Rhs[i]
						} else {
							bad[o] = true
						}
						continue
					}
				}
				if o := info.Uses[id]; o != nil {
					bad[o] = true
				}
			}
		case *ast.IncDecStmt:
			if id, ok := ast.Unparen(n.X).(*ast.Ident); ok {
				if o := info.Uses[id]; o != nil {
					bad[o] = true
				}
			}
		case *ast.UnaryExpr:
			if n.Op == token.AND {
				if id, ok := ast.Unparen(n.X).(*ast.Ident); ok {
					if o := info.Uses[id]; o != nil {
						bad[o] = true
					}
				}
			}
		case *ast.ValueSpec:
			if len(n.Names) == len(n.Values) {
				for i, id := range n.Names {
					if o := info.Defs[id]; o != nil {
						defs[o] = n.Values[i]
					}
				}
			}
		case *ast.RangeStmt:
			for _, e := range []ast.Expr{n.Key, n.Value} {
				if id, ok := e.(*ast.Ident); ok && n.Tok == token.ASSIGN {
					if o := info.Uses[id]; o != nil {
						bad[o] = true
					}
				}
			}
		}
		return true
	})
	for o := range bad {
		delete(defs, o)
	}
	return defs
}

// OkDef is one variable of a `v, ok := T[k]` definition.
type OkDef struct {
	Index *ast.IndexExpr
	Ok    bool // the comma-ok flag (false: the value)
}

// CommaOkDefs returns the locals of body defined exactly once by a comma-ok
// index expression and never assigned again.
func CommaOkDefs(info *types.Info, body *ast.BlockStmt) map[types.Object]OkDef {
	defs := map[types.Object]OkDef{}
	if body == nil {
		return defs
	}
	count := map[types.Object]int{}
	ast.Inspect(body, func(n ast.Node) bool {
		switch n := n.(type) {
		case *ast.AssignStmt:
			ie, isIdx := ast.Unparen(n.Rhs[0]).(*ast.IndexExpr)
			for i, l := range n.Lhs {
				id, ok := ast.Unparen(l).(*ast.Ident)
				if !ok || id.Name == "_" {
					continue
				}
				o := info.Defs[id]
				if o == nil {
					o = info.Uses[id]
				}
				if o == nil {
					continue
				}
				count[o]++
				if n.Tok == token.DEFINE && len(n.Lhs) == 2 && len(n.Rhs) == 1 && isIdx && info.Defs[id] != nil {
					defs[o] = OkDef{Index: ie, Ok: i == 1}
				}
			}
		case *ast.IncDecStmt:
			if id, ok := ast.Unparen(n.X).(*ast.Ident); ok && info.Uses[id] != nil {
				count[info.Uses[id]] += 2
			}
		case *ast.UnaryExpr:
			if id, ok := ast.Unparen(n.X).(*ast.Ident); ok && n.Op == token.AND && info.Uses[id] != nil {
				count[info.Uses[id]] += 2
			}
		case *ast.RangeStmt:
			for _, e := range []ast.Expr{n.Key, n.Value} {
				if id, ok := e.(*ast.Ident); ok && n.Tok == token.ASSIGN && info.Uses[id] != nil {
					count[info.Uses[id]] += 2
				}
			}
		}
		return true
	})
	for o := range defs {
		if count[o] != 1 {
			delete(defs, o)
		}
	}
	return defs
}

// hasKey decides `_, ok := T[k]` for a constant map table T and a constant key k.
func (ev *Evaluator) hasKey(ie *ast.IndexExpr) (bool, string) {
	ct, why := ev.Table(ie.X)
	if why != "" {
		return false, why
	}
	if ct.Kind != "map" {
		return false, types.ExprString(ie.X) + " is not a map"
	}
	k, ok := ev.Eval(ie.Index).(SConst)
	if !ok || k.V.Kind() != constant.Int {
		return false, "key " + types.ExprString(ie.Index) + " is not a constant"
	}
	for _, row := range ct.Rows {
		tv := row.Key.Info.Types[row.Key.E]
		if tv.Value == nil {
			return false, "a key of " + ct.Name + " is not a constant"
		}
		rk := constant.ToInt(tv.Value)
		if rk.Kind() == constant.Int && constant.Compare(rk, token.EQL, k.V) {
			return true, ""
		}
	}
	return false, ""
}

func isIntegerType(t types.Type) bool {
	b, ok := t.Underlying().(*types.Basic)
	return ok && b.Info()&types.IsInteger != 0
}

func (ev *Evaluator) Eval(e ast.Expr) Sym {
	e = ast.Unparen(e)
	if tv, ok := ev.Info.Types[e]; ok && tv.Value != nil {
		switch tv.Value.Kind() {
		case constant.Int:
			return SConst{constant.ToInt(tv.Value)}
		case constant.Bool:
			return SConst{tv.Value}
		case constant.Float:
			if iv := constant.ToInt(tv.Value); iv.Kind() == constant.Int {
				return SConst{iv}
			}
		}
	}
	if ev.IsWord != nil && ev.IsWord(e) {
		return SWord{}
	}
	switch e := e.(type) {
	case *ast.Ident:
		o := ev.Info.Uses[e]
		if o == nil {
			o = ev.Info.Defs[e]
		}
		if s, ok := ev.Env[o]; ok {
			return s
		}
		if b, ok := ev.Bind[o]; ok {
			v, why := ev.static(b, 0)
			if why != "" {
				return SUnknown{"row variable " + e.Name + ": " + why}
			}
			return ev.constOf(v, "row variable "+e.Name)
		}
		if rhs, ok := ev.Defs[o]; ok && ev.depth < 8 {
			ev.depth++
			s := ev.Eval(rhs)
			ev.depth--
			return s
		}
		if d, ok := ev.OkDefs[o]; ok && ev.depth < 8 {
			ev.depth++
			defer func() { ev.depth-- }()
			if d.Ok {
				found, why := ev.hasKey(d.Index)
				if why != "" {
					return SUnknown{"membership " + e.Name + ": " + why}
				}
				return SConst{constant.MakeBool(found)}
			}
			v, why := ev.Static(d.Index)
			if why != "" {
				return SUnknown{e.Name + ": " + why}
			}
			return ev.constOf(v, e.Name)
		}
		return SUnknown{"identifier " + e.Name}
	case *ast.SelectorExpr, *ast.IndexExpr:
		// a field of a bound row, an element of a constant table
		v, why := ev.Static(e)
		if why != "" {
			return SUnknown{types.ExprString(e) + ": " + why}
		}
		return ev.constOf(v, types.ExprString(e))
	case *ast.BinaryExpr:
		switch e.Op {
		case token.AND:
			x, y := ev.Eval(e.X), ev.Eval(e.Y)
			if f, ok := foldInts(e.Op, x, y); ok {
				return f
			}
			return SAnd{x, y}
		case token.EQL, token.NEQ:
			return SCmp{e.Op, ev.Eval(e.X), ev.Eval(e.Y)}
		case token.GTR, token.LSS, token.GEQ, token.LEQ:
			// on an unsigned word: x > 0, 0 < x, x >= 1 are x != 0;  x <= 0, x < 1 are x == 0
			x, y, op := e.X, e.Y, e.Op
			if tv, ok := ev.Info.Types[y]; ok && tv.Value == nil {
				x, y = y, x
				op = map[token.Token]token.Token{token.GTR: token.LSS, token.LSS: token.GTR, token.GEQ: token.LEQ, token.LEQ: token.GEQ}[op]
			}
			if tv, ok := ev.Info.Types[x]; ok && tv.Type != nil {
				if b, ok := tv.Type.Underlying().(*types.Basic); ok && b.Info()&types.IsUnsigned != 0 {
					if k, ok := ev.Eval(y).(SConst); ok && k.V.Kind() == constant.Int {
						zero := constant.MakeInt64(0)
						n, _ := constant.Int64Val(k.V)
						switch {
						case op == token.GTR && n == 0, op == token.GEQ && n == 1:
							return SCmp{token.NEQ, ev.Eval(x), SConst{zero}}
						case op == token.LEQ && n == 0, op == token.LSS && n == 1:
							return SCmp{token.EQL, ev.Eval(x), SConst{zero}}
						}
					}
				}
			}
			return SUnknown{"operator " + e.Op.String()}
		case token.LAND, token.LOR:
			// a constant operand (e.g. the membership of the row's key in a constant table) folds away
			x, y := ev.Eval(e.X), ev.Eval(e.Y)
			for _, p := range [][2]Sym{{x, y}, {y, x}} {
				if b, ok := boolOf(p[0]); ok {
					if b == (e.Op == token.LAND) {
						return p[1]
					}
					return SConst{constant.MakeBool(b)}
				}
			}
			return SUnknown{"operator " + e.Op.String()}
		case token.OR, token.XOR, token.AND_NOT, token.SHL, token.SHR, token.ADD, token.SUB, token.MUL:
			if f, ok := foldInts(e.Op, ev.Eval(e.X), ev.Eval(e.Y)); ok {
				return f
			}
		}
		return SUnknown{"operator " + e.Op.String()}
	case *ast.UnaryExpr:
		if e.Op == token.NOT {
			return SNot{ev.Eval(e.X)}
		}
		return SUnknown{"operator " + e.Op.String()}
	case *ast.CallExpr:
		if tv, ok := ev.Info.Types[e.Fun]; ok && tv.IsType() && len(e.Args) == 1 {
			if isIntegerType(tv.Type) {
				return ev.Eval(e.Args[0])
			}
			return SUnknown{"conversion"}
		}
		if isBuiltin(ev.Info, e, "len") && len(e.Args) == 1 {
			if ct, why := ev.Table(e.Args[0]); why == "" {
				return SConst{constant.MakeInt64(int64(len(ct.Rows)))}
			}
			return SUnknown{"len of a non-constant"}
		}
		return ev.inline(e)
	}
	return SUnknown{fmt.Sprintf("%T", e)}
}

// constOf turns a statically resolved value into a constant symbol.
func (ev *Evaluator) constOf(v Val, what string) Sym {
	tv, ok := v.Info.Types[v.E]
	if !ok || tv.Value == nil {
		// a bound row that is itself an expression over constants and tables
		if _, isLit := v.E.(*ast.CompositeLit); !isLit && ev.depth < 8 {
			sub := ev.with(v.Info)
			sub.depth = ev.depth + 1
			if s := sub.Eval(v.E); !hasUnknown(s) {
				return s
			}
		}
		return SUnknown{what + " is not a constant"}
	}
	switch tv.Value.Kind() {
	case constant.Int:
		return SConst{constant.ToInt(tv.Value)}
	case constant.Bool:
		return SConst{tv.Value}
	case constant.Float:
		if iv := constant.ToInt(tv.Value); iv.Kind() == constant.Int {
			return SConst{iv}
		}
	}
	return SUnknown{what + " is not an integer constant"}
}

// foldInts folds an integer operation on two constants.
func foldInts(op token.Token, x, y Sym) (Sym, bool) {
	a, ok1 := x.(SConst)
	b, ok2 := y.(SConst)
	if !ok1 || !ok2 || a.V.Kind() != constant.Int || b.V.Kind() != constant.Int {
		return nil, false
	}
	switch op {
	case token.SHL, token.SHR:
		n, ok := constant.Uint64Val(b.V)
		if !ok || n > 64 {
			return nil, false
		}
		return SConst{constant.Shift(a.V, op, uint(n))}, true
	}
	return SConst{constant.BinaryOp(a.V, op, b.V)}, true
}

// inline sees through a call to a module function whose body is
// `[single definitions;] return expr`.
func (ev *Evaluator) inline(call *ast.CallExpr) Sym {
	if ev.Source == nil || ev.depth >= 3 {
		return SUnknown{"call"}
	}
	fn := StaticCallee(ev.Info, call)
	if fn == nil {
		return SUnknown{"dynamic call"}
	}
	fd, info := ev.Source(fn)
	if fd == nil || fd.Body == nil || info == nil {
		return SUnknown{"call to " + fn.FullName()}
	}
	sig := fn.Type().(*types.Signature)
	env := map[types.Object]Sym{}
	if sig.Recv() != nil {
		sel, ok := ast.Unparen(call.Fun).(*ast.SelectorExpr)
		if !ok {
			return SUnknown{"method value"}
		}
		if fd.Recv != nil && len(fd.Recv.List) == 1 && len(fd.Recv.List[0].Names) == 1 {
			if o := info.Defs[fd.Recv.List[0].Names[0]]; o != nil {
				env[o] = ev.Eval(sel.X)
			}
		}
	}
	i := 0
	for _, f := range fd.Type.Params.List {
		for _, n := range f.Names {
			if i < len(call.Args) {
				if o := info.Defs[n]; o != nil {
					env[o] = ev.Eval(call.Args[i])
				}
			}
			i++
		}
	}
	if sig.Variadic() || i != len(call.Args) {
		return SUnknown{"call arity"}
	}
	sub := &Evaluator{Info: info, Env: env, Defs: SingleDefs(info, fd.Body), OkDefs: CommaOkDefs(info, fd.Body), Source: ev.Source, Vars: ev.Vars, Tables: ev.Tables, depth: ev.depth + 1}
	s, why := sub.BoolResult(fd.Body)
	if s == nil {
		return SUnknown{"helper " + fn.Name() + ": " + why}
	}
	return s
}

// BoolResult computes the symbolic value a function body returns, for bodies of
// the forms `[defs;] return e` and `[defs;] if c { return b } [else { return !b }]; [return !b]`.
func (ev *Evaluator) BoolResult(body *ast.BlockStmt) (Sym, string) {
	var stmts []ast.Stmt
	for _, s := range body.List {
		switch s := s.(type) {
		case *ast.AssignStmt:
			if s.Tok == token.DEFINE {
				continue
			}
		case *ast.DeclStmt:
			continue
		case *ast.EmptyStmt:
			continue
		}
		stmts = append(stmts, s)
	}
	boolConst := func(s ast.Stmt) (bool, bool) {
		if b, ok := s.(*ast.BlockStmt); ok {
			if len(b.List) != 1 {
				return false, false
			}
			s = b.List[0]
		}
		r, ok := s.(*ast.ReturnStmt)
		if !ok || len(r.Results) != 1 {
			return false, false
		}
		tv, ok := ev.Info.Types[r.Results[0]]
		if !ok || tv.Value == nil || tv.Value.Kind() != constant.Bool {
			return false, false
		}
		return constant.BoolVal(tv.Value), true
	}
	switch len(stmts) {
	case 1:
		if r, ok := stmts[0].(*ast.ReturnStmt); ok && len(r.Results) == 1 {
			return ev.Eval(r.Results[0]), ""
		}
		if is, ok := stmts[0].(*ast.IfStmt); ok && is.Init == nil && is.Else != nil {
			b1, ok1 := boolConst(is.Body)
			b2, ok2 := boolConst(is.Else)
			if ok1 && ok2 && b1 != b2 {
				c := ev.Eval(is.Cond)
				if !b1 {
					c = SNot{c}
				}
				return c, ""
			}
		}
	case 2:
		is, ok := stmts[0].(*ast.IfStmt)
		if ok && is.Init == nil && is.Else == nil {
			b1, ok1 := boolConst(is.Body)
			b2, ok2 := boolConst(stmts[1])
			if ok1 && ok2 && b1 != b2 {
				c := ev.Eval(is.Cond)
				if !b1 {
					c = SNot{c}
				}
				return c, ""
			}
		}
	}
	return nil, "body is not `return e` nor `if c { return true }; return false`"
}

// MaskTest is the normal form `word & Mask ⋈ 0|Mask`.
type MaskTest struct {
	Mask   constant.Value // nil when the mask is a range key
	KeyObj types.Object   // the range key variable used as the mask
	Set    bool           // true: holds when the bit(s) are set; false: when clear
	All    bool           // compared with the mask itself (all bits) rather than with zero (any bit)
}

func boolOf(s Sym) (bool, bool) {
	c, ok := s.(SConst)
	if !ok || c.V.Kind() != constant.Bool {
		return false, false
	}
	return constant.BoolVal(c.V), true
}

// MaskErr explains why an expression is not a faithful mask test. Undecided
// means the expression contains something the evaluator cannot interpret (as
// opposed to a definite mismatch of constants).
type MaskErr struct {
	Msg       string
	Undecided bool
}

func (e *MaskErr) Error() string { return e.Msg }

func hasUnknown(s Sym) bool {
	switch s := s.(type) {
	case SUnknown:
		return true
	case SAnd:
		return hasUnknown(s.A) || hasUnknown(s.B)
	case SCmp:
		return hasUnknown(s.A) || hasUnknown(s.B)
	case SNot:
		return hasUnknown(s.X)
	}
	return false
}

func maskErr(s Sym, f string, a ...any) *MaskErr {
	return &MaskErr{Msg: fmt.Sprintf(f, a...), Undecided: hasUnknown(s)}
}

// AsMaskTest normalises s. The error text says why s is not a faithful test
// of one constant against itself.
func AsMaskTest(s Sym) (*MaskTest, *MaskErr) {
	s0 := s
	switch s := s.(type) {
	case SNot:
		m, err := AsMaskTest(s.X)
		if err != nil {
			return nil, err
		}
		m.Set = !m.Set
		return m, nil
	case SCmp:
		// (test) == true / != false …
		for _, p := range [][2]Sym{{s.A, s.B}, {s.B, s.A}} {
			if b, ok := boolOf(p[1]); ok {
				m, err := AsMaskTest(p[0])
				if err != nil {
					return nil, err
				}
				if (s.Op == token.EQL) != b {
					m.Set = !m.Set
				}
				return m, nil
			}
		}
		var and SAnd
		var other Sym
		if a, ok := s.A.(SAnd); ok && HasWord(a) {
			and, other = a, s.B
		} else if b, ok := s.B.(SAnd); ok && HasWord(b) {
			and, other = b, s.A
		} else {
			return nil, maskErr(s0, "not of the form word&C ⋈ k: %s", s)
		}
		var mask Sym
		if _, ok := and.A.(SWord); ok {
			mask = and.B
		} else if _, ok := and.B.(SWord); ok {
			mask = and.A
		} else {
			return nil, maskErr(s0, "the word is combined with something else before the mask: %s", s)
		}
		mt := &MaskTest{}
		switch m := mask.(type) {
		case SConst:
			if m.V.Kind() != constant.Int {
				return nil, maskErr(s0, "mask is not an integer: %s", s)
			}
			mt.Mask = m.V
		case SKey:
			mt.KeyObj = m.Obj
		default:
			return nil, maskErr(s0, "mask is not a constant: %s", s)
		}
		switch k := other.(type) {
		case SConst:
			if k.V.Kind() != constant.Int {
				return nil, maskErr(s0, "compared with a non-integer: %s", s)
			}
			if constant.Sign(k.V) == 0 {
				mt.Set = s.Op == token.NEQ
				return mt, nil
			}
			if mt.Mask != nil && constant.Compare(k.V, token.EQL, mt.Mask) {
				mt.All = true
				mt.Set = s.Op == token.EQL
				return mt, nil
			}
			if mt.Mask != nil {
				return nil, maskErr(s0, "mask %s is compared with a different constant %s", hex(mt.Mask), hex(k.V))
			}
			return nil, maskErr(s0, "range key mask compared with constant %s", hex(k.V))
		case SKey:
			if mt.KeyObj != nil && k.Obj == mt.KeyObj {
				mt.All = true
				mt.Set = s.Op == token.EQL
				return mt, nil
			}
			return nil, maskErr(s0, "mask compared with a different variable: %s", s)
		}
		return nil, maskErr(s0, "compared with a non-constant: %s", s)
	}
	return nil, maskErr(s0, "not a comparison: %s", s)
}

func hex(v constant.Value) string {
	if u, ok := constant.Uint64Val(v); ok {
		return fmt.Sprintf("0x%X", u)
	}
	return v.ExactString()
}

// Hex renders an integer constant in hexadecimal.
func Hex(v constant.Value) string { return hex(v) }

// ---------------------------------------------------------------- decomposers

// BitTest is one `if word&C … { acc = append(acc, name) }` of a decomposer. A
// test inside a loop over a constant table is instantiated once per row.
type BitTest struct {
	If       *ast.IfStmt
	Cond     Sym
	Test     *MaskTest
	Err      *MaskErr
	Names    []string         // constant strings appended in the body
	Appended []types.Object   // variables appended in the body (range key / value)
	Values   []constant.Value // integer constants appended in the body (a decomposer into flag values)
	Acc      []string         // renderings of the accumulators appended to
	HasElse  bool
	Other    int      // statements in the body that are not appends
	Row      string   // the table row / iteration the test was instantiated for ("" outside loops)
	Guard    bool     // written as `if !test { continue }` followed by the appends
	Under    []string // enclosing constructs that make the test conditional and that the analysis does not interpret
}

// Decomp is what CollectBitTests finds in one function body.
type Decomp struct {
	Tests        []*BitTest
	Placeholders []string        // constant strings returned / appended outside any bit test
	Loops        []*Unrolled     // loops met on the way (resolved statically or not)
	Helpers      []*ast.FuncDecl // module functions the flag word is handed to, whose tests are included
	Problems     []Problem       // control flow that can skip tests or rows (break, continue, return inside a loop …)
}

// Problem is a construct that keeps the analysis from deciding a decomposer.
type Problem struct {
	Pos token.Pos
	Msg string
}

type region struct{ lo, hi token.Pos }

// isContinue: the block is exactly `continue` (of the innermost loop).
func isContinue(b *ast.BlockStmt) bool {
	if b == nil || len(b.List) != 1 {
		return false
	}
	br, ok := b.List[0].(*ast.BranchStmt)
	return ok && br.Tok == token.CONTINUE && br.Label == nil
}

// CollectBitTests walks body and returns every if-statement whose condition
// involves the flag word. Loops over constant tables (and counting loops with
// constant bounds) are unrolled: their body is interpreted once per row with
// the loop variables bound to that row.
func (ev *Evaluator) CollectBitTests(body ast.Node) *Decomp {
	d := &Decomp{}
	var inside []region
	within := func(n ast.Node) bool {
		for _, r := range inside {
			if r.lo <= n.Pos() && n.End() <= r.hi {
				return true
			}
		}
		return false
	}
	// scan interprets the statements executed when a test holds
	scan := func(bt *BitTest, list []ast.Stmt) {
		for _, st := range list {
			as, ok := st.(*ast.AssignStmt)
			if ok && len(as.Lhs) == 1 && len(as.Rhs) == 1 {
				if call, ok := ast.Unparen(as.Rhs[0]).(*ast.CallExpr); ok && isBuiltin(ev.Info, call, "append") && len(call.Args) >= 2 &&
					types.ExprString(as.Lhs[0]) == types.ExprString(call.Args[0]) && !call.Ellipsis.IsValid() {
					bt.Acc = append(bt.Acc, types.ExprString(as.Lhs[0]))
					for _, a := range call.Args[1:] {
						if sv, ok := ev.StringOf(a); ok {
							bt.Names = append(bt.Names, sv)
						} else if c, ok := ev.Eval(a).(SConst); ok && c.V.Kind() == constant.Int {
							bt.Values = append(bt.Values, c.V)
						} else if id, ok := ast.Unparen(a).(*ast.Ident); ok && ev.Info.Uses[id] != nil {
							bt.Appended = append(bt.Appended, ev.Info.Uses[id])
						} else {
							bt.Other++
						}
					}
					continue
				}
			}
			if _, ok := st.(*ast.EmptyStmt); ok {
				continue
			}
			// names written to a strings.Builder / bytes.Buffer instead of appended to a slice
			if recv, arg, ok := builderWrite(ev.Info, st); ok {
				if sv, ok := ev.StringOf(arg); ok {
					bt.Acc = append(bt.Acc, recv)
					bt.Names = append(bt.Names, sv)
					continue
				}
			}
			// `if sb.Len() > 0 { sb.WriteByte('|') }`: a separator between names, not a name
			if is, ok := st.(*ast.IfStmt); ok && is.Else == nil && is.Init == nil && !HasWord(ev.Eval(is.Cond)) && onlySeparators(ev.Info, is.Body) {
				continue
			}
			bt.Other++
		}
	}
	var visit func(n ast.Node, row string, under []string)
	var visitLoopBody func(b *ast.BlockStmt, row string, under []string)
	okBranch := map[ast.Stmt]bool{} // `continue` statements that are part of a recognised guard
	handleIf := func(is *ast.IfStmt, row string, under []string) bool {
		s := ev.Eval(is.Cond)
		if !HasWord(s) {
			return false
		}
		bt := &BitTest{If: is, Cond: s, HasElse: is.Else != nil, Row: row, Under: under}
		bt.Test, bt.Err = AsMaskTest(s)
		scan(bt, is.Body.List)
		d.Tests = append(d.Tests, bt)
		inside = append(inside, region{is.Body.Pos(), is.Body.End()})
		return true
	}
	handleLoop := func(loop ast.Stmt, row string, under []string) {
		u, its, lb := ev.unroll(loop)
		if u == nil {
			return
		}
		d.Loops = append(d.Loops, u)
		if u.Why != "" {
			visit(lb, row, append(append([]string{}, under...), "a loop that is not resolved to constant rows")) // interpret the body once, unbound
			return
		}
		for _, it := range its {
			label := it.label
			if row != "" {
				label = row + ", " + label
			}
			leave := ev.enter(it)
			visitLoopBody(lb, label, under)
			leave()
		}
		// anything that leaves the loop or skips an iteration outside a recognised guard
		ast.Inspect(lb, func(x ast.Node) bool {
			switch x := x.(type) {
			case *ast.FuncLit:
				return false
			case *ast.BranchStmt:
				if !okBranch[x] {
					d.Problems = append(d.Problems, Problem{x.Pos(), "`" + x.Tok.String() + "` inside a loop over table rows: iterations can be skipped or cut short under a condition the rule does not interpret"})
				}
			case *ast.ReturnStmt:
				d.Problems = append(d.Problems, Problem{x.Pos(), "`return` inside a loop over table rows: the remaining rows are not visited"})
			}
			return true
		})
	}
	visitLoopBody = func(b *ast.BlockStmt, row string, under []string) {
		for i, st := range b.List {
			// `if !test { continue }; appends…`  ≡  `if test { appends… }`
			if is, ok := st.(*ast.IfStmt); ok && is.Init == nil && is.Else == nil && isContinue(is.Body) {
				if s := ev.Eval(is.Cond); HasWord(s) {
					okBranch[is.Body.List[0]] = true
					bt := &BitTest{If: is, Cond: SNot{s}, Row: row, Guard: true, Under: under}
					bt.Test, bt.Err = AsMaskTest(bt.Cond)
					rest := b.List[i+1:]
					scan(bt, rest)
					d.Tests = append(d.Tests, bt)
					if len(rest) > 0 {
						inside = append(inside, region{rest[0].Pos(), b.End()})
						for _, r := range rest {
							visit(r, row, under)
						}
					}
					return
				}
			}
			visit(st, row, under)
		}
	}
	visit = func(n ast.Node, row string, under []string) {
		var stack []ast.Node
		// enclosing returns the uninterpreted constructs between n and the node on top of the stack
		enclosing := func() []string {
			out := append([]string{}, under...)
			for _, a := range stack[:len(stack)-1] {
				switch a := a.(type) {
				case *ast.IfStmt:
					if !HasWord(ev.Eval(a.Cond)) {
						out = append(out, "if "+types.ExprString(a.Cond))
					}
				case *ast.SwitchStmt, *ast.TypeSwitchStmt, *ast.SelectStmt:
					out = append(out, "a switch")
				case *ast.FuncLit:
					out = append(out, "a function literal")
				}
			}
			return out
		}
		ast.Inspect(n, func(x ast.Node) bool {
			if x == nil {
				stack = stack[:len(stack)-1]
				return true
			}
			stack = append(stack, x)
			descend := true
			switch x := x.(type) {
			case *ast.RangeStmt:
				handleLoop(x, row, enclosing())
				descend = false
			case *ast.ForStmt:
				handleLoop(x, row, enclosing())
				descend = false
			case *ast.IfStmt:
				handleIf(x, row, enclosing())
			case *ast.CallExpr:
				if sub, fd := ev.enterHelper(x); sub != nil {
					enc := enclosing()
					sd := sub.CollectBitTests(fd.Body)
					for _, bt := range sd.Tests {
						if bt.Row == "" {
							bt.Row = "in " + fd.Name.Name
						} else {
							bt.Row = "in " + fd.Name.Name + ": " + bt.Row
						}
						if row != "" {
							bt.Row = row + ", " + bt.Row
						}
						bt.Under = append(append([]string{}, enc...), bt.Under...)
					}
					d.Tests = append(d.Tests, sd.Tests...)
					d.Placeholders = append(d.Placeholders, sd.Placeholders...)
					d.Loops = append(d.Loops, sd.Loops...)
					d.Problems = append(d.Problems, sd.Problems...)
					d.Helpers = append(append(d.Helpers, fd), sd.Helpers...)
				}
			}
			if !descend {
				stack = stack[:len(stack)-1] // Inspect does not call f(nil) when f returned false
			}
			return descend
		})
	}
	visit(body, "", nil)
	// placeholders: constant strings produced outside the bit tests
	ast.Inspect(body, func(n ast.Node) bool {
		switch n := n.(type) {
		case *ast.ReturnStmt:
			if within(n) {
				return true
			}
			for _, r := range n.Results {
				if sv, ok := StringConst(ev.Info, r); ok {
					d.Placeholders = append(d.Placeholders, sv)
				}
			}
		case *ast.CallExpr:
			if within(n) || !isBuiltin(ev.Info, n, "append") {
				return true
			}
			for _, a := range n.Args[1:] {
				if sv, ok := StringConst(ev.Info, a); ok {
					d.Placeholders = append(d.Placeholders, sv)
				}
			}
		}
		return true
	})
	return d
}

// builderWrite recognises `b.WriteString(x)` on a strings.Builder / bytes.Buffer.
func builderWrite(info *types.Info, st ast.Stmt) (recv string, arg ast.Expr, ok bool) {
	es, isExpr := st.(*ast.ExprStmt)
	if !isExpr {
		return "", nil, false
	}
	call, isCall := es.X.(*ast.CallExpr)
	if !isCall || len(call.Args) != 1 {
		return "", nil, false
	}
	fn := StaticCallee(info, call)
	if fn == nil || fn.Name() != "WriteString" || !isBuilderMethod(fn) {
		return "", nil, false
	}
	sel := ast.Unparen(call.Fun).(*ast.SelectorExpr)
	return types.ExprString(sel.X), call.Args[0], true
}

func isBuilderMethod(fn *types.Func) bool {
	sig, ok := fn.Type().(*types.Signature)
	if !ok || sig.Recv() == nil {
		return false
	}
	t := sig.Recv().Type()
	if p, ok := t.(*types.Pointer); ok {
		t = p.Elem()
	}
	n, ok := t.(*types.Named)
	if !ok || n.Obj().Pkg() == nil {
		return false
	}
	full := n.Obj().Pkg().Path() + "." + n.Obj().Name()
	return full == "strings.Builder" || full == "bytes.Buffer"
}

// onlySeparators: the block only writes constants of at most one character
// (separators) to a builder.
func onlySeparators(info *types.Info, b *ast.BlockStmt) bool {
	if len(b.List) == 0 {
		return false
	}
	for _, st := range b.List {
		es, ok := st.(*ast.ExprStmt)
		if !ok {
			return false
		}
		call, ok := es.X.(*ast.CallExpr)
		if !ok || len(call.Args) != 1 {
			return false
		}
		fn := StaticCallee(info, call)
		if fn == nil || !isBuilderMethod(fn) {
			return false
		}
		tv, ok := info.Types[call.Args[0]]
		if !ok || tv.Value == nil {
			return false
		}
		switch fn.Name() {
		case "WriteByte", "WriteRune":
		case "WriteString":
			if tv.Value.Kind() != constant.String || len([]rune(constant.StringVal(tv.Value))) > 1 {
				return false
			}
		default:
			return false
		}
	}
	return true
}

// enterHelper prepares the interpretation of a module function the flag word
// is handed to (as receiver or argument): the callee's parameters are bound to
// the symbolic / static value of the arguments. Predicates (bool results) are
// not entered: Eval sees through them where they are used as conditions.
func (ev *Evaluator) enterHelper(call *ast.CallExpr) (*Evaluator, *ast.FuncDecl) {
	if ev.Source == nil || ev.depth >= 2 {
		return nil, nil
	}
	if tv, ok := ev.Info.Types[call.Fun]; ok && (tv.IsType() || tv.IsBuiltin()) {
		return nil, nil
	}
	fn := StaticCallee(ev.Info, call)
	if fn == nil {
		return nil, nil
	}
	sig, ok := fn.Type().(*types.Signature)
	if !ok || sig.Variadic() {
		return nil, nil
	}
	if sig.Results().Len() == 1 {
		if b, ok := sig.Results().At(0).Type().Underlying().(*types.Basic); ok && b.Kind() == types.Bool {
			return nil, nil
		}
	}
	fd, info := ev.Source(fn)
	if fd == nil || fd.Body == nil || info == nil {
		return nil, nil
	}
	env := map[types.Object]Sym{}
	bind := map[types.Object]Val{}
	word := false
	give := func(param types.Object, arg ast.Expr) {
		if param == nil {
			return
		}
		s := ev.Eval(arg)
		if HasWord(s) {
			word = true
		}
		if assigned(info, fd.Body, param) {
			return // the callee changes its parameter: leave it uninterpreted
		}
		if !hasUnknown(s) {
			env[param] = s
			return
		}
		if v, why := ev.Static(arg); why == "" {
			bind[param] = v
		}
	}
	if sig.Recv() != nil {
		sel, ok := ast.Unparen(call.Fun).(*ast.SelectorExpr)
		if !ok {
			return nil, nil
		}
		if fd.Recv != nil && len(fd.Recv.List) == 1 && len(fd.Recv.List[0].Names) == 1 {
			give(info.Defs[fd.Recv.List[0].Names[0]], sel.X)
		}
	}
	i := 0
	for _, f := range fd.Type.Params.List {
		for _, n := range f.Names {
			if i < len(call.Args) {
				give(info.Defs[n], call.Args[i])
			}
			i++
		}
	}
	if !word || i != len(call.Args) {
		return nil, nil
	}
	return &Evaluator{Info: info, Env: env, Bind: bind, Defs: SingleDefs(info, fd.Body), OkDefs: CommaOkDefs(info, fd.Body), Source: ev.Source, Vars: ev.Vars,
		Tables: ev.Tables, depth: ev.depth + 1}, fd
}

// MapRanges returns the range statements of body whose operand is a map.
func MapRanges(info *types.Info, body ast.Node) []*ast.RangeStmt {
	var out []*ast.RangeStmt
	ast.Inspect(body, func(n ast.Node) bool {
		if rs, ok := n.(*ast.RangeStmt); ok {
			if tv, ok := info.Types[rs.X]; ok {
				if _, ok := tv.Type.Underlying().(*types.Map); ok {
					out = append(out, rs)
				}
			}
		}
		return true
	})
	return out
}

func isSortFunc(fn *types.Func) bool {
	return IsPkgFunc(fn, "sort", "Strings", "Ints", "Float64s", "Slice", "SliceStable", "Sort", "Stable") ||
		IsPkgFunc(fn, "slices", "Sort", "SortFunc", "SortStableFunc")
}

func mentions(info *types.Info, n ast.Node, o types.Object) bool {
	found := false
	ast.Inspect(n, func(x ast.Node) bool {
		if id, ok := x.(*ast.Ident); ok && info.Uses[id] == o {
			found = true
		}
		return !found
	})
	return found
}

// totalLess recognises `func(i, j int) bool { return v[i] < v[j] }` (or >) on
// the slice variable v: a total order on pairwise distinct elements.
func totalLess(info *types.Info, fl *ast.FuncLit, v types.Object) bool {
	if fl.Type.Params == nil || len(fl.Body.List) != 1 {
		return false
	}
	var ps []types.Object
	for _, f := range fl.Type.Params.List {
		for _, n := range f.Names {
			ps = append(ps, info.Defs[n])
		}
	}
	if len(ps) != 2 {
		return false
	}
	r, ok := fl.Body.List[0].(*ast.ReturnStmt)
	if !ok || len(r.Results) != 1 {
		return false
	}
	be, ok := ast.Unparen(r.Results[0]).(*ast.BinaryExpr)
	if !ok || (be.Op != token.LSS && be.Op != token.GTR) {
		return false
	}
	idx := func(e ast.Expr) types.Object {
		ie, ok := ast.Unparen(e).(*ast.IndexExpr)
		if !ok {
			return nil
		}
		x, ok1 := ast.Unparen(ie.X).(*ast.Ident)
		i, ok2 := ast.Unparen(ie.Index).(*ast.Ident)
		if !ok1 || !ok2 || info.Uses[x] != v {
			return nil
		}
		return info.Uses[i]
	}
	a, b := idx(be.X), idx(be.Y)
	return a != nil && b != nil && a != b && ((a == ps[0] && b == ps[1]) || (a == ps[1] && b == ps[0]))
}

// totalCompare recognises a three-way comparison that is a total order on
// distinct elements: cmp.Compare / strings.Compare themselves, or
// `func(a, b T) int { return cmp.Compare(a, b) }` (operands in either order).
func totalCompare(info *types.Info, e ast.Expr) bool {
	isCmp := func(x ast.Expr) bool {
		x = ast.Unparen(x)
		if ix, ok := x.(*ast.IndexExpr); ok { // cmp.Compare[T]
			x = ast.Unparen(ix.X)
		}
		var id *ast.Ident
		switch f := x.(type) {
		case *ast.Ident:
			id = f
		case *ast.SelectorExpr:
			id = f.Sel
		}
		if id == nil {
			return false
		}
		fn, _ := info.Uses[id].(*types.Func)
		return IsPkgFunc(fn, "cmp", "Compare") || IsPkgFunc(fn, "strings", "Compare")
	}
	if isCmp(e) {
		return true
	}
	fl, ok := ast.Unparen(e).(*ast.FuncLit)
	if !ok || fl.Type.Params == nil || len(fl.Body.List) != 1 {
		return false
	}
	var ps []types.Object
	for _, f := range fl.Type.Params.List {
		for _, n := range f.Names {
			ps = append(ps, info.Defs[n])
		}
	}
	r, ok := fl.Body.List[0].(*ast.ReturnStmt)
	if len(ps) != 2 || !ok || len(r.Results) != 1 {
		return false
	}
	call, ok := ast.Unparen(r.Results[0]).(*ast.CallExpr)
	if !ok || !isCmp(call.Fun) || len(call.Args) != 2 {
		return false
	}
	arg := func(x ast.Expr) types.Object {
		if id, ok := ast.Unparen(x).(*ast.Ident); ok {
			return info.Uses[id]
		}
		return nil
	}
	a, b := arg(call.Args[0]), arg(call.Args[1])
	return a != nil && b != nil && a != b && ((a == ps[0] && b == ps[1]) || (a == ps[1] && b == ps[0]))
}

// OrderAfterRange decides that the iteration order of the map range rs (a
// statement of the top-level list of body) cannot reach the function's result:
// every variable written inside the loop is passed to sort.* before any other
// use. status: "ok", "fail" (order-dependent use found) or "undecided".
func OrderAfterRange(info *types.Info, body *ast.BlockStmt, rs *ast.RangeStmt) (status, reason string) {
	at := -1
	for i, s := range body.List {
		if s == rs {
			at = i
		}
	}
	if at < 0 {
		return "undecided", "the map range is not a top-level statement of the function"
	}
	tainted := map[types.Object]bool{}
	why := ""
	ast.Inspect(rs.Body, func(n ast.Node) bool {
		switch n := n.(type) {
		case *ast.ReturnStmt:
			for _, r := range n.Results {
				if tv, ok := info.Types[r]; !ok || tv.Value == nil {
					why = "returns a non-constant from inside the map iteration"
				}
			}
		case *ast.AssignStmt:
			for _, l := range n.Lhs {
				id, ok := ast.Unparen(l).(*ast.Ident)
				if !ok {
					why = "the loop body writes through " + types.ExprString(l)
					continue
				}
				if id.Name == "_" {
					continue
				}
				if o := info.Uses[id]; o != nil && (o.Pos() < rs.Pos() || o.Pos() > rs.End()) {
					tainted[o] = true
				}
			}
		case *ast.IncDecStmt:
			why = "the loop body counts with " + types.ExprString(n.X)
		case *ast.BranchStmt:
			if n.Tok == token.BREAK || n.Tok == token.GOTO {
				why = "the loop is left early (" + n.Tok.String() + ")"
			}
		}
		return true
	})
	if why != "" {
		return "undecided", why
	}
	sorted := map[types.Object]bool{}
	for _, st := range body.List[at+1:] {
		if es, ok := st.(*ast.ExprStmt); ok {
			if call, ok := es.X.(*ast.CallExpr); ok && len(call.Args) >= 1 {
				if fn := StaticCallee(info, call); isSortFunc(fn) {
					a := ast.Unparen(call.Args[0])
					if c, ok := a.(*ast.CallExpr); ok && len(c.Args) == 1 { // sort.Sort(sort.StringSlice(v))
						if tv, ok := info.Types[c.Fun]; ok && tv.IsType() {
							a = ast.Unparen(c.Args[0])
						}
					}
					if id, ok := a.(*ast.Ident); ok {
						if o := info.Uses[id]; o != nil && tainted[o] && !sorted[o] {
							switch fn.Name() {
							case "Slice", "SliceStable":
								fl, ok := ast.Unparen(call.Args[1]).(*ast.FuncLit)
								if fn.Pkg().Path() != "sort" || !ok || !totalLess(info, fl, o) {
									return "undecided", "cannot decide that the comparison passed to " + fn.FullName() + " is a total order on the elements"
								}
							case "SortFunc", "SortStableFunc":
								if len(call.Args) != 2 || !totalCompare(info, call.Args[1]) {
									return "undecided", "cannot decide that the comparison passed to " + fn.FullName() + " is a total order on the elements"
								}
							}
							sorted[o] = true
							continue
						}
					}
				}
			}
		}
		for o := range tainted {
			if sorted[o] || !mentions(info, st, o) {
				continue
			}
			// alias: w := v / w = v
			if as, ok := st.(*ast.AssignStmt); ok && len(as.Lhs) == 1 && len(as.Rhs) == 1 {
				if rid, ok := ast.Unparen(as.Rhs[0]).(*ast.Ident); ok && info.Uses[rid] == o {
					if lid, ok := ast.Unparen(as.Lhs[0]).(*ast.Ident); ok {
						lo := info.Defs[lid]
						if lo == nil {
							lo = info.Uses[lid]
						}
						if lo != nil {
							tainted[lo] = true
							continue
						}
					}
				}
			}
			return "fail", fmt.Sprintf("%s is filled in map-iteration order and is used by `%s` before any sort.* call on it", o.Name(), stmtString(st))
		}
	}
	return "ok", ""
}

func stmtString(s ast.Stmt) string {
	switch s := s.(type) {
	case *ast.ReturnStmt:
		out := "return"
		for i, r := range s.Results {
			if i > 0 {
				out += ","
			}
			out += " " + types.ExprString(r)
		}
		return out
	case *ast.ExprStmt:
		return types.ExprString(s.X)
	case *ast.AssignStmt:
		if len(s.Lhs) == 1 && len(s.Rhs) == 1 {
			return types.ExprString(s.Lhs[0]) + " " + s.Tok.String() + " " + types.ExprString(s.Rhs[0])
		}
	}
	return fmt.Sprintf("%T", s)
}
