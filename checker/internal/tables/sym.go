package tables

import (
	"fmt"
	"go/ast"
	"go/constant"
	"go/token"
	"go/types"
	mbits "math/bits"
	"strings"
)

// ---------------------------------------------------------------- symbolic bit tests

type Sym interface{ String() string }

type (
	SWord  struct{}                   // the flag word under test (receiver, or receiver.Field)
	SConst struct{ V constant.Value } // integer or boolean constant
	SKey   struct{ Obj types.Object } // key variable of a `range` over a table
	SAnd   struct{ A, B Sym }
	SCmp   struct {
		Op   token.Token // EQL | NEQ
		A, B Sym
	}
	SNot     struct{ X Sym }
	SUnknown struct{ Why string }
	// SBoth is `A && B` / `A || B` of two conditions that each involve the word.
	SBoth struct {
		Op   token.Token
		A, B Sym
	}
	// SScaled is `(word >> K) & C`, kept as word & (C<<K): a constant it is
	// compared with must be shifted by K as well.
	SScaled struct {
		X Sym
		K uint
	}
	// SRem is the variable of a set-bit walk (`for r := word; r != 0; r &= r-1`)
	// during the iteration in which the lowest set bit of r is bit I (W: width of
	// the walk in bits). Form says which expression over r is meant.
	SRem struct {
		I, W int
		Form int // remSelf r | remDec r-1 | remNeg -r (= ^r+1) | remInv ^r | remCleared r without its lowest set bit
		// High: the walk goes from the highest set bit down; I is then the index
		// of the HIGHEST set bit of r (and remCleared is r without that bit).
		High bool
	}
)

const (
	remSelf = iota
	remDec
	remNeg
	remInv
	remCleared
)

func (s SBoth) String() string {
	return "(" + s.A.String() + " " + s.Op.String() + " " + s.B.String() + ")"
}
func (s SScaled) String() string { return s.X.String() }

func (s SRem) String() string {
	which := "lowest"
	if s.High {
		which = "highest"
	}
	return fmt.Sprintf("rem(%s, %s bit %d)", [...]string{"r", "r-1", "-r", "^r", "r&(r-1)"}[s.Form], which, s.I)
}

// lowBit is the constant 1<<I.
func (s SRem) lowBit() SConst {
	return SConst{constant.Shift(constant.MakeInt64(1), token.SHL, uint(s.I))}
}

func (SWord) String() string    { return "word" }
func (s SConst) String() string { return s.V.ExactString() }
func (s SKey) String() string   { return "key(" + s.Obj.Name() + ")" }
func (s SAnd) String() string   { return "(" + s.A.String() + " & " + s.B.String() + ")" }
func (s SCmp) String() string {
	return "(" + s.A.String() + " " + s.Op.String() + " " + s.B.String() + ")"
}
func (s SNot) String() string     { return "!" + s.X.String() }
func (s SUnknown) String() string { return "?" + s.Why }

// HasWord reports whether the flag word occurs in s.
func HasWord(s Sym) bool {
	switch s := s.(type) {
	case SWord:
		return true
	case SAnd:
		return HasWord(s.A) || HasWord(s.B)
	case SCmp:
		return HasWord(s.A) || HasWord(s.B)
	case SNot:
		return HasWord(s.X)
	case SBoth:
		return HasWord(s.A) || HasWord(s.B)
	case SScaled:
		return HasWord(s.X)
	}
	return false
}

// FuncSource gives the declaration and type information of a module function
// (used to see through extracted helpers).
type FuncSource func(fn *types.Func) (*ast.FuncDecl, *types.Info)

type Evaluator struct {
	Info   *types.Info
	IsWord func(e ast.Expr) bool
	Env    map[types.Object]Sym
	Defs   map[types.Object]ast.Expr // locals with exactly one definition
	Source FuncSource
	// Static tables (see static.go). Bind holds loop variables bound to the row
	// of a constant table while the loop body is interpreted for that row; Vars
	// gives the initialiser of package-level variables; Tables, when non-nil,
	// collects every variable that was consulted as a constant table (the caller
	// must make sure none of them is ever written).
	Bind map[types.Object]Val
	// OkDefs: locals defined once by `v, ok := T[k]` (see CommaOkDefs); they are
	// evaluated against the constant table T under the current row bindings.
	OkDefs map[types.Object]OkDef
	Vars   VarSource
	Tables map[*types.Var]bool
	depth  int
	// root is the body of the function being interpreted (CollectBitTests sets
	// it); yield is the consumer callback of an iterator body; wordLost says why
	// the callee's copy of the word is not tracked.
	root      ast.Node
	yield     types.Object
	wordLost  string
	lostParam types.Object
	// named results of the function whose body BoolResult interprets
	named     map[types.Object]bool
	namedList []types.Object
}

// WithResults tells the evaluator the named results of the function it is
// about to interpret with BoolResult.
func (ev *Evaluator) WithResults(info *types.Info, ft *ast.FuncType) *Evaluator {
	ev.named, ev.namedList = map[types.Object]bool{}, nil
	if ft != nil && ft.Results != nil {
		for _, f := range ft.Results.List {
			for _, n := range f.Names {
				if o := info.Defs[n]; o != nil && n.Name != "_" {
					ev.named[o] = true
					ev.namedList = append(ev.namedList, o)
				}
			}
		}
	}
	return ev
}

// SingleDefs returns the local variables of body that are defined once
// (`x := e` / `var x = e`) and never assigned again.
func SingleDefs(info *types.Info, body *ast.BlockStmt) map[types.Object]ast.Expr {
	defs := map[types.Object]ast.Expr{}
	bad := map[types.Object]bool{}
	if body == nil {
		return defs
	}
	ast.Inspect(body, func(n ast.Node) bool {
		switch n := n.(type) {
		case *ast.AssignStmt:
			for i, l := range n.Lhs {
				id, ok := ast.Unparen(l).(*ast.Ident)
				if !ok {
					continue
				}
				if n.Tok == token.DEFINE {
					if o := info.Defs[id]; o != nil {
						if len(n.Lhs) == len(n.Rhs) {
							defs[o] = n.Rhs[i]
						} else {
							bad[o] = true
						}
						continue
					}
				}
				if o := info.Uses[id]; o != nil {
					bad[o] = true
				}
			}
		case *ast.IncDecStmt:
			if id, ok := ast.Unparen(n.X).(*ast.Ident); ok {
				if o := info.Uses[id]; o != nil {
					bad[o] = true
				}
			}
		case *ast.UnaryExpr:
			if n.Op == token.AND {
				if id, ok := ast.Unparen(n.X).(*ast.Ident); ok {
					if o := info.Uses[id]; o != nil {
						bad[o] = true
					}
				}
			}
		case *ast.ValueSpec:
			if len(n.Names) == len(n.Values) {
				for i, id := range n.Names {
					if o := info.Defs[id]; o != nil {
						defs[o] = n.Values[i]
					}
				}
			}
		case *ast.RangeStmt:
			for _, e := range []ast.Expr{n.Key, n.Value} {
				if id, ok := e.(*ast.Ident); ok && n.Tok == token.ASSIGN {
					if o := info.Uses[id]; o != nil {
						bad[o] = true
					}
				}
			}
		}
		return true
	})
	for o := range bad {
		delete(defs, o)
	}
	return defs
}

// OkDef is one variable of a `v, ok := T[k]` definition.
type OkDef struct {
	Index *ast.IndexExpr
	Ok    bool // the comma-ok flag (false: the value)
}

// CommaOkDefs returns the locals of body defined exactly once by a comma-ok
// index expression and never assigned again.
func CommaOkDefs(info *types.Info, body *ast.BlockStmt) map[types.Object]OkDef {
	defs := map[types.Object]OkDef{}
	if body == nil {
		return defs
	}
	count := map[types.Object]int{}
	ast.Inspect(body, func(n ast.Node) bool {
		switch n := n.(type) {
		case *ast.AssignStmt:
			ie, isIdx := ast.Unparen(n.Rhs[0]).(*ast.IndexExpr)
			for i, l := range n.Lhs {
				id, ok := ast.Unparen(l).(*ast.Ident)
				if !ok || id.Name == "_" {
					continue
				}
				o := info.Defs[id]
				if o == nil {
					o = info.Uses[id]
				}
				if o == nil {
					continue
				}
				count[o]++
				if n.Tok == token.DEFINE && len(n.Lhs) == 2 && len(n.Rhs) == 1 && isIdx && info.Defs[id] != nil {
					defs[o] = OkDef{Index: ie, Ok: i == 1}
				}
			}
		case *ast.IncDecStmt:
			if id, ok := ast.Unparen(n.X).(*ast.Ident); ok && info.Uses[id] != nil {
				count[info.Uses[id]] += 2
			}
		case *ast.UnaryExpr:
			if id, ok := ast.Unparen(n.X).(*ast.Ident); ok && n.Op == token.AND && info.Uses[id] != nil {
				count[info.Uses[id]] += 2
			}
		case *ast.RangeStmt:
			for _, e := range []ast.Expr{n.Key, n.Value} {
				if id, ok := e.(*ast.Ident); ok && n.Tok == token.ASSIGN && info.Uses[id] != nil {
					count[info.Uses[id]] += 2
				}
			}
		}
		return true
	})
	for o := range defs {
		if count[o] != 1 {
			delete(defs, o)
		}
	}
	return defs
}

// hasKey decides `_, ok := T[k]` for a constant map table T and a constant key k.
func (ev *Evaluator) hasKey(ie *ast.IndexExpr) (bool, string) {
	ct, why := ev.Table(ie.X)
	if why != "" {
		return false, why
	}
	if ct.Kind != "map" {
		return false, types.ExprString(ie.X) + " is not a map"
	}
	k, ok := ev.Eval(ie.Index).(SConst)
	if !ok || k.V.Kind() != constant.Int {
		return false, "key " + types.ExprString(ie.Index) + " is not a constant"
	}
	for _, row := range ct.Rows {
		tv := row.Key.Info.Types[row.Key.E]
		if tv.Value == nil {
			return false, "a key of " + ct.Name + " is not a constant"
		}
		rk := constant.ToInt(tv.Value)
		if rk.Kind() == constant.Int && constant.Compare(rk, token.EQL, k.V) {
			return true, ""
		}
	}
	return false, ""
}

// basicOf gives the basic type t is built on; for a type parameter, the
// common underlying type of its constraint's terms (`T ~uint32`).
func basicOf(t types.Type) *types.Basic {
	if tp, ok := t.(*types.TypeParam); ok {
		iface, _ := tp.Constraint().Underlying().(*types.Interface)
		if iface == nil {
			return nil
		}
		var core *types.Basic
		for i := 0; i < iface.NumEmbeddeds(); i++ {
			terms := []*types.Term{}
			switch e := iface.EmbeddedType(i).(type) {
			case *types.Union:
				for j := 0; j < e.Len(); j++ {
					terms = append(terms, e.Term(j))
				}
			default:
				terms = append(terms, types.NewTerm(false, e))
			}
			for _, tm := range terms {
				b, ok := tm.Type().Underlying().(*types.Basic)
				if !ok || (core != nil && core.Kind() != b.Kind()) {
					return nil
				}
				core = b
			}
		}
		return core
	}
	b, _ := t.Underlying().(*types.Basic)
	return b
}

func isIntegerType(t types.Type) bool {
	b := basicOf(t)
	return b != nil && b.Info()&types.IsInteger != 0
}

func (ev *Evaluator) Eval(e ast.Expr) Sym {
	e = ast.Unparen(e)
	if tv, ok := ev.Info.Types[e]; ok && tv.Value != nil {
		switch tv.Value.Kind() {
		case constant.Int:
			return SConst{constant.ToInt(tv.Value)}
		case constant.Bool:
			return SConst{tv.Value}
		case constant.Float:
			if iv := constant.ToInt(tv.Value); iv.Kind() == constant.Int {
				return SConst{iv}
			}
		}
	}
	// a variable the evaluator holds a binding for (first: the variable of a
	// set-bit walk can be the callee's own copy of the word)
	if id, ok := e.(*ast.Ident); ok {
		o := ev.Info.Uses[id]
		if o == nil {
			o = ev.Info.Defs[id]
		}
		if s, ok := ev.Env[o]; ok && o != nil {
			return s
		}
	}
	if ev.IsWord != nil && ev.IsWord(e) {
		return SWord{}
	}
	switch e := e.(type) {
	case *ast.Ident:
		o := ev.Info.Uses[e]
		if o == nil {
			o = ev.Info.Defs[e]
		}
		if b, ok := ev.Bind[o]; ok {
			v, why := ev.static(b, 0)
			if why != "" {
				return SUnknown{"row variable " + e.Name + ": " + why}
			}
			return ev.constOf(v, "row variable "+e.Name)
		}
		if rhs, ok := ev.Defs[o]; ok && ev.depth < 8 {
			ev.depth++
			s := ev.Eval(rhs)
			ev.depth--
			return s
		}
		if d, ok := ev.OkDefs[o]; ok && ev.depth < 8 {
			ev.depth++
			defer func() { ev.depth-- }()
			if d.Ok {
				found, why := ev.hasKey(d.Index)
				if why != "" {
					return SUnknown{"membership " + e.Name + ": " + why}
				}
				return SConst{constant.MakeBool(found)}
			}
			v, why := ev.Static(d.Index)
			if why != "" {
				return SUnknown{e.Name + ": " + why}
			}
			return ev.constOf(v, e.Name)
		}
		return SUnknown{"identifier " + e.Name}
	case *ast.SelectorExpr, *ast.IndexExpr:
		// a field of a bound row, an element of a constant table
		v, why := ev.Static(e)
		if why != "" {
			return SUnknown{types.ExprString(e) + ": " + why}
		}
		return ev.constOf(v, types.ExprString(e))
	case *ast.BinaryExpr:
		switch e.Op {
		case token.AND:
			x, y := ev.Eval(e.X), ev.Eval(e.Y)
			if f, ok := foldInts(e.Op, x, y); ok {
				return f
			}
			if f, ok := remOp(e.Op, x, y); ok {
				return f
			}
			// (word >> k) & C  ≡  word & (C << k), compared constants scaled alike
			for _, p := range [][2]Sym{{x, y}, {y, x}} {
				sh, isShift := p[0].(SScaled)
				c, isConst := p[1].(SConst)
				if _, bare := sh.X.(SWord); isShift && bare && isConst && c.V.Kind() == constant.Int && constant.Sign(c.V) >= 0 {
					return SScaled{SAnd{SWord{}, SConst{constant.Shift(c.V, token.SHL, sh.K)}}, sh.K}
				}
			}
			return SAnd{x, y}
		case token.EQL, token.NEQ:
			return cmpSym(e.Op, ev.Eval(e.X), ev.Eval(e.Y))
		case token.GTR, token.LSS, token.GEQ, token.LEQ:
			// on an unsigned word: x > 0, 0 < x, x >= 1 are x != 0;  x <= 0, x < 1 are x == 0
			x, y, op := e.X, e.Y, e.Op
			if tv, ok := ev.Info.Types[y]; ok && tv.Value == nil {
				x, y = y, x
				op = map[token.Token]token.Token{token.GTR: token.LSS, token.LSS: token.GTR, token.GEQ: token.LEQ, token.LEQ: token.GEQ}[op]
			}
			if tv, ok := ev.Info.Types[x]; ok && tv.Type != nil {
				if b, ok := tv.Type.Underlying().(*types.Basic); ok && b.Info()&types.IsUnsigned != 0 {
					if k, ok := ev.Eval(y).(SConst); ok && k.V.Kind() == constant.Int {
						zero := constant.MakeInt64(0)
						n, _ := constant.Int64Val(k.V)
						switch {
						case op == token.GTR && n == 0, op == token.GEQ && n == 1:
							return cmpSym(token.NEQ, ev.Eval(x), SConst{zero})
						case op == token.LEQ && n == 0, op == token.LSS && n == 1:
							return cmpSym(token.EQL, ev.Eval(x), SConst{zero})
						case op == token.GEQ && n == 0:
							return SConst{constant.MakeBool(true)} // an unsigned value is never negative
						case op == token.LSS && n == 0:
							return SConst{constant.MakeBool(false)}
						}
					}
				}
			}
			return SUnknown{"operator " + e.Op.String()}
		case token.LAND, token.LOR:
			// a constant operand (e.g. the membership of the row's key in a constant table) folds away
			x, y := ev.Eval(e.X), ev.Eval(e.Y)
			for _, p := range [][2]Sym{{x, y}, {y, x}} {
				if b, ok := boolOf(p[0]); ok {
					if b == (e.Op == token.LAND) {
						return p[1]
					}
					return SConst{constant.MakeBool(b)}
				}
			}
			if HasWord(x) || HasWord(y) {
				return SBoth{e.Op, x, y}
			}
			return SUnknown{"operator " + e.Op.String()}
		case token.OR, token.XOR, token.AND_NOT, token.SHL, token.SHR, token.ADD, token.SUB, token.MUL:
			x, y := ev.Eval(e.X), ev.Eval(e.Y)
			if f, ok := foldInts(e.Op, x, y); ok {
				return f
			}
			if f, ok := remOp(e.Op, x, y); ok {
				return f
			}
			if _, isWord := x.(SWord); isWord && e.Op == token.SHR {
				if k, ok := y.(SConst); ok && k.V.Kind() == constant.Int {
					if n, exact := constant.Uint64Val(k.V); exact && n < 64 {
						return SScaled{SWord{}, uint(n)}
					}
				}
			}
		}
		return SUnknown{"operator " + e.Op.String()}
	case *ast.UnaryExpr:
		if e.Op == token.NOT {
			return SNot{ev.Eval(e.X)}
		}
		if r, ok := ev.Eval(e.X).(SRem); ok && r.Form == remSelf && !r.High {
			switch e.Op {
			case token.SUB:
				return SRem{r.I, r.W, remNeg, false}
			case token.XOR:
				return SRem{r.I, r.W, remInv, false}
			}
		}
		return SUnknown{"operator " + e.Op.String()}
	case *ast.CallExpr:
		if tv, ok := ev.Info.Types[e.Fun]; ok && tv.IsType() && len(e.Args) == 1 {
			if isIntegerType(tv.Type) {
				s := ev.Eval(e.Args[0])
				if r, ok := s.(SRem); ok {
					if w, unsigned := intWidth(tv.Type); !unsigned || w < r.W {
						return SUnknown{"narrowing or signed conversion of the variable of a set-bit walk"}
					}
				}
				return s
			}
			return SUnknown{"conversion"}
		}
		if s, ok := ev.bitsCall(e); ok {
			return s
		}
		if isBuiltin(ev.Info, e, "len") && len(e.Args) == 1 {
			if ct, why := ev.Table(e.Args[0]); why == "" {
				return SConst{constant.MakeInt64(int64(len(ct.Rows)))}
			}
			return SUnknown{"len of a non-constant"}
		}
		return ev.inline(e)
	}
	return SUnknown{fmt.Sprintf("%T", e)}
}

// cmpSym builds a comparison; a scaled operand (see SScaled) scales the
// constant it is compared with.
func cmpSym(op token.Token, a, b Sym) Sym {
	for i, p := range [][2]Sym{{a, b}, {b, a}} {
		sc, isScaled := p[0].(SScaled)
		if !isScaled {
			continue
		}
		if _, bare := sc.X.(SWord); bare {
			break // a bare shifted word is not a mask test
		}
		c, isConst := p[1].(SConst)
		if !isConst || c.V.Kind() != constant.Int || constant.Sign(c.V) < 0 {
			return SCmp{op, SUnknown{"a shifted word compared with a non-constant"}, p[1]}
		}
		scaled := SConst{constant.Shift(c.V, token.SHL, sc.K)}
		if i == 0 {
			return SCmp{op, sc.X, scaled}
		}
		return SCmp{op, scaled, sc.X}
	}
	return SCmp{op, a, b}
}

// constOf turns a statically resolved value into a constant symbol.
func (ev *Evaluator) constOf(v Val, what string) Sym {
	tv, ok := v.Info.Types[v.E]
	if !ok || tv.Value == nil {
		// a bound row that is itself an expression over constants and tables
		if _, isLit := v.E.(*ast.CompositeLit); !isLit && ev.depth < 8 {
			sub := ev.with(v.Info)
			sub.depth = ev.depth + 1
			if s := sub.Eval(v.E); !hasUnknown(s) {
				return s
			}
		}
		return SUnknown{what + " is not a constant"}
	}
	switch tv.Value.Kind() {
	case constant.Int:
		return SConst{constant.ToInt(tv.Value)}
	case constant.Bool:
		return SConst{tv.Value}
	case constant.Float:
		if iv := constant.ToInt(tv.Value); iv.Kind() == constant.Int {
			return SConst{iv}
		}
	}
	return SUnknown{what + " is not an integer constant"}
}

// intWidth gives the width in bits of an integer type (int, uint, uintptr: 64).
func intWidth(t types.Type) (bits int, unsigned bool) {
	b := basicOf(t)
	if b == nil || b.Info()&types.IsInteger == 0 {
		return 0, false
	}
	w := map[types.BasicKind]int{types.Int8: 8, types.Uint8: 8, types.Int16: 16, types.Uint16: 16, types.Int32: 32, types.Uint32: 32,
		types.Int64: 64, types.Uint64: 64, types.Int: 64, types.Uint: 64, types.Uintptr: 64}[b.Kind()]
	return w, b.Info()&types.IsUnsigned != 0
}

// bitsCall folds math/bits.TrailingZeros* / Len* / OnesCount* of a constant,
// and TrailingZeros* of the variable of a set-bit walk (the index of the bit
// the current iteration stands for).
func (ev *Evaluator) bitsCall(call *ast.CallExpr) (Sym, bool) {
	fn := StaticCallee(ev.Info, call)
	if fn == nil || fn.Pkg() == nil || fn.Pkg().Path() != "math/bits" || len(call.Args) != 1 {
		return nil, false
	}
	sig, _ := fn.Type().(*types.Signature)
	if sig == nil || sig.Params().Len() != 1 {
		return nil, false
	}
	w, _ := intWidth(sig.Params().At(0).Type())
	name := strings.TrimRight(fn.Name(), "0123456789")
	switch a := ev.Eval(call.Args[0]).(type) {
	case SRem:
		if name == "TrailingZeros" && a.Form == remSelf && w >= a.W && !a.High {
			return SConst{constant.MakeInt64(int64(a.I))}, true
		}
		if name == "Len" && a.Form == remSelf && a.High {
			return SConst{constant.MakeInt64(int64(a.I + 1))}, true
		}
		if name == "LeadingZeros" && a.Form == remSelf && a.High && w >= a.W {
			return SConst{constant.MakeInt64(int64(w - 1 - a.I))}, true
		}
	case SConst:
		u, ok := constant.Uint64Val(a.V)
		if a.V.Kind() != constant.Int || !ok || w == 0 {
			break
		}
		switch name {
		case "TrailingZeros":
			if u == 0 {
				return SConst{constant.MakeInt64(int64(w))}, true
			}
			return SConst{constant.MakeInt64(int64(mbits.TrailingZeros64(u)))}, true
		case "Len":
			return SConst{constant.MakeInt64(int64(mbits.Len64(u)))}, true
		case "OnesCount":
			return SConst{constant.MakeInt64(int64(mbits.OnesCount64(u)))}, true
		}
	}
	return SUnknown{"math/bits." + fn.Name() + " of a non-constant"}, true
}

// remOp reduces an operation on the variable r of a set-bit walk: r & -r and
// r &^ (r-1) are the lowest set bit (a constant in each iteration), r & (r-1)
// and r ^ / - / &^ that bit are r without it.
func remOp(op token.Token, x, y Sym) (Sym, bool) {
	rx, okx := x.(SRem)
	ry, oky := y.(SRem)
	cx, cokx := x.(SConst)
	cy, coky := y.(SConst)
	is := func(c SConst, v constant.Value) bool {
		return c.V.Kind() == constant.Int && constant.Compare(c.V, token.EQL, v)
	}
	one := constant.MakeInt64(1)
	pair := func(a, b, p, q int) bool { return (a == p && b == q) || (a == q && b == p) }
	switch {
	case okx && oky && rx.I == ry.I && rx.W == ry.W && !rx.High && !ry.High:
		a, b := rx.Form, ry.Form
		switch op {
		case token.AND:
			if pair(a, b, remSelf, remNeg) {
				return rx.lowBit(), true
			}
			if pair(a, b, remSelf, remDec) {
				return SRem{rx.I, rx.W, remCleared, false}, true
			}
		case token.AND_NOT:
			if a == remSelf && b == remDec {
				return rx.lowBit(), true
			}
		case token.XOR:
			if pair(a, b, remSelf, remCleared) {
				return rx.lowBit(), true
			}
		case token.SUB:
			if a == remSelf && b == remCleared {
				return rx.lowBit(), true
			}
		}
	case okx && coky:
		switch {
		case rx.Form == remSelf && op == token.SUB && is(cy, one) && !rx.High:
			return SRem{rx.I, rx.W, remDec, false}, true
		case rx.Form == remSelf && (op == token.SUB || op == token.XOR || op == token.AND_NOT) && is(cy, rx.lowBit().V):
			return SRem{rx.I, rx.W, remCleared, rx.High}, true
		case rx.Form == remInv && op == token.ADD && is(cy, one) && !rx.High:
			return SRem{rx.I, rx.W, remNeg, false}, true
		}
	case cokx && oky:
		switch {
		case ry.Form == remInv && op == token.ADD && is(cx, one) && !ry.High:
			return SRem{ry.I, ry.W, remNeg, false}, true
		case ry.Form == remSelf && op == token.XOR && is(cx, ry.lowBit().V):
			return SRem{ry.I, ry.W, remCleared, ry.High}, true
		}
	}
	return nil, false
}

// foldInts folds an integer operation on two constants.
func foldInts(op token.Token, x, y Sym) (Sym, bool) {
	a, ok1 := x.(SConst)
	b, ok2 := y.(SConst)
	if !ok1 || !ok2 || a.V.Kind() != constant.Int || b.V.Kind() != constant.Int {
		return nil, false
	}
	switch op {
	case token.SHL, token.SHR:
		n, ok := constant.Uint64Val(b.V)
		if !ok || n > 64 {
			return nil, false
		}
		return SConst{constant.Shift(a.V, op, uint(n))}, true
	}
	return SConst{constant.BinaryOp(a.V, op, b.V)}, true
}

// inline sees through a call to a module function whose body is
// `[single definitions;] return expr`.
func (ev *Evaluator) inline(call *ast.CallExpr) Sym {
	if ev.Source == nil || ev.depth >= 3 {
		return SUnknown{"call"}
	}
	fun := call.Fun
	if ix, ok := ast.Unparen(fun).(*ast.IndexExpr); ok { // explicit instantiation f[T](…)
		if tv, ok := ev.Info.Types[ix.X]; ok && tv.Type != nil {
			if _, isSig := tv.Type.Underlying().(*types.Signature); isSig {
				fun = ix.X
			}
		}
	}
	if ix, ok := ast.Unparen(fun).(*ast.IndexListExpr); ok {
		fun = ix.X
	}
	// what is called: a declared function / method, or a function value that
	// resolves statically (a field of a bound table row, a once-defined local):
	// a method expression T.M, a function name, a function literal
	var (
		info   *types.Info
		ftype  *ast.FuncType
		body   *ast.BlockStmt
		recv   *ast.FieldList
		name   string
		args   []Sym
		method bool
	)
	for _, a := range call.Args {
		args = append(args, ev.Eval(a))
	}
	byFunc := func(fn *types.Func) string {
		fd, finfo := ev.Source(fn)
		if fd == nil || fd.Body == nil || finfo == nil {
			return "call to " + fn.FullName()
		}
		info, ftype, body, recv, name = finfo, fd.Type, fd.Body, fd.Recv, fn.Name()
		method = fn.Type().(*types.Signature).Recv() != nil
		if fn.Type().(*types.Signature).Variadic() {
			return "variadic call"
		}
		return ""
	}
	if fn := StaticCallee(ev.Info, &ast.CallExpr{Fun: fun}); fn != nil {
		if why := byFunc(fn); why != "" {
			return SUnknown{why}
		}
		if method {
			sel, ok := ast.Unparen(fun).(*ast.SelectorExpr)
			if !ok {
				return SUnknown{"method value"}
			}
			// T.M(x, …) passes the receiver as the first argument already
			if tv, isType := ev.Info.Types[sel.X]; !(isType && tv.IsType()) {
				args = append([]Sym{ev.Eval(sel.X)}, args...)
			}
		}
	} else {
		if tv, ok := ev.Info.Types[fun]; ok && (tv.IsType() || tv.IsBuiltin()) {
			return SUnknown{"conversion or builtin"}
		}
		v, why := ev.Static(fun)
		if why != "" {
			return SUnknown{"dynamic call"}
		}
		switch f := ast.Unparen(v.E).(type) {
		case *ast.FuncLit:
			info, ftype, body, name = v.Info, f.Type, f.Body, "a function literal"
		case *ast.Ident:
			fn, _ := v.Info.Uses[f].(*types.Func)
			if fn == nil {
				return SUnknown{"dynamic call"}
			}
			if why := byFunc(fn); why != "" {
				return SUnknown{why}
			}
		case *ast.SelectorExpr:
			fn, _ := v.Info.Uses[f.Sel].(*types.Func)
			if fn == nil {
				return SUnknown{"dynamic call"}
			}
			if why := byFunc(fn); why != "" {
				return SUnknown{why}
			}
			if method {
				// only the method expression T.M (receiver passed as first argument); a
				// method value x.M has its receiver bound elsewhere
				if tv, ok := v.Info.Types[f.X]; !ok || !tv.IsType() {
					return SUnknown{"method value"}
				}
			}
		default:
			return SUnknown{"dynamic call"}
		}
	}
	var params []types.Object
	if method && recv != nil && len(recv.List) == 1 {
		if len(recv.List[0].Names) == 1 {
			params = append(params, info.Defs[recv.List[0].Names[0]])
		} else {
			params = append(params, nil)
		}
	}
	if ftype.Params != nil {
		for _, f := range ftype.Params.List {
			if _, variadic := f.Type.(*ast.Ellipsis); variadic {
				return SUnknown{"variadic call"}
			}
			if len(f.Names) == 0 {
				params = append(params, nil)
			}
			for _, n := range f.Names {
				params = append(params, info.Defs[n])
			}
		}
	}
	if len(params) != len(args) {
		return SUnknown{"call arity"}
	}
	env := map[types.Object]Sym{}
	for i, p := range params {
		if p != nil {
			if assigned(info, body, p) {
				return SUnknown{"the callee " + name + " changes its parameter " + p.Name()}
			}
			env[p] = args[i]
		}
	}
	sub := &Evaluator{Info: info, Env: env, Defs: SingleDefs(info, body), OkDefs: CommaOkDefs(info, body), Source: ev.Source, Vars: ev.Vars, Tables: ev.Tables, depth: ev.depth + 1}
	sub.WithResults(info, ftype)
	s, why := sub.BoolResult(body)
	if s == nil {
		return SUnknown{"helper " + name + ": " + why}
	}
	return s
}

// BoolResult computes the symbolic value a function body returns. Every
// control path is followed (if / else, tagless switch, early returns, a named
// or local result variable assigned on the way, a final return); when all paths
// return boolean constants and are selected by ONE condition T the result is T
// or !T; a body that is `[defs;] return e` yields e. Paths selected by several
// conditions on the word yield their conjunction (SBoth), which no caller
// accepts as a test of one bit.
func (ev *Evaluator) BoolResult(body *ast.BlockStmt) (Sym, string) {
	type lit struct {
		s   Sym
		neg bool
	}
	type path struct {
		conds []lit
		res   Sym
	}
	type state struct {
		conds []lit
		vars  map[types.Object]Sym // result variables assigned on this path
	}
	var paths []path
	why := ""
	fail := func(f string, a ...any) {
		if why == "" {
			why = fmt.Sprintf(f, a...)
		}
	}
	// result variables: named results and locals declared `var x bool` / `x := false`
	resultVar := func(o types.Object) bool {
		v, ok := o.(*types.Var)
		if !ok || v.IsField() {
			return false
		}
		b, ok := v.Type().Underlying().(*types.Basic)
		return ok && b.Kind() == types.Bool && body.Pos() <= v.Pos() && v.Pos() <= body.End() || ev.named[o]
	}
	evalIn := func(st state, e ast.Expr) Sym {
		if id, ok := ast.Unparen(e).(*ast.Ident); ok {
			if s, ok := st.vars[ev.Info.Uses[id]]; ok {
				return s
			}
		}
		return ev.Eval(e)
	}
	with := func(st state, l lit) state {
		n := state{conds: append(append([]lit{}, st.conds...), l), vars: st.vars}
		return n
	}
	set := func(st state, o types.Object, s Sym) state {
		vars := map[types.Object]Sym{}
		for k, v := range st.vars {
			vars[k] = v
		}
		vars[o] = s
		return state{conds: st.conds, vars: vars}
	}
	var walk func(list []ast.Stmt, sts []state) []state
	var stmt func(s ast.Stmt, st state) []state
	walk = func(list []ast.Stmt, sts []state) []state {
		for _, s := range list {
			var next []state
			for _, st := range sts {
				next = append(next, stmt(s, st)...)
			}
			if len(next) > 64 {
				fail("too many control paths")
				return nil
			}
			sts = next
		}
		return sts
	}
	stmt = func(s ast.Stmt, st state) []state {
		switch s := s.(type) {
		case *ast.EmptyStmt:
			return []state{st}
		case *ast.DeclStmt:
			if gd, ok := s.Decl.(*ast.GenDecl); ok && gd.Tok == token.VAR {
				for _, sp := range gd.Specs {
					if vs, ok := sp.(*ast.ValueSpec); ok && len(vs.Values) == 0 {
						for _, n := range vs.Names {
							if o := ev.Info.Defs[n]; o != nil && resultVar(o) {
								st = set(st, o, SConst{constant.MakeBool(false)})
							}
						}
					}
				}
			}
			return []state{st}
		case *ast.AssignStmt:
			if s.Tok == token.DEFINE {
				return []state{st} // once-defined locals are resolved where they are used
			}
			if s.Tok == token.ASSIGN && len(s.Lhs) == 1 && len(s.Rhs) == 1 {
				if id, ok := ast.Unparen(s.Lhs[0]).(*ast.Ident); ok {
					if o := ev.Info.Uses[id]; o != nil && resultVar(o) {
						return []state{set(st, o, evalIn(st, s.Rhs[0]))}
					}
				}
			}
			fail("assignment `%s` to something other than a boolean result variable", stmtString(s))
			return nil
		case *ast.ReturnStmt:
			switch {
			case len(s.Results) == 1:
				paths = append(paths, path{st.conds, evalIn(st, s.Results[0])})
			case len(s.Results) == 0 && len(ev.namedList) == 1:
				r, ok := st.vars[ev.namedList[0]]
				if !ok {
					r = SConst{constant.MakeBool(false)}
				}
				paths = append(paths, path{st.conds, r})
			default:
				fail("a return that is not a single boolean")
			}
			return nil
		case *ast.BlockStmt:
			return walk(s.List, []state{st})
		case *ast.IfStmt:
			if s.Init != nil {
				if as, ok := s.Init.(*ast.AssignStmt); !ok || as.Tok != token.DEFINE {
					fail("if with an initialiser that is not a definition")
					return nil
				}
			}
			c := evalIn(st, s.Cond)
			if b, ok := boolOf(c); ok {
				if b {
					return walk(s.Body.List, []state{st})
				}
				if s.Else == nil {
					return []state{st}
				}
				return stmt(s.Else, st)
			}
			out := walk(s.Body.List, []state{with(st, lit{c, false})})
			if s.Else == nil {
				return append(out, with(st, lit{c, true}))
			}
			return append(out, stmt(s.Else, with(st, lit{c, true}))...)
		case *ast.SwitchStmt:
			if s.Init != nil || s.Tag != nil {
				if tv, ok := ev.Info.Types[s.Tag]; s.Init != nil || !ok || tv.Value == nil || tv.Value.Kind() != constant.Bool || !constant.BoolVal(tv.Value) {
					fail("a switch that is not `switch { case cond: … }`")
					return nil
				}
			}
			var out []state
			var def *ast.CaseClause
			cur := st
			for _, cl := range s.Body.List {
				cc := cl.(*ast.CaseClause)
				if cc.List == nil {
					def = cc
					continue
				}
				if len(cc.List) != 1 {
					fail("a case with several conditions")
					return nil
				}
				for _, b := range cc.Body {
					if br, ok := b.(*ast.BranchStmt); ok {
						fail("%s inside a switch", br.Tok)
						return nil
					}
				}
				c := evalIn(cur, cc.List[0])
				out = append(out, walk(cc.Body, []state{with(cur, lit{c, false})})...)
				cur = with(cur, lit{c, true})
			}
			if def != nil {
				return append(out, walk(def.Body, []state{cur})...)
			}
			return append(out, cur)
		}
		fail("statement %T is not interpreted", s)
		return nil
	}
	rest := walk(body.List, []state{{vars: map[types.Object]Sym{}}})
	if why != "" {
		return nil, why
	}
	if len(rest) > 0 {
		return nil, "control can reach the end of the body without a return"
	}
	if len(paths) == 0 {
		return nil, "no return"
	}
	if len(paths) == 1 && len(paths[0].conds) == 0 {
		return paths[0].res, ""
	}
	// distinct conditions
	var conds []Sym
	keyOf := map[string]int{}
	for _, p := range paths {
		for _, l := range p.conds {
			if _, ok := keyOf[l.s.String()]; !ok {
				keyOf[l.s.String()] = len(conds)
				conds = append(conds, l.s)
			}
		}
	}
	if len(conds) == 1 {
		var onTrue, onFalse Sym
		for _, p := range paths {
			neg := p.conds[0].neg
			consistent := true
			for _, l := range p.conds {
				if l.neg != neg {
					consistent = false
				}
			}
			if !consistent {
				continue // T && !T: dead
			}
			if neg && onFalse == nil {
				onFalse = p.res
			} else if !neg && onTrue == nil {
				onTrue = p.res
			}
		}
		t, ok1 := boolOf(onTrue)
		f, ok2 := boolOf(onFalse)
		switch {
		case onTrue == nil || onFalse == nil:
		case ok1 && ok2 && t != f:
			if t {
				return conds[0], ""
			}
			return SNot{conds[0]}, ""
		case ok1 && ok2:
			return SConst{constant.MakeBool(t)}, "" // the same constant either way
		case ok1 && !t:
			// if T { return false }; return e   ≡  !T && e
			return SBoth{token.LAND, SNot{conds[0]}, onFalse}, ""
		case ok2 && !f:
			// if T { return e }; return false  ≡  T && e
			return SBoth{token.LAND, conds[0], onTrue}, ""
		case ok1 && t:
			return SBoth{token.LOR, conds[0], onFalse}, ""
		case ok2 && f:
			return SBoth{token.LOR, SNot{conds[0]}, onTrue}, ""
		}
		return nil, "the paths of the body do not reduce to one condition"
	}
	// several conditions: their combination (never a test of one bit)
	var all Sym = conds[0]
	for _, c := range conds[1:] {
		all = SBoth{token.LAND, all, c}
	}
	return all, ""
}

// MaskTest is the normal form `word & Mask ⋈ 0|Mask`.
type MaskTest struct {
	Mask   constant.Value // nil when the mask is a range key
	KeyObj types.Object   // the range key variable used as the mask
	Set    bool           // true: holds when the bit(s) are set; false: when clear
	All    bool           // compared with the mask itself (all bits) rather than with zero (any bit)
}

func boolOf(s Sym) (bool, bool) {
	c, ok := s.(SConst)
	if !ok || c.V.Kind() != constant.Bool {
		return false, false
	}
	return constant.BoolVal(c.V), true
}

// MaskErr explains why an expression is not a faithful mask test. Undecided
// means the expression contains something the evaluator cannot interpret (as
// opposed to a definite mismatch of constants).
type MaskErr struct {
	Msg       string
	Undecided bool
}

func (e *MaskErr) Error() string { return e.Msg }

func hasUnknown(s Sym) bool {
	switch s := s.(type) {
	case SUnknown, SRem:
		return true
	case SAnd:
		return hasUnknown(s.A) || hasUnknown(s.B)
	case SCmp:
		return hasUnknown(s.A) || hasUnknown(s.B)
	case SNot:
		return hasUnknown(s.X)
	case SBoth:
		return hasUnknown(s.A) || hasUnknown(s.B)
	case SScaled:
		return hasUnknown(s.X)
	}
	return false
}

// HasUnknown reports whether s contains something the evaluator could not interpret.
func HasUnknown(s Sym) bool { return hasUnknown(s) }

func maskErr(s Sym, f string, a ...any) *MaskErr {
	return &MaskErr{Msg: fmt.Sprintf(f, a...), Undecided: hasUnknown(s)}
}

// AsMaskTest normalises s. The error text says why s is not a faithful test
// of one constant against itself.
func AsMaskTest(s Sym) (*MaskTest, *MaskErr) {
	s0 := s
	switch s := s.(type) {
	case SBoth:
		ta, ea := AsMaskTest(s.A)
		tb, eb := AsMaskTest(s.B)
		if ea == nil && eb == nil && ta.Mask != nil && tb.Mask != nil && !constant.Compare(ta.Mask, token.EQL, tb.Mask) {
			return nil, &MaskErr{Msg: fmt.Sprintf("tests of two different masks (%s, %s) are combined with %s: the result depends on more than one bit", hex(ta.Mask), hex(tb.Mask), s.Op)}
		}
		return nil, &MaskErr{Msg: fmt.Sprintf("the test of the word is combined with another condition: %s", s), Undecided: true}
	case SNot:
		m, err := AsMaskTest(s.X)
		if err != nil {
			return nil, err
		}
		m.Set = !m.Set
		return m, nil
	case SCmp:
		// (test) == true / != false …
		for _, p := range [][2]Sym{{s.A, s.B}, {s.B, s.A}} {
			if b, ok := boolOf(p[1]); ok {
				m, err := AsMaskTest(p[0])
				if err != nil {
					return nil, err
				}
				if (s.Op == token.EQL) != b {
					m.Set = !m.Set
				}
				return m, nil
			}
		}
		var and SAnd
		var other Sym
		if a, ok := s.A.(SAnd); ok && HasWord(a) {
			and, other = a, s.B
		} else if b, ok := s.B.(SAnd); ok && HasWord(b) {
			and, other = b, s.A
		} else {
			return nil, maskErr(s0, "not of the form word&C ⋈ k: %s", s)
		}
		var mask Sym
		if _, ok := and.A.(SWord); ok {
			mask = and.B
		} else if _, ok := and.B.(SWord); ok {
			mask = and.A
		} else {
			return nil, maskErr(s0, "the word is combined with something else before the mask: %s", s)
		}
		mt := &MaskTest{}
		switch m := mask.(type) {
		case SConst:
			if m.V.Kind() != constant.Int {
				return nil, maskErr(s0, "mask is not an integer: %s", s)
			}
			mt.Mask = m.V
		case SKey:
			mt.KeyObj = m.Obj
		default:
			return nil, maskErr(s0, "mask is not a constant: %s", s)
		}
		switch k := other.(type) {
		case SConst:
			if k.V.Kind() != constant.Int {
				return nil, maskErr(s0, "compared with a non-integer: %s", s)
			}
			if constant.Sign(k.V) == 0 {
				mt.Set = s.Op == token.NEQ
				return mt, nil
			}
			if mt.Mask != nil && constant.Compare(k.V, token.EQL, mt.Mask) {
				mt.All = true
				mt.Set = s.Op == token.EQL
				return mt, nil
			}
			if mt.Mask != nil {
				return nil, maskErr(s0, "mask %s is compared with a different constant %s", hex(mt.Mask), hex(k.V))
			}
			return nil, maskErr(s0, "range key mask compared with constant %s", hex(k.V))
		case SKey:
			if mt.KeyObj != nil && k.Obj == mt.KeyObj {
				mt.All = true
				mt.Set = s.Op == token.EQL
				return mt, nil
			}
			return nil, maskErr(s0, "mask compared with a different variable: %s", s)
		}
		return nil, maskErr(s0, "compared with a non-constant: %s", s)
	}
	return nil, maskErr(s0, "not a comparison: %s", s)
}

func hex(v constant.Value) string {
	if u, ok := constant.Uint64Val(v); ok {
		return fmt.Sprintf("0x%X", u)
	}
	return v.ExactString()
}

// Hex renders an integer constant in hexadecimal.
func Hex(v constant.Value) string { return hex(v) }

// ---------------------------------------------------------------- decomposers

// BitTest is one `if word&C … { acc = append(acc, name) }` of a decomposer. A
// test inside a loop over a constant table is instantiated once per row.
type BitTest struct {
	If       *ast.IfStmt
	Cond     Sym
	Test     *MaskTest
	Err      *MaskErr
	Names    []string         // constant strings appended in the body
	Appended []types.Object   // variables appended in the body (range key / value)
	Values   []constant.Value // integer constants appended in the body (a decomposer into flag values)
	Emits    []Emit           // everything reported (appended, written, yielded), in order
	Acc      []string         // renderings of the accumulators appended to
	HasElse  bool
	Other    int      // statements in the body that are not appends
	Row      string   // the table row / iteration the test was instantiated for ("" outside loops)
	Guard    bool     // written as `if !test { continue }` followed by the appends
	Under    []string // enclosing constructs that make the test conditional and that the analysis does not interpret
	// Implicit: the test is not written out; it is the condition under which a
	// loop over the set bits of the word (or over what another decomposer of the
	// word reports) runs the iteration at all. If is then a synthetic statement
	// that carries the loop's position and condition for diagnostics.
	Implicit bool
	// Cut: in the iteration of a walk over the set bits that stands for this
	// bit, the walk is left ("return" / "break"): every higher bit goes
	// unreported whenever this one is set.
	Cut string
	// RowConds: conditions on the row alone (is the bit named?) that were decided
	// while the body was interpreted. A test that reports nothing because such a
	// condition rules the row out is dropped: the iteration does nothing for that bit.
	RowConds int
	// Opaque: statements of the body that hand the reported data to a module
	// function / function value the analysis does not interpret (counted in Other).
	Opaque []string
}

// vacuous: the test reports nothing, does nothing else, and a condition on the
// row alone explains why (`if name, ok := T[bit]; ok { … }` for an unnamed bit).
func (bt *BitTest) vacuous() bool {
	return len(bt.Emits) == 0 && len(bt.Appended) == 0 && bt.Other == 0 && bt.Cut == "" && bt.RowConds > 0 && !bt.HasElse
}

// Emit is one value a test reports: an integer constant or a constant string.
type Emit struct {
	Int   constant.Value
	Str   string
	IsStr bool
}

// Decomp is what CollectBitTests finds in one function body.
type Decomp struct {
	Tests        []*BitTest
	Placeholders []string        // constant strings returned / appended outside any bit test
	Loops        []*Unrolled     // loops met on the way (resolved statically or not)
	Helpers      []*ast.FuncDecl // module functions the flag word is handed to, whose tests are included
	Problems     []Problem       // control flow that can skip tests or rows (break, continue, return inside a loop …)
	// Escapes: places where the flag word flows into something the analysis did
	// not follow (a loop of a shape it does not model, a call it did not enter,
	// a function literal). The tests listed are then only PART of the
	// decomposition: "bit never tested" cannot be concluded.
	Escapes []Problem
}

// Problem is a construct that keeps the analysis from deciding a decomposer.
type Problem struct {
	Pos token.Pos
	Msg string
}

type region struct{ lo, hi token.Pos }

// isContinue: the block is exactly `continue` (of the innermost loop).
func isContinue(b *ast.BlockStmt) bool {
	if b == nil || len(b.List) != 1 {
		return false
	}
	br, ok := b.List[0].(*ast.BranchStmt)
	return ok && br.Tok == token.CONTINUE && br.Label == nil
}

// mentionsWord reports whether the flag word (under the evaluator's current
// bindings) occurs inside n.
func (ev *Evaluator) mentionsWord(n ast.Node) bool {
	found := false
	ast.Inspect(n, func(x ast.Node) bool {
		if found {
			return false
		}
		switch e := x.(type) {
		case *ast.Ident:
			o := ev.Info.Uses[e]
			if s, ok := ev.Env[o]; ok && o != nil {
				if _, isWord := s.(SWord); isWord {
					found = true
				}
				return false
			}
			if ev.IsWord != nil && ev.IsWord(e) {
				found = true
			}
		case *ast.SelectorExpr:
			if ev.IsWord != nil && ev.IsWord(e) {
				found = true
			}
		}
		return !found
	})
	return found
}

// pureExpr: evaluating e has no effect (no calls but conversions, len / cap /
// min / max and math/bits; no function literals, no receives).
func pureExpr(info *types.Info, e ast.Expr) bool {
	pure := true
	ast.Inspect(e, func(x ast.Node) bool {
		switch x := x.(type) {
		case *ast.FuncLit:
			pure = false
		case *ast.UnaryExpr:
			if x.Op == token.ARROW {
				pure = false
			}
		case *ast.CallExpr:
			if tv, ok := info.Types[x.Fun]; ok && tv.IsType() {
				return true
			}
			if isBuiltin(info, x, "len") || isBuiltin(info, x, "cap") || isBuiltin(info, x, "min") || isBuiltin(info, x, "max") {
				return true
			}
			if fn := StaticCallee(info, x); fn != nil && fn.Pkg() != nil && fn.Pkg().Path() == "math/bits" {
				return true
			}
			pure = false
		}
		return pure
	})
	return pure
}

// pureDefine: s is `x, y := e…` / `var x = e` with effect-free operands.
func pureDefine(info *types.Info, s ast.Stmt) bool {
	switch s := s.(type) {
	case *ast.AssignStmt:
		if s.Tok != token.DEFINE {
			return false
		}
		for _, r := range s.Rhs {
			if !pureExpr(info, r) {
				return false
			}
		}
		return true
	case *ast.DeclStmt:
		gd, ok := s.Decl.(*ast.GenDecl)
		if !ok || gd.Tok != token.VAR {
			return false
		}
		for _, sp := range gd.Specs {
			vs, ok := sp.(*ast.ValueSpec)
			if !ok {
				return false
			}
			for _, v := range vs.Values {
				if !pureExpr(info, v) {
					return false
				}
			}
		}
		return true
	}
	return false
}

// stringOrZero resolves e to the constant string it denotes; an element a
// constant table does not have is its zero value, the empty string.
func (ev *Evaluator) stringOrZero(e ast.Expr) (string, bool) {
	if s, ok := ev.StringOf(e); ok {
		return s, true
	}
	tv, ok := ev.Info.Types[e]
	if !ok || tv.Type == nil {
		return "", false
	}
	if b, ok := tv.Type.Underlying().(*types.Basic); !ok || b.Info()&types.IsString == 0 {
		return "", false
	}
	switch ast.Unparen(e).(type) {
	case *ast.Ident, *ast.SelectorExpr, *ast.IndexExpr:
	default:
		return "", false
	}
	if _, why := ev.Static(e); strings.HasSuffix(why, zeroValueSuffix) {
		return "", true
	}
	return "", false
}

// constCond decides a condition that does not depend on the word but only on
// the current row bindings: membership of the row's key in a constant table,
// `name != ""` / `len(name) > 0` of a name looked up in one, comparisons of
// constants.
func (ev *Evaluator) constCond(e ast.Expr) (bool, bool) {
	e = ast.Unparen(e)
	if b, ok := boolOf(ev.Eval(e)); ok {
		return b, true
	}
	switch e := e.(type) {
	case *ast.UnaryExpr:
		if e.Op == token.NOT {
			b, ok := ev.constCond(e.X)
			return !b, ok
		}
	case *ast.BinaryExpr:
		switch e.Op {
		case token.LAND, token.LOR:
			x, okx := ev.constCond(e.X)
			y, oky := ev.constCond(e.Y)
			switch {
			case okx && oky:
				if e.Op == token.LAND {
					return x && y, true
				}
				return x || y, true
			case okx && x != (e.Op == token.LAND):
				return x, true
			case oky && y != (e.Op == token.LAND):
				return y, true
			}
		case token.EQL, token.NEQ, token.GTR, token.LSS, token.GEQ, token.LEQ:
			// integers
			x, okx := ev.Eval(e.X).(SConst)
			y, oky := ev.Eval(e.Y).(SConst)
			if okx && oky && x.V.Kind() == constant.Int && y.V.Kind() == constant.Int {
				return constant.Compare(x.V, e.Op, y.V), true
			}
			// strings
			if e.Op == token.EQL || e.Op == token.NEQ {
				a, oka := ev.stringOrZero(e.X)
				b, okb := ev.stringOrZero(e.Y)
				if oka && okb {
					return (a == b) == (e.Op == token.EQL), true
				}
			}
			// len(name) ⋈ k
			for i, p := range [][2]ast.Expr{{e.X, e.Y}, {e.Y, e.X}} {
				call, ok := ast.Unparen(p[0]).(*ast.CallExpr)
				if !ok || !isBuiltin(ev.Info, call, "len") || len(call.Args) != 1 {
					continue
				}
				sv, ok := ev.stringOrZero(call.Args[0])
				k, okk := ev.Eval(p[1]).(SConst)
				if !ok || !okk || k.V.Kind() != constant.Int {
					continue
				}
				l, r := constant.MakeInt64(int64(len(sv))), k.V
				if i == 1 {
					l, r = r, l
				}
				return constant.Compare(l, e.Op, r), true
			}
		}
	}
	return false, false
}

// yieldStmt recognises what an iterator body hands to its consumer:
// `if !yield(a…) { return }` or `yield(a…)`.
func (ev *Evaluator) yieldStmt(st ast.Stmt) (args []ast.Expr, ret ast.Stmt, ok bool) {
	if ev.yield == nil {
		return nil, nil, false
	}
	isYield := func(e ast.Expr) *ast.CallExpr {
		call, ok := ast.Unparen(e).(*ast.CallExpr)
		if !ok {
			return nil
		}
		id, ok := ast.Unparen(call.Fun).(*ast.Ident)
		if !ok || ev.Info.Uses[id] != ev.yield {
			return nil
		}
		return call
	}
	switch st := st.(type) {
	case *ast.ExprStmt:
		if call := isYield(st.X); call != nil {
			return call.Args, nil, true
		}
	case *ast.IfStmt:
		if st.Init != nil || st.Else != nil || len(st.Body.List) != 1 {
			return nil, nil, false
		}
		rs, isRet := st.Body.List[0].(*ast.ReturnStmt)
		not, isNot := ast.Unparen(st.Cond).(*ast.UnaryExpr)
		if !isRet || len(rs.Results) != 0 || !isNot || not.Op != token.NOT {
			return nil, nil, false
		}
		if call := isYield(not.X); call != nil {
			return call.Args, rs, true
		}
	}
	return nil, nil, false
}

// CollectBitTests walks body and returns every if-statement whose condition
// involves the flag word. Loops over constant tables (and counting loops with
// constant bounds) are unrolled: their body is interpreted once per row with
// the loop variables bound to that row. A loop over the set bits of the word,
// or over what another decomposer of the word reports, is unrolled into one
// implicit test per bit.
func (ev *Evaluator) CollectBitTests(body ast.Node) *Decomp {
	d := &Decomp{}
	if ev.root == nil {
		ev.root = body
	}
	var inside []region
	within := func(n ast.Node) bool {
		for _, r := range inside {
			if r.lo <= n.Pos() && n.End() <= r.hi {
				return true
			}
		}
		return false
	}
	okBranch := map[ast.Stmt]bool{} // `continue` / `return` statements that are part of a recognised guard
	var skip map[ast.Stmt]bool      // statements that drive the loop being interpreted
	emit := func(bt *BitTest, a ast.Expr) {
		if sv, ok := ev.StringOf(a); ok {
			bt.Names = append(bt.Names, sv)
			bt.Emits = append(bt.Emits, Emit{Str: sv, IsStr: true})
		} else if c, ok := ev.Eval(a).(SConst); ok && c.V.Kind() == constant.Int {
			bt.Values = append(bt.Values, c.V)
			bt.Emits = append(bt.Emits, Emit{Int: c.V})
		} else if id, ok := ast.Unparen(a).(*ast.Ident); ok && ev.Info.Uses[id] != nil {
			bt.Appended = append(bt.Appended, ev.Info.Uses[id])
		} else {
			bt.Other++
		}
	}
	// scan interprets the statements executed when a test holds. iter: the list
	// is (the rest of) the body of one loop iteration, so `continue` ends it.
	// The result says that the list was left by such a `continue`.
	var scan func(bt *BitTest, list []ast.Stmt, iter bool) bool
	scan = func(bt *BitTest, list []ast.Stmt, iter bool) bool {
		skipNext := false
		for si, st := range list {
			if skipNext {
				skipNext = false
				continue
			}
			if skip[st] {
				continue
			}
			// `buf[n] = name; n++`: a store into a pre-sized buffer at a running count is an append
			if as, ok := st.(*ast.AssignStmt); ok && as.Tok == token.ASSIGN && len(as.Lhs) == 1 && len(as.Rhs) == 1 && si+1 < len(list) {
				if ie, ok := ast.Unparen(as.Lhs[0]).(*ast.IndexExpr); ok {
					if nid, ok := ast.Unparen(ie.Index).(*ast.Ident); ok {
						if inc, ok := list[si+1].(*ast.IncDecStmt); ok && inc.Tok == token.INC {
							if iid, ok := ast.Unparen(inc.X).(*ast.Ident); ok && ev.Info.Uses[iid] != nil && ev.Info.Uses[iid] == ev.Info.Uses[nid] {
								bt.Acc = append(bt.Acc, types.ExprString(ie.X))
								emit(bt, as.Rhs[0])
								skipNext = true
								continue
							}
						}
					}
				}
			}
			as, ok := st.(*ast.AssignStmt)
			if ok && len(as.Lhs) == 1 && len(as.Rhs) == 1 {
				if call, ok := ast.Unparen(as.Rhs[0]).(*ast.CallExpr); ok && isBuiltin(ev.Info, call, "append") && len(call.Args) >= 2 &&
					types.ExprString(as.Lhs[0]) == types.ExprString(call.Args[0]) && !call.Ellipsis.IsValid() {
					bt.Acc = append(bt.Acc, types.ExprString(as.Lhs[0]))
					for _, a := range call.Args[1:] {
						emit(bt, a)
					}
					continue
				}
			}
			if _, ok := st.(*ast.EmptyStmt); ok {
				continue
			}
			// local definitions without effect: resolved where they are used
			if pureDefine(ev.Info, st) {
				continue
			}
			// names written to a strings.Builder / bytes.Buffer instead of appended to a slice
			if recv, arg, ok := builderWrite(ev.Info, st); ok {
				if sv, ok := ev.StringOf(arg); ok {
					bt.Acc = append(bt.Acc, recv)
					bt.Names = append(bt.Names, sv)
					bt.Emits = append(bt.Emits, Emit{Str: sv, IsStr: true})
					continue
				}
			}
			// an iterator hands the value to its consumer
			if args, ret, ok := ev.yieldStmt(st); ok {
				if ret != nil {
					okBranch[ret] = true
				}
				bt.Acc = append(bt.Acc, "yield")
				for _, a := range args {
					emit(bt, a)
				}
				continue
			}
			if is, ok := st.(*ast.IfStmt); ok {
				// `if sb.Len() > 0 { sb.WriteByte('|') }`: a separator between names, not a name
				if is.Else == nil && is.Init == nil && !HasWord(ev.Eval(is.Cond)) && onlySeparators(ev.Info, is.Body) {
					continue
				}
				// a condition on the row alone (is the bit named? is the name empty?): decided per row
				if is.Init == nil || pureDefine(ev.Info, is.Init) {
					if b, ok := ev.constCond(is.Cond); ok {
						bt.RowConds++
						if iter && isContinue(is.Body) {
							okBranch[is.Body.List[0]] = true
						}
						var branch []ast.Stmt
						switch {
						case b:
							branch = is.Body.List
						case is.Else != nil:
							if blk, ok := is.Else.(*ast.BlockStmt); ok {
								branch = blk.List
							} else {
								branch = []ast.Stmt{is.Else}
							}
						}
						if scan(bt, branch, iter) {
							return true
						}
						continue
					}
				}
			}
			if br, ok := st.(*ast.BranchStmt); ok && iter && br.Tok == token.CONTINUE && br.Label == nil {
				okBranch[br] = true
				return true
			}
			// leaving the walk in the iteration that stands for one bit
			if bt.Implicit && iter {
				if br, ok := st.(*ast.BranchStmt); ok && br.Tok == token.BREAK && br.Label == nil {
					okBranch[br] = true
					bt.Cut = "break"
					return true
				}
				if rs, ok := st.(*ast.ReturnStmt); ok && (len(rs.Results) == 0 || ev.yield != nil) {
					okBranch[rs] = true
					bt.Cut = "return"
					return true
				}
			}
			if what := ev.opaqueCall(st); what != "" {
				bt.Opaque = append(bt.Opaque, what)
			}
			bt.Other++
		}
		return false
	}
	var visit func(n ast.Node, row string, under []string)
	var visitLoopBody func(b *ast.BlockStmt, row string, under []string)
	handleIf := func(is *ast.IfStmt, row string, under []string) bool {
		s := ev.Eval(is.Cond)
		if !HasWord(s) {
			return false
		}
		bt := &BitTest{If: is, Cond: s, HasElse: is.Else != nil, Row: row, Under: under}
		bt.Test, bt.Err = AsMaskTest(s)
		scan(bt, is.Body.List, false)
		if !bt.vacuous() {
			d.Tests = append(d.Tests, bt)
		}
		inside = append(inside, region{is.Body.Pos(), is.Body.End()})
		return true
	}
	handleLoop := func(loop ast.Stmt, row string, under []string) {
		u, its, lb := ev.unroll(loop)
		if u == nil {
			return
		}
		d.Loops = append(d.Loops, u)
		u.WordInside = ev.mentionsWord(loop)
		if u.Producer != nil {
			d.Helpers = append(d.Helpers, u.Producer)
			if u.Sub != nil {
				d.Helpers = append(d.Helpers, u.Sub.Helpers...)
			}
		}
		if u.Why != "" {
			if !u.Blame && (u.WordInside || u.Producer != nil) {
				d.Escapes = append(d.Escapes, Problem{loop.Pos(), "a loop that involves the flag word is not resolved to constant rows (" + u.Why + ")"})
			}
			visit(lb, row, append(append([]string{}, under...), "a loop that is not resolved to constant rows")) // interpret the body once, unbound
			return
		}
		for _, it := range its {
			label := it.label
			if row != "" {
				label = row + ", " + label
			}
			leave := ev.enter(it)
			if it.test != nil {
				// the iteration itself is the test: `if word & bit != 0 { body }`
				zero := SConst{constant.MakeInt64(0)}
				bt := &BitTest{If: &ast.IfStmt{If: loop.Pos(), Cond: loopCond(loop), Body: lb}, Test: it.test, Row: label, Under: under, Implicit: true,
					Cond: SCmp{token.NEQ, SAnd{SWord{}, SConst{it.test.Mask}}, zero}}
				old := skip
				skip = u.Skip
				if it.cut != "" {
					bt.Cut = it.cut
				} else {
					scan(bt, lb.List, true)
				}
				skip = old
				if len(bt.Emits) > 0 || len(bt.Appended) > 0 || bt.Other > 0 || bt.Cut != "" {
					d.Tests = append(d.Tests, bt)
				}
			}
			visitLoopBody(lb, label, under)
			leave()
		}
		if len(its) > 0 && its[0].test != nil {
			inside = append(inside, region{lb.Pos(), lb.End()})
		}
		// anything that leaves the loop or skips an iteration outside a recognised guard
		ast.Inspect(lb, func(x ast.Node) bool {
			switch x := x.(type) {
			case *ast.FuncLit:
				return false
			case *ast.BranchStmt:
				if !okBranch[x] {
					d.Problems = append(d.Problems, Problem{x.Pos(), "`" + x.Tok.String() + "` inside a loop over table rows: iterations can be skipped or cut short under a condition the rule does not interpret"})
				}
			case *ast.ReturnStmt:
				if !okBranch[x] {
					d.Problems = append(d.Problems, Problem{x.Pos(), "`return` inside a loop over table rows: the remaining rows are not visited"})
				}
			}
			return true
		})
	}
	visitLoopBody = func(b *ast.BlockStmt, row string, under []string) {
		for i, st := range b.List {
			// `if !test { continue }; appends…`  ≡  `if test { appends… }`
			if is, ok := st.(*ast.IfStmt); ok && is.Init == nil && is.Else == nil && isContinue(is.Body) {
				if s := ev.Eval(is.Cond); HasWord(s) {
					okBranch[is.Body.List[0]] = true
					bt := &BitTest{If: is, Cond: SNot{s}, Row: row, Guard: true, Under: under}
					bt.Test, bt.Err = AsMaskTest(bt.Cond)
					rest := b.List[i+1:]
					scan(bt, rest, true)
					if !bt.vacuous() {
						d.Tests = append(d.Tests, bt)
					}
					if len(rest) > 0 {
						inside = append(inside, region{rest[0].Pos(), b.End()})
						for _, r := range rest {
							visit(r, row, under)
						}
					}
					return
				}
			}
			visit(st, row, under)
		}
	}
	merge := func(sd *Decomp, name, row string, enc []string) {
		for _, bt := range sd.Tests {
			if bt.Row == "" {
				bt.Row = "in " + name
			} else {
				bt.Row = "in " + name + ": " + bt.Row
			}
			if row != "" {
				bt.Row = row + ", " + bt.Row
			}
			bt.Under = append(append([]string{}, enc...), bt.Under...)
		}
		d.Tests = append(d.Tests, sd.Tests...)
		d.Placeholders = append(d.Placeholders, sd.Placeholders...)
		d.Loops = append(d.Loops, sd.Loops...)
		d.Problems = append(d.Problems, sd.Problems...)
		d.Escapes = append(d.Escapes, sd.Escapes...)
	}
	closures := ev.localClosures(body)
	producers := ev.producerCalls(body)
	visit = func(n ast.Node, row string, under []string) {
		var stack []ast.Node
		// enclosing returns the uninterpreted constructs between n and the node on top of the stack
		enclosing := func() []string {
			out := append([]string{}, under...)
			for _, a := range stack[:len(stack)-1] {
				switch a := a.(type) {
				case *ast.IfStmt:
					if !HasWord(ev.Eval(a.Cond)) {
						out = append(out, "if "+types.ExprString(a.Cond))
					}
				case *ast.SwitchStmt, *ast.TypeSwitchStmt, *ast.SelectStmt:
					out = append(out, "a switch")
				case *ast.FuncLit:
					out = append(out, "a function literal")
				}
			}
			return out
		}
		ast.Inspect(n, func(x ast.Node) bool {
			if x == nil {
				stack = stack[:len(stack)-1]
				return true
			}
			stack = append(stack, x)
			descend := true
			switch x := x.(type) {
			case *ast.RangeStmt:
				handleLoop(x, row, enclosing())
				descend = false
			case *ast.ForStmt:
				handleLoop(x, row, enclosing())
				descend = false
			case *ast.IfStmt:
				handleIf(x, row, enclosing())
			case *ast.FuncLit:
				// the body of a local closure is interpreted where it is called
				switch {
				case closures[x] != nil:
					descend = false
				case ev.mentionsWord(x):
					d.Escapes = append(d.Escapes, Problem{x.Pos(), "the flag word is captured by a function literal the analysis does not follow"})
					descend = false
				}
			case *ast.CallExpr:
				if producers[x] {
					break // interpreted by the loop that ranges over what it returns
				}
				// len(word.GetFlags()) / cap(…): only the size is used (pre-sizing a
				// buffer); what the callee reports does not reach the result here
				if len(stack) >= 2 {
					if outer, ok := stack[len(stack)-2].(*ast.CallExpr); ok && (isBuiltin(ev.Info, outer, "len") || isBuiltin(ev.Info, outer, "cap")) {
						break
					}
				}
				if sub, fd := ev.enterHelper(x); sub != nil {
					enc := enclosing()
					var hbody ast.Node = fd.Body
					if returnsIterator(sub.Info, fd) {
						// an iterator consumed whole (slices.Collect, slices.Sorted, …): what it
						// yields is what it reports
						if b, why := iteratorBody(sub, fd); why == "" {
							hbody = b
						}
					}
					sd := sub.CollectBitTests(hbody)
					merge(sd, fd.Name.Name, row, enc)
					d.Helpers = append(append(d.Helpers, fd), sd.Helpers...)
				} else if sub, fl, name := ev.enterClosure(x, closures); sub != nil {
					enc := enclosing()
					sd := sub.CollectBitTests(fl.Body)
					merge(sd, name, row, enc)
					d.Helpers = append(d.Helpers, sd.Helpers...)
				} else if why := ev.wordEscapesInto(x); why != "" {
					d.Escapes = append(d.Escapes, Problem{x.Pos(), why})
				}
			}
			if !descend {
				stack = stack[:len(stack)-1] // Inspect does not call f(nil) when f returned false
			}
			return descend
		})
	}
	visit(body, "", nil)
	if ev.wordLost != "" {
		d.Escapes = append(d.Escapes, Problem{body.Pos(), ev.wordLost})
	}
	// placeholders: constant strings produced outside the bit tests
	ast.Inspect(body, func(n ast.Node) bool {
		switch n := n.(type) {
		case *ast.ReturnStmt:
			if within(n) {
				return true
			}
			for _, r := range n.Results {
				if sv, ok := StringConst(ev.Info, r); ok {
					d.Placeholders = append(d.Placeholders, sv)
				}
			}
		case *ast.CallExpr:
			if within(n) || !isBuiltin(ev.Info, n, "append") {
				return true
			}
			for _, a := range n.Args[1:] {
				if sv, ok := StringConst(ev.Info, a); ok {
					d.Placeholders = append(d.Placeholders, sv)
				}
			}
		}
		return true
	})
	return d
}

// loopCond renders the header condition of a loop for diagnostics.
func loopCond(s ast.Stmt) ast.Expr {
	switch s := s.(type) {
	case *ast.ForStmt:
		if s.Cond != nil {
			return s.Cond
		}
	case *ast.RangeStmt:
		return s.X
	}
	return &ast.Ident{Name: "loop"}
}

// builderWrite recognises `b.WriteString(x)` on a strings.Builder / bytes.Buffer.
func builderWrite(info *types.Info, st ast.Stmt) (recv string, arg ast.Expr, ok bool) {
	es, isExpr := st.(*ast.ExprStmt)
	if !isExpr {
		return "", nil, false
	}
	call, isCall := es.X.(*ast.CallExpr)
	if !isCall || len(call.Args) != 1 {
		return "", nil, false
	}
	fn := StaticCallee(info, call)
	if fn == nil || fn.Name() != "WriteString" || !isBuilderMethod(fn) {
		return "", nil, false
	}
	sel := ast.Unparen(call.Fun).(*ast.SelectorExpr)
	return types.ExprString(sel.X), call.Args[0], true
}

func isBuilderMethod(fn *types.Func) bool {
	sig, ok := fn.Type().(*types.Signature)
	if !ok || sig.Recv() == nil {
		return false
	}
	t := sig.Recv().Type()
	if p, ok := t.(*types.Pointer); ok {
		t = p.Elem()
	}
	n, ok := t.(*types.Named)
	if !ok || n.Obj().Pkg() == nil {
		return false
	}
	full := n.Obj().Pkg().Path() + "." + n.Obj().Name()
	return full == "strings.Builder" || full == "bytes.Buffer"
}

// onlySeparators: the block only writes constants of at most one character
// (separators) to a builder.
func onlySeparators(info *types.Info, b *ast.BlockStmt) bool {
	if len(b.List) == 0 {
		return false
	}
	for _, st := range b.List {
		es, ok := st.(*ast.ExprStmt)
		if !ok {
			return false
		}
		call, ok := es.X.(*ast.CallExpr)
		if !ok || len(call.Args) != 1 {
			return false
		}
		fn := StaticCallee(info, call)
		if fn == nil || !isBuilderMethod(fn) {
			return false
		}
		tv, ok := info.Types[call.Args[0]]
		if !ok || tv.Value == nil {
			return false
		}
		switch fn.Name() {
		case "WriteByte", "WriteRune":
		case "WriteString":
			if tv.Value.Kind() != constant.String || len([]rune(constant.StringVal(tv.Value))) > 1 {
				return false
			}
		default:
			return false
		}
	}
	return true
}

// enterHelper prepares the interpretation of a module function the flag word
// is handed to (as receiver or argument): the callee's parameters are bound to
// the symbolic / static value of the arguments. Predicates (bool results) are
// not entered: Eval sees through them where they are used as conditions.
func (ev *Evaluator) enterHelper(call *ast.CallExpr) (*Evaluator, *ast.FuncDecl) {
	if ev.Source == nil || ev.depth >= 2 {
		return nil, nil
	}
	if tv, ok := ev.Info.Types[call.Fun]; ok && (tv.IsType() || tv.IsBuiltin()) {
		return nil, nil
	}
	fun := call.Fun
	if ix, ok := ast.Unparen(fun).(*ast.IndexExpr); ok { // explicit instantiation f[T](…)
		if tv, ok := ev.Info.Types[ix.X]; ok && tv.Type != nil {
			if _, isSig := tv.Type.Underlying().(*types.Signature); isSig {
				fun = ix.X
			}
		}
	}
	if ix, ok := ast.Unparen(fun).(*ast.IndexListExpr); ok {
		fun = ix.X
	}
	fn := StaticCallee(ev.Info, &ast.CallExpr{Fun: fun})
	if fn == nil {
		return nil, nil
	}
	sig, ok := fn.Type().(*types.Signature)
	if !ok || sig.Variadic() {
		return nil, nil
	}
	if sig.Results().Len() == 1 {
		if b, ok := sig.Results().At(0).Type().Underlying().(*types.Basic); ok && b.Kind() == types.Bool {
			return nil, nil
		}
	}
	fd, info := ev.Source(fn)
	if fd == nil || fd.Body == nil || info == nil {
		return nil, nil
	}
	env := map[types.Object]Sym{}
	bind := map[types.Object]Val{}
	word := false
	lost := ""
	var lostParam, sink types.Object
	give := func(param types.Object, arg ast.Expr) {
		if param == nil {
			return
		}
		// a callback that only collects what it is given (`func(name string) { out =
		// append(out, name) }`): calling it is reporting the value
		if _, isFunc := param.Type().Underlying().(*types.Signature); isFunc {
			if ev.isSink(arg) && sink == nil && !assigned(info, fd.Body, param) {
				sink = param
			}
			return
		}
		s := ev.Eval(arg)
		if HasWord(s) {
			word = true
		}
		if assigned(info, fd.Body, param) {
			// the callee changes its parameter: leave it uninterpreted (unless the
			// writes turn out to be the steps of a walk over its set bits)
			if _, isWord := s.(SWord); isWord {
				lost, lostParam = fn.Name()+" changes its own copy of the flag word", param
			}
			return
		}
		if !hasUnknown(s) {
			env[param] = s
			return
		}
		if v, why := ev.Static(arg); why == "" {
			bind[param] = v
		}
	}
	if sig.Recv() != nil {
		sel, ok := ast.Unparen(fun).(*ast.SelectorExpr)
		if !ok {
			return nil, nil
		}
		if fd.Recv != nil && len(fd.Recv.List) == 1 && len(fd.Recv.List[0].Names) == 1 {
			give(info.Defs[fd.Recv.List[0].Names[0]], sel.X)
		}
	}
	i := 0
	for _, f := range fd.Type.Params.List {
		for _, n := range f.Names {
			if i < len(call.Args) {
				give(info.Defs[n], call.Args[i])
			}
			i++
		}
	}
	if !word || i != len(call.Args) {
		return nil, nil
	}
	return &Evaluator{Info: info, Env: env, Bind: bind, Defs: SingleDefs(info, fd.Body), OkDefs: CommaOkDefs(info, fd.Body), Source: ev.Source, Vars: ev.Vars,
		Tables: ev.Tables, depth: ev.depth + 1, wordLost: lost, lostParam: lostParam, yield: sink}, fd
}

// isSink: e is a function literal (or a local defined once as one) whose body
// only appends its parameters to an accumulator / writes them to a builder.
func (ev *Evaluator) isSink(e ast.Expr) bool {
	e = ast.Unparen(e)
	if id, ok := e.(*ast.Ident); ok {
		rhs, ok := ev.Defs[ev.Info.Uses[id]]
		if !ok {
			return false
		}
		e = ast.Unparen(rhs)
	}
	fl, ok := e.(*ast.FuncLit)
	if !ok || fl.Type.Params == nil || len(fl.Body.List) != 1 {
		return false
	}
	params := map[types.Object]bool{}
	for _, f := range fl.Type.Params.List {
		for _, n := range f.Names {
			if o := ev.Info.Defs[n]; o != nil {
				params[o] = true
			}
		}
	}
	isParam := func(x ast.Expr) bool {
		id, ok := ast.Unparen(x).(*ast.Ident)
		return ok && params[ev.Info.Uses[id]]
	}
	st := fl.Body.List[0]
	if as, ok := st.(*ast.AssignStmt); ok && len(as.Lhs) == 1 && len(as.Rhs) == 1 {
		call, ok := ast.Unparen(as.Rhs[0]).(*ast.CallExpr)
		if !ok || !isBuiltin(ev.Info, call, "append") || len(call.Args) < 2 || call.Ellipsis.IsValid() ||
			types.ExprString(as.Lhs[0]) != types.ExprString(call.Args[0]) {
			return false
		}
		for _, a := range call.Args[1:] {
			if !isParam(a) {
				return false
			}
		}
		return true
	}
	if _, arg, ok := builderWrite(ev.Info, st); ok {
		return isParam(arg)
	}
	return false
}

// MapRanges returns the range statements of body whose operand is a map.
func MapRanges(info *types.Info, body ast.Node) []*ast.RangeStmt {
	var out []*ast.RangeStmt
	ast.Inspect(body, func(n ast.Node) bool {
		if rs, ok := n.(*ast.RangeStmt); ok {
			if tv, ok := info.Types[rs.X]; ok {
				if _, ok := tv.Type.Underlying().(*types.Map); ok {
					out = append(out, rs)
				}
			}
		}
		return true
	})
	return out
}

func isSortFunc(fn *types.Func) bool {
	return IsPkgFunc(fn, "sort", "Strings", "Ints", "Float64s", "Slice", "SliceStable", "Sort", "Stable") ||
		IsPkgFunc(fn, "slices", "Sort", "SortFunc", "SortStableFunc")
}

func mentions(info *types.Info, n ast.Node, o types.Object) bool {
	found := false
	ast.Inspect(n, func(x ast.Node) bool {
		if id, ok := x.(*ast.Ident); ok && info.Uses[id] == o {
			found = true
		}
		return !found
	})
	return found
}

// totalLess recognises `func(i, j int) bool { return v[i] < v[j] }` (or >) on
// the slice variable v: a total order on pairwise distinct elements.
func totalLess(info *types.Info, fl *ast.FuncLit, v types.Object) bool {
	if fl.Type.Params == nil || len(fl.Body.List) != 1 {
		return false
	}
	var ps []types.Object
	for _, f := range fl.Type.Params.List {
		for _, n := range f.Names {
			ps = append(ps, info.Defs[n])
		}
	}
	if len(ps) != 2 {
		return false
	}
	r, ok := fl.Body.List[0].(*ast.ReturnStmt)
	if !ok || len(r.Results) != 1 {
		return false
	}
	be, ok := ast.Unparen(r.Results[0]).(*ast.BinaryExpr)
	if !ok || (be.Op != token.LSS && be.Op != token.GTR) {
		return false
	}
	idx := func(e ast.Expr) types.Object {
		ie, ok := ast.Unparen(e).(*ast.IndexExpr)
		if !ok {
			return nil
		}
		x, ok1 := ast.Unparen(ie.X).(*ast.Ident)
		i, ok2 := ast.Unparen(ie.Index).(*ast.Ident)
		if !ok1 || !ok2 || info.Uses[x] != v {
			return nil
		}
		return info.Uses[i]
	}
	a, b := idx(be.X), idx(be.Y)
	return a != nil && b != nil && a != b && ((a == ps[0] && b == ps[1]) || (a == ps[1] && b == ps[0]))
}

// totalCompare recognises a three-way comparison that is a total order on
// distinct elements: cmp.Compare / strings.Compare themselves, or
// `func(a, b T) int { return cmp.Compare(a, b) }` (operands in either order).
func totalCompare(info *types.Info, e ast.Expr) bool {
	isCmp := func(x ast.Expr) bool {
		x = ast.Unparen(x)
		if ix, ok := x.(*ast.IndexExpr); ok { // cmp.Compare[T]
			x = ast.Unparen(ix.X)
		}
		var id *ast.Ident
		switch f := x.(type) {
		case *ast.Ident:
			id = f
		case *ast.SelectorExpr:
			id = f.Sel
		}
		if id == nil {
			return false
		}
		fn, _ := info.Uses[id].(*types.Func)
		return IsPkgFunc(fn, "cmp", "Compare") || IsPkgFunc(fn, "strings", "Compare")
	}
	if isCmp(e) {
		return true
	}
	fl, ok := ast.Unparen(e).(*ast.FuncLit)
	if !ok || fl.Type.Params == nil || len(fl.Body.List) != 1 {
		return false
	}
	var ps []types.Object
	for _, f := range fl.Type.Params.List {
		for _, n := range f.Names {
			ps = append(ps, info.Defs[n])
		}
	}
	r, ok := fl.Body.List[0].(*ast.ReturnStmt)
	if len(ps) != 2 || !ok || len(r.Results) != 1 {
		return false
	}
	call, ok := ast.Unparen(r.Results[0]).(*ast.CallExpr)
	if !ok || !isCmp(call.Fun) || len(call.Args) != 2 {
		return false
	}
	arg := func(x ast.Expr) types.Object {
		if id, ok := ast.Unparen(x).(*ast.Ident); ok {
			return info.Uses[id]
		}
		return nil
	}
	a, b := arg(call.Args[0]), arg(call.Args[1])
	return a != nil && b != nil && a != b && ((a == ps[0] && b == ps[1]) || (a == ps[1] && b == ps[0]))
}

// OrderAfterRange decides that the iteration order of the map range rs cannot
// reach the function's result: every variable written inside the loop is
// passed to sort.* before any other use. status: "ok", "fail" (order-dependent
// use found) or "undecided". See OrderAfter for the general form.
func OrderAfterRange(info *types.Info, body *ast.BlockStmt, rs *ast.RangeStmt) (status, reason string) {
	st, why, _ := OrderAfter(info, body, &MapOrderSite{Stmt: rs, Range: rs, X: rs.X})
	if st == "returned" {
		st = "fail"
	}
	return st, why
}

func stmtString(s ast.Stmt) string {
	switch s := s.(type) {
	case *ast.ReturnStmt:
		out := "return"
		for i, r := range s.Results {
			if i > 0 {
				out += ","
			}
			out += " " + types.ExprString(r)
		}
		return out
	case *ast.ExprStmt:
		return types.ExprString(s.X)
	case *ast.AssignStmt:
		if len(s.Lhs) == 1 && len(s.Rhs) == 1 {
			return types.ExprString(s.Lhs[0]) + " " + s.Tok.String() + " " + types.ExprString(s.Rhs[0])
		}
	}
	return fmt.Sprintf("%T", s)
}
