package tables

import (
	"go/constant"
	"go/token"
	"go/types"
	"sort"
)

// ---------------------------------------------------------------- boolean path conditions
//
// A lookup function (String(), Error()) is decided by asking which of its
// returns can be reached under an assumption such as "the receiver is a key of
// table M and differs from the success constant". The guards are tiny boolean
// combinations of a handful of atoms, so the question is answered exactly by
// enumerating the atoms' truth values (both polarities, De Morgan, nested
// if/else, switch) instead of matching one spelling of the guard.

// Formula is a boolean combination of Atoms.
type Formula interface{ String() string }

type (
	FConst bool
	FAtom  struct{ A Atom }
	FNot   struct{ X Formula }
	FAnd   struct{ A, B Formula }
	FOr    struct{ A, B Formula }
)

func (f FConst) String() string {
	if f {
		return "true"
	}
	return "false"
}
func (f FAtom) String() string {
	switch f.A.Kind {
	case "found":
		n := "?"
		if f.A.Map != nil {
			n = f.A.Map.Name()
		}
		return "recv∈" + n
	case "eq":
		if f.A.K != nil {
			return "recv==" + hex(f.A.K)
		}
	}
	return "‹" + f.A.Text + "›"
}
func (f FNot) String() string { return "¬" + f.X.String() }
func (f FAnd) String() string { return "(" + f.A.String() + " ∧ " + f.B.String() + ")" }
func (f FOr) String() string  { return "(" + f.A.String() + " ∨ " + f.B.String() + ")" }

// Not, And, Or build formulas with the constant cases folded.
func Not(f Formula) Formula {
	switch f := f.(type) {
	case FConst:
		return FConst(!bool(f))
	case FNot:
		return f.X
	}
	return FNot{f}
}

func And(a, b Formula) Formula {
	if c, ok := a.(FConst); ok {
		if c {
			return b
		}
		return FConst(false)
	}
	if c, ok := b.(FConst); ok {
		if c {
			return a
		}
		return FConst(false)
	}
	return FAnd{a, b}
}

func Or(a, b Formula) Formula {
	if c, ok := a.(FConst); ok {
		if c {
			return FConst(true)
		}
		return b
	}
	if c, ok := b.(FConst); ok {
		if c {
			return FConst(true)
		}
		return a
	}
	return FOr{a, b}
}

// atomKey identifies the propositional variable an atom stands for. Two
// "unknown" atoms are the same variable only when they are the same syntactic
// occurrence (a condition evaluated once and seen from both of its branches).
func atomKey(a Atom) string {
	switch a.Kind {
	case "found":
		if a.Map != nil {
			return "found:" + a.Map.Pkg().Path() + "." + a.Map.Name()
		}
		return "found:?"
	case "eq":
		if a.K != nil {
			return "eq:" + a.K.ExactString()
		}
	case "cmp":
		if a.K != nil {
			return "cmp:" + a.Op.String() + ":" + a.K.ExactString()
		}
	}
	return "unknown:" + a.Text + "@" + itoa(int(a.Pos))
}

func itoa(n int) string {
	if n == 0 {
		return "0"
	}
	neg := n < 0
	if neg {
		n = -n
	}
	var b []byte
	for n > 0 {
		b = append([]byte{byte('0' + n%10)}, b...)
		n /= 10
	}
	if neg {
		b = append([]byte{'-'}, b...)
	}
	return string(b)
}

func collectAtoms(f Formula, out map[string]Atom) {
	switch f := f.(type) {
	case FAtom:
		out[atomKey(f.A)] = f.A
	case FNot:
		collectAtoms(f.X, out)
	case FAnd:
		collectAtoms(f.A, out)
		collectAtoms(f.B, out)
	case FOr:
		collectAtoms(f.A, out)
		collectAtoms(f.B, out)
	}
}

// Atoms returns the distinct atoms of f.
func Atoms(f Formula) []Atom {
	m := map[string]Atom{}
	collectAtoms(f, m)
	var keys []string
	for k := range m {
		keys = append(keys, k)
	}
	sort.Strings(keys)
	var out []Atom
	for _, k := range keys {
		out = append(out, m[k])
	}
	return out
}

// Mentions reports whether f contains an atom of the given kind.
func Mentions(f Formula, kind string) bool {
	for _, a := range Atoms(f) {
		if a.Kind == kind {
			return true
		}
	}
	return false
}

func evalFormula(f Formula, val map[string]bool) bool {
	switch f := f.(type) {
	case FConst:
		return bool(f)
	case FAtom:
		return val[atomKey(f.A)]
	case FNot:
		return !evalFormula(f.X, val)
	case FAnd:
		return evalFormula(f.A, val) && evalFormula(f.B, val)
	case FOr:
		return evalFormula(f.A, val) || evalFormula(f.B, val)
	}
	return false
}

// Assume fixes the truth value of an atom: FoundIn(m, true), RecvIs(k, false).
type Assume struct {
	Atom Atom
	Val  bool
}

// Verdict of a reachability question.
type Verdict int

const (
	No    Verdict = iota // unsatisfiable whatever the uninterpreted conditions evaluate to
	Yes                  // satisfiable by the interpreted atoms alone
	Maybe                // satisfiable only for some value of a condition the analysis cannot interpret
)

func (v Verdict) String() string { return [...]string{"no", "yes", "maybe"}[v] }

// Sat decides whether f can hold under the assumptions. The interpreted atoms
// are "found" (the receiver is a key of a table) and "eq" (the receiver equals
// a constant; two different constants exclude each other). Every other atom is
// an uninterpreted condition. Yes: some choice of the interpreted atoms makes f
// hold whatever the uninterpreted ones evaluate to. Maybe: f can hold, but only
// with the help of an uninterpreted atom. No: f cannot hold at all.
func Sat(f Formula, assume ...Assume) Verdict {
	am := map[string]Atom{}
	collectAtoms(f, am)
	fixed := map[string]bool{}
	var fixedEqTrue []Atom
	for _, a := range assume {
		fixed[atomKey(a.Atom)] = a.Val
		if a.Atom.Kind == "eq" && a.Val {
			fixedEqTrue = append(fixedEqTrue, a.Atom)
		}
	}
	var known, unknown []string
	for k, a := range am {
		if _, ok := fixed[k]; ok {
			continue
		}
		if a.Kind == "unknown" || a.Kind == "cmp" {
			unknown = append(unknown, k) // an ordering atom is only interpreted when the caller fixes it

		} else {
			known = append(known, k)
		}
	}
	sort.Strings(known)
	sort.Strings(unknown)
	if len(known)+len(unknown) > 18 {
		return Maybe
	}
	consistent := func(val map[string]bool) bool {
		// at most one `recv == K` holds
		var trueEq []Atom
		trueEq = append(trueEq, fixedEqTrue...)
		for k, a := range am {
			if a.Kind == "eq" && val[k] {
				dup := false
				for _, t := range trueEq {
					if atomKey(t) == k {
						dup = true
					}
				}
				if !dup {
					trueEq = append(trueEq, a)
				}
			}
		}
		return len(trueEq) <= 1
	}
	res := No
	val := map[string]bool{}
	for k, v := range fixed {
		val[k] = v
	}
	for i := 0; i < 1<<len(known); i++ {
		for j, k := range known {
			val[k] = i&(1<<j) != 0
		}
		if !consistent(val) {
			continue
		}
		all, any := true, false
		for u := 0; u < 1<<len(unknown); u++ {
			for j, k := range unknown {
				val[k] = u&(1<<j) != 0
			}
			if evalFormula(f, val) {
				any = true
			} else {
				all = false
			}
		}
		if all {
			return Yes
		}
		if any {
			res = Maybe
		}
	}
	return res
}

// ForValue fixes every atom of f that speaks about the receiver's value for the
// concrete value k: `recv == K` and `recv ⋈ K` are evaluated; "found" atoms are
// fixed through isKey (nil: left open). What stays open are "unknown" atoms.
func ForValue(f Formula, k constant.Value, isKey func(m *types.Var) (bool, bool)) []Assume {
	var out []Assume
	for _, a := range Atoms(f) {
		switch a.Kind {
		case "eq":
			out = append(out, Assume{Atom: a, Val: constant.Compare(k, token.EQL, a.K)})
		case "cmp":
			out = append(out, Assume{Atom: a, Val: constant.Compare(k, a.Op, a.K)})
		case "found":
			if isKey != nil {
				if v, ok := isKey(a.Map); ok {
					out = append(out, Assume{Atom: a, Val: v})
				}
			}
		}
	}
	return out
}

// FoundIn is the atom "the receiver is a key of m".
func FoundIn(m *types.Var) Atom { return Atom{Kind: "found", Map: m} }

// RecvIs is the atom "the receiver equals the constant k".
func RecvIs(k constant.Value) Atom { return Atom{Kind: "eq", K: constant.ToInt(k)} }
