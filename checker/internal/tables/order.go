package tables

import (
	"fmt"
	"go/ast"
	"go/token"
	"go/types"
)

// ---------------------------------------------------------------- map iteration order

// MapOrderSite is a statement that fills variables in the iteration order of a
// map: a `range` over the map, a `range` over maps.Keys / Values / All of it,
// `v := slices.Collect(maps.Keys(m))`, or (Call set) `v := f(…)` for a function
// that returns a slice it filled in map order.
type MapOrderSite struct {
	Stmt  ast.Stmt
	Range *ast.RangeStmt // loop forms
	X     ast.Expr       // the map operand (nil for the Call form)
	Call  *ast.CallExpr  // Call form: the call whose result is map-ordered
	Vars  []types.Object // assignment forms: the variables that receive the sequence
}

// mapOperand returns m when e is maps.Keys(m) / maps.Values(m) / maps.All(m).
func mapOperand(info *types.Info, e ast.Expr) ast.Expr {
	call, ok := ast.Unparen(e).(*ast.CallExpr)
	if !ok || len(call.Args) != 1 {
		return nil
	}
	fun := call.Fun
	if ix, ok := ast.Unparen(fun).(*ast.IndexExpr); ok {
		fun = ix.X
	}
	if ix, ok := ast.Unparen(fun).(*ast.IndexListExpr); ok {
		fun = ix.X
	}
	if !IsPkgFunc(StaticCallee(info, &ast.CallExpr{Fun: fun}), "maps", "Keys", "Values", "All") {
		return nil
	}
	if tv, ok := info.Types[call.Args[0]]; ok && tv.Type != nil {
		if _, isMap := tv.Type.Underlying().(*types.Map); isMap {
			return call.Args[0]
		}
	}
	return nil
}

// collectedMap returns m when e is slices.Collect(maps.Keys|Values(m)) or
// slices.AppendSeq(s, maps.Keys|Values(m)).
func collectedMap(info *types.Info, e ast.Expr) ast.Expr {
	call, ok := ast.Unparen(e).(*ast.CallExpr)
	if !ok {
		return nil
	}
	fun := call.Fun
	if ix, ok := ast.Unparen(fun).(*ast.IndexExpr); ok {
		fun = ix.X
	}
	fn := StaticCallee(info, &ast.CallExpr{Fun: fun})
	switch {
	case IsPkgFunc(fn, "slices", "Collect") && len(call.Args) == 1:
		return mapOperand(info, call.Args[0])
	case IsPkgFunc(fn, "slices", "AppendSeq") && len(call.Args) == 2:
		return mapOperand(info, call.Args[1])
	}
	return nil
}

// MapOrderSites lists the statements of body that fill variables in map order.
func MapOrderSites(info *types.Info, body ast.Node) []*MapOrderSite {
	var out []*MapOrderSite
	lhsVars := func(lhs []ast.Expr) []types.Object {
		var vs []types.Object
		for _, l := range lhs {
			if id, ok := ast.Unparen(l).(*ast.Ident); ok && id.Name != "_" {
				o := info.Defs[id]
				if o == nil {
					o = info.Uses[id]
				}
				if o != nil {
					vs = append(vs, o)
				}
			}
		}
		return vs
	}
	ast.Inspect(body, func(n ast.Node) bool {
		switch n := n.(type) {
		case *ast.RangeStmt:
			if tv, ok := info.Types[n.X]; ok && tv.Type != nil {
				if _, ok := tv.Type.Underlying().(*types.Map); ok {
					out = append(out, &MapOrderSite{Stmt: n, Range: n, X: n.X})
					return true
				}
			}
			if m := mapOperand(info, n.X); m != nil {
				out = append(out, &MapOrderSite{Stmt: n, Range: n, X: m})
			}
		case *ast.AssignStmt:
			if len(n.Rhs) == 1 && len(n.Lhs) == 1 {
				if m := collectedMap(info, n.Rhs[0]); m != nil {
					out = append(out, &MapOrderSite{Stmt: n, X: m, Vars: lhsVars(n.Lhs)})
				}
			}
		case *ast.DeclStmt:
			if gd, ok := n.Decl.(*ast.GenDecl); ok && gd.Tok == token.VAR {
				for _, sp := range gd.Specs {
					if vs, ok := sp.(*ast.ValueSpec); ok && len(vs.Names) == 1 && len(vs.Values) == 1 {
						if m := collectedMap(info, vs.Values[0]); m != nil {
							if o := info.Defs[vs.Names[0]]; o != nil {
								out = append(out, &MapOrderSite{Stmt: n, X: m, Vars: []types.Object{o}})
							}
						}
					}
				}
			}
		}
		return true
	})
	return out
}

// stmtPath returns, outermost first, the statement lists that lead from body to
// target together with the index of the element that contains (or is) target,
// and the statements that enclose target on the way.
type listAt struct {
	list []ast.Stmt
	at   int
}

func stmtPath(body *ast.BlockStmt, target ast.Stmt) (path []listAt, enclosing []ast.Stmt, found bool) {
	var search func(list []ast.Stmt) bool
	search = func(list []ast.Stmt) bool {
		for i, st := range list {
			if st == target {
				path = append(path, listAt{list, i})
				return true
			}
			if st.Pos() > target.Pos() || target.End() > st.End() {
				continue
			}
			hit := false
			ast.Inspect(st, func(n ast.Node) bool {
				if hit || n == nil {
					return false
				}
				if n == ast.Node(st) {
					return true
				}
				switch n := n.(type) {
				case *ast.FuncLit:
					return false
				case *ast.BlockStmt:
					if search(n.List) {
						hit = true
					}
					return false
				case *ast.CaseClause:
					if search(n.Body) {
						hit = true
					}
					return false
				case *ast.CommClause:
					if search(n.Body) {
						hit = true
					}
					return false
				}
				return true
			})
			if hit {
				path = append(path, listAt{list, i})
				enclosing = append(enclosing, st)
				return true
			}
		}
		return false
	}
	found = search(body.List)
	// search appended innermost first: reverse
	for i, j := 0, len(path)-1; i < j; i, j = i+1, j-1 {
		path[i], path[j] = path[j], path[i]
	}
	return path, enclosing, found
}

// OrderAfter decides that the map order a site introduces cannot reach the
// function's result: every variable it fills is handed to sort.* / slices.Sort*
// (with a total order) before any other use. status: "ok"; "fail" (an
// order-dependent use was found); "returned" (the first use is `return v`:
// the function hands the unsorted slice to its callers — ret is v); "undecided".
func OrderAfter(info *types.Info, body *ast.BlockStmt, site *MapOrderSite) (status, reason string, ret types.Object) {
	path, enclosing, ok := stmtPath(body, site.Stmt)
	if !ok {
		return "undecided", "the map iteration is not a statement of the function body (a function literal?)", nil
	}
	for _, e := range enclosing {
		switch e.(type) {
		case *ast.ForStmt, *ast.RangeStmt:
			return "undecided", "the map iteration is nested inside another loop", nil
		}
	}
	tainted := map[types.Object]bool{}
	for _, v := range site.Vars {
		tainted[v] = true
	}
	if rs := site.Range; rs != nil {
		why := ""
		ast.Inspect(rs.Body, func(n ast.Node) bool {
			switch n := n.(type) {
			case *ast.ReturnStmt:
				for _, r := range n.Results {
					if tv, ok := info.Types[r]; !ok || tv.Value == nil {
						why = "returns a non-constant from inside the map iteration"
					}
				}
			case *ast.AssignStmt:
				for _, l := range n.Lhs {
					id, ok := ast.Unparen(l).(*ast.Ident)
					if !ok {
						why = "the loop body writes through " + types.ExprString(l)
						continue
					}
					if id.Name == "_" {
						continue
					}
					if o := info.Uses[id]; o != nil && (o.Pos() < rs.Pos() || o.Pos() > rs.End()) {
						tainted[o] = true
					}
				}
			case *ast.IncDecStmt:
				why = "the loop body counts with " + types.ExprString(n.X)
			case *ast.BranchStmt:
				if n.Tok == token.BREAK || n.Tok == token.GOTO {
					why = "the loop is left early (" + n.Tok.String() + ")"
				}
			}
			return true
		})
		if why != "" {
			return "undecided", why, nil
		}
	}
	sorted := map[types.Object]bool{}
	// innermost list first, then what follows the enclosing statements
	for lvl := len(path) - 1; lvl >= 0; lvl-- {
		for _, st := range path[lvl].list[path[lvl].at+1:] {
			if es, ok := st.(*ast.ExprStmt); ok {
				if call, ok := es.X.(*ast.CallExpr); ok && len(call.Args) >= 1 {
					if fn := StaticCallee(info, call); isSortFunc(fn) {
						a := ast.Unparen(call.Args[0])
						if c, ok := a.(*ast.CallExpr); ok && len(c.Args) == 1 { // sort.Sort(sort.StringSlice(v))
							if tv, ok := info.Types[c.Fun]; ok && tv.IsType() {
								a = ast.Unparen(c.Args[0])
							}
						}
						if id, ok := a.(*ast.Ident); ok {
							if o := info.Uses[id]; o != nil && tainted[o] && !sorted[o] {
								switch fn.Name() {
								case "Slice", "SliceStable":
									fl, ok := ast.Unparen(call.Args[1]).(*ast.FuncLit)
									if fn.Pkg().Path() != "sort" || !ok || !totalLess(info, fl, o) {
										return "undecided", "cannot decide that the comparison passed to " + fn.FullName() + " is a total order on the elements", nil
									}
								case "SortFunc", "SortStableFunc":
									if len(call.Args) != 2 || !totalCompare(info, call.Args[1]) {
										return "undecided", "cannot decide that the comparison passed to " + fn.FullName() + " is a total order on the elements", nil
									}
								}
								sorted[o] = true
								continue
							}
						}
					}
				}
			}
			for o := range tainted {
				if sorted[o] || !mentions(info, st, o) {
					continue
				}
				// alias: w := v / w = v
				if as, ok := st.(*ast.AssignStmt); ok && len(as.Lhs) == 1 && len(as.Rhs) == 1 {
					if rid, ok := ast.Unparen(as.Rhs[0]).(*ast.Ident); ok && info.Uses[rid] == o {
						if lid, ok := ast.Unparen(as.Lhs[0]).(*ast.Ident); ok {
							lo := info.Defs[lid]
							if lo == nil {
								lo = info.Uses[lid]
							}
							if lo != nil {
								tainted[lo] = true
								continue
							}
						}
					}
				}
				msg := fmt.Sprintf("%s is filled in map-iteration order and is used by `%s` before any sort.* call on it", o.Name(), stmtString(st))
				if rs, ok := st.(*ast.ReturnStmt); ok && len(rs.Results) == 1 {
					if id, ok := ast.Unparen(rs.Results[0]).(*ast.Ident); ok && info.Uses[id] == o {
						return "returned", msg, o
					}
				}
				return "fail", msg, nil
			}
		}
	}
	return "ok", "", nil
}
