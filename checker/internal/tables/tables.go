// Package tables is engine E3: constant families, map-literal tables and the
// symbolic recognition of bit tests, all resolved through go/types (constant
// values via types.Const.Val() / TypesInfo.Types[e].Value, object identity via
// TypesInfo.Uses/Defs) — never through source text or line numbers.
package tables

import (
	"fmt"
	"go/ast"
	"go/constant"
	"go/token"
	"go/types"
	"sort"
	"strings"

	"golang.org/x/tools/go/packages"
)

// ---------------------------------------------------------------- index

// Index gives declaration-level access to one package.
type Index struct {
	Pk        *packages.Package
	constDecl map[types.Object]*ast.GenDecl
	varInit   map[types.Object]ast.Expr
	funcDecl  map[types.Object]*ast.FuncDecl
	declConst map[*ast.GenDecl][]*types.Const
}

func NewIndex(pk *packages.Package) *Index {
	ix := &Index{Pk: pk, constDecl: map[types.Object]*ast.GenDecl{}, varInit: map[types.Object]ast.Expr{},
		funcDecl: map[types.Object]*ast.FuncDecl{}, declConst: map[*ast.GenDecl][]*types.Const{}}
	for _, f := range pk.Syntax {
		for _, d := range f.Decls {
			switch d := d.(type) {
			case *ast.FuncDecl:
				if o := pk.TypesInfo.Defs[d.Name]; o != nil {
					ix.funcDecl[o] = d
				}
			case *ast.GenDecl:
				for _, sp := range d.Specs {
					vs, ok := sp.(*ast.ValueSpec)
					if !ok {
						continue
					}
					for i, n := range vs.Names {
						o := pk.TypesInfo.Defs[n]
						if o == nil {
							continue
						}
						switch d.Tok {
						case token.CONST:
							ix.constDecl[o] = d
							if c, ok := o.(*types.Const); ok {
								ix.declConst[d] = append(ix.declConst[d], c)
							}
						case token.VAR:
							if len(vs.Values) == len(vs.Names) {
								ix.varInit[o] = vs.Values[i]
							}
						}
					}
				}
			}
		}
	}
	return ix
}

func (ix *Index) VarInit(o types.Object) ast.Expr       { return ix.varInit[o] }
func (ix *Index) FuncDecl(o types.Object) *ast.FuncDecl { return ix.funcDecl[o] }
func (ix *Index) Info() *types.Info                     { return ix.Pk.TypesInfo }
func (ix *Index) Lookup(name string) types.Object       { return ix.Pk.Types.Scope().Lookup(name) }

// Method resolves the declared method name on the package-level type typeName
// (value or pointer receiver).
func (ix *Index) Method(typeName, name string) (*types.Func, *ast.FuncDecl) {
	tn, _ := ix.Lookup(typeName).(*types.TypeName)
	if tn == nil {
		return nil, nil
	}
	named, _ := tn.Type().(*types.Named)
	if named == nil {
		return nil, nil
	}
	for i := 0; i < named.NumMethods(); i++ {
		m := named.Method(i)
		if m.Name() == name {
			return m, ix.funcDecl[m]
		}
	}
	return nil, nil
}

// Methods lists the declared methods of typeName in source order.
func (ix *Index) Methods(typeName string) []*types.Func {
	tn, _ := ix.Lookup(typeName).(*types.TypeName)
	if tn == nil {
		return nil
	}
	named, _ := tn.Type().(*types.Named)
	if named == nil {
		return nil
	}
	var out []*types.Func
	for i := 0; i < named.NumMethods(); i++ {
		out = append(out, named.Method(i))
	}
	sort.Slice(out, func(i, j int) bool { return out[i].Pos() < out[j].Pos() })
	return out
}

// ---------------------------------------------------------------- constants

type Const struct {
	Obj  *types.Const
	Name string
	Val  constant.Value
	Key  string // exact decimal rendering of the integer value
	Pos  token.Pos
}

// IntKey renders an integer constant value canonically.
func IntKey(v constant.Value) (string, bool) {
	if v == nil {
		return "", false
	}
	iv := constant.ToInt(v)
	if iv.Kind() != constant.Int {
		return "", false
	}
	return iv.ExactString(), true
}

func mkConst(c *types.Const) *Const {
	k, ok := IntKey(c.Val())
	if !ok {
		return nil
	}
	return &Const{Obj: c, Name: c.Name(), Val: constant.ToInt(c.Val()), Key: k, Pos: c.Pos()}
}

func (ix *Index) pkgConsts() []*types.Const {
	var out []*types.Const
	sc := ix.Pk.Types.Scope()
	for _, n := range sc.Names() {
		if c, ok := sc.Lookup(n).(*types.Const); ok {
			out = append(out, c)
		}
	}
	sort.Slice(out, func(i, j int) bool { return out[i].Pos() < out[j].Pos() })
	return out
}

// Family returns the integer constants that belong to an enumeration or flag
// family: every package-level constant whose type is the named type typeName
// (if given), every package-level constant whose identifier starts with prefix
// (if given), and every integer constant declared in the same const block as
// one of those.
func (ix *Index) Family(typeName, prefix string) ([]*Const, error) {
	var T types.Type
	if typeName != "" {
		tn, _ := ix.Lookup(typeName).(*types.TypeName)
		if tn == nil {
			return nil, fmt.Errorf("type %s.%s does not resolve", ix.Pk.PkgPath, typeName)
		}
		T = tn.Type()
	}
	seen := map[*types.Const]bool{}
	decls := map[*ast.GenDecl]bool{}
	for _, c := range ix.pkgConsts() {
		hit := false
		if T != nil && types.Identical(c.Type(), T) {
			hit = true
		}
		if prefix != "" && strings.HasPrefix(c.Name(), prefix) {
			hit = true
		}
		if hit {
			seen[c] = true
			if d := ix.constDecl[c]; d != nil {
				decls[d] = true
			}
		}
	}
	for d := range decls {
		for _, c := range ix.declConst[d] {
			if _, ok := IntKey(c.Val()); ok {
				seen[c] = true
			}
		}
	}
	var out []*Const
	for c := range seen {
		if k := mkConst(c); k != nil {
			out = append(out, k)
		}
	}
	sort.Slice(out, func(i, j int) bool { return out[i].Pos < out[j].Pos })
	if len(out) == 0 {
		return nil, fmt.Errorf("no constants found for family type=%q prefix=%q in %s", typeName, prefix, ix.Pk.PkgPath)
	}
	return out, nil
}

// UnionOf reports that the constant c is declared as a combination `A | B | …`
// of two or more other constants (a named mask built from flags, not a flag of
// its own) and returns their names.
func (ix *Index) UnionOf(c *types.Const) ([]string, bool) {
	d := ix.constDecl[c]
	if d == nil {
		return nil, false
	}
	var expr ast.Expr
	for _, sp := range d.Specs {
		vs, ok := sp.(*ast.ValueSpec)
		if !ok {
			continue
		}
		for i, n := range vs.Names {
			if ix.Pk.TypesInfo.Defs[n] == types.Object(c) && i < len(vs.Values) {
				expr = vs.Values[i]
			}
		}
	}
	if expr == nil {
		return nil, false
	}
	var names []string
	ok := true
	var walk func(e ast.Expr)
	walk = func(e ast.Expr) {
		e = ast.Unparen(e)
		switch e := e.(type) {
		case *ast.BinaryExpr:
			if e.Op != token.OR {
				ok = false
				return
			}
			walk(e.X)
			walk(e.Y)
		case *ast.Ident:
			if k, isConst := ix.Pk.TypesInfo.Uses[e].(*types.Const); isConst && k != c {
				names = append(names, k.Name())
			} else {
				ok = false
			}
		case *ast.SelectorExpr:
			if k, isConst := ix.Pk.TypesInfo.Uses[e.Sel].(*types.Const); isConst {
				names = append(names, k.Name())
			} else {
				ok = false
			}
		default:
			ok = false
		}
	}
	walk(expr)
	if !ok || len(names) < 2 {
		return nil, false
	}
	return names, true
}

// SingleBit reports whether v is a power of two (exactly one bit set).
func SingleBit(v constant.Value) bool {
	if constant.Sign(v) <= 0 {
		return false
	}
	one := constant.MakeInt64(1)
	m := constant.BinaryOp(v, token.AND, constant.BinaryOp(v, token.SUB, one))
	return constant.Sign(m) == 0
}

// CommonPrefix is the longest common prefix of the identifiers, cut back to
// the last underscore.
func CommonPrefix(cs []*Const) string {
	if len(cs) == 0 {
		return ""
	}
	p := cs[0].Name
	for _, c := range cs[1:] {
		for !strings.HasPrefix(c.Name, p) {
			p = p[:len(p)-1]
		}
	}
	if i := strings.LastIndex(p, "_"); i >= 0 {
		return p[:i+1]
	}
	return ""
}

// Norm lower-cases and keeps letters and digits only: the spelling-insensitive
// form under which a display name is compared with an identifier.
func Norm(s string) string {
	var b strings.Builder
	for _, r := range strings.ToLower(s) {
		if (r >= 'a' && r <= 'z') || (r >= '0' && r <= '9') {
			b.WriteRune(r)
		}
	}
	return b.String()
}

// OwnerOfName returns the family constants (other than those with value key
// selfKey) whose identifier — whole, or minus the family prefix — is the name
// under Norm. A display name that "belongs" to another constant is cross-wired.
func OwnerOfName(fam []*Const, prefix, name, selfKey string) []*Const {
	n := Norm(name)
	if n == "" {
		return nil
	}
	// the name agrees with one of its own identifiers: not cross-wired
	for _, c := range fam {
		if c.Key == selfKey && (Norm(c.Name) == n || Norm(strings.TrimPrefix(c.Name, prefix)) == n) {
			return nil
		}
	}
	var out []*Const
	for _, c := range fam {
		if c.Key == selfKey {
			continue
		}
		if Norm(c.Name) == n || Norm(strings.TrimPrefix(c.Name, prefix)) == n {
			out = append(out, c)
		}
	}
	return out
}

// ---------------------------------------------------------------- map tables

type Row struct {
	KeyExpr ast.Expr
	ValExpr ast.Expr
	Key     string // IntKey of the key, "" when the key is not an integer constant
	KeyText string // rendering of the key expression (diagnostics / construct)
}

type MapTable struct {
	Var  *types.Var
	Name string
	Lit  *ast.CompositeLit
	Rows []*Row
	Pos  token.Pos
}

// MapTable resolves the package-level variable name and returns the rows of
// the map composite literal it is initialised with.
func (ix *Index) MapTable(name string) (*MapTable, error) {
	v, _ := ix.Lookup(name).(*types.Var)
	if v == nil {
		return nil, fmt.Errorf("variable %s.%s does not resolve", ix.Pk.PkgPath, name)
	}
	if _, ok := v.Type().Underlying().(*types.Map); !ok {
		return nil, fmt.Errorf("%s.%s is not a map", ix.Pk.PkgPath, name)
	}
	init := ix.varInit[v]
	lit, _ := ast.Unparen(init).(*ast.CompositeLit)
	if lit == nil {
		return nil, fmt.Errorf("%s.%s is not initialised with a composite literal", ix.Pk.PkgPath, name)
	}
	mt := &MapTable{Var: v, Name: name, Lit: lit, Pos: v.Pos()}
	for _, el := range lit.Elts {
		kv, ok := el.(*ast.KeyValueExpr)
		if !ok {
			return nil, fmt.Errorf("%s.%s: element without key", ix.Pk.PkgPath, name)
		}
		r := &Row{KeyExpr: kv.Key, ValExpr: kv.Value, KeyText: types.ExprString(kv.Key)}
		if tv, ok := ix.Pk.TypesInfo.Types[kv.Key]; ok && tv.Value != nil {
			r.Key, _ = IntKey(tv.Value)
		}
		mt.Rows = append(mt.Rows, r)
	}
	return mt, nil
}

// StringConst returns the constant string value of e, if it has one.
func StringConst(info *types.Info, e ast.Expr) (string, bool) {
	tv, ok := info.Types[e]
	if !ok || tv.Value == nil || tv.Value.Kind() != constant.String {
		return "", false
	}
	return constant.StringVal(tv.Value), true
}

// StaticCallee resolves the function or method a call expression invokes
// (nil for builtins, conversions, function values).
func StaticCallee(info *types.Info, call *ast.CallExpr) *types.Func {
	var id *ast.Ident
	switch f := ast.Unparen(call.Fun).(type) {
	case *ast.Ident:
		id = f
	case *ast.SelectorExpr:
		id = f.Sel
	}
	if id == nil {
		return nil
	}
	fn, _ := info.Uses[id].(*types.Func)
	return fn
}

func IsPkgFunc(fn *types.Func, pkg string, names ...string) bool {
	if fn == nil || fn.Pkg() == nil || fn.Pkg().Path() != pkg {
		return false
	}
	if sig, ok := fn.Type().(*types.Signature); ok && sig.Recv() != nil {
		return false
	}
	for _, n := range names {
		if fn.Name() == n {
			return true
		}
	}
	return false
}

func isBuiltin(info *types.Info, call *ast.CallExpr, name string) bool {
	id, ok := ast.Unparen(call.Fun).(*ast.Ident)
	if !ok {
		return false
	}
	b, ok := info.Uses[id].(*types.Builtin)
	return ok && b.Name() == name
}

// ---------------------------------------------------------------- format verbs

type Verb struct {
	Arg   int // index into the operand list (0-based), -1 if none
	Verb  rune
	Flags string
}

// ParseFormat returns the verbs of a fmt format string together with the
// operand each one consumes.
func ParseFormat(f string) []Verb {
	var out []Verb
	arg := 0
	rs := []rune(f)
	for i := 0; i < len(rs); i++ {
		if rs[i] != '%' {
			continue
		}
		i++
		start := i
		for i < len(rs) && strings.ContainsRune("+-# 0", rs[i]) {
			i++
		}
		explicit := func() {
			if i < len(rs) && rs[i] == '[' {
				j := i + 1
				n := 0
				for j < len(rs) && rs[j] >= '0' && rs[j] <= '9' {
					n = n*10 + int(rs[j]-'0')
					j++
				}
				if j < len(rs) && rs[j] == ']' {
					arg = n - 1
					i = j + 1
				}
			}
		}
		num := func() {
			explicit()
			if i < len(rs) && rs[i] == '*' {
				arg++
				i++
				return
			}
			for i < len(rs) && rs[i] >= '0' && rs[i] <= '9' {
				i++
			}
		}
		num()
		if i < len(rs) && rs[i] == '.' {
			i++
			num()
		}
		explicit()
		if i >= len(rs) {
			break
		}
		if rs[i] == '%' {
			continue
		}
		out = append(out, Verb{Arg: arg, Verb: rs[i], Flags: string(rs[start:i])})
		arg++
	}
	return out
}

// HasStringMethod reports whether fmt would divert a string-accepting verb
// (%v %s %x %X %q) to a method of t instead of printing the number.
func HasStringMethod(t types.Type) bool {
	for _, tt := range []types.Type{t, types.NewPointer(t)} {
		ms := types.NewMethodSet(tt)
		for i := 0; i < ms.Len(); i++ {
			m := ms.At(i).Obj()
			sig, ok := m.Type().(*types.Signature)
			if !ok {
				continue
			}
			switch m.Name() {
			case "Format", "GoString":
				return true
			case "String", "Error":
				if sig.Params().Len() == 0 && sig.Results().Len() == 1 {
					if b, ok := sig.Results().At(0).Type().Underlying().(*types.Basic); ok && b.Info()&types.IsString != 0 {
						return true
					}
				}
			}
		}
	}
	return false
}
