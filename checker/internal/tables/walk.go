package tables

import (
	"fmt"
	"go/ast"
	"go/constant"
	"go/token"
	"go/types"
	"strconv"
)

// ---------------------------------------------------------------- loops driven by the word itself
//
// Two loop shapes do not iterate a constant table but the flag word:
//
//   for r := word; r != 0; r &= r - 1 { b := r & -r; … }          (set-bit walk)
//   for _, f := range word.GetFlags() { … }                        (over another decomposer)
//   for b := range word.setBits() { … }                            (over an iterator of the word)
//
// Both are equivalent to one `if word & bit != 0 { body }` per bit, in a fixed
// order, with the loop variables bound to constants. They are unrolled into
// iterations that carry that implicit test.

// wordWidth decides that e is the flag word seen through unsigned integer
// conversions (and once-defined locals) and returns the number of low bits of
// the word that survive them.
func (ev *Evaluator) wordWidth(e ast.Expr, depth int) (int, bool) {
	e = ast.Unparen(e)
	if depth > 6 {
		return 0, false
	}
	if call, ok := e.(*ast.CallExpr); ok && len(call.Args) == 1 {
		tv, ok := ev.Info.Types[call.Fun]
		if !ok || !tv.IsType() {
			return 0, false
		}
		w, unsigned := intWidth(tv.Type)
		if w == 0 || !unsigned {
			return 0, false
		}
		in, ok := ev.wordWidth(call.Args[0], depth+1)
		if !ok {
			return 0, false
		}
		return min(w, in), true
	}
	typeWidth := func() (int, bool) {
		tv, ok := ev.Info.Types[e]
		if !ok || tv.Type == nil {
			return 0, false
		}
		w, unsigned := intWidth(tv.Type)
		return w, unsigned && w > 0
	}
	if id, ok := e.(*ast.Ident); ok {
		o := ev.Info.Uses[id]
		if s, bound := ev.Env[o]; bound && o != nil {
			if _, isWord := s.(SWord); isWord {
				return typeWidth()
			}
			return 0, false
		}
		if ev.IsWord != nil && ev.IsWord(e) {
			return typeWidth()
		}
		if rhs, ok := ev.Defs[o]; ok {
			return ev.wordWidth(rhs, depth+1)
		}
		return 0, false
	}
	if ev.IsWord != nil && ev.IsWord(e) {
		return typeWidth()
	}
	return 0, false
}

// stmtLists calls f for every statement list inside n (blocks, case bodies).
func stmtLists(n ast.Node, f func(list []ast.Stmt)) {
	ast.Inspect(n, func(x ast.Node) bool {
		switch x := x.(type) {
		case *ast.BlockStmt:
			f(x.List)
		case *ast.CaseClause:
			f(x.Body)
		case *ast.CommClause:
			f(x.Body)
		}
		return true
	})
}

// defBefore finds `v := e` / `var v = e` among the statements that precede s
// in the statement list s belongs to, provided v is not assigned anywhere else
// outside s.
func (ev *Evaluator) defBefore(v types.Object, s ast.Stmt) ast.Expr {
	if ev.root == nil || v == nil {
		return nil
	}
	var def ast.Stmt
	var init ast.Expr
	stmtLists(ev.root, func(list []ast.Stmt) {
		at := -1
		for i, st := range list {
			if st == s {
				at = i
			}
		}
		for _, st := range list[:max(at, 0)] {
			switch st := st.(type) {
			case *ast.AssignStmt:
				if st.Tok == token.DEFINE && len(st.Lhs) == len(st.Rhs) {
					for i, l := range st.Lhs {
						if id, ok := l.(*ast.Ident); ok && ev.Info.Defs[id] == v {
							def, init = st, st.Rhs[i]
						}
					}
				}
			case *ast.DeclStmt:
				if gd, ok := st.Decl.(*ast.GenDecl); ok && gd.Tok == token.VAR {
					for _, sp := range gd.Specs {
						if vs, ok := sp.(*ast.ValueSpec); ok && len(vs.Names) == len(vs.Values) {
							for i, n := range vs.Names {
								if ev.Info.Defs[n] == v {
									def, init = st, vs.Values[i]
								}
							}
						}
					}
				}
			}
		}
	})
	if def == nil {
		return nil
	}
	// no other write outside the loop
	other := false
	ast.Inspect(ev.root, func(x ast.Node) bool {
		if x == ast.Node(s) {
			return false
		}
		switch x := x.(type) {
		case *ast.AssignStmt:
			if x.Tok == token.DEFINE {
				return true
			}
			for _, l := range x.Lhs {
				if id := rootIdent(l); id != nil && ev.Info.Uses[id] == v {
					other = true
				}
			}
		case *ast.IncDecStmt:
			if id := rootIdent(x.X); id != nil && ev.Info.Uses[id] == v {
				other = true
			}
		case *ast.UnaryExpr:
			if id := rootIdent(x.X); x.Op == token.AND && id != nil && ev.Info.Uses[id] == v {
				other = true
			}
		case *ast.RangeStmt:
			for _, e := range []ast.Expr{x.Key, x.Value} {
				if id, ok := e.(*ast.Ident); ok && x.Tok == token.ASSIGN && ev.Info.Uses[id] == v {
					other = true
				}
			}
		}
		return !other
	})
	if other {
		return nil
	}
	return init
}

// onlyWrittenIn: every write of v inside the interpreted function lies inside s.
func (ev *Evaluator) onlyWrittenIn(v types.Object, s ast.Stmt) bool {
	if ev.root == nil || v == nil {
		return false
	}
	ok := true
	ast.Inspect(ev.root, func(x ast.Node) bool {
		if x == ast.Node(s) {
			return false
		}
		switch x := x.(type) {
		case *ast.AssignStmt:
			for _, l := range x.Lhs {
				if id := rootIdent(l); id != nil && (ev.Info.Uses[id] == v || ev.Info.Defs[id] == v) {
					ok = false
				}
			}
		case *ast.IncDecStmt:
			if id := rootIdent(x.X); id != nil && ev.Info.Uses[id] == v {
				ok = false
			}
		case *ast.UnaryExpr:
			if id := rootIdent(x.X); x.Op == token.AND && id != nil && ev.Info.Uses[id] == v {
				ok = false
			}
		case *ast.RangeStmt:
			for _, e := range []ast.Expr{x.Key, x.Value} {
				if id, isID := e.(*ast.Ident); isID && x.Tok == token.ASSIGN && ev.Info.Uses[id] == v {
					ok = false
				}
			}
		case *ast.FuncLit:
			if assigned(ev.Info, x, v) {
				ok = false
			}
		}
		return ok
	})
	return ok
}

// bitWalk recognises a walk over the set bits of the flag word, lowest first:
//
//	for r := word; r != 0; r &= r - 1 { … r & -r … bits.TrailingZeros32(r) … }
//
// (also `r > 0`; the start written before the loop; the step written as
// `r &^= b`, `r ^= b`, `r -= b`, `r = r & (r-1)` in the header or as a
// top-level statement of the body after which r is not used any more).
// handled is false when the loop is not of this family at all.
func (ev *Evaluator) bitWalk(u *Unrolled, s *ast.ForStmt) (its []iteration, handled bool) {
	info := ev.Info
	be, ok := ast.Unparen(s.Cond).(*ast.BinaryExpr)
	if s.Cond == nil || !ok {
		return nil, false
	}
	isZero := func(e ast.Expr) bool {
		tv, ok := info.Types[e]
		return ok && tv.Value != nil && tv.Value.Kind() == constant.Int && constant.Sign(tv.Value) == 0
	}
	var vid *ast.Ident
	switch {
	case (be.Op == token.NEQ || be.Op == token.GTR) && isZero(be.Y):
		vid, _ = ast.Unparen(be.X).(*ast.Ident)
	case (be.Op == token.NEQ || be.Op == token.LSS) && isZero(be.X):
		vid, _ = ast.Unparen(be.Y).(*ast.Ident)
	}
	if vid == nil {
		return nil, false
	}
	vObj := info.Uses[vid]
	if vObj == nil {
		return nil, false
	}
	if _, unsigned := intWidth(vObj.Type()); !unsigned {
		return nil, false
	}
	var start ast.Expr
	selfWalk := false
	switch init := s.Init.(type) {
	case nil:
		start = ev.defBefore(vObj, s)
		if start == nil && ev.onlyWrittenIn(vObj, s) {
			// the function walks its own copy of the word (receiver / parameter)
			switch {
			case ev.lostParam == vObj && vObj != nil:
				start, selfWalk = vid, true
			case ev.IsWord != nil && ev.IsWord(vid):
				if _, bound := ev.Env[vObj]; !bound {
					start, selfWalk = vid, true
				}
			}
		}
	case *ast.AssignStmt:
		if init.Tok == token.DEFINE && len(init.Lhs) == 1 && len(init.Rhs) == 1 && identObj(info, init.Lhs[0]) == vObj {
			start = init.Rhs[0]
		}
	}
	if start == nil {
		return nil, false
	}
	// the walk may start from the word restricted to a constant mask or shifted
	// by a constant: only those bits are visited (under their shifted position)
	var only constant.Value // bits of the start value that can be set (nil: all)
	shift := 0              // bit i of the start value is bit i+shift of the word
	core := start
	for n := 0; n < 4 && !selfWalk; n++ {
		b, isBin := ast.Unparen(core).(*ast.BinaryExpr)
		if !isBin {
			break
		}
		if _, plain := ev.wordWidth(core, 0); plain {
			break
		}
		switch b.Op {
		case token.AND:
			x, y := b.X, b.Y
			c, isConst := ev.Eval(y).(SConst)
			if !isConst {
				c, isConst = ev.Eval(x).(SConst)
				x = y
			}
			if !isConst || c.V.Kind() != constant.Int || constant.Sign(c.V) < 0 {
				return nil, false
			}
			// the mask is in the coordinates of this sub-expression: position i of
			// the walk is position i+shift here
			m := c.V
			if shift > 0 {
				m = constant.Shift(m, token.SHR, uint(shift))
			} else if shift < 0 {
				m = constant.Shift(m, token.SHL, uint(-shift))
			}
			if only != nil {
				m = constant.BinaryOp(m, token.AND, only)
			}
			only, core = m, x
			continue
		case token.SHR, token.SHL:
			k, isConst := ev.Eval(b.Y).(SConst)
			if !isConst || k.V.Kind() != constant.Int || shift != 0 {
				return nil, false
			}
			n, exact := constant.Int64Val(k.V)
			if !exact || n < 0 || n > 63 {
				return nil, false
			}
			if b.Op == token.SHR {
				shift = int(n)
			} else {
				shift = -int(n)
			}
			core = b.X
			continue
		}
		break
	}
	w, ok := ev.wordWidth(core, 0)
	if selfWalk {
		w, ok = intWidth(vObj.Type())
	}
	if !ok {
		return nil, false
	}
	if vw, _ := intWidth(vObj.Type()); vw < w {
		w = vw
	}
	if selfWalk && ev.lostParam == vObj {
		ev.wordLost = "" // the only writes of the parameter are the steps of this walk
	}
	u.Kind = "setbits"
	// the step: the only write of the variable inside the loop
	var steps []ast.Stmt
	bad := ""
	isV := func(e ast.Expr) bool {
		id := rootIdent(e)
		return id != nil && info.Uses[id] == vObj
	}
	scanWrites := func(n ast.Node) {
		if n == nil {
			return
		}
		ast.Inspect(n, func(x ast.Node) bool {
			switch x := x.(type) {
			case *ast.AssignStmt:
				for _, l := range x.Lhs {
					if isV(l) {
						steps = append(steps, x)
					}
				}
			case *ast.IncDecStmt:
				if isV(x.X) {
					bad = "the variable of the walk is counted up or down"
				}
			case *ast.UnaryExpr:
				if x.Op == token.AND && isV(x.X) {
					bad = "the address of the variable of the walk is taken"
				}
			case *ast.RangeStmt:
				if x.Tok == token.ASSIGN && ((x.Key != nil && isV(x.Key)) || (x.Value != nil && isV(x.Value))) {
					bad = "the variable of the walk is assigned by a range clause"
				}
			case *ast.FuncLit:
				if mentions(info, x, vObj) {
					bad = "the variable of the walk is captured by a function literal"
				}
			}
			return true
		})
	}
	if s.Post != nil {
		scanWrites(s.Post)
	}
	scanWrites(s.Body)
	if bad != "" {
		u.Why = bad
		return nil, true
	}
	if len(steps) != 1 {
		u.Why = fmt.Sprintf("the variable of the walk over the set bits is written in %d places (expected one step that clears its lowest set bit)", len(steps))
		return nil, true
	}
	step := steps[0].(*ast.AssignStmt)
	if ast.Stmt(step) != s.Post {
		at := -1
		for i, st := range s.Body.List {
			if st == ast.Stmt(step) {
				at = i
			}
		}
		if at < 0 {
			u.Why = "the step of the walk over the set bits is nested inside another statement of the body"
			return nil, true
		}
		for _, st := range s.Body.List[at+1:] {
			if mentions(info, st, vObj) {
				u.Why = "the variable of the walk is used after the step that clears its lowest set bit"
				return nil, true
			}
		}
		// a `continue` before the step would skip it
		for _, st := range s.Body.List[:at] {
			found := false
			ast.Inspect(st, func(x ast.Node) bool {
				switch x := x.(type) {
				case *ast.FuncLit, *ast.ForStmt, *ast.RangeStmt:
					return false
				case *ast.BranchStmt:
					if x.Tok == token.CONTINUE {
						found = true
					}
				}
				return true
			})
			if found {
				u.Why = "a `continue` precedes the step of the walk over the set bits"
				return nil, true
			}
		}
		u.Skip = map[ast.Stmt]bool{step: true}
	}
	if len(step.Lhs) != 1 || len(step.Rhs) != 1 {
		u.Why = "the step of the walk over the set bits is a multiple assignment"
		return nil, true
	}
	if _, ok := ast.Unparen(step.Lhs[0]).(*ast.Ident); !ok {
		u.Why = "the step of the walk over the set bits writes a part of the variable"
		return nil, true
	}
	old, had := ev.Env[vObj]
	defer func() {
		if had {
			ev.Env[vObj] = old
		} else {
			delete(ev.Env, vObj)
		}
	}()
	stepOK := func(rem SRem) bool {
		ev.Env[vObj] = rem
		r := ev.Eval(step.Rhs[0])
		switch step.Tok {
		case token.AND_ASSIGN:
			if x, isRem := r.(SRem); isRem && x.I == rem.I && !rem.High && (x.Form == remDec || x.Form == remCleared) {
				return true
			}
		case token.AND_NOT_ASSIGN, token.XOR_ASSIGN, token.SUB_ASSIGN:
			if c, isConst := r.(SConst); isConst && c.V.Kind() == constant.Int && constant.Compare(c.V, token.EQL, rem.lowBit().V) {
				return true
			}
		case token.ASSIGN:
			if x, isRem := r.(SRem); isRem && x.I == rem.I && x.Form == remCleared {
				return true
			}
		}
		return false
	}
	// lowest bit first, or (bits.Len / bits.LeadingZeros) highest bit first
	high := !stepOK(SRem{I: 0, W: w, Form: remSelf}) && stepOK(SRem{I: 0, W: w, Form: remSelf, High: true})
	for n := 0; n < w; n++ {
		i := n
		if high {
			i = w - 1 - n
		}
		rem := SRem{I: i, W: w, Form: remSelf, High: high}
		if !stepOK(rem) {
			u.Why = "the step `" + stmtString(step) + "` is not recognised as clearing exactly the lowest (or the highest) set bit of the variable of the walk"
			return nil, true
		}
		bit := rem.lowBit().V
		if only != nil && constant.Sign(constant.BinaryOp(only, token.AND, bit)) == 0 {
			continue // masked out of the start value: never visited
		}
		src := i + shift // the bit of the word this position of the walk stands for
		if src < 0 || src >= w {
			continue
		}
		wordBit := constant.Shift(constant.MakeInt64(1), token.SHL, uint(src))
		label := "bit " + hex(wordBit)
		if shift != 0 {
			label += " seen as " + hex(bit)
		}
		its = append(its, iteration{env: map[types.Object]Sym{vObj: rem}, bind: map[types.Object]Val{}, label: label,
			test: &MaskTest{Mask: wordBit, Set: true}})
	}
	u.Descending = high
	u.N = len(its)
	return its, true
}

// producerCall resolves the operand of a range clause to a call of a module
// function that receives the flag word and returns a slice or an iterator.
func (ev *Evaluator) producerCall(x ast.Expr) (call *ast.CallExpr, sub *Evaluator, fd *ast.FuncDecl, arity int, iterator bool) {
	x = ast.Unparen(x)
	for i := 0; i < 4; i++ {
		id, ok := x.(*ast.Ident)
		if !ok {
			break
		}
		rhs, ok := ev.Defs[ev.Info.Uses[id]]
		if !ok {
			return nil, nil, nil, 0, false
		}
		x = ast.Unparen(rhs)
	}
	call, ok := x.(*ast.CallExpr)
	if !ok {
		return nil, nil, nil, 0, false
	}
	sub, fd = ev.enterHelper(call)
	if sub == nil {
		return nil, nil, nil, 0, false
	}
	sig := sub.Info.Defs[fd.Name].Type().(*types.Signature)
	if sig.Results().Len() != 1 {
		return nil, nil, nil, 0, false
	}
	arity = 1
	switch rt := sig.Results().At(0).Type().Underlying().(type) {
	case *types.Slice, *types.Array:
	case *types.Signature:
		// an iterator: func(yield func(T) bool) / func(yield func(K, V) bool)
		if rt.Params().Len() != 1 || rt.Results().Len() != 0 {
			return nil, nil, nil, 0, false
		}
		ys, ok := rt.Params().At(0).Type().Underlying().(*types.Signature)
		if !ok || ys.Params().Len() < 1 || ys.Params().Len() > 2 {
			return nil, nil, nil, 0, false
		}
		arity = ys.Params().Len()
		iterator = true
	default:
		return nil, nil, nil, 0, false
	}
	return call, sub, fd, arity, iterator
}

// returnsIterator: fd's single result is func(yield func(…) bool).
func returnsIterator(info *types.Info, fd *ast.FuncDecl) bool {
	fn, _ := info.Defs[fd.Name].(*types.Func)
	if fn == nil {
		return false
	}
	sig := fn.Type().(*types.Signature)
	if sig.Results().Len() != 1 {
		return false
	}
	rt, ok := sig.Results().At(0).Type().Underlying().(*types.Signature)
	if !ok || rt.Params().Len() != 1 || rt.Results().Len() != 0 {
		return false
	}
	ys, ok := rt.Params().At(0).Type().Underlying().(*types.Signature)
	return ok && ys.Params().Len() >= 1 && ys.Params().Len() <= 2 && ys.Results().Len() == 1
}

// iteratorBody prepares sub for the interpretation of the iterator fd, which
// must be `[defs;] return func(yield …) { … }`: what the literal hands to yield
// is what the function reports. It returns the literal's body.
func iteratorBody(sub *Evaluator, fd *ast.FuncDecl) (ast.Node, string) {
	var fl *ast.FuncLit
	for _, st := range fd.Body.List {
		if pureDefine(sub.Info, st) {
			continue
		}
		if rs, ok := st.(*ast.ReturnStmt); ok && len(rs.Results) == 1 && fl == nil {
			fl, _ = ast.Unparen(rs.Results[0]).(*ast.FuncLit)
			if fl != nil {
				continue
			}
		}
		return nil, "the iterator " + fd.Name.Name + " is not `return func(yield …) { … }`"
	}
	if fl == nil || fl.Type.Params == nil || len(fl.Type.Params.List) != 1 || len(fl.Type.Params.List[0].Names) != 1 {
		return nil, "the iterator " + fd.Name.Name + " is not `return func(yield …) { … }`"
	}
	sub.yield = sub.Info.Defs[fl.Type.Params.List[0].Names[0]]
	sub.root = fd.Body
	return fl.Body, ""
}

// producerCalls lists the calls inside body that a range loop consumes as a
// producer (they are interpreted by the loop, not as helpers of their own).
func (ev *Evaluator) producerCalls(body ast.Node) map[*ast.CallExpr]bool {
	out := map[*ast.CallExpr]bool{}
	ast.Inspect(body, func(n ast.Node) bool {
		if rs, ok := n.(*ast.RangeStmt); ok && rs.Tok != token.ASSIGN {
			if call, _, _, _, _ := ev.producerCall(rs.X); call != nil {
				out[call] = true
			}
		}
		return true
	})
	return out
}

// synthString makes a value expression for a constant string.
func synthString(s string) Val {
	lit := &ast.BasicLit{Kind: token.STRING, Value: strconv.Quote(s)}
	info := &types.Info{Types: map[ast.Expr]types.TypeAndValue{lit: {Type: types.Typ[types.String], Value: constant.MakeString(s)}}}
	return Val{lit, info}
}

// producerLoop unrolls `for … := range X` where X is what a module function of
// the flag word reports: a slice it returns (`word.GetFlags()`, directly or
// through a once-defined local) or an iterator (func(yield func(T) bool) /
// iter.Seq2). Each bit test of that function becomes one iteration that runs
// under the same test, with the loop variables bound to what the test reports.
func (ev *Evaluator) producerLoop(u *Unrolled, x ast.Expr, keyObj, valObj types.Object) (its []iteration, handled bool) {
	call, sub, fd, arity, iterator := ev.producerCall(x)
	if call == nil {
		return nil, false
	}
	var body ast.Node = fd.Body
	u.Kind, u.Producer, u.ProducerName = "producer", fd, fd.Name.Name
	if iterator {
		b, why := iteratorBody(sub, fd)
		if why != "" {
			u.Why = why
			return nil, true
		}
		body = b
	}
	sd := sub.CollectBitTests(body)
	u.Sub = sd
	switch {
	case len(sd.Escapes) > 0:
		u.Why = "in " + fd.Name.Name + ": " + sd.Escapes[0].Msg
		return nil, true
	case len(sd.Problems) > 0:
		u.Why = "in " + fd.Name.Name + ": " + sd.Problems[0].Msg
		return nil, true
	}
	for _, l := range sd.Loops {
		if l.Why != "" && (l.WordInside || l.Producer != nil) {
			u.Why = "in " + fd.Name.Name + ": a loop that involves the flag word is not resolved (" + l.Why + ")"
			return nil, true
		}
	}
	accs := map[string]bool{}
	for _, bt := range sd.Tests {
		var why string
		switch {
		case bt.Err != nil:
			why = "a bit test is not decided: " + bt.Err.Error()
		case bt.Test == nil || bt.Test.Mask == nil:
			why = "a bit test has a variable mask"
		case len(bt.Under) > 0:
			why = "a bit test only runs under " + bt.Under[0]
		case bt.HasElse:
			why = "a bit test has an else branch"
		case bt.Other != 0 || len(bt.Appended) != 0:
			why = "the body of a bit test does more than report constants"
		case bt.Cut != "" && len(bt.Emits) == 0:
			// the producer stops at this bit: so does the loop over it
		case len(bt.Emits) != arity:
			why = fmt.Sprintf("a bit test reports %d values where %d are expected", len(bt.Emits), arity)
		}
		if why != "" {
			u.Why = "in " + fd.Name.Name + ": " + why
			return nil, true
		}
		for _, a := range bt.Acc {
			accs[a] = true
		}
		it := iteration{env: map[types.Object]Sym{}, bind: map[types.Object]Val{}, test: bt.Test, cut: bt.Cut}
		it.label = fd.Name.Name + " " + hex(bt.Test.Mask)
		if !bt.Test.Set {
			it.label += " clear"
		}
		give := func(o types.Object, e Emit) {
			if o == nil {
				return
			}
			if e.IsStr {
				it.bind[o] = synthString(e.Str)
			} else {
				it.env[o] = SConst{e.Int}
			}
		}
		switch {
		case len(bt.Emits) == 0:
		case !iterator:
			give(valObj, bt.Emits[0]) // the index (keyObj) stays uninterpreted
		case arity == 1:
			give(keyObj, bt.Emits[0])
		default:
			give(keyObj, bt.Emits[0])
			give(valObj, bt.Emits[1])
		}
		its = append(its, it)
	}
	if !iterator {
		// what the function returns must be what its tests appended to
		if len(accs) > 1 {
			u.Why = "in " + fd.Name.Name + ": values are appended to several accumulators"
			return nil, true
		}
		bad := ""
		ast.Inspect(fd.Body, func(n ast.Node) bool {
			switch n := n.(type) {
			case *ast.FuncLit:
				return false
			case *ast.ReturnStmt:
				if len(n.Results) == 0 {
					// a named result
					if fd.Type.Results != nil && len(fd.Type.Results.List) == 1 && len(fd.Type.Results.List[0].Names) == 1 && accs[fd.Type.Results.List[0].Names[0].Name] {
						return true
					}
					bad = "a bare return"
					return true
				}
				r := ast.Unparen(n.Results[0])
				if accs[types.ExprString(r)] {
					return true
				}
				if tv, ok := sub.Info.Types[r]; ok && tv.IsNil() {
					return true
				}
				if cl, ok := r.(*ast.CompositeLit); ok && len(cl.Elts) == 0 {
					return true
				}
				bad = "`" + stmtString(n) + "` does not return the accumulator the tests append to"
			}
			return true
		})
		if bad != "" && len(sd.Tests) > 0 {
			u.Why = "in " + fd.Name.Name + ": " + bad
			return nil, true
		}
	}
	u.N = len(its)
	return its, true
}

// ---------------------------------------------------------------- local closures

// localClosures lists the function literals of body that are the single
// definition of a local (`add := func(m T, name string) { … }`) which is only
// ever called.
func (ev *Evaluator) localClosures(body ast.Node) map[*ast.FuncLit]types.Object {
	out := map[*ast.FuncLit]types.Object{}
	for o, rhs := range ev.Defs {
		if fl, ok := ast.Unparen(rhs).(*ast.FuncLit); ok && body.Pos() <= fl.Pos() && fl.End() <= body.End() {
			// only used as the operand of calls: never passed around or stored
			onlyCalled := true
			ast.Inspect(body, func(n ast.Node) bool {
				switch n := n.(type) {
				case *ast.CallExpr:
					if id, ok := ast.Unparen(n.Fun).(*ast.Ident); ok && ev.Info.Uses[id] == o {
						for _, a := range n.Args {
							if mentions(ev.Info, a, o) {
								onlyCalled = false
							}
						}
						return false
					}
				case *ast.Ident:
					if ev.Info.Uses[n] == o {
						onlyCalled = false
					}
				}
				return onlyCalled
			})
			if onlyCalled {
				out[fl] = o
			}
		}
	}
	return out
}

// enterClosure prepares the interpretation of a call of a local closure: the
// parameters are bound to the arguments, everything the literal captures (the
// flag word, loop variables, tables) keeps its meaning.
func (ev *Evaluator) enterClosure(call *ast.CallExpr, closures map[*ast.FuncLit]types.Object) (*Evaluator, *ast.FuncLit, string) {
	id, ok := ast.Unparen(call.Fun).(*ast.Ident)
	if !ok || ev.depth >= 3 {
		return nil, nil, ""
	}
	o := ev.Info.Uses[id]
	var fl *ast.FuncLit
	for l, lo := range closures {
		if lo == o {
			fl = l
		}
	}
	if fl == nil || call.Ellipsis.IsValid() {
		return nil, nil, ""
	}
	sub := *ev
	sub.Env = map[types.Object]Sym{}
	for k, v := range ev.Env {
		sub.Env[k] = v
	}
	sub.Bind = map[types.Object]Val{}
	for k, v := range ev.Bind {
		sub.Bind[k] = v
	}
	sub.depth = ev.depth + 1
	sub.root = fl.Body
	i := 0
	label := id.Name + "("
	for _, f := range fl.Type.Params.List {
		if len(f.Names) == 0 {
			return nil, nil, ""
		}
		if _, variadic := f.Type.(*ast.Ellipsis); variadic {
			return nil, nil, ""
		}
		for _, n := range f.Names {
			if i >= len(call.Args) {
				return nil, nil, ""
			}
			p := ev.Info.Defs[n]
			arg := call.Args[i]
			if i > 0 {
				label += ", "
			}
			label += types.ExprString(arg)
			i++
			if p == nil {
				continue
			}
			if assigned(ev.Info, fl.Body, p) {
				continue
			}
			if s := ev.Eval(arg); !hasUnknown(s) {
				sub.Env[p] = s
			} else if v, why := ev.Static(arg); why == "" {
				sub.Bind[p] = v
			}
		}
	}
	if i != len(call.Args) {
		return nil, nil, ""
	}
	return &sub, fl, label + ")"
}

// ---------------------------------------------------------------- where the word escapes to

// moduleCallee resolves the module function a call invokes (nil: a conversion,
// a builtin, a function outside the module); dynamic reports a call of a
// function value.
func (ev *Evaluator) moduleCallee(call *ast.CallExpr) (fn *types.Func, dynamic bool) {
	if tv, ok := ev.Info.Types[call.Fun]; ok && (tv.IsType() || tv.IsBuiltin()) {
		return nil, false
	}
	fun := call.Fun
	if ix, ok := ast.Unparen(fun).(*ast.IndexExpr); ok {
		if tv, ok := ev.Info.Types[ix.X]; ok && tv.Type != nil {
			if _, isSig := tv.Type.Underlying().(*types.Signature); isSig {
				fun = ix.X // explicit instantiation f[T](…)
			}
		}
	}
	if ix, ok := ast.Unparen(fun).(*ast.IndexListExpr); ok {
		fun = ix.X
	}
	fn = StaticCallee(ev.Info, &ast.CallExpr{Fun: fun})
	if fn == nil {
		return nil, true
	}
	if ev.Source == nil {
		return nil, false
	}
	if fd, _ := ev.Source(fn); fd == nil {
		// an interface method of the module has no body either: dynamic dispatch
		if sig, ok := fn.Type().(*types.Signature); ok && sig.Recv() != nil {
			if _, isIface := sig.Recv().Type().Underlying().(*types.Interface); isIface {
				return nil, true
			}
		}
		return nil, false
	}
	return fn, false
}

// handsWord reports whether the call passes the flag word (as receiver or argument).
func (ev *Evaluator) handsWord(call *ast.CallExpr) bool {
	if sel, ok := ast.Unparen(call.Fun).(*ast.SelectorExpr); ok {
		if _, isPkg := ev.Info.Uses[rootOrNil(sel.X)].(*types.PkgName); !isPkg && HasWord(ev.Eval(sel.X)) {
			return true
		}
	}
	for _, a := range call.Args {
		if HasWord(ev.Eval(a)) {
			return true
		}
		// &word, a struct holding it … : any mention counts
		if _, isLit := ast.Unparen(a).(*ast.FuncLit); !isLit && ev.mentionsWord(a) {
			return true
		}
	}
	return false
}

func rootOrNil(e ast.Expr) *ast.Ident {
	id, _ := ast.Unparen(e).(*ast.Ident)
	return id
}

// wordEscapesInto explains, for a call that was not entered as a helper, that
// the flag word flows into code the analysis does not follow ("" when it does not).
func (ev *Evaluator) wordEscapesInto(call *ast.CallExpr) string {
	fn, dynamic := ev.moduleCallee(call)
	if fn == nil && !dynamic {
		return ""
	}
	if !ev.handsWord(call) {
		return ""
	}
	// a predicate (declared, or a function value that resolves statically) used
	// as a condition is seen through by Eval
	if tv, ok := ev.Info.Types[call]; ok && tv.Type != nil {
		if b, isBasic := tv.Type.Underlying().(*types.Basic); isBasic && b.Kind() == types.Bool && HasWord(ev.Eval(call)) {
			return ""
		}
	}
	if dynamic {
		return "the flag word is handed to a function value / interface method (`" + types.ExprString(call.Fun) + "`) the analysis does not follow"
	}
	// a predicate used as a condition is seen through by Eval
	if sig := fn.Type().(*types.Signature); sig.Results().Len() == 1 {
		if b, ok := sig.Results().At(0).Type().Underlying().(*types.Basic); ok && b.Kind() == types.Bool {
			if HasWord(ev.Eval(call)) {
				return ""
			}
		}
	}
	return "the flag word is handed to " + fn.Name() + ", which the analysis does not follow (too deep, variadic or of a shape it does not interpret)"
}

// opaqueCall describes a statement of a test body that hands data to a module
// function or a function value ("" otherwise).
func (ev *Evaluator) opaqueCall(st ast.Stmt) string {
	out := ""
	ast.Inspect(st, func(n ast.Node) bool {
		if out != "" {
			return false
		}
		switch n := n.(type) {
		case *ast.FuncLit:
			return false
		case *ast.CallExpr:
			if fn, dynamic := ev.moduleCallee(n); fn != nil {
				out = "a call of " + fn.Name()
			} else if dynamic {
				out = "a call of the function value `" + types.ExprString(n.Fun) + "`"
			}
		}
		return out == ""
	})
	return out
}
