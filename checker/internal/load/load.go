// Package load type-checks /repo's current working tree and builds go/ssa for it.
package load

import (
	"encoding/json"
	"fmt"
	"go/ast"
	"go/token"
	"go/types"
	"os"
	"os/exec"
	"path/filepath"
	"regexp"
	"sort"
	"strconv"
	"strings"

	"golang.org/x/tools/go/packages"
	"golang.org/x/tools/go/ssa"
	"golang.org/x/tools/go/ssa/ssautil"
)

const Mod = "github.com/TheManticoreProject/Manticore"

type Program struct {
	Dir     string
	ModPath string
	Fset    *token.FileSet
	Pkgs    []*packages.Package          // module packages only
	ByPath  map[string]*packages.Package // all, incl. deps
	SSA     *ssa.Program
	SSAPkgs map[string]*ssa.Package
	allFns  map[*ssa.Function]bool
}

// OverlayJSON, when set, names a `go build -overlay` file; it is applied to both
// the type-checker's view and the compiler's (self-test variants only).
var OverlayJSON string

func readOverlay() (map[string][]byte, error) {
	if OverlayJSON == "" {
		return nil, nil
	}
	b, err := os.ReadFile(OverlayJSON)
	if err != nil {
		return nil, err
	}
	var o struct{ Replace map[string]string }
	if err := json.Unmarshal(b, &o); err != nil {
		return nil, err
	}
	out := map[string][]byte{}
	for k, v := range o.Replace {
		c, err := os.ReadFile(v)
		if err != nil {
			return nil, err
		}
		out[k] = c
	}
	return out, nil
}

// Load loads every package of the module rooted at dir. overlay may be nil.
func Load(dir, modPath string, overlay map[string][]byte, needSSA bool) (*Program, error) {
	os.Unsetenv("GOWORK")
	if overlay == nil {
		ov, err := readOverlay()
		if err != nil {
			return nil, err
		}
		overlay = ov
	}
	cfg := &packages.Config{
		Mode:    packages.LoadAllSyntax,
		Dir:     dir,
		Tests:   false,
		Overlay: overlay,
		Env:     append(os.Environ(), "GOWORK=off", "GOFLAGS=-mod=mod", "GOPROXY=off"),
	}
	pkgs, err := packages.Load(cfg, "./...")
	if err != nil {
		return nil, err
	}
	p := &Program{Dir: dir, ModPath: modPath, ByPath: map[string]*packages.Package{}, SSAPkgs: map[string]*ssa.Package{}}
	var errs []string
	packages.Visit(pkgs, nil, func(pk *packages.Package) {
		p.ByPath[pk.PkgPath] = pk
		if strings.HasPrefix(pk.PkgPath, modPath) {
			for _, e := range pk.Errors {
				errs = append(errs, e.Error())
			}
		}
	})
	if len(errs) > 0 {
		sort.Strings(errs)
		return nil, fmt.Errorf("type errors in %s: %s", dir, strings.Join(errs, "; "))
	}
	for _, pk := range pkgs {
		if strings.HasPrefix(pk.PkgPath, modPath) {
			p.Pkgs = append(p.Pkgs, pk)
		}
	}
	sort.Slice(p.Pkgs, func(i, j int) bool { return p.Pkgs[i].PkgPath < p.Pkgs[j].PkgPath })
	if len(p.Pkgs) == 0 {
		return nil, fmt.Errorf("no packages loaded from %s", dir)
	}
	p.Fset = p.Pkgs[0].Fset
	if needSSA {
		prog, spkgs := ssautil.AllPackages(pkgs, ssa.InstantiateGenerics)
		prog.Build()
		p.SSA = prog
		for i, sp := range spkgs {
			if sp != nil {
				p.SSAPkgs[pkgs[i].PkgPath] = sp
			}
		}
		for _, sp := range prog.AllPackages() {
			p.SSAPkgs[sp.Pkg.Path()] = sp
		}
	}
	return p, nil
}

// Rel renders a position relative to the program directory.
func (p *Program) Rel(pos token.Pos) string {
	if !pos.IsValid() {
		return "-"
	}
	ps := p.Fset.Position(pos)
	f := ps.Filename
	if r, err := filepath.Rel(p.Dir, f); err == nil && !strings.HasPrefix(r, "..") {
		f = r
	}
	return fmt.Sprintf("%s:%d:%d", f, ps.Line, ps.Column)
}

// Pkg returns the module package with the given path relative to the module root.
func (p *Program) Pkg(rel string) *packages.Package {
	if rel == "" {
		return p.ByPath[p.ModPath]
	}
	return p.ByPath[p.ModPath+"/"+rel]
}

// Func resolves a function or method in the module: recv "" for functions,
// "T" for methods on T or *T.
func (p *Program) Func(rel, recv, name string) *ssa.Function {
	path := p.ModPath
	if rel != "" {
		path += "/" + rel
	}
	sp := p.SSAPkgs[path]
	if sp == nil {
		return nil
	}
	if recv == "" {
		return sp.Func(name)
	}
	tn, _ := sp.Pkg.Scope().Lookup(recv).(*types.TypeName)
	if tn == nil {
		return nil
	}
	for _, t := range []types.Type{tn.Type(), types.NewPointer(tn.Type())} {
		ms := p.SSA.MethodSets.MethodSet(t)
		for i := 0; i < ms.Len(); i++ {
			if ms.At(i).Obj().Name() == name {
				fn := p.SSA.MethodValue(ms.At(i))
				if fn != nil && fn.Synthetic == "" {
					return fn
				}
				// promoted / wrapper: resolve to declared function
				if fn != nil {
					if obj, ok := ms.At(i).Obj().(*types.Func); ok {
						if d := p.SSA.FuncValue(obj); d != nil {
							return d
						}
					}
				}
			}
		}
	}
	return nil
}

// InModule reports whether fn is declared in the analysed module.
func (p *Program) InModule(fn *ssa.Function) bool {
	if fn == nil {
		return false
	}
	if fn.Pkg != nil {
		return strings.HasPrefix(fn.Pkg.Pkg.Path(), p.ModPath)
	}
	if fn.Parent() != nil {
		return p.InModule(fn.Parent())
	}
	if o := fn.Object(); o != nil && o.Pkg() != nil {
		return strings.HasPrefix(o.Pkg().Path(), p.ModPath)
	}
	return false
}

// SrcFuncs returns every source-level function (including anonymous ones) of
// the module packages, sorted by position.
func (p *Program) SrcFuncs() []*ssa.Function {
	var out []*ssa.Function
	for fn := range ssautil.AllFunctions(p.SSA) {
		if fn.Synthetic != "" || fn.Blocks == nil {
			continue
		}
		if p.InModule(fn) {
			out = append(out, fn)
		}
	}
	sort.Slice(out, func(i, j int) bool {
		if out[i].Pos() != out[j].Pos() {
			return out[i].Pos() < out[j].Pos()
		}
		return out[i].String() < out[j].String()
	})
	return out
}

// FuncName renders a stable, human name: pkgrel.(Recv).Name[$n]
func (p *Program) FuncName(fn *ssa.Function) string {
	s := fn.String()
	s = strings.ReplaceAll(s, p.ModPath+"/", "")
	s = strings.ReplaceAll(s, p.ModPath, "")
	return s
}

// FileOf returns the syntax file containing pos.
func (p *Program) FileOf(pos token.Pos) (*packages.Package, *ast.File) {
	for _, pk := range p.Pkgs {
		for _, f := range pk.Syntax {
			if f.FileStart <= pos && pos <= f.FileEnd {
				return pk, f
			}
		}
	}
	return nil, nil
}

// Residual is one bounds check the compiler's prove pass could not eliminate.
type Residual struct {
	File string // relative to module root
	Line int
	Col  int
	Kind string // IsInBounds | IsSliceInBounds
}

var bceRe = regexp.MustCompile(`^(.+?):(\d+):(\d+): (?:Found|Disproved) (IsInBounds|IsSliceInBounds)`)

// CompilerResiduals runs the go compiler with check_bce debugging on the module
// and returns the positions of all bounds checks that remain.
func CompilerResiduals(dir string, overlayJSON string) ([]Residual, error) {
	// check_bce lists the bounds checks that remain; the prove pass also removes a check it
	// proves ALWAYS FAILS (it becomes an unconditional panic), which check_bce does not list, so
	// the "Disproved Is(Slice)InBounds" lines of the prove pass are collected as well.
	args := []string{"build", "-gcflags=-d=ssa/check_bce/debug=1,ssa/prove/debug=1"}
	if overlayJSON == "" {
		overlayJSON = OverlayJSON
	}
	if overlayJSON != "" {
		args = append(args, "-overlay", overlayJSON)
	}
	args = append(args, "./...")
	cmd := exec.Command("go", args...)
	cmd.Dir = dir
	cmd.Env = append(os.Environ(), "GOWORK=off", "GOFLAGS=-mod=mod", "GOPROXY=off")
	out, err := cmd.CombinedOutput()
	if err != nil {
		return nil, fmt.Errorf("go build check_bce: %v\n%s", err, out)
	}
	var res []Residual
	seen := map[string]bool{}
	for _, line := range strings.Split(string(out), "\n") {
		m := bceRe.FindStringSubmatch(line)
		if m == nil {
			continue
		}
		f := m[1]
		if filepath.IsAbs(f) {
			if r, err := filepath.Rel(dir, f); err == nil {
				f = r
			}
		}
		f = strings.TrimPrefix(f, "./")
		l, _ := strconv.Atoi(m[2])
		c, _ := strconv.Atoi(m[3])
		kind := m[4]
		if strings.Contains(line, ": Disproved ") {
			kind = "Disproved" + kind
		}
		k := fmt.Sprintf("%s:%d:%d:%s", f, l, c, kind)
		if seen[k] {
			continue
		}
		seen[k] = true
		res = append(res, Residual{File: f, Line: l, Col: c, Kind: kind})
	}
	sort.Slice(res, func(i, j int) bool {
		a, b := res[i], res[j]
		if a.File != b.File {
			return a.File < b.File
		}
		if a.Line != b.Line {
			return a.Line < b.Line
		}
		return a.Col < b.Col
	})
	return res, nil
}
