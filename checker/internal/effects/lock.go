package effects

import (
	"fmt"
	"go/token"
	"go/types"
	"sort"
	"strings"

	"golang.org/x/tools/go/ssa"
	"golang.org/x/tools/go/ssa/ssautil"
)

type Status int

const (
	OK Status = iota
	// NotDecided: the extraction behind the obligation was incomplete (a value came out of
	// code the engine does not model); no claim is made — reported as discharged with a
	// "NOT DECIDED" reason and a note, never as a violation
	NotDecided
	Undecided
	Fail
)

const (
	RLockset   = "lockset"
	RExclusive = "exclusive"
	RPairing   = "pairing"
	RReentry   = "reentry"
	REscape    = "escape"
	RWho       = "who"
)

// Obl is one decided (or undecidable) construct.
type Obl struct {
	Rule, Fn, Text, Pos string
	Top                 string // enclosing declared function
	Status              Status
	Reason              string
	fn                  *ssa.Function
	blk, idx            int
}

type oblKey struct {
	rule string
	fn   *ssa.Function
	in   ssa.Instruction
	text string
}

type Engine struct {
	Spec *Spec
	Prog *ssa.Program

	tsum map[fnKey]*taintSum
	lsum map[fnKey]*lockSum
	fsum map[freshKey]*freshSum
	obls map[oblKey]*Obl

	all      []*ssa.Function // declared module functions with bodies
	touches  map[*ssa.Function]bool
	entry    map[*ssa.Function]string // why it is an entry point
	mentionM map[types.Type]bool
	callees  map[*ssa.Function]map[*ssa.Function]bool

	// statistics for evidence
	Entries      []string
	Analysed     map[string]int // function → number of lock contexts analysed
	CallSites    int
	Skipped      []string // unexported, never called: vacuously under "all callers hold the lock"
	TaintedUnits int
}

func New(sp *Spec, prog *ssa.Program) *Engine {
	return &Engine{Spec: sp, Prog: prog, tsum: map[fnKey]*taintSum{}, lsum: map[fnKey]*lockSum{}, obls: map[oblKey]*Obl{},
		touches: map[*ssa.Function]bool{}, entry: map[*ssa.Function]string{}, mentionM: map[types.Type]bool{}, Analysed: map[string]int{}}
}

// ---------------------------------------------------------------------------
// which functions matter

func (e *Engine) mentions(t types.Type) bool {
	return e.mentions1(t, map[types.Type]bool{})
}

func (e *Engine) mentions1(t types.Type, seen map[types.Type]bool) bool {
	if t == nil {
		return false
	}
	if v, ok := e.mentionM[t]; ok {
		return v
	}
	if seen[t] {
		return false
	}
	seen[t] = true
	r := false
	if e.Spec.isOwner(t) || e.Spec.isRecord(t) {
		r = true
	} else {
		switch u := types.Unalias(t).(type) {
		case *types.Named:
			r = e.mentions1(u.Underlying(), seen)
		case *types.Pointer:
			r = e.mentions1(u.Elem(), seen)
		case *types.Slice:
			r = e.mentions1(u.Elem(), seen)
		case *types.Array:
			r = e.mentions1(u.Elem(), seen)
		case *types.Chan:
			r = e.mentions1(u.Elem(), seen)
		case *types.Map:
			r = e.mentions1(u.Key(), seen) || e.mentions1(u.Elem(), seen)
		case *types.Struct:
			for i := 0; i < u.NumFields() && !r; i++ {
				r = e.mentions1(u.Field(i).Type(), seen)
			}
		case *types.Tuple:
			for i := 0; i < u.Len() && !r; i++ {
				r = e.mentions1(u.At(i).Type(), seen)
			}
		case *types.Signature:
			r = e.mentions1(u.Params(), seen) || e.mentions1(u.Results(), seen)
			if u.Recv() != nil && !r {
				r = e.mentions1(u.Recv().Type(), seen)
			}
		}
	}
	e.mentionM[t] = r
	return r
}

func (e *Engine) touchesLocal(fn *ssa.Function) bool {
	if e.mentions(fn.Signature) {
		return true
	}
	for _, fv := range fn.FreeVars {
		if e.mentions(fv.Type()) {
			return true
		}
	}
	var rands []*ssa.Value
	for _, b := range fn.Blocks {
		for _, in := range b.Instrs {
			if v, ok := in.(ssa.Value); ok && e.mentions(v.Type()) {
				return true
			}
			rands = in.Operands(rands[:0])
			for _, r := range rands {
				if *r != nil && e.mentions((*r).Type()) {
					return true
				}
			}
		}
	}
	for _, a := range fn.AnonFuncs {
		if e.touchesLocal(a) {
			return true
		}
	}
	return false
}

func topOf(fn *ssa.Function) *ssa.Function {
	for fn.Parent() != nil {
		fn = fn.Parent()
	}
	return fn
}

// prepare computes the touching set, static callers and entry points.
func (e *Engine) prepare() {
	sp := e.Spec
	allFns := ssautil.AllFunctions(e.Prog)
	callersOf := map[*ssa.Function]int{}
	callees := map[*ssa.Function]map[*ssa.Function]bool{}
	e.callees = callees
	invoked := map[string]bool{}
	addrTaken := map[*ssa.Function]bool{}
	var rands []*ssa.Value
	for fn := range allFns {
		if fn.Blocks == nil || !sp.InModule(fn) {
			continue
		}
		top := topOf(fn)
		for _, b := range fn.Blocks {
			for _, in := range b.Instrs {
				var cc *ssa.CallCommon
				isGo := false
				switch x := in.(type) {
				case *ssa.Call:
					cc = &x.Call
				case *ssa.Defer:
					cc = &x.Call
				case *ssa.Go:
					cc = &x.Call
					isGo = true
				}
				if cc != nil {
					if cc.IsInvoke() {
						invoked[cc.Method.Name()] = true
					} else if callee := cc.StaticCallee(); callee != nil && callee.Parent() == nil {
						if fn.Synthetic != "" || isGo {
							addrTaken[callee] = true
						} else {
							callersOf[callee]++
							if callees[top] == nil {
								callees[top] = map[*ssa.Function]bool{}
							}
							callees[top][callee] = true
						}
					}
				}
				rands = in.Operands(rands[:0])
				for k, r := range rands {
					f, ok := (*r).(*ssa.Function)
					if !ok || f.Parent() != nil {
						continue
					}
					if cc != nil && k == 0 && !cc.IsInvoke() && cc.Value == f {
						continue // callee position
					}
					addrTaken[f] = true
				}
			}
		}
	}
	for fn := range allFns {
		if fn.Blocks == nil || fn.Synthetic != "" || fn.Parent() != nil || !sp.InModule(fn) {
			continue
		}
		e.all = append(e.all, fn)
	}
	sort.Slice(e.all, func(i, j int) bool {
		if e.all[i].Pos() != e.all[j].Pos() {
			return e.all[i].Pos() < e.all[j].Pos()
		}
		return e.all[i].String() < e.all[j].String()
	})
	for _, fn := range e.all {
		if e.touchesLocal(fn) {
			e.touches[fn] = true
		}
	}
	for ch := true; ch; {
		ch = false
		for _, fn := range e.all {
			if e.touches[fn] {
				continue
			}
			for c := range callees[fn] {
				if e.touches[c] {
					e.touches[fn] = true
					ch = true
					break
				}
			}
		}
	}
	for _, fn := range e.all {
		if !e.touches[fn] {
			continue
		}
		obj := fn.Object()
		switch {
		case obj != nil && obj.Exported():
			e.entry[fn] = "exported"
		case addrTaken[fn]:
			e.entry[fn] = "address taken / started as goroutine / reached through a wrapper"
		case fn.Signature.Recv() != nil && invoked[fn.Name()]:
			e.entry[fn] = "may be reached through an interface call"
		case fn.Name() == "init" || fn.Name() == "main":
			e.entry[fn] = "program entry"
		case callersOf[fn] == 0:
			e.Skipped = append(e.Skipped, sp.FuncName(fn))
		}
	}
}

// Run analyses every entry point that can touch the guarded set.
func (e *Engine) Run() []*Obl {
	e.prepare()
	for _, fn := range e.all {
		why, ok := e.entry[fn]
		if !ok {
			continue
		}
		e.Entries = append(e.Entries, e.Spec.FuncName(fn)+" ("+why+")")
		e.lockAnalyze(fn, &binding{fwd: map[Root]Root{}, back: map[Root]Root{}, params: make([]TSet, len(fn.Params))}, nil, e.allowed(fn), true, nil)
	}
	var out []*Obl
	for _, o := range e.obls {
		out = append(out, o)
	}
	sort.Slice(out, func(i, j int) bool {
		a, b := out[i], out[j]
		if a.fn != b.fn {
			if a.fn.Pos() != b.fn.Pos() {
				return a.fn.Pos() < b.fn.Pos()
			}
			return a.Fn < b.Fn
		}
		if a.blk != b.blk {
			return a.blk < b.blk
		}
		if a.idx != b.idx {
			return a.idx < b.idx
		}
		if a.Rule != b.Rule {
			return a.Rule < b.Rule
		}
		return a.Text < b.Text
	})
	for _, s := range e.tsum {
		if s.u != nil && s.u.tainted {
			e.TaintedUnits++
		}
	}
	return out
}

// Reach lists fn and the declared in-module functions it reaches through static calls.
func (e *Engine) Reach(fn *ssa.Function) []*ssa.Function {
	seen := map[*ssa.Function]bool{fn: true}
	out := []*ssa.Function{fn}
	for i := 0; i < len(out); i++ {
		for c := range e.callees[out[i]] {
			if !seen[c] && e.Spec.InModule(c) {
				seen[c] = true
				out = append(out, c)
			}
		}
	}
	return out
}

// allowed: methods of the owner type may touch the table.
func (e *Engine) allowed(fn *ssa.Function) bool {
	r := fn.Signature.Recv()
	return r != nil && e.Spec.isOwner(derefT(r.Type()))
}

func (e *Engine) rec(rule string, fn *ssa.Function, in ssa.Instruction, text string, st Status, reason string) {
	k := oblKey{rule, fn, in, text}
	o := e.obls[k]
	if o == nil {
		o = &Obl{Rule: rule, Fn: e.Spec.FuncName(fn), Top: e.Spec.FuncName(topOf(fn)), Text: text, Status: st, Reason: reason, fn: fn, blk: 1 << 30}
		pos := token.NoPos
		if in != nil {
			pos = instrPos(in)
			if b := in.Block(); b != nil {
				o.blk = b.Index
				for i, x := range b.Instrs {
					if x == in {
						o.idx = i
					}
				}
			}
		}
		if !pos.IsValid() {
			pos = fn.Pos()
		}
		o.Pos = e.Spec.Pos(pos)
		e.obls[k] = o
		return
	}
	if st > o.Status {
		o.Status = st
		o.Reason = reason
	}
}

func instrPos(in ssa.Instruction) token.Pos {
	if p := in.Pos(); p.IsValid() {
		return p
	}
	var rands []*ssa.Value
	rands = in.Operands(rands)
	for _, r := range rands {
		if *r != nil {
			if p := (*r).Pos(); p.IsValid() {
				return p
			}
		}
	}
	if b := in.Block(); b != nil {
		found := false
		for _, x := range b.Instrs {
			if x == in {
				found = true
			}
			if found && x.Pos().IsValid() {
				return x.Pos()
			}
		}
	}
	return token.NoPos
}

// ---------------------------------------------------------------------------
// lock state

type lstate struct {
	held   map[Root]int8 // 0 none, 1 shared, 2 exclusive, -1 differs between paths
	pub    map[ssa.Value]bool
	allPub bool
	defers []*ssa.Defer
	defBad bool
	// over counts acquisitions made while the lock was already held (reported as
	// re-entry); the matching releases are swallowed so that one defect is not
	// reported a second time as a pairing failure
	over map[Root]int
	// unk: a function value that carries the address of this owner's mutex (a bound
	// n.mu.Unlock / n.mu.Lock handed around) was called and could not be resolved: the
	// lock state of the owner is not known from here on
	unk map[Root]bool
}

func newState() *lstate {
	return &lstate{held: map[Root]int8{}, pub: map[ssa.Value]bool{}, over: map[Root]int{}, unk: map[Root]bool{}}
}

func (s *lstate) clone() *lstate {
	o := &lstate{held: map[Root]int8{}, pub: map[ssa.Value]bool{}, allPub: s.allPub, defBad: s.defBad, over: map[Root]int{}, unk: map[Root]bool{}}
	for k, v := range s.over {
		o.over[k] = v
	}
	for k, v := range s.unk {
		o.unk[k] = v
	}
	for k, v := range s.held {
		o.held[k] = v
	}
	for k, v := range s.pub {
		o.pub[k] = v
	}
	o.defers = append([]*ssa.Defer(nil), s.defers...)
	return o
}

// joinInto merges b into a; reports change.
func joinInto(a, b *lstate) bool {
	ch := false
	for k, v := range b.held {
		if av, ok := a.held[k]; !ok {
			if v != 0 {
				a.held[k] = -1
				ch = true
			}
		} else if av != v && av != -1 {
			a.held[k] = -1
			ch = true
		}
	}
	for k, av := range a.held {
		if _, ok := b.held[k]; !ok && av != 0 && av != -1 {
			a.held[k] = -1
			ch = true
		}
	}
	for k, v := range b.pub {
		if v && !a.pub[k] {
			a.pub[k] = true
			ch = true
		}
	}
	if b.allPub && !a.allPub {
		a.allPub = true
		ch = true
	}
	for k, v := range b.unk {
		if v && !a.unk[k] {
			if a.unk == nil {
				a.unk = map[Root]bool{}
			}
			a.unk[k] = true
			ch = true
		}
	}
	for k, v := range b.over {
		if v > a.over[k] {
			if a.over == nil {
				a.over = map[Root]int{}
			}
			a.over[k] = v
			ch = true
		}
	}
	if !a.defBad {
		same := len(a.defers) == len(b.defers)
		if same {
			for i := range a.defers {
				if a.defers[i] != b.defers[i] {
					same = false
				}
			}
		}
		if !same || b.defBad {
			a.defBad = true
			ch = true
		}
	}
	return ch
}

func modeName(m int8) string {
	switch m {
	case 0:
		return "not held"
	case 1:
		return "held shared (RLock)"
	case 2:
		return "held exclusive (Lock)"
	}
	return "held on some paths only"
}

type lockSum struct {
	exit    map[Root]int8
	reenter []string
	touched map[Root]bool // roots locked or unlocked inside
}

type lockCtx struct {
	allowed bool
	top     bool
	visited map[*ssa.Function]bool
	depth   int
	fnArgs  map[*ssa.Parameter]*closureArg
}

// closureArg: a function literal of the caller passed to an in-module callee,
// which calls it through its parameter (n.withLock(func() { … })).
type closureArg struct {
	u    *unit
	fn   *ssa.Function
	back map[Root]Root // callee root → root in the closure's unit
	ctx  *lockCtx
}

func heldKey(fn *ssa.Function, held map[Root]int8) string {
	var ks []string
	for r, m := range held {
		if m != 0 {
			ks = append(ks, fmt.Sprintf("%s=%d", rootKeyIn(fn, r), m))
		}
	}
	sort.Strings(ks)
	return strings.Join(ks, ",")
}

func (e *Engine) lockAnalyze(fn *ssa.Function, b *binding, held map[Root]int8, allowed, top bool, fnArgs map[*ssa.Parameter]*closureArg) *lockSum {
	fk := ""
	for i, p := range fn.Params {
		if ca := fnArgs[p]; ca != nil {
			fk += fmt.Sprintf("|f%d=%s", i, ca.fn.String())
		}
	}
	key := fnKey{fn, fmt.Sprintf("%s|%s|%v|%v%s", b.key, heldKey(fn, held), allowed, top, fk)}
	if s, ok := e.lsum[key]; ok {
		return s
	}
	// in progress (recursion): identity summary
	id := &lockSum{exit: map[Root]int8{}, touched: map[Root]bool{}}
	for r, m := range held {
		id.exit[r] = m
	}
	e.lsum[key] = id
	ts := e.taintSummary(fn, b.params, b.key)
	if ts.u == nil {
		return id
	}
	e.Analysed[e.Spec.FuncName(fn)]++
	ctx := &lockCtx{allowed: allowed, top: top, visited: map[*ssa.Function]bool{}, fnArgs: fnArgs}
	st := newState()
	for r, m := range held {
		st.held[r] = m
	}
	sum := e.analyzeBody(ts.u, fn, st, ctx, top)
	// closures that are never called where they are made run at an unknown time: no lock assumed
	for _, f := range ts.u.fns[1:] {
		if !ctx.visited[f] {
			s0 := newState()
			s0.allPub = true
			e.analyzeBody(ts.u, f, s0, ctx, true)
		}
	}
	if top {
		e.escapeResults(ts.u, fn)
	}
	e.lsum[key] = sum
	return sum
}

// escapeResults: one obligation per reference-carrying result of a top-level function that handles guarded values.
func (e *Engine) escapeResults(u *unit, fn *ssa.Function) {
	if !u.tainted {
		return
	}
	res := fn.Signature.Results()
	rets := u.ret[fn]
	for k := 0; k < res.Len(); k++ {
		T := res.At(k).Type()
		if !refCarrier(T) {
			continue
		}
		text := fmt.Sprintf("result #%d (%s)", k, types.TypeString(T, func(p *types.Package) string { return p.Name() }))
		if k < len(rets) && len(rets[k]) > 0 {
			e.rec(REscape, fn, nil, text, Fail, "the returned value aliases guarded memory: "+e.describe(rets[k])+" (no copy into a fresh slice / no de-aliasing on some path)")
		} else {
			e.rec(REscape, fn, nil, text, OK, "no guarded alias reaches this result")
		}
	}
}

func (e *Engine) describe(s TSet) string {
	var parts []string
	seen := map[string]bool{}
	for _, t := range sortedTaints(s) {
		d := e.what(t)
		if t.Boxed {
			d += " (inside a container)"
		}
		if !seen[d] {
			seen[d] = true
			parts = append(parts, d)
		}
	}
	return strings.Join(parts, ", ")
}

func (e *Engine) recName() string {
	var ns []string
	for r := range e.Spec.Records {
		ns = append(ns, r.Obj().Name())
	}
	sort.Strings(ns)
	return strings.Join(ns, "|")
}

func (e *Engine) what(t Taint) string {
	f := "?"
	if t.F != nil {
		f = t.F.Name()
	}
	switch t.K {
	case KGuardAddr:
		return "&" + f
	case KMap, KIter, KTuple:
		return f
	case KRec:
		return "*" + e.recName()
	case KRecVal:
		return e.recName() + " copy"
	case KFieldAddr:
		return "&" + e.recName() + "." + f
	case KRef:
		return e.recName() + "." + f
	case KElemAddr:
		return "&" + e.recName() + "." + f + "[·]"
	case KMu:
		return "&" + e.Spec.Mu.Name()
	}
	return "?"
}

// ---------------------------------------------------------------------------
// per-body flow analysis

type bodyAn struct {
	sharedVia *ssa.Parameter // set by fresh(): the value traces to this parameter
	sharedWhy string         // set by fresh(): a constructor positively publishes its result
	e         *Engine
	u         *unit
	fn        *ssa.Function
	ctx       *lockCtx
	record    bool
	sum       *lockSum
	exits     int
	checkExit bool
}

func (e *Engine) analyzeBody(u *unit, fn *ssa.Function, entry *lstate, ctx *lockCtx, checkExit bool) *lockSum {
	ctx.visited[fn] = true
	a := &bodyAn{e: e, u: u, fn: fn, ctx: ctx, checkExit: checkExit, sum: &lockSum{exit: map[Root]int8{}, touched: map[Root]bool{}}}
	if len(fn.Blocks) == 0 || ctx.depth > 12 {
		for r, m := range entry.held {
			a.sum.exit[r] = m
		}
		return a.sum
	}
	ctx.depth++
	defer func() { ctx.depth-- }()
	in := map[*ssa.BasicBlock]*lstate{fn.Blocks[0]: entry.clone()}
	work := []*ssa.BasicBlock{fn.Blocks[0]}
	inWork := map[*ssa.BasicBlock]bool{fn.Blocks[0]: true}
	for steps := 0; len(work) > 0 && steps < 20000; steps++ {
		b := work[0]
		work = work[1:]
		inWork[b] = false
		st := in[b].clone()
		for _, ins := range b.Instrs {
			a.transfer(st, ins)
		}
		for _, s := range b.Succs {
			ch := false
			if cur, ok := in[s]; !ok {
				in[s] = st.clone()
				ch = true
			} else {
				ch = joinInto(cur, st)
			}
			if ch && !inWork[s] {
				inWork[s] = true
				work = append(work, s)
			}
		}
	}
	// final pass: record obligations
	a.record = true
	a.sum = &lockSum{exit: map[Root]int8{}, touched: map[Root]bool{}}
	a.exits = 0
	for _, b := range fn.Blocks {
		st0, ok := in[b]
		if !ok {
			continue
		}
		st := st0.clone()
		for _, ins := range b.Instrs {
			a.transfer(st, ins)
		}
	}
	if a.exits == 0 {
		for r, m := range entry.held {
			a.sum.exit[r] = m
		}
	}
	// pairing: one obligation per (function, lock) acquired or released under it
	if checkExit {
		for r := range a.sum.touched {
			a.e.rec(RPairing, fn, nil, a.pairText(r), OK, "every acquire is matched by exactly one release of the same mode on every path to a return")
		}
	}
	return a.sum
}

func (a *bodyAn) pairText(r Root) string {
	return fmt.Sprintf("%s.%s acquire/release pairing", a.rootName(r), a.e.Spec.Mu.Name())
}

func (a *bodyAn) rootName(r Root) string {
	switch x := r.(type) {
	case *ExtRoot:
		return "<caller's owner>"
	case *ssa.Parameter:
		return x.Name()
	case *ssa.Alloc:
		if x.Comment != "" {
			return "new(" + x.Comment + ")"
		}
		return "new " + a.e.Spec.Owner.Obj().Name()
	case *ssa.Global:
		return x.Name()
	case ssa.Value:
		return "<" + strings.TrimPrefix(fmt.Sprintf("%T", x), "*ssa.") + " of type " + types.TypeString(x.Type(), func(p *types.Package) string { return p.Name() }) + ">"
	}
	return "?"
}

func (a *bodyAn) recf(rule string, in ssa.Instruction, text string, st Status, f string, args ...any) {
	if !a.record {
		return
	}
	a.e.rec(rule, a.fn, in, text, st, fmt.Sprintf(f, args...))
}

func (a *bodyAn) unboxedOf(v ssa.Value) []Taint {
	var out []Taint
	for _, t := range sortedTaints(a.u.get(v)) {
		if !t.Boxed {
			out = append(out, t)
		}
	}
	return out
}

// freshRecords: the unpublished record allocations an address is rooted in, or nil if it may be a table record.
func (a *bodyAn) freshBase(st *lstate, addr ssa.Value) bool {
	if st.allPub {
		return false
	}
	v := addr
	for i := 0; i < 16; i++ {
		v = a.u.resolve(v)
		switch x := v.(type) {
		case *ssa.FieldAddr:
			v = x.X
			continue
		case *ssa.IndexAddr:
			v = x.X
			continue
		case *ssa.Slice:
			v = x.X
			continue
		case *ssa.UnOp:
			if x.Op == token.MUL {
				if _, isFA := a.u.resolve(x.X).(*ssa.FieldAddr); isFA {
					v = x.X
					continue
				}
			}
		}
		break
	}
	o := a.u.originsOf(v)
	if len(o.other) > 0 || len(o.params) > 0 || len(o.allocs) == 0 {
		return false
	}
	for al := range o.allocs {
		if !a.e.Spec.isRecord(derefT(al.Type())) || st.pub[al] || !a.u.inUnit[al.Parent()] {
			return false
		}
	}
	return true
}

func (a *bodyAn) access(st *lstate, in ssa.Instruction, t Taint, write bool, text string, addr ssa.Value) {
	if !a.record {
		return
	}
	sp := a.e.Spec
	kind := "read"
	if write {
		kind = "write"
	}
	// exemption 1: the owner object is allocated here and not yet published
	if al, ok := t.Root.(*ssa.Alloc); ok && !st.allPub && a.u.inUnit[al.Parent()] && sp.isOwner(derefT(al.Type())) && !st.pub[al] {
		why := "constructor exemption: the " + sp.Owner.Obj().Name() + " is allocated in this function and has not escaped yet"
		a.e.rec(RLockset, a.fn, in, text, OK, why)
		if write {
			a.e.rec(RExclusive, a.fn, in, text, OK, why)
		}
		a.e.rec(RWho, a.fn, in, text, OK, why)
		return
	}
	// exemption 2: a record that has not been inserted into the table yet
	if addr != nil && (t.K == KFieldAddr || t.K == KElemAddr || t.K == KRec) && a.freshBase(st, addr) {
		why := "the record is allocated in this function and is not in the table yet at this point"
		a.e.rec(RLockset, a.fn, in, text, OK, why)
		if write {
			a.e.rec(RExclusive, a.fn, in, text, OK, why)
		}
		a.e.rec(RWho, a.fn, in, text, OK, why)
		return
	}
	m := st.held[t.Root]
	mu := a.rootName(t.Root) + "." + sp.Mu.Name()
	if st.unk[t.Root] && m != 2 && (m < 1 || write) {
		why := "NOT DECIDED — a function value bound to " + mu + " was called before this access and could not be resolved: the lock state is not known here"
		a.e.rec(RLockset, a.fn, in, text, NotDecided, why)
		if write {
			a.e.rec(RExclusive, a.fn, in, text, NotDecided, why)
		}
		if a.ctx.allowed {
			a.e.rec(RWho, a.fn, in, text, OK, "reached from a method of "+sp.Owner.Obj().Name())
		} else {
			a.e.rec(RWho, a.fn, in, text, Fail, fmt.Sprintf("guarded memory (%s) is touched outside the methods of %s", a.e.what(t), sp.Owner.Obj().Name()))
		}
		return
	}
	switch {
	case m >= 1:
		a.e.rec(RLockset, a.fn, in, text, OK, fmt.Sprintf("%s of guarded memory with %s %s", kind, mu, modeName(m)))
	case m == 0:
		a.e.rec(RLockset, a.fn, in, text, Fail, fmt.Sprintf("%s of guarded memory (%s) but %s is not held here on the same receiver (no dominating Lock/RLock, or it was released before this access)", kind, a.e.what(t), mu))
	default:
		a.e.rec(RLockset, a.fn, in, text, Fail, fmt.Sprintf("%s of guarded memory (%s) but %s is held on some paths only", kind, a.e.what(t), mu))
	}
	if write {
		if m == 2 {
			a.e.rec(RExclusive, a.fn, in, text, OK, "write with the exclusive lock held")
		} else {
			a.e.rec(RExclusive, a.fn, in, text, Fail, fmt.Sprintf("write to guarded memory (%s) needs the exclusive Lock, but %s is %s", a.e.what(t), mu, modeName(m)))
		}
	}
	if a.ctx.allowed {
		a.e.rec(RWho, a.fn, in, text, OK, "reached from a method of "+sp.Owner.Obj().Name())
	} else {
		a.e.rec(RWho, a.fn, in, text, Fail, fmt.Sprintf("guarded memory (%s) is touched outside the methods of %s", a.e.what(t), sp.Owner.Obj().Name()))
	}
}

func (a *bodyAn) fieldText(t Taint) string { return a.e.what(t) }

// fresh: does the value denote memory nobody else can reach (new allocation, nil, append onto fresh or onto the same root's own storage)?
func (a *bodyAn) fresh(v ssa.Value, root Root, depth int) (bool, string) {
	if depth > 8 {
		return false, "too deep"
	}
	v = a.u.resolve(v)
	for _, t := range a.unboxedOf(v) {
		if t.Root == root && (t.K == KRec || t.K == KRef || t.K == KMap) {
			return true, ""
		}
	}
	switch x := v.(type) {
	case *ssa.Const:
		return true, ""
	case *ssa.Alloc, *ssa.MakeSlice, *ssa.MakeMap:
		return true, ""
	case *ssa.Slice:
		return a.fresh(x.X, root, depth+1)
	case *ssa.ChangeType:
		return a.fresh(x.X, root, depth+1)
	case *ssa.Phi:
		for _, e := range x.Edges {
			if ok, why := a.fresh(e, root, depth+1); !ok {
				return false, why
			}
		}
		return true, ""
	case *ssa.UnOp:
		if x.Op == token.MUL {
			if c, ok := a.u.resolve(x.X).(*ssa.Alloc); ok {
				sts := a.u.cellStores(c)
				if len(sts) == 0 {
					return false, "value loaded from " + x.X.Name()
				}
				for _, s := range sts {
					if ok, why := a.fresh(s.Val, root, depth+1); !ok {
						return false, why
					}
				}
				return true, ""
			}
		}
	case *ssa.Call:
		if b, ok := x.Call.Value.(*ssa.Builtin); ok && b.Name() == "append" {
			if zeroCap(x.Call.Args[0]) {
				return true, ""
			}
			return a.fresh(x.Call.Args[0], root, depth+1)
		}
		if callee := x.Call.StaticCallee(); callee != nil && extName(callee) == "slices.Clone" {
			return true, ""
		}
		return a.freshCall(x, 0, root, depth)
	case *ssa.Extract:
		if call, ok := x.Tuple.(*ssa.Call); ok {
			return a.freshCall(call, x.Index, root, depth)
		}
	case *ssa.Parameter:
		a.sharedVia = x
		return false, "parameter " + x.Name() + " (the caller keeps a reference)"
	}
	return false, fmt.Sprintf("value %s of unknown provenance", v.Name())
}

// freshCall: the value is result #idx of a declared in-module function (a
// constructor such as newNameRecord(...), possibly a closure of this unit). It is
// fresh when the callee's summary says the result is the callee's own unleaked
// allocation, modulo parameters whose arguments are judged here.
func (a *bodyAn) freshCall(call *ssa.Call, idx int, root Root, depth int) (bool, string) {
	callee := call.Call.StaticCallee()
	if callee == nil {
		return false, fmt.Sprintf("value %s is the result of a call that is not resolved statically", call.Name())
	}
	if callee.Blocks == nil || !a.e.Spec.InModule(callee) {
		return false, fmt.Sprintf("value %s is the result of %s, whose result is not known to be fresh", call.Name(), extName(callee))
	}
	sum := a.e.resultFresh(callee, idx, 0)
	if !sum.ok {
		if sum.shared != "" {
			a.sharedWhy = sum.shared
		}
		return false, fmt.Sprintf("result of %s: %s", a.e.Spec.FuncName(callee), sum.why)
	}
	var ps []int
	for i := range sum.params {
		ps = append(ps, i)
	}
	sort.Ints(ps)
	for _, i := range ps {
		if i >= len(call.Call.Args) {
			return false, fmt.Sprintf("argument #%d of %s is missing", i, a.e.Spec.FuncName(callee))
		}
		if ok, why := a.fresh(call.Call.Args[i], root, depth+1); !ok {
			return false, fmt.Sprintf("%s stores its argument #%d in the value it returns: %s", a.e.Spec.FuncName(callee), i, why)
		}
	}
	return true, ""
}

func (a *bodyAn) inbound(st *lstate, in ssa.Instruction, val ssa.Value, root Root, text string) {
	if !refCarrier(val.Type()) {
		return
	}
	o := a.u.originsOf(val)
	a.sharedVia, a.sharedWhy = nil, ""
	ok, why := a.fresh(val, root, 0)
	switch {
	case ok:
		a.recf(REscape, in, "inbound "+text, OK, "the stored value is fresh (or already owned by the same table): nobody outside holds a reference to it")
	case len(o.other) == 0 && len(o.allocs) == 0 && len(o.params) > 0 && !a.ctx.top && a.fn.Parent() == nil:
		a.recf(REscape, in, "inbound "+text, OK, "parameter stored into the table by an unexported helper: freshness is checked at each call site")
	case len(o.params) > 0 && len(o.other) == 0:
		a.recf(REscape, in, "inbound "+text, Fail, "a reference supplied by the caller is stored into guarded memory (%s): the caller can keep mutating it without the lock", why)
	case a.sharedVia != nil && a.ctx.top && a.sharedVia.Parent() == a.u.top:
		// positively observed through a constructor: newRecord(…, owners) keeps the caller's slice
		a.recf(REscape, in, "inbound "+text, Fail, "a reference supplied by the caller reaches guarded memory through a constructor (%s): the caller can keep mutating it without the lock", why)
	case a.sharedWhy != "":
		a.recf(REscape, in, "inbound "+text, Fail, "the reference stored into guarded memory is shared: %s", a.sharedWhy)
	default:
		// nothing shared was observed; the value came out of code the engine does not model
		a.recf(REscape, in, "inbound "+text, NotDecided, "NOT DECIDED — the provenance of the reference stored into guarded memory was not followed to an allocation or a parameter (%s)", why)
	}
	// record allocations become table records from here on
	for al := range o.allocs {
		if a.e.Spec.isRecord(derefT(al.Type())) {
			st.pub[al] = true
		}
	}
}

func isNilConst(v ssa.Value) bool {
	c, ok := v.(*ssa.Const)
	return ok && c.Value == nil
}

func (a *bodyAn) transfer(st *lstate, in ssa.Instruction) {
	u := a.u
	sp := a.e.Spec
	switch i := in.(type) {
	case *ssa.UnOp:
		if i.Op == token.MUL {
			for _, t := range a.unboxedOf(i.X) {
				switch t.K {
				case KGuardAddr, KFieldAddr, KRec, KElemAddr:
					a.access(st, in, t, false, "load "+a.derefText(t), i.X)
				}
			}
		}
	case *ssa.Store:
		guardedAddr := false
		for _, t := range a.unboxedOf(i.Addr) {
			switch t.K {
			case KGuardAddr, KFieldAddr, KRec, KElemAddr:
				guardedAddr = true
				a.access(st, in, t, true, "store "+a.derefText(t), i.Addr)
				a.inbound(st, in, i.Val, t.Root, "store "+a.derefText(t))
			}
		}
		if !guardedAddr {
			if vs := u.get(i.Val); len(vs) > 0 {
				a.storeEscape(st, in, i.Addr, vs)
			}
		}
	case *ssa.Lookup:
		for _, t := range a.unboxedOf(i.X) {
			if t.K == KMap || t.K == KRef {
				a.access(st, in, t, false, "lookup "+a.e.what(t)+"[·]", nil)
			}
		}
	case *ssa.MapUpdate:
		guarded := false
		for _, t := range a.unboxedOf(i.Map) {
			if t.K == KMap || t.K == KRef {
				guarded = true
				a.access(st, in, t, true, "update "+a.e.what(t)+"[·]", nil)
				a.inbound(st, in, i.Value, t.Root, "update "+a.e.what(t)+"[·]")
			}
		}
		if !guarded {
			vs := TSet{}
			vs.addAll(u.get(i.Value))
			vs.addAll(u.get(i.Key))
			if len(vs) > 0 && u.cellBase(i.Map) == nil {
				a.recf(REscape, in, "store into a map outside the table", Fail, "a guarded alias (%s) is stored into a map that is not part of the guarded table", a.e.describe(vs))
			}
		}
	case *ssa.Range:
		for _, t := range a.unboxedOf(i.X) {
			if t.K == KMap || t.K == KRef {
				a.access(st, in, t, false, "range "+a.e.what(t), nil)
			}
		}
	case *ssa.Next:
		for _, t := range a.unboxedOf(i.Iter) {
			if t.K == KIter {
				a.access(st, in, t, false, "range-next "+a.e.what(t), nil)
			}
		}
	case *ssa.Send:
		if vs := u.get(i.X); len(vs) > 0 {
			a.recf(REscape, in, "channel send", Fail, "a guarded alias (%s) is sent on a channel", a.e.describe(vs))
		}
	case *ssa.Call:
		a.applyCall(st, in, &i.Call, false)
	case *ssa.Defer:
		if len(st.defers) < 16 {
			st.defers = append(st.defers, i)
		} else {
			st.defBad = true
		}
	case *ssa.Go:
		a.applyGo(st, i)
	case *ssa.RunDefers:
		if st.defBad {
			a.recf(RPairing, in, "deferred calls", NotDecided, "NOT DECIDED — the set of deferred calls differs between the paths reaching this exit (defer under a condition or in a loop)")
		}
		for k := len(st.defers) - 1; k >= 0; k-- {
			d := st.defers[k]
			a.applyCall(st, d, &d.Call, true)
		}
		st.defers = nil
	case *ssa.Return:
		a.atReturn(st, i)
	}
	// publication of a freshly allocated owner object
	if !st.allPub {
		var rands []*ssa.Value
		rands = in.Operands(rands)
		for _, r := range rands {
			if *r == nil {
				continue
			}
			al, ok := u.resolve(*r).(*ssa.Alloc)
			if !ok || !sp.isOwner(derefT(al.Type())) {
				continue
			}
			switch x := in.(type) {
			case *ssa.FieldAddr:
				if u.resolve(x.X) == ssa.Value(al) {
					continue
				}
			case *ssa.Store:
				if u.resolve(x.Addr) == ssa.Value(al) && u.resolve(x.Val) != ssa.Value(al) {
					continue
				}
			case *ssa.DebugRef:
				continue
			}
			st.pub[al] = true
		}
	}
}

func (a *bodyAn) derefText(t Taint) string {
	switch t.K {
	case KGuardAddr:
		return t.F.Name()
	case KFieldAddr:
		return a.e.recName() + "." + t.F.Name()
	case KElemAddr:
		return a.e.recName() + "." + t.F.Name() + "[·]"
	case KRec:
		return "*" + a.e.recName()
	}
	return a.e.what(t)
}

// storeEscape: a guarded alias is stored somewhere that is neither a local cell nor guarded memory.
func (a *bodyAn) storeEscape(st *lstate, in ssa.Instruction, addr ssa.Value, vs TSet) {
	u := a.u
	if u.cellBase(addr) != nil {
		return
	}
	onlyMu := true
	for t := range vs {
		if t.K != KMu {
			onlyMu = false
		}
	}
	if onlyMu {
		a.recf(RPairing, in, "mutex address stored", NotDecided, "NOT DECIDED — the address of the mutex is stored in memory; lock operations through it cannot be followed")
		return
	}
	if fa, ok := u.resolve(addr).(*ssa.FieldAddr); ok && a.e.Spec.isOwner(derefT(fa.X.Type())) {
		a.recf(REscape, in, "store into an unguarded owner field", Undecided, "a guarded alias (%s) is stored into a field of %s that is not in the guarded set: accesses through that field are not covered by the lockset rule", a.e.describe(vs), a.e.Spec.Owner.Obj().Name())
		return
	}
	a.recf(REscape, in, "store outside the owner object", Fail, "a guarded alias (%s) is stored into memory outside the %s object", a.e.describe(vs), a.e.Spec.Owner.Obj().Name())
}

func (a *bodyAn) atReturn(st *lstate, r *ssa.Return) {
	a.exits++
	first := a.exits == 1
	if a.checkExit {
		for root, m := range st.held {
			if m == 0 {
				continue
			}
			a.sum.touched[root] = true
			if st.unk[root] {
				a.recf(RPairing, nil, a.pairText(root), NotDecided, "NOT DECIDED — a function value bound to the mutex (an unlock function handed around) is called in this function and could not be resolved; whether the lock is released at %s is not known", a.e.Spec.Pos(instrPos(r)))
				continue
			}
			if m == -1 {
				a.recf(RPairing, nil, a.pairText(root), Fail, "at the return at %s the lock is held on some paths and not on others (an unlock is missing on a path, or is conditional)", a.e.Spec.Pos(instrPos(r)))
			} else {
				a.recf(RPairing, nil, a.pairText(root), Fail, "the function returns at %s with the lock still %s (no deferred unlock and no unlock on this path)", a.e.Spec.Pos(instrPos(r)), modeName(m))
			}
		}
	}
	// exit state for callers
	keys := map[Root]bool{}
	for k := range st.held {
		keys[k] = true
	}
	for k := range a.sum.exit {
		keys[k] = true
	}
	for k := range keys {
		m := st.held[k]
		if first {
			a.sum.exit[k] = m
		} else if a.sum.exit[k] != m {
			a.sum.exit[k] = -1
		}
	}
}

func isMutexMethod(fn *ssa.Function) (string, bool) {
	obj, ok := fn.Object().(*types.Func)
	if !ok || obj.Pkg() == nil || obj.Pkg().Path() != "sync" {
		return "", false
	}
	sig := obj.Type().(*types.Signature)
	if sig.Recv() == nil {
		return "", false
	}
	n := namedOf(derefT(sig.Recv().Type()))
	if n == nil || (n.Obj().Name() != "RWMutex" && n.Obj().Name() != "Mutex") {
		return "", false
	}
	return obj.Name(), true
}

func (a *bodyAn) lockOp(st *lstate, in ssa.Instruction, root Root, op string) {
	sp := a.e.Spec
	mu := a.rootName(root) + "." + sp.Mu.Name()
	cur := st.held[root]
	a.sum.touched[root] = true
	acquire := func(mode int8) {
		text := fmt.Sprintf("%s.%s()", mu, op)
		switch {
		case cur == 0:
			a.recf(RReentry, in, text, OK, "the lock is not held when it is acquired")
		case cur == -1:
			a.recf(RReentry, in, text, Fail, "%s may already be held on some path reaching this %s: sync.RWMutex is not reentrant (self-deadlock)", mu, op)
			a.sum.reenter = append(a.sum.reenter, text+" while possibly held")
			a.bumpOver(st, root)
			return
		default:
			a.recf(RReentry, in, text, Fail, "%s is already %s when %s is called: sync.RWMutex is not reentrant (self-deadlock)", mu, modeName(cur), op)
			a.sum.reenter = append(a.sum.reenter, fmt.Sprintf("%s in %s while %s", text, sp.FuncName(a.fn), modeName(cur)))
			a.bumpOver(st, root)
			return
		}
		st.held[root] = mode
	}
	release := func(mode int8) {
		if st.over != nil && st.over[root] > 0 {
			st.over[root]--
			return
		}
		if cur != mode {
			a.recf(RPairing, nil, a.pairText(root), Fail, "%s() at %s releases a lock that is %s at that point", op, sp.Pos(instrPos(in)), modeName(cur))
		}
		st.held[root] = 0
	}
	switch op {
	case "Lock":
		acquire(2)
	case "RLock":
		acquire(1)
	case "Unlock":
		release(2)
	case "RUnlock":
		release(1)
	default:
		a.recf(RPairing, in, mu+"."+op+"()", NotDecided, "NOT DECIDED — %s is not modelled (conditional acquisition / lock handed out)", op)
	}
}

func (a *bodyAn) bumpOver(st *lstate, root Root) {
	if st.over == nil {
		st.over = map[Root]int{}
	}
	if st.over[root] < 4 {
		st.over[root]++
	}
}

func (a *bodyAn) taintedArgs(c *ssa.CallCommon) (TSet, bool) {
	all := TSet{}
	for _, arg := range c.Args {
		all.addAll(a.u.get(arg))
	}
	if !c.IsInvoke() {
		if _, isFn := c.Value.(*ssa.Function); !isFn {
			if _, isB := c.Value.(*ssa.Builtin); !isB {
				all.addAll(a.u.get(c.Value))
			}
		}
	} else {
		all.addAll(a.u.get(c.Value))
	}
	return all, len(all) > 0
}

func callText(c *ssa.CallCommon, callee *ssa.Function, name func(*ssa.Function) string) string {
	if callee != nil {
		return "call " + name(callee)
	}
	if c.IsInvoke() {
		return "call interface method " + c.Method.Name()
	}
	return "call through a function value"
}

func (a *bodyAn) applyCall(st *lstate, in ssa.Instruction, c *ssa.CallCommon, deferred bool) {
	u := a.u
	e := a.e
	sp := e.Spec
	if b, ok := c.Value.(*ssa.Builtin); ok {
		a.builtin(st, in, b.Name(), c)
		return
	}
	if !c.IsInvoke() {
		// unlock := n.mu.Unlock; defer unlock()
		if _, isFn := c.Value.(*ssa.Function); !isFn {
			if op, root, ok := a.muClosure(c.Value, 0); ok {
				a.lockOp(st, in, root, op)
				return
			}
		}
	}
	callee := u.calleeOf(c)
	if callee == nil && !c.IsInvoke() {
		// a function literal of the caller, called through this function's parameter
		if prm, ok := u.canon(c.Value).(*ssa.Parameter); ok && a.ctx.fnArgs[prm] != nil {
			ca := a.ctx.fnArgs[prm]
			if ts, ok := a.taintedArgs(c); ok {
				a.recf(REscape, in, "call of a function-valued parameter", NotDecided, "NOT DECIDED — a guarded alias (%s) is passed to a function literal supplied by the caller; its use there is not followed", e.describe(ts))
			}
			fwd := map[Root]Root{}
			s2 := &lstate{held: map[Root]int8{}, pub: map[ssa.Value]bool{}, allPub: true, over: map[Root]int{}, unk: map[Root]bool{}}
			for r, m := range st.held {
				if cr, ok := ca.back[r]; ok {
					s2.held[cr] = m
					fwd[cr] = r
				}
			}
			sub := e.analyzeBody(ca.u, ca.fn, s2, ca.ctx, false)
			for cr, m := range sub.exit {
				if r, ok := fwd[cr]; ok {
					st.held[r] = m
				}
			}
			return
		}
	}
	if callee == nil && !c.IsInvoke() {
		// unlock := n.mu.Unlock; defer unlock() / defer n.lock()() where lock() returns n.mu.Unlock
		if op, root, ok := a.muClosure(c.Value, 0); ok {
			a.lockOp(st, in, root, op)
			return
		}
		onlyMu := true
		any := false
		for t := range u.get(c.Value) {
			if t.K == KMu {
				any = true
				st.unk[t.Root] = true
			} else {
				onlyMu = false
			}
		}
		if any && onlyMu && len(c.Args) == 0 {
			a.recf(RPairing, in, "call of a function value bound to the mutex", NotDecided, "NOT DECIDED — the called function value carries the address of the mutex but is not a directly readable bound Lock/Unlock method value; its effect on the lock is not followed")
			return
		}
	}
	if callee == nil {
		if ts, ok := a.taintedArgs(c); ok {
			a.recf(REscape, in, callText(c, nil, sp.FuncName), NotDecided, "NOT DECIDED — a guarded alias (%s) is passed to a call that cannot be resolved statically", e.describe(ts))
		}
		for _, arg := range c.Args {
			if sp.isOwner(derefT(arg.Type())) && st.held[Root(u.canon(arg))] != 0 {
				a.recf(RReentry, in, callText(c, nil, sp.FuncName), NotDecided, "NOT DECIDED — the owner object is passed to a dynamically dispatched call while its lock is held; the callee may lock again")
			}
		}
		return
	}
	if op, ok := isMutexMethod(callee); ok && len(c.Args) > 0 {
		for _, t := range a.unboxedOf(c.Args[0]) {
			if t.K == KMu {
				a.lockOp(st, in, t.Root, op)
			}
		}
		return
	}
	if u.inUnit[callee] && callee != u.top {
		// closure of this unit, called (or deferred) here: same roots
		sub := e.analyzeBody(u, callee, &lstate{held: copyHeld(st.held), pub: st.pub, allPub: st.allPub, over: map[Root]int{}, unk: st.unk}, a.ctx, false)
		for r, m := range sub.exit {
			st.held[r] = m
		}
		for r := range sub.touched {
			a.sum.touched[r] = true
		}
		a.sum.reenter = append(a.sum.reenter, sub.reenter...)
		return
	}
	if callee.Blocks != nil && sp.InModule(callee) {
		ts, tainted := a.taintedArgs(c)
		_ = ts
		if !tainted && !e.touches[topOf(callee)] {
			return
		}
		b := u.bind(c, callee)
		if b.tooMany {
			a.recf(RLockset, in, callText(c, callee, sp.FuncName), NotDecided, "NOT DECIDED — guarded values of more than %d different owners are passed to one call", len(extRoots))
		}
		held := map[Root]int8{}
		for r, m := range st.held {
			if m == 0 {
				continue
			}
			if rr, ok := b.fwd[r]; ok {
				held[rr] = m
			}
		}
		if a.record {
			e.CallSites++
		}
		var fnArgs map[*ssa.Parameter]*closureArg
		for k, arg := range c.Args {
			if k >= len(callee.Params) {
				break
			}
			if mc, ok := u.resolve(arg).(*ssa.MakeClosure); ok {
				if cf, ok := mc.Fn.(*ssa.Function); ok && u.inUnit[cf] {
					if fnArgs == nil {
						fnArgs = map[*ssa.Parameter]*closureArg{}
					}
					fnArgs[callee.Params[k]] = &closureArg{u: u, fn: cf, back: b.back, ctx: a.ctx}
				}
			}
		}
		sum := e.lockAnalyze(callee, b, held, a.ctx.allowed || e.allowed(callee), false, fnArgs)
		for rr, m := range sum.exit {
			if r, ok := b.back[rr]; ok {
				st.held[r] = m
			}
		}
		for rr := range sum.touched {
			// a lock/unlock helper: its effect is part of this function's pairing
			if r, ok := b.back[rr]; ok && sum.exit[rr] != held[rr] {
				a.sum.touched[r] = true
			}
		}
		if len(sum.reenter) > 0 {
			a.recf(RReentry, in, callText(c, callee, sp.FuncName), Fail, "this call acquires a lock that is already held by the caller: %s (sync.RWMutex is not reentrant: self-deadlock)", strings.Join(sum.reenter, "; "))
		}
		// arguments the callee inserts into the table
		tsum := e.taintSummary(callee, b.params, b.key)
		for k, rr := range tsum.recordParam {
			if rr == nil || k >= len(c.Args) {
				continue
			}
			if r := b.mapBack(rr); r != nil {
				a.inbound(st, in, c.Args[k], r, fmt.Sprintf("argument #%d of %s is inserted into the table", k, sp.FuncName(callee)))
			}
		}
		return
	}
	// out-of-module callee
	ts, tainted := a.taintedArgs(c)
	x := extKind(callee)
	if tainted {
		if x == nil {
			a.recf(REscape, in, callText(c, callee, sp.FuncName), NotDecided, "NOT DECIDED — a guarded alias (%s) is passed to %s, which is not in the table of functions known not to retain their arguments", e.describe(ts), extName(callee))
		} else {
			seen := map[Root]bool{}
			for _, t := range sortedTaints(ts) {
				if t.K == KMu || seen[t.Root] {
					continue
				}
				seen[t.Root] = true
				if x.reads || x.writes {
					a.access(st, in, t, x.writes, fmt.Sprintf("%s(%s)", extName(callee), e.what(t)), nil)
				}
			}
		}
	}
	if x != nil && x.syncCallback {
		for _, arg := range c.Args {
			if mc, ok := arg.(*ssa.MakeClosure); ok {
				if cf, ok := mc.Fn.(*ssa.Function); ok && u.inUnit[cf] {
					e.analyzeBody(u, cf, &lstate{held: copyHeld(st.held), pub: st.pub, allPub: st.allPub, over: map[Root]int{}, unk: st.unk}, a.ctx, false)
				}
			}
		}
	}
}

func copyHeld(h map[Root]int8) map[Root]int8 {
	o := map[Root]int8{}
	for k, v := range h {
		o[k] = v
	}
	return o
}

func (a *bodyAn) applyGo(st *lstate, g *ssa.Go) {
	u := a.u
	e := a.e
	c := &g.Call
	if ts, ok := a.taintedArgs(c); ok {
		a.recf(REscape, g, "go statement", Fail, "a guarded alias (%s) is handed to a new goroutine, which runs without the lock", e.describe(ts))
	}
	callee := u.calleeOf(c)
	if callee == nil {
		return
	}
	if u.inUnit[callee] && callee != u.top {
		s0 := newState()
		s0.allPub = true
		e.analyzeBody(u, callee, s0, a.ctx, true)
	}
	// declared callees are entry points of their own (prepare marks them)
}

func (a *bodyAn) builtin(st *lstate, in ssa.Instruction, name string, c *ssa.CallCommon) {
	arg := func(k int) []Taint {
		if k < len(c.Args) {
			return a.unboxedOf(c.Args[k])
		}
		return nil
	}
	isMap := func(k int) bool {
		if k >= len(c.Args) {
			return false
		}
		_, ok := c.Args[k].Type().Underlying().(*types.Map)
		return ok
	}
	switch name {
	case "append":
		for _, t := range arg(0) {
			if t.K == KRef && !zeroCap(c.Args[0]) {
				a.access(st, in, t, true, "append("+a.e.what(t)+", …)", c.Args[0])
			}
		}
		for _, t := range arg(1) {
			if t.K == KRef {
				a.access(st, in, t, false, "append(…, "+a.e.what(t)+"...)", c.Args[1])
			}
		}
	case "copy":
		for _, t := range arg(0) {
			if t.K == KRef {
				a.access(st, in, t, true, "copy("+a.e.what(t)+", …)", c.Args[0])
			}
		}
		for _, t := range arg(1) {
			if t.K == KRef {
				a.access(st, in, t, false, "copy(…, "+a.e.what(t)+")", c.Args[1])
			}
		}
	case "delete":
		for _, t := range arg(0) {
			if t.K == KMap || t.K == KRef {
				a.access(st, in, t, true, "delete("+a.e.what(t)+", ·)", nil)
			}
		}
	case "clear":
		for _, t := range arg(0) {
			if t.K == KMap || t.K == KRef {
				a.access(st, in, t, true, "clear("+a.e.what(t)+")", c.Args[0])
			}
		}
	case "len", "cap":
		if isMap(0) {
			for _, t := range arg(0) {
				if t.K == KMap || t.K == KRef {
					a.access(st, in, t, false, name+"("+a.e.what(t)+")", nil)
				}
			}
		}
	}
}

// muClosure reads a function value as a bound method value of the owner's mutex
// (n.mu.Unlock, n.mu.RUnlock, n.mu.Lock …): directly, through a single-assignment local,
// or as the result of a declared in-module function all of whose returns are such a value
// on the mutex of one of its parameters (func (n *T) lock() func() { n.mu.Lock(); return
// n.mu.Unlock }). Returns the operation and the owner root in the current function.
func (a *bodyAn) muClosure(v ssa.Value, depth int) (op string, root Root, ok bool) {
	if depth > 3 {
		return "", nil, false
	}
	v = a.u.resolve(v)
	switch x := v.(type) {
	case *ssa.MakeClosure:
		fn, isFn := x.Fn.(*ssa.Function)
		if !isFn || len(x.Bindings) != 1 || !strings.HasPrefix(fn.Synthetic, "bound method wrapper") {
			return "", nil, false
		}
		obj, _ := fn.Object().(*types.Func)
		if obj == nil || obj.Pkg() == nil || obj.Pkg().Path() != "sync" {
			return "", nil, false
		}
		for _, t := range a.unboxedOf(x.Bindings[0]) {
			if t.K == KMu {
				return obj.Name(), t.Root, true
			}
		}
	case *ssa.UnOp:
		if x.Op == token.MUL {
			if c, isCell := a.u.resolve(x.X).(*ssa.Alloc); isCell {
				if sts := a.u.cellStores(c); len(sts) == 1 {
					return a.muClosure(sts[0].Val, depth+1)
				}
			}
		}
	case *ssa.Call:
		callee := x.Call.StaticCallee()
		if callee == nil || callee.Blocks == nil || !a.e.Spec.InModule(callee) || callee.Signature.Results().Len() != 1 {
			return "", nil, false
		}
		nret := 0
		param := -1
		for _, b := range callee.Blocks {
			for _, in := range b.Instrs {
				ret, isRet := in.(*ssa.Return)
				if !isRet || len(ret.Results) != 1 {
					continue
				}
				nret++
				mc, isMC := ret.Results[0].(*ssa.MakeClosure)
				if !isMC || len(mc.Bindings) != 1 {
					return "", nil, false
				}
				fn, isFn := mc.Fn.(*ssa.Function)
				if !isFn || !strings.HasPrefix(fn.Synthetic, "bound method wrapper") {
					return "", nil, false
				}
				obj, _ := fn.Object().(*types.Func)
				if obj == nil || obj.Pkg() == nil || obj.Pkg().Path() != "sync" {
					return "", nil, false
				}
				if op != "" && op != obj.Name() {
					return "", nil, false
				}
				op = obj.Name()
				fa, isFA := mc.Bindings[0].(*ssa.FieldAddr)
				if !isFA || !a.e.Spec.isOwner(derefT(fa.X.Type())) {
					return "", nil, false
				}
				st, _ := derefT(fa.X.Type()).Underlying().(*types.Struct)
				if st == nil || st.Field(fa.Field) != a.e.Spec.Mu {
					return "", nil, false
				}
				prm, isP := fa.X.(*ssa.Parameter)
				if !isP {
					return "", nil, false
				}
				k := -1
				for i, q := range callee.Params {
					if q == prm {
						k = i
					}
				}
				if k < 0 || (param >= 0 && param != k) {
					return "", nil, false
				}
				param = k
			}
		}
		if nret == 0 || param < 0 || param >= len(x.Call.Args) {
			return "", nil, false
		}
		return op, Root(a.u.canon(x.Call.Args[param])), true
	}
	return "", nil, false
}
