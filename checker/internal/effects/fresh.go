package effects

// Freshness of a value RETURNED by a declared in-module function (constructor /
// builder helpers): newNameRecord(name, typ, owner, ttl) returning &NameRecord{…},
// cloneOwners(src) returning a make+copy, a two-level chain of such helpers.
//
// A result is "fresh modulo parameters P" when, on every return of the callee,
// the returned value is rooted at an allocation the callee made itself and did
// not leak (no store of the reference outside the new object, no call that
// receives it, no closure capturing it, no channel send), every reference the
// callee stored INTO the new object is itself fresh, and the only foreign
// references that reach it are the callee's parameters in P — whose freshness the
// caller then judges on its own arguments. Anything the walk does not model makes
// the result "unknown" (never "shared").

import (
	"fmt"
	"go/token"

	"golang.org/x/tools/go/ssa"
)

type freshSum struct {
	ok     bool
	params map[int]bool // parameters whose referent becomes (part of) the result
	why    string       // when !ok: what was not understood
	// shared: positively observed — the callee itself publishes the object it returns
	// (stores the reference into a package variable, sends it on a channel, hands it to a
	// goroutine): the result is NOT fresh, whatever else holds
	shared string
}

type freshKey struct {
	fn  *ssa.Function
	idx int
}

// resultFresh summarises result #idx of fn.
func (e *Engine) resultFresh(fn *ssa.Function, idx int, depth int) *freshSum {
	if e.fsum == nil {
		e.fsum = map[freshKey]*freshSum{}
	}
	k := freshKey{fn, idx}
	if s, ok := e.fsum[k]; ok {
		return s
	}
	s := &freshSum{params: map[int]bool{}}
	if depth > 3 {
		s.why = "constructor chain deeper than 3 calls below " + e.Spec.FuncName(fn)
		return s
	}
	if fn.Blocks == nil {
		s.why = e.Spec.FuncName(fn) + " has no body"
		return s
	}
	// recursion: the in-progress summary is "unknown"
	e.fsum[k] = &freshSum{params: map[int]bool{}, why: "recursive constructor " + e.Spec.FuncName(fn)}
	w := &freshWalk{e: e, fn: fn, sum: s, seen: map[ssa.Value]bool{}, depth: depth}
	nret := 0
	s.ok = true
	for _, b := range fn.Blocks {
		for _, in := range b.Instrs {
			ret, isRet := in.(*ssa.Return)
			if !isRet || idx >= len(ret.Results) {
				continue
			}
			nret++
			if !w.walk(ret.Results[idx], 0) {
				s.ok = false
			}
		}
	}
	if nret == 0 {
		s.ok = false
		s.why = e.Spec.FuncName(fn) + " never returns"
	}
	if !s.ok && s.why == "" {
		s.why = "result of " + e.Spec.FuncName(fn) + " not understood"
	}
	e.fsum[k] = s
	return s
}

type freshWalk struct {
	e     *Engine
	fn    *ssa.Function
	sum   *freshSum
	seen  map[ssa.Value]bool
	owned map[ssa.Value]bool
	depth int
}

func (w *freshWalk) fail(f string, a ...any) bool {
	if w.sum.why == "" {
		w.sum.why = fmt.Sprintf(f, a...) + " in " + w.e.Spec.FuncName(w.fn)
	}
	return false
}

func (w *freshWalk) walk(v ssa.Value, d int) bool {
	if d > 12 {
		return w.fail("value chain too deep")
	}
	if w.seen[v] {
		return true
	}
	w.seen[v] = true
	switch x := v.(type) {
	case *ssa.Const:
		return true
	case *ssa.MakeSlice, *ssa.MakeMap:
		return true
	case *ssa.Alloc:
		return w.ownAlloc(x, d)
	case *ssa.Slice:
		return w.walk(x.X, d+1)
	case *ssa.ChangeType:
		return w.walk(x.X, d+1)
	case *ssa.Convert:
		// string → []byte allocates; other conversions keep the referent
		if !refCarrier(x.X.Type()) {
			return true
		}
		return w.walk(x.X, d+1)
	case *ssa.Phi:
		for _, e := range x.Edges {
			if !w.walk(e, d+1) {
				return false
			}
		}
		return true
	case *ssa.Parameter:
		for i, p := range w.fn.Params {
			if p == x {
				w.sum.params[i] = true
				return true
			}
		}
		return w.fail("parameter %s of an enclosing function", x.Name())
	case *ssa.UnOp:
		if x.Op != token.MUL {
			return w.fail("value %s", x.Name())
		}
		// load from a local variable cell: every value stored into it
		cell, ok := x.X.(*ssa.Alloc)
		if !ok {
			return w.fail("value loaded from %s", x.X.Name())
		}
		refs := cell.Referrers()
		if refs == nil {
			return w.fail("value loaded from %s", cell.Name())
		}
		n := 0
		for _, r := range *refs {
			switch y := r.(type) {
			case *ssa.Store:
				if y.Addr != ssa.Value(cell) {
					return w.fail("the address of variable %s is stored", cell.Comment)
				}
				n++
				if !w.walk(y.Val, d+1) {
					return false
				}
			case *ssa.UnOp, *ssa.DebugRef:
			default:
				return w.fail("variable %s is captured or its address is taken", cell.Comment)
			}
		}
		if n == 0 {
			return w.fail("value loaded from %s", cell.Name())
		}
		return true
	case *ssa.Extract:
		if call, ok := x.Tuple.(*ssa.Call); ok {
			return w.call(call, x.Index, d)
		}
		return w.fail("value %s", x.Name())
	case *ssa.Call:
		return w.call(x, 0, d)
	}
	return w.fail("value %s of unknown provenance", v.Name())
}

func (w *freshWalk) call(c *ssa.Call, idx int, d int) bool {
	if b, ok := c.Call.Value.(*ssa.Builtin); ok {
		if b.Name() == "append" && len(c.Call.Args) > 0 {
			if zeroCap(c.Call.Args[0]) {
				return true
			}
			return w.walk(c.Call.Args[0], d+1)
		}
		return w.fail("result of builtin %s", b.Name())
	}
	callee := c.Call.StaticCallee()
	if callee == nil {
		return w.fail("result of a dynamically dispatched call")
	}
	switch extName(callee) {
	case "slices.Clone", "bytes.Clone", "maps.Clone":
		return true
	}
	if callee.Blocks == nil || !w.e.Spec.InModule(callee) {
		return w.fail("result of %s", extName(callee))
	}
	sub := w.e.resultFresh(callee, idx, w.depth+1)
	if !sub.ok {
		if sub.shared != "" && w.sum.shared == "" {
			w.sum.shared = sub.shared
		}
		return w.fail("%s", sub.why)
	}
	for i := range sub.params {
		if i >= len(c.Call.Args) {
			return w.fail("argument #%d of %s", i, w.e.Spec.FuncName(callee))
		}
		if !w.walk(c.Call.Args[i], d+1) {
			return false
		}
	}
	return true
}

// ownAlloc: the allocation is the callee's own object, nothing else keeps a
// reference to it, and every reference stored into it is fresh.
func (w *freshWalk) ownAlloc(al *ssa.Alloc, d int) bool {
	if al.Parent() != w.fn {
		return w.fail("allocation %s of an enclosing function", al.Name())
	}
	// addresses/values derived from the allocations this walk is establishing as the
	// callee's own (shared across nested allocations: the slice of a new array stored
	// into a field of the new record is a store into the new object)
	if w.owned == nil {
		w.owned = map[ssa.Value]bool{}
	}
	derived := w.owned
	derived[al] = true
	work := []ssa.Value{al}
	cells := map[*ssa.Alloc]bool{}
	for len(work) > 0 {
		v := work[len(work)-1]
		work = work[:len(work)-1]
		refs := v.Referrers()
		if refs == nil {
			continue
		}
		add := func(x ssa.Value) {
			if !derived[x] {
				derived[x] = true
				work = append(work, x)
			}
		}
		for _, r := range *refs {
			switch y := r.(type) {
			case *ssa.DebugRef, *ssa.Return, *ssa.BinOp, *ssa.If:
			case *ssa.FieldAddr:
				add(y)
			case *ssa.IndexAddr:
				if y.X == v {
					add(y)
				}
			case *ssa.Slice:
				if y.X == v {
					add(y)
				}
			case *ssa.ChangeType:
				add(y)
			case *ssa.Phi:
				add(y)
			case *ssa.Field, *ssa.Index, *ssa.Lookup, *ssa.Range:
				// element / field VALUES read out of the new object
				if val, ok := r.(ssa.Value); ok && refCarrier(val.Type()) {
					add(val)
				}
			case *ssa.UnOp:
				if y.Op == token.MUL && refCarrier(y.Type()) {
					add(y)
				}
			case *ssa.Store:
				if y.Addr == v {
					// a store INTO the new object: the stored reference must be fresh
					// (elements of slices/arrays are values of the table: not judged)
					if _, isElem := v.(*ssa.IndexAddr); isElem {
						continue
					}
					if refCarrier(y.Val.Type()) && !derived[y.Val] {
						if !w.walk(y.Val, d+1) {
							return false
						}
					}
					continue
				}
				// the reference itself is stored: only into the new object or a plain local variable
				if derived[y.Addr] {
					continue
				}
				if cell, ok := y.Addr.(*ssa.Alloc); ok && cell.Parent() == w.fn && !cells[cell] {
					cells[cell] = true
					crefs := cell.Referrers()
					if crefs != nil {
						for _, cr := range *crefs {
							switch z := cr.(type) {
							case *ssa.Store:
								if z.Addr != ssa.Value(cell) {
									return w.fail("the new object escapes through the address of variable %s", cell.Comment)
								}
							case *ssa.UnOp:
								add(z)
							case *ssa.DebugRef:
							default:
								return w.fail("the new object is held in variable %s, which is captured by a closure or has its address taken", cell.Comment)
							}
						}
					}
					continue
				}
				if _, ok := y.Addr.(*ssa.Alloc); ok {
					continue
				}
				if g := globalRoot(y.Addr); g != nil {
					w.sum.shared = fmt.Sprintf("%s also stores the object it returns in the package variable %s", w.e.Spec.FuncName(w.fn), g.Name())
				}
				return w.fail("the new object is also stored elsewhere (%s)", y.Addr.Name())
			case *ssa.Send:
				w.sum.shared = fmt.Sprintf("%s also sends the object it returns on a channel", w.e.Spec.FuncName(w.fn))
				return w.fail("the new object is sent on a channel")
			case *ssa.Go:
				w.sum.shared = fmt.Sprintf("%s also hands the object it returns to a goroutine", w.e.Spec.FuncName(w.fn))
				return w.fail("the new object is handed to a goroutine")
			case *ssa.Call:
				if b, ok := y.Call.Value.(*ssa.Builtin); ok {
					switch b.Name() {
					case "len", "cap", "copy", "print", "println":
						continue
					case "append":
						if len(y.Call.Args) > 0 && y.Call.Args[0] == v {
							add(y)
						}
						continue
					}
				}
				return w.fail("the new object is passed to a call (%s) before it is returned", callText(&y.Call, y.Call.StaticCallee(), w.e.Spec.FuncName))
			default:
				return w.fail("the new object is used by %T before it is returned", r)
			}
		}
	}
	return true
}

func globalRoot(addr ssa.Value) *ssa.Global {
	for i := 0; i < 16; i++ {
		switch x := addr.(type) {
		case *ssa.Global:
			return x
		case *ssa.FieldAddr:
			addr = x.X
		case *ssa.IndexAddr:
			addr = x.X
		default:
			return nil
		}
	}
	return nil
}
