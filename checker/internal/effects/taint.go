// Package effects implements the E4 lock / alias rules of DESIGN.md §3 on
// go/ssa: a guarded-memory provenance ("taint") analysis and a flow-sensitive
// lock-state analysis, both context-sensitive over static in-module calls.
//
// The guarded set is described by a Spec: an owner struct type, its mutex
// field, the guarded owner fields (maps), and the record struct types that are
// reached through them. Everything is resolved through go/types objects.
package effects

import (
	"fmt"
	"go/token"
	"go/types"
	"sort"
	"strings"

	"golang.org/x/tools/go/ssa"
)

// Kind says how an SSA value is related to guarded memory.
type Kind uint8

const (
	KGuardAddr Kind = iota + 1 // &owner.guardedField
	KMap                       // value of a guarded owner field (the table itself)
	KIter                      // range iterator over the table
	KTuple                     // tuple with a guarded component (lookup,ok / next)
	KRec                       // *Record that is (or becomes) a table record
	KRecVal                    // Record struct copied out of the table (reference fields still alias)
	KFieldAddr                 // &record.F
	KRef                       // value of a reference-typed record field (record.Owners): aliases its backing store
	KElemAddr                  // &record.F[i]
	KMu                        // &owner.mu
)

var kindName = map[Kind]string{KGuardAddr: "guard-addr", KMap: "table", KIter: "iter", KTuple: "tuple", KRec: "record",
	KRecVal: "record-copy", KFieldAddr: "field-addr", KRef: "ref", KElemAddr: "elem-addr", KMu: "mu"}

// Root identifies the owner object a guarded value belongs to: the canonical
// SSA value of the owner pointer in the current function, or an *ExtRoot when
// the owner is only known to the caller.
type Root interface{}

type ExtRoot struct{ N int }

var extRoots = []*ExtRoot{{0}, {1}, {2}, {3}}

type Taint struct {
	K     Kind
	Root  Root
	F     *types.Var // guarded owner field (KGuardAddr, KMap, …) or record field (KFieldAddr, KRef, KElemAddr)
	Boxed bool       // held inside an interface / local aggregate / closure: no access semantics, still an alias
}

type TSet map[Taint]struct{}

func (s TSet) add(t Taint) bool {
	if _, ok := s[t]; ok {
		return false
	}
	s[t] = struct{}{}
	return true
}

func (s TSet) addAll(o TSet) bool {
	ch := false
	for t := range o {
		if s.add(t) {
			ch = true
		}
	}
	return ch
}

func boxed(s TSet) TSet {
	o := TSet{}
	for t := range s {
		if t.K == KIter || t.K == KTuple {
			continue
		}
		t.Boxed = true
		o.add(t)
	}
	return o
}

// Spec binds the engine to one lock-protected table.
type Spec struct {
	Owner    *types.Named
	Mu       *types.Var
	Guarded  map[*types.Var]bool
	Records  map[*types.Named]bool
	InModule func(*ssa.Function) bool
	FuncName func(*ssa.Function) string
	Pos      func(token.Pos) string
}

func derefT(t types.Type) types.Type {
	if p, ok := t.Underlying().(*types.Pointer); ok {
		return p.Elem()
	}
	return t
}

func namedOf(t types.Type) *types.Named {
	t = types.Unalias(t)
	n, _ := t.(*types.Named)
	return n
}

func (sp *Spec) isOwner(t types.Type) bool {
	n := namedOf(t)
	return n != nil && n.Obj() == sp.Owner.Obj()
}

func (sp *Spec) isRecord(t types.Type) bool {
	n := namedOf(t)
	if n == nil {
		return false
	}
	for r := range sp.Records {
		if r.Obj() == n.Obj() {
			return true
		}
	}
	return false
}

// refCarrier reports whether a value of type t can hold a reference to
// mutable memory. Strings are immutable; values of package time are treated as
// immutable values (time.Time's *Location is never written).
func refCarrier(t types.Type) bool {
	return refCarrier1(t, map[types.Type]bool{})
}

func refCarrier1(t types.Type, seen map[types.Type]bool) bool {
	if t == nil || seen[t] {
		return false
	}
	seen[t] = true
	if n := namedOf(t); n != nil && n.Obj().Pkg() != nil && n.Obj().Pkg().Path() == "time" {
		return false
	}
	switch u := t.Underlying().(type) {
	case *types.Basic:
		return u.Kind() == types.UnsafePointer
	case *types.Pointer, *types.Slice, *types.Map, *types.Chan, *types.Interface, *types.Signature:
		return true
	case *types.Struct:
		for i := 0; i < u.NumFields(); i++ {
			if refCarrier1(u.Field(i).Type(), seen) {
				return true
			}
		}
		return false
	case *types.Array:
		return refCarrier1(u.Elem(), seen)
	case *types.Tuple:
		for i := 0; i < u.Len(); i++ {
			if refCarrier1(u.At(i).Type(), seen) {
				return true
			}
		}
		return false
	}
	return true
}

// exactType: does a value of static type T hold taint t directly (not nested)?
func (sp *Spec) exactType(t Taint, T types.Type) bool {
	switch t.K {
	case KRec:
		p, ok := T.Underlying().(*types.Pointer)
		return ok && sp.isRecord(p.Elem())
	case KRecVal:
		return sp.isRecord(T)
	case KMap:
		return t.F != nil && types.Identical(T, t.F.Type())
	case KRef:
		return t.F != nil && types.Identical(T, t.F.Type())
	case KGuardAddr, KFieldAddr:
		p, ok := T.Underlying().(*types.Pointer)
		return ok && t.F != nil && types.Identical(p.Elem(), t.F.Type())
	case KElemAddr:
		p, ok := T.Underlying().(*types.Pointer)
		if !ok || t.F == nil {
			return false
		}
		if sl, ok := t.F.Type().Underlying().(*types.Slice); ok {
			return types.Identical(p.Elem(), sl.Elem())
		}
		return false
	case KMu:
		p, ok := T.Underlying().(*types.Pointer)
		return ok && types.Identical(p.Elem(), sp.Mu.Type())
	}
	return false
}

// unboxFor: what a boxed taint becomes when a value of type T is taken out of
// its container.
func (sp *Spec) unboxFor(T types.Type, t Taint, out TSet) {
	if !t.Boxed {
		return
	}
	if sp.exactType(t, T) {
		t.Boxed = false
		out.add(t)
		return
	}
	if refCarrier(T) {
		out.add(t)
	}
}

// ---------------------------------------------------------------------------
// unit: one declared function together with its nested anonymous functions.

type unit struct {
	e       *Engine
	top     *ssa.Function
	fns     []*ssa.Function
	inUnit  map[*ssa.Function]bool
	val     map[ssa.Value]TSet
	cells   map[ssa.Value]TSet
	fvBind  map[*ssa.FreeVar]ssa.Value
	cellFVs map[ssa.Value][]*ssa.FreeVar
	ret     map[*ssa.Function][]TSet
	changed bool
	key     string
	canonM  map[ssa.Value]ssa.Value
	tainted bool
	// parameters of top whose referent is inserted into the table of a root
	inserted map[*ssa.Parameter]Root
	// per-component taints of multi-value call results (record, err := n.lookup(name)):
	// Extract #i takes exactly what the callee returns in position i
	tuples map[*ssa.Call][]TSet
}

func collectAnon(fn *ssa.Function, out *[]*ssa.Function) {
	*out = append(*out, fn)
	for _, a := range fn.AnonFuncs {
		collectAnon(a, out)
	}
}

func isCell(v ssa.Value) bool {
	switch v.(type) {
	case *ssa.Alloc, *ssa.MakeSlice, *ssa.MakeMap:
		return true
	}
	return false
}

func (u *unit) resolve(v ssa.Value) ssa.Value {
	for i := 0; i < 8; i++ {
		fv, ok := v.(*ssa.FreeVar)
		if !ok {
			return v
		}
		b, ok := u.fvBind[fv]
		if !ok {
			return v
		}
		v = b
	}
	return v
}

// stores to a cell (in the declaring function and, via free variables, in closures)
func (u *unit) cellStores(c ssa.Value) []*ssa.Store {
	var out []*ssa.Store
	scan := func(v ssa.Value) {
		refs := v.Referrers()
		if refs == nil {
			return
		}
		for _, r := range *refs {
			if st, ok := r.(*ssa.Store); ok && u.resolve(st.Addr) == c {
				out = append(out, st)
			}
		}
	}
	scan(c)
	for _, fv := range u.cellFVs[c] {
		scan(fv)
	}
	return out
}

// canon maps an owner-pointer value to a canonical representative: through
// ChangeType, captured-variable cells with a single store, and trivial phis.
func (u *unit) canon(v ssa.Value) ssa.Value {
	if c, ok := u.canonM[v]; ok {
		return c
	}
	u.canonM[v] = v // recursion guard
	c := u.canon1(v)
	u.canonM[v] = c
	return c
}

func (u *unit) canon1(v ssa.Value) ssa.Value {
	switch x := v.(type) {
	case *ssa.ChangeType:
		return u.canon(x.X)
	case *ssa.FreeVar:
		r := u.resolve(x)
		if r != v {
			return u.canon(r)
		}
	case *ssa.UnOp:
		if x.Op == token.MUL {
			c := u.resolve(x.X)
			if a, ok := c.(*ssa.Alloc); ok {
				if st := u.cellStores(a); len(st) == 1 {
					return u.canon(st[0].Val)
				}
			}
		}
	case *ssa.Phi:
		var first ssa.Value
		for _, e := range x.Edges {
			c := u.canon(e)
			if c == v {
				continue
			}
			if first == nil {
				first = c
			} else if first != c {
				return v
			}
		}
		if first != nil {
			return first
		}
	}
	return v
}

// cellBase finds the local container (Alloc/MakeSlice/MakeMap of this unit) an
// address or slice value points into, or nil.
func (u *unit) cellBase(v ssa.Value) ssa.Value {
	return u.cellBase1(v, 0)
}

func (u *unit) guardedExact(v ssa.Value) bool {
	for t := range u.val[v] {
		if !t.Boxed {
			return true
		}
	}
	return false
}

func (u *unit) cellBase1(v ssa.Value, depth int) ssa.Value {
	for i := 0; i < 32; i++ {
		v = u.resolve(v)
		if isCell(v) {
			if f := cellFn(v); f != nil && u.inUnit[f] {
				if u.guardedExact(v) {
					return nil
				}
				return v
			}
			return nil
		}
		if u.guardedExact(v) {
			return nil
		}
		switch x := v.(type) {
		case *ssa.IndexAddr:
			v = x.X
		case *ssa.FieldAddr:
			v = x.X
		case *ssa.Slice:
			v = x.X
		case *ssa.ChangeType:
			v = x.X
		case *ssa.UnOp:
			if x.Op != token.MUL || depth > 3 {
				return nil
			}
			c := u.cellBase1(x.X, depth+1)
			if c == nil || !u.localOnly(c, depth+1) {
				return nil
			}
			return c
		default:
			return nil
		}
	}
	return nil
}

func cellFn(v ssa.Value) *ssa.Function {
	if in, ok := v.(ssa.Instruction); ok {
		return in.Parent()
	}
	return nil
}

// localOnly: every reference stored into cell c itself points into a local cell (or is nil).
func (u *unit) localOnly(c ssa.Value, depth int) bool {
	for _, st := range u.cellStores(c) {
		v := st.Val
		if !refCarrier(v.Type()) {
			continue
		}
		if k, ok := v.(*ssa.Const); ok && k.Value == nil {
			continue
		}
		if u.cellBase1(v, depth+1) == nil {
			return false
		}
	}
	return true
}

func (u *unit) get(v ssa.Value) TSet {
	v = u.resolve(v)
	s := u.val[v]
	if isCell(v) {
		if cs := u.cells[v]; len(cs) > 0 {
			o := TSet{}
			o.addAll(s)
			o.addAll(boxed(cs))
			return o
		}
	}
	return s
}

func (u *unit) set(v ssa.Value, s TSet) {
	if len(s) == 0 {
		return
	}
	cur := u.val[v]
	if cur == nil {
		cur = TSet{}
		u.val[v] = cur
	}
	if cur.addAll(s) {
		u.changed = true
	}
}

func (u *unit) addCell(c ssa.Value, s TSet) {
	if len(s) == 0 {
		return
	}
	cur := u.cells[c]
	if cur == nil {
		cur = TSet{}
		u.cells[c] = cur
	}
	if cur.addAll(boxed(s)) {
		u.changed = true
	}
}

// origins: the allocations / parameters of the unit's top function a value may
// denote (through phi, ChangeType and single local cells); other = anything else.
type origins struct {
	allocs map[*ssa.Alloc]bool
	params map[*ssa.Parameter]bool
	other  []ssa.Value
}

func (u *unit) originsOf(v ssa.Value) *origins {
	o := &origins{allocs: map[*ssa.Alloc]bool{}, params: map[*ssa.Parameter]bool{}}
	u.origins1(v, o, map[ssa.Value]bool{})
	return o
}

func (u *unit) origins1(v ssa.Value, out *origins, seen map[ssa.Value]bool) {
	v = u.resolve(v)
	if seen[v] {
		return
	}
	seen[v] = true
	switch x := v.(type) {
	case *ssa.Alloc:
		out.allocs[x] = true
		return
	case *ssa.Parameter:
		out.params[x] = true
		return
	case *ssa.Phi:
		for _, e := range x.Edges {
			u.origins1(e, out, seen)
		}
		return
	case *ssa.ChangeType:
		u.origins1(x.X, out, seen)
		return
	case *ssa.UnOp:
		if x.Op == token.MUL {
			c := u.resolve(x.X)
			if a, ok := c.(*ssa.Alloc); ok && !u.e.Spec.isRecord(derefT(a.Type())) {
				sts := u.cellStores(a)
				if len(sts) > 0 {
					for _, st := range sts {
						u.origins1(st.Val, out, seen)
					}
					return
				}
			}
		}
	}
	out.other = append(out.other, v)
}

func (e *Engine) newUnit(top *ssa.Function, params []TSet, key string) *unit {
	u := &unit{e: e, top: top, inUnit: map[*ssa.Function]bool{}, val: map[ssa.Value]TSet{}, cells: map[ssa.Value]TSet{},
		fvBind: map[*ssa.FreeVar]ssa.Value{}, cellFVs: map[ssa.Value][]*ssa.FreeVar{}, ret: map[*ssa.Function][]TSet{},
		key: key, canonM: map[ssa.Value]ssa.Value{}, inserted: map[*ssa.Parameter]Root{}, tuples: map[*ssa.Call][]TSet{}}
	collectAnon(top, &u.fns)
	for _, f := range u.fns {
		u.inUnit[f] = true
	}
	for _, f := range u.fns {
		for _, b := range f.Blocks {
			for _, in := range b.Instrs {
				if mc, ok := in.(*ssa.MakeClosure); ok {
					if cf, ok := mc.Fn.(*ssa.Function); ok {
						for i, fv := range cf.FreeVars {
							if i < len(mc.Bindings) {
								u.fvBind[fv] = mc.Bindings[i]
							}
						}
					}
				}
			}
		}
	}
	for fv, b := range u.fvBind {
		r := u.resolve(b)
		u.cellFVs[r] = append(u.cellFVs[r], fv)
	}
	for i, p := range top.Params {
		if i < len(params) && len(params[i]) > 0 {
			u.val[p] = TSet{}
			u.val[p].addAll(params[i])
		}
	}
	return u
}

func (u *unit) solve() {
	for iter := 0; iter < 50; iter++ {
		u.changed = false
		for _, f := range u.fns {
			for _, b := range f.Blocks {
				for _, in := range b.Instrs {
					u.step(f, in)
				}
			}
		}
		if !u.changed {
			break
		}
	}
	for _, s := range u.val {
		if len(s) > 0 {
			u.tainted = true
		}
	}
}

func (u *unit) step(f *ssa.Function, in ssa.Instruction) {
	sp := u.e.Spec
	out := TSet{}
	switch i := in.(type) {
	case *ssa.FieldAddr:
		stT := derefT(i.X.Type())
		st, _ := stT.Underlying().(*types.Struct)
		if st == nil {
			return
		}
		fld := st.Field(i.Field)
		if sp.isOwner(stT) {
			if sp.Guarded[fld] {
				out.add(Taint{K: KGuardAddr, Root: u.canon(i.X), F: fld})
			}
			if fld == sp.Mu {
				out.add(Taint{K: KMu, Root: u.canon(i.X)})
			}
		}
		for t := range u.get(i.X) {
			switch {
			case t.Boxed:
				out.add(t)
			case t.K == KRec:
				out.add(Taint{K: KFieldAddr, Root: t.Root, F: fld})
			case t.K == KFieldAddr || t.K == KElemAddr:
				out.add(t)
			}
		}
	case *ssa.Field:
		st, _ := i.X.Type().Underlying().(*types.Struct)
		for t := range u.get(i.X) {
			if t.Boxed {
				sp.unboxFor(i.Type(), t, out)
			} else if t.K == KRecVal && st != nil && refCarrier(i.Type()) {
				out.add(Taint{K: KRef, Root: t.Root, F: st.Field(i.Field)})
			}
		}
	case *ssa.UnOp:
		if i.Op != token.MUL {
			return
		}
		// rec := *record; … rec.Owners …: a field loaded from a LOCAL copy of a table record.
		// The copy's reference-typed fields still alias the table (KRef of that field); its
		// scalar fields are plain values. Without this the load would carry the opaque
		// "record copy inside a container" taint, which even a cloning append cannot shed.
		localCopy := map[Taint]bool{}
		if fa, isFA := i.X.(*ssa.FieldAddr); isFA {
			if cell, isCell := u.resolve(fa.X).(*ssa.Alloc); isCell && sp.isRecord(derefT(cell.Type())) {
				if st, _ := derefT(cell.Type()).Underlying().(*types.Struct); st != nil && fa.Field < st.NumFields() {
					for t := range u.cells[cell] {
						if t.K == KRecVal {
							localCopy[t] = true
							if refCarrier(i.Type()) {
								out.add(Taint{K: KRef, Root: t.Root, F: st.Field(fa.Field)})
							}
						}
					}
				}
			}
		}
		for t := range u.get(i.X) {
			if t.Boxed && localCopy[t] {
				continue
			}
			switch {
			case t.Boxed:
				sp.unboxFor(i.Type(), t, out)
			case t.K == KGuardAddr:
				out.add(Taint{K: KMap, Root: t.Root, F: t.F})
			case t.K == KFieldAddr:
				if refCarrier(i.Type()) {
					out.add(Taint{K: KRef, Root: t.Root, F: t.F})
				}
			case t.K == KRec:
				out.add(Taint{K: KRecVal, Root: t.Root})
			}
		}
	case *ssa.Lookup:
		for t := range u.get(i.X) {
			switch {
			case t.Boxed:
				if i.CommaOk {
					out.add(t)
				} else {
					sp.unboxFor(i.Type(), t, out)
				}
			case t.K == KMap:
				if i.CommaOk {
					out.add(Taint{K: KTuple, Root: t.Root, F: t.F})
				} else {
					u.byType(i.Type(), t.Root, out)
				}
			}
		}
	case *ssa.Extract:
		if call, isCall := i.Tuple.(*ssa.Call); isCall {
			if comps, has := u.tuples[call]; has {
				if i.Index < len(comps) {
					out.addAll(comps[i.Index])
				}
				break
			}
		}
		for t := range u.get(i.Tuple) {
			if t.Boxed {
				sp.unboxFor(i.Type(), t, out)
			} else if t.K == KTuple {
				u.byType(i.Type(), t.Root, out)
			}
		}
	case *ssa.Range:
		for t := range u.get(i.X) {
			if t.Boxed {
				out.add(t)
			} else if t.K == KMap {
				out.add(Taint{K: KIter, Root: t.Root, F: t.F})
			}
		}
	case *ssa.Next:
		for t := range u.get(i.Iter) {
			if t.Boxed {
				out.add(t)
			} else if t.K == KIter {
				out.add(Taint{K: KTuple, Root: t.Root, F: t.F})
			}
		}
	case *ssa.Slice:
		for t := range u.get(i.X) {
			if t.Boxed || t.K == KRef {
				out.add(t)
			}
		}
	case *ssa.IndexAddr:
		for t := range u.get(i.X) {
			if t.Boxed {
				out.add(t)
			} else if t.K == KRef {
				out.add(Taint{K: KElemAddr, Root: t.Root, F: t.F})
			}
		}
	case *ssa.Index:
		for t := range u.get(i.X) {
			sp.unboxFor(i.Type(), t, out)
		}
	case *ssa.Phi:
		for _, e := range i.Edges {
			out.addAll(u.get(e))
		}
	case *ssa.ChangeType:
		out.addAll(u.get(i.X))
	case *ssa.ChangeInterface:
		out.addAll(u.get(i.X))
	case *ssa.Convert:
		out.addAll(u.get(i.X))
	case *ssa.MultiConvert:
		out.addAll(u.get(i.X))
	case *ssa.SliceToArrayPointer:
		out.addAll(u.get(i.X))
	case *ssa.MakeInterface:
		out.addAll(boxed(u.get(i.X)))
	case *ssa.TypeAssert:
		for t := range boxed(u.get(i.X)) {
			if i.CommaOk {
				out.add(t)
			} else {
				sp.unboxFor(i.AssertedType, t, out)
			}
		}
	case *ssa.MakeClosure:
		for _, b := range i.Bindings {
			out.addAll(boxed(u.get(b)))
		}
	case *ssa.Store:
		vs := u.get(i.Val)
		if len(vs) > 0 {
			if c := u.cellBase(i.Addr); c != nil {
				u.addCell(c, vs)
			}
		}
		// a record allocation stored into guarded memory becomes a table record
		u.publishInto(i.Addr, i.Val)
		return
	case *ssa.MapUpdate:
		vs := TSet{}
		vs.addAll(u.get(i.Value))
		vs.addAll(u.get(i.Key))
		if len(vs) > 0 {
			if c := u.cellBase(i.Map); c != nil {
				u.addCell(c, vs)
			}
		}
		for t := range u.get(i.Map) {
			if !t.Boxed && t.K == KMap {
				u.markRecord(i.Value, t.Root)
			}
		}
		return
	case *ssa.Return:
		rs := u.ret[f]
		if rs == nil {
			rs = make([]TSet, len(i.Results))
			for k := range rs {
				rs[k] = TSet{}
			}
			u.ret[f] = rs
		}
		for k, r := range i.Results {
			if k < len(rs) && rs[k].addAll(u.get(r)) {
				u.changed = true
			}
		}
		return
	case *ssa.Call:
		u.stepCall(f, i, &i.Call, out)
	case *ssa.Defer:
		u.stepCall(f, nil, &i.Call, out)
		return
	case *ssa.Go:
		u.stepCall(f, nil, &i.Call, out)
		return
	default:
		return
	}
	v, ok := in.(ssa.Value)
	if !ok || len(out) == 0 {
		return
	}
	if _, isTuple := v.Type().(*types.Tuple); !isTuple && !refCarrier(v.Type()) {
		return
	}
	u.set(v, out)
}

// byType: the guarded component of a lookup / iteration, by its static type.
func (u *unit) byType(T types.Type, root Root, out TSet) {
	sp := u.e.Spec
	if p, ok := T.Underlying().(*types.Pointer); ok && sp.isRecord(p.Elem()) {
		out.add(Taint{K: KRec, Root: root})
	} else if sp.isRecord(T) {
		out.add(Taint{K: KRecVal, Root: root})
	}
}

func (u *unit) markRecord(v ssa.Value, root Root) {
	o := u.originsOf(v)
	for a := range o.allocs {
		if u.e.Spec.isRecord(derefT(a.Type())) {
			u.set(a, TSet{Taint{K: KRec, Root: root}: {}})
		}
	}
	for p := range o.params {
		if p.Parent() == u.top && u.e.Spec.isRecord(derefT(p.Type())) {
			if _, ok := u.inserted[p]; !ok {
				u.inserted[p] = root
				u.changed = true
			}
		}
	}
}

func (u *unit) publishInto(addr, val ssa.Value) {
	for t := range u.get(addr) {
		if !t.Boxed && (t.K == KFieldAddr || t.K == KElemAddr) {
			u.markRecord(val, t.Root)
		}
	}
}

// calleeOf resolves the static callee of a call, looking through closures made in this unit.
func (u *unit) calleeOf(c *ssa.CallCommon) *ssa.Function {
	if c.IsInvoke() {
		return nil
	}
	if f := c.StaticCallee(); f != nil {
		return f
	}
	return nil
}

func (u *unit) stepCall(f *ssa.Function, call *ssa.Call, c *ssa.CallCommon, out TSet) {
	if b, ok := c.Value.(*ssa.Builtin); ok {
		switch b.Name() {
		case "append":
			if len(c.Args) >= 1 && !zeroCap(c.Args[0]) {
				out.addAll(u.get(c.Args[0]))
			}
			if len(c.Args) >= 2 {
				for t := range u.get(c.Args[1]) {
					if t.Boxed {
						out.add(t)
					}
				}
			}
		case "copy":
			if len(c.Args) == 2 {
				bs := TSet{}
				for t := range u.get(c.Args[1]) {
					if t.Boxed {
						bs.add(t)
					}
				}
				if len(bs) > 0 {
					if cell := u.cellBase(c.Args[0]); cell != nil {
						u.addCell(cell, bs)
					}
				}
			}
		case "ssa:wrapnilchk":
			if len(c.Args) >= 1 {
				out.addAll(u.get(c.Args[0]))
			}
		}
		return
	}
	callee := u.calleeOf(c)
	if callee == nil {
		return
	}
	if u.inUnit[callee] && callee != u.top {
		// closure of this unit: bind parameters, take its results
		for i, p := range callee.Params {
			if i < len(c.Args) {
				u.set(p, u.get(c.Args[i]))
			}
		}
		u.callResult(call, u.ret[callee], out, nil)
		return
	}
	if callee.Blocks != nil && u.e.Spec.InModule(callee) {
		b := u.bind(c, callee)
		if b == nil {
			return
		}
		sum := u.e.taintSummary(callee, b.params, b.key)
		u.callResult(call, sum.ret, out, b.back)
		// a callee that inserts a parameter into the table makes the argument a table record
		for i, r := range sum.recordParam {
			if r != nil && i < len(c.Args) {
				if rr := b.mapBack(r); rr != nil {
					u.markRecord(c.Args[i], rr)
				}
			}
		}
		return
	}
	x := extKind(callee)
	if x != nil && x.aliasResult && len(c.Args) > 0 {
		out.addAll(u.get(c.Args[0]))
	}
	if x != nil && x.syncCallback {
		// a callback over the table (maps.DeleteFunc) receives the table's records: its
		// record-typed parameters are guarded values of the same owner
		for _, arg := range c.Args {
			mc, ok := u.resolve(arg).(*ssa.MakeClosure)
			if !ok {
				continue
			}
			cf, ok := mc.Fn.(*ssa.Function)
			if !ok || !u.inUnit[cf] {
				continue
			}
			for _, src := range c.Args {
				for t := range u.get(src) {
					if t.Boxed || t.K != KMap {
						continue
					}
					for _, p := range cf.Params {
						ts := TSet{}
						u.byType(p.Type(), t.Root, ts)
						u.set(p, ts)
					}
				}
			}
		}
	}
}

func (u *unit) callResult(call *ssa.Call, rets []TSet, out TSet, back map[Root]Root) {
	if call == nil || len(rets) == 0 {
		return
	}
	conv := func(s TSet) TSet {
		if back == nil {
			return s
		}
		o := TSet{}
		for t := range s {
			if r, ok := back[t.Root]; ok {
				t.Root = r
			}
			o.add(t)
		}
		return o
	}
	if len(rets) == 1 {
		out.addAll(conv(rets[0]))
		return
	}
	// multi-value: the tuple carries the boxed union (for consumers other than Extract);
	// Extract takes the component of its own index
	comps := u.tuples[call]
	if comps == nil {
		comps = make([]TSet, len(rets))
		for k := range comps {
			comps[k] = TSet{}
		}
		u.tuples[call] = comps
	}
	for k, r := range rets {
		c := conv(r)
		if k < len(comps) && comps[k].addAll(c) {
			u.changed = true
		}
		out.addAll(boxed(c))
	}
}

// zeroCap recognises s[:0:0]: appending to it always allocates, so the result
// does not alias s (the idiom behind slices.Clone).
func zeroCap(v ssa.Value) bool {
	sl, ok := v.(*ssa.Slice)
	if !ok || sl.Max == nil {
		return false
	}
	k, ok := sl.Max.(*ssa.Const)
	if !ok || k.Value == nil {
		return false
	}
	return k.Int64() == 0
}

// ---------------------------------------------------------------------------
// binding of caller values to callee parameters

type binding struct {
	params  []TSet
	fwd     map[Root]Root
	back    map[Root]Root
	key     string
	tooMany bool
}

func (b *binding) mapBack(r Root) Root {
	if x, ok := b.back[r]; ok {
		return x
	}
	return nil
}

func valueOrder(v ssa.Value) string {
	return fmt.Sprintf("%010d/%s", v.Pos(), v.Name())
}

func rootOrder(r Root) string {
	switch x := r.(type) {
	case *ExtRoot:
		return fmt.Sprintf("e%d", x.N)
	case ssa.Value:
		return "v" + valueOrder(x)
	}
	return "?"
}

func sortedTaints(s TSet) []Taint {
	var ts []Taint
	for t := range s {
		ts = append(ts, t)
	}
	sort.Slice(ts, func(i, j int) bool {
		a, b := ts[i], ts[j]
		if a.K != b.K {
			return a.K < b.K
		}
		if ra, rb := rootOrder(a.Root), rootOrder(b.Root); ra != rb {
			return ra < rb
		}
		an, bn := "", ""
		if a.F != nil {
			an = a.F.Name()
		}
		if b.F != nil {
			bn = b.F.Name()
		}
		if an != bn {
			return an < bn
		}
		return !a.Boxed && b.Boxed
	})
	return ts
}

// bind maps the owner roots and taints of the call arguments into the callee's terms.
func (u *unit) bind(c *ssa.CallCommon, callee *ssa.Function) *binding {
	sp := u.e.Spec
	b := &binding{fwd: map[Root]Root{}, back: map[Root]Root{}}
	n := len(callee.Params)
	if len(c.Args) < n {
		n = len(c.Args)
	}
	for i := 0; i < n; i++ {
		if sp.isOwner(derefT(c.Args[i].Type())) {
			r := Root(u.canon(c.Args[i]))
			if _, ok := b.fwd[r]; !ok {
				b.fwd[r] = callee.Params[i]
				b.back[callee.Params[i]] = r
			} else {
				b.back[callee.Params[i]] = r
			}
		}
	}
	b.params = make([]TSet, len(callee.Params))
	next := 0
	var kb strings.Builder
	for i := 0; i < n; i++ {
		ts := sortedTaints(u.get(c.Args[i]))
		if len(ts) == 0 {
			continue
		}
		ps := TSet{}
		for _, t := range ts {
			r, ok := b.fwd[t.Root]
			if !ok {
				if next >= len(extRoots) {
					b.tooMany = true
					r = extRoots[len(extRoots)-1]
				} else {
					r = extRoots[next]
					next++
				}
				b.fwd[t.Root] = r
				b.back[r] = t.Root
			}
			t.Root = r
			ps.add(t)
		}
		b.params[i] = ps
		fmt.Fprintf(&kb, "%d:", i)
		for _, t := range sortedTaints(ps) {
			fn := ""
			if t.F != nil {
				fn = t.F.Name()
			}
			fmt.Fprintf(&kb, "%d/%s/%s/%v,", t.K, rootKeyIn(callee, t.Root), fn, t.Boxed)
		}
		kb.WriteString(";")
	}
	b.key = kb.String()
	return b
}

func rootKeyIn(callee *ssa.Function, r Root) string {
	switch x := r.(type) {
	case *ExtRoot:
		return fmt.Sprintf("e%d", x.N)
	case *ssa.Parameter:
		for i, p := range callee.Params {
			if p == x {
				return fmt.Sprintf("p%d", i)
			}
		}
	}
	return "?"
}

// ---------------------------------------------------------------------------
// taint summaries of declared functions

type taintSum struct {
	u           *unit
	ret         []TSet
	recordParam []Root // parameter i is inserted into the table of this root
}

func (e *Engine) taintSummary(fn *ssa.Function, params []TSet, key string) *taintSum {
	k := fnKey{fn, key}
	if s, ok := e.tsum[k]; ok {
		return s
	}
	s := &taintSum{}
	e.tsum[k] = s // recursion: empty summary while in progress
	u := e.newUnit(fn, params, key)
	s.u = u
	u.solve()
	s.ret = u.ret[fn]
	s.recordParam = make([]Root, len(fn.Params))
	for i, p := range fn.Params {
		if r, ok := u.inserted[p]; ok {
			s.recordParam[i] = r
		}
	}
	return s
}

type fnKey struct {
	fn  *ssa.Function
	key string
}

// ---------------------------------------------------------------------------
// external (out-of-module) callee contracts for guarded arguments

type extContract struct {
	reads, writes bool
	aliasResult   bool // result aliases argument 0
	syncCallback  bool // function-valued arguments are called before the call returns
}

var extTable = map[string]*extContract{
	"fmt.Sprintf": {reads: true}, "fmt.Sprint": {reads: true}, "fmt.Sprintln": {reads: true}, "fmt.Errorf": {reads: true},
	"fmt.Printf": {reads: true}, "fmt.Println": {reads: true}, "fmt.Print": {reads: true},
	"fmt.Fprintf": {reads: true}, "fmt.Fprintln": {reads: true}, "fmt.Fprint": {reads: true},
	"encoding/json.Marshal": {reads: true}, "encoding/json.MarshalIndent": {reads: true},
	"log.Printf": {reads: true}, "log.Println": {reads: true}, "log.Print": {reads: true},
	"slices.Clone": {reads: true}, "slices.Contains": {reads: true}, "slices.ContainsFunc": {reads: true, syncCallback: true},
	"slices.Index": {reads: true}, "slices.IndexFunc": {reads: true, syncCallback: true},
	"slices.Equal": {reads: true}, "slices.EqualFunc": {reads: true, syncCallback: true},
	"slices.Delete": {reads: true, writes: true, aliasResult: true}, "slices.DeleteFunc": {reads: true, writes: true, aliasResult: true, syncCallback: true},
	"slices.Insert": {reads: true, writes: true, aliasResult: true}, "slices.Compact": {reads: true, writes: true, aliasResult: true},
	"slices.CompactFunc": {reads: true, writes: true, aliasResult: true, syncCallback: true},
	"slices.Grow":        {reads: true, aliasResult: true}, "slices.Clip": {aliasResult: true},
	"slices.Sort": {reads: true, writes: true}, "slices.SortFunc": {reads: true, writes: true, syncCallback: true},
	"slices.SortStableFunc": {reads: true, writes: true, syncCallback: true}, "slices.Reverse": {reads: true, writes: true},
	"sort.Slice": {reads: true, writes: true, syncCallback: true}, "sort.SliceStable": {reads: true, writes: true, syncCallback: true},
	// maps.DeleteFunc(m, del) is `for k, v := range m { if del(k, v) { delete(m, k) } }`: it reads and
	// writes the table, calls del before returning and keeps neither the map nor the callback
	"maps.DeleteFunc": {reads: true, writes: true, syncCallback: true},
}

func extName(fn *ssa.Function) string {
	f := fn
	if o := fn.Origin(); o != nil {
		f = o
	}
	obj := f.Object()
	if obj == nil || obj.Pkg() == nil {
		return f.String()
	}
	if sig, ok := obj.Type().(*types.Signature); ok && sig.Recv() != nil {
		return f.String()
	}
	return obj.Pkg().Path() + "." + obj.Name()
}

func extKind(fn *ssa.Function) *extContract {
	return extTable[extName(fn)]
}

// ExtTableNames lists the trusted external contracts (for evidence).
func ExtTableNames() []string {
	var out []string
	for k := range extTable {
		out = append(out, k)
	}
	sort.Strings(out)
	return out
}
