package wire

import (
	"fmt"
	"go/token"
	"go/types"

	"golang.org/x/tools/go/ssa"
)

// binstruct.go: the reflective codec of encoding/binary.
//
//	buf, err = binary.Append(buf, binary.BigEndian, m.Header)
//	n, err   = binary.Encode(buf[a:b], binary.BigEndian, &m.Header)
//	err      = binary.Write(&builder, binary.BigEndian, m.Header)
//	n, err   = binary.Decode(data[:HeaderSize], binary.BigEndian, &msg.Header)
//	err      = binary.Read(bytes.NewReader(data[a:b]), binary.BigEndian, &msg.Header)
//
// The documented contract (package encoding/binary, "fixed-size values"): a
// struct is encoded field by field in declaration order, each fixed-size
// integer / boolean with its own width in the byte order given, arrays element
// by element, blank (_) fields as zero bytes that are skipped on decoding,
// without any padding. That contract is what is modelled here: the call
// becomes one `fixed` atom per leaf field, exactly as if the code had written
// one PutUintN / UintN per field. The byte order must be the package variable
// binary.BigEndian or binary.LittleEndian itself, and the data a fixed-size
// integer, or a struct (value or pointer) made of such; anything else is not
// read (the layout is then incomplete there, never guessed).

// binOrderOf: v is the interface value made from binary.BigEndian / LittleEndian.
func binOrderOf(v ssa.Value) string {
	mi, ok := v.(*ssa.MakeInterface)
	if !ok {
		return ""
	}
	switch types.TypeString(mi.X.Type(), nil) {
	case "encoding/binary.bigEndian":
		return "BE"
	case "encoding/binary.littleEndian":
		return "LE"
	}
	return ""
}

// binLeaf is one fixed-size leaf of a value laid out by encoding/binary.
type binLeaf struct {
	path  string // field path below the value ("" for a scalar)
	width int
	blank bool
	idx   []int // struct field indices leading to it (-1-k for array element k)
}

func binLeaves(t types.Type, prefix string, idx []int, out *[]binLeaf, blank bool) bool {
	if len(*out) > 256 {
		return false
	}
	switch u := t.Underlying().(type) {
	case *types.Basic:
		w := 0
		switch u.Kind() {
		case types.Int8, types.Uint8, types.Bool:
			w = 1
		case types.Int16, types.Uint16:
			w = 2
		case types.Int32, types.Uint32, types.Float32:
			w = 4
		case types.Int64, types.Uint64, types.Float64:
			w = 8
		default:
			return false // int, uint, uintptr, string …: not fixed-size for encoding/binary
		}
		*out = append(*out, binLeaf{path: prefix, width: w, blank: blank, idx: append([]int(nil), idx...)})
		return true
	case *types.Array:
		if u.Len() > 64 {
			return false
		}
		for k := int64(0); k < u.Len(); k++ {
			if !binLeaves(u.Elem(), fmt.Sprintf("%s[%d]", prefix, k), append(idx, int(-1-k)), out, blank) {
				return false
			}
		}
		return true
	case *types.Struct:
		for i := 0; i < u.NumFields(); i++ {
			f := u.Field(i)
			if !binLeaves(f.Type(), join(prefix, f.Name()), append(idx, i), out, blank || f.Name() == "_") {
				return false
			}
		}
		return true
	}
	return false
}

// binDataAtoms: the atoms binary.Append/Write/Encode emit for `data` (the
// interface argument) at call `at`.
func (x *X) binDataAtoms(data, order ssa.Value, at ssa.Instruction) ([]Atom, string) {
	ord := binOrderOf(order)
	if ord == "" {
		return nil, "the byte order handed to encoding/binary is not binary.BigEndian / binary.LittleEndian itself"
	}
	mi, ok := x.res(data).(*ssa.MakeInterface)
	if !ok {
		return nil, "the value handed to encoding/binary is not built at the call"
	}
	v := x.res(mi.X)
	// scalar
	if _, isB := v.Type().Underlying().(*types.Basic); isB {
		var ls []binLeaf
		if !binLeaves(v.Type(), "", nil, &ls, false) {
			return nil, "encoding/binary is handed a value that is not fixed-size: " + v.Type().String()
		}
		return []Atom{x.valueAtom(v, ls[0].width, ord, at)}, ""
	}
	// struct by pointer or by value
	var addr ssa.Value // where the struct lives
	var when ssa.Instruction = at
	t := v.Type()
	if p, isP := t.Underlying().(*types.Pointer); isP {
		addr, t = v, p.Elem()
	} else if ld, isLd := v.(*ssa.UnOp); isLd && ld.Op == token.MUL {
		addr, when = ld.X, ld
	}
	if _, isS := t.Underlying().(*types.Struct); !isS {
		return nil, "encoding/binary is handed a " + t.String() + " (only fixed-size integers and structs of them are read)"
	}
	var ls []binLeaf
	if !binLeaves(t, "", nil, &ls, false) {
		return nil, "encoding/binary is handed a struct with a field that is not fixed-size: " + t.String()
	}
	if addr == nil {
		return nil, "the struct handed to encoding/binary is not loaded from a variable or field"
	}
	base, havePath := x.Path(addr)
	if !havePath {
		base, havePath = x.basePath(addr)
	}
	var out []Atom
	for _, l := range ls {
		if l.blank {
			out = append(out, Atom{Kind: "pad", Width: l.width, Expr: "0", At: at, Pos: at.Pos()})
			continue
		}
		var val ssa.Value
		if len(l.idx) == 1 && l.idx[0] >= 0 {
			val = x.FI.FieldValueAt(addr, l.idx[0], when)
		}
		switch {
		case havePath:
			a := Atom{Kind: "fixed", Width: l.width, Order: ord, Field: join(base, l.path), Val: val, At: at, Pos: at.Pos()}
			if val != nil {
				f, e, lenOf, narrow := x.desc(val)
				if f != "" && f != a.Field && e == "" {
					e = f
				}
				a.Expr, a.LenOf, a.Narrow = e, lenOf, narrow
			}
			if l.width == 1 {
				a.Order = ""
			}
			out = append(out, a)
		case val != nil:
			out = append(out, x.valueAtom(val, l.width, ord, at))
		default:
			return nil, "field " + l.path + " of the struct handed to encoding/binary could not be traced to a subject field or a value"
		}
	}
	return out, ""
}

// binAppendCall: call is binary.Append(buf, order, data).
func binAppendCall(call *ssa.Call) bool {
	return stdName(call.Call.StaticCallee()) == "encoding/binary.Append" && len(call.Call.Args) == 3
}

// encBinAppend: layout of the slice returned by binary.Append.
func (x *X) encBinAppend(call *ssa.Call) []Atom {
	cc := call.Common()
	tail, why := x.binDataAtoms(cc.Args[2], cc.Args[1], call)
	pre := append([]Atom(nil), x.enc(cc.Args[0], call)...)
	if why != "" {
		return append(pre, unknown(call.Pos(), "%s", why)...)
	}
	return append(pre, tail...)
}

// ---------------------------------------------------------------------------
// decoder

// binDecodeSource: call is binary.Decode(buf, …) or binary.Read(bytes.NewReader(buf), …)
// — returns the byte sequence that is decoded.
func binDecodeSource(call *ssa.Call) (ssa.Value, bool) {
	cc := call.Common()
	switch stdName(cc.StaticCallee()) {
	case "encoding/binary.Decode":
		if len(cc.Args) == 3 {
			return cc.Args[0], true
		}
	case "encoding/binary.Read":
		if len(cc.Args) != 3 {
			return nil, false
		}
		mi, ok := cc.Args[0].(*ssa.MakeInterface)
		if !ok {
			return nil, false
		}
		nr, ok := mi.X.(*ssa.Call)
		if !ok || len(nr.Call.Args) != 1 {
			return nil, false
		}
		switch stdName(nr.Call.StaticCallee()) {
		case "bytes.NewReader", "bytes.NewBuffer":
		default:
			return nil, false
		}
		// the reader must be used for this one call only (a second Read would
		// continue where this one stopped)
		n := 0
		for _, r := range *nr.Referrers() {
			if _, isDbg := r.(*ssa.DebugRef); !isDbg {
				n++
			}
		}
		for _, r := range *mi.Referrers() {
			if _, isDbg := r.(*ssa.DebugRef); !isDbg {
				n++
			}
		}
		if n != 2 {
			return nil, false
		}
		return nr.Call.Args[0], true
	}
	return nil, false
}

// binConsumer: the only use of the view s of the input is as the source of a
// binary.Decode / binary.Read call: the reads are described by that call.
func binConsumer(s ssa.Value) *ssa.Call {
	var one *ssa.Call
	if s.Referrers() == nil {
		return nil
	}
	for _, r := range *s.Referrers() {
		switch y := r.(type) {
		case *ssa.DebugRef:
		case *ssa.Call:
			if one != nil {
				return nil
			}
			if stdName(y.Call.StaticCallee()) == "bytes.NewReader" || stdName(y.Call.StaticCallee()) == "bytes.NewBuffer" {
				// … wrapped in a reader that feeds one binary.Read
				for _, rr := range *y.Referrers() {
					if mi, ok := rr.(*ssa.MakeInterface); ok {
						for _, r3 := range *mi.Referrers() {
							if c3, ok := r3.(*ssa.Call); ok {
								if src, ok := binDecodeSource(c3); ok && src == s {
									one = c3
								}
							}
						}
					}
				}
				if one == nil {
					return nil
				}
				continue
			}
			if src, ok := binDecodeSource(y); ok && src == s {
				one = y
			} else {
				return nil
			}
		default:
			return nil
		}
	}
	return one
}

// decBinDecode: the reads of binary.Decode / binary.Read over a view of the input.
func (x *X) decBinDecode(t *ssa.Call, add func(Atom)) bool {
	src, ok := binDecodeSource(t)
	if !ok {
		return false
	}
	root, off, okr := x.bufRoot(src)
	if !okr || !x.isInput(root) {
		return false
	}
	cc := t.Common()
	bad := func(why string) bool {
		o := off
		add(Atom{Kind: "unknown", Expr: why, At: t, Pos: t.Pos(), Off: &o})
		return true
	}
	ord := binOrderOf(cc.Args[1])
	if ord == "" {
		return bad("the byte order handed to encoding/binary is not binary.BigEndian / binary.LittleEndian itself")
	}
	mi, isMI := cc.Args[2].(*ssa.MakeInterface)
	if !isMI {
		return bad("the destination handed to encoding/binary is not built at the call")
	}
	p, isP := mi.X.Type().Underlying().(*types.Pointer)
	if !isP {
		return bad("encoding/binary decodes into a value that is not a pointer")
	}
	var ls []binLeaf
	if !binLeaves(p.Elem(), "", nil, &ls, false) {
		return bad("encoding/binary decodes into " + p.Elem().String() + ", which is not a fixed-size integer or a struct of them")
	}
	base, havePath := x.Path(mi.X)
	if !havePath {
		base, havePath = x.basePath(mi.X)
	}
	cur := off
	for _, l := range ls {
		o := cur
		e := cur.AddK(int64(l.width))
		cur = e
		if l.blank {
			add(Atom{Kind: "pad", Width: l.width, Expr: "0", At: t, Pos: t.Pos(), Off: &o, End: &e})
			continue
		}
		a := Atom{Kind: "fixed", Width: l.width, Order: ord, At: t, Pos: t.Pos(), Off: &o, End: &e}
		if l.width == 1 {
			a.Order = ""
		}
		if havePath {
			a.Field = join(base, l.path)
		} else {
			a.Expr = x.exprString(mi.X, 0) + "." + l.path
			a.Local = true
		}
		add(a)
	}
	return true
}
