// Package wire is a second front end of E2 (DESIGN.md §3) for codecs written
// in the "cursor" style used by network/llmnr and network/netbios/nbtns:
//
//   - encoders that re-use one scratch buffer (PutUintN; append(out, scratch...)),
//     take their subject by value, range over a slice literal of sections, or
//     use AppendUintN;
//   - decoders that fill a local struct (or a struct literal) and return it
//     together with the new offset — func(data, offset) (T, newOffset, error) —,
//     advance a cursor that is either a loop φ or a variable captured by a
//     closure, and call closures once per section.
//
// Shapes that are decided the same way as the plain ones (added after
// independently written behaviour-preserving refactors were rejected):
//
//   - a loop over a constant local table (an array or slice literal, possibly of
//     structs, whose elements are fields of the subject) is UNROLLED: the body
//     is read once per row with table[i] resolved to the row's value
//     (tableLoop/unroll), so `for _, w := range [6]uint16{m.ID, …}` is six
//     atoms and `for _, s := range sections {…}` is one repeat per section;
//   - an in-module helper that is not itself a codec unit (X.Units) is analysed
//     at its call site with its parameters bound to the caller's arguments:
//     appenders func(buf, v…) ([]byte[, error]) including loops over a section
//     (inlineAppender), cursor helpers func(data, off, v…) (T, newOff, error)
//     including loops (inlineCursor), one-read getters (inlineReader);
//   - one buffer of run-time size filled at computed offsets
//     (make([]byte, len(name)+10+len(rdata)); copy; PutUintN(buf[off+k:], …))
//     is a layout when the writes tile it exactly (symBufContent);
//   - an output buffer that is a local variable captured by a closure
//     (put16 := func(v uint16) { packet = AppendUint16(packet, v) }) lives in
//     memory; its content is recovered from the stores to it and the calls of
//     the closures that capture it, each closure summarised by what it appends
//     (cell.go);
//   - encoding/binary's reflective codec over a struct of fixed-size integers
//     (binary.Append / Decode / Read) is one atom per leaf field in declaration
//     order (binstruct.go);
//   - a placeholder byte that is appended and overwritten once what follows it
//     is known (buf[lengthAt] = byte(len(buf)-lengthAt-1)) is the stored value
//     (backfill.go); an append-style codec unit func(dst) ([]byte, error) is one
//     nested atom after the caller's buffer;
//   - counted loops in any of their SSA forms (3-clause, range over a slice,
//     range over an integer with its test at the latch) — Iter;
//   - slices.Concat / bytes.Clone / slices.Clone / slices.Grow pass bytes
//     through; string concatenation concatenates layouts; an index into a
//     constant string by a constant is a constant (FoldConst).
//
// Nothing is executed. Encoders are read backwards from the returned slice
// (as internal/codec does) but the contents of a fixed scratch buffer are
// resolved flow-sensitively at the instruction that appends it. Decoders are
// read forwards from every instruction that READS the input buffer: each read
// becomes an atom [Off, End) with symbolic bounds over SSA values, and the
// value read is chased to the field it is stored into.
package wire

import (
	"fmt"
	"go/constant"
	"go/token"
	"go/types"
	"os"
	"sort"
	"strings"

	"golang.org/x/tools/go/ssa"

	"manticheck/internal/prove"
)

// ---------------------------------------------------------------------------
// symbolic linear forms over SSA values

// Sym is K + Σ coef·term. Terms are SSA values the evaluator does not look
// through (φ, parameters, call results, un-forwardable loads).
type Sym struct {
	K int64
	T map[ssa.Value]int64
}

func SymK(k int64) Sym { return Sym{K: k} }
func SymT(v ssa.Value) Sym {
	return Sym{T: map[ssa.Value]int64{v: 1}}
}

func (a Sym) Add(b Sym) Sym {
	out := Sym{K: a.K + b.K, T: map[ssa.Value]int64{}}
	for k, v := range a.T {
		out.T[k] += v
	}
	for k, v := range b.T {
		out.T[k] += v
	}
	for k, v := range out.T {
		if v == 0 {
			delete(out.T, k)
		}
	}
	return out
}

func (a Sym) Scale(c int64) Sym {
	out := Sym{K: a.K * c, T: map[ssa.Value]int64{}}
	if c == 0 {
		return out
	}
	for k, v := range a.T {
		out.T[k] = v * c
	}
	return out
}

func (a Sym) Sub(b Sym) Sym    { return a.Add(b.Scale(-1)) }
func (a Sym) AddK(k int64) Sym { return a.Add(SymK(k)) }

func (a Sym) Equal(b Sym) bool {
	d := a.Sub(b)
	return d.K == 0 && len(d.T) == 0
}

// Const returns the value when the form has no terms.
func (a Sym) Const() (int64, bool) { return a.K, len(a.T) == 0 }

// Single returns v when the form is exactly 1·v.
func (a Sym) Single() (ssa.Value, bool) {
	if a.K != 0 || len(a.T) != 1 {
		return nil, false
	}
	for k, c := range a.T {
		if c == 1 {
			return k, true
		}
	}
	return nil, false
}

// Coef returns the coefficient of term v.
func (a Sym) Coef(v ssa.Value) int64 { return a.T[v] }

// ---------------------------------------------------------------------------
// atoms

// Atom is one element of a wire layout.
type Atom struct {
	Kind  string // fixed | bytes | nested | repeat | const | pad | unknown
	Width int    // bytes; 0 when variable
	Order string // BE | LE | "" (single byte / raw bytes)
	Field string // field path of the subject the bytes come from / go to
	Expr  string // what the value is when it is not a plain field (len(F), constant, …)
	Via   string // decoder: helper the bytes pass through before being stored (FirstLevelDecode)

	Callee *ssa.Function // nested: the codec function called
	// Definite (unknown): the extraction was complete and what it found is a
	// defect in itself (two writes over the same bytes of the output buffer),
	// as opposed to a shape that could not be read.
	Definite bool
	// Unread (encoder, nested): the callee is an in-module producer that is not
	// a codec unit and whose own layout could not be read — why.
	Unread string
	Over   string   // repeat: the section ranged over / appended to
	Count  string   // repeat (decoder): what bounds the loop
	Lit    []string // repeat over a slice literal of sections: its elements
	Body   []Atom

	Val    ssa.Value // encoder: the value emitted; decoder: the value read
	LenOf  ssa.Value // encoder: Val is len(LenOf), possibly narrowed
	Narrow bool      // encoder: Val passes through a narrowing conversion
	At     ssa.Instruction
	Pos    token.Pos
	Cond   bool

	// decoder side
	Off, End *Sym
	Cursor   string // repeat: "phi" | "cell"
	Loop     *Loop
	In, Out  *Sym // repeat: cursor at iteration start / at the back edge
	Local    bool // the value read is only used locally (a length, a tag)
	// From: the read is made inside a cursor helper that was analysed at its
	// call site (At is the call); its guards live in the helper.
	From *X
	// ret: (helper analysis) the value read is returned as result 0, after
	// passing through retVia.
	ret    bool
	retVia string
}

func (a Atom) String() string {
	var sb strings.Builder
	name := a.Field
	if name == "" && a.Expr != "" {
		name = "(" + a.Expr + ")"
	}
	if name == "" {
		name = "_"
	}
	switch a.Kind {
	case "fixed":
		fmt.Fprintf(&sb, "%s:%d%s", name, a.Width, a.Order)
	case "bytes":
		fmt.Fprintf(&sb, "%s:bytes", name)
		if a.Width > 0 {
			fmt.Fprintf(&sb, "[%d]", a.Width)
		}
	case "nested":
		cn := "?"
		if a.Callee != nil {
			cn = a.Callee.Name()
		}
		fmt.Fprintf(&sb, "%s:%s()", name, cn)
	case "repeat":
		var parts []string
		for _, b := range a.Body {
			parts = append(parts, b.String())
		}
		hdr := a.Over
		if a.Count != "" {
			hdr = a.Count + "×" + a.Over
		}
		fmt.Fprintf(&sb, "repeat(%s){%s}", hdr, strings.Join(parts, " "))
	case "const":
		fmt.Fprintf(&sb, "const(%s):%d", a.Expr, a.Width)
	case "pad":
		fmt.Fprintf(&sb, "pad:%d", a.Width)
	default:
		fmt.Fprintf(&sb, "?%s", a.Expr)
	}
	if a.Via != "" {
		fmt.Fprintf(&sb, "<%s>", a.Via)
	}
	if a.Cond {
		sb.WriteString("?")
	}
	return sb.String()
}

func Render(as []Atom) string {
	var p []string
	for _, a := range as {
		p = append(p, a.String())
	}
	return strings.Join(p, " ")
}

// Flatten expands repeat bodies.
func Flatten(as []Atom) []Atom {
	var out []Atom
	for _, a := range as {
		if a.Kind == "repeat" {
			out = append(out, Flatten(a.Body)...)
			continue
		}
		out = append(out, a)
	}
	return out
}

// HasUnknown reports the first unknown atom.
func HasUnknown(as []Atom) (Atom, bool) {
	for _, a := range Flatten(as) {
		if a.Kind == "unknown" {
			return a, true
		}
	}
	return Atom{}, false
}

// ---------------------------------------------------------------------------
// extractor

// Loop is a natural loop.
type Loop struct {
	Header *ssa.BasicBlock
	Blocks map[*ssa.BasicBlock]bool
	Parent *Loop
}

// X extracts layouts from one function.
type X struct {
	W      *prove.World
	Fn     *ssa.Function
	FI     *prove.FuncInfo
	Parent *X
	// Roots: values whose fields count as subject fields, with the path prefix
	// they stand for ("" = the subject itself, "Questions[*]" = an element).
	Roots map[ssa.Value]string
	// Lits: slice literals of sections (value → element paths).
	Lits map[ssa.Value][]string
	// Names: how opaque values are rendered (closure parameters bound at the call site).
	Names map[ssa.Value]string
	// Units: codec functions that are compared as a whole (Encode/Decode pairs);
	// every other in-module helper may be analysed at its call site.
	Units map[*ssa.Function]bool

	// env: values resolved to other values while a loop over a constant table
	// is being unrolled (table[i] → the element stored at index k).
	env map[ssa.Value]ssa.Value
	// symOf: linear forms assigned to values by the extractor itself (the new
	// offset returned by an inlined cursor helper).
	symOf map[ssa.Value]Sym

	// cells: buffer variables captured by closures (cell.go)
	cells map[ssa.Value]*cellInfo

	// view cells (view.go)
	viewFields map[viewField]bool // on the outermost extractor
	vs         *viewState
	vsDone     bool
	vsEvents   []ssa.Instruction
	viewBad    string
	windows    map[ssa.Value]*viewWindow
	// unread: memo of nested()'s readability diagnosis per producer
	unread map[*ssa.Function]*string
	// handled: calls whose effect on the input buffer the decoder extraction has
	// accounted for (analysed at the call site, or read as a codec unit)
	handled map[ssa.Instruction]bool
	// unrolling: loops whose per-iteration writes are being collected
	unrolling map[*Loop]bool

	idx      map[ssa.Instruction]int
	loops    []*Loop
	lenCanon map[ssa.Value]ssa.Value
	depth    int
	rootBusy map[ssa.Value]bool
}

func New(w *prove.World, fn *ssa.Function) *X {
	x := newX(w, fn)
	x.findRoots()
	return x
}

var dumped = map[*ssa.Function]bool{}

func newX(w *prove.World, fn *ssa.Function) *X {
	// debugging aid: WIRE_DUMP=<function name> prints the SSA the extractor reads
	if d := os.Getenv("WIRE_DUMP"); d != "" && d == fn.Name() && !dumped[fn] {
		dumped[fn] = true
		fn.WriteTo(os.Stderr)
	}
	x := &X{W: w, Fn: fn, FI: w.Info(fn), Roots: map[ssa.Value]string{}, Lits: map[ssa.Value][]string{},
		Names: map[ssa.Value]string{}, idx: map[ssa.Instruction]int{}, lenCanon: map[ssa.Value]ssa.Value{}, rootBusy: map[ssa.Value]bool{},
		env: map[ssa.Value]ssa.Value{}, symOf: map[ssa.Value]Sym{}}
	for _, b := range fn.Blocks {
		for i, in := range b.Instrs {
			x.idx[in] = i
		}
	}
	x.findLoops()
	return x
}

func (x *X) nestDepth() int {
	n := 0
	for y := x; y != nil; y = y.Parent {
		n++
	}
	return n
}

// res follows the unrolling environment.
func (x *X) res(v ssa.Value) ssa.Value {
	for d := 0; d < 8; d++ {
		r, ok := x.env[v]
		if !ok || r == nil {
			return v
		}
		v = r
	}
	return v
}

func deref(t types.Type) types.Type {
	if p, ok := t.Underlying().(*types.Pointer); ok {
		return p.Elem()
	}
	return t
}

func isStruct(t types.Type) bool {
	_, ok := t.Underlying().(*types.Struct)
	return ok
}

// ---------------------------------------------------------------------------
// control flow helpers

func (x *X) domI(a, b ssa.Instruction) bool {
	if a.Block() == b.Block() {
		return x.idx[a] < x.idx[b]
	}
	return a.Block().Dominates(b.Block())
}

// pathExists: can control go from just after `from` to `to` without executing
// `avoid` (which may be nil) in between?
func (x *X) pathExists(from, to, avoid ssa.Instruction) bool {
	fb, tb := from.Block(), to.Block()
	fi, ti := x.idx[from], x.idx[to]
	var avB *ssa.BasicBlock
	avI := -1
	if avoid != nil {
		avB, avI = avoid.Block(), x.idx[avoid]
	}
	if fb == tb && fi < ti {
		if !(avB == fb && avI > fi && avI < ti) {
			return true
		}
	}
	if avB == fb && avI > fi {
		return false
	}
	seen := map[*ssa.BasicBlock]bool{}
	work := append([]*ssa.BasicBlock(nil), fb.Succs...)
	for len(work) > 0 {
		b := work[len(work)-1]
		work = work[:len(work)-1]
		if seen[b] {
			continue
		}
		seen[b] = true
		limit := len(b.Instrs)
		if b == avB {
			limit = avI
		}
		if b == tb && ti < limit {
			return true
		}
		if b == avB {
			continue
		}
		work = append(work, b.Succs...)
	}
	return false
}

func (x *X) findLoops() {
	byHdr := map[*ssa.BasicBlock]*Loop{}
	for _, h := range x.Fn.Blocks {
		for _, p := range h.Preds {
			if !h.Dominates(p) {
				continue
			}
			l := byHdr[h]
			if l == nil {
				l = &Loop{Header: h, Blocks: map[*ssa.BasicBlock]bool{h: true}}
				byHdr[h] = l
				x.loops = append(x.loops, l)
			}
			work := []*ssa.BasicBlock{p}
			for len(work) > 0 {
				b := work[len(work)-1]
				work = work[:len(work)-1]
				if l.Blocks[b] {
					continue
				}
				l.Blocks[b] = true
				work = append(work, b.Preds...)
			}
		}
	}
	// nesting: parent = smallest strictly larger loop containing the header
	for _, l := range x.loops {
		for _, m := range x.loops {
			if m == l || !m.Blocks[l.Header] || len(m.Blocks) <= len(l.Blocks) {
				continue
			}
			if l.Parent == nil || len(m.Blocks) < len(l.Parent.Blocks) {
				l.Parent = m
			}
		}
	}
}

// LoopOf returns the innermost loop containing b (nil at top level).
func (x *X) LoopOf(b *ssa.BasicBlock) *Loop {
	var best *Loop
	for _, l := range x.loops {
		if l.Blocks[b] && (best == nil || len(l.Blocks) < len(best.Blocks)) {
			best = l
		}
	}
	return best
}

// errorReturn: does block b (following unconditional jumps) end in a return
// whose last result is a non-nil error (or a panic)?
func errorExit(b *ssa.BasicBlock) bool {
	seen := map[*ssa.BasicBlock]bool{}
	for steps := 0; steps < 6 && !seen[b]; steps++ {
		seen[b] = true
		switch last := b.Instrs[len(b.Instrs)-1].(type) {
		case *ssa.Panic:
			return true
		case *ssa.Return:
			if len(last.Results) == 0 {
				return false
			}
			r := last.Results[len(last.Results)-1]
			switch types.TypeString(r.Type(), nil) {
			case "error":
				k, isK := r.(*ssa.Const)
				return !(isK && k.Value == nil)
			case "bool":
				// (T, bool) helpers report failure with the constant false
				k, isK := r.(*ssa.Const)
				return isK && k.Value != nil && len(last.Results) > 1 && !constant.BoolVal(k.Value)
			}
			return false
		case *ssa.Jump:
			b = b.Succs[0]
			continue
		}
		return false
	}
	return false
}

// SuccessReturns lists the returns whose error result is the nil constant
// (all returns when the function has no error result).
func (x *X) SuccessReturns() []*ssa.Return {
	var out []*ssa.Return
	for _, b := range x.Fn.Blocks {
		ret, ok := b.Instrs[len(b.Instrs)-1].(*ssa.Return)
		if !ok {
			continue
		}
		if n := len(ret.Results); n > 0 && types.TypeString(ret.Results[n-1].Type(), nil) == "error" {
			if k, isK := ret.Results[n-1].(*ssa.Const); !isK || k.Value != nil {
				continue
			}
		}
		out = append(out, ret)
	}
	return out
}

// ---------------------------------------------------------------------------
// constants and encoding/binary

func constI(v ssa.Value) (int64, bool) {
	k, ok := v.(*ssa.Const)
	if !ok || k.Value == nil || k.Value.Kind() != constant.Int {
		return 0, false
	}
	return constant.Int64Val(k.Value)
}

// FoldConst evaluates an integer value that is fixed at compile time although
// go/ssa keeps it as an instruction: an index into a constant string by a
// constant, conversions and +, -, <<, >>, &, | of such values. Arithmetic is
// carried out in the (unsigned or signed) width of the value's type.
func (x *X) FoldConst(v ssa.Value) (int64, bool) { return foldConst(x.res(v), 0) }

func foldConst(v ssa.Value, d int) (int64, bool) {
	if d > 12 {
		return 0, false
	}
	wrap := func(k int64, t types.Type) (int64, bool) {
		bits, signed, ok := intBits(t)
		if !ok {
			return 0, false
		}
		if bits >= 64 {
			return k, true
		}
		m := int64(1) << uint(bits)
		k &= m - 1
		if signed && k >= m/2 {
			k -= m
		}
		return k, true
	}
	if k, ok := constI(v); ok {
		return k, true
	}
	index := func(xv, iv ssa.Value) (int64, bool) {
		k, ok := xv.(*ssa.Const)
		if !ok || k.Value == nil || k.Value.Kind() != constant.String {
			return 0, false
		}
		s := constant.StringVal(k.Value)
		i, ok := foldConst(iv, d+1)
		if !ok || i < 0 || i >= int64(len(s)) {
			return 0, false
		}
		return int64(s[i]), true
	}
	switch t := v.(type) {
	case *ssa.Lookup:
		return index(t.X, t.Index)
	case *ssa.Index:
		return index(t.X, t.Index)
	case *ssa.Convert:
		k, ok := foldConst(t.X, d+1)
		if !ok {
			return 0, false
		}
		return wrap(k, t.Type())
	case *ssa.ChangeType:
		return foldConst(t.X, d+1)
	case *ssa.BinOp:
		a, ok1 := foldConst(t.X, d+1)
		b, ok2 := foldConst(t.Y, d+1)
		if !ok1 || !ok2 {
			return 0, false
		}
		var r int64
		switch t.Op {
		case token.ADD:
			r = a + b
		case token.SUB:
			r = a - b
		case token.AND:
			r = a & b
		case token.OR:
			r = a | b
		case token.SHL:
			if b < 0 || b > 62 {
				return 0, false
			}
			r = a << uint(b)
		case token.SHR:
			if b < 0 || b > 62 {
				return 0, false
			}
			r = a >> uint(b)
		default:
			return 0, false
		}
		return wrap(r, t.Type())
	}
	return 0, false
}

var putW = map[string]int{"PutUint16": 2, "PutUint32": 4, "PutUint64": 8}
var getW = map[string]int{"Uint16": 2, "Uint32": 4, "Uint64": 8}
var appW = map[string]int{"AppendUint16": 2, "AppendUint32": 4, "AppendUint64": 8}

// binCall recognises encoding/binary ByteOrder accessor calls by callee identity.
func binCall(c *ssa.Call) (kind string, width int, order string) {
	f := c.Common().StaticCallee()
	if f == nil || f.Signature.Recv() == nil || f.Pkg == nil || f.Pkg.Pkg.Path() != "encoding/binary" {
		return "", 0, ""
	}
	rt := types.TypeString(deref(f.Signature.Recv().Type()), nil)
	switch rt {
	case "encoding/binary.littleEndian":
		order = "LE"
	case "encoding/binary.bigEndian":
		order = "BE"
	default:
		return "", 0, ""
	}
	if w, ok := putW[f.Name()]; ok {
		return "put", w, order
	}
	if w, ok := getW[f.Name()]; ok {
		return "get", w, order
	}
	if w, ok := appW[f.Name()]; ok {
		return "append", w, order
	}
	return "", 0, ""
}

func intBits(t types.Type) (bits int, signed bool, ok bool) {
	b, isB := t.Underlying().(*types.Basic)
	if !isB || b.Info()&types.IsInteger == 0 {
		return 0, false, false
	}
	switch b.Kind() {
	case types.Int8:
		return 8, true, true
	case types.Int16:
		return 16, true, true
	case types.Int32:
		return 32, true, true
	case types.Int64, types.Int:
		return 64, true, true
	case types.Uint8:
		return 8, false, true
	case types.Uint16:
		return 16, false, true
	case types.Uint32:
		return 32, false, true
	case types.Uint64, types.Uint, types.Uintptr:
		return 64, false, true
	}
	return 0, false, false
}

// valuePreserving: converting any value of type from to type to keeps its value.
func valuePreserving(from, to types.Type) bool {
	fb, fs, ok1 := intBits(from)
	tb, ts, ok2 := intBits(to)
	if !ok1 || !ok2 {
		return false
	}
	switch {
	case !fs && !ts:
		return tb >= fb
	case !fs && ts:
		return tb > fb
	case fs && ts:
		return tb >= fb
	}
	return false
}

func isByteSeq(t types.Type) bool {
	switch u := t.Underlying().(type) {
	case *types.Slice:
		b, ok := u.Elem().Underlying().(*types.Basic)
		return ok && b.Kind() == types.Uint8
	case *types.Basic:
		return u.Info()&types.IsString != 0
	}
	return false
}

// ---------------------------------------------------------------------------
// symbolic evaluation

// Sym evaluates an integer SSA value to a linear form. Overflow is not
// modelled (C07 proves the offset arithmetic of decoders in range).
func (x *X) Sym(v ssa.Value) Sym {
	x.depth++
	defer func() { x.depth-- }()
	if x.depth > 80 {
		return SymT(v)
	}
	v = x.res(v)
	if s, ok := x.symOf[v]; ok {
		return s
	}
	if k, ok := constI(v); ok {
		return SymK(k)
	}
	switch t := v.(type) {
	case *ssa.BinOp:
		switch t.Op {
		case token.ADD:
			return x.Sym(t.X).Add(x.Sym(t.Y))
		case token.SUB:
			return x.Sym(t.X).Sub(x.Sym(t.Y))
		case token.MUL:
			if k, ok := constI(t.Y); ok {
				return x.Sym(t.X).Scale(k)
			}
			if k, ok := constI(t.X); ok {
				return x.Sym(t.Y).Scale(k)
			}
		case token.SHL:
			if k, ok := constI(t.Y); ok && k >= 0 && k < 32 {
				return x.Sym(t.X).Scale(1 << uint(k))
			}
		}
	case *ssa.Convert:
		if valuePreserving(t.X.Type(), t.Type()) {
			return x.Sym(t.X)
		}
	case *ssa.ChangeType:
		return x.Sym(t.X)
	case *ssa.UnOp:
		if t.Op == token.MUL {
			rep := x.forward(t)
			if rep != ssa.Value(t) {
				return x.Sym(rep)
			}
		}
	case *ssa.Call:
		if b, ok := t.Call.Value.(*ssa.Builtin); ok && b.Name() == "len" {
			if s, ok := x.seqLen(t.Call.Args[0], t, 0); ok {
				return s
			}
		}
		// n := copy(buf[a:], src) with room for all of src: n = len(src)
		if b, ok := t.Call.Value.(*ssa.Builtin); ok && b.Name() == "copy" {
			if mk, off, okv := x.viewOf(t.Call.Args[0]); okv {
				n := x.lenSym(t.Call.Args[1])
				if x.nonNeg(x.Sym(mk.Len).Sub(off).Sub(n)) {
					return n
				}
			}
		}
	}
	return SymT(v)
}

// seqLen: len(v) as a linear form. The length of a buffer is one canonical
// term per buffer (so that len(data) written twice is the same term); the
// length of a view is derived from it: len(b[lo:]) = len(b) - lo,
// len(b[lo:hi]) = hi - lo, len(make([]byte, n)) = n. `self` is the len call
// being evaluated (it becomes the canonical term of a buffer that has none).
func (x *X) seqLen(v ssa.Value, self ssa.Value, d int) (Sym, bool) {
	if d > 12 {
		return Sym{}, false
	}
	v = x.res(v)
	switch t := v.(type) {
	case *ssa.Slice:
		if t.Max != nil {
			return Sym{}, false
		}
		lo := SymK(0)
		if t.Low != nil {
			lo = x.Sym(t.Low)
		}
		if t.High != nil {
			return x.Sym(t.High).Sub(lo), true
		}
		if arr, ok := deref(t.X.Type()).Underlying().(*types.Array); ok {
			if _, isPtr := t.X.Type().Underlying().(*types.Pointer); isPtr {
				return SymK(arr.Len()).Sub(lo), true
			}
		}
		base, ok := x.seqLen(t.X, nil, d+1)
		if !ok {
			return Sym{}, false
		}
		return base.Sub(lo), true
	case *ssa.Convert:
		if isByteSeq(t.X.Type()) && isByteSeq(t.Type()) {
			return x.seqLen(t.X, nil, d+1)
		}
		return Sym{}, false
	case *ssa.ChangeType:
		return x.seqLen(t.X, nil, d+1)
	case *ssa.MakeSlice:
		return x.Sym(t.Len), true
	case *ssa.Const:
		if t.Value != nil && t.Value.Kind() == constant.String {
			return SymK(int64(len(constant.StringVal(t.Value)))), true
		}
		if t.Value == nil {
			return SymK(0), true
		}
		return Sym{}, false
	case *ssa.UnOp:
		if t.Op == token.MUL {
			if _, _, isView := x.viewLoad(t); !isView {
				if rep := x.forward(t); rep != ssa.Value(t) {
					return x.seqLen(rep, nil, d+1)
				}
			}
		}
	}
	if !isByteSeq(v.Type()) {
		return Sym{}, false
	}
	if w, ok := x.windows[v]; ok {
		return w.end.Sub(w.off), true
	}
	root, off, okr := x.bufRoot(v)
	if !okr {
		return Sym{}, false
	}
	if k, isK := off.Const(); !isK || k != 0 {
		// a view cell: the input from the current cursor on
		if ld, isLd := v.(*ssa.UnOp); isLd && ld.Op == token.MUL && x.isInput(root) {
			if _, _, isView := x.viewLoad(ld); isView {
				base, okb := x.seqLen(root, nil, d+1)
				if okb {
					return base.Sub(off), true
				}
			}
		}
		return Sym{}, false
	}
	if c, ok := x.lenCanon[root]; ok {
		return SymT(c), true
	}
	if self == nil {
		self = root
	}
	x.lenCanon[root] = self
	return SymT(self), true
}

// isInputLen: t is the canonical length term of an input buffer.
func (x *X) isInputLen(t ssa.Value) bool {
	for root, c := range x.lenCanon {
		if c == t && x.isInput(root) {
			return true
		}
	}
	return false
}

// forward returns the value a load is known to yield: prove's available-load
// representative, or — for a field of a local struct that was initialised by
// one whole-struct copy of a composite literal (rr := T{…} when rr is later
// address-taken) — the value stored into that field of the literal.
func (x *X) forward(ld *ssa.UnOp) ssa.Value {
	rep := x.FI.LoadRep(ld)
	if rep != ssa.Value(ld) {
		return rep
	}
	fa, ok := ld.X.(*ssa.FieldAddr)
	if !ok {
		return ld
	}
	dst, ok := fa.X.(*ssa.Alloc)
	if !ok || dst.Referrers() == nil {
		return ld
	}
	var whole []*ssa.Store
	for _, r := range *dst.Referrers() {
		switch y := r.(type) {
		case *ssa.Store:
			if y.Addr == ssa.Value(dst) {
				whole = append(whole, y)
			}
		case *ssa.FieldAddr:
			if y.Field != fa.Field {
				continue
			}
			for _, rr := range *y.Referrers() {
				if st, isSt := rr.(*ssa.Store); isSt && st.Addr == ssa.Value(y) {
					return ld // the field is also written directly
				}
			}
		case *ssa.UnOp, *ssa.DebugRef:
		default:
			return ld // address escapes
		}
	}
	if len(whole) != 1 || !x.domI(whole[0], ld) {
		return ld
	}
	if val, ok := x.litField(whole[0].Val, fa.Field); ok {
		return val
	}
	return ld
}

// litField: v is (resolves to) a whole-struct load of a composite-literal
// temporary; returns the value stored into field `field` of that literal.
func (x *X) litField(v ssa.Value, field int) (ssa.Value, bool) {
	src, ok := x.res(v).(*ssa.UnOp)
	if !ok || src.Op != token.MUL {
		return nil, false
	}
	lit, ok := src.X.(*ssa.Alloc)
	if !ok || lit.Referrers() == nil {
		return nil, false
	}
	var val ssa.Value
	n := 0
	for _, r := range *lit.Referrers() {
		switch y := r.(type) {
		case *ssa.FieldAddr:
			for _, rr := range *y.Referrers() {
				st, isSt := rr.(*ssa.Store)
				if !isSt || st.Addr != ssa.Value(y) {
					continue
				}
				if !x.domI(st, src) {
					return nil, false
				}
				if y.Field == field {
					val = st.Val
					n++
				}
			}
		case *ssa.UnOp:
			if y != src {
				return nil, false
			}
		case *ssa.DebugRef:
		default:
			return nil, false
		}
	}
	if n != 1 {
		return nil, false
	}
	return val, true
}

// CellRoot maps a captured variable (FreeVar) to the Alloc it is bound to.
func CellRoot(v ssa.Value) ssa.Value {
	for d := 0; d < 8; d++ {
		fv, ok := v.(*ssa.FreeVar)
		if !ok {
			return v
		}
		fn := fv.Parent()
		idx := -1
		for i, f := range fn.FreeVars {
			if f == fv {
				idx = i
			}
		}
		if idx < 0 || fn.Parent() == nil {
			return v
		}
		var bound ssa.Value
		for _, b := range fn.Parent().Blocks {
			for _, in := range b.Instrs {
				if mc, ok := in.(*ssa.MakeClosure); ok && mc.Fn == ssa.Value(fn) {
					if bound != nil && bound != mc.Bindings[idx] {
						return v
					}
					bound = mc.Bindings[idx]
				}
			}
		}
		if bound == nil {
			return v
		}
		v = bound
	}
	return v
}

// bufRoot follows slice expressions, string conversions and forwarded loads
// back to the buffer a byte sequence is a view of; off is the start of v
// inside it. A captured or spilled parameter resolves to the parameter.
func (x *X) bufRoot(v ssa.Value) (root ssa.Value, off Sym, ok bool) {
	off = SymK(0)
	for d := 0; d < 40; d++ {
		switch t := v.(type) {
		case *ssa.Slice:
			if t.Low != nil {
				off = off.Add(x.Sym(t.Low))
			}
			v = t.X
			continue
		case *ssa.Convert:
			if isByteSeq(t.X.Type()) {
				v = t.X
				continue
			}
		case *ssa.ChangeType:
			v = t.X
			continue
		case *ssa.Extract, *ssa.Call:
			if w, ok := x.windows[v]; ok {
				if in := x.inputParam(); in != nil {
					return in, off.Add(w.off), true
				}
			}
		case *ssa.UnOp:
			if t.Op == token.MUL {
				if in, cur, ok := x.viewLoad(t); ok {
					return in, off.Add(cur), true
				}
				rep := x.FI.LoadRep(t)
				if rep != ssa.Value(t) {
					v = rep
					continue
				}
				// load of a cell holding the buffer
				cell := CellRoot(t.X)
				if al, isA := cell.(*ssa.Alloc); isA {
					if s := singleStore(al); s != nil {
						if _, isP := s.Val.(*ssa.Parameter); isP {
							return s.Val, off, isByteSeq(s.Val.Type())
						}
					}
					return al, off, isByteSeq(deref(al.Type()))
				}
			}
		}
		break
	}
	return v, off, isByteSeq(v.Type())
}

// singleStore: the only store whose address is exactly cell, looking into closures too.
func singleStore(al *ssa.Alloc) *ssa.Store {
	var out *ssa.Store
	n := 0
	var visit func(v ssa.Value)
	visit = func(v ssa.Value) {
		if v.Referrers() == nil {
			return
		}
		for _, r := range *v.Referrers() {
			switch y := r.(type) {
			case *ssa.Store:
				if y.Addr == v {
					n++
					out = y
				}
			case *ssa.MakeClosure:
				fn := y.Fn.(*ssa.Function)
				for i, b := range y.Bindings {
					if b == v && i < len(fn.FreeVars) {
						visit(fn.FreeVars[i])
					}
				}
			}
		}
	}
	visit(al)
	if n == 1 {
		return out
	}
	return nil
}

// ---------------------------------------------------------------------------
// field paths

func join(base, name string) string {
	if base == "" {
		return name
	}
	return base + "." + name
}

// Path resolves an address to a field path of the subject.
func (x *X) Path(addr ssa.Value) (string, bool) {
	switch t := addr.(type) {
	case *ssa.FieldAddr:
		st, _ := deref(t.X.Type()).Underlying().(*types.Struct)
		if st == nil {
			return "", false
		}
		base, ok := x.basePath(t.X)
		if !ok {
			return "", false
		}
		return join(base, st.Field(t.Field).Name()), true
	case *ssa.IndexAddr:
		base, ok := x.basePath(t.X)
		if !ok {
			return "", false
		}
		if k, isK := constI(t.Index); isK {
			if _, isLit := x.litOf(t.X); !isLit {
				return fmt.Sprintf("%s[%d]", base, k), true
			}
		}
		return base + "[*]", true
	}
	if p, ok := x.Roots[addr]; ok {
		return p, true
	}
	return "", false
}

func (x *X) basePath(v ssa.Value) (string, bool) {
	v = x.res(v)
	if p, ok := x.Roots[v]; ok {
		return p, true
	}
	switch t := v.(type) {
	case *ssa.FieldAddr, *ssa.IndexAddr:
		return x.Path(t)
	case *ssa.UnOp:
		if t.Op == token.MUL {
			if p, ok := x.Path(t.X); ok {
				return p, true
			}
			rep := x.FI.LoadRep(t)
			if rep != ssa.Value(t) {
				return x.basePath(rep)
			}
			if fw := x.forward(t); fw != ssa.Value(t) {
				return x.basePath(fw)
			}
		}
	case *ssa.Field:
		if fv, ok := x.litField(t.X, t.Field); ok {
			return x.basePath(fv)
		}
	case *ssa.ChangeType:
		return x.basePath(t.X)
	case *ssa.Slice:
		if _, ok := x.litOf(t); ok {
			return "§", true
		}
		// a proper sub-slice is not the section itself (range s[1:] skips an
		// element): it gets a path of its own, which equals no section's
		if t.Low != nil {
			if k, isK := constI(t.Low); !isK || k != 0 {
				if bp, ok := x.basePath(t.X); ok && bp != "" {
					return bp + "[" + x.exprString(t.Low, 0) + ":]", true
				}
				return "", false
			}
		}
		if t.High != nil || t.Max != nil {
			if _, isArr := deref(t.X.Type()).Underlying().(*types.Array); !isArr {
				if bp, ok := x.basePath(t.X); ok && bp != "" && t.High != nil {
					return bp + "[:" + x.exprString(t.High, 0) + "]", true
				}
				return "", false
			}
		}
		return x.basePath(t.X)
	}
	return "", false
}

// litOf recognises a slice literal whose elements are all loads of subject
// fields: [][]T{p.A, p.B, p.C}.
func (x *X) litOf(v ssa.Value) ([]string, bool) {
	if l, ok := x.Lits[v]; ok {
		return l, l != nil
	}
	x.Lits[v] = nil
	sl, ok := v.(*ssa.Slice)
	if !ok || sl.Low != nil || sl.High != nil {
		return nil, false
	}
	al, ok := sl.X.(*ssa.Alloc)
	if !ok || al.Comment != "slicelit" {
		return nil, false
	}
	arr, ok := deref(al.Type()).Underlying().(*types.Array)
	if !ok {
		return nil, false
	}
	if _, isSl := arr.Elem().Underlying().(*types.Slice); !isSl {
		return nil, false
	}
	elems := make([]string, arr.Len())
	for _, r := range *al.Referrers() {
		switch y := r.(type) {
		case *ssa.IndexAddr:
			k, isK := constI(y.Index)
			if !isK || k < 0 || k >= arr.Len() {
				return nil, false
			}
			for _, rr := range *y.Referrers() {
				st, isSt := rr.(*ssa.Store)
				if !isSt || st.Addr != ssa.Value(y) {
					return nil, false
				}
				ld, isLd := st.Val.(*ssa.UnOp)
				if !isLd || ld.Op != token.MUL {
					return nil, false
				}
				p, okp := x.Path(ld.X)
				if !okp {
					return nil, false
				}
				elems[k] = p
			}
		case *ssa.Slice:
			if y != sl {
				return nil, false
			}
		default:
			return nil, false
		}
	}
	for _, e := range elems {
		if e == "" {
			return nil, false
		}
	}
	x.Lits[v] = elems
	return elems, true
}

// findRoots registers the receiver, spilled struct parameters, range copies of
// section elements and locally filled structs.
func (x *X) findRoots() {
	fn := x.Fn
	var structParams []*ssa.Parameter
	seeded := map[*ssa.Parameter]bool{}
	for i, p := range fn.Params {
		if _, ok := x.Roots[p]; ok {
			// bound by the caller (helper analysed at its call site)
			seeded[p] = true
			if isStruct(deref(p.Type())) {
				structParams = append(structParams, p)
			}
			continue
		}
		if x.Parent != nil {
			continue
		}
		if fn.Signature.Recv() != nil && i == 0 {
			x.Roots[p] = ""
			continue
		}
		if isStruct(deref(p.Type())) {
			structParams = append(structParams, p)
		}
	}
	for _, p := range structParams {
		pre := ""
		if len(structParams) > 1 || fn.Signature.Recv() != nil {
			pre = p.Name()
		}
		if seeded[p] {
			pre = x.Roots[p]
		}
		if _, isPtr := p.Type().Underlying().(*types.Pointer); isPtr {
			x.Roots[p] = pre
		}
		// spilled by-value parameter
		for _, r := range *p.Referrers() {
			if st, ok := r.(*ssa.Store); ok && st.Val == ssa.Value(p) {
				if al, ok := st.Addr.(*ssa.Alloc); ok {
					x.Roots[al] = pre
				}
			}
		}
	}
	// allocs of struct type, in program order (element roots may depend on outer roots)
	for pass := 0; pass < 3; pass++ {
		for _, b := range fn.DomPreorder() {
			for _, in := range b.Instrs {
				al, ok := in.(*ssa.Alloc)
				if !ok || !isStruct(deref(al.Type())) {
					continue
				}
				if _, done := x.Roots[al]; done {
					continue
				}
				if p, ok := x.allocRoot(al); ok {
					x.Roots[al] = p
				}
			}
		}
	}
}

// allocRoot decides what a struct-typed local stands for.
func (x *X) allocRoot(al *ssa.Alloc) (string, bool) {
	// (a) a copy of a section element: its only whole store is a load of S[i]
	var whole []*ssa.Store
	for _, r := range *al.Referrers() {
		if st, ok := r.(*ssa.Store); ok && st.Addr == ssa.Value(al) {
			whole = append(whole, st)
		}
	}
	if len(whole) == 1 {
		wv := x.res(whole[0].Val)
		if ld, ok := wv.(*ssa.UnOp); ok && ld.Op == token.MUL {
			if p, ok := x.Path(ld.X); ok {
				return p, true
			}
		}
		if ld, ok := wv.(*ssa.UnOp); ok && ld.Op == token.MUL {
			if lit, ok := ld.X.(*ssa.Alloc); ok && isStruct(deref(lit.Type())) {
				// rr := T{…}: initialised from a composite-literal temporary, then filled further
				return x.destOfObject(al)
			}
		}
		return "", false
	}
	if len(whole) > 1 {
		return "", false
	}
	// (b) a struct being filled: where does it go?
	return x.destOfObject(al)
}

// destOfObject: a locally built object (Alloc) is returned as result 0
// (→ the subject itself), or appended to a subject slice field (→ F[*]), or
// appended to a local slice that is returned (→ ret0[*]).
func (x *X) destOfObject(obj ssa.Value) (string, bool) {
	if x.rootBusy[obj] {
		return "", false
	}
	x.rootBusy[obj] = true
	defer delete(x.rootBusy, obj)
	seen := map[ssa.Value]bool{}
	type item struct {
		v    ssa.Value
		elem bool // v is (or contains) the object as an element of a slice
	}
	work := []item{{obj, false}}
	for steps := 0; len(work) > 0 && steps < 200; steps++ {
		it := work[0]
		work = work[1:]
		if seen[it.v] || it.v.Referrers() == nil {
			continue
		}
		seen[it.v] = true
		for _, r := range *it.v.Referrers() {
			switch y := r.(type) {
			case *ssa.Return:
				if len(y.Results) > 0 && y.Results[0] == it.v {
					if it.elem {
						return "ret0[*]", true
					}
					return "", true
				}
			case *ssa.UnOp:
				if y.Op == token.MUL && y.X == it.v {
					work = append(work, item{y, it.elem})
				}
			case *ssa.Store:
				if y.Val != it.v {
					continue
				}
				if p, ok := x.Path(y.Addr); ok {
					if it.elem {
						if _, isIdx := y.Addr.(*ssa.IndexAddr); isIdx {
							return p, true
						}
						return p + "[*]", true
					}
					return p, true
				}
				if ia, ok := y.Addr.(*ssa.IndexAddr); ok {
					// element of a varargs / literal array that is then appended
					if al, ok := ia.X.(*ssa.Alloc); ok {
						work = append(work, item{al, true})
					}
				}
			case *ssa.Slice:
				work = append(work, item{y, it.elem})
			case *ssa.Call:
				if b, ok := y.Call.Value.(*ssa.Builtin); ok && b.Name() == "append" && it.elem {
					work = append(work, item{y, true})
				}
			case *ssa.Phi:
				if it.elem {
					work = append(work, item{y, true})
				}
			case *ssa.ChangeType:
				work = append(work, item{y, it.elem})
			}
		}
	}
	return "", false
}

// ---------------------------------------------------------------------------
// describing values

func (x *X) exprString(v ssa.Value, d int) string {
	if d > 5 {
		return "…"
	}
	if n, ok := x.Names[v]; ok {
		return n
	}
	switch t := v.(type) {
	case *ssa.Const:
		if t.Value == nil {
			return "nil"
		}
		return t.Value.ExactString()
	case *ssa.BinOp:
		return "(" + x.exprString(t.X, d+1) + " " + t.Op.String() + " " + x.exprString(t.Y, d+1) + ")"
	case *ssa.Convert:
		return x.exprString(t.X, d+1)
	case *ssa.ChangeType:
		return x.exprString(t.X, d+1)
	case *ssa.UnOp:
		if t.Op == token.MUL {
			if p, ok := x.Path(t.X); ok {
				return p
			}
			if ia, ok := t.X.(*ssa.IndexAddr); ok {
				return x.exprString(ia.X, d+1) + "[" + x.exprString(ia.Index, d+1) + "]"
			}
			if al, ok := t.X.(*ssa.Alloc); ok && al.Comment != "" {
				return al.Comment
			}
			if fv, ok := t.X.(*ssa.FreeVar); ok {
				return fv.Name()
			}
		}
		return t.Op.String() + x.exprString(t.X, d+1)
	case *ssa.Parameter:
		return t.Name()
	case *ssa.Call:
		var args []string
		for _, a := range t.Call.Args {
			args = append(args, x.exprString(a, d+1))
		}
		n := "call"
		if f := t.Call.StaticCallee(); f != nil {
			n = f.Name()
			if f.Pkg != nil && f.Signature.Recv() == nil {
				n = f.Pkg.Pkg.Name() + "." + n
			}
		}
		if b, ok := t.Call.Value.(*ssa.Builtin); ok {
			n = b.Name()
		}
		return n + "(" + strings.Join(args, ",") + ")"
	case *ssa.Phi:
		return "φ" + t.Comment
	case *ssa.Extract:
		return x.exprString(t.Tuple, d+1) + "#" + fmt.Sprint(t.Index)
	case *ssa.Slice:
		return x.exprString(t.X, d+1) + "[:]"
	}
	return v.Name()
}

// Expr renders a value (diagnostics / construct keys; never a line number).
func (x *X) Expr(v ssa.Value) string { return x.exprString(v, 0) }

// SymString renders a form.
func (x *X) SymString(s Sym) string {
	var terms []string
	for v, c := range s.T {
		n := x.exprString(v, 0)
		if ld, ok := v.(*ssa.UnOp); ok && ld.Op == token.MUL {
			switch ld.X.(type) {
			case *ssa.Alloc, *ssa.FreeVar:
				n = "cur(" + n + ")"
			}
		}
		if _, ok := v.(*ssa.Alloc); ok {
			n = "cell(" + v.(*ssa.Alloc).Comment + ")"
		}
		switch c {
		case 1:
			terms = append(terms, n)
		default:
			terms = append(terms, fmt.Sprintf("%d*%s", c, n))
		}
	}
	sort.Strings(terms)
	out := strings.Join(terms, "+")
	if out == "" {
		return fmt.Sprint(s.K)
	}
	if s.K != 0 {
		out += fmt.Sprintf("%+d", s.K)
	}
	return out
}

// desc describes an emitted / stored value: the field it is loaded from,
// and/or an expression (len(F), a constant).
func (x *X) desc(v ssa.Value) (field, expr string, lenOf ssa.Value, narrow bool) {
	for {
		v = x.res(v)
		switch t := v.(type) {
		case *ssa.Convert:
			if _, _, isInt := intBits(t.Type()); isInt {
				if !valuePreserving(t.X.Type(), t.Type()) {
					narrow = true
				}
				v = t.X
				continue
			}
		case *ssa.ChangeType:
			v = t.X
			continue
		}
		break
	}
	if n, ok := x.Names[v]; ok {
		return "", n, nil, narrow
	}
	switch t := v.(type) {
	case *ssa.Const:
		if t.Value == nil {
			return "", "nil", nil, narrow
		}
		return "", "const " + t.Value.ExactString(), nil, narrow
	case *ssa.UnOp:
		if t.Op == token.MUL {
			p, okp := x.Path(t.X)
			rep := x.FI.LoadRep(t)
			if rep != ssa.Value(t) {
				f2, e2, l2, n2 := x.desc(rep)
				if okp {
					if f2 != "" && f2 != p {
						e2 = f2
					}
					return p, e2, l2, narrow || n2
				}
				return f2, e2, l2, narrow || n2
			}
			if okp {
				return p, "", nil, narrow
			}
			if fw := x.forward(t); fw != ssa.Value(t) {
				f2, e2, l2, n2 := x.desc(fw)
				return f2, e2, l2, narrow || n2
			}
		}
	case *ssa.Field:
		if fv, ok := x.litField(t.X, t.Field); ok {
			f2, e2, l2, n2 := x.desc(fv)
			return f2, e2, l2, narrow || n2
		}
	case *ssa.Call:
		if b, ok := t.Call.Value.(*ssa.Builtin); ok && b.Name() == "len" {
			f, e, _, _ := x.desc(t.Call.Args[0])
			if f == "" {
				f = e
			}
			return "", "len(" + f + ")", t.Call.Args[0], narrow
		}
	case *ssa.Extract:
		if call, ok := t.Tuple.(*ssa.Call); ok {
			n := "call"
			if f := call.Call.StaticCallee(); f != nil {
				n = f.Name()
			}
			return "", fmt.Sprintf("%s#%d", n, t.Index), nil, narrow
		}
	case *ssa.Parameter:
		return "", "param " + t.Name(), nil, narrow
	}
	return "", x.exprString(v, 0), nil, narrow
}

// Desc is desc for rule code.
func (x *X) Desc(v ssa.Value) (field, expr string) {
	f, e, _, _ := x.desc(v)
	return f, e
}

// Rep canonicalises a value for identity comparisons: conversions are stripped
// and a load is replaced by its available-load representative (two loads of
// the same location with no possible store in between are the same value).
func (x *X) Rep(v ssa.Value) ssa.Value {
	v = StripConv(x.res(v))
	for d := 0; d < 8; d++ {
		ld, ok := v.(*ssa.UnOp)
		if !ok || ld.Op != token.MUL {
			break
		}
		rep := x.FI.LoadRep(ld)
		if rep == ssa.Value(ld) {
			break
		}
		v = StripConv(rep)
	}
	return v
}

// StripConv removes integer and byte-sequence conversions.
func StripConv(v ssa.Value) ssa.Value {
	for {
		switch t := v.(type) {
		case *ssa.Convert:
			v = t.X
			continue
		case *ssa.ChangeType:
			v = t.X
			continue
		}
		return v
	}
}
