package wire

import (
	"fmt"
	"go/token"
	"go/types"
	"strings"

	"golang.org/x/tools/go/ssa"
)

// cell.go: encoders whose output buffer is a local variable captured by a
// closure (put16 := func(v uint16) { packet = binary.BigEndian.AppendUint16(packet, v) }).
// go/ssa keeps such a variable in memory (an Alloc "cell"), so the buffer is no
// longer one chain of SSA values. The content of the cell at a program point
// is recovered by building, for that one variable, what SSA construction would
// have built: every store to the cell and every call of a closure that
// captures it is a definition, joins get a φ, and the layout is read off those
// definitions with the same rules as for SSA values (append chains extend the
// previous content, a loop-carried φ becomes a repeat). A closure is
// summarised by what it appends to the cell, as a function of its parameters.

type cdefKind int

const (
	cdInit cdefKind = iota // the cell on entry (nil slice in the declaring function; the caller's content in a closure)
	cdStore
	cdCall
	cdPhi
)

type cdef struct {
	kind  cdefKind
	st    *ssa.Store
	call  *ssa.Call
	prev  *cdef // cdCall: the content before the call
	blk   *ssa.BasicBlock
	edges []*cdef
}

type cellInfo struct {
	cell   ssa.Value
	events map[*ssa.BasicBlock][]ssa.Instruction // stores and closure calls, in block order
	in     map[*ssa.BasicBlock]*cdef
	defs   map[ssa.Instruction]*cdef
	bad    string
	busy   map[*cdef]bool
	// builder: the cell is a local strings.Builder / bytes.Buffer; its events
	// are the write calls made on it
	builder bool
}

// cellOf recognises a []byte variable held in memory because a closure
// captures it: an Alloc bound into a MakeClosure, or a FreeVar.
func cellOf(addr ssa.Value) bool {
	switch addr.(type) {
	case *ssa.Alloc, *ssa.FreeVar:
	default:
		return false
	}
	pt, ok := addr.Type().Underlying().(*types.Pointer)
	if !ok {
		return false
	}
	if _, isSl := pt.Elem().Underlying().(*types.Slice); !isSl || !isByteSeq(pt.Elem()) {
		return false
	}
	return isCaptured(addr)
}

func (x *X) cellInfoOf(cell ssa.Value) *cellInfo {
	if x.cells == nil {
		x.cells = map[ssa.Value]*cellInfo{}
	}
	if ci, ok := x.cells[cell]; ok {
		return ci
	}
	ci := &cellInfo{cell: cell, events: map[*ssa.BasicBlock][]ssa.Instruction{}, in: map[*ssa.BasicBlock]*cdef{},
		defs: map[ssa.Instruction]*cdef{}, busy: map[*cdef]bool{}}
	x.cells[cell] = ci
	// closures (of this function) that capture the cell
	closures := map[ssa.Value]bool{}
	if refs := cell.Referrers(); refs != nil {
		for _, r := range *refs {
			switch y := r.(type) {
			case *ssa.Store:
				if y.Addr != cell {
					ci.bad = "the address of the buffer variable is stored"
				}
			case *ssa.UnOp, *ssa.DebugRef:
			case *ssa.MakeClosure:
				closures[y] = true
				// the closure value may only be called
				if y.Referrers() != nil {
					for _, rr := range *y.Referrers() {
						switch z := rr.(type) {
						case *ssa.Call:
							if z.Call.Value != ssa.Value(y) {
								ci.bad = "a closure that captures the buffer is passed to a call"
							}
						case *ssa.DebugRef:
						default:
							ci.bad = fmt.Sprintf("a closure that captures the buffer is used by %T", rr)
						}
					}
				}
			default:
				ci.bad = fmt.Sprintf("the buffer variable is used by %T", r)
			}
		}
	}
	for _, b := range x.Fn.Blocks {
		for _, in := range b.Instrs {
			switch y := in.(type) {
			case *ssa.Store:
				if y.Addr == cell {
					ci.events[b] = append(ci.events[b], y)
				}
			case *ssa.Call:
				if closures[y.Call.Value] {
					ci.events[b] = append(ci.events[b], y)
				}
			case *ssa.Go, *ssa.Defer:
				cc := y.(ssa.CallInstruction).Common()
				if closures[cc.Value] {
					ci.bad = "a closure that captures the buffer is deferred or run as a goroutine"
				}
			}
		}
	}
	return ci
}

func (x *X) cellDefOf(ci *cellInfo, ev ssa.Instruction) *cdef {
	if d, ok := ci.defs[ev]; ok {
		return d
	}
	var d *cdef
	switch y := ev.(type) {
	case *ssa.Store:
		d = &cdef{kind: cdStore, st: y}
	case *ssa.Call:
		d = &cdef{kind: cdCall, call: y}
		ci.defs[ev] = d
		d.prev = x.cellBefore(ci, y)
	}
	ci.defs[ev] = d
	return d
}

// cellBefore: the definition of the cell that reaches instruction `at`.
func (x *X) cellBefore(ci *cellInfo, at ssa.Instruction) *cdef {
	b := at.Block()
	var last ssa.Instruction
	for _, ev := range ci.events[b] {
		if x.idx[ev] < x.idx[at] {
			last = ev
		}
	}
	if last != nil {
		return x.cellDefOf(ci, last)
	}
	return x.cellIn(ci, b)
}

func (x *X) cellOut(ci *cellInfo, b *ssa.BasicBlock) *cdef {
	if evs := ci.events[b]; len(evs) > 0 {
		return x.cellDefOf(ci, evs[len(evs)-1])
	}
	return x.cellIn(ci, b)
}

func (x *X) cellIn(ci *cellInfo, b *ssa.BasicBlock) *cdef {
	if d, ok := ci.in[b]; ok {
		return d
	}
	switch len(b.Preds) {
	case 0:
		d := &cdef{kind: cdInit}
		ci.in[b] = d
		return d
	case 1:
		// provisional entry cuts cycles through unreachable shapes
		d := x.cellOut(ci, b.Preds[0])
		ci.in[b] = d
		return d
	}
	phi := &cdef{kind: cdPhi, blk: b}
	ci.in[b] = phi
	for _, p := range b.Preds {
		phi.edges = append(phi.edges, x.cellOut(ci, p))
	}
	return phi
}

// simplify: a φ all of whose edges (other than itself) are one definition is
// that definition (a join or a loop that does not touch the buffer).
func simplify(d *cdef) *cdef { return simplifyIn(d, map[*cdef]bool{}) }

func simplifyIn(d *cdef, seen map[*cdef]bool) *cdef {
	if d.kind != cdPhi || seen[d] {
		return d
	}
	seen[d] = true
	defer delete(seen, d)
	var same *cdef
	for _, e := range d.edges {
		e = simplifyIn(e, seen)
		if e == d {
			continue
		}
		if same == nil {
			same = e
		} else if same != e {
			return d
		}
	}
	if same == nil {
		return d
	}
	return same
}

func cellMarker(d *cdef) Atom {
	return Atom{Kind: "cellprefix", Expr: fmt.Sprintf("%p", d)}
}

func isMarker(a Atom, d *cdef) bool {
	return a.Kind == "cellprefix" && a.Expr == fmt.Sprintf("%p", d)
}

// encCell: the layout of the buffer variable as it is just before `at`.
func (x *X) encCell(cell ssa.Value, at ssa.Instruction) []Atom {
	ci := x.cellInfoOf(cell)
	if ci.bad != "" {
		return unknown(at.Pos(), "%s", ci.bad)
	}
	return x.encDef(ci, x.cellBefore(ci, at), at)
}

// encDef: the layout the definition d gives the cell, as observed at `at`
// (writes made through the buffer between d and `at` count).
func (x *X) encDef(ci *cellInfo, d *cdef, at ssa.Instruction) []Atom {
	pos := at.Pos()
	x.depth++
	defer func() { x.depth-- }()
	if x.depth > 300 {
		return unknown(pos, "too deep")
	}
	d = simplify(d)
	switch d.kind {
	case cdInit:
		if _, isFV := ci.cell.(*ssa.FreeVar); isFV {
			return []Atom{{Kind: "cellin"}}
		}
		return nil
	case cdStore:
		return x.enc(d.st.Val, at)
	case cdCall:
		pre := x.encDef(ci, d.prev, d.call)
		if ci.builder {
			if _, name, _ := builderMethod(d.call); name == "Reset" {
				return nil
			}
			tail, ok := x.builderTail(d.call)
			if !ok {
				return append(append([]Atom(nil), pre...), unknown(d.call.Pos(), "what this call writes into the builder could not be determined")...)
			}
			return append(append([]Atom(nil), pre...), tail...)
		}
		tail, ok := x.closureTail(ci, d.call)
		if !ok {
			return append(append([]Atom(nil), pre...), unknown(d.call.Pos(), "what the closure called here appends to the buffer could not be determined")...)
		}
		return append(append([]Atom(nil), pre...), tail...)
	}
	// φ
	if ci.busy[d] {
		return []Atom{cellMarker(d)}
	}
	pb := d.blk
	var entries, backs []int
	for i, pr := range pb.Preds {
		if pb.Dominates(pr) {
			backs = append(backs, i)
		} else {
			entries = append(entries, i)
		}
	}
	if len(backs) > 0 && len(entries) == 1 {
		term := func(b *ssa.BasicBlock) ssa.Instruction { return b.Instrs[len(b.Instrs)-1] }
		pre := x.encDef(ci, d.edges[entries[0]], term(pb.Preds[entries[0]]))
		rep := x.repeatOf(pb, pb.Instrs[0].Pos())
		ci.busy[d] = true
		defer delete(ci.busy, d)
		for _, i := range backs {
			e := simplify(d.edges[i])
			if e == d {
				continue // the loop body does not touch the buffer on this path
			}
			l := x.encDef(ci, e, term(pb.Preds[i]))
			if len(l) == 0 || !isMarker(l[0], d) {
				return append(pre, unknown(pb.Instrs[0].Pos(), "loop does not extend the buffer by appending")...)
			}
			body := l[1:]
			if len(backs) > 1 {
				for k := range body {
					body[k].Cond = true
				}
			}
			rep.Body = append(rep.Body, body...)
		}
		if len(rep.Body) == 0 {
			return pre
		}
		return append(pre, rep)
	}
	if len(backs) == 0 {
		var alts [][]Atom
		for i, e := range d.edges {
			alts = append(alts, x.encDef(ci, e, pb.Preds[i].Instrs[len(pb.Preds[i].Instrs)-1]))
		}
		n := 0
		for {
			ok := n < len(alts[0])
			for _, a := range alts {
				if n >= len(a) || !ok || a[n].String() != alts[0][n].String() {
					ok = false
				}
			}
			if !ok {
				break
			}
			n++
		}
		out := append([]Atom(nil), alts[0][:n]...)
		for _, a := range alts {
			for _, r := range a[n:] {
				r.Cond = true
				out = append(out, r)
			}
		}
		return out
	}
	return unknown(pos, "irreducible control flow around the buffer variable")
}

// closureTail: what one call of a closure that captures the cell appends to it.
func (x *X) closureTail(ci *cellInfo, call *ssa.Call) ([]Atom, bool) {
	mc, ok := call.Call.Value.(*ssa.MakeClosure)
	if !ok {
		return nil, false
	}
	fn, ok := mc.Fn.(*ssa.Function)
	if !ok || fn.Blocks == nil || len(call.Call.Args) != len(fn.Params) {
		return nil, false
	}
	for y := x; y != nil; y = y.Parent {
		if y.Fn == fn {
			return nil, false
		}
	}
	var fv *ssa.FreeVar
	for i, b := range mc.Bindings {
		if b == ci.cell && i < len(fn.FreeVars) {
			fv = fn.FreeVars[i]
		}
	}
	if fv == nil {
		return nil, false
	}
	child := newX(x.W, fn)
	child.Parent = x
	for i, p := range fn.Params {
		arg := x.res(call.Call.Args[i])
		switch deref(p.Type()).Underlying().(type) {
		case *types.Struct, *types.Slice, *types.Array:
			if !isByteSeq(p.Type()) {
				if bp, ok := x.basePath(arg); ok {
					child.Roots[p] = bp
					continue
				}
			}
		}
		if isByteSeq(p.Type()) {
			continue
		}
		fd, e, _, _ := x.desc(arg)
		if fd == "" {
			fd = e
		}
		child.Names[p] = fd
	}
	child.findRoots()
	cci := child.cellInfoOf(fv)
	if cci.bad != "" {
		return nil, false
	}
	var layout []Atom
	n := 0
	for _, b := range fn.Blocks {
		ret, ok := b.Instrs[len(b.Instrs)-1].(*ssa.Return)
		if !ok {
			continue
		}
		// a closure that reports failure: only its success returns matter
		if k := len(ret.Results); k > 0 && types.TypeString(ret.Results[k-1].Type(), nil) == "error" {
			if c, isK := ret.Results[k-1].(*ssa.Const); !isK || c.Value != nil {
				continue
			}
		}
		l := child.encDef(cci, child.cellBefore(cci, ret), ret)
		if n > 0 && Render(l) != Render(layout) {
			return nil, false
		}
		layout = l
		n++
	}
	if n == 0 || len(layout) == 0 || layout[0].Kind != "cellin" {
		return nil, false
	}
	paramIdx := func(v ssa.Value) int {
		pv, isP := StripConv(v).(*ssa.Parameter)
		if !isP {
			return -1
		}
		for i, q := range fn.Params {
			if q == pv {
				return i
			}
		}
		return -1
	}
	var conv func(as []Atom) ([]Atom, bool)
	conv = func(as []Atom) ([]Atom, bool) {
		out := []Atom{}
		for _, a := range as {
			switch a.Kind {
			case "const", "pad":
				out = append(out, a)
			case "fixed":
				if idx := paramIdx(a.Val); idx >= 0 {
					na := x.valueAtom(call.Call.Args[idx], a.Width, a.Order, call)
					na.Narrow = na.Narrow || a.Narrow
					out = append(out, na)
					continue
				}
				if a.Field == "" && (a.Expr == "" || strings.Contains(a.Expr, "param ")) {
					return nil, false
				}
				out = append(out, a)
			case "bytes":
				if idx := paramIdx(a.Val); idx >= 0 {
					out = append(out, x.enc(call.Call.Args[idx], call)...)
					continue
				}
				if a.Field == "" {
					return nil, false
				}
				out = append(out, a)
			case "nested":
				if a.Field == "" || a.Callee == nil {
					return nil, false
				}
				out = append(out, a)
			case "repeat":
				if a.Over == "" || a.Over == "?" {
					return nil, false
				}
				b, ok := conv(a.Body)
				if !ok {
					return nil, false
				}
				a.Body = b
				out = append(out, a)
			default:
				return nil, false
			}
		}
		return out, true
	}
	return conv(layout[1:])
}

// cellAliases: the loads of a buffer variable that yield the very slice value
// stored by st (no other definition of the variable reaches them): writes made
// through them land in that buffer.
func (x *X) cellAliases(st *ssa.Store) []ssa.Value {
	if !cellOf(st.Addr) {
		return nil
	}
	ci := x.cellInfoOf(st.Addr)
	if ci.bad != "" || st.Addr.Referrers() == nil {
		return nil
	}
	var out []ssa.Value
	for _, r := range *st.Addr.Referrers() {
		ld, ok := r.(*ssa.UnOp)
		if !ok || ld.Op != token.MUL || ld.Parent() != x.Fn {
			continue
		}
		d := simplify(x.cellBefore(ci, ld))
		if d.kind == cdStore && d.st == st {
			out = append(out, ld)
		}
	}
	return out
}

// ---------------------------------------------------------------------------
// strings.Builder / bytes.Buffer accumulation
//
// An encoder that collects its output in a local strings.Builder or
// bytes.Buffer (var sb strings.Builder; sb.WriteByte(…); …; return sb.String())
// is read exactly like one whose buffer variable lives in memory: every
// Write/WriteByte/WriteString call on the local is a definition that extends
// the content, joins get a φ, a loop-carried φ becomes a repeat. The local must
// be used for nothing but method calls of its own type (no closure, no
// in-module helper, no fmt.Fprintf: then the content is unknown).

func isBuilderType(t types.Type) bool {
	n, ok := deref(t).(*types.Named)
	if !ok || n.Obj().Pkg() == nil {
		return false
	}
	switch n.Obj().Pkg().Path() + "." + n.Obj().Name() {
	case "strings.Builder", "bytes.Buffer":
		return true
	}
	return false
}

// builderMethod: call is a method of strings.Builder / bytes.Buffer on recv.
func builderMethod(call *ssa.Call) (recv ssa.Value, name string, ok bool) {
	f := call.Call.StaticCallee()
	if f == nil || f.Signature.Recv() == nil || call.Call.IsInvoke() || len(call.Call.Args) == 0 {
		return nil, "", false
	}
	if !isBuilderType(f.Signature.Recv().Type()) {
		return nil, "", false
	}
	return call.Call.Args[0], f.Name(), true
}

func (x *X) builderInfoOf(al *ssa.Alloc) *cellInfo {
	if x.cells == nil {
		x.cells = map[ssa.Value]*cellInfo{}
	}
	if ci, ok := x.cells[al]; ok {
		return ci
	}
	ci := &cellInfo{cell: al, events: map[*ssa.BasicBlock][]ssa.Instruction{}, in: map[*ssa.BasicBlock]*cdef{},
		defs: map[ssa.Instruction]*cdef{}, busy: map[*cdef]bool{}, builder: true}
	x.cells[al] = ci
	isEvent := map[ssa.Instruction]bool{}
	if refs := al.Referrers(); refs != nil {
		for _, r := range *refs {
			switch y := r.(type) {
			case *ssa.DebugRef:
			case *ssa.Call:
				recv, name, ok := builderMethod(y)
				if !ok || recv != ssa.Value(al) {
					ci.bad = "the builder is passed to " + x.exprString(y, 0)
					continue
				}
				for _, a := range y.Call.Args[1:] {
					if a == ssa.Value(al) {
						ci.bad = "the builder is passed to one of its own methods"
					}
				}
				switch name {
				case "Write", "WriteString", "WriteByte", "Reset":
					isEvent[y] = true
				case "String", "Bytes", "Len", "Cap", "Grow":
				default:
					ci.bad = "method " + name + " of the builder is not modelled"
				}
			case *ssa.Store:
				if y.Addr == ssa.Value(al) {
					// sb = strings.Builder{}: a zero value re-assigned
					ci.bad = "the builder variable is re-assigned"
				} else {
					ci.bad = "the address of the builder is stored"
				}
			default:
				ci.bad = fmt.Sprintf("the builder is used by %T", r)
			}
		}
	}
	for _, b := range x.Fn.Blocks {
		for _, in := range b.Instrs {
			if isEvent[in] {
				ci.events[b] = append(ci.events[b], in)
			}
		}
	}
	return ci
}

// encBuilder: the content of the local builder as it is just before `at`.
func (x *X) encBuilder(al *ssa.Alloc, at ssa.Instruction) []Atom {
	ci := x.builderInfoOf(al)
	if ci.bad != "" {
		return unknown(at.Pos(), "%s", ci.bad)
	}
	return x.encDef(ci, x.cellBefore(ci, at), at)
}

// builderTail: what one write call appends.
func (x *X) builderTail(call *ssa.Call) ([]Atom, bool) {
	_, name, ok := builderMethod(call)
	if !ok || len(call.Call.Args) != 2 {
		return nil, false
	}
	switch name {
	case "WriteByte":
		return []Atom{x.valueAtom(call.Call.Args[1], 1, "", call)}, true
	case "Write", "WriteString":
		return x.enc(call.Call.Args[1], call), true
	}
	return nil, false
}
