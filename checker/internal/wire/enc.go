package wire

import (
	"fmt"
	"go/constant"
	"go/token"
	"go/types"
	"sort"
	"strings"

	"golang.org/x/tools/go/ssa"
)

// EncAlt is the layout produced on one success return of an encoder.
type EncAlt struct {
	Ret   *ssa.Return
	Atoms []Atom
}

// EncLayouts reads off the byte sequence returned (result 0) on every success
// return of the function.
func (x *X) EncLayouts() []EncAlt {
	var out []EncAlt
	for _, ret := range x.SuccessReturns() {
		if len(ret.Results) == 0 || !isByteSeq(ret.Results[0].Type()) {
			continue
		}
		if k, isK := ret.Results[0].(*ssa.Const); isK && k.Value == nil {
			continue
		}
		as := x.enc(ret.Results[0], ret)
		out = append(out, EncAlt{Ret: ret, Atoms: x.mergeByteLanes(ExpandLits(as))})
	}
	return out
}

func unknown(pos token.Pos, f string, a ...any) []Atom {
	return []Atom{{Kind: "unknown", Expr: fmt.Sprintf(f, a...), Pos: pos}}
}

// enc: the layout of the byte sequence v as it is at instruction `at`.
func (x *X) enc(v ssa.Value, at ssa.Instruction) []Atom {
	x.depth++
	defer func() { x.depth-- }()
	if x.depth > 300 {
		return unknown(v.Pos(), "too deep")
	}
	v = x.res(v)
	switch t := v.(type) {
	case *ssa.BinOp:
		// string concatenation
		if t.Op == token.ADD && isByteSeq(t.Type()) {
			return append(append([]Atom(nil), x.enc(t.X, at)...), x.enc(t.Y, at)...)
		}
	case *ssa.Const:
		if t.Value == nil {
			return nil
		}
		if isByteSeq(t.Type()) {
			if t.Value.Kind() == constant.String {
				s := constant.StringVal(t.Value)
				return []Atom{{Kind: "const", Width: len(s), Expr: fmt.Sprintf("%q", s), Val: t}}
			}
		}
	case *ssa.Call:
		cc := t.Common()
		if b, ok := cc.Value.(*ssa.Builtin); ok {
			if b.Name() == "append" {
				out := append([]Atom(nil), x.enc(cc.Args[0], t)...)
				if len(cc.Args) > 1 {
					out = append(out, x.backfilled(t, x.enc(cc.Args[1], t))...)
				}
				return out
			}
			return unknown(t.Pos(), "builtin %s", b.Name())
		}
		if kind, w, order := binCall(t); kind == "append" {
			out := append([]Atom(nil), x.enc(cc.Args[1], t)...)
			return append(out, x.valueAtom(cc.Args[2], w, order, t))
		}
		if binAppendCall(t) {
			return x.encBinAppend(t)
		}
		if recv, name, ok := builderMethod(t); ok && (name == "String" || name == "Bytes") {
			if al, isA := recv.(*ssa.Alloc); isA {
				return x.encBuilder(al, t)
			}
			return unknown(t.Pos(), "content of a builder that is not a local variable")
		}
		if copiesBytes(cc.StaticCallee()) && len(cc.Args) >= 1 {
			return x.enc(cc.Args[0], t)
		}
		if stdName(cc.StaticCallee()) == "slices.Concat" && len(cc.Args) == 1 {
			// slices.Concat(a, b, …): the variadic argument is a slice over a literal array
			if sl, ok := cc.Args[0].(*ssa.Slice); ok {
				if al := tableOf(sl); al != nil {
					if elems, ok := x.tableElems(al, t); ok {
						var out []Atom
						for _, e := range elems {
							out = append(out, x.enc(e, t)...)
						}
						return out
					}
				}
			}
		}
		if tail, bufArg, ok := x.inlineAppender(t); ok {
			if bufArg == nil {
				return tail
			}
			return append(append([]Atom(nil), x.enc(bufArg, t)...), tail...)
		}
		return x.nested(t, t.Pos())
	case *ssa.Lookup:
		if _, isMap := t.X.Type().Underlying().(*types.Map); isMap && isByteSeq(t.Type()) {
			return []Atom{{Kind: "bytes", Expr: "element of map " + x.exprString(t.X, 0), Val: t, Pos: t.Pos(), At: t}}
		}
	case *ssa.Extract:
		if lk, ok := t.Tuple.(*ssa.Lookup); ok && t.Index == 0 && lk.CommaOk && isByteSeq(t.Type()) {
			if _, isMap := lk.X.Type().Underlying().(*types.Map); isMap {
				return []Atom{{Kind: "bytes", Expr: "element of map " + x.exprString(lk.X, 0), Val: t, Pos: t.Pos(), At: lk}}
			}
		}
		if call, ok := t.Tuple.(*ssa.Call); ok && t.Index == 0 {
			if binAppendCall(call) {
				return x.encBinAppend(call)
			}
			if tail, bufArg, ok := x.inlineAppender(call); ok {
				if bufArg == nil {
					return tail
				}
				return append(append([]Atom(nil), x.enc(bufArg, call)...), tail...)
			}
			return x.nested(call, t.Pos())
		}
	case *ssa.Phi:
		return x.encPhi(t)
	case *ssa.Slice:
		return x.encSlice(t, at)
	case *ssa.MakeSlice:
		if n, ok := constI(t.Len); ok {
			return x.bufContent(t, n, at)
		}
		return x.symBufContent(t, at)
	case *ssa.Convert:
		if isByteSeq(t.X.Type()) {
			return x.enc(t.X, at)
		}
	case *ssa.ChangeType:
		return x.enc(t.X, at)
	case *ssa.UnOp:
		if t.Op == token.MUL {
			if cellOf(t.X) {
				return x.encCell(t.X, t)
			}
			if p, ok := x.Path(t.X); ok {
				return []Atom{{Kind: "bytes", Field: p, Val: t, Pos: t.Pos(), At: t}}
			}
			rep := x.FI.LoadRep(t)
			if rep != ssa.Value(t) {
				return x.enc(rep, at)
			}
			return []Atom{{Kind: "bytes", Expr: x.exprString(t, 0), Val: t, Pos: t.Pos(), At: t}}
		}
	case *ssa.Parameter:
		return []Atom{{Kind: "bytes", Expr: "param " + t.Name(), Val: t, Pos: t.Pos()}}
	}
	return unknown(v.Pos(), "%s", x.exprString(v, 0))
}

// valueAtom: a fixed-width integer placed on the wire.
func (x *X) valueAtom(v ssa.Value, w int, order string, at ssa.Instruction) Atom {
	f, e, lenOf, narrow := x.desc(v)
	a := Atom{Kind: "fixed", Width: w, Order: order, Field: f, Expr: e, Val: v, LenOf: lenOf, Narrow: narrow, At: at, Pos: at.Pos()}
	if w == 1 {
		a.Order = ""
		if f == "" && strings.HasPrefix(e, "const ") {
			a.Kind, a.Expr = "const", e[6:]
		} else if f == "" {
			if _, isK := x.res(v).(*ssa.Const); !isK {
				if k, ok := x.FoldConst(v); ok {
					a.Kind, a.Expr = "const", fmt.Sprint(k)
				}
			}
		}
	}
	return a
}

// nested: bytes returned by a call (EncodeFoo(x), x.Marshal(), …).
func (x *X) nested(call *ssa.Call, pos token.Pos) []Atom {
	cc := call.Common()
	a := Atom{Kind: "nested", Callee: cc.StaticCallee(), Val: call, At: call, Pos: pos}
	var subject ssa.Value
	if cc.IsInvoke() {
		subject = cc.Value
	} else if len(cc.Args) > 0 {
		subject = cc.Args[0]
	}
	if a.Callee == nil {
		a.Expr = "dynamic call"
	}
	// an in-module producer that is not a codec unit and could not be analysed
	// at its call site: can it at least be READ? If not, the bytes it yields
	// are unknown to this extraction (the layout is incomplete there).
	if f := a.Callee; f != nil && f.Blocks != nil && !cc.IsInvoke() && x.root().Units != nil && !x.isUnit(f) && x.W.P.InModule(f) {
		switch {
		case x.onStack(f):
			a.Unread = "recursive producer " + FuncLabel(f)
		case x.nestDepth() > 3:
			a.Unread = "producers nested too deeply at " + FuncLabel(f)
		default:
			rt := x.root()
			if rt.unread == nil {
				rt.unread = map[*ssa.Function]*string{}
			}
			if m := rt.unread[f]; m != nil {
				a.Unread = *m
				break
			}
			memo := ""
			rt.unread[f] = &memo
			defer func() { memo = a.Unread }()
			child := newX(x.W, f)
			child.Parent = x
			child.findRoots()
			alts := child.EncLayouts()
			if len(alts) == 0 {
				a.Unread = FuncLabel(f) + ": no return with a constant nil error yields a byte sequence"
			}
			for _, alt := range alts {
				if u, bad := HasUnknown(alt.Atoms); bad {
					a.Unread = FuncLabel(f) + ": " + u.Expr
				}
				for _, b := range Flatten(alt.Atoms) {
					if b.Kind == "nested" && b.Unread != "" {
						a.Unread = b.Unread
					}
				}
			}
		}
	}
	if subject != nil {
		subject = x.res(subject)
		if p, ok := x.Path(subject); ok {
			a.Field = p
		} else if p, ok := x.basePath(subject); ok {
			a.Field = p
		} else {
			f, e, _, _ := x.desc(subject)
			a.Field, a.Expr = f, e
		}
	}
	return []Atom{a}
}

// encSlice: a fixed scratch / literal buffer, or a view of another sequence.
func (x *X) encSlice(s *ssa.Slice, at ssa.Instruction) []Atom {
	if al, ok := s.X.(*ssa.Alloc); ok && s.Low == nil {
		if arr, ok := deref(al.Type()).Underlying().(*types.Array); ok {
			n := arr.Len()
			if s.High != nil {
				h, isK := constI(s.High)
				if !isK || h > n {
					return unknown(s.Pos(), "fixed buffer sliced to a variable length")
				}
				n = h
			}
			return x.bufContent(s, n, at)
		}
	}
	if s.Low == nil && s.High == nil {
		return x.enc(s.X, at)
	}
	// a sub-slice of a subject field: c.F[a:b] over an array field
	if p, ok := x.Path(s.X); ok {
		if arr, isArr := deref(s.X.Type()).Underlying().(*types.Array); isArr {
			lo, hi := int64(0), arr.Len()
			okc := true
			if s.Low != nil {
				lo, okc = constI(s.Low)
			}
			if s.High != nil && okc {
				hi, okc = constI(s.High)
			}
			if okc {
				return []Atom{{Kind: "bytes", Field: fmt.Sprintf("%s[%d:%d]", p, lo, hi), Width: int(hi - lo), Val: s, Pos: s.Pos()}}
			}
		}
	}
	return unknown(s.Pos(), "sub-slice %s", x.exprString(s, 0))
}

// bwrite is one write into a fixed buffer.
type bwrite struct {
	in   ssa.Instruction
	off  int64
	w    int64
	atom Atom
	loop *Loop // the write is made once per iteration of this unrolled loop (in = its header)
}

func (x *X) collectWrites(buf ssa.Value, base int64, out *[]bwrite, bad *string) {
	refs := buf.Referrers()
	if refs == nil {
		return
	}
	for _, r := range *refs {
		switch y := r.(type) {
		case *ssa.Call:
			cc := y.Common()
			if kind, w, order := binCall(y); kind == "put" {
				if cc.Args[1] == buf {
					*out = append(*out, bwrite{in: y, off: base, w: int64(w), atom: x.valueAtom(cc.Args[2], w, order, y)})
				}
				continue
			} else if kind != "" {
				continue
			}
			if b, ok := cc.Value.(*ssa.Builtin); ok {
				switch b.Name() {
				case "copy":
					if cc.Args[0] == buf {
						*bad = "copy into a fixed buffer"
					}
				}
				continue
			}
			if _, name, ok := builderMethod(y); ok && (name == "Write" || name == "WriteString") {
				continue // the builder copies the bytes it is given
			}
			if cc.IsInvoke() && cc.Method.Name() == "Write" {
				continue // io.Writer contract: Write does not modify or retain its argument
			}
			for _, a := range cc.Args {
				if a == buf {
					*bad = "buffer passed to " + x.exprString(y, 0)
				}
			}
		case *ssa.Slice:
			lo := int64(0)
			if y.Low != nil {
				k, ok := x.Sym(y.Low).Const()
				if !ok {
					// buf[2*i:] inside a loop over a constant table: one write per row
					if !x.unrolledWrites(y, y.Low, func() { x.collectWrites(y, base+x.Sym(y.Low).K, out, bad) }, out, bad) {
						*bad = "write through a variable-offset sub-slice"
					}
					continue
				}
				lo = k
			}
			x.collectWrites(y, base+lo, out, bad)
		case *ssa.IndexAddr:
			idx, ok := x.Sym(y.Index).Const()
			if !ok {
				n0 := len(*out)
				if x.unrolledWrites(y, y.Index, func() {
					for _, rr := range *y.Referrers() {
						if st, isSt := rr.(*ssa.Store); isSt && st.Addr == ssa.Value(y) {
							*out = append(*out, bwrite{in: st, off: base + x.Sym(y.Index).K, w: 1, atom: x.valueAtom(st.Val, 1, "", st)})
						}
					}
				}, out, bad) {
					continue
				}
				*out = (*out)[:n0]
			}
			for _, rr := range *y.Referrers() {
				st, isSt := rr.(*ssa.Store)
				if !isSt || st.Addr != ssa.Value(y) {
					continue
				}
				if !ok {
					*bad = "variable-index store into a fixed buffer"
					continue
				}
				*out = append(*out, bwrite{in: st, off: base + idx, w: 1, atom: x.valueAtom(st.Val, 1, "", st)})
			}
		case *ssa.Store:
			if y.Val == buf && cellOf(y.Addr) && x.cellInfoOf(y.Addr).bad == "" {
				// the buffer variable is captured by a closure: it lives in memory and
				// every load of it (until it is re-assigned) is this buffer
				for _, al := range x.cellAliases(y) {
					x.collectWrites(al, base, out, bad)
				}
				continue
			}
			if y.Val == buf && !storedForConcat(y) {
				*bad = "fixed buffer stored into a variable"
			}
		case *ssa.MakeClosure:
			*bad = "fixed buffer captured by a closure"
		}
	}
}

// unrolledWrites: `at` (a sub-slice or element address of a fixed buffer whose
// offset `off` is not a constant) sits in a loop over a constant table — or a
// counted loop with constant bounds — that runs N times; collect is run once
// per iteration with the loop index (and the table reads) bound to that
// iteration's values, where the offset must evaluate to a constant. The writes
// collected are stamped with the loop header as their position: after the
// loop, all N of them have happened (each must be unconditional inside an
// iteration). Returns false when the shape is not this one.
func (x *X) unrolledWrites(at ssa.Instruction, off ssa.Value, collect func(), out *[]bwrite, bad *string) bool {
	l := x.LoopOf(at.Block())
	if l == nil || x.unrolling[l] {
		return false
	}
	hb := l.Header
	it, ok := x.Iter(hb)
	if !ok || it.From != nil {
		return false
	}
	envs, ok := x.tableLoop(hb)
	if !ok {
		// a plain counted loop i = a..n-1 with constant bounds
		n, isK := constI(it.Bound)
		if !isK || n-it.FromK < 1 || n-it.FromK > 64 {
			return false
		}
		envs = make([]map[ssa.Value]ssa.Value, n-it.FromK)
		for k := range envs {
			envs[k] = map[ssa.Value]ssa.Value{}
		}
	} else if it.FromK != 0 {
		return false
	}
	if x.unrolling == nil {
		x.unrolling = map[*Loop]bool{}
	}
	x.unrolling[l] = true
	defer delete(x.unrolling, l)
	n0 := len(*out)
	good := true
	for k, env := range envs {
		saved := map[ssa.Value]ssa.Value{}
		bind := func(key, val ssa.Value) {
			saved[key] = x.env[key]
			x.env[key] = val
		}
		for key, val := range env {
			bind(key, val)
		}
		bind(it.Idx, ssa.NewConst(constant.MakeInt64(it.FromK+int64(k)), types.Typ[types.Int]))
		if _, isK := x.Sym(off).Const(); !isK {
			good = false
		} else {
			collect()
		}
		for key, val := range saved {
			if val == nil {
				delete(x.env, key)
			} else {
				x.env[key] = val
			}
		}
		if !good {
			break
		}
	}
	if !good {
		*out = (*out)[:n0]
		return false
	}
	// every write happens in every iteration
	for i := n0; i < len(*out); i++ {
		wb := (*out)[i].in.Block()
		if !l.Blocks[wb] {
			*bad = "a write outside the loop through a view made inside it"
			return true
		}
		for _, pr := range hb.Preds {
			if hb.Dominates(pr) && !(wb == pr || wb.Dominates(pr)) {
				*bad = "a write into the buffer that is conditional inside a loop"
				return true
			}
		}
		(*out)[i].in = hb.Instrs[0]
		(*out)[i].loop = l
	}
	return true
}

// storedForConcat: the store puts a slice into the variadic argument array of
// slices.Concat, which only reads it.
func storedForConcat(st *ssa.Store) bool {
	ia, ok := st.Addr.(*ssa.IndexAddr)
	if !ok {
		return false
	}
	al, ok := ia.X.(*ssa.Alloc)
	if !ok || al.Comment != "varargs" || al.Referrers() == nil {
		return false
	}
	used := false
	for _, r := range *al.Referrers() {
		switch y := r.(type) {
		case *ssa.IndexAddr, *ssa.DebugRef:
		case *ssa.Slice:
			if y.Referrers() == nil {
				return false
			}
			for _, rr := range *y.Referrers() {
				call, isCall := rr.(*ssa.Call)
				if !isCall || stdName(call.Call.StaticCallee()) != "slices.Concat" {
					return false
				}
				used = true
			}
		default:
			return false
		}
	}
	return used
}

// bufContent: the layout of a fixed-size buffer as it is at instruction at.
// Every write that dominates `at` contributes unless a later dominating write
// covers it; a write that does not dominate `at` but can reach it without
// being covered again makes the content undecidable.
func (x *X) bufContent(buf ssa.Value, n int64, at ssa.Instruction) []Atom {
	if n == 0 {
		return nil
	}
	var ws []bwrite
	bad := ""
	x.collectWrites(buf, 0, &ws, &bad)
	if sl, ok := buf.(*ssa.Slice); ok {
		if al, ok := sl.X.(*ssa.Alloc); ok {
			for _, r := range *al.Referrers() {
				switch y := r.(type) {
				case *ssa.Slice:
					if y != sl {
						// another view of the same array: its writes land in the buffer too
						lo := int64(0)
						if y.Low != nil {
							k, isK := constI(y.Low)
							if !isK {
								bad = "backing array sliced at a variable offset"
								continue
							}
							lo = k
						}
						if y.Max != nil {
							bad = "backing array sliced with a capacity bound"
							continue
						}
						x.collectWrites(y, lo, &ws, &bad)
					}
				case *ssa.IndexAddr:
					idx, ok := constI(y.Index)
					for _, rr := range *y.Referrers() {
						if st, isSt := rr.(*ssa.Store); isSt && st.Addr == ssa.Value(y) {
							if !ok {
								bad = "variable-index store into a literal"
								continue
							}
							ws = append(ws, bwrite{in: st, off: idx, w: 1, atom: x.valueAtom(st.Val, 1, "", st)})
						}
					}
				}
			}
		}
	}
	if bad != "" {
		return unknown(buf.Pos(), "%s", bad)
	}
	for _, w := range ws {
		if w.loop != nil && w.loop.Blocks[at.Block()] {
			return unknown(buf.Pos(), "the buffer is used inside the loop that fills it")
		}
	}
	overlap := func(a, b bwrite) bool { return a.off < b.off+b.w && b.off < a.off+a.w }
	covers := func(a, b bwrite) bool { return a.off <= b.off && b.off+b.w <= a.off+a.w }
	var dom []bwrite
	for _, w := range ws {
		if x.domI(w.in, at) {
			dom = append(dom, w)
		}
	}
	sort.SliceStable(dom, func(i, j int) bool { return x.domI(dom[i].in, dom[j].in) })
	var live []bwrite
	for i, w := range dom {
		killed := false
		for j := i + 1; j < len(dom); j++ {
			if overlap(dom[j], w) {
				if !covers(dom[j], w) {
					u := unknown(w.atom.Pos, "partially overlapping writes into a fixed buffer")
					u[0].Definite = true
					return u
				}
				killed = true
			}
		}
		if !killed {
			live = append(live, w)
		}
	}
	isDom := func(w bwrite) bool {
		for _, d := range dom {
			if d.in == w.in {
				return true
			}
		}
		return false
	}
	for _, w := range ws {
		if isDom(w) || w.off >= n {
			continue
		}
		if !x.pathExists(w.in, at, nil) {
			continue
		}
		covered := false
		for _, s := range live {
			if covers(s, w) && !x.pathExists(w.in, at, s.in) {
				covered = true
			}
		}
		if !covered {
			return unknown(w.atom.Pos, "a conditional write into the buffer may reach its use")
		}
	}
	sort.SliceStable(live, func(i, j int) bool { return live[i].off < live[j].off })
	var out []Atom
	pos := int64(0)
	zero := func(k int64) {
		if k <= 4 {
			for i := int64(0); i < k; i++ {
				out = append(out, Atom{Kind: "const", Width: 1, Expr: "0"})
			}
			return
		}
		out = append(out, Atom{Kind: "pad", Width: int(k)})
	}
	for _, w := range live {
		if w.off >= n {
			continue
		}
		if w.off+w.w > n {
			return unknown(w.atom.Pos, "write beyond the length of the buffer")
		}
		if w.off > pos {
			zero(w.off - pos)
		}
		out = append(out, w.atom)
		pos = w.off + w.w
	}
	if pos < n {
		zero(n - pos)
	}
	return out
}

// encPhi: loop-carried accumulation (repeat) or a join of equal alternatives.
func (x *X) encPhi(p *ssa.Phi) []Atom {
	pb := p.Block()
	var entries, backs []int
	for i, pr := range pb.Preds {
		if pb.Dominates(pr) {
			backs = append(backs, i)
		} else {
			entries = append(entries, i)
		}
	}
	term := func(b *ssa.BasicBlock) ssa.Instruction { return b.Instrs[len(b.Instrs)-1] }
	if len(backs) > 0 && len(entries) == 1 {
		pre := x.enc(p.Edges[entries[0]], term(pb.Preds[entries[0]]))
		if envs, ok := x.tableLoop(pb); ok && len(backs) == 1 {
			if body, ok := x.unroll(pb, envs, func() []Atom { return x.minusPrefix(p.Edges[backs[0]], p) }); ok {
				return append(pre, body...)
			}
			return append(pre, unknown(p.Pos(), "loop over a constant table does not extend the buffer by appending")...)
		}
		rep := x.repeatOf(pb, p.Pos())
		for _, i := range backs {
			b := x.minusPrefix(p.Edges[i], p)
			if b == nil {
				return append(pre, unknown(p.Pos(), "loop does not extend the buffer by appending")...)
			}
			if len(backs) > 1 {
				for k := range b {
					b[k].Cond = true
				}
			}
			rep.Body = append(rep.Body, b...)
		}
		return append(pre, rep)
	}
	if len(backs) == 0 {
		var alts [][]Atom
		for i, ed := range p.Edges {
			alts = append(alts, x.enc(ed, term(pb.Preds[i])))
		}
		n := 0
		for {
			ok := n < len(alts[0])
			for _, a := range alts {
				if n >= len(a) || !ok || a[n].String() != alts[0][n].String() {
					ok = false
				}
			}
			if !ok {
				break
			}
			n++
		}
		out := append([]Atom(nil), alts[0][:n]...)
		for _, a := range alts {
			for _, r := range a[n:] {
				r.Cond = true
				out = append(out, r)
			}
		}
		return out
	}
	return unknown(p.Pos(), "irreducible φ")
}

// minusPrefix returns what v appends after φ p, or nil if v does not extend p.
func (x *X) minusPrefix(v ssa.Value, p ssa.Value) []Atom {
	v = x.res(v)
	if v == p {
		return []Atom{}
	}
	switch t := v.(type) {
	case *ssa.Call:
		if b, ok := t.Call.Value.(*ssa.Builtin); ok && b.Name() == "append" {
			pre := x.minusPrefix(t.Call.Args[0], p)
			if pre == nil {
				return nil
			}
			if len(t.Call.Args) > 1 {
				return append(pre, x.backfilled(t, x.enc(t.Call.Args[1], t))...)
			}
			return pre
		}
		if kind, w, order := binCall(t); kind == "append" {
			pre := x.minusPrefix(t.Call.Args[1], p)
			if pre == nil {
				return nil
			}
			return append(pre, x.valueAtom(t.Call.Args[2], w, order, t))
		}
		if copiesBytes(t.Call.StaticCallee()) && len(t.Call.Args) >= 1 {
			return x.minusPrefix(t.Call.Args[0], p)
		}
		if tail, bufArg, ok := x.inlineAppender(t); ok && bufArg != nil {
			pre := x.minusPrefix(bufArg, p)
			if pre == nil {
				return nil
			}
			return append(pre, tail...)
		}
	case *ssa.Extract:
		if call, ok := t.Tuple.(*ssa.Call); ok && t.Index == 0 {
			if binAppendCall(call) {
				pre := x.minusPrefix(call.Call.Args[0], p)
				if pre == nil {
					return nil
				}
				tail, why := x.binDataAtoms(call.Call.Args[2], call.Call.Args[1], call)
				if why != "" {
					return append(pre, unknown(call.Pos(), "%s", why)...)
				}
				return append(pre, tail...)
			}
			if tail, bufArg, ok := x.inlineAppender(call); ok && bufArg != nil {
				pre := x.minusPrefix(bufArg, p)
				if pre == nil {
					return nil
				}
				return append(pre, tail...)
			}
		}
	case *ssa.Convert:
		if isByteSeq(t.X.Type()) && isByteSeq(t.Type()) {
			return x.minusPrefix(t.X, p)
		}
	case *ssa.BinOp:
		if t.Op == token.ADD && isByteSeq(t.Type()) {
			pre := x.minusPrefix(t.X, p)
			if pre == nil {
				return nil
			}
			return append(pre, x.enc(t.Y, t)...)
		}
	case *ssa.Phi:
		pb := t.Block()
		isLoop := false
		for _, pr := range pb.Preds {
			if pb.Dominates(pr) {
				isLoop = true
			}
		}
		if !isLoop {
			var body []Atom
			var first string
			same := true
			var alts [][]Atom
			for i, ed := range t.Edges {
				b := x.minusPrefix(ed, p)
				if b == nil {
					return nil
				}
				alts = append(alts, b)
				if i == 0 {
					first = Render(b)
				} else if Render(b) != first {
					same = false
				}
			}
			if same {
				return alts[0]
			}
			for _, b := range alts {
				for _, a := range b {
					a.Cond = true
					body = append(body, a)
				}
			}
			return body
		}
		var entry ssa.Value
		var back []ssa.Value
		for i, pr := range pb.Preds {
			if pb.Dominates(pr) {
				back = append(back, t.Edges[i])
			} else {
				if entry != nil {
					return nil
				}
				entry = t.Edges[i]
			}
		}
		if entry == nil {
			return nil
		}
		pre := x.minusPrefix(entry, p)
		if pre == nil {
			return nil
		}
		if envs, ok := x.tableLoop(pb); ok && len(back) == 1 {
			body, ok := x.unroll(pb, envs, func() []Atom { return x.minusPrefix(back[0], t) })
			if !ok {
				return nil
			}
			return append(pre, body...)
		}
		rep := x.repeatOf(pb, t.Pos())
		for _, b := range back {
			bb := x.minusPrefix(b, t)
			if bb == nil {
				return nil
			}
			rep.Body = append(rep.Body, bb...)
		}
		return append(pre, rep)
	}
	return nil
}

// loopBound returns the value the loop counter is compared against in the
// header of a loop (the Y of `i < Y`, whichever side it is written on). A
// rotated loop (range-over-int: entry test, body, increment, test at the
// latch) is recognised by the test `φ+1 < Y` in its latch block.
func loopBound(hb *ssa.BasicBlock) (bound, counter ssa.Value, ok bool) {
	if len(hb.Succs) == 2 && hb.Succs[0] != hb {
		if b, c, ok := headerBound(hb); ok {
			return b, c, true
		}
	}
	for _, p := range hb.Preds {
		if !hb.Dominates(p) {
			continue
		}
		iff, isIf := p.Instrs[len(p.Instrs)-1].(*ssa.If)
		if !isIf || len(p.Succs) != 2 || p.Succs[0] != hb {
			continue
		}
		cmp, isCmp := iff.Cond.(*ssa.BinOp)
		if !isCmp {
			continue
		}
		next := func(v ssa.Value) *ssa.Phi {
			b, isB := v.(*ssa.BinOp)
			if !isB || b.Op != token.ADD {
				return nil
			}
			if k, isK := constI(b.Y); !isK || k != 1 {
				return nil
			}
			phi, isPhi := b.X.(*ssa.Phi)
			if !isPhi || phi.Block() != hb {
				return nil
			}
			return phi
		}
		switch cmp.Op {
		case token.LSS:
			if phi := next(cmp.X); phi != nil {
				return cmp.Y, phi, true
			}
		case token.GTR:
			if phi := next(cmp.Y); phi != nil {
				return cmp.X, phi, true
			}
		}
	}
	return nil, nil, false
}

func headerBound(hb *ssa.BasicBlock) (bound, counter ssa.Value, ok bool) {
	iff, isIf := hb.Instrs[len(hb.Instrs)-1].(*ssa.If)
	if !isIf {
		return nil, nil, false
	}
	cmp, isCmp := iff.Cond.(*ssa.BinOp)
	if !isCmp {
		return nil, nil, false
	}
	inLoopDef := func(v ssa.Value) bool {
		in, isIn := v.(ssa.Instruction)
		if !isIn {
			return false
		}
		if _, isPhi := v.(*ssa.Phi); isPhi && in.Block() == hb {
			return true
		}
		// rangeindex: t43 = φ + 1 defined in the header
		if b, isB := v.(*ssa.BinOp); isB && in.Block() == hb {
			if _, isPhi := b.X.(*ssa.Phi); isPhi {
				return true
			}
		}
		return false
	}
	switch cmp.Op {
	case token.LSS, token.LEQ, token.NEQ:
		if inLoopDef(cmp.X) {
			return cmp.Y, cmp.X, true
		}
	case token.GTR, token.GEQ:
		if inLoopDef(cmp.Y) {
			return cmp.X, cmp.Y, true
		}
	}
	if inLoopDef(cmp.X) {
		return cmp.Y, cmp.X, true
	}
	if inLoopDef(cmp.Y) {
		return cmp.X, cmp.Y, true
	}
	return nil, nil, false
}

// LoopIter describes a counted loop: Idx is the SSA value that equals the
// iteration number plus From in every iteration (i for `for i := a; i < n; i++`,
// the index of a range loop), From its first value and Bound the value it
// stays below.
type LoopIter struct {
	Idx   ssa.Value
	From  ssa.Value // nil when FromK is set
	FromK int64
	Bound ssa.Value
}

// Iter recognises the counted loop headed by hb: the counter is a φ of the
// header that starts at From and is incremented by exactly 1 on every back
// edge, and the loop runs while counter < Bound (test in the header, or in
// the latch of a rotated loop whose entry is guarded by the same test).
func (x *X) Iter(hb *ssa.BasicBlock) (LoopIter, bool) {
	entryOf := func(phi *ssa.Phi) (ssa.Value, bool) {
		var entry ssa.Value
		for i, p := range hb.Preds {
			if hb.Dominates(p) {
				// back edge: φ + 1
				inc, isB := phi.Edges[i].(*ssa.BinOp)
				if !isB || inc.Op != token.ADD {
					return nil, false
				}
				k, isK := constI(inc.Y)
				if !isK || k != 1 || inc.X != ssa.Value(phi) {
					return nil, false
				}
				continue
			}
			if entry != nil {
				return nil, false
			}
			entry = phi.Edges[i]
		}
		return entry, entry != nil
	}
	lessThan := func(iff *ssa.If, ctr ssa.Value) (ssa.Value, bool) {
		cmp, _ := iff.Cond.(*ssa.BinOp)
		if cmp == nil {
			return nil, false
		}
		switch {
		case cmp.Op == token.LSS && cmp.X == ctr:
			return cmp.Y, true
		case cmp.Op == token.GTR && cmp.Y == ctr:
			return cmp.X, true
		}
		return nil, false
	}
	// (1) test in the header: `for i := a; i < n; i++` and range loops
	if iff, isIf := hb.Instrs[len(hb.Instrs)-1].(*ssa.If); isIf && len(hb.Succs) == 2 && hb.Succs[0] != hb {
		if _, ctr, ok := headerBound(hb); ok {
			if bound, ok := lessThan(iff, ctr); ok {
				switch t := ctr.(type) {
				case *ssa.Phi:
					if t.Block() == hb {
						if entry, ok := entryOf(t); ok {
							it := LoopIter{Idx: t, Bound: bound}
							if k, isK := constI(entry); isK {
								it.FromK = k
							} else {
								it.From = entry
							}
							return it, true
						}
					}
				case *ssa.BinOp:
					// rangeindex: idx = φ + 1, φ starts at -1
					p, isPhi := t.X.(*ssa.Phi)
					k, isK := constI(t.Y)
					if isPhi && isK && t.Op == token.ADD && k == 1 && p.Block() == hb {
						if entry, ok := entryOf(p); ok {
							if e, isE := constI(entry); isE && e == -1 {
								return LoopIter{Idx: t, Bound: bound}, true
							}
						}
					}
				}
			}
		}
	}
	// (2) rotated loop: the test `φ+1 < n` sits in the latch (possibly the header
	// block itself when the body is a single block) and branches back to the header
	for _, p := range hb.Preds {
		if !hb.Dominates(p) {
			continue
		}
		iff, isIf := p.Instrs[len(p.Instrs)-1].(*ssa.If)
		if !isIf || len(p.Succs) != 2 || p.Succs[0] != hb {
			continue
		}
		cmp, _ := iff.Cond.(*ssa.BinOp)
		if cmp == nil {
			continue
		}
		for _, side := range []ssa.Value{cmp.X, cmp.Y} {
			inc, isB := side.(*ssa.BinOp)
			if !isB || inc.Op != token.ADD {
				continue
			}
			phi, isPhi := inc.X.(*ssa.Phi)
			if k, isK := constI(inc.Y); !isPhi || !isK || k != 1 || phi.Block() != hb {
				continue
			}
			bound, ok := lessThan(iff, inc)
			if !ok {
				continue
			}
			entry, ok := entryOf(phi)
			if !ok {
				continue
			}
			it := LoopIter{Idx: phi, Bound: bound}
			if k, isK := constI(entry); isK {
				it.FromK = k
			} else {
				it.From = entry
			}
			return it, true
		}
	}
	return LoopIter{}, false
}

// tableElems: al is a local array (composite literal, or the backing array of
// a slice literal) every element of which is stored exactly once, before
// `before`, and which is otherwise only read. Returns the stored values.
func (x *X) tableElems(al *ssa.Alloc, before ssa.Instruction) ([]ssa.Value, bool) {
	arr, ok := deref(al.Type()).Underlying().(*types.Array)
	if !ok || arr.Len() < 1 || arr.Len() > 64 || al.Referrers() == nil {
		return nil, false
	}
	elems := make([]ssa.Value, arr.Len())
	readOnly := func(v ssa.Value) bool {
		ok := true
		var walk func(v ssa.Value, d int)
		walk = func(v ssa.Value, d int) {
			if v.Referrers() == nil || d > 4 {
				ok = false
				return
			}
			for _, r := range *v.Referrers() {
				switch y := r.(type) {
				case *ssa.UnOp:
					if y.Op != token.MUL {
						ok = false
					}
				case *ssa.FieldAddr:
					walk(y, d+1)
				case *ssa.DebugRef:
				default:
					ok = false
				}
			}
		}
		walk(v, 0)
		return ok
	}
	for _, r := range *al.Referrers() {
		switch y := r.(type) {
		case *ssa.IndexAddr:
			k, isK := constI(y.Index)
			var sts []*ssa.Store
			for _, rr := range *y.Referrers() {
				if st, isSt := rr.(*ssa.Store); isSt && st.Addr == ssa.Value(y) {
					sts = append(sts, st)
				}
			}
			if len(sts) == 0 {
				if !readOnly(y) {
					return nil, false
				}
				continue
			}
			if !isK || k < 0 || k >= arr.Len() || len(sts) != 1 || elems[k] != nil || !x.domI(sts[0], before) || len(*y.Referrers()) != 1 {
				return nil, false
			}
			elems[k] = sts[0].Val
		case *ssa.UnOp:
			if y.Op != token.MUL {
				return nil, false
			}
		case *ssa.Slice:
			if y.Low != nil || y.High != nil || y.Max != nil || y.Referrers() == nil {
				return nil, false
			}
			for _, rr := range *y.Referrers() {
				switch z := rr.(type) {
				case *ssa.IndexAddr:
					if !readOnly(z) {
						return nil, false
					}
				case *ssa.Call:
					if ssa.Instruction(z) == before {
						continue // the table is the variadic argument of the call being read
					}
					if b, isB := z.Call.Value.(*ssa.Builtin); !isB || (b.Name() != "len" && b.Name() != "cap") {
						return nil, false
					}
				case *ssa.DebugRef:
				default:
					return nil, false
				}
			}
		case *ssa.DebugRef:
		default:
			return nil, false
		}
	}
	for _, e := range elems {
		if e == nil {
			return nil, false
		}
	}
	return elems, true
}

// tableOf resolves the indexed operand of an Index / IndexAddr to a constant
// local table.
func tableOf(v ssa.Value) *ssa.Alloc {
	switch t := v.(type) {
	case *ssa.Alloc:
		return t
	case *ssa.UnOp:
		if t.Op == token.MUL {
			if al, ok := t.X.(*ssa.Alloc); ok {
				return al
			}
		}
	case *ssa.Slice:
		if t.Low == nil && t.High == nil && t.Max == nil {
			if al, ok := t.X.(*ssa.Alloc); ok {
				return al
			}
		}
	}
	return nil
}

// tableLoop: the loop headed by hb runs i = 0..N-1 for a constant N and reads
// element i of constant local tables of N elements. Returns, per iteration,
// the values those reads yield.
func (x *X) tableLoop(hb *ssa.BasicBlock) ([]map[ssa.Value]ssa.Value, bool) {
	it, ok := x.Iter(hb)
	if !ok || it.From != nil || it.FromK != 0 {
		return nil, false
	}
	n := int64(-1)
	if k, isK := constI(it.Bound); isK {
		n = k
	} else if call, isCall := it.Bound.(*ssa.Call); isCall {
		if b, isB := call.Call.Value.(*ssa.Builtin); isB && b.Name() == "len" {
			if al := tableOf(call.Call.Args[0]); al != nil {
				if arr, isArr := deref(al.Type()).Underlying().(*types.Array); isArr {
					n = arr.Len()
				}
			}
		}
	}
	if n < 1 || n > 64 {
		return nil, false
	}
	l := x.LoopOf(hb)
	if l == nil || l.Header != hb {
		return nil, false
	}
	envs := make([]map[ssa.Value]ssa.Value, n)
	for k := range envs {
		envs[k] = map[ssa.Value]ssa.Value{}
	}
	tables := map[*ssa.Alloc][]ssa.Value{}
	elemsOf := func(v ssa.Value) ([]ssa.Value, bool) {
		al := tableOf(v)
		if al == nil {
			return nil, false
		}
		if e, ok := tables[al]; ok {
			return e, e != nil
		}
		e, ok := x.tableElems(al, hb.Instrs[0])
		if !ok || int64(len(e)) != n {
			tables[al] = nil
			return nil, false
		}
		tables[al] = e
		return e, true
	}
	found := false
	bad := false
	var bindReads func(addr ssa.Value, val func(k int) (ssa.Value, bool))
	bindReads = func(addr ssa.Value, val func(k int) (ssa.Value, bool)) {
		if addr.Referrers() == nil {
			return
		}
		for _, r := range *addr.Referrers() {
			switch y := r.(type) {
			case *ssa.UnOp:
				if y.Op != token.MUL {
					continue
				}
				for k := range envs {
					v, ok := val(k)
					if !ok {
						bad = true
						return
					}
					envs[k][y] = v
				}
				found = true
			case *ssa.FieldAddr:
				f := y.Field
				bindReads(y, func(k int) (ssa.Value, bool) {
					v, ok := val(k)
					if !ok {
						return nil, false
					}
					return x.litField(v, f)
				})
			}
		}
	}
	for b := range l.Blocks {
		for _, in := range b.Instrs {
			switch t := in.(type) {
			case *ssa.Index:
				if t.Index != it.Idx {
					continue
				}
				e, ok := elemsOf(t.X)
				if !ok {
					continue
				}
				for k := range envs {
					envs[k][t] = e[k]
				}
				found = true
			case *ssa.IndexAddr:
				if t.Index != it.Idx {
					continue
				}
				e, ok := elemsOf(t.X)
				if !ok {
					continue
				}
				bindReads(t, func(k int) (ssa.Value, bool) { return e[k], true })
			}
		}
	}
	if !found || bad {
		return nil, false
	}
	return envs, true
}

// unroll evaluates body once per iteration environment and concatenates.
func (x *X) unroll(hb *ssa.BasicBlock, envs []map[ssa.Value]ssa.Value, body func() []Atom) ([]Atom, bool) {
	out := []Atom{}
	// struct locals of the loop body stand for something different in every
	// iteration (a copy of table[i]…): their roots are re-derived per iteration
	var locals []*ssa.Alloc
	if l := x.LoopOf(hb); l != nil {
		for _, b := range x.Fn.DomPreorder() {
			if !l.Blocks[b] {
				continue
			}
			for _, in := range b.Instrs {
				if al, ok := in.(*ssa.Alloc); ok && isStruct(deref(al.Type())) {
					locals = append(locals, al)
				}
			}
		}
	}
	for _, env := range envs {
		saved := map[ssa.Value]ssa.Value{}
		for k, v := range env {
			saved[k] = x.env[k]
			x.env[k] = v
		}
		type rootSave struct {
			p  string
			ok bool
		}
		savedRoots := map[*ssa.Alloc]rootSave{}
		for _, al := range locals {
			p, ok := x.Roots[al]
			savedRoots[al] = rootSave{p, ok}
			delete(x.Roots, al)
		}
		for pass := 0; pass < 3; pass++ {
			for _, al := range locals {
				if _, done := x.Roots[al]; done {
					continue
				}
				if p, ok := x.allocRoot(al); ok {
					x.Roots[al] = p
				}
			}
		}
		b := body()
		for _, al := range locals {
			if sv := savedRoots[al]; sv.ok {
				x.Roots[al] = sv.p
			} else {
				delete(x.Roots, al)
			}
		}
		for k, v := range saved {
			if v == nil {
				delete(x.env, k)
			} else {
				x.env[k] = v
			}
		}
		if b == nil {
			return nil, false
		}
		out = append(out, b...)
	}
	return out, true
}

// repeatOf builds the repeat atom for the loop headed by hb: what it ranges over.
func (x *X) repeatOf(hb *ssa.BasicBlock, pos token.Pos) Atom {
	a := x.repeatOf1(hb, pos)
	if a.Over != "?" {
		a.Over += x.iterStart(hb)
	}
	return a
}

func (x *X) repeatOf1(hb *ssa.BasicBlock, pos token.Pos) Atom {
	a := Atom{Kind: "repeat", Over: "?", Pos: pos, Loop: x.LoopOf(hb)}
	bound, _, ok := loopBound(hb)
	if !ok {
		return a
	}
	b := StripConv(bound)
	if call, isCall := b.(*ssa.Call); isCall {
		if bi, isB := call.Call.Value.(*ssa.Builtin); isB && bi.Name() == "len" {
			arg := call.Call.Args[0]
			if lit, isLit := x.litOf(arg); isLit {
				a.Over, a.Lit = "§", lit
				return a
			}
			if p, okp := x.basePath(arg); okp {
				a.Over = p
				return a
			}
			a.Over = x.exprString(arg, 0)
			return a
		}
	}
	f, e, _, _ := x.desc(bound)
	if f != "" {
		a.Over = f
	} else {
		a.Over = e
	}
	return a
}

// ExpandLits unrolls `for _, s := range [][]T{p.A, p.B} { for _, e := range s {…} }`
// into one repeat per literal element.
func ExpandLits(as []Atom) []Atom {
	var out []Atom
	for _, a := range as {
		if a.Kind != "repeat" {
			out = append(out, a)
			continue
		}
		a.Body = ExpandLits(a.Body)
		if len(a.Lit) == 0 {
			out = append(out, a)
			continue
		}
		for _, el := range a.Lit {
			out = append(out, substAtoms(a.Body, "§[*]", el)...)
		}
	}
	return out
}

func substAtoms(as []Atom, from, to string) []Atom {
	out := make([]Atom, len(as))
	for i, a := range as {
		a.Field = strings.ReplaceAll(a.Field, from, to)
		a.Over = strings.ReplaceAll(a.Over, from, to)
		a.Count = strings.ReplaceAll(a.Count, from, to)
		a.Expr = strings.ReplaceAll(a.Expr, from, to)
		a.Body = substAtoms(a.Body, from, to)
		out[i] = a
	}
	return out
}

// LoopBound exposes loopBound to rule code: the value the counter of the loop
// headed by hb is compared against, and the counter.
func LoopBound(hb *ssa.BasicBlock) (bound, counter ssa.Value, ok bool) { return loopBound(hb) }

// inlineAppender: a call to an in-module helper
//
//	func(buf []byte, v…) []byte      or      func(buf []byte, v…) ([]byte, error)
//
// (possibly a method) whose successful result is its buffer parameter extended
// by atoms that are determined by its other parameters — an extracted "put"
// helper, or a loop that appends every element of a section — is read as those
// atoms applied to the caller's arguments: the helper is analysed with its
// parameters bound to what the caller passes (field paths of the caller's
// subject, or the argument values). Only the appended tail is returned, with
// the caller-side buffer argument it extends.
//
// A helper that is not one of the codec units and returns a FRESH byte
// sequence made from its arguments (func(name *T) ([]byte, error)) is read the
// same way; then the returned buffer argument is nil and the atoms are the
// whole sequence. This second form is only used when the rule has named its
// codec units (X.Units), so that Encode/Decode pairs stay nested atoms.
func (x *X) inlineAppender(call *ssa.Call) ([]Atom, ssa.Value, bool) {
	cc := call.Common()
	f := cc.StaticCallee()
	if f == nil || f.Blocks == nil || !x.W.P.InModule(f) || cc.IsInvoke() || f == x.Fn {
		return nil, nil, false
	}
	res := f.Signature.Results()
	switch {
	case res.Len() == 1 && isByteSeq(res.At(0).Type()):
	case res.Len() == 2 && isByteSeq(res.At(0).Type()) && types.TypeString(res.At(1).Type(), nil) == "error":
	default:
		return nil, nil, false
	}
	if len(cc.Args) != len(f.Params) {
		return nil, nil, false
	}
	depth := 0
	for y := x; y != nil; y = y.Parent {
		depth++
		if y.Fn == f {
			return nil, nil, false
		}
	}
	if depth > 3 {
		return nil, nil, false
	}
	child := newX(x.W, f)
	child.Parent = x
	for i, p := range f.Params {
		arg := x.res(cc.Args[i])
		switch deref(p.Type()).Underlying().(type) {
		case *types.Struct, *types.Slice, *types.Array:
			if isByteSeq(p.Type()) {
				break
			}
			if bp, ok := x.basePath(arg); ok {
				child.Roots[p] = bp
				continue
			}
		}
		if isByteSeq(p.Type()) {
			continue
		}
		fd, e, _, _ := x.desc(arg)
		if fd == "" {
			fd = e
		}
		child.Names[p] = fd
	}
	child.findRoots()
	alts := child.EncLayouts()
	if len(alts) != 1 {
		return nil, nil, false
	}
	as := alts[0].Atoms
	// appender: the result starts with the bytes of a []byte parameter
	bufIdx := -1
	if len(as) >= 1 && as[0].Kind == "bytes" {
		for i, p := range f.Params {
			if _, isSl := p.Type().Underlying().(*types.Slice); isSl && isByteSeq(p.Type()) && as[0].Val == ssa.Value(p) {
				bufIdx = i
			}
		}
	}
	if bufIdx >= 0 && x.root().Units != nil && x.isUnit(f) {
		// an append-style codec unit (func (n *T) appendX(dst []byte) ([]byte, error)):
		// compared as a whole with its counterpart, like a unit that returns a
		// fresh sequence — one nested atom after the caller's buffer
		a := Atom{Kind: "nested", Callee: f, Val: call, At: call, Pos: call.Pos()}
		for i, arg := range cc.Args {
			if i == bufIdx {
				continue
			}
			subject := x.res(arg)
			if p, ok := x.Path(subject); ok {
				a.Field = p
			} else if p, ok := x.basePath(subject); ok {
				a.Field = p
			} else {
				fd, e, _, _ := x.desc(subject)
				a.Field, a.Expr = fd, e
			}
			break
		}
		return []Atom{a}, cc.Args[bufIdx], true
	}
	if bufIdx < 0 {
		// producer: a fresh byte sequence made from the arguments. Only for rules
		// that name their codec units, and never for a unit itself.
		if x.root().Units == nil || x.isUnit(f) || len(as) == 0 {
			return nil, nil, false
		}
		if _, bad := HasUnknown(as); bad {
			return nil, nil, false
		}
	}
	paramIdx := func(v ssa.Value) int {
		pv, isP := StripConv(v).(*ssa.Parameter)
		if !isP {
			return -1
		}
		for i, q := range f.Params {
			if q == pv {
				return i
			}
		}
		return -1
	}
	var conv func(as []Atom) ([]Atom, bool)
	conv = func(as []Atom) ([]Atom, bool) {
		out := []Atom{}
		for _, a := range as {
			switch a.Kind {
			case "const", "pad":
				out = append(out, a)
			case "fixed":
				if idx := paramIdx(a.Val); idx >= 0 {
					na := x.valueAtom(cc.Args[idx], a.Width, a.Order, call)
					na.Narrow = na.Narrow || a.Narrow
					out = append(out, na)
					continue
				}
				if a.Field == "" && (a.Expr == "" || strings.Contains(a.Expr, "param ")) {
					return nil, false
				}
				out = append(out, a)
			case "bytes":
				if idx := paramIdx(a.Val); idx >= 0 && idx != bufIdx {
					out = append(out, x.enc(cc.Args[idx], call)...)
					continue
				}
				if a.Field == "" {
					return nil, false
				}
				out = append(out, a)
			case "nested":
				// a codec unit applied to something that is not a field of the
				// subject (a value built on the spot) is still a positive
				// observation: the bytes are that unit's
				if a.Callee == nil || (a.Field == "" && !x.isUnit(a.Callee)) {
					return nil, false
				}
				out = append(out, a)
			case "repeat":
				if a.Over == "" || a.Over == "?" || strings.Contains(a.Over, "param ") {
					return nil, false
				}
				b, ok := conv(a.Body)
				if !ok {
					return nil, false
				}
				a.Body = b
				out = append(out, a)
			default:
				return nil, false
			}
		}
		return out, true
	}
	if bufIdx < 0 {
		out, ok := conv(as)
		if !ok || len(out) == 0 {
			return nil, nil, false
		}
		return out, nil, true
	}
	out, ok := conv(as[1:])
	if !ok {
		return nil, nil, false
	}
	return out, cc.Args[bufIdx], true
}

// ---------------------------------------------------------------------------
// one buffer of run-time size, filled at computed offsets

// lenSym: the canonical linear-form term for len(v).
func (x *X) lenSym(v ssa.Value) Sym {
	root, off, ok := x.bufRoot(v)
	if !ok {
		return SymT(v)
	}
	if k, isK := off.Const(); !isK || k != 0 {
		return SymT(v)
	}
	if k, isK := root.(*ssa.Const); isK && k.Value != nil && k.Value.Kind() == constant.String {
		return SymK(int64(len(constant.StringVal(k.Value))))
	}
	if c, ok := x.lenCanon[root]; ok {
		return SymT(c)
	}
	x.lenCanon[root] = root
	return SymT(root)
}

// nonNeg: the form is certainly >= 0: a non-negative constant plus
// non-negative multiples of lengths.
func (x *X) nonNeg(s Sym) bool {
	if s.K < 0 {
		return false
	}
	for t, k := range s.T {
		if k < 0 {
			return false
		}
		isLen := false
		for _, c := range x.lenCanon {
			if c == t {
				isLen = true
			}
		}
		if !isLen {
			return false
		}
	}
	return true
}

// viewOf resolves a slice value to (make, start offset) when it is the make
// itself or buf[lo:] / buf[lo:hi] views of it with computable offsets.
func (x *X) viewOf(v ssa.Value) (*ssa.MakeSlice, Sym, bool) {
	off := SymK(0)
	for d := 0; d < 8; d++ {
		switch t := v.(type) {
		case *ssa.MakeSlice:
			return t, off, true
		case *ssa.Slice:
			if t.Max != nil {
				return nil, off, false
			}
			if t.Low != nil {
				off = off.Add(x.Sym(t.Low))
			}
			v = t.X
			continue
		case *ssa.ChangeType:
			v = t.X
			continue
		}
		break
	}
	return nil, off, false
}

type symWrite struct {
	in       ssa.Instruction
	off, end Sym
	atoms    []Atom
}

// symBufContent: the layout of buf := make([]byte, n) (n computed at run time)
// at instruction `at`, when every byte of it is written exactly once, outside
// loops, by writes that dominate `at`: copy(buf[a:], src), PutUintN(buf[a:], v)
// and buf[a] = v with offsets that are linear forms over lengths. The writes
// must tile [0, n) without gap or overlap (a constant gap is zero bytes).
func (x *X) symBufContent(mk *ssa.MakeSlice, at ssa.Instruction) []Atom {
	if mk.Cap != nil && mk.Cap != mk.Len {
		if k, isK := constI(mk.Len); !isK || k != 0 {
			return unknown(mk.Pos(), "make with a run-time length and a different capacity")
		}
		return nil // make([]byte, 0, n): empty, to be extended by appends
	}
	total := x.Sym(mk.Len)
	var ws []symWrite
	bad := ""
	var visit func(v ssa.Value, off Sym, hi *Sym, d int)
	visit = func(v ssa.Value, off Sym, hi *Sym, d int) {
		if v.Referrers() == nil || d > 6 {
			return
		}
		for _, r := range *v.Referrers() {
			switch y := r.(type) {
			case *ssa.DebugRef, *ssa.Return:
			case *ssa.Slice:
				if y.X != v || y.Max != nil {
					bad = "re-sliced with a capacity bound"
					continue
				}
				o := off
				if y.Low != nil {
					o = o.Add(x.Sym(y.Low))
				}
				h := hi
				if y.High != nil {
					hs := off.Add(x.Sym(y.High))
					h = &hs
				}
				visit(y, o, h, d+1)
			case *ssa.ChangeType:
				visit(y, off, hi, d+1)
			case *ssa.Convert:
				// string(buf): a read
			case *ssa.IndexAddr:
				o := off.Add(x.Sym(y.Index))
				for _, rr := range *y.Referrers() {
					switch z := rr.(type) {
					case *ssa.Store:
						if z.Addr != ssa.Value(y) {
							bad = "address of an element stored"
							continue
						}
						ws = append(ws, symWrite{z, o, o.AddK(1), []Atom{x.valueAtom(z.Val, 1, "", z)}})
					case *ssa.UnOp, *ssa.DebugRef:
					default:
						bad = "address of an element escapes"
					}
				}
			case *ssa.Store:
				if y.Val == v {
					bad = "buffer stored into a variable"
				}
			case *ssa.MakeClosure:
				bad = "buffer captured by a closure"
			case *ssa.Phi:
				// the buffer flows on (e.g. to the return through a join): not a write
			case *ssa.Call:
				cc := y.Common()
				if kind, w, order := binCall(y); kind == "put" {
					if cc.Args[1] == v {
						ws = append(ws, symWrite{y, off, off.AddK(int64(w)), []Atom{x.valueAtom(cc.Args[2], w, order, y)}})
					}
					continue
				} else if kind == "get" {
					continue
				} else if kind == "append" {
					if cc.Args[1] == v {
						bad = "AppendUint on a buffer that is also written at offsets"
					}
					continue
				}
				if b, ok := cc.Value.(*ssa.Builtin); ok {
					switch b.Name() {
					case "len", "cap":
					case "copy":
						if cc.Args[0] == v {
							n := x.lenSym(cc.Args[1])
							if hi != nil && !x.nonNeg(hi.Sub(off.Add(n))) {
								bad = "copy into a window that may be shorter than its source"
							}
							ws = append(ws, symWrite{y, off, off.Add(n), x.enc(cc.Args[1], y)})
						}
					case "append":
						if cc.Args[0] == v {
							if off.Equal(SymK(0)) {
								// append(buf, more...) after the buffer was filled: handled by the caller (enc of append)
								continue
							}
							bad = "append to a window of the buffer"
						}
					default:
						bad = "passed to builtin " + b.Name()
					}
					continue
				}
				for _, a := range cc.Args {
					if a == v {
						bad = "buffer passed to " + x.exprString(y, 0)
					}
				}
			default:
				bad = fmt.Sprintf("used by %T", r)
			}
		}
	}
	visit(mk, SymK(0), nil, 0)
	if bad != "" {
		return unknown(mk.Pos(), "make with variable length %s: %s", x.exprString(mk.Len, 0), bad)
	}
	if len(ws) == 0 {
		return unknown(mk.Pos(), "make with variable length %s is never written at a computable offset", x.exprString(mk.Len, 0))
	}
	for _, w := range ws {
		if x.LoopOf(w.in.Block()) != x.LoopOf(mk.Block()) {
			return unknown(w.in.Pos(), "the buffer is written inside a loop")
		}
		if !x.domI(w.in, at) {
			if x.pathExists(w.in, at, nil) {
				return unknown(w.in.Pos(), "a conditional write into the buffer may reach its use")
			}
		}
	}
	var out []Atom
	cur := SymK(0)
	used := make([]bool, len(ws))
	for n := 0; n < len(ws); n++ {
		pick, gap := -1, int64(0)
		for i, w := range ws {
			if used[i] || !x.domI(w.in, at) {
				continue
			}
			d := w.off.Sub(cur)
			if k, isK := d.Const(); isK && k >= 0 && (pick < 0 || k < gap) {
				pick, gap = i, k
			}
		}
		if pick < 0 {
			break
		}
		used[pick] = true
		if gap > 0 {
			out = append(out, Atom{Kind: "pad", Width: int(gap)})
		}
		w := ws[pick]
		// the write must fit: end <= total
		if !x.nonNeg(total.Sub(w.end)) {
			return unknown(w.in.Pos(), "a write may run past the end of the buffer (%s > %s)", x.SymString(w.end), x.SymString(total))
		}
		out = append(out, w.atoms...)
		cur = w.end
	}
	for i, w := range ws {
		if !used[i] && x.domI(w.in, at) {
			u := unknown(w.in.Pos(), "writes into the buffer overlap or are not contiguous (one starts at %s, the previous ended at %s)", x.SymString(w.off), x.SymString(cur))
			// certainly before the end of what was already written: an overlap (one
			// field is written over another), observed on a fully collected buffer
			if x.nonNeg(cur.Sub(w.off).AddK(-1)) {
				u[0].Definite = true
			}
			return u
		}
	}
	rest := total.Sub(cur)
	k, isK := rest.Const()
	switch {
	case !isK || k < 0:
		return unknown(mk.Pos(), "the writes end at %s but the buffer has %s bytes", x.SymString(cur), x.SymString(total))
	case k > 0:
		out = append(out, Atom{Kind: "pad", Width: int(k)})
	}
	return out
}

// byteLaneOf: v is byte k of an integer value: uint8(X >> 8k), possibly masked
// with 0xFF. Returns X (conversions stripped) and the shift in bits.
func (x *X) byteLaneOf(v ssa.Value) (ssa.Value, int64, bool) {
	v = x.res(v)
	cv, ok := v.(*ssa.Convert)
	if !ok {
		return nil, 0, false
	}
	if bits, _, isInt := intBits(cv.Type()); !isInt || bits != 8 {
		return nil, 0, false
	}
	inner := x.res(cv.X)
	for d := 0; d < 4; d++ {
		b, isB := inner.(*ssa.BinOp)
		if !isB {
			break
		}
		if b.Op == token.AND {
			if k, isK := constI(b.Y); isK && k == 0xFF {
				inner = x.res(b.X)
				continue
			}
			if k, isK := constI(b.X); isK && k == 0xFF {
				inner = x.res(b.Y)
				continue
			}
		}
		break
	}
	shift := int64(0)
	if b, isB := inner.(*ssa.BinOp); isB && b.Op == token.SHR {
		k, isK := constI(b.Y)
		if !isK || k < 0 || k%8 != 0 {
			return nil, 0, false
		}
		shift = k
		inner = x.res(b.X)
		// an AND 0xFF may also sit outside the conversion chain; a widening
		// conversion below the shift is value-preserving
	}
	for {
		c2, isC := inner.(*ssa.Convert)
		if !isC || !valuePreserving(c2.X.Type(), c2.Type()) {
			break
		}
		inner = x.res(c2.X)
	}
	if _, _, isInt := intBits(inner.Type()); !isInt {
		return nil, 0, false
	}
	return inner, shift, true
}

// mergeByteLanes folds a run of single bytes that together are ALL the bytes
// of one integer, most significant first (byte(v>>8), byte(v)) or least
// significant first, into the one fixed-width atom binary.{Big,Little}Endian
// would have produced.
func (x *X) mergeByteLanes(as []Atom) []Atom {
	var out []Atom
	for i := 0; i < len(as); i++ {
		a := as[i]
		if a.Kind == "repeat" {
			a.Body = x.mergeByteLanes(a.Body)
			out = append(out, a)
			continue
		}
		if a.Kind != "fixed" || a.Width != 1 || a.Val == nil {
			out = append(out, a)
			continue
		}
		v0, s0, ok := x.byteLaneOf(a.Val)
		if !ok {
			out = append(out, a)
			continue
		}
		bits, _, _ := intBits(v0.Type())
		k := bits / 8
		if k < 2 || i+k > len(as) {
			out = append(out, a)
			continue
		}
		order := ""
		switch s0 {
		case int64(bits - 8):
			order = "BE"
		case 0:
			order = "LE"
		}
		good := order != ""
		for j := 1; j < k && good; j++ {
			b := as[i+j]
			if b.Kind != "fixed" || b.Width != 1 || b.Val == nil || b.Cond != a.Cond {
				good = false
				break
			}
			vj, sj, ok := x.byteLaneOf(b.Val)
			want := int64(bits-8) - int64(8*j)
			if order == "LE" {
				want = int64(8 * j)
			}
			if !ok || sj != want || x.Rep(vj) != x.Rep(v0) {
				good = false
			}
		}
		if !good {
			out = append(out, a)
			continue
		}
		at := a.At
		if at == nil {
			out = append(out, a)
			continue
		}
		na := x.valueAtom(v0, k, order, at)
		na.Pos, na.Cond = a.Pos, a.Cond
		out = append(out, na)
		i += k - 1
	}
	return out
}
