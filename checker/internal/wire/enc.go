package wire

import (
	"fmt"
	"go/constant"
	"go/token"
	"go/types"
	"sort"
	"strings"

	"golang.org/x/tools/go/ssa"
)

// EncAlt is the layout produced on one success return of an encoder.
type EncAlt struct {
	Ret   *ssa.Return
	Atoms []Atom
}

// EncLayouts reads off the byte sequence returned (result 0) on every success
// return of the function.
func (x *X) EncLayouts() []EncAlt {
	var out []EncAlt
	for _, ret := range x.SuccessReturns() {
		if len(ret.Results) == 0 || !isByteSeq(ret.Results[0].Type()) {
			continue
		}
		if k, isK := ret.Results[0].(*ssa.Const); isK && k.Value == nil {
			continue
		}
		as := x.enc(ret.Results[0], ret)
		out = append(out, EncAlt{Ret: ret, Atoms: ExpandLits(as)})
	}
	return out
}

func unknown(pos token.Pos, f string, a ...any) []Atom {
	return []Atom{{Kind: "unknown", Expr: fmt.Sprintf(f, a...), Pos: pos}}
}

// enc: the layout of the byte sequence v as it is at instruction `at`.
func (x *X) enc(v ssa.Value, at ssa.Instruction) []Atom {
	x.depth++
	defer func() { x.depth-- }()
	if x.depth > 300 {
		return unknown(v.Pos(), "too deep")
	}
	switch t := v.(type) {
	case *ssa.Const:
		if t.Value == nil {
			return nil
		}
		if isByteSeq(t.Type()) {
			if t.Value.Kind() == constant.String {
				s := constant.StringVal(t.Value)
				return []Atom{{Kind: "const", Width: len(s), Expr: fmt.Sprintf("%q", s), Val: t}}
			}
		}
	case *ssa.Call:
		cc := t.Common()
		if b, ok := cc.Value.(*ssa.Builtin); ok {
			if b.Name() == "append" {
				out := append([]Atom(nil), x.enc(cc.Args[0], t)...)
				if len(cc.Args) > 1 {
					out = append(out, x.enc(cc.Args[1], t)...)
				}
				return out
			}
			return unknown(t.Pos(), "builtin %s", b.Name())
		}
		if kind, w, order := binCall(t); kind == "append" {
			out := append([]Atom(nil), x.enc(cc.Args[1], t)...)
			return append(out, x.valueAtom(cc.Args[2], w, order, t))
		}
		if tail, ok := x.inlineAppender(t); ok {
			return append(append([]Atom(nil), x.enc(cc.Args[0], t)...), tail...)
		}
		return x.nested(t, t.Pos())
	case *ssa.Extract:
		if call, ok := t.Tuple.(*ssa.Call); ok && t.Index == 0 {
			return x.nested(call, t.Pos())
		}
	case *ssa.Phi:
		return x.encPhi(t)
	case *ssa.Slice:
		return x.encSlice(t, at)
	case *ssa.MakeSlice:
		if n, ok := constI(t.Len); ok {
			return x.bufContent(t, n, at)
		}
		return unknown(t.Pos(), "make with variable length %s", x.exprString(t.Len, 0))
	case *ssa.Convert:
		if isByteSeq(t.X.Type()) {
			return x.enc(t.X, at)
		}
	case *ssa.ChangeType:
		return x.enc(t.X, at)
	case *ssa.UnOp:
		if t.Op == token.MUL {
			if p, ok := x.Path(t.X); ok {
				return []Atom{{Kind: "bytes", Field: p, Val: t, Pos: t.Pos(), At: t}}
			}
			rep := x.FI.LoadRep(t)
			if rep != ssa.Value(t) {
				return x.enc(rep, at)
			}
			return []Atom{{Kind: "bytes", Expr: x.exprString(t, 0), Val: t, Pos: t.Pos(), At: t}}
		}
	case *ssa.Parameter:
		return []Atom{{Kind: "bytes", Expr: "param " + t.Name(), Val: t, Pos: t.Pos()}}
	}
	return unknown(v.Pos(), "%s", x.exprString(v, 0))
}

// valueAtom: a fixed-width integer placed on the wire.
func (x *X) valueAtom(v ssa.Value, w int, order string, at ssa.Instruction) Atom {
	f, e, lenOf, narrow := x.desc(v)
	a := Atom{Kind: "fixed", Width: w, Order: order, Field: f, Expr: e, Val: v, LenOf: lenOf, Narrow: narrow, At: at, Pos: at.Pos()}
	if w == 1 {
		a.Order = ""
		if f == "" && strings.HasPrefix(e, "const ") {
			a.Kind, a.Expr = "const", e[6:]
		}
	}
	return a
}

// nested: bytes returned by a call (EncodeFoo(x), x.Marshal(), …).
func (x *X) nested(call *ssa.Call, pos token.Pos) []Atom {
	cc := call.Common()
	a := Atom{Kind: "nested", Callee: cc.StaticCallee(), Val: call, At: call, Pos: pos}
	var subject ssa.Value
	if cc.IsInvoke() {
		subject = cc.Value
	} else if len(cc.Args) > 0 {
		subject = cc.Args[0]
	}
	if a.Callee == nil {
		a.Expr = "dynamic call"
	}
	if subject != nil {
		if p, ok := x.Path(subject); ok {
			a.Field = p
		} else if p, ok := x.basePath(subject); ok {
			a.Field = p
		} else {
			f, e, _, _ := x.desc(subject)
			a.Field, a.Expr = f, e
		}
	}
	return []Atom{a}
}

// encSlice: a fixed scratch / literal buffer, or a view of another sequence.
func (x *X) encSlice(s *ssa.Slice, at ssa.Instruction) []Atom {
	if al, ok := s.X.(*ssa.Alloc); ok && s.Low == nil {
		if arr, ok := deref(al.Type()).Underlying().(*types.Array); ok {
			n := arr.Len()
			if s.High != nil {
				h, isK := constI(s.High)
				if !isK || h > n {
					return unknown(s.Pos(), "fixed buffer sliced to a variable length")
				}
				n = h
			}
			return x.bufContent(s, n, at)
		}
	}
	if s.Low == nil && s.High == nil {
		return x.enc(s.X, at)
	}
	// a sub-slice of a subject field: c.F[a:b] over an array field
	if p, ok := x.Path(s.X); ok {
		if arr, isArr := deref(s.X.Type()).Underlying().(*types.Array); isArr {
			lo, hi := int64(0), arr.Len()
			okc := true
			if s.Low != nil {
				lo, okc = constI(s.Low)
			}
			if s.High != nil && okc {
				hi, okc = constI(s.High)
			}
			if okc {
				return []Atom{{Kind: "bytes", Field: fmt.Sprintf("%s[%d:%d]", p, lo, hi), Width: int(hi - lo), Val: s, Pos: s.Pos()}}
			}
		}
	}
	return unknown(s.Pos(), "sub-slice %s", x.exprString(s, 0))
}

// bwrite is one write into a fixed buffer.
type bwrite struct {
	in   ssa.Instruction
	off  int64
	w    int64
	atom Atom
}

func (x *X) collectWrites(buf ssa.Value, base int64, out *[]bwrite, bad *string) {
	refs := buf.Referrers()
	if refs == nil {
		return
	}
	for _, r := range *refs {
		switch y := r.(type) {
		case *ssa.Call:
			cc := y.Common()
			if kind, w, order := binCall(y); kind == "put" {
				if cc.Args[1] == buf {
					*out = append(*out, bwrite{y, base, int64(w), x.valueAtom(cc.Args[2], w, order, y)})
				}
				continue
			} else if kind != "" {
				continue
			}
			if b, ok := cc.Value.(*ssa.Builtin); ok {
				switch b.Name() {
				case "copy":
					if cc.Args[0] == buf {
						*bad = "copy into a fixed buffer"
					}
				}
				continue
			}
			for _, a := range cc.Args {
				if a == buf {
					*bad = "buffer passed to " + x.exprString(y, 0)
				}
			}
		case *ssa.Slice:
			lo := int64(0)
			if y.Low != nil {
				k, ok := constI(y.Low)
				if !ok {
					*bad = "write through a variable-offset sub-slice"
					continue
				}
				lo = k
			}
			x.collectWrites(y, base+lo, out, bad)
		case *ssa.IndexAddr:
			idx, ok := constI(y.Index)
			for _, rr := range *y.Referrers() {
				st, isSt := rr.(*ssa.Store)
				if !isSt || st.Addr != ssa.Value(y) {
					continue
				}
				if !ok {
					*bad = "variable-index store into a fixed buffer"
					continue
				}
				*out = append(*out, bwrite{st, base + idx, 1, x.valueAtom(st.Val, 1, "", st)})
			}
		case *ssa.Store:
			if y.Val == buf {
				*bad = "fixed buffer stored into a variable"
			}
		case *ssa.MakeClosure:
			*bad = "fixed buffer captured by a closure"
		}
	}
}

// bufContent: the layout of a fixed-size buffer as it is at instruction at.
// Every write that dominates `at` contributes unless a later dominating write
// covers it; a write that does not dominate `at` but can reach it without
// being covered again makes the content undecidable.
func (x *X) bufContent(buf ssa.Value, n int64, at ssa.Instruction) []Atom {
	if n == 0 {
		return nil
	}
	var ws []bwrite
	bad := ""
	x.collectWrites(buf, 0, &ws, &bad)
	if sl, ok := buf.(*ssa.Slice); ok {
		if al, ok := sl.X.(*ssa.Alloc); ok {
			for _, r := range *al.Referrers() {
				switch y := r.(type) {
				case *ssa.Slice:
					if y != sl {
						bad = "backing array sliced twice"
					}
				case *ssa.IndexAddr:
					idx, ok := constI(y.Index)
					for _, rr := range *y.Referrers() {
						if st, isSt := rr.(*ssa.Store); isSt && st.Addr == ssa.Value(y) {
							if !ok {
								bad = "variable-index store into a literal"
								continue
							}
							ws = append(ws, bwrite{st, idx, 1, x.valueAtom(st.Val, 1, "", st)})
						}
					}
				}
			}
		}
	}
	if bad != "" {
		return unknown(buf.Pos(), "%s", bad)
	}
	overlap := func(a, b bwrite) bool { return a.off < b.off+b.w && b.off < a.off+a.w }
	covers := func(a, b bwrite) bool { return a.off <= b.off && b.off+b.w <= a.off+a.w }
	var dom []bwrite
	for _, w := range ws {
		if x.domI(w.in, at) {
			dom = append(dom, w)
		}
	}
	sort.SliceStable(dom, func(i, j int) bool { return x.domI(dom[i].in, dom[j].in) })
	var live []bwrite
	for i, w := range dom {
		killed := false
		for j := i + 1; j < len(dom); j++ {
			if overlap(dom[j], w) {
				if !covers(dom[j], w) {
					return unknown(w.atom.Pos, "partially overlapping writes into a fixed buffer")
				}
				killed = true
			}
		}
		if !killed {
			live = append(live, w)
		}
	}
	isDom := func(w bwrite) bool {
		for _, d := range dom {
			if d.in == w.in {
				return true
			}
		}
		return false
	}
	for _, w := range ws {
		if isDom(w) || w.off >= n {
			continue
		}
		if !x.pathExists(w.in, at, nil) {
			continue
		}
		covered := false
		for _, s := range live {
			if covers(s, w) && !x.pathExists(w.in, at, s.in) {
				covered = true
			}
		}
		if !covered {
			return unknown(w.atom.Pos, "a conditional write into the buffer may reach its use")
		}
	}
	sort.SliceStable(live, func(i, j int) bool { return live[i].off < live[j].off })
	var out []Atom
	pos := int64(0)
	zero := func(k int64) {
		if k <= 4 {
			for i := int64(0); i < k; i++ {
				out = append(out, Atom{Kind: "const", Width: 1, Expr: "0"})
			}
			return
		}
		out = append(out, Atom{Kind: "pad", Width: int(k)})
	}
	for _, w := range live {
		if w.off >= n {
			continue
		}
		if w.off+w.w > n {
			return unknown(w.atom.Pos, "write beyond the length of the buffer")
		}
		if w.off > pos {
			zero(w.off - pos)
		}
		out = append(out, w.atom)
		pos = w.off + w.w
	}
	if pos < n {
		zero(n - pos)
	}
	return out
}

// encPhi: loop-carried accumulation (repeat) or a join of equal alternatives.
func (x *X) encPhi(p *ssa.Phi) []Atom {
	pb := p.Block()
	var entries, backs []int
	for i, pr := range pb.Preds {
		if pb.Dominates(pr) {
			backs = append(backs, i)
		} else {
			entries = append(entries, i)
		}
	}
	term := func(b *ssa.BasicBlock) ssa.Instruction { return b.Instrs[len(b.Instrs)-1] }
	if len(backs) > 0 && len(entries) == 1 {
		pre := x.enc(p.Edges[entries[0]], term(pb.Preds[entries[0]]))
		rep := x.repeatOf(pb, p.Pos())
		for _, i := range backs {
			b := x.minusPrefix(p.Edges[i], p)
			if b == nil {
				return append(pre, unknown(p.Pos(), "loop does not extend the buffer by appending")...)
			}
			if len(backs) > 1 {
				for k := range b {
					b[k].Cond = true
				}
			}
			rep.Body = append(rep.Body, b...)
		}
		return append(pre, rep)
	}
	if len(backs) == 0 {
		var alts [][]Atom
		for i, ed := range p.Edges {
			alts = append(alts, x.enc(ed, term(pb.Preds[i])))
		}
		n := 0
		for {
			ok := n < len(alts[0])
			for _, a := range alts {
				if n >= len(a) || !ok || a[n].String() != alts[0][n].String() {
					ok = false
				}
			}
			if !ok {
				break
			}
			n++
		}
		out := append([]Atom(nil), alts[0][:n]...)
		for _, a := range alts {
			for _, r := range a[n:] {
				r.Cond = true
				out = append(out, r)
			}
		}
		return out
	}
	return unknown(p.Pos(), "irreducible φ")
}

// minusPrefix returns what v appends after φ p, or nil if v does not extend p.
func (x *X) minusPrefix(v ssa.Value, p *ssa.Phi) []Atom {
	if v == ssa.Value(p) {
		return []Atom{}
	}
	switch t := v.(type) {
	case *ssa.Call:
		if b, ok := t.Call.Value.(*ssa.Builtin); ok && b.Name() == "append" {
			pre := x.minusPrefix(t.Call.Args[0], p)
			if pre == nil {
				return nil
			}
			if len(t.Call.Args) > 1 {
				return append(pre, x.enc(t.Call.Args[1], t)...)
			}
			return pre
		}
		if kind, w, order := binCall(t); kind == "append" {
			pre := x.minusPrefix(t.Call.Args[1], p)
			if pre == nil {
				return nil
			}
			return append(pre, x.valueAtom(t.Call.Args[2], w, order, t))
		}
		if tail, ok := x.inlineAppender(t); ok {
			pre := x.minusPrefix(t.Call.Args[0], p)
			if pre == nil {
				return nil
			}
			return append(pre, tail...)
		}
	case *ssa.Phi:
		pb := t.Block()
		isLoop := false
		for _, pr := range pb.Preds {
			if pb.Dominates(pr) {
				isLoop = true
			}
		}
		if !isLoop {
			var body []Atom
			var first string
			same := true
			var alts [][]Atom
			for i, ed := range t.Edges {
				b := x.minusPrefix(ed, p)
				if b == nil {
					return nil
				}
				alts = append(alts, b)
				if i == 0 {
					first = Render(b)
				} else if Render(b) != first {
					same = false
				}
			}
			if same {
				return alts[0]
			}
			for _, b := range alts {
				for _, a := range b {
					a.Cond = true
					body = append(body, a)
				}
			}
			return body
		}
		var entry ssa.Value
		var back []ssa.Value
		for i, pr := range pb.Preds {
			if pb.Dominates(pr) {
				back = append(back, t.Edges[i])
			} else {
				if entry != nil {
					return nil
				}
				entry = t.Edges[i]
			}
		}
		if entry == nil {
			return nil
		}
		pre := x.minusPrefix(entry, p)
		if pre == nil {
			return nil
		}
		rep := x.repeatOf(pb, t.Pos())
		for _, b := range back {
			bb := x.minusPrefix(b, t)
			if bb == nil {
				return nil
			}
			rep.Body = append(rep.Body, bb...)
		}
		return append(pre, rep)
	}
	return nil
}

// loopBound returns the value the loop counter is compared against in the
// header of a loop (the Y of `i < Y`, whichever side it is written on).
func loopBound(hb *ssa.BasicBlock) (bound, counter ssa.Value, ok bool) {
	iff, isIf := hb.Instrs[len(hb.Instrs)-1].(*ssa.If)
	if !isIf {
		return nil, nil, false
	}
	cmp, isCmp := iff.Cond.(*ssa.BinOp)
	if !isCmp {
		return nil, nil, false
	}
	inLoopDef := func(v ssa.Value) bool {
		in, isIn := v.(ssa.Instruction)
		if !isIn {
			return false
		}
		if _, isPhi := v.(*ssa.Phi); isPhi && in.Block() == hb {
			return true
		}
		// rangeindex: t43 = φ + 1 defined in the header
		if b, isB := v.(*ssa.BinOp); isB && in.Block() == hb {
			if _, isPhi := b.X.(*ssa.Phi); isPhi {
				return true
			}
		}
		return false
	}
	switch cmp.Op {
	case token.LSS, token.LEQ, token.NEQ:
		if inLoopDef(cmp.X) {
			return cmp.Y, cmp.X, true
		}
	case token.GTR, token.GEQ:
		if inLoopDef(cmp.Y) {
			return cmp.X, cmp.Y, true
		}
	}
	if inLoopDef(cmp.X) {
		return cmp.Y, cmp.X, true
	}
	if inLoopDef(cmp.Y) {
		return cmp.X, cmp.Y, true
	}
	return nil, nil, false
}

// repeatOf builds the repeat atom for the loop headed by hb: what it ranges over.
func (x *X) repeatOf(hb *ssa.BasicBlock, pos token.Pos) Atom {
	a := Atom{Kind: "repeat", Over: "?", Pos: pos, Loop: x.LoopOf(hb)}
	bound, _, ok := loopBound(hb)
	if !ok {
		return a
	}
	b := StripConv(bound)
	if call, isCall := b.(*ssa.Call); isCall {
		if bi, isB := call.Call.Value.(*ssa.Builtin); isB && bi.Name() == "len" {
			arg := call.Call.Args[0]
			if lit, isLit := x.litOf(arg); isLit {
				a.Over, a.Lit = "§", lit
				return a
			}
			if p, okp := x.basePath(arg); okp {
				a.Over = p
				return a
			}
			a.Over = x.exprString(arg, 0)
			return a
		}
	}
	f, e, _, _ := x.desc(bound)
	if f != "" {
		a.Over = f
	} else {
		a.Over = e
	}
	return a
}

// ExpandLits unrolls `for _, s := range [][]T{p.A, p.B} { for _, e := range s {…} }`
// into one repeat per literal element.
func ExpandLits(as []Atom) []Atom {
	var out []Atom
	for _, a := range as {
		if a.Kind != "repeat" {
			out = append(out, a)
			continue
		}
		a.Body = ExpandLits(a.Body)
		if len(a.Lit) == 0 {
			out = append(out, a)
			continue
		}
		for _, el := range a.Lit {
			out = append(out, substAtoms(a.Body, "§[*]", el)...)
		}
	}
	return out
}

func substAtoms(as []Atom, from, to string) []Atom {
	out := make([]Atom, len(as))
	for i, a := range as {
		a.Field = strings.ReplaceAll(a.Field, from, to)
		a.Over = strings.ReplaceAll(a.Over, from, to)
		a.Count = strings.ReplaceAll(a.Count, from, to)
		a.Expr = strings.ReplaceAll(a.Expr, from, to)
		a.Body = substAtoms(a.Body, from, to)
		out[i] = a
	}
	return out
}

// LoopBound exposes loopBound to rule code: the value the counter of the loop
// headed by hb is compared against, and the counter.
func LoopBound(hb *ssa.BasicBlock) (bound, counter ssa.Value, ok bool) { return loopBound(hb) }

// inlineAppender: a call to an in-module helper func(buf []byte, v…) []byte
// whose result is its first parameter extended by fixed atoms of its other
// parameters (an extracted "put" helper) is read as those atoms applied to the
// caller's arguments. Only the appended tail is returned.
func (x *X) inlineAppender(call *ssa.Call) ([]Atom, bool) {
	cc := call.Common()
	f := cc.StaticCallee()
	if f == nil || f.Blocks == nil || !x.W.P.InModule(f) || cc.IsInvoke() || f == x.Fn {
		return nil, false
	}
	if f.Signature.Results().Len() != 1 || !isByteSeq(f.Signature.Results().At(0).Type()) {
		return nil, false
	}
	if len(cc.Args) == 0 || len(cc.Args) != len(f.Params) || !isByteSeq(cc.Args[0].Type()) {
		return nil, false
	}
	for y := x; y != nil; y = y.Parent {
		if y.Fn == f {
			return nil, false
		}
	}
	child := New(x.W, f)
	child.Parent = x
	alts := child.EncLayouts()
	if len(alts) != 1 || len(alts[0].Atoms) < 1 {
		return nil, false
	}
	as := alts[0].Atoms
	if as[0].Kind != "bytes" || as[0].Val != ssa.Value(f.Params[0]) {
		return nil, false
	}
	out := []Atom{}
	for _, a := range as[1:] {
		switch a.Kind {
		case "const", "pad":
			out = append(out, a)
		case "fixed":
			pv, isP := StripConv(a.Val).(*ssa.Parameter)
			if !isP {
				return nil, false
			}
			idx := -1
			for i, q := range f.Params {
				if q == pv {
					idx = i
				}
			}
			if idx < 0 {
				return nil, false
			}
			na := x.valueAtom(cc.Args[idx], a.Width, a.Order, call)
			na.Narrow = na.Narrow || a.Narrow
			out = append(out, na)
		default:
			return nil, false
		}
	}
	return out, true
}
